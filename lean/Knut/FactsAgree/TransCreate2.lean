import Knut.FactsAgree.TransCreate
/-!
# The translated MODEL LAYER conversion (syntax tree → model directives) agrees with `Model/FromSyntax.lean`, part 2

`transaction.Create` and `model.ParseDirective` (`Knut/Generated/TransCreateTransaction.lean`, `TransCreateModel.lean`), on top of part 1
(`TransCreate.lean`: hypotheses, registry model, `posting.Create` …) and of `TransTransaction.expand_agrees`.

`transaction.Create` calls `expand(reg, res, &t.Addons.Accrual)`, whose translation (owned by `TransTransaction`) has the results of its
four calls on the accrual node as parameters `ext1…ext4`; they are handed through as `extra…` parameters of `transaction.Create` and
`model.ParseDirective`.  WHICH calls they stand for is pinned by source text (`transaction.Create.externals`, checked below); the
theorems take them as `ExpandExt`: exactly what `reg.Accounts().Create(accrual.Account)`, `accrual.Start.Parse()`, `accrual.End.Parse()`,
`accrual.Interval.Extract()` return on `goAccrual text path t.addons.accrual` (`expandExt_exists`: they exist).

`transaction.Builder.Build` replaces the double quotes of the description BEFORE the expansion; the model keeps the description and
replaces them when it prints.  `expand_same` shows that the model's expansion commutes with the replacement (`SameBut`), so the Go
transactions stand for the model's in the sense of `TransProcess.TRel` (description equal up to `descText`).

| Go | theorem | model |
|---|---|---|
| the `@performance` loop of `transaction.Create` | `targets_range1_agrees` | `mapM fieldStr` (nil without the annotation) |
| `expand` on the accrual node | `expand_node_agrees` | `accrualM`, `Accrual.expand` |
| `transaction.Create` | **`transaction_Create_agrees`** | `txM` (= `FromSyntax.item`: `item_tx`), `Accrual.create` |
| `model.ParseDirective` | **`ParseDirective_agrees`** | `FromSyntax.item`, `FromSyntax.loadItems` |
-/
namespace Knut.FactsAgree.TransCreate
open Knut Knut.GoSem Knut.JournalPrinter
open Knut.Generated.Go
open Knut.FactsAgree.TransScanner Knut.FactsAgree.TransParser
open Knut.FactsAgree.TransAccount Knut.FactsAgree.TransPosting Knut.FactsAgree.TransTransaction
open Knut.FactsAgree.TransProcess (AllRel TRel PRel PriceRel priceGo)
open Knut.FactsAgree.TransJournal (DirRel OpenRel CloseRel BalRel AssertRel)
open Knut.FactsAgree.TransCheck (openGo closeGo balanceGo)

/-! ### the description after `Builder.Build` -/

theorem descText_append (a b : String) : descText (a ++ b) = descText a ++ descText b := by
  simp [descText, String.toList_append, String.ofList_append]

theorem descText_idem (s : String) : descText (descText s) = descText s := by
  unfold descText
  simp only [String.toList_ofList, List.map_map]
  congr 1
  apply List.map_congr_left
  intro c _
  by_cases h : c = '"'
  · subst h; decide
  · simp [h]

/-- two transactions that differ in their descriptions only, and only up to the replacement of the double quotes -/
def SameBut (x y : Knut.Transaction) : Prop :=
  x.date = y.date ∧ x.postings = y.postings ∧ x.targets = y.targets ∧ descText x.description = descText y.description

theorem partDesc_descText (d : String) (i n : Nat) :
    descText (Accrual.partDesc (descText d) i n) = descText (Accrual.partDesc d i n) := by
  simp only [TransTransaction.partDesc_eq, descText_append, descText_idem]


/-- the transaction as `transaction.Builder.Build` leaves it -/
def quoted (t : Knut.Transaction) : Knut.Transaction := { t with description := descText t.description }

theorem AllRel_append' {α β : Type} {R : α → β → Prop} {a1 a2 : List α} {b1 b2 : List β} (h1 : AllRel R a1 b1) (h2 : AllRel R a2 b2) :
    AllRel R (a1 ++ a2) (b1 ++ b2) := by
  induction h1 with
  | nil => simpa using h2
  | cons h _ ih => exact .cons h ih

theorem ieLoop_same (t : Knut.Transaction) (acc : Knut.Account) (p : Knut.Posting) (n : Nat) (amount rem : Rat) :
    ∀ (ends : List Int) (i : Nat),
      AllRel SameBut (Accrual.ieLoop (quoted t) acc p n amount rem i ends) (Accrual.ieLoop t acc p n amount rem i ends) := by
  intro ends
  induction ends with
  | nil => intro i; exact .nil
  | cons dt rest ih =>
    intro i
    simp only [Accrual.ieLoop]
    refine .cons ?_ (ih (i + 1))
    exact ⟨rfl, rfl, rfl, by simp [Accrual.rebook, quoted, partDesc_descText]⟩

/-- outcomes of the model's expansion that agree up to `SameBut` -/
def StepSame : Accrual.Step → Accrual.Step → Prop
  | .ok xs, .ok ys => AllRel SameBut xs ys
  | .panic s, .panic s' => s = s'
  | _, _ => False

theorem expandPosting_same (t : Knut.Transaction) (a : Accrual.Addon) (p : Knut.Posting) :
    StepSame (Accrual.expandPosting (quoted t) a p) (Accrual.expandPosting t a p) := by
  unfold Accrual.expandPosting
  by_cases hie : p.account.isIE = true
  · simp only [hie, Bool.not_true, Bool.false_eq_true, if_false]
    cases newPartition ⟨a.start, a.stop⟩ a.interval 0 with
    | panic s => simp [StepSame]
    | ok part =>
      simp only []
      cases Dec.quoRem p.quantity ((part.size : Int) : Rat) Accrual.quoRemPlaces with
      | none => simp [StepSame]
      | some r => exact ieLoop_same t a.account p part.size r.1 r.2 part.endDates 0
  · simp only [hie, Bool.not_false, if_true]
    exact .cons ⟨rfl, rfl, rfl, by simp [Accrual.rebook, quoted, descText_idem]⟩ .nil

theorem expandLoop_same (t : Knut.Transaction) (a : Accrual.Addon) :
    ∀ ps : List Knut.Posting, StepSame (Accrual.expandLoop (quoted t) a ps) (Accrual.expandLoop t a ps) := by
  intro ps
  induction ps with
  | nil => exact .nil
  | cons p rest ih =>
    simp only [Accrual.expandLoop]
    have hp := expandPosting_same t a p
    cases h1 : Accrual.expandPosting (quoted t) a p <;> cases h2 : Accrual.expandPosting t a p <;> simp only [h1, h2, StepSame] at hp ⊢
    · cases h3 : Accrual.expandLoop (quoted t) a rest <;> cases h4 : Accrual.expandLoop t a rest <;> simp only [h3, h4, StepSame] at ih ⊢
      · exact AllRel_append' hp ih
      · exact ih
    · exact hp

/-- results of the model's `expand` / `create` that agree up to `SameBut` -/
def ResultSame : Accrual.Result → Accrual.Result → Prop
  | .ok xs, .ok ys => AllRel SameBut xs ys
  | .error, .error => True
  | .panic s, .panic s' => s = s'
  | _, _ => False

/-- the model's expansion of the transaction with the double quotes replaced (what Go expands: `Builder.Build` came first) and of the
transaction itself give the same transactions up to that replacement in the descriptions -/
theorem expand_same (t : Knut.Transaction) (a : Accrual.Addon) :
    ResultSame (Accrual.expand (quoted t) a) (Accrual.expand t a) := by
  unfold Accrual.expand
  by_cases hw : a.account.wf = true
  · by_cases hlt : a.stop < a.start
    · simp [hw, hlt, ResultSame]
    · simp only [hw, hlt, Bool.not_true, Bool.false_eq_true, if_false]
      have hl := expandLoop_same t a t.postings
      have hq : (quoted t).postings = t.postings := rfl
      rw [hq]
      cases h1 : Accrual.expandLoop (quoted t) a t.postings <;> cases h2 : Accrual.expandLoop t a t.postings <;>
        simp only [h1, h2, StepSame] at hl ⊢
      · exact hl
      · exact hl
  · simp [hw, ResultSame]


/-! ### annotations -/

theorem Empty_perf (text : Bytes) (path : String) (a : Syntax.Addons) :
    directives.Range.Empty (goAddonsZ text path a).Performance.Range = a.performance.range.empty := by
  unfold goAddonsZ
  split
  · rename_i h; subst h; rfl
  · exact Empty_goPerfZ text path a.performance

theorem Empty_accr (text : Bytes) (path : String) (a : Syntax.Addons) :
    directives.Range.Empty (goAddonsZ text path a).Accrual.Range = a.accrual.range.empty := by
  unfold goAddonsZ
  split
  · rename_i h; subst h; rfl
  · exact Empty_goAccrZ text path a.accrual

theorem perf_of_nonempty (text : Bytes) (path : String) (a : Syntax.Addons) (h : a.performance.range.empty = false) :
    (goAddonsZ text path a).Performance = goPerformance text path a.performance := by
  unfold goAddonsZ
  split
  · rename_i h'; subst h'; simp [Syntax.Addons.zero, Syntax.Performance.zero, Syntax.Range.zero, Syntax.Range.empty] at h
  · simp only [goAddons, goPerfZ]
    split
    · rename_i h'; rw [h'] at h; simp [Syntax.Performance.zero, Syntax.Range.zero, Syntax.Range.empty] at h
    · rfl

theorem accr_of_nonempty (text : Bytes) (path : String) (a : Syntax.Addons) (h : a.accrual.range.empty = false) :
    (goAddonsZ text path a).Accrual = goAccrual text path a.accrual := by
  unfold goAddonsZ
  split
  · rename_i h'; subst h'; simp [Syntax.Addons.zero, Syntax.Accrual.zero, Syntax.Range.zero, Syntax.Range.empty] at h
  · simp only [goAddons, goAccrZ]
    split
    · rename_i h'; rw [h'] at h; simp [Syntax.Accrual.zero, Syntax.Range.zero, Syntax.Range.empty] at h
    · rfl

/-- the loop over the `@performance` targets: every commodity through the registry -/
theorem targets_range1_agrees {text : Bytes} {path : String} (cur : String → Bool) (tx : directives.Transaction) :
    ∀ (items : List Syntax.Commodity) (acc : List commodity.Commodity), (∀ c ∈ items, CommodityOK text c) →
      ∃ names, items.mapM (fun c => FromSyntax.fieldStr text c.range) = some names ∧
        transaction.Create.range1 (regCommodity cur) tx (items.map (goCommodity text path)) (some acc)
          = .ok (Flow.next (some (acc ++ names.map (commodityGo cur)))) := by
  intro items
  induction items with
  | nil => intro acc _; exact ⟨[], by simp, by simp [transaction.Create.range1]⟩
  | cons c rest ih =>
    intro acc hok
    obtain ⟨s, hs, hv⟩ := hok c (by simp)
    obtain ⟨names, hn, hr⟩ := ih (acc ++ [commodityGo cur s]) (fun c' hc' => hok c' (by simp [hc']))
    refine ⟨s :: names, by simp [hs, hn], ?_⟩
    simp only [List.map_cons, transaction.Create.range1, regCommodity_agrees hs hv, Option.isSome_none, Bool.false_eq_true,
      if_false, Option.getD_some, hr]
    simp


/-! ### `transaction.Create` -/

theorem account_wf {text : Bytes} {a : Syntax.Account} {acc : Knut.Account} (h : FromSyntax.account text a = some acc) : acc.wf = true := by
  unfold FromSyntax.account at h
  cases hs : FromSyntax.fieldStr text a.range with
  | none => simp [hs] at h
  | some s =>
    simp only [hs, Option.bind_eq_bind, Option.bind_some] at h
    split at h
    · rename_i hw; simp only [Option.some.injEq] at h; rw [← h]; exact hw
    · simp at h

theorem interval_ivName {s : String} {iv : Knut.Interval} (h : FromSyntax.interval s = some iv) : s = ivName iv := by
  unfold FromSyntax.interval at h
  split at h
  · rename_i e; cases h; exact e
  · split at h
    · rename_i e; cases h; exact e
    · split at h
      · rename_i e; cases h; exact e
      · split at h
        · rename_i e; cases h; exact e
        · simp at h

/-- the `@accrue` annotation in the model (`FromSyntax.item`) -/
def accrualM (text : Bytes) (a : Syntax.Accrual) : Option Accrual.Addon := do
  let ivs ← FromSyntax.fieldStr text a.interval.range
  let iv ← FromSyntax.interval ivs
  let s ← FromSyntax.date text a.start
  let e ← FromSyntax.date text a.stop
  let acc ← FromSyntax.account text a.account
  pure (⟨iv, s, e, acc⟩ : Accrual.Addon)

/-- the interval keyword is one of the grammar's four (`date.ParseInterval` also knows `once` and `yearly`) -/
def AccrualOK (text : Bytes) (a : Syntax.Accrual) : Prop :=
  (∃ s, FromSyntax.fieldStr text a.interval.range = some s ∧ (FromSyntax.interval s).isSome = true) ∧
    TextOK text a.start.range ∧ TextOK text a.stop.range ∧ AccountOK text a.account

/-- what the `ext` parameters of `expand` stand for (`transaction.Create.externals`): the results of
`reg.Accounts().Create(accrual.Account)`, `accrual.Start.Parse()`, `accrual.End.Parse()`, `accrual.Interval.Extract()` on the accrual
node `&t.Addons.Accrual` -/
structure ExpandExt (text : Bytes) (path : String) (a : Syntax.Accrual) (x5 : account.Account × Option Error)
    (x6 x7 : Int × Option Error) (x8 : String) : Prop where
  account : x5 = regAccount (goAccount text path a.account)
  start : directives.Date.Parse (goDate text path a.start) = .ok x6
  stop : directives.Date.Parse (goDate text path a.stop) = .ok x7
  interval : Bridge.extract (goRange text path a.interval.range) = .ok x8

/-- `expand` on the accrual node, with the `ext` parameters what the calls return -/
theorem expand_node_agrees {text : Bytes} {path : String} (cur : String → Bool) (a : Syntax.Accrual) (hok : AccrualOK text a)
    {x5 : account.Account × Option Error} {x6 x7 : Int × Option Error} {x8 : String} (hx : ExpandExt text path a x5 x6 x7 x8)
    (t : Knut.Transaction) (accr : Ref) :
    match accrualM text a with
    | none => IsErr (transaction.expand (txGo cur Ref.node Ref.node t) accr x5 x6 x7 x8)
    | some ad => transaction.expand (txGo cur Ref.node Ref.node t) accr x5 x6 x7 x8 = match Accrual.expand t ad with
        | .ok txs => GoSem.Outcome.ok (txs.map (txGoD cur Ref.node ⟨0⟩), none)
        | .error => GoSem.Outcome.ok ([], some ⟨"accrual period ends before it starts"⟩)
        | .panic s => GoSem.Outcome.panic s := by
  obtain ⟨⟨ivs, hiv, hivk⟩, hs, he, ha⟩ := hok
  obtain ⟨iv, hivk⟩ := Option.isSome_iff_exists.mp hivk
  have h5 := hx.account
  rw [regAccount_agrees ha] at h5
  have h6 := hx.start
  rw [Date_Parse_agrees hs] at h6
  have h7 := hx.stop
  rw [Date_Parse_agrees he] at h7
  have h8 := hx.interval
  rw [extract_ok hiv] at h8
  simp only [GoSem.Outcome.ok.injEq] at h6 h7 h8
  subst h5 h6 h7 h8
  unfold accrualM
  simp only [hiv, hivk, Option.bind_eq_bind, Option.bind_some]
  cases hacc : FromSyntax.account text a.account with
  | none =>
    cases FromSyntax.date text a.start <;> cases FromSyntax.date text a.stop <;>
      (simp only [Option.bind_none, Option.bind_some]; rw [expand_account_error]; exact isErr_ok _ _)
  | some acc =>
    cases hst : FromSyntax.date text a.start with
    | none =>
      simp only [Option.bind_none]
      rw [expand_start_error]; exact isErr_ok _ _
    | some st =>
      cases hen : FromSyntax.date text a.stop with
      | none =>
        simp only [Option.bind_none, Option.bind_some]
        rw [expand_end_error]; exact isErr_ok _ _
      | some en =>
        simp only [Option.bind_some]
        rw [interval_ivName hivk]
        exact expand_agrees cur Ref.node Ref.node accr t ⟨iv, st, en, acc⟩ (account_wf hacc)


theorem AllRel_PRel_map (cur : String → Bool) (src : Ref) (ps : List Knut.Posting) :
    AllRel (PRel cur) (ps.map (postingGo cur src)) ps := by
  induction ps with
  | nil => exact .nil
  | cons p rest ih => exact .cons rfl ih

/-- the Go transaction after `Builder.Build` stands for the model transaction (`TRel` allows the replaced quotes) -/
theorem TRel_same (cur : String → Bool) (s1 s2 : Ref) {x y : Knut.Transaction} (h : SameBut x y) : TRel cur (txGoD cur s1 s2 x) y := by
  obtain ⟨hd, hp, ht, hdesc⟩ := h
  refine ⟨hd, Or.inr hdesc, ?_, by simp [txGoD, txGo, ht]⟩
  simp only [txGoD, txGo, hp]
  exact AllRel_PRel_map cur s2 y.postings

theorem TRel_quoted (cur : String → Bool) (s1 s2 : Ref) (t : Knut.Transaction) : TRel cur (txGo cur s1 s2 (quoted t)) t :=
  ⟨rfl, Or.inr rfl, AllRel_PRel_map cur s2 t.postings, rfl⟩

theorem AllRel_TRel_map (cur : String → Bool) (s1 s2 : Ref) {xs ys : List Knut.Transaction} (h : AllRel SameBut xs ys) :
    AllRel (TRel cur) (xs.map (txGoD cur s1 s2)) ys := by
  induction h with
  | nil => exact .nil
  | cons h _ ih => exact .cons (TRel_same cur s1 s2 h) ih

/-- the result of `transaction.Create` against the model's: the transactions stand for the model's (`TRel`: every `Src` arbitrary,
descriptions with the double quotes replaced), an error for an error, the same panic -/
def TxsRel (cur : String → Bool) (o : GoSem.Outcome (List transaction.Transaction × Option Error)) : Accrual.Result → Prop
  | .ok txs => ∃ gs, o = .ok (gs, none) ∧ AllRel (TRel cur) gs txs
  | .error => IsErr o
  | .panic s => o = .panic s

/-- the end of `transaction.Create`: `Builder.Build`, then the accrual expansion if there is an `@accrue` annotation -/
theorem finish_agrees {text : Bytes} {path : String} (cur : String → Bool) (ad : Syntax.Addons)
    (hacc : ad.accrual.range.empty = false → AccrualOK text ad.accrual)
    {x5 : account.Account × Option Error} {x6 x7 : Int × Option Error} {x8 : String}
    (hx : ad.accrual.range.empty = false → ExpandExt text path ad.accrual x5 x6 x7 x8)
    (dt : Int) (desc : String) (ps : List Knut.Posting) (tg : Option (List Knut.Commodity)) :
    let res := transaction.Builder.Build ⟨Ref.node, dt, desc, ps.map (postingGo cur Ref.node), tg.map (fun l => l.map (commodityGo cur))⟩
    let G : GoSem.Outcome (List transaction.Transaction × Option Error) :=
      if (!(directives.Range.Empty (goAddonsZ text path ad).Accrual.Range)) then
        GoSem.Outcome.bind (transaction.expand res Ref.node x5 x6 x7 x8) (fun r => GoSem.Outcome.ok r)
      else GoSem.Outcome.ok ([res], none)
    match (if ad.accrual.range.empty then some none else (accrualM text ad.accrual).map some) with
    | none => IsErr G
    | some ao => TxsRel cur G (match ao with | none => .ok [⟨dt, desc, ps, tg⟩] | some a => Accrual.expand ⟨dt, desc, ps, tg⟩ a) := by
  intro res G
  have hres : res = txGo cur Ref.node Ref.node (quoted ⟨dt, desc, ps, tg⟩) := by
    simp only [res, TransTransaction.Builder_Build_agrees, txGo, quoted]
  cases he : ad.accrual.range.empty with
  | true =>
    simp only [G, Empty_accr, he, Bool.not_true, Bool.false_eq_true, if_false, if_true, TxsRel]
    exact ⟨_, rfl, .cons (hres ▸ TRel_quoted cur Ref.node Ref.node _) .nil⟩
  | false =>
    simp only [G, Empty_accr, he, Bool.not_false, if_true, Bool.false_eq_true, if_false]
    have hn := expand_node_agrees (path := path) cur ad.accrual (hacc he) (hx he) (quoted ⟨dt, desc, ps, tg⟩) Ref.node
    rw [← hres] at hn
    cases ha : accrualM text ad.accrual with
    | none =>
      simp only [ha, Option.map_none] at hn ⊢
      obtain ⟨v, e, hv⟩ := hn
      rw [hv]; exact isErr_ok _ _
    | some a =>
      simp only [ha, Option.map_some] at hn ⊢
      rw [hn]
      have hs := expand_same ⟨dt, desc, ps, tg⟩ a
      cases h1 : Accrual.expand (quoted ⟨dt, desc, ps, tg⟩) a <;> cases h2 : Accrual.expand ⟨dt, desc, ps, tg⟩ a <;>
        simp only [h1, h2, ResultSame] at hs ⊢
      · exact ⟨_, rfl, AllRel_TRel_map cur Ref.node ⟨0⟩ hs⟩
      · exact isErr_ok _ _
      · simp [TxsRel, GoSem.Outcome.bind, hs]


def TxOK (text : Bytes) (t : Syntax.Transaction) : Prop :=
  TextOK text t.date.range ∧ TextOK text t.description.content ∧ (∀ b ∈ t.bookings, BookingOK text b) ∧
  (t.addons.performance.range.empty = false → ∀ c ∈ t.addons.performance.targets, CommodityOK text c) ∧
  (t.addons.accrual.range.empty = false → AccrualOK text t.addons.accrual)

/-- the model's conversion of a transaction, step by step -/
def txM (text : Bytes) (t : Syntax.Transaction) : Option Accrual.TxInput := do
  let dt ← FromSyntax.date text t.date
  let desc ← FromSyntax.fieldStr text t.description.content
  let bks ← t.bookings.mapM (FromSyntax.booking text)
  let targets ← (if t.addons.performance.range.empty then some none
    else (t.addons.performance.targets.mapM (fun c => FromSyntax.fieldStr text c.range)).map some)
  let accrual ← (if t.addons.accrual.range.empty then some none else (accrualM text t.addons.accrual).map some)
  pure { date := dt, description := desc, bookings := bks, targets := targets, accrual := accrual }

theorem item_tx (text : Bytes) (r : Syntax.Range) (t : Syntax.Transaction) :
    FromSyntax.item text ⟨r, .transaction t⟩ = (txM text t).map FromSyntax.Item.tx := by
  unfold FromSyntax.item txM accrualM
  simp only [Option.bind_eq_bind, Option.pure_def]
  cases FromSyntax.date text t.date <;> simp only [Option.bind_none, Option.bind_some, Option.map_none]
  cases FromSyntax.fieldStr text t.description.content <;> simp only [Option.bind_none, Option.bind_some, Option.map_none]
  cases List.mapM (FromSyntax.booking text) t.bookings <;> simp only [Option.bind_none, Option.bind_some, Option.map_none]
  cases (if t.addons.performance.range.empty = true then some none
    else Option.map some (List.mapM (fun c => FromSyntax.fieldStr text c.range) t.addons.performance.targets)) <;>
    simp only [Option.bind_none, Option.bind_some, Option.map_none]
  cases t.addons.accrual.range.empty <;> simp only [Bool.false_eq_true, if_false, if_true, Option.bind_some, Option.map_some]
  cases FromSyntax.fieldStr text t.addons.accrual.interval.range <;> simp only [Option.bind_none, Option.bind_some, Option.map_none]
  rename_i ivs
  cases FromSyntax.interval ivs <;> simp only [Option.bind_none, Option.bind_some, Option.map_none]
  cases FromSyntax.date text t.addons.accrual.start <;> simp only [Option.bind_none, Option.bind_some, Option.map_none]
  cases FromSyntax.date text t.addons.accrual.stop <;> simp only [Option.bind_none, Option.bind_some, Option.map_none]
  cases FromSyntax.account text t.addons.accrual.account <;> simp only [Option.bind_none, Option.bind_some, Option.map_none, Option.map_some]

theorem bookings_wf {text : Bytes} : ∀ {bs : List Syntax.Booking} {bks : List Accrual.Booking},
    bs.mapM (FromSyntax.booking text) = some bks → bks.all (fun b => b.credit.wf && b.debit.wf) = true
  | [], bks, h => by simp at h; subst h; rfl
  | b :: rest, bks, h => by
    simp only [List.mapM_cons, Option.bind_eq_bind, Option.pure_def] at h
    cases hb : FromSyntax.booking text b with
    | none => simp [hb] at h
    | some bk =>
      cases hr : rest.mapM (FromSyntax.booking text) with
      | none => simp [hb, hr] at h
      | some bks' =>
        simp only [hb, hr, Option.bind_some, Option.some.injEq] at h
        subst h
        have ih := bookings_wf hr
        unfold FromSyntax.booking at hb
        cases hc : FromSyntax.account text b.credit with
        | none => simp [hc] at hb
        | some cr =>
          cases hd : FromSyntax.account text b.debit with
          | none => simp [hc, hd] at hb
          | some dr =>
            cases hq : FromSyntax.decimal text b.quantity.range with
            | none => simp [hc, hd, hq] at hb
            | some q =>
              cases hf : FromSyntax.fieldStr text b.commodity.range with
              | none => simp [hc, hd, hq, hf] at hb
              | some c =>
                simp only [hc, hd, hq, hf, Option.bind_eq_bind, Option.bind_some, Option.pure_def, Option.some.injEq] at hb
                subst hb
                simp [account_wf hc, account_wf hd, ih]

/-- **`transaction.Create`**: date, description, postings (`posting.Create`), the `@performance` targets through the registry (nil
without the annotation), `Builder.Build`, then the accrual expansion.  With the registries fixed to their model and the `ext`
parameters of `expand` to what the calls on the accrual node return, the translated function returns what the model computes
(`FromSyntax.item`, then `Accrual.create`): transactions that stand for the model's, an error where the model fails, the same panic. -/
theorem transaction_Create_agrees {text : Bytes} {path : String} (cur : String → Bool) (t : Syntax.Transaction) (hok : TxOK text t)
    {x5 : account.Account × Option Error} {x6 x7 : Int × Option Error} {x8 : String}
    (hx : t.addons.accrual.range.empty = false → ExpandExt text path t.addons.accrual x5 x6 x7 x8) :
    match txM text t with
    | some tin => TxsRel cur (transaction.Create (goTransaction text path t) regAccount regAccount (regCommodity cur) (regCommodity cur)
        x5 x6 x7 x8 x5 x6 x7 x8) (Accrual.create tin)
    | none => IsErr (transaction.Create (goTransaction text path t) regAccount regAccount (regCommodity cur) (regCommodity cur)
        x5 x6 x7 x8 x5 x6 x7 x8) := by
  obtain ⟨hd, hdesc, hb, hp, ha⟩ := hok
  obtain ⟨desc, hdesc⟩ := Option.isSome_iff_exists.mp hdesc
  unfold transaction.Create txM
  simp only [goTransaction, goQuoted, Date_Parse_agrees hd, extract_ok hdesc, hdesc, Option.bind_eq_bind, Option.bind_some]
  cases FromSyntax.date text t.date with
  | none => simp [GoSem.Outcome.bind]; exact isErr_ok _ _
  | some dt =>
    simp only [GoSem.Outcome.bind, Option.isSome_none, Bool.false_eq_true, if_false, Option.bind_some]
    have hpc := posting_Create_agrees (path := path) cur t.bookings hb
    cases hm : t.bookings.mapM (FromSyntax.booking text) with
    | none =>
      simp only [hm] at hpc
      obtain ⟨e, he⟩ := hpc
      simp only [he, Option.bind_none, Option.isSome_some, if_true]
      exact isErr_ok _ _
    | some bks =>
      simp only [hm] at hpc
      simp only [hpc, Option.bind_some, Option.isSome_none, Bool.false_eq_true, if_false, Empty_perf, zero_option]
      have hfin := fun tg => finish_agrees (path := path) cur t.addons ha hx dt desc (Accrual.postingsOf bks) tg
      have hcreate : ∀ tg ao, Accrual.create { date := dt, description := desc, bookings := bks, targets := tg, accrual := ao } =
          (match ao with | none => .ok [⟨dt, desc, Accrual.postingsOf bks, tg⟩] | some a => Accrual.expand ⟨dt, desc, Accrual.postingsOf bks, tg⟩ a) := by
        intro tg ao
        unfold Accrual.create
        simp only [bookings_wf hm, Bool.not_true, Bool.false_eq_true, if_false]
        cases ao <;> rfl
      cases hpe : t.addons.performance.range.empty with
      | true =>
        simp only [Bool.not_true, Bool.false_eq_true, if_false, if_true, Option.bind_some]
        have := hfin none
        simp only [Option.map_none] at this
        cases hao : (if t.addons.accrual.range.empty = true then some none else Option.map some (accrualM text t.addons.accrual)) with
        | none => simp only [hao] at this ⊢; exact this
        | some ao => simp only [hao, Option.bind_some, Option.pure_def, hcreate] at this ⊢; exact this
      | false =>
        simp only [Bool.not_false, if_true, Bool.false_eq_true, if_false, perf_of_nonempty text path t.addons hpe, goPerformance]
        obtain ⟨names, hn, hr⟩ := targets_range1_agrees (path := path) cur
          ⟨goRange text path t.range, goDate text path t.date, ⟨goRange text path t.description.range, goRange text path t.description.content⟩,
            t.bookings.map (goBooking text path), goAddonsZ text path t.addons⟩ t.addons.performance.targets [] (hp hpe)
        simp only [hr, hn, Option.map_some, Option.bind_some, List.nil_append]
        have := hfin (some names)
        simp only [Option.map_some] at this
        cases hao : (if t.addons.accrual.range.empty = true then some none else Option.map some (accrualM text t.addons.accrual)) with
        | none => simp only [hao] at this ⊢; exact this
        | some ao => simp only [hao, Option.bind_some, Option.pure_def, hcreate] at this ⊢; exact this


/-! ### `model.ParseDirective` -/

/-- the texts of the fields of a directive are what the grammar guarantees (see `TransCreate.lean`) -/
def DirectiveOK (text : Bytes) (d : Syntax.Directive) : Prop :=
  match d.body with
  | .transaction t => TxOK text t
  | .open o => AccountOK text o.account ∧ TextOK text o.date.range
  | .close c => AccountOK text c.account ∧ TextOK text c.date.range
  | .assertion a => TextOK text a.date.range ∧ ∀ b ∈ a.balances, BalanceOK text b
  | .price p => TextOK text p.date.range ∧ CommodityOK text p.commodity ∧ CommodityOK text p.target ∧ DecimalOK text p.price
  | .include i => TextOK text i.includePath.content

/-- the result of `model.ParseDirective` against the model's (`FromSyntax.loadItems` of the one item): directives that stand for the
model's (`DirRel`: every `Src` arbitrary), an error for an error, the same panic -/
def DirsRel (cur : String → Bool) (o : GoSem.Outcome (List model.Directive × Option Error)) : FromSyntax.Loaded → Prop
  | .ok ds => ∃ gs, o = .ok (gs, none) ∧ AllRel (DirRel cur) gs ds
  | .error => IsErr o
  | .panic s => o = .panic s

/-- `model.ParseDirective` with the registries fixed to their model and the `ext` parameters of `expand` given -/
def goParseDirective (cur : String → Bool) (w : directives.Directive) (x5 : account.Account × Option Error) (x6 x7 : Int × Option Error)
    (x8 : String) : GoSem.Outcome (List model.Directive × Option Error) :=
  model.ParseDirective w regAccount regAccount (regCommodity cur) (regCommodity cur) x5 x6 x7 x8 x5 x6 x7 x8
    regAccount regAccount regAccount (regCommodity cur) (regCommodity cur) (regCommodity cur)

theorem foldl_dirs (gs : List transaction.Transaction) (acc : List model.Directive) :
    List.foldl (fun (st : List model.Directive) (el : transaction.Transaction) => st ++ [model.Directive.Transaction el]) acc gs
      = acc ++ gs.map model.Directive.Transaction := by
  induction gs generalizing acc with
  | nil => simp
  | cons g rest ih => simp [ih]

theorem AllRel_tx (cur : String → Bool) {gs : List transaction.Transaction} {txs : List Knut.Transaction} (h : AllRel (TRel cur) gs txs) :
    AllRel (DirRel cur) (gs.map model.Directive.Transaction) (txs.map Knut.Directive.tx) := by
  induction h with
  | nil => exact .nil
  | cons h _ ih => exact .cons h ih

theorem AllRel_bal (cur : String → Bool) (src : Ref) (bals : List Knut.Balance) :
    AllRel (BalRel cur) (bals.map (balanceGo cur src)) bals := by
  induction bals with
  | nil => exact .nil
  | cons b rest ih => exact .cons rfl ih

theorem loadItems_tx (t : Accrual.TxInput) : FromSyntax.loadItems [.tx t] = match Accrual.create t with
    | .ok txs => .ok (txs.map Knut.Directive.tx)
    | .error => .error
    | .panic s => .panic s := by
  simp only [FromSyntax.loadItems, FromSyntax.loadItems.go]
  cases Accrual.create t <;> simp [FromSyntax.loadItems.go]

/-- **`model.ParseDirective`**: the type switch on the syntax directive and the `Create` function of its kind.  For the Go tree of ANY
model directive whose field texts are what the grammar guarantees (`DirectiveOK`), with the registries fixed
to their model (`regAccount`, `regCommodity cur`) and the `ext` parameters of `expand` to what its calls on the accrual node return
(`ExpandExt`), the function translated from the current source returns what the model computes (`FromSyntax.item`, then
`FromSyntax.loadItems`): model directives that stand for the model's, in the same order (`DirRel`: `Src` pointers arbitrary,
descriptions with the double quotes replaced), an error where the model fails, the same panic (of `expand`). -/
theorem ParseDirective_agrees {text : Bytes} {path : String} (cur : String → Bool) (d : Syntax.Directive) (hok : DirectiveOK text d)
    {x5 : account.Account × Option Error} {x6 x7 : Int × Option Error} {x8 : String}
    (hx : ∀ t, d.body = .transaction t → t.addons.accrual.range.empty = false → ExpandExt text path t.addons.accrual x5 x6 x7 x8) :
    match FromSyntax.item text d with
    | none => IsErr (goParseDirective cur (goDirective text path d) x5 x6 x7 x8)
    | some it => DirsRel cur (goParseDirective cur (goDirective text path d) x5 x6 x7 x8) (FromSyntax.loadItems [it]) := by
  obtain ⟨r, body⟩ := d
  unfold goParseDirective model.ParseDirective goDirective
  cases body with
  | transaction t =>
    simp only [goBody]
    have h := transaction_Create_agrees (path := path) cur t hok (hx t rfl)
    rw [item_tx]
    cases htm : txM text t with
    | none =>
      simp only [htm, Option.map_none] at h ⊢
      obtain ⟨v, e, hv⟩ := h
      simp only [hv, GoSem.Outcome.bind, Option.isSome_some, if_true]
      exact isErr_ok _ _
    | some tin =>
      simp only [htm, Option.map_some, loadItems_tx] at h ⊢
      cases hc : Accrual.create tin with
      | ok txs =>
        simp only [hc, TxsRel] at h
        obtain ⟨gs, hg, hrel⟩ := h
        simp only [hg, GoSem.Outcome.bind, Option.isSome_none, Bool.false_eq_true, if_false, zero_list, foldl_dirs, List.nil_append, DirsRel]
        exact ⟨_, rfl, AllRel_tx cur hrel⟩
      | error =>
        simp only [hc, TxsRel] at h
        obtain ⟨v, e, hv⟩ := h
        simp only [hv, GoSem.Outcome.bind, Option.isSome_some, if_true, DirsRel]
        exact isErr_ok _ _
      | panic s =>
        simp only [hc, TxsRel] at h
        simp only [h, GoSem.Outcome.bind, DirsRel]
  | «open» o =>
    simp only [goBody]
    have h := open_Create_agrees (path := path) o hok.1 hok.2
    simp only [FromSyntax.item, Option.bind_eq_bind, Option.pure_def]
    cases ha : FromSyntax.account text o.account with
    | none =>
      simp only [ha] at h
      obtain ⟨v, e, hv⟩ := h
      simp only [hv, GoSem.Outcome.bind, Option.isSome_some, if_true, Option.bind_none]
      exact isErr_ok _ _
    | some a =>
      cases hd : FromSyntax.date text o.date with
      | none =>
        simp only [ha, hd] at h
        obtain ⟨v, e, hv⟩ := h
        simp only [hv, GoSem.Outcome.bind, Option.isSome_some, if_true, Option.bind_none, Option.bind_some]
        exact isErr_ok _ _
      | some dt =>
        simp only [ha, hd] at h
        simp only [h, GoSem.Outcome.bind, Option.isSome_none, Bool.false_eq_true, if_false, Option.bind_some, FromSyntax.loadItems,
          FromSyntax.loadItems.go, List.reverse_cons, List.reverse_nil, List.nil_append, DirsRel]
        exact ⟨_, rfl, .cons (by simp [DirRel, OpenRel, openGo]) .nil⟩
  | close c =>
    simp only [goBody]
    have h := close_Create_agrees (path := path) c hok.1 hok.2
    simp only [FromSyntax.item, Option.bind_eq_bind, Option.pure_def]
    cases ha : FromSyntax.account text c.account with
    | none =>
      simp only [ha] at h
      obtain ⟨v, e, hv⟩ := h
      simp only [hv, GoSem.Outcome.bind, Option.isSome_some, if_true, Option.bind_none]
      exact isErr_ok _ _
    | some a =>
      cases hd : FromSyntax.date text c.date with
      | none =>
        simp only [ha, hd] at h
        obtain ⟨v, e, hv⟩ := h
        simp only [hv, GoSem.Outcome.bind, Option.isSome_some, if_true, Option.bind_none, Option.bind_some]
        exact isErr_ok _ _
      | some dt =>
        simp only [ha, hd] at h
        simp only [h, GoSem.Outcome.bind, Option.isSome_none, Bool.false_eq_true, if_false, Option.bind_some, FromSyntax.loadItems,
          FromSyntax.loadItems.go, List.reverse_cons, List.reverse_nil, List.nil_append, DirsRel]
        exact ⟨_, rfl, .cons (by simp [DirRel, CloseRel, closeGo]) .nil⟩
  | assertion a =>
    simp only [goBody]
    have h := assertion_Create_agrees (path := path) cur a hok.1 hok.2
    have hitem : FromSyntax.item text ⟨r, .assertion a⟩ = (do
        let dt ← FromSyntax.date text a.date
        let bals ← a.balances.mapM (balanceM text)
        pure (FromSyntax.Item.assertion ⟨dt, bals⟩)) := rfl
    rw [hitem]
    simp only [Option.bind_eq_bind, Option.pure_def]
    cases hd : FromSyntax.date text a.date with
    | none =>
      simp only [hd] at h
      obtain ⟨v, e, hv⟩ := h
      simp only [hv, GoSem.Outcome.bind, Option.isSome_some, if_true, Option.bind_none]
      exact isErr_ok _ _
    | some dt =>
      cases hm : a.balances.mapM (balanceM text) with
      | none =>
        simp only [hd, hm] at h
        obtain ⟨v, e, hv⟩ := h
        simp only [hv, GoSem.Outcome.bind, Option.isSome_some, if_true, Option.bind_none, Option.bind_some]
        exact isErr_ok _ _
      | some bals =>
        simp only [hd, hm] at h
        simp only [h, GoSem.Outcome.bind, Option.isSome_none, Bool.false_eq_true, if_false, Option.bind_some, FromSyntax.loadItems,
          FromSyntax.loadItems.go, List.reverse_cons, List.reverse_nil, List.nil_append, DirsRel]
        exact ⟨_, rfl, .cons ⟨rfl, AllRel_bal cur Ref.node bals⟩ .nil⟩
  | price p =>
    simp only [goBody]
    have h := price_Create_agrees (path := path) cur p hok.1 hok.2.1 hok.2.2.1 hok.2.2.2
    have hitem : FromSyntax.item text ⟨r, .price p⟩ = FromSyntax.item text ⟨p.range, .price p⟩ := rfl
    rw [hitem]
    cases hi : FromSyntax.item text ⟨p.range, .price p⟩ with
    | none =>
      simp only [hi] at h
      obtain ⟨v, e, hv⟩ := h
      simp only [hv, GoSem.Outcome.bind, Option.isSome_some, if_true]
      exact isErr_ok _ _
    | some it =>
      have hk : ∃ m, it = .price m := by
        unfold FromSyntax.item at hi
        simp only [Option.bind_eq_bind, Option.pure_def] at hi
        cases h1 : FromSyntax.date text p.date with
        | none => simp [h1] at hi
        | some dt =>
          cases h2 : FromSyntax.fieldStr text p.commodity.range with
          | none => simp [h1, h2] at hi
          | some c =>
            cases h3 : FromSyntax.decimal text p.price.range with
            | none => simp [h1, h2, h3] at hi
            | some q =>
              cases h4 : FromSyntax.fieldStr text p.target.range with
              | none => simp [h1, h2, h3, h4] at hi
              | some tg =>
                simp only [h1, h2, h3, h4, Option.bind_some, Option.some.injEq] at hi
                exact ⟨_, hi.symm⟩
      obtain ⟨m, rfl⟩ := hk
      simp only [hi] at h
      simp only [h, GoSem.Outcome.bind, Option.isSome_none, Bool.false_eq_true, if_false, FromSyntax.loadItems,
        FromSyntax.loadItems.go, List.reverse_cons, List.reverse_nil, List.nil_append, DirsRel]
      exact ⟨_, rfl, .cons (by simp [DirRel, PriceRel, priceGo]) .nil⟩
  | «include» i =>
    simp only [goBody]
    obtain ⟨p, hp⟩ := Option.isSome_iff_exists.mp (show (FromSyntax.fieldStr text i.includePath.content).isSome = true from hok)
    simp only [FromSyntax.item, hp, Option.bind_eq_bind, Option.bind_some, Option.pure_def, FromSyntax.loadItems, FromSyntax.loadItems.go,
      List.reverse_nil, DirsRel]
    exact ⟨_, rfl, .nil⟩


/-- the `ext` parameters exist: on an accrual node whose fields are texts the four calls return -/
theorem expandExt_exists {text : Bytes} {path : String} (a : Syntax.Accrual) (hok : AccrualOK text a) :
    ∃ x5 x6 x7 x8, ExpandExt text path a x5 x6 x7 x8 := by
  obtain ⟨⟨ivs, hiv, _⟩, hs, he, _⟩ := hok
  exact ⟨_, _, _, _, ⟨rfl, Date_Parse_agrees hs, Date_Parse_agrees he, extract_ok hiv⟩⟩

/-! ### the calls behind the `ext`/`extra` parameters (source text), pinned -/

example : transaction.Create.externals = ["ext4 = reg.Commodities().Create(c) [as a function of its 1 arguments]",
  "extra5…extra8 = the results of reg.Accounts().Create(accrual.Account), accrual.Start.Parse(), accrual.End.Parse(), accrual.Interval.Extract() in expand(reg, res, &t.Addons.Accrual)",
  "extra9…extra12 = the results of reg.Accounts().Create(accrual.Account), accrual.Start.Parse(), accrual.End.Parse(), accrual.Interval.Extract() in expand(reg, res, &t.Addons.Accrual)"] := rfl

/-- non-vacuity: a directive whose dynamic type is none of the six (nil): the error `unknown directive` -/
example : goParseDirective (fun _ => false) ⟨GoZero.zero, .nil⟩ GoZero.zero GoZero.zero GoZero.zero ""
    = .ok ([], some ⟨"unknown directive: %T"⟩) := rfl
/-- non-vacuity: an include directive converts to nothing -/
example : goParseDirective (fun _ => false) ⟨GoZero.zero, .Include GoZero.zero⟩ GoZero.zero GoZero.zero GoZero.zero ""
    = .ok ([], none) := rfl

end Knut.FactsAgree.TransCreate
