package main

import (
	"fmt"
	"strings"

	"github.com/shopspring/decimal"
)

// genDecimal produces a decimal literal in the journal grammar (-?digits(.digits)?),
// biased towards rounding boundaries, many fractional digits and extreme magnitudes.
func genDecimal(r *RNG) string {
	var b strings.Builder
	if r.Chance(2, 5) {
		b.WriteByte('-')
	}
	switch r.Intn(12) {
	case 0:
		b.WriteString("0")
	case 1: // x.5 boundaries
		fmt.Fprintf(&b, "%d.5", r.Intn(2000))
	case 2: // 999.5 style carries
		b.WriteString(strings.Repeat("9", r.Range(1, 6)))
		b.WriteString(".")
		b.WriteString(strings.Repeat("9", r.Range(0, 4)))
		b.WriteString(Pick(r, []string{"5", "4", "49", "50", "51", "499999999"}))
	case 3: // tiny
		b.WriteString("0.")
		b.WriteString(strings.Repeat("0", r.Range(0, 9)))
		fmt.Fprintf(&b, "%d", r.Range(1, 999))
	case 4: // huge
		fmt.Fprintf(&b, "%d", r.Range(1, 9))
		for i := 0; i < r.Range(6, 15); i++ {
			fmt.Fprintf(&b, "%d", r.Intn(10))
		}
		if r.Bool() {
			fmt.Fprintf(&b, ".%d", r.Intn(100))
		}
	case 5: // many decimals
		fmt.Fprintf(&b, "%d.", r.Intn(1000))
		for i := 0; i < r.Range(9, 22); i++ {
			fmt.Fprintf(&b, "%d", r.Intn(10))
		}
	case 6: // trailing zeros
		fmt.Fprintf(&b, "%d.%d%s", r.Intn(1000), r.Intn(100), strings.Repeat("0", r.Range(1, 4)))
	case 7: // leading zeros
		fmt.Fprintf(&b, "00%d.%02d", r.Intn(1000), r.Intn(100))
	default:
		fmt.Fprintf(&b, "%d", r.Intn(100000))
		if r.Chance(3, 4) {
			b.WriteString(".")
			for i := 0; i < r.Range(1, 8); i++ {
				fmt.Fprintf(&b, "%d", r.Intn(10))
			}
		}
	}
	return b.String()
}

// runDecStream compares the Lean decimal model with shopspring/decimal.
func runDecStream(c *Ctx, n int) {
	bt := c.NewBatch()
	defer bt.Flush()
	for i := 0; i < n; i++ {
		i := i
		if !c.Want("dec", i) {
			continue
		}
		r := c.Rng("dec", i)
		xs, ys := genDecimal(r), genDecimal(r)
		x, err1 := decimal.NewFromString(xs)
		y, err2 := decimal.NewFromString(ys)
		if err1 != nil || err2 != nil {
			continue
		}
		c.Evals++
		in := map[string]any{"x": xs, "y": ys}
		cmp := func(op string, impl string, fields ...string) {
			in := map[string]any{"x": xs, "y": ys, "op": op, "args": fields}
			bt.Add(func(model string) { c.Compare("dec", i, op, in, impl, model) }, fields...)
		}
		_ = in
		cmp("dec-show", x.String(), "dec-show", Hex(xs))
		tn := r.Range(0, 10)
		cmp("dec-trunc", x.Truncate(int32(tn)).String(), "dec-trunc", itoa(tn), Hex(xs))
		rn := r.Range(-4, 10)
		cmp("dec-round", x.Round(int32(rn)).String(), "dec-round", itoa(rn), Hex(xs))
		cmp("dec-fixed", x.StringFixed(int32(rn)), "dec-fixed", itoa(rn), Hex(xs))
		cmp("dec-mul", x.Mul(y).String(), "dec-mul", Hex(xs), Hex(ys))
		cmp("dec-add", x.Add(y).String(), "dec-add", Hex(xs), Hex(ys))
		if y.IsZero() {
			cmp("dec-div", "panic", "dec-div", Hex(xs), Hex(ys))
		} else {
			cmp("dec-div", x.Div(y).String(), "dec-div", Hex(xs), Hex(ys))
			p := r.Range(0, 3)
			q, rem := x.QuoRem(y, int32(p))
			cmp("dec-quorem", q.String()+" "+rem.String(), "dec-quorem", Hex(xs), Hex(ys), itoa(p))
		}
		c.Class(fmt.Sprintf("dec/neg%v/len%s/frac%s", strings.HasPrefix(xs, "-"), bucket(len(xs)), bucket(len(xs)-strings.IndexByte(xs+".", '.')-1)))
	}
}

func init() {
	runners["DEC"] = func(c *Ctx) { runDecStream(c, c.N(20000, 500000)) }
}
