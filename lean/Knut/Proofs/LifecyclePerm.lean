import Knut.Spec.Lifecycle
import Knut.Proofs.Sim
import Knut.Proofs.Builder
/-!
# The lifecycle verdict does not depend on the directive order within a day (C04/C05)

`Spec.stepDay` folds over the opens, transactions, assertions and closes of a day, each in list order.
Shown here: permuting each of the four lists leaves the outcome unchanged up to `LEquiv` (same set of
open accounts, same multiset of logged postings); a rejecting run stays rejecting, though the directive
it names may differ.  Method: every step respects `LEquiv`; two steps of the same kind commute up to
`LEquiv`, failure included (`stepOpen_comm`, `stepTx_comm`, `stepAssert_comm`, `stepClose_comm`); the
generic `foldlM_perm_sim` lifts that to permutations.  The order of the postings inside a transaction
and of the balances inside an assertion is fixed.
-/

namespace List
/-- pointwise relation of two lists (core has no `List.Forall₂`; same definition as Mathlib's) -/
inductive Forall₂ {α β : Type} (R : α → β → Prop) : List α → List β → Prop
  | nil : Forall₂ R [] []
  | cons {a b l₁ l₂} : R a b → Forall₂ R l₁ l₂ → Forall₂ R (a :: l₁) (b :: l₂)
end List

namespace Knut.Spec
open Knut

/-! ### Generic: folds of commuting steps over permuted lists -/

/-- outcomes agree up to `R`; the error values are ignored -/
abbrev PSim {σ ε : Type} (R : σ → σ → Prop) (x y : Except ε σ) : Prop := Sim R (fun _ _ => True) x y

theorem psim_trans {σ ε : Type} {R : σ → σ → Prop} (ht : ∀ a b c, R a b → R b c → R a c)
    {x y z : Except ε σ} (h1 : PSim R x y) (h2 : PSim R y z) : PSim R x z := by
  cases x <;> cases y <;> cases z <;> simp only [PSim, Sim] at h1 h2 ⊢
  exact ht _ _ _ h1 h2

theorem psim_isOk {σ ε : Type} {R : σ → σ → Prop} {x y : Except ε σ} (h : PSim R x y) : x.isOk = y.isOk := by
  cases x <;> cases y <;> simp only [PSim, Sim] at h <;> rfl

theorem foldlM_perm_sim {α σ ε : Type} (R : σ → σ → Prop)
    (hr : ∀ a, R a a) (ht : ∀ a b c, R a b → R b c → R a c)
    (f : σ → α → Except ε σ)
    (hresp : ∀ s s' x, R s s' → PSim R (f s x) (f s' x))
    (hcomm : ∀ s x y, PSim R (f s x >>= fun s1 => f s1 y) (f s y >>= fun s1 => f s1 x))
    {l l' : List α} (hp : l.Perm l') : ∀ s s', R s s' → PSim R (l.foldlM f s) (l'.foldlM f s') := by
  induction hp with
  | nil => intro s s' h; exact h
  | cons x _ ih =>
    intro s s' h
    simp only [List.foldlM_cons]
    exact bind_sim (hresp s s' x h) ih
  | swap x y l =>
    intro s s' h
    simp only [List.foldlM_cons, ← bind_assoc]
    refine bind_sim (R := R) ?_ (foldlM_sim R _ f f l (fun s t x _ h => hresp s t x h))
    exact psim_trans ht (hcomm s y x) (bind_sim (hresp s s' x h) (fun a b h => hresp a b y h))
  | trans _ _ ih1 ih2 =>
    intro s s' h
    exact psim_trans ht (ih1 s s' h) (ih2 s' s' (hr s'))

/-! ### State equivalence -/

/-- same set of open accounts, same multiset of logged postings -/
def LEquiv (s s' : LState) : Prop := (∀ a, a ∈ s.opened ↔ a ∈ s'.opened) ∧ s.log.Perm s'.log

theorem LEquiv.refl (s : LState) : LEquiv s s := ⟨fun _ => Iff.rfl, List.Perm.refl _⟩
theorem LEquiv.trans (a b c : LState) (h1 : LEquiv a b) (h2 : LEquiv b c) : LEquiv a c :=
  ⟨fun x => (h1.1 x).trans (h2.1 x), h1.2.trans h2.2⟩

theorem contains_congr {l l' : List Account} (h : ∀ a, a ∈ l ↔ a ∈ l') (x : Account) : l.contains x = l'.contains x := by
  rw [Bool.eq_iff_iff, List.contains_iff_mem, List.contains_iff_mem]; exact h x

theorem sum_perm : ∀ {l l' : List Rat}, l.Perm l' → l.sum = l'.sum := by
  intro l l' h
  induction h with
  | nil => rfl
  | cons x _ ih => simp only [List.sum_cons, ih]
  | swap x y l => simp only [List.sum_cons, ← Rat.add_assoc, Rat.add_comm x y]
  | trans _ _ ih1 ih2 => exact ih1.trans ih2

theorem qtyOf_perm {log log' : List Posting} (h : log.Perm log') (a : Account) (c : Commodity) :
    qtyOf log a c = qtyOf log' a c := by
  unfold qtyOf
  exact sum_perm ((h.filter _).map _)

theorem allZero_perm {log log' : List Posting} (h : log.Perm log') (a : Account) :
    allZero log a = allZero log' a := by
  unfold allZero
  have : (fun p : Posting => decide (qtyOf log a p.commodity = 0)) = (fun p => decide (qtyOf log' a p.commodity = 0)) := by
    funext p; rw [qtyOf_perm h]
  rw [this]
  exact (h.filter _).all_eq

/-! ### Every step respects the equivalence -/

theorem stepOpen_resp (s s' : LState) (o : Open) (h : LEquiv s s') : PSim LEquiv (stepOpen s o) (stepOpen s' o) := by
  unfold stepOpen
  rw [contains_congr h.1]
  split
  · trivial
  · refine ⟨?_, h.2⟩
    intro a; simp only [List.mem_cons, h.1 a]

theorem stepPosting_resp (t : Transaction) (s s' : LState) (p : Posting) (h : LEquiv s s') :
    PSim LEquiv (stepPosting s t p) (stepPosting s' t p) := by
  unfold stepPosting
  rw [contains_congr h.1]
  split
  · trivial
  · split
    · exact ⟨h.1, h.2.append (List.Perm.refl _)⟩
    · exact h

theorem stepBalance_resp (strict : Bool) (a : Assertion) (s s' : LState) (b : Balance) (h : LEquiv s s') :
    PSim LEquiv (stepBalance strict s a b) (stepBalance strict s' a b) := by
  unfold stepBalance
  rw [contains_congr h.1, qtyOf_perm h.2]
  repeat' split
  all_goals first | trivial | exact h

theorem stepClose_resp (s s' : LState) (c : Close) (h : LEquiv s s') : PSim LEquiv (stepClose s c) (stepClose s' c) := by
  unfold stepClose
  rw [contains_congr h.1, allZero_perm h.2]
  repeat' split
  all_goals first | trivial | skip
  refine ⟨?_, h.2⟩
  intro a; simp only [List.mem_filter, h.1 a]

/-! ### Opens -/
theorem stepOpen_err {s : LState} {o : Open} (h : o.account ∈ s.opened) : stepOpen s o = .error (.opening o) := by
  unfold stepOpen; rw [if_pos (List.contains_iff_mem.mpr h)]
theorem stepOpen_ok {s : LState} {o : Open} (h : o.account ∉ s.opened) :
    stepOpen s o = .ok { s with opened := o.account :: s.opened } := by
  unfold stepOpen; rw [if_neg (fun c => h (List.contains_iff_mem.mp c))]

theorem ok_bind {ε α β : Type} (a : α) (f : α → Except ε β) : (Except.ok a >>= f) = f a := rfl
theorem error_bind {ε α β : Type} (e : ε) (f : α → Except ε β) : (Except.error e >>= f) = .error e := rfl

theorem stepOpen_comm (s : LState) (x y : Open) :
    PSim LEquiv (stepOpen s x >>= fun s1 => stepOpen s1 y) (stepOpen s y >>= fun s1 => stepOpen s1 x) := by
  by_cases hx : x.account ∈ s.opened
  · rw [stepOpen_err hx, error_bind]
    by_cases hy : y.account ∈ s.opened
    · rw [stepOpen_err hy, error_bind]; trivial
    · rw [stepOpen_ok hy, ok_bind, stepOpen_err (List.mem_cons_of_mem _ hx)]; trivial
  · rw [stepOpen_ok hx, ok_bind]
    by_cases hy : y.account ∈ s.opened
    · rw [stepOpen_err hy, error_bind, stepOpen_err (List.mem_cons_of_mem _ hy)]; trivial
    · rw [stepOpen_ok hy, ok_bind]
      by_cases hxy : x.account = y.account
      · rw [stepOpen_err (by rw [hxy]; exact List.mem_cons_self), stepOpen_err (by rw [hxy]; exact List.mem_cons_self)]; trivial
      · rw [stepOpen_ok (by intro h; rcases List.mem_cons.mp h with e | e; exact hxy e.symm; exact hy e),
          stepOpen_ok (by intro h; rcases List.mem_cons.mp h with e | e; exact hxy e; exact hx e)]
        refine ⟨?_, List.Perm.refl _⟩
        intro a; simp only [List.mem_cons]
        constructor <;> (rintro (h | h | h) <;> simp [h])

/-! ### Transactions -/

/-- all postings of a transaction, one step -/
def stepTx (s : LState) (t : Transaction) : Except Directive LState :=
  t.postings.foldlM (fun s p => stepPosting s t p) s

theorem stepPosting_err {s : LState} (t : Transaction) {p : Posting} (h : s.opened.contains p.account = false) :
    stepPosting s t p = .error (.tx t) := by
  unfold stepPosting; rw [h]; rfl
theorem stepPosting_ok {s : LState} (t : Transaction) {p : Posting} (h : s.opened.contains p.account = true) :
    stepPosting s t p = .ok (if p.account.isAL then { s with log := s.log ++ [p] } else s) := by
  unfold stepPosting; rw [h]; rfl

theorem foldl_posting_closed (t : Transaction) (ps : List Posting) : ∀ s : LState,
    ps.foldlM (fun s p => stepPosting s t p) s =
      if ps.all (fun p => s.opened.contains p.account) then
        .ok { s with log := s.log ++ ps.filter (fun p => p.account.isAL) }
      else .error (.tx t) := by
  induction ps with
  | nil => intro s; simp [pure, Except.pure]
  | cons p rest ih =>
    intro s
    rw [List.foldlM_cons, List.all_cons]
    cases hc : s.opened.contains p.account
    · rw [stepPosting_err t hc, error_bind]; rfl
    · rw [stepPosting_ok t hc, ok_bind, ih, Bool.true_and, List.filter_cons]
      cases hal : p.account.isAL
      · rfl
      · simp only [if_true, List.append_assoc, List.singleton_append]

theorem stepTx_closed (s : LState) (t : Transaction) :
    stepTx s t = if t.postings.all (fun p => s.opened.contains p.account) then
        .ok { s with log := s.log ++ t.postings.filter (fun p => p.account.isAL) }
      else .error (.tx t) := foldl_posting_closed t t.postings s

theorem stepTx_resp (s s' : LState) (t : Transaction) (h : LEquiv s s') : PSim LEquiv (stepTx s t) (stepTx s' t) :=
  foldlM_sim LEquiv _ _ _ t.postings (fun s s' p _ h => stepPosting_resp t s s' p h) s s' h

theorem stepTx_comm (s : LState) (x y : Transaction) :
    PSim LEquiv (stepTx s x >>= fun s1 => stepTx s1 y) (stepTx s y >>= fun s1 => stepTx s1 x) := by
  rw [stepTx_closed s x, stepTx_closed s y]
  cases hx : x.postings.all (fun p => s.opened.contains p.account) <;>
    cases hy : y.postings.all (fun p => s.opened.contains p.account)
  · trivial
  · simp only [Bool.false_eq_true, if_false, if_true, error_bind, ok_bind]
    rw [stepTx_closed]; simp only [hx, Bool.false_eq_true, if_false]; trivial
  · simp only [Bool.false_eq_true, if_false, if_true, error_bind, ok_bind]
    rw [stepTx_closed]; simp only [hy, Bool.false_eq_true, if_false]; trivial
  · simp only [if_true, ok_bind]
    rw [stepTx_closed, stepTx_closed]; simp only [hx, hy, if_true]
    refine ⟨fun _ => Iff.rfl, ?_⟩
    simp only [List.append_assoc]
    exact (List.Perm.refl _).append List.perm_append_comm

/-! ### Assertions: every balance is a test, the state does not change -/

/-- the test a single balance performs -/
def balTest (strict : Bool) (s : LState) (b : Balance) : Bool :=
  s.opened.contains b.account &&
    (if b.account.isAL then decide (qtyOf s.log b.account b.commodity = b.quantity)
     else !(strict && decide (b.quantity ≠ 0)))

theorem stepBalance_closed (strict : Bool) (s : LState) (a : Assertion) (b : Balance) :
    stepBalance strict s a b = if balTest strict s b then .ok s else .error (.assertion a) := by
  unfold stepBalance balTest
  cases s.opened.contains b.account
  · rfl
  · cases b.account.isAL
    · cases strict
      · rfl
      · by_cases hq : b.quantity = 0 <;> simp [hq]
    · by_cases hq : qtyOf s.log b.account b.commodity = b.quantity <;> simp [hq]

def stepAssert (strict : Bool) (s : LState) (a : Assertion) : Except Directive LState :=
  a.balances.foldlM (fun s b => stepBalance strict s a b) s

theorem foldl_balance_closed (strict : Bool) (s : LState) (a : Assertion) (bs : List Balance) :
    bs.foldlM (fun s b => stepBalance strict s a b) s =
      if bs.all (balTest strict s) then .ok s else .error (.assertion a) := by
  induction bs with
  | nil => rfl
  | cons b rest ih =>
    rw [List.foldlM_cons, List.all_cons, stepBalance_closed]
    cases balTest strict s b
    · rfl
    · rw [if_pos rfl, ok_bind, ih, Bool.true_and]

theorem stepAssert_closed (strict : Bool) (s : LState) (a : Assertion) :
    stepAssert strict s a = if a.balances.all (balTest strict s) then .ok s else .error (.assertion a) :=
  foldl_balance_closed strict s a a.balances

theorem stepAssert_resp (strict : Bool) (s s' : LState) (a : Assertion) (h : LEquiv s s') :
    PSim LEquiv (stepAssert strict s a) (stepAssert strict s' a) :=
  foldlM_sim LEquiv _ _ _ a.balances (fun s s' b _ h => stepBalance_resp strict a s s' b h) s s' h

theorem stepAssert_comm (strict : Bool) (s : LState) (x y : Assertion) :
    PSim LEquiv (stepAssert strict s x >>= fun s1 => stepAssert strict s1 y)
      (stepAssert strict s y >>= fun s1 => stepAssert strict s1 x) := by
  rw [stepAssert_closed strict s x, stepAssert_closed strict s y]
  cases hx : x.balances.all (balTest strict s) <;> cases hy : y.balances.all (balTest strict s)
  · trivial
  · simp only [Bool.false_eq_true, if_false, if_true, error_bind, ok_bind]
    rw [stepAssert_closed]; simp only [hx, Bool.false_eq_true, if_false]; trivial
  · simp only [Bool.false_eq_true, if_false, if_true, error_bind, ok_bind]
    rw [stepAssert_closed]; simp only [hy, Bool.false_eq_true, if_false]; trivial
  · simp only [if_true, ok_bind]
    rw [stepAssert_closed, stepAssert_closed]; simp only [hx, hy, if_true]
    exact LEquiv.refl s

/-! ### Closes -/

theorem stepClose_ok {s : LState} {c : Close} (hz : allZero s.log c.account = true) (ho : c.account ∈ s.opened) :
    stepClose s c = .ok { s with opened := s.opened.filter (· ≠ c.account) } := by
  unfold stepClose; rw [hz, List.contains_iff_mem.mpr ho]; rfl

theorem stepClose_err {s : LState} {c : Close} (h : ¬ (allZero s.log c.account = true ∧ c.account ∈ s.opened)) :
    stepClose s c = .error (.closing c) := by
  unfold stepClose
  cases hz : allZero s.log c.account
  · rfl
  · cases hc : s.opened.contains c.account
    · rfl
    · exact absurd ⟨hz, List.contains_iff_mem.mp hc⟩ h

theorem stepClose_comm (s : LState) (x y : Close) :
    PSim LEquiv (stepClose s x >>= fun s1 => stepClose s1 y) (stepClose s y >>= fun s1 => stepClose s1 x) := by
  by_cases hx : allZero s.log x.account = true ∧ x.account ∈ s.opened
  · rw [stepClose_ok hx.1 hx.2, ok_bind]
    by_cases hy : allZero s.log y.account = true ∧ y.account ∈ s.opened
    · rw [stepClose_ok hy.1 hy.2, ok_bind]
      by_cases hxy : x.account = y.account
      · rw [stepClose_err (by simp [hxy]), stepClose_err (by simp [hxy])]; trivial
      · have hyx : y.account ≠ x.account := fun e => hxy e.symm
        rw [stepClose_ok (s := { s with opened := s.opened.filter (· ≠ x.account) }) hy.1
              (List.mem_filter.mpr ⟨hy.2, by simpa using hyx⟩),
          stepClose_ok (s := { s with opened := s.opened.filter (· ≠ y.account) }) hx.1
              (List.mem_filter.mpr ⟨hx.2, by simpa using hxy⟩)]
        refine ⟨?_, List.Perm.refl _⟩
        intro a; simp only [List.mem_filter]
        constructor <;> (rintro ⟨⟨h1, h2⟩, h3⟩; exact ⟨⟨h1, h3⟩, h2⟩)
    · rw [stepClose_err hy, error_bind, stepClose_err (by
        rintro ⟨h1, h2⟩; exact hy ⟨h1, (List.mem_filter.mp h2).1⟩)]
      trivial
  · rw [stepClose_err hx, error_bind]
    by_cases hy : allZero s.log y.account = true ∧ y.account ∈ s.opened
    · rw [stepClose_ok hy.1 hy.2, ok_bind, stepClose_err (by
        rintro ⟨h1, h2⟩; exact hx ⟨h1, (List.mem_filter.mp h2).1⟩)]
      trivial
    · rw [stepClose_err hy, error_bind]; trivial

/-! ### Days and journals -/

/-- two days with the same date and, per kind the checker looks at, the same directives up to order
(prices are irrelevant to the checker) -/
def DayEquiv (d d' : Day) : Prop :=
  d.date = d'.date ∧ d.openings.Perm d'.openings ∧ d.transactions.Perm d'.transactions ∧
    d.assertions.Perm d'.assertions ∧ d.closings.Perm d'.closings

theorem stepDay_eq (strict : Bool) (s : LState) (d : Day) :
    stepDay strict s d =
      (d.openings.foldlM stepOpen s >>= fun s => d.transactions.foldlM stepTx s >>= fun s =>
        d.assertions.foldlM (stepAssert strict) s >>= fun s => d.closings.foldlM stepClose s) := rfl

theorem opens_perm {l l' : List Open} (hp : l.Perm l') (s s' : LState) (h : LEquiv s s') :
    PSim LEquiv (l.foldlM stepOpen s) (l'.foldlM stepOpen s') :=
  foldlM_perm_sim LEquiv LEquiv.refl LEquiv.trans stepOpen stepOpen_resp stepOpen_comm hp s s' h

theorem txs_perm {l l' : List Transaction} (hp : l.Perm l') (s s' : LState) (h : LEquiv s s') :
    PSim LEquiv (l.foldlM stepTx s) (l'.foldlM stepTx s') :=
  foldlM_perm_sim LEquiv LEquiv.refl LEquiv.trans stepTx stepTx_resp stepTx_comm hp s s' h

theorem asserts_perm (strict : Bool) {l l' : List Assertion} (hp : l.Perm l') (s s' : LState) (h : LEquiv s s') :
    PSim LEquiv (l.foldlM (stepAssert strict) s) (l'.foldlM (stepAssert strict) s') :=
  foldlM_perm_sim LEquiv LEquiv.refl LEquiv.trans (stepAssert strict) (stepAssert_resp strict) (stepAssert_comm strict) hp s s' h

theorem closes_perm {l l' : List Close} (hp : l.Perm l') (s s' : LState) (h : LEquiv s s') :
    PSim LEquiv (l.foldlM stepClose s) (l'.foldlM stepClose s') :=
  foldlM_perm_sim LEquiv LEquiv.refl LEquiv.trans stepClose stepClose_resp stepClose_comm hp s s' h

/-- a day step gives equivalent outcomes on equivalent states and equivalent days -/
theorem stepDay_perm (strict : Bool) (s s' : LState) (d d' : Day) (hd : DayEquiv d d') (h : LEquiv s s') :
    PSim LEquiv (stepDay strict s d) (stepDay strict s' d') := by
  rw [stepDay_eq, stepDay_eq]
  obtain ⟨_, ho, ht, ha, hc⟩ := hd
  refine bind_sim (opens_perm ho s s' h) (fun s s' h => ?_)
  refine bind_sim (txs_perm ht s s' h) (fun s s' h => ?_)
  refine bind_sim (asserts_perm strict ha s s' h) (fun s s' h => ?_)
  exact closes_perm hc s s' h

theorem foldl_days_perm (strict : Bool) {days days' : List Day} (h : List.Forall₂ DayEquiv days days') :
    ∀ s s', LEquiv s s' → PSim LEquiv (days.foldlM (stepDay strict) s) (days'.foldlM (stepDay strict) s') := by
  induction h with
  | nil => intro s s' h; exact h
  | cons hd _ ih =>
    intro s s' h
    simp only [List.foldlM_cons]
    exact bind_sim (stepDay_perm strict s s' _ _ hd h) ih

/-- the final states are equivalent, or both runs reject (possibly naming different directives) -/
theorem verdict_perm_sim (strict : Bool) (days days' : List Day) (h : List.Forall₂ DayEquiv days days') :
    PSim LEquiv (Spec.verdict strict days) (Spec.verdict strict days') :=
  foldl_days_perm strict h {} {} (LEquiv.refl _)

/-- **the verdict does not depend on the order of the directives within a day** -/
theorem verdict_perm (strict : Bool) (days days' : List Day) (h : List.Forall₂ DayEquiv days days') :
    (Spec.verdict strict days).isOk = (Spec.verdict strict days').isOk :=
  psim_isOk (verdict_perm_sim strict days days' h)

end Knut.Spec

namespace Knut

/-! ### From day contents by date to a pointwise correspondence of day lists -/

theorem findDay_self (days : List Day) (hs : Sorted days) (d : Day) (hd : d ∈ days) : findDay days d.date = some d := by
  induction days with
  | nil => cases hd
  | cons x rest ih =>
    unfold Sorted at hs
    rw [List.pairwise_cons] at hs
    rcases List.mem_cons.mp hd with rfl | hd
    · simp [findDay]
    · have hne : ¬ x.date = d.date := by have := hs.1 d hd; omega
      have : findDay (x :: rest) d.date = findDay rest d.date := by simp [findDay, hne]
      rw [this]; exact ih hs.2 hd

theorem contentOn_self {α : Type} (k : Kind α) (days : List Day) (hs : Sorted days) (d : Day) (hd : d ∈ days) :
    contentOn k days d.date = k.proj d := by
  unfold contentOn; rw [findDay_self days hs d hd]; rfl

theorem forall₂_of_dates {R : Day → Day → Prop} : ∀ (l l' : List Day), l.map (·.date) = l'.map (·.date) →
    (∀ d ∈ l, ∀ d' ∈ l', d.date = d'.date → R d d') → List.Forall₂ R l l'
  | [], [], _, _ => .nil
  | [], _ :: _, h, _ => by cases h
  | _ :: _, [], h, _ => by cases h
  | a :: l, b :: l', h, hr => by
    simp only [List.map_cons, List.cons.injEq] at h
    exact .cons (hr a List.mem_cons_self b List.mem_cons_self h.1)
      (forall₂_of_dates l l' h.2 (fun d hd d' hd' => hr d (List.mem_cons_of_mem _ hd) d' (List.mem_cons_of_mem _ hd')))

end Knut
