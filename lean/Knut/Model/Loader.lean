/-!
# Model of the recursive journal loader (`lib/syntax/syntax.go`: `ParseFileRecursively`, `parseRec`)

```go
func parseRec(ctx, wg, resCh, file string, ancestors []string) (directives.File, error) {
	for _, a := range ancestors {
		if path.Clean(a) == path.Clean(file) { return File{}, fmt.Errorf("include cycle …") }
	}
	ancestors = append(ancestors[:len(ancestors):len(ancestors)], file)
	text, err := os.ReadFile(file);            if err != nil { return File{}, err }
	p := parser.New(string(text), file);       if err := p.Advance(); err != nil { return File{}, err }
	p.Callback = func(d directives.Directive) {
		if inc, ok := d.Directive.(directives.Include); ok {
			file := path.Join(filepath.Dir(file), inc.IncludePath.Content.Extract())
			wg.Go(func() error { res, err := parseRec(ctx, wg, resCh, file, ancestors); … push res … })
		}
	}
	return p.ParseFile()
}
```

* The file system is a function `Path → Option Bytes` (`none`: `os.ReadFile` fails — missing file, directory,
  no permission, name too long, too many symbolic links) of which only finitely many *cleaned* paths are
  readable (`FileSys.fin`; every real file system satisfies it, if only through `PATH_MAX`).
* The parser is a parameter: `parse file text` gives the include paths handed to the callback — in order, also
  those seen before a later syntax error, as the callback fires while parsing — and the tree or the error.
  `Knut.Commands` instantiates it with the parser model `Knut.Syntax.parseText`.
* Every include is one goroutine of the `errgroup`; `wg.Wait()` returns the first error of any of them. Which
  error is first depends on the schedule; the model reports the first one in depth-first order and nothing
  but the class (`ok` / `error`) is ever compared. The order of the files in a successful result is likewise
  the depth-first order here and the order of arrival in Go (C05/C19 are about that order).
* There is no panic outcome: none of the calls above can panic in the model (`Range.Extract` of the include
  path is covered by `C07_extract_is_slice`).

The recursion needs **no fuel**: the chain of ancestors consists of readable files with pairwise different
cleaned paths, so it is at most as long as the file system has readable paths. `depthBound` makes the same
fact available as a number (see `Properties/C14.lean`, `C14_loader_depth_bounded`).
-/
namespace Knut.Loader
set_option linter.unusedVariables false

abbrev Path := String
abbrev Bytes := List UInt8

/-! ## `path.Clean`, `filepath.Dir`, `path.Join` (Unix) -/

/-- the loop of `path.Clean` on path elements; `out` is the output buffer as a stack of elements, newest first.
`..` elements are only ever pushed on a stack consisting of `..` elements (Go's `dotdot` mark). -/
def cleanLoop (rooted : Bool) : List String → List String → List String
  | out, [] => out
  | out, e :: rest =>
    if e = "" ∨ e = "." then cleanLoop rooted out rest
    else if e = ".." then
      match out with
      | top :: below =>
        if top = ".." then cleanLoop rooted (".." :: out) rest     -- cannot backtrack over `..` (never rooted here)
        else cleanLoop rooted below rest                           -- backtrack
      | [] => if rooted then cleanLoop rooted [] rest else cleanLoop rooted [".."] rest
    else cleanLoop rooted (e :: out) rest

/-- the elements between the slashes (`strings.Split(p, "/")`), by structural recursion so that it evaluates in the kernel -/
def splitOnSlash : List Char → List Char → List String
  | cur, [] => [String.ofList cur.reverse]
  | cur, c :: cs => if c = '/' then String.ofList cur.reverse :: splitOnSlash [] cs else splitOnSlash (c :: cur) cs

def splitSlash (p : String) : List String := splitOnSlash [] p.toList

/-- Go's `path.Clean` (= `filepath.Clean` on Unix) -/
def pathClean (p : String) : String :=
  if p = "" then "."
  else
    let rooted := p.front == '/'
    let out := (cleanLoop rooted [] (splitSlash p)).reverse
    if rooted then "/" ++ "/".intercalate out
    else if out.isEmpty then "." else "/".intercalate out

/-- the text up to and including the last `/` -/
def dirPrefix (p : String) : String :=
  String.ofList ((p.toList.reverse.dropWhile (· != '/')).reverse)

/-- `filepath.Dir` on Unix -/
def dirOf (p : String) : String := pathClean (dirPrefix p)

/-- `path.Join(filepath.Dir(includer), inc)`: the directory is never empty, so the two are joined by a slash
and cleaned -/
def resolve (includer inc : String) : String := pathClean (dirOf includer ++ "/" ++ inc)

/-! ## File system -/

structure FileSys where
  /-- `os.ReadFile` -/
  read : Path → Option Bytes
  /-- the cleaned forms of all readable paths -/
  paths : List Path
  fin : ∀ p, (read p).isSome = true → pathClean p ∈ paths

/-! ## The loader -/

/-- what the parser delivers for one file -/
structure Parsed (E F : Type) where
  /-- the include paths handed to `Callback`, in order (also when the parse fails afterwards) -/
  includes : List String
  /-- `p.Advance()` and `p.ParseFile()` -/
  result : Except E F

inductive LoadErr (E : Type) where
  /-- the file is in its own chain of including files -/
  | cycle (file : Path)
  /-- `os.ReadFile` failed -/
  | unreadable (file : Path)
  /-- the scanner or parser rejected the file -/
  | parse (file : Path) (e : E)
  deriving Repr, DecidableEq

/-- the check at the head of `parseRec` -/
def inChain (ancestors : List Path) (file : Path) : Bool :=
  ancestors.any (fun a => pathClean a == pathClean file)

/-- first error in list order, or all results concatenated -/
def collect {ε α : Type} : List (Except ε (List α)) → Except ε (List α)
  | [] => .ok []
  | .error e :: _ => .error e
  | .ok xs :: rest =>
    match collect rest with
    | .error e => .error e
    | .ok ys => .ok (xs ++ ys)

/-- readable cleaned paths not yet in the chain: the termination measure -/
def remaining (fs : FileSys) (ancestors : List Path) : Nat :=
  (fs.paths.filter (fun u => !(ancestors.map pathClean).contains u)).length

theorem filter_length_le {α : Type} (p q : α → Bool) (l : List α) (himp : ∀ x, q x = true → p x = true) :
    (l.filter q).length ≤ (l.filter p).length := by
  induction l with
  | nil => simp
  | cons z zs ih =>
    simp only [List.filter_cons]
    cases hqz : q z with
    | true => simp [himp z hqz]; exact ih
    | false =>
      cases hpz : p z with
      | true => simp; omega
      | false => simpa using ih

theorem filter_length_lt {α : Type} (p q : α → Bool) (l : List α) (himp : ∀ x, q x = true → p x = true)
    (x : α) (hx : x ∈ l) (hp : p x = true) (hq : q x = false) : (l.filter q).length < (l.filter p).length := by
  induction l with
  | nil => cases hx
  | cons y ys ih =>
    have hle := filter_length_le p q ys himp
    simp only [List.filter_cons]
    rcases List.mem_cons.mp hx with rfl | hx'
    · simp [hp, hq]; omega
    · have := ih hx'
      cases hqy : q y with
      | true => simp [himp y hqy]; exact this
      | false =>
        cases hpy : p y with
        | true => simp; omega
        | false => simpa using this

theorem mem_of_lookup_eq_some {α β : Type} [BEq α] [LawfulBEq α] {a : α} {b : β} :
    ∀ {l : List (α × β)}, l.lookup a = some b → (a, b) ∈ l
  | [], h => by simp at h
  | (k, v) :: rest, h => by
    simp only [List.lookup_cons] at h
    cases hk : (a == k) with
    | true =>
      simp [hk] at h
      have : a = k := by simpa using hk
      subst this; subst h; exact List.mem_cons_self
    | false =>
      simp [hk] at h
      exact List.mem_cons_of_mem _ (mem_of_lookup_eq_some h)

theorem remaining_lt (fs : FileSys) (ancestors : List Path) (file : Path)
    (hc : inChain ancestors file = false) (hr : (fs.read file).isSome = true) :
    remaining fs (ancestors ++ [file]) < remaining fs ancestors := by
  unfold remaining
  have hc' : ∀ a ∈ ancestors, pathClean a ≠ pathClean file := by
    simpa [inChain] using hc
  refine filter_length_lt _ _ _ ?_ (pathClean file) (fs.fin file hr) ?_ ?_
  · intro x hx
    simp only [List.map_append, Bool.not_eq_true', List.contains_eq_mem, List.mem_append, decide_eq_false_iff_not] at hx ⊢
    exact fun h => hx (Or.inl h)
  · simp only [Bool.not_eq_true', List.contains_eq_mem, decide_eq_false_iff_not, List.mem_map, not_exists, not_and]
    exact fun a ha => hc' a ha
  · simp

/-- a file system given by a table of (path, content), looked up by the exact path string -/
def FileSys.ofList (files : List (Path × Bytes)) : FileSys where
  read p := files.lookup p
  paths := files.map (fun f => pathClean f.1)
  fin p h := by
    cases hl : files.lookup p with
    | none => simp [hl] at h
    | some b =>
      have : (p, b) ∈ files := mem_of_lookup_eq_some hl
      exact List.mem_map.mpr ⟨(p, b), this, rfl⟩

/-- `parseRec` together with the goroutines it starts: the files loaded, or the first error -/
def loadRec {E F : Type} (fs : FileSys) (parse : Path → Bytes → Parsed E F) (file : Path) (ancestors : List Path) :
    Except (LoadErr E) (List (Path × F)) :=
  if hc : inChain ancestors file then .error (.cycle file)
  else
    match hr : fs.read file with
    | none => .error (.unreadable file)
    | some text =>
      let p := parse file text
      let kids := p.includes.map (fun inc => loadRec fs parse (resolve file inc) (ancestors ++ [file]))
      match p.result with
      | .error e => .error (.parse file e)
      | .ok f =>
        match collect kids with
        | .error e => .error e
        | .ok fs' => .ok ((file, f) :: fs')
termination_by remaining fs ancestors
decreasing_by
  exact remaining_lt fs ancestors file (by simpa using hc) (by simp [hr])

/-- `syntax.ParseFileRecursively(root)` -/
def load {E F : Type} (fs : FileSys) (parse : Path → Bytes → Parsed E F) (root : Path) :
    Except (LoadErr E) (List (Path × F)) :=
  loadRec fs parse root []

/-! ## The same recursion with a depth budget (used only to *state* that the depth is bounded) -/

/-- `loadRec` with a depth budget: `none` when a call at depth `fuel` would be needed -/
def loadFuel {E F : Type} (fs : FileSys) (parse : Path → Bytes → Parsed E F) :
    Nat → Path → List Path → Option (Except (LoadErr E) (List (Path × F)))
  | 0, _, _ => none
  | fuel + 1, file, ancestors =>
    if inChain ancestors file then some (.error (.cycle file))
    else
      match fs.read file with
      | none => some (.error (.unreadable file))
      | some text =>
        let p := parse file text
        match p.includes.mapM (fun inc => loadFuel fs parse fuel (resolve file inc) (ancestors ++ [file])) with
        | none => none
        | some kids =>
          match p.result with
          | .error e => some (.error (.parse file e))
          | .ok f =>
            match collect kids with
            | .error e => some (.error e)
            | .ok fs' => some (.ok ((file, f) :: fs'))

/-- the depth the recursion can reach at most: one call per readable path, plus the failing last one -/
def depthBound (fs : FileSys) : Nat := fs.paths.length + 1

end Knut.Loader
