package main

// Function VALUES (builder trans2): `func(A) R` as a type, function literals, declared functions used as values, calls of variables
// and fields of function type, comparison with nil.
//
//   Go                                   Lean
//   func(A, B) R   (also Mapper[T], …)    Option (A → B → Outcome R)      nil = none; a function value may panic, so it lives in the monad
//   f(a, b)  (f a variable or a field)    callFn2 f a b                   the nil-function panic included
//   F / F[T]  (a translated function)     some (fun a b => Outcome.ok (F a b))   (no `Outcome.ok` when F is in the monad itself)
//   func(a A) R { … }                     some (fun (a : A) => …)         the body translated as a function of its own: `return` leaves the
//                                                                       literal; captured variables are read only (an assignment to one is rejected)
//   f == nil / f != nil                   Option.isNone f / Option.isSome f
// Arguments of the PINNED helpers (`dict.SortedKeys(m, commodity.Compare)`) stay plain Lean functions as before.
//
// WRITE-ONLY OBJECTS in a constructor of closures: an untranslatable parameter `c` (an interface) on which the closures only call one
// method without results, as a statement (`c.Insert(k, v)`), is represented by the LOG of these calls: a field `c : List (K × V)` of the
// state, `[]` initially; the call appends its (translated) arguments.  The translated code cannot depend on what the callee does.

import (
	"go/ast"
	"go/token"
	"go/types"
	"strings"
)

func trSigOf(ty types.Type) *types.Signature {
	if ty == nil {
		return nil
	}
	s, _ := ty.Underlying().(*types.Signature)
	return s
}

// sigLeanType: Option (A → B → Outcome R)
func (t *trTranslator) sigLeanType(from *trUnit, s *types.Signature, pos token.Pos) string {
	if s.Variadic() {
		trFail(pos, "variadic function type is outside the subset")
	}
	var parts []string
	for i := 0; i < s.Params().Len(); i++ {
		parts = append(parts, t.leanType(from, s.Params().At(i).Type(), pos))
	}
	if len(parts) == 0 {
		parts = append(parts, "Unit")
	}
	res := t.leanType(from, s.Results(), pos)
	return "(Option (" + strings.Join(parts, " → ") + " → Outcome " + res + "))"
}

// funcValAs: an expression in a position of function type
func (c *trCtx) funcValAs(e ast.Expr, ty types.Type) (string, bool) {
	if trSigOf(ty) == nil {
		return "", false
	}
	if c.isNil(e) {
		return "(none : " + c.leanType(ty, e.Pos()) + ")", true
	}
	switch x := trUnparen(e).(type) {
	case *ast.FuncLit:
		return c.funcLit(x), true
	case *ast.Ident:
		if fo, ok := c.info().Uses[x].(*types.Func); ok {
			return c.declaredFuncVal(fo, x.Pos()), true
		}
	case *ast.SelectorExpr:
		if _, isSel := c.info().Selections[x]; !isSel {
			if fo, ok := c.info().Uses[x.Sel].(*types.Func); ok {
				return c.declaredFuncVal(fo, x.Pos()), true
			}
		}
	case *ast.IndexListExpr: // F[T1, T2]
		switch y := trUnparen(x.X).(type) {
		case *ast.Ident:
			if fo, ok := c.info().Uses[y].(*types.Func); ok {
				return c.declaredFuncVal(fo, x.Pos()), true
			}
		case *ast.SelectorExpr:
			if fo, ok := c.info().Uses[y.Sel].(*types.Func); ok {
				return c.declaredFuncVal(fo, x.Pos()), true
			}
		}
	case *ast.IndexExpr: // F[T]
		switch y := trUnparen(x.X).(type) {
		case *ast.Ident:
			if fo, ok := c.info().Uses[y].(*types.Func); ok {
				return c.declaredFuncVal(fo, x.Pos()), true
			}
		case *ast.SelectorExpr:
			if fo, ok := c.info().Uses[y.Sel].(*types.Func); ok {
				return c.declaredFuncVal(fo, x.Pos()), true
			}
		}
	}
	return "", false
}

func (c *trCtx) declaredFuncVal(fo *types.Func, pos token.Pos) string {
	tf := c.t.funcs[fo.Origin()]
	if tf == nil || len(tf.mut) > 0 || tf.norder > 0 {
		trFail(pos, "the function value %s is not a translated function without extra parameters", fo.FullName())
	}
	sig := fo.Type().(*types.Signature)
	if sig.Recv() != nil || sig.Variadic() {
		trFail(pos, "method values and variadic functions as values are outside the subset")
	}
	c.fn.deps = append(c.fn.deps, tf)
	name := c.t.qname(c.unit(), tf.unit, tf.leanName)
	var ps []string
	for i := 0; i < sig.Params().Len(); i++ {
		ps = append(ps, c.fresh("a"))
	}
	binder := strings.Join(ps, " ")
	if len(ps) == 0 {
		binder = "(_ : Unit)"
	}
	app := name
	if len(ps) > 0 {
		app += " " + strings.Join(ps, " ")
	}
	if tf.effect {
		return "(some (fun " + binder + " => " + app + "))"
	}
	return "(some (fun " + binder + " => Outcome.ok (" + app + ")))"
}

// funcLit: a function literal as a value
func (c *trCtx) funcLit(x *ast.FuncLit) string {
	fsig, ok := c.typeOf(x).(*types.Signature)
	if !ok || fsig.Variadic() {
		trFail(x.Pos(), "this function literal is outside the subset")
	}
	cc := &trCtx{t: c.t, fn: &trFunc{unit: c.fn.unit, pkg: c.fn.pkg, decl: c.fn.decl, obj: c.fn.obj, leanName: c.fn.leanName + ".lit" + itoa(c.nlit()), effect: true},
		names: c.names, used: c.used, opaqueParams: c.opaqueParams, inCallback: true, ntmp: c.ntmp, nloop: c.nloop, norder: c.norder, nmark: c.nmark}
	if cc.opaqueParams == nil {
		cc.opaqueParams = map[types.Object]bool{}
	}
	if as := cc.assignedIn(x.Body); len(as) > 0 {
		trFail(x.Pos(), "a function literal used as a value assigns the captured variable %s: outside the subset", as[0].Name())
	}
	var ps []string
	for i := 0; i < fsig.Params().Len(); i++ {
		if d := cc.paramDecl(fsig.Params().At(i), x.Pos()); d != "" {
			ps = append(ps, d)
		} else {
			trFail(x.Pos(), "a parameter of this function literal has an untranslatable type")
		}
	}
	if len(ps) == 0 {
		ps = []string{"(_ : Unit)"}
	}
	cc.nresults = fsig.Results().Len()
	var rts []string
	for i := 0; i < fsig.Results().Len(); i++ {
		cc.resultTypes = append(cc.resultTypes, fsig.Results().At(i).Type())
		rts = append(rts, cc.leanType(fsig.Results().At(i).Type(), x.Pos()))
	}
	switch len(rts) {
	case 0:
		cc.fn.resType = "Unit"
	case 1:
		cc.fn.resType = rts[0]
	default:
		cc.fn.resType = "(" + strings.Join(rts, " × ") + ")"
	}
	term := cc.stmts(x.Body.List, func() trLines {
		if fsig.Results().Len() > 0 {
			trFail(x.End(), "internal: control reaches the end of a function literal with results")
		}
		return cc.returnTerm(nil, x.End())
	})
	// what the literal's translation created belongs to the enclosing definition
	c.aux = append(c.aux, cc.aux...)
	c.extraParams = append(c.extraParams, cc.extraParams...)
	c.extraTypes = append(c.extraTypes, cc.extraTypes...)
	c.externals = append(c.externals, cc.externals...)
	c.ntmp, c.nloop, c.norder, c.nmark = cc.ntmp, cc.nloop, cc.norder, cc.nmark
	c.fn.deps = append(c.fn.deps, cc.fn.deps...)
	sep := " "
	for _, l := range term {
		if strings.HasPrefix(strings.TrimSpace(l), "let ") {
			sep = "\n" // a `let` needs its line break (trans_units_mapping.go: the literal that account.Shorten returns)
		}
	}
	return "(some (fun " + strings.Join(ps, " ") + " => " + strings.Join(term, sep) + "))"
}

func (c *trCtx) nlit() int {
	c.nlitN++
	return c.nlitN
}

// funcCall: f(args) where f is an expression of function type that is not a declared function or method
func (c *trCtx) funcCall(x *ast.CallExpr) (string, bool) {
	sig := trSigOf(c.typeOfOrNil(x.Fun))
	if sig == nil {
		return "", false
	}
	switch f := trUnparen(x.Fun).(type) {
	case *ast.Ident:
		if _, ok := c.info().Uses[f].(*types.Var); !ok {
			return "", false
		}
	case *ast.SelectorExpr:
		sel, ok := c.info().Selections[f]
		if !ok || sel.Kind() != types.FieldVal {
			return "", false
		}
	case *ast.CallExpr, *ast.IndexExpr:
		if _, isIdx := f.(*ast.IndexExpr); isIdx {
			if _, isMap := c.typeOfOrNil(f.(*ast.IndexExpr).X).Underlying().(*types.Map); !isMap {
				return "", false
			}
		}
	default:
		return "", false
	}
	if x.Ellipsis != token.NoPos || sig.Variadic() {
		trFail(x.Pos(), "call of a variadic function value is outside the subset")
	}
	fv := c.expr(x.Fun)
	var args []string
	for i, a := range x.Args {
		args = append(args, c.exprAs(a, sig.Params().At(i).Type()))
	}
	if len(args) == 0 {
		args = []string{"()"}
	}
	if len(args) > 3 {
		trFail(x.Pos(), "call of a function value with more than three arguments is outside the subset")
	}
	n := len(x.Args)
	if n == 0 {
		n = 1
	}
	return c.hoist("callFn"+itoa(n)+" "+fv+" "+strings.Join(args, " "), x.Pos()), true
}

func (c *trCtx) typeOfOrNil(e ast.Expr) types.Type {
	tv, ok := c.info().Types[e]
	if !ok || tv.Type == nil {
		return types.Typ[types.Invalid]
	}
	return tv.Type
}

// ---------------------------------------------------------------------------------------------- write-only objects (logs)

type trLogVar struct {
	method string
	typ    string // List (A × B)
}

// logCall: `c.M(args)` as a statement, c a write-only object
func (c *trCtx) logCall(call *ast.CallExpr, k trK) (trLines, bool) {
	if c.logVars == nil {
		return nil, false
	}
	sel, ok := trUnparen(call.Fun).(*ast.SelectorExpr)
	if !ok {
		return nil, false
	}
	id, ok := trUnparen(sel.X).(*ast.Ident)
	if !ok {
		return nil, false
	}
	o := c.info().Uses[id]
	lv := c.logVars[o]
	if lv == nil {
		return nil, false
	}
	if sel.Sel.Name != lv.method {
		trFail(call.Pos(), "write-only object %s: call of a second method %s", id.Name, sel.Sel.Name)
	}
	var args []string
	for _, a := range call.Args {
		args = append(args, c.expr(a))
	}
	entry := "()"
	if len(args) == 1 {
		entry = args[0]
	} else if len(args) > 1 {
		entry = "(" + strings.Join(args, ", ") + ")"
	}
	pre := c.takePre()
	n := c.names[o]
	return trWrapPre(pre, trLet(n, lv.typ, trOne("("+n+" ++ ["+entry+"])"), k())), true
}

// varType: the Lean type of a local variable (a write-only object has the type of its log)
func (c *trCtx) varType(o types.Object, pos token.Pos) string {
	if r, ok := trAmbientType(o); ok {
		return r // color.NoColor, the float formatter (trans_units_tablerender.go)
	}
	if lv := c.logVars[o]; lv != nil {
		return lv.typ
	}
	if r, ok := c.perfVarType(o, pos); ok {
		return r
	}
	if r, ok := c.createVarType(o, pos); ok {
		return r // a node-pointer parameter of a Create function is the node (trans_units_create.go)
	}
	return c.leanType(o.Type(), pos)
}

// findLogParams: untranslatable parameters of a constructor of closures that the closures use as write-only objects
func (t *trTranslator) findLogParams(c *trCtx, info *types.Info, opaque []*types.Var, cbs []trCallback) map[types.Object]*trLogVar {
	res := map[types.Object]*trLogVar{}
	for _, o := range opaque {
		method := ""
		var argTypes []string
		ok, used := true, false
		for _, cb := range cbs {
			// every use of o must be the receiver of a call statement
			stmtCalls := map[*ast.Ident]bool{}
			ast.Inspect(cb.lit, func(n ast.Node) bool {
				es, isES := n.(*ast.ExprStmt)
				if !isES {
					return true
				}
				call, isCall := es.X.(*ast.CallExpr)
				if !isCall {
					return true
				}
				sel, isSel := call.Fun.(*ast.SelectorExpr)
				if !isSel {
					return true
				}
				id, isID := sel.X.(*ast.Ident)
				if !isID || info.Uses[id] != o {
					return true
				}
				s, isM := info.Selections[sel]
				if !isM || s.Kind() != types.MethodVal {
					return true
				}
				fsig := s.Type().(*types.Signature)
				if fsig.Results().Len() != 0 || fsig.Variadic() {
					ok = false
					return true
				}
				if method != "" && method != sel.Sel.Name {
					ok = false
				}
				if method == "" {
					method = sel.Sel.Name
					for i := 0; i < fsig.Params().Len(); i++ {
						lt := ""
						func() {
							defer func() {
								if r := recover(); r != nil {
									if _, isRj := r.(trReject); !isRj {
										panic(r)
									}
								}
							}()
							lt = c.leanType(fsig.Params().At(i).Type(), call.Pos())
						}()
						if lt == "" {
							ok = false
						}
						argTypes = append(argTypes, lt)
					}
				}
				stmtCalls[id] = true
				return true
			})
			ast.Inspect(cb.lit, func(n ast.Node) bool {
				if id, isID := n.(*ast.Ident); isID && info.Uses[id] == o {
					used = true
					if !stmtCalls[id] {
						ok = false
					}
				}
				return true
			})
		}
		if ok && used && method != "" {
			ty := "Unit"
			if len(argTypes) == 1 {
				ty = argTypes[0]
			} else if len(argTypes) > 1 {
				ty = "(" + strings.Join(argTypes, " × ") + ")"
			}
			res[o] = &trLogVar{method: method, typ: "(List " + ty + ")"}
		}
	}
	return res
}

// typeHasFunc: a value of the type contains a function value (no decidable equality, no Repr)
func (t *trTranslator) typeHasFunc(ty types.Type, depth int) bool {
	if depth > 6 {
		return false
	}
	if trIsTreeNode(ty) {
		return true // a tree of multimap nodes: no derived equality either
	}
	if trIsRegexpPtr(ty) {
		return true // a compiled regular expression is the predicate MatchString (trans_units_mapping.go)
	}
	switch x := ty.Underlying().(type) {
	case *types.Signature:
		return true
	case *types.Struct:
		for i := 0; i < x.NumFields(); i++ {
			if t.typeHasFunc(x.Field(i).Type(), depth+1) {
				return true
			}
		}
	case *types.Slice:
		return t.typeHasFunc(x.Elem(), depth+1)
	case *types.Map:
		return t.typeHasFunc(x.Elem(), depth+1)
	case *types.Pointer:
		if _, ok := x.Elem().Underlying().(*types.Struct); ok {
			return t.typeHasFunc(x.Elem(), depth+1)
		}
	}
	return false
}
