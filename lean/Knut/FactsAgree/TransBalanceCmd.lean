import Knut.Generated.TransCommands
import Knut.Generated.TransFlags
import Knut.FactsAgree.TransMapping
import Knut.FactsAgree.TransQuery
import Knut.FactsAgree.TransAmountsSum
import Knut.FactsAgree.TransDate
import Knut.Generated.Facts
import Knut.Model.BalanceCmd
/-!
# The `journal.Query` that `knut balance` builds (a translated FRAGMENT of `cmd/commands/balance.go` `execute`) is the one the
model's `Balance.queryPosting` assumes
-/
namespace Knut.FactsAgree.TransBalanceCmd
open Knut Knut.GoSem
open Knut.Generated.Go
open Knut.FactsAgree.TransAccount (accountGo)
open Knut.FactsAgree.TransPosting (postingGo commodityGo)
open Knut.FactsAgree.TransMapping
open Knut.FactsAgree.TransQuery (keyOf entryOf Query_Posting_agrees)

/-! ### the generic helpers -/

/-- **`mapper.Sequence`** of two mappers: the first, then the second; a nil mapper panics when it is reached -/
theorem Sequence_two {T : Type} [GoZero T] (f g : mapper.Mapper T) (t : T) :
    mapper.Sequence [f, g] t = (callFn1 f t).bind (fun t' => callFn1 g t') := by
  unfold mapper.Sequence
  simp only [foldlE]
  cases callFn1 f t with
  | ok a => simp only [GoSem.Outcome.bind]; cases callFn1 g a <;> rfl
  | panic m => rfl
  | outOfFuel => rfl

/-- `mapper.Sequence` in general: the mappers in order -/
theorem Sequence_agrees {T : Type} [GoZero T] (ms : List (mapper.Mapper T)) (t : T) :
    mapper.Sequence ms t = foldlE (fun t m => callFn1 m t) t ms := by
  unfold mapper.Sequence
  have : (fun (st1 : T) (el2 : mapper.Mapper T) => GoSem.Outcome.bind (callFn1 el2 st1) (fun t4 => GoSem.Outcome.ok t4)) =
      (fun t m => callFn1 m t) := by
    funext a m; cases callFn1 m a <;> rfl
  rw [this]
  cases foldlE (fun t m => callFn1 m t) t ms <;> rfl

theorem And_range1_two {T : Type} [GoZero T] (ps : List (predicate.Predicate T)) (f g : predicate.Predicate T) (t : T) :
    predicate.And.range1 ps t [f, g] =
      (callFn1 f t).bind fun a => if !a then GoSem.Outcome.ok (Flow.ret false) else
        (callFn1 g t).bind fun b => if !b then GoSem.Outcome.ok (Flow.ret false) else GoSem.Outcome.ok (Flow.next ()) := by
  simp only [predicate.And.range1]

/-- **`predicate.And`** of two predicates: the second is asked only when the first accepts -/
theorem And_two {T : Type} [GoZero T] (f g : predicate.Predicate T) (t : T) :
    predicate.And [f, g] t = (callFn1 f t).bind fun a => if a then callFn1 g t else GoSem.Outcome.ok false := by
  unfold predicate.And
  rw [And_range1_two]
  cases callFn1 f t with
  | ok a =>
    cases a
    · rfl
    · simp only [GoSem.Outcome.bind, Bool.not_true, Bool.false_eq_true, if_false, if_true]
      cases callFn1 g t with
      | ok b => cases b <;> rfl
      | panic m => rfl
      | outOfFuel => rfl
  | panic m => rfl
  | outOfFuel => rfl

/-- `commodity.IdentityIf`: the identity, or the mapper to nil (the zero commodity) -/
theorem IdentityIf_agrees (b : Bool) :
    commodity.IdentityIf b = some (fun c => GoSem.Outcome.ok (if b then c else GoZero.zero)) := by
  cases b <;> rfl

/-- what a list of compiled expressions accepts: everything when there is none (`predicate.ByName` returns `True`) -/
def anyOrEmpty (fs : List (String → Bool)) (s : String) : Bool := fs.isEmpty || fs.any (fun f => f s)

/-- **`predicate.ByName`** (with the method `Name` as the dictionary `name`) -/
theorem ByName_agrees {T : Type} [GoZero T] (name : T → String) (fs : List (String → Bool)) :
    ∃ g, predicate.ByName name (regsGo fs) = GoSem.Outcome.ok (some g) ∧ ∀ t, g t = GoSem.Outcome.ok (anyOrEmpty fs (name t)) := by
  unfold predicate.ByName
  cases fs with
  | nil => exact ⟨fun a => GoSem.Outcome.ok (predicate.True_ a), by simp [regsGo], fun t => by simp [predicate.True_, anyOrEmpty]⟩
  | cons f rest =>
    have : ¬ (len (regsGo (f :: rest)) = (0 : Int)) := by simp [regsGo, len]; omega
    simp only [this, decide_false, Bool.false_eq_true, if_false]
    refine ⟨_, rfl, fun t => ?_⟩
    rw [Regexes_MatchString_agrees]
    simp [GoSem.Outcome.bind, anyOrEmpty]

/-- **`amounts.CommodityMatches`**: the name of the key's commodity -/
theorem CommodityMatches_agrees (fs : List (String → Bool)) :
    ∃ g, amounts.CommodityMatches (regsGo fs) = GoSem.Outcome.ok (some g) ∧
      ∀ k : amounts.Key, g k = GoSem.Outcome.ok (anyOrEmpty fs k.Commodity.name) := by
  unfold amounts.CommodityMatches
  cases fs with
  | nil => exact ⟨fun a => GoSem.Outcome.ok (predicate.True_ a), by simp [regsGo], fun k => by simp [predicate.True_, anyOrEmpty]⟩
  | cons f rest =>
    have : ¬ (len (regsGo (f :: rest)) = (0 : Int)) := by simp [regsGo, len]; omega
    simp only [this, decide_false, Bool.false_eq_true, if_false]
    obtain ⟨g, hg, hgk⟩ := ByName_agrees commodity.Commodity.Name (f :: rest)
    rw [hg]
    refine ⟨_, rfl, fun k => ?_⟩
    simp only [callFn1, hgk, GoSem.Outcome.bind, commodity.Commodity.Name]

/-- the `--account` flag: absent (`Regex()` returns the nil slice) or its expressions -/
def accFilter (o : Option (List (String → Bool))) (s : String) : Bool :=
  match o with
  | none => true
  | some fs => anyOrEmpty fs s

/-- **`amounts.AccountMatches`**: a nil slice accepts everything, else the name of the key's account -/
theorem AccountMatches_agrees (o : Option (List (String → Bool))) :
    ∃ g, amounts.AccountMatches (o.map regsGo) = GoSem.Outcome.ok (some g) ∧
      ∀ k : amounts.Key, g k = GoSem.Outcome.ok (accFilter o k.Account.name) := by
  unfold amounts.AccountMatches
  cases o with
  | none => exact ⟨fun a => GoSem.Outcome.ok (predicate.True_ a), by simp, fun k => by simp [predicate.True_, accFilter]⟩
  | some fs =>
    simp only [Option.map_some, Option.isNone_some, Bool.false_eq_true, if_false, Option.getD_some]
    obtain ⟨g, hg, hgk⟩ := ByName_agrees account.Account.Name fs
    rw [hg]
    refine ⟨_, rfl, fun k => ?_⟩
    simp only [callFn1, hgk, GoSem.Outcome.bind, account.Account.Name, accFilter]

/-! ### the fragment -/

/-- the `ext` parameters are the flag accessors, in this order (the two `extra` parameters are `reg.SwapType` of `account.Remap`
and `reg.MustGetPath` of `account.Shorten`) -/
theorem query_externals_pinned : commands.balanceRunner.execute.query.externals =
    ["ext1 = r.remap.Regex()", "ext3 = r.mapping.Value()", "ext5 = r.accounts.Regex() [none = nil]", "ext6 = r.commodities.Regex()"] := rfl

/-- **the `journal.Query` of `knut balance`**, as `execute` builds it
(`Select: amounts.KeyMapper{Date: partition.Align(), Account: mapper.Sequence(account.Remap(…), account.Shorten(…)), Commodity:
mapper.Identity, Valuation: commodity.IdentityIf(valuation != nil)}.Build()`, `Where: predicate.And(amounts.AccountMatches(…),
amounts.CommodityMatches(…))`, `Valuation: valuation`): the construction succeeds, and
* `Where` accepts a key iff the `--account` expressions accept the name of its account (all, when the flag is absent) and the
  `--commodity` expressions the name of its commodity (all, when there is none);
* `Select` aligns the date, sends the account through `Remap` and then through the mapper of `Shorten` (`sh`), keeps the commodity,
  keeps the valuation iff the report is valued, and DROPS the other account and the description. -/
theorem query_agrees (valuation : commodity.Commodity) (partition : date.Partition)
    (remapFs : List (String → Bool)) (swap : account.Account → account.Account)
    (m : account.Mapping) (getPath : List String → account.Account)
    (accs : Option (List (String → Bool))) (comFs : List (String → Bool)) (hm : ∀ r ∈ m, RuleOK r) :
    ∃ q sh, commands.balanceRunner.execute.query valuation partition (regsGo remapFs) swap m getPath (accs.map regsGo) (regsGo comFs)
        = GoSem.Outcome.ok q ∧
      account.Shorten m getPath = GoSem.Outcome.ok (some sh) ∧
      q.Valuation = valuation ∧ journal.Query.Into.init q = { query := q, c := [] } ∧
      (∀ k : amounts.Key, callFn1 q.Where k =
        GoSem.Outcome.ok (accFilter accs k.Account.name && anyOrEmpty comFs k.Commodity.name)) ∧
      (∀ k : amounts.Key, callFn1 q.Select k =
        (date.Partition.Align partition k.Date).bind fun d =>
        ((account.Remap (regsGo remapFs) k.Account swap).bind sh).bind fun a =>
          GoSem.Outcome.ok { Date := d, Account := a, Other := GoZero.zero, Commodity := k.Commodity,
                             Valuation := if valuation = GoZero.zero then GoZero.zero else k.Valuation,
                             Description := GoZero.zero }) := by
  obtain ⟨sh, hsh, _⟩ := Shorten_agrees m getPath hm
  obtain ⟨ga, hga, hgak⟩ := AccountMatches_agrees accs
  obtain ⟨gc, hgc, hgck⟩ := CommodityMatches_agrees comFs
  unfold commands.balanceRunner.execute.query
  rw [hsh, hga, hgc]
  simp only [GoSem.Outcome.bind]
  refine ⟨_, sh, rfl, rfl, rfl, rfl, ?_, ?_⟩
  · intro k
    simp only [callFn1, And_two, hgak, hgck, GoSem.Outcome.bind]
    cases accFilter accs k.Account.name <;> simp
  · intro k
    simp only [callFn1, TransAmountsSum.KeyMapper_Build_agrees, TransAmountsSum.apField, IdentityIf_agrees, Sequence_two,
      mapper.Identity, GoZero.zero]
    cases date.Partition.Align partition k.Date with
    | panic msg => rfl
    | outOfFuel => rfl
    | ok d =>
      simp only [GoSem.Outcome.bind]
      cases hR : account.Remap (regsGo remapFs) k.Account swap with
      | panic msg => rfl
      | outOfFuel => rfl
      | ok a1 =>
        simp only []
        cases sh a1 with
        | panic msg => rfl
        | outOfFuel => rfl
        | ok a2 =>
          simp only []
          by_cases hv : valuation = { name := "", IsCurrency := false }
          · simp [hv]
          · simp [hv]

/-! ### against the model -/

theorem accountGo_ne_zero {b : Knut.Account} (h : b.wf = true) : accountGo b ≠ GoZero.zero := by
  intro e
  have : (accountGo b).segments = [] := by rw [e]; rfl
  obtain ⟨s, rest, hs, _⟩ := wf_segments h
  simp [accountGo, hs] at this

theorem mapAccount_wf (cfg : BalCfg) {a b : Knut.Account} (h : a.wf = true) (hb : mapAccount cfg a = some b) : b.wf = true := by
  unfold mapAccount at hb
  split at hb
  · exact shorten_wf _ (swapType_wf h) hb
  · exact shorten_wf _ h hb

/-- what the flags of the command are in the model's configuration -/
structure FlagsOK (cfg : BalCfg) (valuation : commodity.Commodity) (remapFs : List (String → Bool)) (m : account.Mapping)
    (accs : Option (List (String → Bool))) (comFs : List (String → Bool)) : Prop where
  remap : ∀ s, cfg.remap s = remapFs.any (fun f => f s)
  rules : ∀ r ∈ m, RuleOK r
  mapping : m.map ruleOf = cfg.mapping
  accounts : ∀ s, cfg.accountFilter s = accFilter accs s
  commodities : ∀ s, cfg.commodityFilter s = anyOrEmpty comFs s
  valuation : (valuation = GoZero.zero) ↔ cfg.valuation = none

/-- **the report entries of `knut balance`**: with the query that `execute` builds — flags as in `cfg` (`FlagsOK`), the partition
of `cfg.periods` (ends ascending, none the zero date), a registry that returns the account of a path / the swapped account — the
`Posting` callback of `Query.Into` on a posting of a well-formed account succeeds, leaves the query alone, and the entries that
`Report.Insert` keeps of its log grow by exactly the model's `Balance.queryPosting`.  This discharges the hypotheses that
`TransQuery.Query_Posting_model` leaves open ("that is how cmd/commands/balance.go sets them up"). -/
theorem query_posting_model (cfg : BalCfg) (cur : String → Bool) (valuation : commodity.Commodity)
    (span : Knut.Period) (iv : Knut.Interval)
    (remapFs : List (String → Bool)) (swap : account.Account → account.Account)
    (m : account.Mapping) (getPath : List String → account.Account)
    (accs : Option (List (String → Bool))) (comFs : List (String → Bool))
    (hfl : FlagsOK cfg valuation remapFs m accs comFs)
    (hsorted : List.Pairwise (fun p q : Knut.Period => p.stop ≤ q.stop) cfg.periods) (hstop : ∀ p ∈ cfg.periods, p.stop ≠ 0)
    (hreg : RegistryPath getPath) (hswap : RegistrySwap swap) :
    ∃ q, commands.balanceRunner.execute.query valuation (TransDate.partitionGo ⟨span, iv, cfg.periods⟩) (regsGo remapFs) swap m getPath
          (accs.map regsGo) (regsGo comFs) = GoSem.Outcome.ok q ∧
      journal.Query.Into.init q = { query := q, c := [] } ∧
      ∀ (st : journal.Query.Into.State), st.query = q →
      ∀ (tg : transaction.Transaction) (t : Knut.Transaction) (src : Ref) (p : Knut.Posting),
        tg.Date = t.date → p.account.wf = true →
        ∃ st', journal.Query.Into.Posting st tg (postingGo cur src p) = GoSem.Outcome.ok (st', none) ∧ st'.query = st.query ∧
          st'.c.filterMap entryOf = st.c.filterMap entryOf ++ (Balance.queryPosting cfg t p).toList := by
  obtain ⟨q, sh0, hq, hsh0, hqv, hinit, hW, hS⟩ :=
    query_agrees valuation (TransDate.partitionGo ⟨span, iv, cfg.periods⟩) remapFs swap m getPath accs comFs hfl.rules
  refine ⟨q, hq, hinit, ?_⟩
  intro st hst tg t src p hdate hwf
  obtain ⟨sh, hsh, hshA⟩ := Shorten_agrees_registry m getPath hfl.rules hreg
  have hshe : sh0 = sh := by
    have := hsh0.symm.trans hsh
    injection this with this; injection this
  subst hshe
  rw [Query_Posting_agrees, hst, hqv]
  have hkey : keyOf valuation tg (postingGo cur src p) =
      { Date := t.date, Account := accountGo p.account, Other := accountGo p.other, Commodity := commodityGo cur p.commodity,
        Valuation := valuation, Description := tg.Description } := by
    simp [keyOf, postingGo, hdate]
  simp only [hW, hS, hkey, GoSem.Outcome.bind]
  have hname : (accountGo p.account).name = p.account.name := rfl
  have hcom : (commodityGo cur p.commodity).name = p.commodity := rfl
  rw [hname, hcom, ← hfl.accounts, ← hfl.commodities]
  unfold Balance.queryPosting
  by_cases hf : (cfg.accountFilter p.account.name && cfg.commodityFilter p.commodity) = true
  · simp only [hf, if_true]
    rw [TransDate.Align_agrees_of_sorted span iv cfg.periods t.date hsorted]
    simp only []
    -- the account: Remap, then the mapper of Shorten
    have hR := Remap_model remapFs swap hswap p.account hwf
    rw [hR]
    simp only []
    have hwf' : (if remapFs.any (fun f => f p.account.name) then swapType p.account else p.account).wf = true := by
      cases remapFs.any (fun f => f p.account.name)
      · exact hwf
      · exact swapType_wf hwf
    rw [hshA _ hwf', hfl.mapping]
    have hmapA : shorten cfg.mapping (if remapFs.any (fun f => f p.account.name) then swapType p.account else p.account) =
        mapAccount cfg p.account := by
      unfold mapAccount; rw [hfl.remap]
    rw [hmapA]
    simp only []
    refine ⟨_, rfl, rfl, ?_⟩
    simp only [List.filterMap_append, List.filterMap_cons, List.filterMap_nil]
    have hamt : (if valuation = GoZero.zero then (postingGo cur src p).Quantity else (postingGo cur src p).Value) =
        (if cfg.valuation.isSome = true then p.value else p.quantity) := by
      by_cases hz : valuation = GoZero.zero
      · simp [hz, hfl.valuation.mp hz, postingGo]
      · have hne : cfg.valuation ≠ none := fun e => hz (hfl.valuation.mpr e)
        have : cfg.valuation.isSome = true := by
          cases hc : cfg.valuation with
          | none => exact absurd hc hne
          | some v => rfl
        simp [hz, this, postingGo]
    rw [hamt]
    cases hma : mapAccount cfg p.account with
    | none => simp [optGo, entryOf]
    | some b =>
      have hb := mapAccount_wf cfg hwf hma
      have hnz := accountGo_ne_zero hb
      have hd : (if (alignIn cfg.periods t.date).getD 0 = 0 then none else some ((alignIn cfg.periods t.date).getD 0)) =
          alignIn cfg.periods t.date := by
        cases ha : alignIn cfg.periods t.date with
        | none => simp
        | some d =>
          have : d ≠ 0 := by
            unfold alignIn at ha
            cases hfnd : cfg.periods.find? (fun p => !(p.stop < t.date)) with
            | none => simp [hfnd] at ha
            | some pr =>
              simp [hfnd] at ha
              rw [← ha]
              exact hstop pr (List.mem_of_find?_eq_some hfnd)
          simp [this]
      simp only [optGo, entryOf, if_neg hnz, hd]
      simp [accountGo, commodityGo]
  · have hf' : (cfg.accountFilter p.account.name && cfg.commodityFilter p.commodity) = false := by simpa using hf
    simp only [hf', Bool.false_eq_true, if_false]
    exact ⟨st, rfl, hst, by simp⟩

/-! ### the query stage on a whole day -/

open Knut.FactsAgree.TransProcess (Proc processDay AllRel PRel TRel)

/-- the processor that `Query{…}.Into(report)` returns: its one closure, `Posting` (which leaves the posting alone), in the shape
`processDay` expects -/
def queryCb (st : journal.Query.Into.State) (t : transaction.Transaction) (p : posting.Posting) :
    GoSem.Outcome (journal.Query.Into.State × posting.Posting × Option Error) :=
  (journal.Query.Into.Posting st t p).bind fun r => GoSem.Outcome.ok (r.1, p, r.2)

def queryProc : Proc journal.Query.Into.State := { Posting := some queryCb }

theorem queryCb_ok {st st1 : journal.Query.Into.State} {t : transaction.Transaction} {p : posting.Posting} {e : Option Error}
    (h : journal.Query.Into.Posting st t p = GoSem.Outcome.ok (st1, e)) : queryCb st t p = GoSem.Outcome.ok (st1, p, e) := by
  unfold queryCb; rw [h]; rfl

/-- the conclusion of `query_posting_model` about a query `q` -/
def PostingOK (cfg : BalCfg) (cur : String → Bool) (q : journal.Query) : Prop :=
  ∀ (st : journal.Query.Into.State), st.query = q →
    ∀ (tg : transaction.Transaction) (t : Knut.Transaction) (src : Ref) (p : Knut.Posting),
      tg.Date = t.date → p.account.wf = true →
      ∃ st', journal.Query.Into.Posting st tg (postingGo cur src p) = GoSem.Outcome.ok (st', none) ∧ st'.query = st.query ∧
        st'.c.filterMap entryOf = st.c.filterMap entryOf ++ (Balance.queryPosting cfg t p).toList

theorem forEachE_cons_ok {σ α : Type} (f : σ → α → GoSem.Outcome (σ × α × Option Error)) (st st1 : σ) (x x' : α) (rest done : List α)
    (h : f st x = GoSem.Outcome.ok (st1, x', none)) :
    TransProcess.forEachE f st (x :: rest) done = TransProcess.forEachE f st1 rest (done ++ [x']) := by
  simp only [TransProcess.forEachE, h, GoSem.Outcome.bind, Option.isSome_none, Bool.false_eq_true, if_false]

theorem forEachIn_cons_ok {σ α β : Type} (f : σ → β → α → GoSem.Outcome (σ × α × Option Error)) (ctx : List α → β) (st st1 : σ)
    (x x' : α) (rest done : List α) (h : f st (ctx (done ++ x :: rest)) x = GoSem.Outcome.ok (st1, x', none)) :
    TransProcess.forEachIn f ctx st (x :: rest) done = TransProcess.forEachIn f ctx st1 rest (done ++ [x']) := by
  simp only [TransProcess.forEachIn, h, GoSem.Outcome.bind, Option.isSome_none, Bool.false_eq_true, if_false]

theorem postingsOf_ok {σ : Type} (fp : σ → transaction.Transaction → posting.Posting → GoSem.Outcome (σ × posting.Posting × Option Error))
    (st st1 : σ) (g : transaction.Transaction)
    (h : TransProcess.forEachIn fp (fun ps => { g with Postings := ps }) st g.Postings [] = GoSem.Outcome.ok (st1, g.Postings, none)) :
    TransProcess.postingsOf fp st g = GoSem.Outcome.ok (st1, g, none) := by
  unfold TransProcess.postingsOf
  rw [h]; rfl

theorem postings_loop {cfg : BalCfg} {cur : String → Bool} {q : journal.Query} (hq : PostingOK cfg cur q)
    (t : Knut.Transaction) (ctx : List posting.Posting → transaction.Transaction) (hctx : ∀ l, (ctx l).Date = t.date) :
    ∀ (mps : List Knut.Posting) (ps done : List posting.Posting) (st : journal.Query.Into.State),
      AllRel (PRel cur) ps mps → (∀ p ∈ mps, p.account.wf = true) → st.query = q →
      ∃ st', TransProcess.forEachIn queryCb ctx st ps done = GoSem.Outcome.ok (st', done ++ ps, none) ∧ st'.query = q ∧
        st'.c.filterMap entryOf = st.c.filterMap entryOf ++ mps.filterMap (Balance.queryPosting cfg t) := by
  intro mps
  induction mps with
  | nil =>
    intro ps done st hrel _ hst
    cases hrel
    exact ⟨st, by simp [TransProcess.forEachIn], hst, by simp⟩
  | cons mp mrest ih =>
    intro ps done st hrel hwf hst
    cases hrel with
    | cons hp hrest =>
      rename_i g grest
      obtain ⟨st1, h1, hq1, hc1⟩ := hq st hst (ctx (done ++ g :: grest)) t g.Src mp (hctx _) (hwf mp (by simp))
      obtain ⟨st2, h2, hq2, hc2⟩ := ih grest (done ++ [g]) st1 hrest (fun p hp => hwf p (by simp [hp])) (hq1.trans hst)
      refine ⟨st2, ?_, hq2, ?_⟩
      · have hg : g = postingGo cur g.Src mp := hp
        rw [← hg] at h1
        rw [forEachIn_cons_ok _ _ _ _ _ _ _ _ (queryCb_ok h1), h2]
        simp
      · rw [hc2, hc1]
        simp only [List.filterMap_cons, List.append_assoc]
        cases Balance.queryPosting cfg t mp <;> simp

theorem txs_loop {cfg : BalCfg} {cur : String → Bool} {q : journal.Query} (hq : PostingOK cfg cur q) :
    ∀ (txs : List Knut.Transaction) (gs done : List transaction.Transaction) (st : journal.Query.Into.State),
      AllRel (TRel cur) gs txs → (∀ t ∈ txs, ∀ p ∈ t.postings, p.account.wf = true) → st.query = q →
      ∃ st', TransProcess.forEachE (TransProcess.postingsOf queryCb) st gs done =
          GoSem.Outcome.ok (st', done ++ gs, none) ∧ st'.query = q ∧
        st'.c.filterMap entryOf = st.c.filterMap entryOf ++ txs.flatMap (Balance.queryTx cfg) := by
  intro txs
  induction txs with
  | nil =>
    intro gs done st hrel _ hst
    cases hrel
    exact ⟨st, by simp [TransProcess.forEachE], hst, by simp⟩
  | cons t trest ih =>
    intro gs done st hrel hwf hst
    cases hrel with
    | cons ht hrest =>
      rename_i g grest
      obtain ⟨hdate, _, hps, _⟩ := ht
      obtain ⟨st1, h1, hq1, hc1⟩ := postings_loop hq t (fun ps => { g with Postings := ps }) (fun _ => hdate) t.postings g.Postings []
        st hps (hwf t (by simp)) hst
      obtain ⟨st2, h2, hq2, hc2⟩ := ih grest (done ++ [g]) st1 hrest (fun t' ht' => hwf t' (by simp [ht'])) hq1
      refine ⟨st2, ?_, hq2, ?_⟩
      · rw [forEachE_cons_ok _ _ _ _ _ _ _ (postingsOf_ok _ _ _ _ (by simpa using h1)), h2]
        simp
      · rw [hc2, hc1]
        simp [Balance.queryTx, List.flatMap_cons]

/-- **the query stage of `knut balance` on one day** = the last line of `Balance.day`: `Processor.Process` with the processor of
`Query{…}.Into(report)` (for the query that `execute` builds) leaves the day as it is, and the entries that `Report.Insert` keeps of
the log grow by `txs.flatMap (Balance.queryTx cfg)` for the model transactions `txs` the day's transactions stand for -/
theorem query_day_model {cfg : BalCfg} {cur : String → Bool} {q : journal.Query} (hq : PostingOK cfg cur q)
    (st : journal.Query.Into.State) (hst : st.query = q) (dg : journal.Day) (txs : List Knut.Transaction)
    (hrel : AllRel (TRel cur) dg.Transactions txs) (hwf : ∀ t ∈ txs, ∀ p ∈ t.postings, p.account.wf = true) :
    ∃ st', processDay queryProc st dg = GoSem.Outcome.ok (st', dg, none) ∧ st'.query = q ∧
      st'.c.filterMap entryOf = st.c.filterMap entryOf ++ txs.flatMap (Balance.queryTx cfg) := by
  obtain ⟨st', h, hq', hc⟩ := txs_loop hq txs dg.Transactions [] st hrel hwf hst
  refine ⟨st', ?_, hq', hc⟩
  unfold processDay queryProc
  simp only [TransProcess.optStep, TransProcess.pricesStep, TransProcess.opensStep, TransProcess.txStep, TransProcess.assertStep,
    TransProcess.closeStep, TransProcess.DayStep.andThen, TransProcess.DayStep.skip, TransProcess.onTransactions, GoSem.Outcome.bind,
    Option.isSome_none, Bool.false_eq_true, if_false, h, List.nil_append]

/-- **`knut balance`, the query stage**: the query that `execute` builds, started by `Query.Into` (empty log), run by
`Processor.Process` over a day, inserts into the report exactly the entries of `Balance.day`'s last line -/
theorem balance_query_day (cfg : BalCfg) (cur : String → Bool) (valuation : commodity.Commodity)
    (span : Knut.Period) (iv : Knut.Interval)
    (remapFs : List (String → Bool)) (swap : account.Account → account.Account)
    (m : account.Mapping) (getPath : List String → account.Account)
    (accs : Option (List (String → Bool))) (comFs : List (String → Bool))
    (hfl : FlagsOK cfg valuation remapFs m accs comFs)
    (hsorted : List.Pairwise (fun p q : Knut.Period => p.stop ≤ q.stop) cfg.periods) (hstop : ∀ p ∈ cfg.periods, p.stop ≠ 0)
    (hreg : RegistryPath getPath) (hswap : RegistrySwap swap) :
    ∃ q, commands.balanceRunner.execute.query valuation (TransDate.partitionGo ⟨span, iv, cfg.periods⟩) (regsGo remapFs) swap m getPath
          (accs.map regsGo) (regsGo comFs) = GoSem.Outcome.ok q ∧
      journal.Query.Into.init q = { query := q, c := [] } ∧
      ∀ (st : journal.Query.Into.State), st.query = q →
      ∀ (dg : journal.Day) (txs : List Knut.Transaction), AllRel (TRel cur) dg.Transactions txs →
        (∀ t ∈ txs, ∀ p ∈ t.postings, p.account.wf = true) →
        ∃ st', processDay queryProc st dg = GoSem.Outcome.ok (st', dg, none) ∧ st'.query = q ∧
          st'.c.filterMap entryOf = st.c.filterMap entryOf ++ txs.flatMap (Balance.queryTx cfg) := by
  obtain ⟨q, hq, hinit, hpost⟩ := query_posting_model cfg cur valuation span iv remapFs swap m getPath accs comFs hfl hsorted hstop hreg hswap
  exact ⟨q, hq, hinit, fun st hst dg txs hrel hwf => query_day_model hpost st hst dg txs hrel hwf⟩

/-! ### the partition: `r.Multiperiod.Partition(j.Period())` -/

/-- the `Multiperiod` flags of the model's `BalanceFlags`: `--from` (absent = the zero time), `--to`, `--last`; the interval flags
are read through `IntervalFlags.Value()`, which is not translated (a loop over an array of flags): its result is the parameter -/
def multiperiodGo (f : BalanceFlags) : flags.Multiperiod :=
  { period := { start := f.from?.getD 0, end_ := f.to }, last := f.last, interval := { def_ := 0 } }

/-- **`Multiperiod.Partition`** = the partition of `BalanceCmd.entries`: `NewPartition` of the flag period clipped to the journal's
period (`BalanceCmd.window`), the interval and `--last`; the zero-time panic of `NewPartition` included -/
theorem Partition_agrees (f : BalanceFlags) (b : Knut.Builder) :
    flags.Multiperiod.Partition (multiperiodGo f) (TransDate.periodGo ⟨b.min, b.max⟩) (TransDate.ivGo f.interval) =
      TransDate.outcomeGo TransDate.partitionGo (newPartition (BalanceCmd.window f b) f.interval f.last) := by
  unfold flags.Multiperiod.Partition BalanceCmd.window
  have hp : flags.PeriodFlag.Value (multiperiodGo f).period = TransDate.periodGo ⟨f.from?.getD 0, f.to⟩ := rfl
  rw [hp, TransDate.Clip_agrees, TransDate.NewPartition_agrees]
  have hl : (multiperiodGo f).last = f.last := rfl
  rw [hl]
  cases newPartition _ f.interval f.last <;> rfl

/-! ### the rest of `execute`, pinned by source text

`execute` as a whole is outside the translated subset (cobra, the registry, the journal builder, the processors as values, bufio).
`harness/facts_balancecmd.go` extracts from its syntax tree which constructor gets which variables, how those variables are defined,
how the renderers are filled and which flag sets which field; the expectations below are what `Model/BalanceCmd.lean` assumes.  A
change of any of these texts in /repo fails the `example`. -/

/-- the processors, in the order of `Balance.dayTxs`/`Balance.day` (check, ComputePrices, Valuate, Filter, CloseAccounts, Query),
with the variables the model gives them: ONE `valuation` for ComputePrices, Valuate and the query (`cfg.valuation`), ONE
`partition` for Filter, CloseAccounts and the query's `Align` (`cfg.span`, `cfg.periods`), `r.close` (`cfg.close`), the journal
builder `j` for the closing days, and the report the query inserts into -/
theorem processors_pinned : Knut.Generated.balanceProcessorCalls =
    [("check.Check", []), ("journal.ComputePrices", ["valuation"]), ("journal.Valuate", ["reg", "valuation"]),
     ("journal.Filter", ["partition"]), ("journal.CloseAccounts", ["j", "reg", "r.close", "partition"]),
     ("journal.Query.Into", ["report"])] := rfl

theorem processorOrder_pinned : Knut.Generated.balanceProcessorOrder = Knut.Generated.balanceProcessorCalls.map Prod.fst := rfl

/-- how these variables are defined: the valuation from the flag, the journal from the path argument, the partition =
`Multiperiod.Partition` of the journal's period (`BalanceCmd.window` clipped by `newPartition`), the report over the SAME
partition, the processors run by `j.Build().Process(procs...)` (`Balance.run cfg b.build`), then the renderer -/
theorem setup_pinned : Knut.Generated.balanceSetup =
    [("reg", "registry.New()"), ("valuation, err", "r.valuation.Value(reg)"),
     ("j, err", "journal.FromPath(cmd.Context(), reg, args[0])"), ("partition", "r.Multiperiod.Partition(j.Period())"),
     ("report", "balance.NewReport(reg, partition)"), ("procs", "<the processors>"), ("err", "j.Build().Process(procs...)"),
     ("reportRenderer", "balance.Renderer{…}"), ("out", "bufio.NewWriter(cmd.OutOrStdout())")] := rfl

/-- `BalanceCmd.renderCfg`: valuation, `--show-commodities`, `--sort`, `--diff` -/
theorem rendererFields_pinned : Knut.Generated.balanceRendererFields =
    [("Valuation", "valuation"), ("CommodityDetails", "r.showCommodities.Regex()"),
     ("SortAlphabetically", "r.sortAlphabetically"), ("Diff", "r.diff")] := rfl

/-- `BalanceCmd.run`: `--csv` chooses the CSV renderer (no options), else the text renderer with `--thousands` and `--digits` -/
theorem rendererChoice_pinned : Knut.Generated.balanceRendererChoice = ["tableRenderer", "r.csv", "table.CSVRenderer", "table.TextRenderer"] ∧
    Knut.Generated.balanceCSVRendererFields = [] ∧
    Knut.Generated.balanceTextRendererFields = [("Color", "r.color"), ("Thousands", "r.thousands"), ("Round", "r.digits")] ∧
    Knut.Generated.balanceLastStatement = "return tableRenderer.Render(reportRenderer.Render(report), out)" := ⟨rfl, rfl, rfl, rfl⟩

/-- the flags: name, the field of `balanceRunner` it sets, its default -/
theorem flags_pinned : Knut.Generated.balanceFlags =
    [("r.Multiperiod.Setup(c)", "", ""), ("cpuprofile", "r.cpuprofile", "\"\""), ("diff", "r.diff", "false"), ("csv", "r.csv", "false"),
     ("close", "r.close", "true"), ("sort", "r.sortAlphabetically", "false"), ("show-commodities", "r.showCommodities", "-"),
     ("val", "r.valuation", "-"), ("map", "r.mapping", "-"), ("remap", "r.remap", "-"), ("account", "r.accounts", "-"),
     ("commodity", "r.commodities", "-"), ("digits", "r.digits", "0"), ("thousands", "r.thousands", "false"),
     ("color", "r.color", "true")] := rfl

/-- the same defaults in the model's `BalanceFlags` -/
theorem flagDefaults_model : (({ to := 0 } : BalanceFlags).diff, ({ to := 0 } : BalanceFlags).csv, ({ to := 0 } : BalanceFlags).close,
    ({ to := 0 } : BalanceFlags).sortAlpha, ({ to := 0 } : BalanceFlags).digits, ({ to := 0 } : BalanceFlags).thousands) =
    (false, false, true, false, 0, false) := rfl

end Knut.FactsAgree.TransBalanceCmd
