/-!
# Association lists as finite maps with a default value

Go maps used as finite functions are modelled by association lists. `get` returns the value of
the first entry with the key (or the default), `set` replaces it (or appends), `erase` removes it.
The theorems here say that these behave like updates of the total function `get`.
-/
namespace Knut

abbrev AMap (κ : Type) (ν : Type) := List (κ × ν)

namespace AMap
variable {κ ν : Type} [DecidableEq κ]

def find? (m : AMap κ ν) (k : κ) : Option ν :=
  match m with
  | [] => none
  | (k', v) :: rest => if k' = k then some v else find? rest k

def get (m : AMap κ ν) (k : κ) (dflt : ν) : ν := (m.find? k).getD dflt

def set (m : AMap κ ν) (k : κ) (v : ν) : AMap κ ν :=
  match m with
  | [] => [(k, v)]
  | (k', v') :: rest => if k' = k then (k, v) :: rest else (k', v') :: set rest k v

def erase (m : AMap κ ν) (k : κ) : AMap κ ν :=
  match m with
  | [] => []
  | (k', v') :: rest => if k' = k then erase rest k else (k', v') :: erase rest k

def keys (m : AMap κ ν) : List κ := m.map (·.1)

@[simp] theorem find?_nil (k : κ) : find? ([] : AMap κ ν) k = none := rfl

theorem find?_set (m : AMap κ ν) (k k' : κ) (v : ν) :
    find? (set m k v) k' = if k = k' then some v else find? m k' := by
  induction m with
  | nil => simp [set, find?]
  | cons p rest ih =>
    obtain ⟨a, b⟩ := p
    simp only [set]
    by_cases h : a = k
    · subst h
      simp only [if_true, find?]
      by_cases h2 : a = k' <;> simp [h2]
    · simp only [h, if_false, find?]
      by_cases h2 : a = k'
      · simp only [h2, if_true]
        have : ¬ k = k' := fun e => h (h2.trans e.symm)
        simp [this]
      · simp only [h2, if_false]; exact ih

theorem get_set (m : AMap κ ν) (k k' : κ) (v d : ν) :
    get (set m k v) k' d = if k = k' then v else get m k' d := by
  unfold get; rw [find?_set]; split <;> simp

theorem find?_erase (m : AMap κ ν) (k k' : κ) :
    find? (erase m k) k' = if k = k' then none else find? m k' := by
  induction m with
  | nil => simp [erase, find?]
  | cons p rest ih =>
    obtain ⟨a, b⟩ := p
    simp only [erase]
    by_cases h : a = k
    · subst h
      simp only [if_true, find?]
      by_cases h2 : a = k'
      · simp [h2] at ih ⊢; simpa [h2] using ih
      · simp only [h2, if_false] at ih ⊢; exact ih
    · simp only [h, if_false, find?]
      by_cases h2 : a = k'
      · have : ¬ k = k' := fun e => h (h2.trans e.symm)
        simp [h2, this]
      · simp only [h2, if_false]; exact ih

theorem get_erase (m : AMap κ ν) (k k' : κ) (d : ν) :
    get (erase m k) k' d = if k = k' then d else get m k' d := by
  unfold get; rw [find?_erase]; split <;> simp

end AMap
end Knut
