import Knut.Spec.LayoutSpec
import Knut.Properties.C05
import Knut.Proofs.LifecyclePerm
import Knut.Proofs.PrintSort
import Knut.Proofs.PrintRebuild
/-!
# What `journal.Print` shows of two permutations of one directive list (C05, layout)

* `sorted_perm_pointwise` – two sorted permutations of one list under a total preorder agree position by position up
  to the equivalence of the preorder (generic; by removing the head of one list from the other);
* `printEquiv_of_perm` – the journals built from two permutations of a directive list are `PrintEquiv`.
-/
namespace Knut.Layout
open Knut Knut.JournalPrinter Knut.C05 Knut.FromSyntax

/-! ### sorted permutations agree pointwise up to equivalence -/

section Sorted
variable {α : Type} [DecidableEq α] (le : α → α → Bool)

omit [DecidableEq α] in
theorem forall₂_refl' {R : α → α → Prop} (hr : ∀ a, R a a) : ∀ l : List α, List.Forall₂ R l l
  | [] => .nil
  | a :: l => .cons (hr a) (forall₂_refl' hr l)

omit [DecidableEq α] in
theorem forall₂_trans' {R : α → α → Prop} (ht : ∀ a b c, R a b → R b c → R a c) :
    ∀ {l1 l2 l3 : List α}, List.Forall₂ R l1 l2 → List.Forall₂ R l2 l3 → List.Forall₂ R l1 l3
  | _, _, _, .nil, .nil => .nil
  | _, _, _, .cons h1 t1, .cons h2 t2 => .cons (ht _ _ _ h1 h2) (forall₂_trans' ht t1 t2)

/-- a sorted list all of whose elements are above `b`, containing an `a` below `b`: moving `a` out and `b` in at the
head changes every position by an equivalent element only -/
theorem erase_pointwise (htr : ∀ a b c, le a b = true → le b c = true → le a c = true) (hrefl : ∀ a, le a a = true) :
    ∀ (l : List α) (a b : α), l.Pairwise (fun x y => le x y = true) → (∀ x ∈ l, le b x = true) → a ∈ l → le a b = true →
      List.Forall₂ (fun x y => le x y = true ∧ le y x = true) (b :: l.erase a) l
  | [], a, b, _, _, ha, _ => by cases ha
  | c :: r, a, b, hs, hb, ha, hab => by
    have hbc := hb c List.mem_cons_self
    by_cases hca : c = a
    · subst hca
      rw [List.erase_cons_head]
      exact .cons ⟨hbc, hab⟩ (forall₂_refl' (fun x => ⟨hrefl x, hrefl x⟩) r)
    · have har : a ∈ r := by
        rcases List.mem_cons.mp ha with h | h
        · exact absurd h.symm hca
        · exact h
      have hsc := List.pairwise_cons.mp hs
      have hcle : le c a = true := hsc.1 a har
      rw [List.erase_cons_tail (by simpa using hca)]
      refine .cons ⟨hbc, htr _ _ _ hcle hab⟩ ?_
      exact erase_pointwise htr hrefl r a c hsc.2 (fun x hx => hsc.1 x hx) har (htr _ _ _ hab hbc)

theorem sorted_perm_pointwise (htr : ∀ a b c, le a b = true → le b c = true → le a c = true) (hrefl : ∀ a, le a a = true) :
    ∀ (l1 l2 : List α), l1.Pairwise (fun x y => le x y = true) → l2.Pairwise (fun x y => le x y = true) → l1.Perm l2 →
      List.Forall₂ (fun x y => le x y = true ∧ le y x = true) l1 l2
  | [], l2, _, _, hp => by have := hp.nil_eq; subst this; exact .nil
  | a :: l1, [], _, _, hp => by have := hp.length_eq; simp at this
  | a :: l1, b :: l2, h1, h2, hp => by
    have hs1 := List.pairwise_cons.mp h1
    have hs2 := List.pairwise_cons.mp h2
    by_cases hab : a = b
    · subst hab
      exact .cons ⟨hrefl a, hrefl a⟩ (sorted_perm_pointwise htr hrefl l1 l2 hs1.2 hs2.2 (List.Perm.cons_inv hp))
    · have ha2 : a ∈ l2 := by
        have : a ∈ b :: l2 := hp.subset List.mem_cons_self
        rcases List.mem_cons.mp this with h | h
        · exact absurd h hab
        · exact h
      have hb1 : b ∈ l1 := by
        have : b ∈ a :: l1 := hp.symm.subset List.mem_cons_self
        rcases List.mem_cons.mp this with h | h
        · exact absurd h.symm hab
        · exact h
      have hle_ab : le a b = true := hs1.1 b hb1
      have hle_ba : le b a = true := hs2.1 a ha2
      -- `l1` is a permutation of `b :: l2.erase a`, which is sorted
      have hp' : l1.Perm (b :: l2.erase a) := by
        have e1 : (a :: l1).Perm (a :: b :: l2.erase a) :=
          hp.trans ((List.Perm.cons b (List.perm_cons_erase ha2)).trans (List.Perm.swap a b _))
        exact List.Perm.cons_inv e1
      have hsorted' : (b :: l2.erase a).Pairwise (fun x y => le x y = true) := by
        refine List.pairwise_cons.mpr ⟨fun x hx => hs2.1 x (List.mem_of_mem_erase hx), ?_⟩
        exact hs2.2.sublist (List.erase_sublist)
      have ih := sorted_perm_pointwise htr hrefl l1 (b :: l2.erase a) hs1.2 hsorted' hp'
      have he := erase_pointwise le htr hrefl l2 a b hs2.2 hs2.1 ha2 hle_ab
      exact .cons ⟨hle_ab, hle_ba⟩
        (forall₂_trans' (fun x y z h1 h2 => ⟨htr _ _ _ h1.1 h2.1, htr _ _ _ h2.2 h1.2⟩) ih he)
termination_by l1 _ => l1.length

end Sorted

theorem forall₂_zip {α β : Type} {R : α → β → Prop} : ∀ {l : List α} {l' : List β}, List.Forall₂ R l l' →
    l.length = l'.length ∧ ∀ p ∈ l.zip l', R p.1 p.2
  | _, _, .nil => ⟨rfl, fun p hp => by cases hp⟩
  | _, _, .cons h t => by
    obtain ⟨hl, hz⟩ := forall₂_zip t
    refine ⟨by simp [hl], ?_⟩
    intro p hp
    simp only [List.zip_cons_cons, List.mem_cons] at hp
    rcases hp with rfl | hp
    · exact h
    · exact hz p hp

theorem leTx_refl (a : Transaction) : leTx a a = true := by
  have := leTx_total a a
  simpa using this

theorem cmpTx_eq_of_le {a b : Transaction} (h1 : leTx a b = true) (h2 : leTx b a = true) : cmpTx a b = .eq := by
  rw [leTx_isLE] at h1 h2
  rw [Std.OrientedCmp.eq_swap (cmp := cmpTx) (a := b) (b := a)] at h2
  cases h : cmpTx a b with
  | eq => rfl
  | lt => rw [h] at h2; exact absurd h2 (by decide)
  | gt => rw [h] at h1; exact absurd h1 (by decide)

/-- **the sorted transaction sequences of two permutations agree position by position up to `transaction.Compare`** -/
theorem sortTxs_perm_pointwise {l l' : List Transaction} (hp : l.Perm l') :
    (sortTxs l).Perm (sortTxs l') ∧ ∀ p ∈ (sortTxs l).zip (sortTxs l'), cmpTx p.1 p.2 = .eq := by
  have hperm : (sortTxs l).Perm (sortTxs l') :=
    (List.mergeSort_perm l _).trans (hp.trans (List.mergeSort_perm l' _).symm)
  refine ⟨hperm, ?_⟩
  have := sorted_perm_pointwise leTx leTx_trans leTx_refl _ _ (sortTxs_sorted l) (sortTxs_sorted l') hperm
  intro p hpz
  have := (forall₂_zip this).2 p hpz
  exact cmpTx_eq_of_le this.1 this.2

/-! ### transactions that compare equal print alike -/

theorem cmpStr_eq {a b : String} (h : cmpStr a b = .eq) : a = b :=
  Std.LawfulEqCmp.eq_of_compare (cmp := (compare : String → String → Ordering)) h

theorem cmpRat_eq_eq {a b : Rat} (h : cmpRat a b = .eq) : a = b := by
  unfold cmpRat at h
  split at h
  · cases h
  · split at h
    · cases h
    · rename_i h1 h2
      exact Rat.le_antisymm (Rat.not_lt.mp h2) (Rat.not_lt.mp h1)

theorem cmpAccount_eq_name {a b : Account} (h : cmpAccount a b = .eq) : a.name = b.name := by
  unfold cmpAccount at h
  simp only at h
  split at h
  · cases h
  · split at h
    · cases h
    · exact cmpStr_eq h

/-- what `printPosting` shows of a posting -/
theorem cmpPosting_eq_print {p q : Posting} (h : cmpPosting p q = .eq) (pad : Nat) : printPosting pad p = printPosting pad q := by
  unfold cmpPosting at h
  obtain ⟨h1, h⟩ := Ordering.then_eq_eq.mp h
  obtain ⟨h2, h⟩ := Ordering.then_eq_eq.mp h
  obtain ⟨h3, h⟩ := Ordering.then_eq_eq.mp h
  obtain ⟨_, h5⟩ := Ordering.then_eq_eq.mp h
  unfold printPosting
  rw [cmpAccount_eq_name h1, cmpAccount_eq_name h2, cmpRat_eq_eq h3, cmpStr_eq h5]

theorem cmpPostings_eq_print : ∀ {ps qs : List Posting}, cmpPostings ps qs = .eq → ∀ pad,
    (everyOther ps).map (fun p => printPosting pad p ++ "\n") = (everyOther qs).map (fun p => printPosting pad p ++ "\n")
  | [], [], _, _ => rfl
  | [], _ :: _, h, _ => by cases h
  | _ :: _, [], h, _ => by cases h
  | [p], [q], _, _ => rfl
  | [p], q :: q2 :: qs, h, _ => by
    simp only [cmpPostings] at h
    obtain ⟨_, h⟩ := Ordering.then_eq_eq.mp h
    cases h
  | p :: p2 :: ps, [q], h, _ => by
    simp only [cmpPostings] at h
    obtain ⟨_, h⟩ := Ordering.then_eq_eq.mp h
    cases h
  | p :: p2 :: ps, q :: q2 :: qs, h, pad => by
    simp only [cmpPostings] at h
    obtain ⟨_, h⟩ := Ordering.then_eq_eq.mp h
    obtain ⟨h2, h⟩ := Ordering.then_eq_eq.mp h
    simp only [everyOther, List.map_cons, cmpPosting_eq_print h2 pad, cmpPostings_eq_print h pad]

/-- **transactions `transaction.Compare` does not distinguish are printed alike, up to the `@performance` line**
(which the comparison ignores) -/
theorem cmpTx_eq_print {t u : Transaction} (h : cmpTx t u = .eq) (pad : Nat) :
    printTx pad { t with targets := none } = printTx pad { u with targets := none } := by
  unfold cmpTx at h
  obtain ⟨h1, h⟩ := Ordering.then_eq_eq.mp h
  obtain ⟨h2, h3⟩ := Ordering.then_eq_eq.mp h
  have e1 : t.date = u.date := Int.compare_eq_eq.mp h1
  unfold printTx
  simp only [e1, cmpStr_eq h2, cmpPostings_eq_print h3 pad]

/-! ### the built journals -/

theorem padding_perm : ∀ {j j' : List Day}, List.Forall₂ (fun d d' : Day => d.transactions.Perm d'.transactions) j j' →
    ∀ m, j.foldl (fun m d => d.transactions.foldl txWidth m) m = j'.foldl (fun m d => d.transactions.foldl txWidth m) m
  | _, _, .nil, _ => rfl
  | _, _, .cons h t, m => by
    simp only [List.foldl_cons]
    rw [h.foldl_eq' (f := txWidth) (fun x _ y _ z => txWidth_comm z x y) m]
    exact padding_perm t _

theorem forall₂_imp {α β : Type} {R S : α → β → Prop} (h : ∀ a b, R a b → S a b) :
    ∀ {l : List α} {l' : List β}, List.Forall₂ R l l' → List.Forall₂ S l l'
  | _, _, .nil => .nil
  | _, _, .cons h1 t => .cons (h _ _ h1) (forall₂_imp h t)

/-- per day and kind the journals built from two permutations hold permutations of the same directives -/
theorem days_kindwise (ds ds' : List Directive) (hp : ds.Perm ds') :
    List.Forall₂ (fun d d' : Day => d.date = d'.date ∧ d.prices.Perm d'.prices ∧ d.openings.Perm d'.openings ∧
      d.transactions.Perm d'.transactions ∧ d.assertions.Perm d'.assertions ∧ d.closings.Perm d'.closings)
      (Builder.ofList ds).build (Builder.ofList ds').build := by
  unfold Builder.build
  apply forall₂_of_dates _ _ (C05_same_dates ds ds' hp)
  intro d hd d' hd' hdate
  have hs := (ofList_spec txKind ds).1
  have hs' := (ofList_spec txKind ds').1
  have key : ∀ {α : Type} (k : Kind α), (k.proj d).Perm (k.proj d') := by
    intro α k
    have := C05_same_day_content k ds ds' hp d.date
    rw [contentOn_self k _ hs d hd, hdate, contentOn_self k _ hs' d' hd'] at this
    exact this
  exact ⟨hdate, key priceKind, key openKind, key txKind, key assertKind, key closeKind⟩

/-- **the journals built from two permutations of a directive list print alike up to the order within a (day, kind)
block** -/
theorem printEquiv_of_perm (ds ds' : List Directive) (hp : ds.Perm ds') :
    PrintEquiv (Builder.ofList ds).build (Builder.ofList ds').build := by
  have hk := days_kindwise ds ds' hp
  have hd : List.Forall₂ DayPrintEquiv (Builder.ofList ds).build (Builder.ofList ds').build :=
    forall₂_imp (fun d d' h =>
      { date := h.1, prices := h.2.1, openings := h.2.2.1, assertions := h.2.2.2.2.1, closings := h.2.2.2.2.2,
        txs := (sortTxs_perm_pointwise h.2.2.2.1).1, txsOrder := (sortTxs_perm_pointwise h.2.2.2.1).2 }) hk
  obtain ⟨hl, hz⟩ := forall₂_zip hd
  refine ⟨hl, hz, ?_⟩
  unfold padding
  exact padding_perm (forall₂_imp (fun d d' h => h.2.2.2.1) hk) 0

/-- **directives that keep their relative order within every (date, kind) block build the same journal**: the printed
text is a function of the per-date, per-kind sequences alone -/
theorem build_eq_of_collect (ds ds' : List Directive) (hp : ds.Perm ds')
    (h : ∀ y, collect txKind ds y = collect txKind ds' y ∧ collect openKind ds y = collect openKind ds' y ∧
      collect closeKind ds y = collect closeKind ds' y ∧ collect priceKind ds y = collect priceKind ds' y ∧
      collect assertKind ds y = collect assertKind ds' y) :
    (Builder.ofList ds).build = (Builder.ofList ds').build := by
  unfold Builder.build
  refine days_ext _ _ (ofList_spec txKind ds).1 (ofList_spec txKind ds').1 ?_ ?_
  · intro y; rw [ofList_dates, ofList_dates]; exact (hp.map _).mem_iff
  · intro y
    simp only [(ofList_spec txKind ds).2, (ofList_spec txKind ds').2, (ofList_spec openKind ds).2, (ofList_spec openKind ds').2,
      (ofList_spec closeKind ds).2, (ofList_spec closeKind ds').2, (ofList_spec priceKind ds).2, (ofList_spec priceKind ds').2,
      (ofList_spec assertKind ds).2, (ofList_spec assertKind ds').2]
    exact h y

end Knut.Layout
