import Knut.Model.BalanceCmd
/-! Lemmas for C01: every transaction that reaches the Query stage consists of posting pairs that
cancel, hence every (date, commodity) total over the report's inserts is zero. -/
namespace Knut
open Knut.Dec

/-- `Truncate` is odd -/
theorem trunc_neg (n : Nat) (r : Rat) : trunc n (-r) = -trunc n r := by
  unfold trunc scaledTrunc
  rw [Rat.neg_mkRat]
  simp only [Rat.neg_num, Rat.neg_den, Int.neg_mul, Int.neg_tdiv]

theorem multiply_neg (q p : Rat) : Prices.multiply (-q) p = -Prices.multiply q p := by
  unfold Prices.multiply
  rw [Rat.neg_mul, trunc_neg]

/-- a list of postings made of pairs that cancel: same commodity, opposite quantity and value -/
inductive Paired : List Posting → Prop
  | nil : Paired []
  | cons (a b : Posting) (rest : List Posting) (hc : b.commodity = a.commodity)
      (hq : b.quantity = -a.quantity) (hv : b.value = -a.value) (h : Paired rest) : Paired (a :: b :: rest)

theorem Paired.append {xs ys : List Posting} (hx : Paired xs) (hy : Paired ys) : Paired (xs ++ ys) := by
  induction hx with
  | nil => simpa using hy
  | cons a b rest hc hq hv _ ih => exact Paired.cons a b _ hc hq hv ih

theorem paired_postingBuild (cr dr : Account) (c : Commodity) (q v : Rat) : Paired (postingBuild cr dr c q v) := by
  unfold postingBuild
  refine Paired.cons _ _ [] rfl ?_ ?_ Paired.nil
  · simp only; split <;> simp [Rat.neg_neg]
  · simp only; split <;> simp [Rat.neg_neg]

theorem paired_flatMap_build (bks : List (Account × Account × Commodity × Rat)) :
    Paired (bks.flatMap (fun b => postingBuild b.1 b.2.1 b.2.2.1 b.2.2.2)) := by
  induction bks with
  | nil => exact Paired.nil
  | cons b rest ih => simp only [List.flatMap_cons]; exact (paired_postingBuild _ _ _ _ _).append ih

def TxPaired (t : Transaction) : Prop := Paired t.postings

/-- valuation keeps pairs paired -/
theorem paired_mapM_value (v : Commodity) (cur : Option Prices.NPrices) :
    ∀ (ps qs : List Posting), Paired ps → ps.mapM (Balance.valuePosting v cur) = .ok qs → Paired qs := by
  intro ps qs hp
  induction hp generalizing qs with
  | nil => intro h; simp [List.mapM_nil, pure, Except.pure] at h; subst h; exact Paired.nil
  | cons a b rest hc hq hv _ ih =>
    intro h
    simp only [List.mapM_cons, bind, Except.bind] at h
    cases ha : Balance.valuePosting v cur a with
    | error e => rw [ha] at h; cases h
    | ok a' =>
      rw [ha] at h; simp only at h
      cases hb : Balance.valuePosting v cur b with
      | error e => rw [hb] at h; cases h
      | ok b' =>
        rw [hb] at h; simp only at h
        cases hr : rest.mapM (Balance.valuePosting v cur) with
        | error e => rw [hr] at h; cases h
        | ok rest' =>
          rw [hr] at h
          simp only [pure, Except.pure] at h
          injection h with h; subst h
          have hrest := ih rest' hr
          -- the two valued postings still cancel
          unfold Balance.valuePosting at ha hb
          by_cases hz : a.quantity = 0
          · have hzb : b.quantity = 0 := by rw [hq, hz]; rfl
            simp only [hz, hzb, if_true] at ha hb
            injection ha with ha; injection hb with hb; subst ha; subst hb
            exact Paired.cons _ _ _ hc hq hv hrest
          · have hzb : b.quantity ≠ 0 := by
              intro e; rw [hq] at e
              have := congrArg (fun x => -x) e
              simp only [Rat.neg_neg, Rat.neg_zero] at this
              exact hz this
            simp only [hz, hzb, if_false] at ha hb
            by_cases hcv : a.commodity = v
            · have hcb : b.commodity = v := by rw [hc]; exact hcv
              simp only [hcv, hcb, if_true] at ha hb
              injection ha with ha; injection hb with hb; subst ha; subst hb
              exact Paired.cons _ _ _ rfl hq (by simpa using hq) hrest
            · have hcb : ¬ b.commodity = v := by rw [hc]; exact hcv
              simp only [hcv, hcb, if_false, bind, Except.bind] at ha hb
              rw [hc] at hb
              cases hl : Balance.lookupPrice cur a.commodity with
              | error e => rw [hl] at ha; cases ha
              | ok pr =>
                rw [hl] at ha hb; simp only at ha hb
                injection ha with ha; injection hb with hb; subst ha; subst hb
                refine Paired.cons _ _ _ rfl hq ?_ hrest
                simp only [hq, multiply_neg]

theorem paired_valueTx {v : Commodity} {cur : Option Prices.NPrices} {t t' : Transaction}
    (h : TxPaired t) (hv : Balance.valueTx v cur t = .ok t') : TxPaired t' := by
  unfold Balance.valueTx at hv
  cases hm : t.postings.mapM (Balance.valuePosting v cur) with
  | error e => rw [hm] at hv; cases hv
  | ok ps =>
    rw [hm] at hv; simp only [bind, Except.bind] at hv
    injection hv with hv; subst hv
    exact paired_mapM_value v cur _ _ h hm

theorem paired_mapM_valueTx {v : Commodity} {cur : Option Prices.NPrices} :
    ∀ (ts ts' : List Transaction), (∀ t ∈ ts, TxPaired t) → ts.mapM (Balance.valueTx v cur) = .ok ts' →
      ∀ t ∈ ts', TxPaired t := by
  intro ts
  induction ts with
  | nil => intro ts' _ h; simp [List.mapM_nil, pure, Except.pure] at h; subst h; intro t ht; cases ht
  | cons x rest ih =>
    intro ts' hall h
    simp only [List.mapM_cons, bind, Except.bind] at h
    cases hx : Balance.valueTx v cur x with
    | error e => rw [hx] at h; cases h
    | ok x' =>
      rw [hx] at h; simp only at h
      cases hr : rest.mapM (Balance.valueTx v cur) with
      | error e => rw [hr] at h; cases h
      | ok rest' =>
        rw [hr] at h; simp only [pure, Except.pure] at h
        injection h with h; subst h
        intro t ht
        rcases List.mem_cons.mp ht with rfl | ht'
        · exact paired_valueTx (hall x List.mem_cons_self) hx
        · exact ih rest' (fun t ht => hall t (List.mem_cons_of_mem _ ht)) hr t ht'

/-- adjustments are built with `postingBuild` -/
theorem paired_adjustStep (v : Commodity) (date : Int) (prev cur : Option Prices.NPrices)
    (acc res : List Transaction) (e : Position × Rat) (hacc : ∀ t ∈ acc, TxPaired t)
    (h : Balance.adjustStep v date prev cur acc e = .ok res) : ∀ t ∈ res, TxPaired t := by
  unfold Balance.adjustStep at h
  split at h
  · injection h with h; subst h; exact hacc
  · simp only [bind, Except.bind] at h
    cases hp : Balance.lookupPrice prev e.1.2 with
    | error x => rw [hp] at h; cases h
    | ok pp =>
      rw [hp] at h; simp only at h
      cases hc : Balance.lookupPrice cur e.1.2 with
      | error x => rw [hc] at h; cases h
      | ok cp =>
        rw [hc] at h; simp only at h
        split at h
        · injection h with h; subst h; exact hacc
        · injection h with h; subst h
          intro t ht
          rcases List.mem_append.mp ht with ht | ht
          · exact hacc t ht
          · simp at ht; subst ht; exact paired_postingBuild _ _ _ _ _

theorem paired_adjustments (v : Commodity) (date : Int) (prev cur : Option Prices.NPrices)
    (qty : AMap Position Rat) (adj : List Transaction)
    (h : Balance.adjustments v date prev cur qty = .ok adj) : ∀ t ∈ adj, TxPaired t := by
  unfold Balance.adjustments at h
  suffices hgen : ∀ (q : AMap Position Rat) (acc res : List Transaction), (∀ t ∈ acc, TxPaired t) →
      q.foldlM (Balance.adjustStep v date prev cur) acc = .ok res → ∀ t ∈ res, TxPaired t from
    hgen qty [] adj (by intro t ht; cases ht) h
  intro q
  induction q with
  | nil => intro acc res hacc h; simp only [List.foldlM_nil, pure, Except.pure] at h; injection h with h; subst h; exact hacc
  | cons e rest ih =>
    intro acc res hacc h
    simp only [List.foldlM_cons, bind, Except.bind] at h
    cases hs : Balance.adjustStep v date prev cur acc e with
    | error x => rw [hs] at h; cases h
    | ok acc' =>
      rw [hs] at h; simp only at h
      exact ih acc' res (paired_adjustStep v date prev cur acc acc' e hacc hs) h

theorem paired_closings (date : Int) (cQty cVal : AMap Position Rat) :
    ∀ t ∈ Balance.closings date cQty cVal, TxPaired t := by
  intro t ht
  unfold Balance.closings at ht
  simp only [List.mem_filterMap] at ht
  obtain ⟨⟨⟨a, c⟩, q⟩, _, h⟩ := ht
  simp only at h
  split at h
  · cases h
  · injection h with h; subst h; exact paired_postingBuild _ _ _ _ _

/-- all transactions reaching the Query stage are paired -/
theorem paired_dayTxs (cfg : BalCfg) (st st' : BalState) (d : Day) (txs : List Transaction)
    (hin : ∀ t ∈ d.transactions, TxPaired t) (h : Balance.dayTxs cfg st d = .ok (st', txs)) :
    ∀ t ∈ txs, TxPaired t := by
  unfold Balance.dayTxs at h
  simp only [bind, Except.bind] at h
  cases hc : Balance.checkStage st d with
  | error e => rw [hc] at h; cases h
  | ok st1 =>
    rw [hc] at h; simp only at h
    cases hv : Balance.valuationStage cfg st1 d with
    | error e => rw [hv] at h; cases h
    | ok r =>
      obtain ⟨st2, txs2⟩ := r
      rw [hv] at h; simp only at h
      injection h with h
      -- txs2 is paired
      have h2 : ∀ t ∈ txs2, TxPaired t := by
        unfold Balance.valuationStage at hv
        cases hval : cfg.valuation with
        | none => rw [hval] at hv; simp only at hv; injection hv with hv; injection hv with _ hv; subst hv; exact hin
        | some v =>
          rw [hval] at hv; simp only [bind, Except.bind] at hv
          cases hp : Balance.pricesDay v st1 d with
          | error e => rw [hp] at hv; cases hv
          | ok stp =>
            rw [hp] at hv; simp only at hv
            unfold Balance.valuateDay at hv
            simp only [bind, Except.bind] at hv
            cases ha : Balance.adjustments v d.date stp.vPrev stp.norm stp.vQty with
            | error e => rw [ha] at hv; cases hv
            | ok adj =>
              rw [ha] at hv; simp only at hv
              cases hm : (d.transactions ++ adj).mapM (Balance.valueTx v stp.norm) with
              | error e => rw [hm] at hv; cases hv
              | ok txsv =>
                rw [hm] at hv; simp only at hv
                injection hv with hv; injection hv with _ hv; subst hv
                apply paired_mapM_valueTx _ _ _ hm
                intro t ht
                rcases List.mem_append.mp ht with ht | ht
                · exact hin t ht
                · exact paired_adjustments v d.date _ _ _ adj ha t ht
      -- filter and close keep / add paired transactions
      unfold Balance.closeStage Balance.filterStage at h
      have hf : ∀ t ∈ (if cfg.span.contains d.date = true then txs2 else []), TxPaired t := by
        split
        · exact h2
        · intro t ht; cases ht
      split at h
      · injection h with _ h; subst h
        intro t ht
        rcases List.mem_append.mp ht with ht | ht
        · exact hf t ht
        · split at ht
          · exact paired_closings _ _ _ t ht
          · cases ht
      · injection h with _ h; subst h; exact hf

/-! ### Sums over the report inserts -/

/-- sum of the amounts of the entries selected by a predicate on (column date, commodity) -/
def sumSel (κ : Option Int → Commodity → Bool) (es : List Entry) : Rat :=
  ((es.filter (fun e => κ e.date e.commodity)).map (·.amount)).sum

theorem sumSel_append (κ : Option Int → Commodity → Bool) (xs ys : List Entry) :
    sumSel κ (xs ++ ys) = sumSel κ xs + sumSel κ ys := by
  unfold sumSel; simp [List.filter_append, List.map_append, List.sum_append]

theorem sumSel_nil (κ : Option Int → Commodity → Bool) : sumSel κ [] = 0 := rfl

/-- no account or commodity filter, no account hidden by the mapping -/
structure Unfiltered (cfg : BalCfg) : Prop where
  acc : ∀ s, cfg.accountFilter s = true
  com : ∀ s, cfg.commodityFilter s = true
  visible : ∀ a, (mapAccount cfg a).isSome = true

theorem queryPosting_unfiltered (cfg : BalCfg) (hu : Unfiltered cfg) (t : Transaction) (p : Posting) :
    ∃ a', Balance.queryPosting cfg t p =
      some ⟨alignIn cfg.periods t.date, a', p.commodity, (if cfg.valuation.isSome then p.value else p.quantity)⟩ := by
  unfold Balance.queryPosting
  simp only [hu.acc, hu.com, Bool.and_self, if_true]
  have ha := hu.visible p.account
  cases hma : mapAccount cfg p.account with
  | none => rw [hma] at ha; cases ha
  | some a' => exact ⟨a', rfl⟩

theorem sumSel_queryTx (cfg : BalCfg) (hu : Unfiltered cfg) (κ : Option Int → Commodity → Bool)
    (t : Transaction) (h : TxPaired t) : sumSel κ (Balance.queryTx cfg t) = 0 := by
  unfold Balance.queryTx
  unfold TxPaired at h
  generalize t.postings = ps at h
  induction h with
  | nil => rfl
  | cons a b rest hc hq hv _ ih =>
    obtain ⟨a', ha⟩ := queryPosting_unfiltered cfg hu t a
    obtain ⟨b', hb⟩ := queryPosting_unfiltered cfg hu t b
    simp only [List.filterMap_cons, ha, hb]
    have e2 : ∀ (x y : Entry) (l : List Entry), x :: y :: l = [x, y] ++ l := by intros; rfl
    rw [e2, sumSel_append, ih, Rat.add_zero]
    unfold sumSel
    simp only [hc]
    by_cases hk : κ (alignIn cfg.periods t.date) a.commodity = true
    · simp only [List.filter_cons, hk, if_true, List.filter_nil, List.map_cons, List.map_nil, List.sum_cons, List.sum_nil, Rat.add_zero]
      split
      · rw [hv]; exact Rat.add_neg_cancel _
      · rw [hq]; exact Rat.add_neg_cancel _
    · simp only [List.filter_cons, hk]; rfl

theorem sumSel_flatMap_queryTx (cfg : BalCfg) (hu : Unfiltered cfg) (κ : Option Int → Commodity → Bool)
    (txs : List Transaction) (h : ∀ t ∈ txs, TxPaired t) : sumSel κ (txs.flatMap (Balance.queryTx cfg)) = 0 := by
  induction txs with
  | nil => rfl
  | cons t rest ih =>
    simp only [List.flatMap_cons]
    rw [sumSel_append, sumSel_queryTx cfg hu κ t (h t List.mem_cons_self),
      ih (fun t ht => h t (List.mem_cons_of_mem _ ht)), Rat.add_zero]

theorem sumSel_day (cfg : BalCfg) (hu : Unfiltered cfg) (κ : Option Int → Commodity → Bool)
    (st st' : BalState) (d : Day) (hin : ∀ t ∈ d.transactions, TxPaired t)
    (h : Balance.day cfg st d = .ok st') : sumSel κ st'.entries = sumSel κ st.entries := by
  unfold Balance.day at h
  simp only [bind, Except.bind] at h
  cases hd : Balance.dayTxs cfg st d with
  | error e => rw [hd] at h; cases h
  | ok r =>
    obtain ⟨st1, txs⟩ := r
    rw [hd] at h; simp only at h
    injection h with h; subst h
    simp only
    have hp := paired_dayTxs cfg st st1 d txs hin hd
    rw [sumSel_append, sumSel_flatMap_queryTx cfg hu κ txs hp, Rat.add_zero]
    -- dayTxs does not touch the entries
    have : st1.entries = st.entries := by
      unfold Balance.dayTxs at hd
      simp only [bind, Except.bind] at hd
      cases hc : Balance.checkStage st d with
      | error e => rw [hc] at hd; cases hd
      | ok s1 =>
        rw [hc] at hd; simp only at hd
        have e1 : s1.entries = st.entries := by
          unfold Balance.checkStage at hc
          split at hc
          · injection hc with hc; subst hc; rfl
          · cases hc
        cases hv : Balance.valuationStage cfg s1 d with
        | error e => rw [hv] at hd; cases hd
        | ok r2 =>
          obtain ⟨s2, t2⟩ := r2
          rw [hv] at hd; simp only at hd
          injection hd with hd
          have e2 : s2.entries = s1.entries := by
            unfold Balance.valuationStage at hv
            cases hval : cfg.valuation with
            | none => rw [hval] at hv; simp only at hv; injection hv with hv; injection hv with hv _; subst hv; rfl
            | some v =>
              rw [hval] at hv; simp only [bind, Except.bind] at hv
              cases hp : Balance.pricesDay v s1 d with
              | error e => rw [hp] at hv; cases hv
              | ok sp =>
                rw [hp] at hv; simp only at hv
                have e3 : sp.entries = s1.entries := by
                  unfold Balance.pricesDay at hp
                  simp only [bind, Except.bind] at hp
                  split at hp
                  · cases hp
                  · injection hp with hp; subst hp; rfl
                unfold Balance.valuateDay at hv
                simp only [bind, Except.bind] at hv
                split at hv
                · cases hv
                · split at hv
                  · cases hv
                  · injection hv with hv; injection hv with hv _; subst hv; exact e3
          unfold Balance.closeStage at hd
          split at hd
          · injection hd with hd _; subst hd
            -- accumulate does not touch the entries
            have hacc : ∀ (ts : List Transaction) (s : BalState), (Balance.accumulate s ts).entries = s.entries := by
              intro ts
              unfold Balance.accumulate
              induction ts with
              | nil => intro s; rfl
              | cons t rest ih =>
                intro s
                simp only [List.foldl_cons]
                rw [ih]
                generalize t.postings = ps
                induction ps generalizing s with
                | nil => rfl
                | cons p ps ihp =>
                  simp only [List.foldl_cons]
                  rw [ihp]
                  split <;> rfl
            rw [hacc, e2, e1]
          · injection hd with hd _; subst hd; rw [e2, e1]
    rw [this]

end Knut
