package main

import (
	"fmt"
	"os"
	"path/filepath"
	"strings"
	"time"
)

// Stream "cli" of C11: the period columns and the attribution of dates to them, observed on the real command line.
//
// A journal books exactly 1 CHF from Equity:E to Assets:A on every day of a range, so that the cell of Assets:A in a
// column counts the days attributed to it.  `knut balance --csv` is run with a random window / interval / --last,
// cumulative or --diff, in varying time zones of the child process (runKnut).  Expected, independently of the pipeline
// model: the column dates are the period ends of the Lean partition model for the window clipped to the journal's
// period, and column k counts the days of the window that lie in period k (days before the first shown period go to the
// first period) — by plain arithmetic on day numbers.
func runC11CLI(c *Ctx) {
	if c.KnutBin == "" {
		return
	}
	n := c.N(160, 4000)
	dir := filepath.Join(c.WorkDir, "c11cli")
	os.MkdirAll(dir, 0o755)
	type job struct {
		idx                 int
		first, ndays        int
		from, to, iv, last  int
		diff                bool
		noTo                bool // no --to flag: the window ends today
		args                []string
		code                int
		stdout, stderr, txt string
	}
	var jobs []*job
	for i := 0; i < n; i++ {
		if !c.Want("cli", i) {
			continue
		}
		r := c.Rng("cli", i)
		jb := &job{idx: i}
		jb.first = dayNum(time.Date(r.Range(1995, 2023), time.Month(r.Range(1, 12)), r.Range(1, 28), 0, 0, 0, 0, time.UTC))
		jb.ndays = Pick(r, []int{1, 2, 7, 20, 45, 100, 200, 400})
		lastDay := jb.first + jb.ndays - 1
		if r.Chance(2, 3) {
			jb.from = jb.first + r.Range(-10, jb.ndays/2+2)
		}
		jb.to = lastDay + r.Range(-jb.ndays/2-2, 15)
		if r.Chance(1, 6) {
			// no --to: the window ends TODAY; the journal runs from the past into the future, so that some of its days lie
			// after the window ("later dates [are attributed] to no column"; seeded change C11-e dropped the filter stage
			// when neither --from nor --to is given and placed the zero date of the future amounts into the first column)
			jb.noTo = true
			jb.first = today() - r.Range(1, jb.ndays)
			lastDay = jb.first + jb.ndays - 1
			jb.to = today()
			if r.Chance(1, 2) {
				jb.from = 0
			} else {
				jb.from = jb.first + r.Range(-3, 3)
			}
		}
		if !jb.noTo && r.Chance(1, 8) {
			// a window ending exactly on a unit boundary
			t := dayTime(jb.to)
			jb.to = dayNum(time.Date(t.Year(), t.Month(), 1, 0, 0, 0, 0, time.UTC)) - r.Intn(2)
		}
		jb.iv = Pick(r, []int{0, 1, 2, 2, 3, 3, 4, 5})
		if jb.iv == 1 && jb.ndays > 100 {
			jb.iv = 2
		}
		if r.Chance(1, 3) {
			jb.last = r.Range(1, 5)
		}
		jb.diff = r.Chance(1, 2)
		var b strings.Builder
		fmt.Fprintf(&b, "%s open Assets:A\n%s open Equity:E\n\n", fmtDate(jb.first-1), fmtDate(jb.first-1))
		for d := 0; d < jb.ndays; d++ {
			fmt.Fprintf(&b, "%s \"d%d\"\nEquity:E Assets:A 1 CHF\n\n", fmtDate(jb.first+d), d)
		}
		jb.txt = b.String()
		jb.args = []string{"balance", "--color=false", "--csv", "--close=false"}
		if !jb.noTo {
			jb.args = append(jb.args, "--to", fmtDate(jb.to))
		}
		if jb.from != 0 {
			jb.args = append(jb.args, "--from", fmtDate(jb.from))
		}
		if jb.iv > 0 {
			jb.args = append(jb.args, intervalFlag[jb.iv])
		}
		if jb.last > 0 {
			jb.args = append(jb.args, "--last", itoa(jb.last))
		}
		if jb.diff {
			jb.args = append(jb.args, "--diff")
		}
		jobs = append(jobs, jb)
	}
	parallelFor(len(jobs), 16, func(k int) {
		jb := jobs[k]
		p := filepath.Join(dir, fmt.Sprintf("j%d.knut", jb.idx))
		os.WriteFile(p, []byte(jb.txt), 0o644)
		var env []string
		if jb.noTo {
			env = []string{"TZ=UTC"} // "today" must be the harness' today
		}
		jb.code, jb.stdout, jb.stderr = runKnut(c.KnutBin, 20*time.Second, env, append(jb.args, p)...)
		os.Remove(p)
	})
	bt := c.NewBatch()
	defer bt.Flush()
	for _, jb := range jobs {
		jb := jb
		c.Evals++
		lastDay := jb.first + jb.ndays - 1
		// the window of the command: [from or the beginning of time, to] clipped to the journal's period
		a, b := jb.first, lastDay
		if jb.from > a {
			a = jb.from
		}
		if jb.to < b {
			b = jb.to
		}
		in := map[string]any{"args": strings.Join(jb.args, " "), "journal": fmt.Sprintf("1 CHF from Equity:E to Assets:A on each of the %d days from %s", jb.ndays, fmtDate(jb.first)),
			"window":            map[string]any{"a": a, "b": b, "iv": jb.iv, "last": jb.last},
			"child_environment": strings.Join(childTZ(nil, append(append([]string{}, jb.args...), fmt.Sprintf("/j%d.knut", jb.idx))), " ")}
		c.Class(fmt.Sprintf("cli/iv%d/last%d/diff%v/from%v/noto%v/n%s/%s", jb.iv, min(jb.last, 2), jb.diff, jb.from != 0, jb.noTo, bucket(jb.ndays), sign(b-a)))
		if jb.idx < 2 {
			c.Sample(map[string]any{"stream": "cli", "args": jb.args, "stdout": clip(jb.stdout)})
		}
		if !c.Monitor("cli", jb.idx, "balance terminates with exit 0", in, jb.code == 0, fmt.Sprintf("exit %d stderr %s", jb.code, clip(jb.stderr))) {
			continue
		}
		// header dates and the row of Assets:A
		var header, row []string
		for _, l := range strings.Split(jb.stdout, "\n") {
			f := strings.Split(l, ",")
			switch {
			case strings.HasPrefix(l, "Account,"):
				header = f[2:]
			case f[0] == "A" && len(f) >= 2:
				row = f[2:]
			}
		}
		bt.Add(func(model string) {
			if !strings.HasPrefix(model, "ok") {
				c.Compare("cli", jb.idx, "columns", in, "header "+strings.Join(header, " "), model)
				return
			}
			var ends, starts []int
			for _, f := range strings.Fields(model)[1:] {
				var s, e int
				fmt.Sscanf(f, "%d:%d", &s, &e)
				starts, ends = append(starts, s), append(ends, e)
			}
			if b < a {
				// empty window: no bookings pass the filter, nothing to count
				c.Monitor("cli", jb.idx, "empty window shows no amounts", in, len(row) == 0 || strings.Join(row, "") == "" || allZero(row), jb.stdout)
				return
			}
			want := make([]string, len(ends))
			for k, e := range ends {
				want[k] = fmtDate(e)
			}
			if !c.Monitor("cli", jb.idx, "C11 columns are the period ends of the partition", in, strings.Join(header, ",") == strings.Join(want, ","),
				fmt.Sprintf("columns %v, period ends of the model %v\n%s", header, want, jb.stdout)) {
				return
			}
			// attribution: column k counts the days of [a, b] up to its end (cumulative) or inside its period (--diff);
			// days before the first shown period belong to the first column
			exp := make([]string, len(ends))
			for k, e := range ends {
				lo := a
				if jb.diff && k > 0 {
					lo = ends[k-1] + 1
				}
				cnt := e - lo + 1
				if cnt < 0 {
					cnt = 0
				}
				exp[k] = itoa(cnt)
				if cnt == 0 {
					exp[k] = ""
				}
			}
			got := append([]string{}, row...)
			for len(got) < len(exp) {
				got = append(got, "")
			}
			for k := range got {
				if got[k] == "0" {
					got[k] = ""
				}
			}
			c.Monitor("cli", jb.idx, "C11 every date is attributed to the column of its period", in, strings.Join(got, ",") == strings.Join(exp, ","),
				fmt.Sprintf("row of Assets:A %v, expected day counts %v (window %s..%s)\n%s", row, exp, fmtDate(a), fmtDate(b), jb.stdout))
		}, "part", itoa(a), itoa(b), itoa(jb.iv), itoa(jb.last))
	}
}

func allZero(fs []string) bool {
	for _, f := range fs {
		if f != "" && f != "0" {
			return false
		}
	}
	return true
}
