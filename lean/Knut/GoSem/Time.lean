import Knut.Basic.Date
/-!
# Go's `time.Time`, restricted to UTC-midnight dates

A `time.Time` that the translated code handles is a date at 00:00:00 UTC (they are only ever
built by `time.Date(y, m, d, 0, 0, 0, 0, time.UTC)`, `AddDate` and the parser); it is the day
number of `Knut/Basic/Date.lean` (day 0 = 0001-01-01 = Go's zero `time.Time`).

`time.Date` normalises: the month may be any integer (`y, m = norm(y, m-1, 12)`, floor), the day is a
pure offset from the first of the normalised month.  That is `Date.ofCivil`.  `AddDate(y, m, d)` is
`Date(Year+y, Month+m, Day+d, …)`.  Compared with the real `time` package by the `gosem` stream.
-/
namespace Knut.GoSem

/-- documentation alias only; the translator writes `Int` for `time.Time` (an `abbrev` hides the type from `omega`) -/
abbrev Time := Int

namespace Time
open Knut.Date

/-- `time.Date(y, m, d, 0, 0, 0, 0, time.UTC)` -/
@[simp] def Date (y m d : Int) : Int := ofCivil y m d
@[simp] def Year (t : Int) : Int := year t
@[simp] def Month (t : Int) : Int := month t
@[simp] def Day (t : Int) : Int := day t
/-- `t.Weekday()`: Sunday = 0 … Saturday = 6 -/
@[simp] def Weekday (t : Int) : Int := weekday t
/-- `t.AddDate(y, m, d)` -/
def AddDate (t : Int) (y m d : Int) : Int := ofCivil (year t + y) (month t + m) (day t + d)
@[simp] def Before (t u : Int) : Bool := decide (t < u)
@[simp] def After (t u : Int) : Bool := decide (t > u)
@[simp] def Equal (t u : Int) : Bool := decide (t = u)
/-- `t.IsZero()`: the zero `time.Time` is 0001-01-01 00:00:00 UTC -/
@[simp] def IsZero (t : Int) : Bool := decide (t = 0)
/-- `t.Compare(u)` -/
@[simp] def Compare (t u : Int) : Int := if t < u then -1 else if t > u then 1 else 0

/-- `AddDate(0, 0, d)` shifts the day number -/
theorem AddDate_days (t : Int) (d : Int) : AddDate t 0 0 d = t + d := by
  have h := ofCivil_toCivil t
  have ⟨h1, h12⟩ := month_bounds t
  have e1 : (month t - 1) / 12 = 0 := by omega
  have e2 : (month t - 1) % 12 + 1 = month t := by omega
  unfold AddDate
  unfold ofCivil at h ⊢
  simp only [Int.add_zero, e1, e2] at h ⊢
  omega

end Time
end Knut.GoSem
