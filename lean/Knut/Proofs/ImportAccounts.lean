import Knut.Proofs.ImportCards
/-!
# C13: the row models are faithful to the statement readers — bank-account importers
-/
set_option linter.unusedSimpArgs false
namespace Knut.Proofs.Import
open Knut Knut.Import Knut.Spec.Import

theorem pbSum_append (a : Account) (c : Commodity) (xs ys : List PB) :
    pbSum a c (xs ++ ys) = pbSum a c xs + pbSum a c ys := by
  induction xs with
  | nil => simp [pbSum, Rat.zero_add]
  | cons x xs ih => simp [pbSum, ih, Rat.add_assoc]

theorem expected_append (xs ys : List (Commodity × Rat)) (c : Commodity) :
    expected (xs ++ ys) c = expected xs c + expected ys c := by
  induction xs with
  | nil => simp [expected, Rat.zero_add]
  | cons x xs ih => obtain ⟨c', q⟩ := x; simp [expected, ih, Rat.add_assoc]

/-! ## ch.postfinance -/

theorem postfinance_keyValues : ∀ (recs : List Rec) (cur o : Option String) (rest : List Rec),
    Postfinance.keyValues cur recs = .ok (o, rest) →
    postfinanceCurrency cur recs = ((o.map (trimCutset ['=', '"'])).getD "CHF", rest) := by
  intro recs
  induction recs with
  | nil => intro cur o rest h; simp [Postfinance.keyValues] at h
  | cons r rs ih =>
    intro cur o rest h
    unfold Postfinance.keyValues at h
    unfold postfinanceCurrency
    split at h
    · simp at h
      obtain ⟨h1, h2⟩ := h
      subst h1 h2
      simp [*]
    · rename_i hlen
      simp only [hlen, if_false]
      exact ih _ _ _ h

theorem postfinance_amount {g l : String} {q : Rat} (h : Postfinance.amount g l = .ok q) :
    q = (if nonEmpty g then numApos g else numApos l) := by
  unfold Postfinance.amount at h
  unfold nonEmpty numApos
  split at h
  · rename_i hc
    have := ofOption_eq_ok h
    simp at hc
    simp [hc.1, this]
  · split at h
    · rename_i _ hc
      have := ofOption_eq_ok h
      simp at hc
      simp [hc.1, this]
    · cases h

theorem postfinance_bookings (acct : Account) (hacct : acct ≠ tbd) (cur : Commodity) : ∀ (recs : List Rec)
    (ds : List Directive) (rest : List Rec),
    Postfinance.bookings acct cur recs = .ok (ds, rest) → All2 (Matches acct) (postfinanceRows cur recs) ds := by
  intro recs
  induction recs with
  | nil => intro ds rest h; simp [Postfinance.bookings] at h
  | cons r rs ih =>
    intro ds rest h
    unfold Postfinance.bookings at h
    unfold postfinanceRows
    split at h
    · simp at h
      obtain ⟨h2, _⟩ := h
      subst h2
      simp [*]; exact All2.nil
    · rename_i hlen
      simp only [hlen, Bool.false_eq_true, if_false]
      obtain ⟨d, hd, h⟩ := Res.bind_eq_ok h
      obtain ⟨q, hq, h⟩ := Res.bind_eq_ok h
      obtain ⟨⟨ds', rest'⟩, hrec, h⟩ := Res.bind_eq_ok h
      simp at h
      obtain ⟨h2, _⟩ := h
      subst h2
      have hd' := ofOption_eq_ok hd
      have hq' := postfinance_amount hq
      refine All2.cons ?_ (ih _ _ hrec)
      unfold dateOf
      rw [hd', ← hq']
      simp only [Option.getD_some]
      refine mkTx_matches _ _ _ _ _ _ ?_ (by simp)
      intro c'
      simp [pbSum, pbEffect, expected, hacct.symm]
      grind

theorem postfinance_faithful (acct : Account) (hacct : acct ≠ tbd) (recs : List Rec) (ds : List Directive)
    (h : Postfinance.run acct recs = .ok ds) : Faithful acct (postfinance recs) ds := by
  unfold Postfinance.run at h
  obtain ⟨⟨o, rest⟩, hkv, h⟩ := Res.bind_eq_ok h
  obtain ⟨c, hc, h⟩ := Res.bind_eq_ok h
  obtain ⟨⟨ds', rest'⟩, hb, h⟩ := Res.bind_eq_ok h
  simp only at h hc hb
  split at h
  · simp at h
    subst h
    unfold Faithful postfinance
    rw [postfinance_keyValues _ _ _ _ hkv]
    simp only
    have hcur : c = (o.map (trimCutset ['=', '"'])).getD "CHF" := by
      cases o with
      | none => simp [Postfinance.currencyOf] at hc; simp [hc]
      | some s => simp [Postfinance.currencyOf] at hc; simp [(getCommodity_eq_ok hc).1]
    rw [← hcur]
    exact postfinance_bookings acct hacct c _ _ _ hb
  · cases h

/-! ## revolut2 -/

theorem dateOf10_eq {layout : List LEl} {s : String} {d : Int} (h : parseDatePrefix10 layout s = .ok d) :
    dateOf10 layout s = d := by
  unfold dateOf10; rw [h]

theorem revolut2_row_none {acct fee : Account} {r : Rec} (h : Revolut2.row acct fee r = .ok none) : fldD r 3 = "" := by
  unfold Revolut2.row at h
  split at h
  · cases h
  · split at h
    · assumption
    · obtain ⟨d, hd, h⟩ := Res.bind_eq_ok h
      obtain ⟨c, hc, h⟩ := Res.bind_eq_ok h
      obtain ⟨q, hq, h⟩ := Res.bind_eq_ok h
      obtain ⟨f, hf, h⟩ := Res.bind_eq_ok h
      obtain ⟨bal, hbal, h⟩ := Res.bind_eq_ok h
      simp at h

theorem revolut2_row_some {acct fee : Account} (hacct : acct ≠ tbd) (hfee : acct ≠ fee) {r : Rec} {t : Directive}
    {k : Int × Commodity} {bal : Rat} (h : Revolut2.row acct fee r = .ok (some (t, k, bal))) :
    fldD r 3 ≠ "" ∧ k = (dateOf10 layoutYMD (fldD r 3), fldD r 7) ∧ bal = num (fldD r 9) ∧
      All2 (Matches acct) (revolut2Row r) [t] := by
  unfold Revolut2.row at h
  split at h
  · cases h
  · split at h
    · simp at h
    · rename_i hne
      obtain ⟨d, hd, h⟩ := Res.bind_eq_ok h
      obtain ⟨c, hc, h⟩ := Res.bind_eq_ok h
      obtain ⟨q, hq, h⟩ := Res.bind_eq_ok h
      obtain ⟨f, hf, h⟩ := Res.bind_eq_ok h
      obtain ⟨b, hb, h⟩ := Res.bind_eq_ok h
      simp at h
      obtain ⟨h1, h2, h3⟩ := h
      subst h1 h2 h3
      have hd' := dateOf10_eq hd
      have hc' := (getCommodity_eq_ok hc).1
      have hq' := ofOption_eq_ok hq
      have hf' := ofOption_eq_ok hf
      have hb' := ofOption_eq_ok hb
      refine ⟨hne, by simp [hd', hc'], by simp [num, hb'], ?_⟩
      unfold revolut2Row
      simp only [hne, if_false]
      refine All2.cons ?_ All2.nil
      rw [hd']
      refine mkTx_matches _ _ _ _ _ _ ?_ (by simp)
      intro c'
      by_cases hz : f = 0
      · simp [pbSum, pbEffect, expected, hacct.symm, num, hq', hf', hz, hc']
        grind
      · simp [pbSum, pbEffect, expected, hacct.symm, hfee.symm, num, hq', hf', hz, hc']
        grind

theorem revolut2_rows (acct fee : Account) (hacct : acct ≠ tbd) (hfee : acct ≠ fee) : ∀ (rs : List Rec)
    (m m' : List ((Int × Commodity) × Rat)) (ds : List Directive),
    Revolut2.rows acct fee m rs = .ok (ds, m') →
    All2 (Matches acct) (rs.flatMap revolut2Row) ds ∧ m' = revolut2Balances m rs := by
  intro rs
  induction rs with
  | nil => intro m m' ds h; simp [Revolut2.rows] at h; obtain ⟨h1, h2⟩ := h; subst h1 h2; exact ⟨All2.nil, rfl⟩
  | cons r rs ih =>
    intro m m' ds h
    unfold Revolut2.rows at h
    obtain ⟨o, ho, h⟩ := Res.bind_eq_ok h
    cases o with
    | none =>
      simp only at h
      have he := revolut2_row_none ho
      obtain ⟨h1, h2⟩ := ih _ _ _ h
      refine ⟨?_, ?_⟩
      · simp only [List.flatMap_cons]
        have : revolut2Row r = [] := by simp [revolut2Row, he]
        rw [this]; simpa using h1
      · simp [revolut2Balances, he, h2]
    | some x =>
      obtain ⟨t, k, bal⟩ := x
      simp only at h
      obtain ⟨⟨ds', m''⟩, hrec, h⟩ := Res.bind_eq_ok h
      simp at h
      obtain ⟨h1, h2⟩ := h
      subst h1 h2
      obtain ⟨hne, hk, hbal, hrow⟩ := revolut2_row_some hacct hfee ho
      obtain ⟨i1, i2⟩ := ih _ _ _ hrec
      refine ⟨?_, ?_⟩
      · simp only [List.flatMap_cons]
        exact all2_append hrow i1
      · simp [revolut2Balances, hne, i2, hk, hbal]

theorem assertions_all2 (acct : Account) (m : List ((Int × Commodity) × Rat)) :
    All2 (Matches acct) (m.map (fun e => Item.assertion e.1.1 e.2 e.1.2)) (m.map (Revolut2.assertionOf acct)) := by
  induction m with
  | nil => exact All2.nil
  | cons e m ih => exact All2.cons (by simp [Matches, Revolut2.assertionOf]) ih

theorem revolut2_faithful (acct fee : Account) (hacct : acct ≠ tbd) (hfee : acct ≠ fee) (recs : List Rec) (ds : List Directive)
    (h : Revolut2.run acct fee recs = .ok ds) : Faithful acct (revolut2 recs) ds := by
  unfold Revolut2.run at h
  cases recs with
  | nil => cases h
  | cons hd rs =>
    simp only at h
    split at h
    · cases h
    · split at h
      · cases h
      · obtain ⟨⟨ds', m⟩, hr, h⟩ := Res.bind_eq_ok h
        simp at h; subst h
        obtain ⟨h1, h2⟩ := revolut2_rows acct fee hacct hfee _ _ _ _ hr
        unfold Faithful revolut2
        simp only [List.drop_succ_cons, List.drop_zero]
        rw [← h2]
        exact all2_append h1 (assertions_all2 acct _)

/-! ## revolut -/

theorem effect_debit (acct other : Account) (h : acct ≠ other) (cur : Commodity) (q : Rat) (c' : Commodity) :
    pbSum acct c' [⟨other, acct, cur, q⟩] = expected [(cur, q)] c' := by
  simp [pbSum, pbEffect, expected, h.symm]; grind

theorem effect_debit2 (acct other : Account) (h : acct ≠ other) (cur oc : Commodity) (q oq : Rat) (c' : Commodity) :
    pbSum acct c' [⟨other, acct, cur, q⟩, ⟨other, acct, oc, oq⟩] = expected [(cur, q), (oc, oq)] c' := by
  simp [pbSum, pbEffect, expected, h.symm]; grind

theorem revolut_combi {f : String} {c : Commodity} {a : Rat} (h : Revolut.combi f = .ok (c, a)) : combiOf f = (c, a) := by
  unfold Revolut.combi at h
  unfold combiOf
  split at h
  · rename_i c0 a0 hf
    obtain ⟨c1, hc1, h⟩ := Res.bind_eq_ok h
    obtain ⟨a1, ha1, h⟩ := Res.bind_eq_ok h
    simp at h
    obtain ⟨h1, h2⟩ := h
    subst h1 h2
    rw [hf]
    simp [(getCommodity_eq_ok hc1).1, numApos, ofOption_eq_ok ha1]
  · cases h

theorem revolut_row (acct : Account) (hacct : acct ≠ tbd) (hval : acct ≠ valuationAccountFor acct) (cur : Commodity)
    (n : Nat) (prev : Int) (r : Rec) (d : Int) (ds : List Directive) (h : Revolut.row acct cur n prev r = .ok (d, ds)) :
    d = dateOf layoutDMonY (fldD r 0) ∧
    ∀ rest restDs, All2 (Matches acct) rest restDs → All2 (Matches acct)
      ((if d ≠ prev then [Item.assertion d (numApos (fldD r 6)) cur] else []) ++
        Item.booking d ((cur, if nonEmpty (fldD r 2) then -numApos (fldD r 2) else numApos (fldD r 3)) ::
          (if fxSellRe (fldD r 1) then [((combiOf (fldD r 4)).1, (combiOf (fldD r 4)).2)]
           else if fxBuyRe (fldD r 1) then [((combiOf (fldD r 5)).1, -(combiOf (fldD r 5)).2)] else [])) :: rest)
      (ds ++ restDs) := by
  unfold Revolut.row at h
  split at h
  · cases h
  · split at h
    · cases h
    · obtain ⟨d', hd, h⟩ := Res.bind_eq_ok h
      obtain ⟨as, has, h⟩ := Res.bind_eq_ok h
      obtain ⟨q, hq, h⟩ := Res.bind_eq_ok h
      have hd' := ofOption_eq_ok hd
      have hdate : d' = dateOf layoutDMonY (fldD r 0) := by simp [dateOf, hd']
      -- the assertion part
      have has' : All2 (Matches acct) (if d' ≠ prev then [Item.assertion d' (numApos (fldD r 6)) cur] else []) as := by
        by_cases hne : d' = prev
        · simp [hne] at has; subst has; simp [hne]; exact All2.nil
        · rw [if_pos hne] at has
          obtain ⟨b, hb, has⟩ := Res.bind_eq_ok has
          simp at has; subst has
          rw [if_pos hne]
          exact All2.cons (by simp [Matches, numApos, ofOption_eq_ok hb]) All2.nil
      -- the amount
      have hq' : q = (if nonEmpty (fldD r 2) then -numApos (fldD r 2) else numApos (fldD r 3)) := by
        unfold nonEmpty numApos
        split at hq
        · rename_i hc
          obtain ⟨q', hq1, hq⟩ := Res.bind_eq_ok hq
          simp at hq hc
          simp [hc.1, ofOption_eq_ok hq1, hq]
        · split at hq
          · rename_i _ hc
            simp at hc
            simp [hc.1, ofOption_eq_ok hq]
          · cases hq
      simp only at h
      split at h
      · rename_i hsell
        obtain ⟨⟨oc, oq⟩, hco, h⟩ := Res.bind_eq_ok h
        simp at h
        obtain ⟨h1, h2⟩ := h
        subst h1 h2
        refine ⟨hdate, fun rest restDs hrest => ?_⟩
        rw [List.append_assoc]
        refine all2_append has' (All2.cons ?_ hrest)
        refine mkTx_matches _ _ _ _ _ _ ?_ (by simp)
        intro c'
        have := revolut_combi hco
        simp only [hsell, if_true, this, ← hq']
        exact effect_debit2 acct _ hval _ _ _ _ c'
      · split at h
        · rename_i hsell hbuy
          obtain ⟨⟨oc, oq⟩, hco, h⟩ := Res.bind_eq_ok h
          simp at h
          obtain ⟨h1, h2⟩ := h
          subst h1 h2
          refine ⟨hdate, fun rest restDs hrest => ?_⟩
          rw [List.append_assoc]
          refine all2_append has' (All2.cons ?_ hrest)
          refine mkTx_matches _ _ _ _ _ _ ?_ (by simp)
          intro c'
          have := revolut_combi hco
          simp only [hsell, hbuy, if_true, this, ← hq']
          exact effect_debit2 acct _ hval _ _ _ _ c'
        · rename_i hsell hbuy
          simp at h
          obtain ⟨h1, h2⟩ := h
          subst h1 h2
          refine ⟨hdate, fun rest restDs hrest => ?_⟩
          rw [List.append_assoc]
          refine all2_append has' (All2.cons ?_ hrest)
          refine mkTx_matches _ _ _ _ _ _ ?_ (by simp)
          intro c'
          simp only [hsell, hbuy, ← hq']
          exact effect_debit acct _ hacct _ _ c'

theorem revolut_rows (acct : Account) (hacct : acct ≠ tbd) (hval : acct ≠ valuationAccountFor acct) (cur : Commodity) (n : Nat) :
    ∀ (rs : List Rec) (prev : Int) (ds : List Directive), Revolut.rows acct cur n prev rs = .ok ds →
      All2 (Matches acct) (revolutRows cur prev rs) ds := by
  intro rs
  induction rs with
  | nil => intro prev ds h; simp [Revolut.rows] at h; subst h; exact All2.nil
  | cons r rs ih =>
    intro prev ds h
    unfold Revolut.rows at h
    obtain ⟨⟨d, ds1⟩, hrow, h⟩ := Res.bind_eq_ok h
    obtain ⟨ds2, hrec, h⟩ := Res.bind_eq_ok h
    simp at h; subst h
    obtain ⟨hd, hall⟩ := revolut_row acct hacct hval cur n prev r d ds1 hrow
    have := hall _ _ (ih d ds2 hrec)
    unfold revolutRows
    simp only
    rw [← hd]
    exact this

theorem revolut_faithful (acct : Account) (hacct : acct ≠ tbd) (hval : acct ≠ valuationAccountFor acct) (recs : List Rec)
    (ds : List Directive) (h : Revolut.run acct recs = .ok ds) : Faithful acct (revolut recs) ds := by
  unfold Revolut.run at h
  cases recs with
  | nil => cases h
  | cons hd rs =>
    simp only at h
    split at h
    · cases h
    · split at h
      · cases h
      · rename_i cur hcur
        obtain ⟨c, hc, h⟩ := Res.bind_eq_ok h
        have hc' := (getCommodity_eq_ok hc).1
        unfold Faithful revolut
        simp only [hcur, Option.getD_some]
        rw [← hc']
        exact revolut_rows acct hacct hval c 9 rs 0 ds h

/-! ## com.wise -/

theorem effect_credit (acct other : Account) (h : acct ≠ other) (cur : Commodity) (q : Rat) (c' : Commodity) :
    pbSum acct c' [⟨acct, other, cur, q⟩] = expected [(cur, -q)] c' := by
  simp [pbSum, pbEffect, expected]; grind

theorem effect_conversion (acct trading : Account) (h : acct ≠ trading) (sc tc : Commodity) (sa ta : Rat) (c' : Commodity) :
    pbSum acct c' [⟨acct, trading, sc, sa⟩, ⟨trading, acct, tc, ta⟩] = expected [(sc, -sa), (tc, ta)] c' := by
  simp [pbSum, pbEffect, expected, h.symm]; grind

theorem wise_fee {acct feeAcct : Account} (hfee : acct ≠ feeAcct) {amount currency : String} {ps : List PB}
    (h : Wise.fee acct feeAcct amount currency = .ok ps) (c' : Commodity) :
    pbSum acct c' ps = expected (wiseFee amount currency) c' := by
  unfold Wise.fee at h
  unfold wiseFee nonEmpty
  split at h
  · rename_i hc
    simp only [hc, decide_true, if_true]
    split at h
    · cases h
    · rename_i a ha
      split at h
      · rename_i hz
        simp at h; subst h
        simp [pbSum, expected, num, ha, hz, Rat.add_zero]
      · obtain ⟨c, hc', h⟩ := Res.bind_eq_ok h
        simp at h; subst h
        have := (mustCommodity_eq_ok hc').1
        subst this
        simp only [num, ha, Option.getD_some]
        exact effect_credit acct feeAcct hfee _ _ c'
  · rename_i hc
    simp at h; subst h
    simp [hc, pbSum, expected]

theorem wise_row (acct feeAcct trading : Account) (hacct : acct ≠ tbd) (hfee : acct ≠ feeAcct) (htr : acct ≠ trading)
    (r : Rec) (ds : List Directive) (h : Wise.row acct feeAcct trading r = .ok ds) :
    All2 (Matches acct) (wiseRow r) ds := by
  unfold Wise.row at h
  split at h
  · cases h
  · obtain ⟨d, hd, h⟩ := Res.bind_eq_ok h
    have hd' := dateOf10_eq hd
    unfold wiseRow
    simp only [hd']
    by_cases hcan : fldD r 1 = "CANCELLED"
    · simp [hcan] at h; subst h; simp [hcan]; exact All2.nil
    · simp only [hcan, if_false] at h ⊢
      obtain ⟨f1, hf1, h⟩ := Res.bind_eq_ok h
      obtain ⟨f2, hf2, h⟩ := Res.bind_eq_ok h
      obtain ⟨sa, hsa, h⟩ := Res.bind_eq_ok h
      obtain ⟨ta, hta, h⟩ := Res.bind_eq_ok h
      obtain ⟨sc, hsc, h⟩ := Res.bind_eq_ok h
      obtain ⟨tc, htc, h⟩ := Res.bind_eq_ok h
      have esa : num (fldD r 10) = sa := by simp [num, ofOption_eq_ok hsa]
      have eta : num (fldD r 13) = ta := by simp [num, ofOption_eq_ok hta]
      have esc := (mustCommodity_eq_ok hsc).1
      have etc := (mustCommodity_eq_ok htc).1
      have hfees : ∀ c', pbSum acct c' (f1 ++ f2) =
          expected (wiseFee (fldD r 5) (fldD r 6) ++ wiseFee (fldD r 7) (fldD r 8)) c' := by
        intro c'
        rw [pbSum_append, expected_append, wise_fee hfee hf1, wise_fee hfee hf2]
      simp only [esa, eta] at h ⊢
      rw [← esc, ← etc]
      by_cases hcur : fldD r 11 = fldD r 14
      · have hcur' : sc = tc := by rw [esc, etc]; exact hcur
        simp only [hcur, ne_eq, not_true_eq_false, if_false] at h
        simp only [hcur', ne_eq, not_true_eq_false, if_false]
        by_cases ho : fldD r 2 = "OUT"
        · simp [ho] at h; subst h
          simp only [ho, if_true]
          refine All2.cons ?_ All2.nil
          refine mkTx_matches _ _ _ _ _ _ ?_ (by simp)
          intro c'
          rw [← List.append_assoc, pbSum_append, expected_append, hfees, ← hcur', effect_credit acct tbd hacct]
        · by_cases hi : fldD r 2 = "IN"
          · simp [ho, hi] at h; subst h
            simp only [hi, if_true]
            have : ("IN" = "OUT") = False := by decide
            simp only [this, if_false]
            refine All2.cons ?_ All2.nil
            refine mkTx_matches _ _ _ _ _ _ ?_ (by simp)
            intro c'
            rw [← List.append_assoc, pbSum_append, expected_append, hfees, ← hcur', effect_debit acct tbd hacct]
          · by_cases hn : fldD r 2 = "NEUTRAL"
            · simp [ho, hi, hn] at h; subst h
              simp [ho, hi]; exact All2.nil
            · simp [ho, hi, hn] at h
      · have hcur' : sc ≠ tc := by rw [esc, etc]; exact hcur
        simp only [hcur, ne_eq, not_false_eq_true, if_true] at h
        simp only [hcur', ne_eq, not_false_eq_true, if_true]
        have hconv : ∀ desc, Matches acct
            (.booking d (wiseFee (fldD r 5) (fldD r 6) ++ wiseFee (fldD r 7) (fldD r 8) ++ [(sc, -sa), (tc, ta)]))
            (mkTx d desc (f1 ++ (f2 ++ [⟨acct, trading, sc, sa⟩, ⟨trading, acct, tc, ta⟩]))) := by
          intro desc
          refine mkTx_matches _ _ _ _ _ _ ?_ (by simp)
          intro c'
          rw [← List.append_assoc, pbSum_append, expected_append, hfees, effect_conversion acct trading htr]
        by_cases ho : fldD r 2 = "OUT"
        · simp [ho] at h; subst h
          simp only [ho, if_true]
          refine All2.cons (hconv _) (All2.cons ?_ All2.nil)
          refine mkTx_matches _ _ _ _ _ _ ?_ (by simp)
          intro c'
          exact effect_credit acct tbd hacct _ _ c'
        · by_cases hi : fldD r 2 = "IN"
          · simp [ho, hi] at h; subst h
            simp only [hi, if_true]
            have : ("IN" = "OUT") = False := by decide
            simp only [this, if_false]
            refine All2.cons (hconv _) (All2.cons ?_ All2.nil)
            refine mkTx_matches _ _ _ _ _ _ ?_ (by simp)
            intro c'
            exact effect_debit acct tbd hacct _ _ c'
          · by_cases hn : fldD r 2 = "NEUTRAL"
            · simp [ho, hi, hn] at h; subst h
              simp only [ho, hi, if_false]
              exact All2.cons (hconv _) All2.nil
            · simp [ho, hi, hn] at h

theorem wise_faithful (acct feeAcct trading : Account) (hacct : acct ≠ tbd) (hfee : acct ≠ feeAcct) (htr : acct ≠ trading)
    (recs : List Rec) (ds : List Directive) (h : Wise.run acct feeAcct trading recs = .ok ds) :
    Faithful acct (wise recs) ds := by
  unfold Wise.run at h
  cases recs with
  | nil => cases h
  | cons hd rs =>
    simp only at h
    split at h
    · cases h
    · split at h
      · cases h
      · exact mapRows_faithful (wise_row acct feeAcct trading hacct hfee htr) rs ds h

/-! ## ch.viac -/

theorem viac_entry (a : Account) (com : Commodity) (fromDay : Int) (e : String × String) (ds : List Directive)
    (h : Viac.entry com fromDay e = .ok ds) : All2 (Matches a) (viacEntry com fromDay e) ds := by
  unfold Viac.entry at h
  obtain ⟨d, hd, h⟩ := Res.bind_eq_ok h
  have hd' : dateOf layoutYMD e.1 = d := by simp [dateOf, ofOption_eq_ok hd]
  unfold viacEntry
  rw [hd']
  by_cases hlt : d < fromDay
  · simp [hlt] at h; subst h; simp [hlt]; exact All2.nil
  · simp only [hlt, if_false] at h
    obtain ⟨v, hv, h⟩ := Res.bind_eq_ok h
    have hv' : num e.2 = v := by simp [num, ofOption_eq_ok hv]
    rw [hv']
    by_cases hz : v = 0
    · simp [hz] at h; subst h; simp [hz]; exact All2.nil
    · simp [hz] at h; subst h
      simp only [hlt, hz, decide_false, Bool.or_self, Bool.false_eq_true, if_false]
      exact All2.cons (by simp [Matches]) All2.nil

theorem viac_faithful (a : Account) (com : Commodity) (fromDay : Int) : ∀ (es : List (String × String)) (ds : List Directive),
    Viac.run com fromDay es = .ok ds → Faithful a (viac com fromDay es) ds := by
  intro es
  induction es with
  | nil => intro ds h; simp [Viac.run] at h; subst h; exact All2.nil
  | cons e es ih =>
    intro ds h
    unfold Viac.run at h
    obtain ⟨d1, h1, h⟩ := Res.bind_eq_ok h
    obtain ⟨d2, h2, h⟩ := Res.bind_eq_ok h
    simp at h; subst h
    unfold Faithful viac
    simp only [List.flatMap_cons]
    exact all2_append (viac_entry a com fromDay e d1 h1) (ih d2 h2)

end Knut.Proofs.Import
