import Knut.Generated.TransPrice
import Knut.Generated.TransCompare
import Knut.Generated.TransCommodity
import Knut.Model.Prices
/-!
# The translated `lib/model/price` agrees with the hand-written model

`Knut/Generated/TransPrice.lean` is regenerated from /repo's `prices.go` on every run.  Go maps keyed by
`*commodity.Commodity` are association lists keyed by the (interned) commodity value; the model keys its
association lists by the commodity NAME and updates them differently (`set` = cons after delete, the translated code
replaces in place), so agreement of maps is agreement of every lookup (`NPEquiv`, `PEquiv`).
-/
namespace Knut.FactsAgree.TransPrice
open Knut Knut.GoSem
open Knut.Generated.Go

/-- a commodity pointer of Go: interned by name; `cur` is the `IsCurrency` flag each name carries -/
def cGo (cur : String → Bool) (c : Knut.Commodity) : commodity.Commodity := { name := c, IsCurrency := cur c }

theorem cGo_inj (cur : String → Bool) {a b : Knut.Commodity} (h : cGo cur a = cGo cur b) : a = b := by
  simpa [cGo] using congrArg commodity.Commodity.name h

theorem Multiply_agrees (a b : Rat) : price.Multiply a b = Prices.multiply a b := by
  simp [price.Multiply, Prices.multiply, Prices.multiplyPlaces]

/-- every lookup by an interned commodity agrees -/
def NPEquiv (cur : String → Bool) (g : price.NormalizedPrices) (m : Prices.NPrices) : Prop :=
  ∀ c : Knut.Commodity, Knut.AMap.find? g (cGo cur c) = Prices.find c m

def PEquiv (cur : String → Bool) (g : price.Prices) (m : Prices.Prices) : Prop :=
  ∀ a : Knut.Commodity,
    match Knut.AMap.find? g (cGo cur a), Prices.find a m with
    | some gi, some mi => NPEquiv cur gi mi
    | none, none => True
    | _, _ => False

theorem Price_agrees (cur : String → Bool) (g : price.NormalizedPrices) (m : Prices.NPrices) (h : NPEquiv cur g m)
    (c : Knut.Commodity) :
    price.NormalizedPrices.Price g (cGo cur c) =
      match Prices.npPrice m c with
      | some p => (p, none)
      | none => (0, some ⟨"no price found for %v in %v"⟩) := by
  have hc := h c
  unfold price.NormalizedPrices.Price Prices.npPrice
  simp only [Knut.AMap.get, hc]
  cases Prices.find c m <;> simp

theorem Valuate_agrees (cur : String → Bool) (g : price.NormalizedPrices) (m : Prices.NPrices) (h : NPEquiv cur g m)
    (c : Knut.Commodity) (a : Rat) :
    price.NormalizedPrices.Valuate g (cGo cur c) a =
      match Prices.npValuate m c a with
      | some v => (v, none)
      | none => (0, some ⟨"no price found for %v in %v"⟩) := by
  have hc := h c
  unfold price.NormalizedPrices.Valuate Prices.npValuate
  simp only [Knut.AMap.get, hc]
  cases Prices.find c m <;> simp [Multiply_agrees]

theorem NPEquiv_set (cur : String → Bool) {g : price.NormalizedPrices} {m : Prices.NPrices} (h : NPEquiv cur g m)
    (c : Knut.Commodity) (v : Rat) : NPEquiv cur (Knut.AMap.set g (cGo cur c) v) (Prices.set m c v) := by
  intro k
  rw [Knut.AMap.find?_set]
  by_cases hk : c = k
  · subst hk; simp [Prices.find_set_self]
  · have : cGo cur c ≠ cGo cur k := fun e => hk (cGo_inj cur e)
    rw [if_neg this, Prices.find_set_ne _ _ _ _ (fun e => hk e.symm)]
    exact h k

theorem NPEquiv_nil (cur : String → Bool) : NPEquiv cur [] [] := by intro c; rfl

theorem addPrice_agrees (cur : String → Bool) {g : price.Prices} {m : Prices.Prices} (h : PEquiv cur g m)
    (t c : Knut.Commodity) (p : Rat) :
    PEquiv cur (price.Prices.addPrice g (cGo cur t) (cGo cur c) p) (Prices.addPrice m t c p) := by
  intro a
  unfold price.Prices.addPrice Prices.addPrice
  simp only [Knut.AMap.find?_set]
  by_cases ha : t = a
  · subst ha
    simp only [if_true, Prices.find_set_self]
    apply NPEquiv_set
    have := h t
    unfold getDefault price.newNormalizedPrices
    cases hg : Knut.AMap.find? g (cGo cur t) <;> cases hm : Prices.find t m <;> simp [hg, hm] at this ⊢
    · exact NPEquiv_nil cur
    · exact this
  · have : cGo cur t ≠ cGo cur a := fun e => ha (cGo_inj cur e)
    rw [if_neg this, Prices.find_set_ne _ _ _ _ (fun e => ha e.symm)]
    exact h a

/-- `Prices.Insert`: same verdict, and equivalent maps afterwards (the error leaves the map as it was) -/
theorem Insert_agrees (cur : String → Bool) {g : price.Prices} {m : Prices.Prices} (h : PEquiv cur g m)
    (d : Prices.Decl) :
    match price.Prices.Insert g (cGo cur d.commodity) d.price (cGo cur d.target), Prices.insert m d with
    | GoSem.Outcome.ok (g', none), some m' => PEquiv cur g' m'
    | GoSem.Outcome.ok (g', some e), none => g' = g ∧ e = ⟨"invalid price %s for commodity %s in %s"⟩
    | _, _ => False := by
  unfold price.Prices.Insert Prices.insert
  by_cases hz : d.price = 0
  · simp [hz]
  · simp only [Decimal.IsZero, hz, decide_false, Bool.false_eq_true, if_false, Decimal.Div, price.one, Decimal.NewFromInt,
      GoSem.Outcome.bind]
    have h1 := addPrice_agrees cur h d.target d.commodity d.price
    have h2 := addPrice_agrees cur h1 d.commodity d.target (Prices.recip d.price)
    have e : Decimal.Truncate (Dec.div16 ((1 : Int) : Rat) d.price) 8 = Prices.recip d.price := by
      simp [Prices.recip, Prices.insertPlaces]
    rw [e]
    exact h2

/-- `commodity.Compare` orders by name: `compare.Sort(keys, commodity.Compare)` (a `sort.Slice` with "less" = `Smaller`)
sorts ascending by name, which is the model's `sortNames` -/
theorem commodity_Compare_smaller (cur : String → Bool) (a b : Knut.Commodity) :
    commodity.Compare (cGo cur a) (cGo cur b) = -1 ↔ a < b := by
  unfold commodity.Compare commodity.Commodity.Name cmpOrdered cGo
  by_cases h1 : a < b
  · simp [h1]
  · by_cases h2 : b < a <;> simp [h1, h2]

theorem compare_Time_eq (a b : Int) : compare.Time a b = if a < b then -1 else if a = b then 0 else 1 := by
  unfold compare.Time
  by_cases h1 : a = b
  · simp [h1]
  · by_cases h2 : a < b <;> simp [h1, h2]

theorem compare_Decimal_eq (a b : Rat) : compare.Decimal a b = if a < b then -1 else if a = b then 0 else 1 := by
  unfold compare.Decimal
  by_cases h1 : a = b
  · simp [h1]
  · by_cases h2 : a < b <;> simp [h1, h2]

/-- non-vacuity: 1.5 * 1.123456789 truncated to 8 places; a price and its stored reciprocal -/
example : price.Multiply (3/2) (1123456789/1000000000) = 168518518/100000000 := by decide +kernel
example : price.Prices.Insert [] ⟨"CHF", false⟩ 4 ⟨"USD", false⟩ =
    GoSem.Outcome.ok ([(⟨"USD", false⟩, [(⟨"CHF", false⟩, 4)]), (⟨"CHF", false⟩, [(⟨"USD", false⟩, 1/4)])], none) := by
  decide +kernel
example : (price.Prices.Insert [] ⟨"CHF", false⟩ 0 ⟨"USD", false⟩) =
    GoSem.Outcome.ok ([], some ⟨"invalid price %s for commodity %s in %s"⟩) := by decide +kernel

end Knut.FactsAgree.TransPrice
