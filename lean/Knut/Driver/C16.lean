import Knut.Driver.C04
import Knut.Driver.Balance
import Knut.Spec.BeancountSpec
/-! Driver ops for C16: the transcode model and the ledger predicates evaluated on a parsed (real) output.

```
transcode <v: none | hex> <journal>            → ok <hex text> | error <class>
c16mon    <v hex> <journal> <entries>          → ok | known valuation-account-not-opened | fail <predicate> <detail-hex>
entries := "-" | entry ("|" entry)*
entry   := o~<day>~<account hex> | c~<day>~<account hex> | t~<day>~<desc hex>~<account hex>,<decimal>(;…)*   ("-" for no postings)
```
-/
namespace Knut.Driver.C16
open Knut Knut.Wire Knut.Driver Knut.Beancount Knut.BeancountSpec

def parseV (s : String) : Option (Option Commodity) :=
  if s = "none" then some none else (unhexStr s).map some

def parsePosting (s : String) : Option Posting :=
  match splitOn s ',' with
  | [a, q] => do
    let a ← unhexStr a
    let q ← Dec.parseDec q
    pure { account := Account.ofName a, other := ⟨[]⟩, commodity := "", quantity := 0, value := q }
  | _ => none

def parseEntry (s : String) : Option BEntry :=
  match splitOn s '~' with
  | ["o", d, a] => do
    let d ← parseInt d
    let a ← unhexStr a
    pure (.opening ⟨d, Account.ofName a⟩)
  | ["c", d, a] => do
    let d ← parseInt d
    let a ← unhexStr a
    pure (.closing ⟨d, Account.ofName a⟩)
  | ["t", d, desc, ps] => do
    let d ← parseInt d
    let desc ← unhexStr desc
    let ps ← if ps = "-" then some [] else (splitOn ps ';').mapM parsePosting
    pure (.tx { date := d, description := desc, postings := ps })
  | _ => none

def parseEntries (s : String) : Option (List BEntry) :=
  if s = "-" then some [] else (splitOn s '|').mapM parseEntry

def showUse (u : Transaction × Account) : String :=
  u.2.name ++ " in " ++ JournalPrinter.fmtDate u.1.date ++ " \"" ++ u.1.description ++ "\""

def handle (fields : List String) : Option String :=
  match fields with
  | ["transcode", v, j] => some (
    match parseV v, (parseJournal j).bind Knut.Driver.C04.toDirectives with
    | some v, some ds => Knut.Driver.Balance.outcome (Beancount.run v ds)
    | none, _ => "bad-flags"
    | _, none => "unsupported")
  | ["c16mon", v, j, es] => some (
    match unhexStr v, (parseJournal j).bind Knut.Driver.C04.toDirectives, parseEntries es with
    | some v, some ds, some es =>
      match Beancount.process v (Builder.ofList ds).build with
      | .error _ => "fail accepted-but-model-rejects -"
      | .ok pds =>
        let expected := pds.flatMap (·.transactions)
        if !balanced es then
          "fail balanced " ++ hexStr (String.intercalate "; " (((txsOf es).filter (fun t => txSum t ≠ 0)).map
            (fun t => JournalPrinter.fmtDate t.date ++ " \"" ++ t.description ++ "\" sums to " ++ Dec.showDec (txSum t))))
        else if !chronological es then "fail chronological -"
        else if !sameTxs (txsOf es) expected then
          let showT (t : Transaction) : String := JournalPrinter.fmtDate t.date ++ " \"" ++ t.description ++ "\" " ++
            String.intercalate ", " (t.postings.map (fun p => p.account.name ++ " " ++ Dec.showDec p.value))
          let outK := (txsOf es).map txKey
          let expK := expected.map txKey
          let missing := expected.filter (fun t => (expK.count (txKey t)) > (outK.count (txKey t)))
          let extra := (txsOf es).filter (fun t => (outK.count (txKey t)) > (expK.count (txKey t)))
          "fail transactions-equal-valued-transactions " ++ hexStr ("missing from the output: " ++
            String.intercalate "; " (missing.map showT) ++ " | not among the valued transactions of the journal: " ++
            String.intercalate "; " (extra.map showT))
        else if lifecycleOK es then "ok"
        else if lifecycleOKExceptValuation es then "known valuation-account-not-opened"
        else "fail open-before-use " ++ hexStr (String.intercalate "; "
          (((unopenedUses es).filter (fun u => !adjustmentLeg u.1 u.2)).map showUse))
    | _, none, _ => "unsupported"
    | _, _, _ => "bad-op")
  | _ => none

end Knut.Driver.C16
