package main

import (
	"fmt"
	"os"
	"path"
	"path/filepath"
	"sort"
	"strings"
	"time"
)

func init() { runners["C05"] = runC05 }

// c05WriteTree distributes the directives (in the given order) over an include tree under dir and
// returns the root file. Shapes: depth up to 3, relative paths with ./ and ../, sub-directories.
func c05WriteTree(r *RNG, dir string, j *Journal, order []int) (string, string) {
	os.MkdirAll(dir, 0o755)
	nfiles := r.Range(1, 5)
	if len(order) < nfiles {
		nfiles = 1
	}
	dirs := []string{"", "sub", "sub/deep", "other"}
	// a third of the trees use directory and file names with characters that mean something to globbing, shells,
	// URLs or comment syntax (seeded change C05-c expanded include paths with filepath.Glob: names containing '['
	// silently matched nothing)
	odd := r.Chance(1, 3)
	oddName := func(base string) string { return base }
	if odd {
		dirs = []string{"", "books [2023]", "books [2023]/q?", "a*b", "with space", "ünï#x"}
		marks := []string{"[chf]", "*", "?", "[", "]", " ", "#", "'", "{a,b}", "~", "$HOME", "%20", "é", "[a-z]", "[!x]", "\\"}
		oddName = func(base string) string {
			if r.Chance(1, 2) {
				return base
			}
			return base + Pick(r, marks)
		}
	}
	type file struct {
		rel    string
		parent int
		dirs   []JDir
	}
	files := []*file{{rel: "main.knut", parent: -1}}
	for k := 1; k < nfiles; k++ {
		d := Pick(r, dirs)
		files = append(files, &file{rel: path.Join(d, oddName(fmt.Sprintf("f%d", k))+".knut"), parent: r.Intn(k)})
	}
	for _, idx := range order {
		f := files[r.Intn(nfiles)]
		f.dirs = append(f.dirs, j.Dirs[idx])
	}
	shape := fmt.Sprintf("files%d", nfiles)
	if odd && nfiles > 1 {
		shape += "+oddnames"
	}
	for k, f := range files {
		var b strings.Builder
		// include directives for the children of this file, at random positions
		var incs []string
		for c := k + 1; c < nfiles; c++ {
			if files[c].parent != k {
				continue
			}
			relp, _ := filepath.Rel(path.Dir(f.rel), files[c].rel)
			switch r.Intn(3) {
			case 0:
				relp = "./" + relp
			case 1:
				if path.Dir(f.rel) != "." {
					relp = "../" + path.Join(path.Base(path.Dir(f.rel)), relp)
				}
			}
			incs = append(incs, fmt.Sprintf("include \"%s\"\n\n", relp))
		}
		pos := make([]int, len(incs))
		for i := range incs {
			pos[i] = r.Intn(len(f.dirs) + 1)
		}
		for i := 0; i <= len(f.dirs); i++ {
			for q, p := range pos {
				if p == i {
					b.WriteString(incs[q])
				}
			}
			if i < len(f.dirs) {
				b.WriteString(f.dirs[i].Text())
				b.WriteString("\n")
			}
		}
		full := filepath.Join(dir, f.rel)
		os.MkdirAll(filepath.Dir(full), 0o755)
		os.WriteFile(full, []byte(b.String()), 0o644)
	}
	return filepath.Join(dir, "main.knut"), shape
}

// c05CanonPrint canonicalises printed journals up to the order of directives sharing date and kind:
// transaction blocks keep their sequence, all other directives of a date are pooled and sorted.
func c05CanonPrint(out string) string {
	blocks := strings.Split(strings.TrimRight(out, "\n"), "\n\n")
	type day struct {
		txs   []string
		other []string
	}
	days := map[string]*day{}
	var order []string
	get := func(d string) *day {
		if days[d] == nil {
			days[d] = &day{}
			order = append(order, d)
		}
		return days[d]
	}
	for _, b := range blocks {
		if strings.TrimSpace(b) == "" {
			continue
		}
		lines := strings.Split(b, "\n")
		first := lines[0]
		if strings.HasPrefix(first, "@performance") && len(lines) > 1 {
			first = lines[1]
		}
		date := ""
		if len(first) >= 10 {
			date = first[:10]
		}
		isTx := len(first) > 11 && first[11] == '"'
		if isTx {
			get(date).txs = append(get(date).txs, b)
			continue
		}
		for li := 0; li < len(lines); li++ {
			l := lines[li]
			d := date
			if len(l) >= 10 {
				d = l[:10]
			}
			if strings.HasSuffix(l, " balance") {
				// a multi-line assertion extends to the end of its block
				get(d).other = append(get(d).other, strings.Join(lines[li:], "\n"))
				break
			}
			get(d).other = append(get(d).other, l)
		}
	}
	sort.Strings(order)
	var sb strings.Builder
	for _, d := range order {
		sort.Strings(days[d].other)
		// transactions are printed in transaction.Compare order, which ignores the @performance targets: two transactions
		// of one day that differ in nothing else keep their input order. The property allows exactly that (relative
		// order of directives sharing date and kind), so the blocks of a day are compared as a multiset.
		sort.Strings(days[d].txs)
		sb.WriteString(strings.Join(days[d].other, "\n") + "\n--\n" + strings.Join(days[d].txs, "\n\n") + "\n====\n")
	}
	return sb.String()
}

// c05CanonDump sorts the items of a days dump (`ok <min> <max> item|item|…`, see loadtext.go / Driver/Load.lean):
// the real loader delivers the files in goroutine arrival order, the model depth first; the property — and
// C05_layout_arrival — is about the multiset per (day, kind), and every item carries its kind letter and its date.
func c05CanonDump(d string) string {
	d = canonPanic(d)
	f := strings.SplitN(d, " ", 4)
	if len(f) != 4 || f[0] != "ok" || f[3] == "-" {
		return d
	}
	items := strings.Split(f[3], "|")
	sort.Strings(items)
	return strings.Join(f[:3], " ") + " " + strings.Join(items, "|")
}

type c05Variant struct {
	FS     string // the include tree as the loader can see it, wire form of c14FS ("" = not expressible / too large)
	Dump   string // the days the REAL loader builds from Root (in-process), format of implLoadDump
	Order  []int
	Root   string
	Shape  string
	Seed   int
	Check  int
	BalC   int
	Bal    string
	PrC    int
	Print  string
	ErrOut string
}

func runC05(c *Ctx) {
	// file layout under the concurrent loader: sibling files which introduce the same new commodities at the same moment
	// (stream `shared`, shared with C19: the include tree must balance byte for byte like the concatenated file)
	if !c.Replay || c.OnlyStr == "shared" {
		c.c19Shared()
		if c.Replay {
			return
		}
	}
	n := c.N(500, 4000)
	nvar := c.N(5, 10)
	base := filepath.Join(c.WorkDir, "c05")
	type cs struct {
		idx  int
		j    *Journal
		f    BalFlags
		vars []*c05Variant
		tags []string
	}
	var cases []*cs
	for i := 0; i < n; i++ {
		if !c.Want("layout", i) {
			continue
		}
		r := c.Rng("layout", i)
		o := JGenOpts{MaxAccounts: r.Range(2, 6), MaxDays: r.Range(1, 5), Unicode: true, BaseDay: 737000 + r.Intn(1500), SpanDays: Pick(r, []int{0, 3, 30, 200}), BoundaryDates: r.Chance(1, 4),
			Mutate: r.Chance(1, 5), Accruals: r.Chance(1, 4)}
		if r.Chance(1, 2) {
			o.Prices, o.Valuation = true, "CHF"
			o.PricesFirstDayOnly = r.Chance(1, 2)
		}
		j, tags := GenJournal(r, o)
		f := GenBalFlags(r, j, o.Valuation, BalGenOpts{Valued: true})
		if r.Chance(1, 3) {
			// two mapping rules of different shape: the mapped account an earlier posting created must not depend on which
			// rule, or which account, a later posting meets first (seeded change C05-e let mapped accounts share a scratch
			// buffer, so that the report row of a posting depended on the order of the transactions of a day)
			accounts, _ := journalNames(j)
			f.Map = []MapRuleF{{Level: r.Range(1, 2), Suffix: 1, Regex: genPattern(r, accounts)}, {Level: r.Range(1, 2), Suffix: r.Range(2, 3), Regex: genPattern(r, accounts)}}
			if r.Bool() {
				f.Map = append(f.Map, MapRuleF{Level: r.Range(1, 3)})
			}
		}
		if r.Chance(1, 2) {
			f.To = 0 // the report end then comes from the journal period
		}
		k := &cs{idx: i, j: j, f: f, tags: tags}
		for v := 0; v < nvar; v++ {
			order := make([]int, len(j.Dirs))
			for q := range order {
				order[q] = q
			}
			switch {
			case v == 0: // the original order in a single file
			case v == 1: // newest first (reverse chronological)
				for a, b := 0, len(order)-1; a < b; a, b = a+1, b-1 {
					order[a], order[b] = order[b], order[a]
				}
			case v == 2: // grouped by kind: prices, then transactions newest first, then the rest
				rank := func(q int) int {
					switch j.Dirs[q].Kind {
					case 'p':
						return 0
					case 't':
						return 1
					}
					return 2
				}
				sort.SliceStable(order, func(a, b int) bool {
					ra, rb := rank(order[a]), rank(order[b])
					if ra != rb {
						return ra < rb
					}
					if ra == 1 {
						return j.Dirs[order[a]].Date > j.Dirs[order[b]].Date
					}
					return false
				})
			default:
				for q := len(order) - 1; q > 0; q-- {
					w := r.Intn(q + 1)
					order[q], order[w] = order[w], order[q]
				}
			}
			vr := &c05Variant{Order: order, Seed: r.Intn(1000) + 1}
			dir := filepath.Join(base, fmt.Sprintf("c%d/v%d", i, v))
			if v <= 2 && (v == 0 || r.Chance(1, 2)) {
				jj := &Journal{}
				for _, q := range order {
					jj.Dirs = append(jj.Dirs, j.Dirs[q])
				}
				text, _ := jj.Text()
				os.MkdirAll(dir, 0o755)
				vr.Root = filepath.Join(dir, "main.knut")
				os.WriteFile(vr.Root, []byte(text), 0o644)
				vr.Shape = "single"
			} else {
				vr.Root, vr.Shape = c05WriteTree(r, dir, j, order)
			}
			k.vars = append(k.vars, vr)
		}
		cases = append(cases, k)
	}
	type job struct{ k, v int }
	var jobs []job
	for k := range cases {
		for v := range cases[k].vars {
			jobs = append(jobs, job{k, v})
		}
	}
	parallelFor(len(jobs), 16, func(q int) {
		k, vr := cases[jobs[q].k], cases[jobs[q].k].vars[jobs[q].v]
		env := []string{fmt.Sprintf("KNUT_VERIF_SEED=%d", vr.Seed)}
		var e1, e2, e3 string
		vr.Check, _, e1 = runKnut(c.KnutBin, 20*time.Second, env, "check", vr.Root)
		args := append([]string{"balance"}, k.f.Args()...)
		vr.BalC, vr.Bal, e2 = runKnut(c.KnutBin, 20*time.Second, env, append(args, vr.Root)...)
		vr.PrC, vr.Print, e3 = runKnut(c.KnutBin, 20*time.Second, env, "print", vr.Root)
		vr.ErrOut = e1 + e2 + e3
		// the journal itself: what the real loader (journal.FromPath, in-process) builds from the tree, and the tree as the
		// model's file system (read back from disk like C14 does). A panic in a loader goroutine cannot be recovered
		// in-process; the subprocess runs above would have shown it.
		if !strings.Contains(vr.ErrOut, "panic") {
			if fs, ok := c14FS(filepath.Dir(vr.Root), []string{"main.knut"}, nil); ok {
				vr.FS = fs
				vr.Dump = implLoadDump(vr.Root)
			}
		}
	})
	os.RemoveAll(base)
	bt := c.NewBatch()
	defer bt.Flush()
	for _, k := range cases {
		k := k
		c.Evals++
		text, _ := k.j.Text()
		for _, t := range k.tags {
			c.Tag(t)
		}
		b0 := k.vars[0]
		shapes := map[string]bool{}
		for _, vr := range k.vars {
			shapes[vr.Shape] = true
		}
		c.Class(fmt.Sprintf("c05/check%d/%s/shapes%d/n%s", b0.Check, flagClass(k.f), len(shapes), bucket(len(k.j.Dirs))))
		if k.idx < 2 {
			c.Sample(map[string]any{"journal": text, "args": strings.Join(k.f.Args(), " "), "variants": len(k.vars)})
		}
		// Layout.journalOf (loader model on the tree read back from disk, elaboration, builder) against the days the real
		// loader built from the same tree, for every variant including the original
		for vi, vr := range k.vars {
			if vr.FS == "" {
				continue
			}
			vr := vr
			in := map[string]any{"journal": text, "variant": vi, "order": vr.Order, "shape": vr.Shape, "fs": vr.FS}
			bt.Add(func(model string) {
				c.Compare("layout", k.idx, "journal-of", in, c05CanonDump(vr.Dump), c05CanonDump(model))
			}, "c05journal", Hex("main.knut"), vr.FS)
		}
		for vi, vr := range k.vars[1:] {
			in := map[string]any{"journal": text, "args": strings.Join(k.f.Args(), " "), "variant": vi + 1, "order": vr.Order, "shape": vr.Shape, "schedule_seed": vr.Seed}
			c.Monitor("layout", k.idx, "verdict_same", in, vr.Check == b0.Check && vr.PrC == b0.PrC && vr.BalC == b0.BalC && !strings.Contains(vr.ErrOut, "panic"),
				fmt.Sprintf("exit codes check/balance/print: original %d/%d/%d, variant %d/%d/%d\n%s", b0.Check, b0.BalC, b0.PrC, vr.Check, vr.BalC, vr.PrC, clip(vr.ErrOut)))
			if b0.BalC == 0 && vr.BalC == 0 {
				c.Monitor("layout", k.idx, "balance_bytes_same", in, vr.Bal == b0.Bal, "original:\n"+b0.Bal+"\nvariant:\n"+vr.Bal)
			}
			if b0.PrC == 0 && vr.PrC == 0 {
				c.Monitor("layout", k.idx, "print_same_up_to_block_order", in, c05CanonPrint(vr.Print) == c05CanonPrint(b0.Print), "original:\n"+b0.Print+"\nvariant:\n"+vr.Print)
			}
			// the model on the permuted directive list gives the same report as the real code on the variant
			if vi < 2 {
				pj := &Journal{}
				for _, q := range vr.Order {
					pj.Dirs = append(pj.Dirs, k.j.Dirs[q])
				}
				impl := "error"
				if vr.BalC == 0 {
					impl = "ok " + Hex(canonTable(vr.Bal))
				}
				bt.Add(func(model string) {
					if model == "unsupported" {
						return
					}
					c.Compare("layout", k.idx, "balance-permuted", in, impl, modelOutcomeCanon(model))
				}, "balance", k.f.Wire(today()), pj.Wire())
			}
		}
	}
}
