import Knut.Proofs.SyntaxErr
/-!
# Ranges of a parsed tree are nested (helper lemmas for C07)

For each parser function: the element it returns spans exactly the consumed input `[s.off, s'.off)`, and
all ranges below it are nested (`nodeWF`).
-/
namespace Knut.Syntax
open Knut.Utf8 Knut.Spec.Syntax
set_option linter.unusedVariables false

theorem nodeWF_mk {lo hi k : Nat} {r : Range} {cs : List Node} :
    nodeWF lo hi (.mk k r cs) = true ↔ (lo ≤ r.start ∧ r.start ≤ r.stop ∧ r.stop ≤ hi) ∧ nodesWF r.start r.stop cs = true := by
  simp [nodeWF, within_iff]

theorem nodeWF_leaf {lo hi k : Nat} {r : Range} :
    nodeWF lo hi (leaf k r) = true ↔ lo ≤ r.start ∧ r.start ≤ r.stop ∧ r.stop ≤ hi := by
  simp [leaf, nodeWF_mk, nodesWF]

@[simp] theorem nodesWF_nil (lo hi : Nat) : nodesWF lo hi [] = true := by simp [nodesWF]

theorem nodesWF_cons {lo hi : Nat} {c : Node} {cs : List Node} :
    nodesWF lo hi (c :: cs) = true ↔ nodeWF lo hi c = true ∧ nodesWF lo hi cs = true := by
  simp [nodesWF]

theorem nodesWF_iff {lo hi : Nat} {cs : List Node} : nodesWF lo hi cs = true ↔ ∀ c ∈ cs, nodeWF lo hi c = true := by
  induction cs with
  | nil => simp
  | cons c cs ih => simp [nodesWF_cons, ih]

theorem nodesWF_append {lo hi : Nat} {a b : List Node} :
    nodesWF lo hi (a ++ b) = true ↔ nodesWF lo hi a = true ∧ nodesWF lo hi b = true := by
  simp only [nodesWF_iff, List.mem_append]
  constructor
  · intro h; exact ⟨fun c hc => h c (Or.inl hc), fun c hc => h c (Or.inr hc)⟩
  · rintro ⟨h1, h2⟩ c (hc | hc)
    · exact h1 c hc
    · exact h2 c hc

theorem nodesWF_map {α} {lo hi : Nat} {l : List α} {f : α → Node} :
    nodesWF lo hi (l.map f) = true ↔ ∀ x ∈ l, nodeWF lo hi (f x) = true := by
  simp [nodesWF_iff]

theorem nodeWF_mono {lo hi lo' hi' : Nat} {n : Node} (h : nodeWF lo hi n = true) (h1 : lo' ≤ lo) (h2 : hi ≤ hi') :
    nodeWF lo' hi' n = true := by
  cases n with
  | mk k r cs =>
    rw [nodeWF_mk] at h ⊢
    exact ⟨by omega, h.2⟩

/-! ### leaves -/

theorem parseDate_ok {s : St} {d : Date} {s' : St} (h : parseDate s = .ok d s') : d = ⟨⟨s.off, s'.off⟩⟩ := by
  unfold parseDate at h
  simp only [Res.bind_eq_ok] at h
  obtain ⟨_, _, _, _, _, _, _, _, _, _, _, _, _, _, _, _, _, _, _, _, _, _, _, _, _, _, _, _, _, _, h⟩ := h
  injection h with h1 h2
  subst h2
  exact h1.symm

theorem parseCommodity_ok {s : St} {c : Commodity} {s' : St} (h : parseCommodity s = .ok c s') : c = ⟨⟨s.off, s'.off⟩⟩ := by
  unfold parseCommodity at h
  simp only [Res.bind_eq_ok] at h
  obtain ⟨_, _, _, h⟩ := h
  injection h with h1 h2
  subst h2
  exact h1.symm

theorem parseInterval_ok {s : St} {c : Interval} {s' : St} (h : parseInterval s = .ok c s') : c = ⟨⟨s.off, s'.off⟩⟩ := by
  unfold parseInterval at h
  simp only [Res.bind_eq_ok] at h
  obtain ⟨_, _, _, h⟩ := h
  injection h with h1 h2
  subst h2
  exact h1.symm

theorem parseDecimal_ok {s : St} {c : Decimal} {s' : St} (h : parseDecimal s = .ok c s') : c = ⟨⟨s.off, s'.off⟩⟩ := by
  unfold parseDecimal at h
  simp only [Res.bind_eq_ok] at h
  obtain ⟨_, _, _, _, _, _, h⟩ := h
  split at h
  · injection h with h1 h2
    subst h2
    exact h1.symm
  · simp only [Res.bind_eq_ok] at h
    obtain ⟨_, _, _, _, _, _, h⟩ := h
    injection h with h1 h2
    subst h2
    exact h1.symm

theorem accountLoop_ok {start : Nat} {s : St} {a : Account} {s' : St} (h : accountLoop start s = .ok a s') :
    a = ⟨⟨start, s'.off⟩, false⟩ := by
  fun_induction accountLoop start s with
  | case1 s hc =>
    injection h with h1 h2
    subst h2
    exact h1.symm
  | case2 s hc e s1 h1 => cases h
  | case3 s hc x s1 h1 e s2 h2 => cases h
  | case4 s hc x s1 h1 y s2 h2 ih => exact ih h

theorem parseAccount_ok {s : St} {a : Account} {s' : St} (h : parseAccount s = .ok a s') :
    ∃ m, a = ⟨⟨s.off, s'.off⟩, m⟩ := by
  unfold parseAccount at h
  simp only at h
  split at h
  · simp only [Res.bind_eq_ok] at h
    obtain ⟨_, _, _, _, _, _, h⟩ := h
    injection h with h1 h2
    subst h2
    exact ⟨true, h1.symm⟩
  · simp only [Res.bind_eq_ok] at h
    obtain ⟨_, _, _, h⟩ := h
    exact ⟨false, accountLoop_ok h⟩

theorem parseQuotedString_ok {s : St} {q : QuotedString} {s' : St} (h : parseQuotedString s = .ok q s') :
    q.range = ⟨s.off, s'.off⟩ ∧ s.off ≤ q.content.start ∧ q.content.start ≤ q.content.stop ∧ q.content.stop ≤ s'.off := by
  unfold parseQuotedString at h
  simp only [Res.bind_eq_ok] at h
  obtain ⟨_, s1, h1, c, s2, h2, _, s3, h3, h⟩ := h
  injection h with ha hb
  subst hb
  have o1 := (readCharacter_fwd _ _).2 _ _ h1
  have o3 := (readCharacter_fwd _ _).2 _ _ h3
  obtain ⟨_, _, _, hc, _⟩ := readWhile_ok h2
  have o2 := (readWhile_fwd _ _).2 _ _ h2
  rw [← ha]
  refine ⟨rfl, ?_⟩
  simp only [hc]
  exact ⟨o1, o2, o3⟩

theorem quoted_wf {lo hi : Nat} {q : QuotedString} (h1 : lo ≤ q.range.start) (h2 : q.range.stop ≤ hi)
    (h3 : q.range.start ≤ q.content.start) (h4 : q.content.start ≤ q.content.stop) (h5 : q.content.stop ≤ q.range.stop) :
    nodeWF lo hi q.toNode = true := by
  simp only [QuotedString.toNode, nodeWF_mk, nodesWF_cons, nodeWF_leaf, nodesWF_nil, and_true]
  omega

theorem quoted_wf' {lo hi a b : Nat} {q : QuotedString} (hq : q.range = ⟨a, b⟩) (h1 : lo ≤ a) (h2 : b ≤ hi)
    (h3 : a ≤ q.content.start) (h4 : q.content.start ≤ q.content.stop) (h5 : q.content.stop ≤ b) :
    nodeWF lo hi q.toNode = true := by
  apply quoted_wf <;> (try rw [hq]) <;> (try simp only) <;> assumption

/-! ### composite elements -/

theorem parseBooking_ok {s : St} {b : Booking} {s' : St} (h : parseBooking s = .ok b s') :
    b.range = ⟨s.off, s'.off⟩ ∧ nodeWF s.off s'.off b.toNode = true := by
  unfold parseBooking at h
  simp only [Res.bind_eq_ok] at h
  obtain ⟨cr, s1, h1, _, s2, h2, db, s3, h3, _, s4, h4, q, s5, h5, _, s6, h6, cm, s7, h7, h⟩ := h
  injection h with ha hb
  subst hb
  have o1 := (parseAccount_fwd _).2 _ _ h1
  have o2 := (readWhile1_fwd _ _ _).2 _ _ h2
  have o3 := (parseAccount_fwd _).2 _ _ h3
  have o4 := (readWhile1_fwd _ _ _).2 _ _ h4
  have o5 := (parseDecimal_fwd _).2 _ _ h5
  have o6 := (readWhile1_fwd _ _ _).2 _ _ h6
  have o7 := (parseCommodity_fwd _).2 _ _ h7
  obtain ⟨m1, e1⟩ := parseAccount_ok h1
  obtain ⟨m3, e3⟩ := parseAccount_ok h3
  have e5 := parseDecimal_ok h5
  have e7 := parseCommodity_ok h7
  subst e1 e3 e5 e7
  rw [← ha]
  refine ⟨rfl, ?_⟩
  simp only [Booking.toNode, Account.toNode, Decimal.toNode, Commodity.toNode, nodeWF_mk, nodesWF_cons, nodeWF_leaf,
    nodesWF_nil, rng, and_true]
  omega

theorem parseBalance_ok {s : St} {b : Balance} {s' : St} (h : parseBalance s = .ok b s') :
    b.range = ⟨s.off, s'.off⟩ ∧ nodeWF s.off s'.off b.toNode = true := by
  unfold parseBalance at h
  simp only [Res.bind_eq_ok] at h
  obtain ⟨cr, s1, h1, _, s2, h2, q, s3, h3, _, s4, h4, cm, s5, h5, h⟩ := h
  injection h with ha hb
  subst hb
  have o1 := (parseAccount_fwd _).2 _ _ h1
  have o2 := (readWhitespace1_fwd _).2 _ _ h2
  have o3 := (parseDecimal_fwd _).2 _ _ h3
  have o4 := (readWhitespace1_fwd _).2 _ _ h4
  have o5 := (parseCommodity_fwd _).2 _ _ h5
  obtain ⟨m1, e1⟩ := parseAccount_ok h1
  have e3 := parseDecimal_ok h3
  have e5 := parseCommodity_ok h5
  subst e1 e3 e5
  rw [← ha]
  refine ⟨rfl, ?_⟩
  simp only [Balance.toNode, Account.toNode, Decimal.toNode, Commodity.toNode, nodeWF_mk, nodesWF_cons, nodeWF_leaf,
    nodesWF_nil, rng, and_true]
  omega

theorem parseAccrual_ok {s : St} {a : Accrual} {s' : St} (h : parseAccrual s = .ok a s') :
    a.range = ⟨s.off, s'.off⟩ ∧ nodesWF s.off s'.off a.toNode.children = true := by
  unfold parseAccrual at h
  simp only [Res.bind_eq_ok] at h
  obtain ⟨_, s1, h1, iv, s2, h2, _, s3, h3, d0, s4, h4, _, s5, h5, d1, s6, h6, _, s7, h7, ac, s8, h8, h⟩ := h
  injection h with ha hb
  subst hb
  have o1 := (readWhitespace1_fwd _).2 _ _ h1
  have o2 := (parseInterval_fwd _).2 _ _ h2
  have o3 := (readWhitespace1_fwd _).2 _ _ h3
  have o4 := (parseDate_fwd _).2 _ _ h4
  have o5 := (readWhitespace1_fwd _).2 _ _ h5
  have o6 := (parseDate_fwd _).2 _ _ h6
  have o7 := (readWhitespace1_fwd _).2 _ _ h7
  have o8 := (parseAccount_fwd _).2 _ _ h8
  have e2 := parseInterval_ok h2
  have e4 := parseDate_ok h4
  have e6 := parseDate_ok h6
  obtain ⟨m, e8⟩ := parseAccount_ok h8
  subst e2 e4 e6 e8
  rw [← ha]
  refine ⟨rfl, ?_⟩
  simp only [Accrual.toNode, Node.children, Account.toNode, Date.toNode, Interval.toNode, nodesWF_cons, nodeWF_leaf,
    nodesWF_nil, rng, and_true]
  omega

theorem perfLoop_ok {start : Nat} {acc : List Commodity} {s : St} {ts : List Commodity} {s' : St} {lo : Nat}
    (h : perfLoop start acc s = .ok ts s') (hlo : lo ≤ s.off)
    (hacc : ∀ c ∈ acc, nodeWF lo s.off c.toNode = true) :
    s.off ≤ s'.off ∧ ∀ c ∈ ts, nodeWF lo s'.off c.toNode = true := by
  fun_induction perfLoop start acc s with
  | case1 acc s hc =>
    injection h with h1 h2
    subst h1 h2
    exact ⟨Nat.le_refl _, by simpa using hacc⟩
  | case2 acc s hc e s1 h1 => cases h
  | case3 acc s hc x s1 h1 e s2 h2 => cases h
  | case4 acc s hc x s1 h1 y s2 h2 e s3 h3 => cases h
  | case5 acc s hc x s1 h1 y s2 h2 c s3 h3 e s4 h4 => cases h
  | case6 acc s hc x s1 h1 y s2 h2 c s3 h3 z s4 h4 ih =>
    have o1 := (readCharacter_fwd 44 s).2 _ _ h1
    have o2 := (readWhile_fwd _ s1).2 _ _ h2
    have o3 := (parseCommodity_fwd s2).2 _ _ h3
    have o4 := (readWhile_fwd _ s3).2 _ _ h4
    have e3 := parseCommodity_ok h3
    have := ih h (by omega) (by
      intro c' hc'
      rcases List.mem_cons.mp hc' with hc' | hc'
      · subst hc' e3
        simp only [Commodity.toNode, nodeWF_leaf]; omega
      · exact nodeWF_mono (hacc c' hc') (Nat.le_refl _) (by omega))
    exact ⟨by omega, this.2⟩

theorem parsePerformance_ok {s : St} {p : Performance} {s' : St} (h : parsePerformance s = .ok p s') :
    p.range = ⟨s.off, s'.off⟩ ∧ nodesWF s.off s'.off p.toNode.children = true := by
  unfold parsePerformance at h
  simp only [Res.bind_eq_ok] at h
  obtain ⟨_, s1, h1, _, s2, h2, first, s3, h3, ts, s4, h4, _, s5, h5, h⟩ := h
  injection h with ha hb
  subst hb
  have o1 := (readCharacter_fwd _ _).2 _ _ h1
  have o2 := (readWhile_fwd _ _).2 _ _ h2
  have o5 := (readCharacter_fwd _ _).2 _ _ h5
  have hfirst : s2.off ≤ s3.off ∧ ∀ c ∈ first, nodeWF s.off s3.off c.toNode = true := by
    split at h3
    · simp only [Res.bind_eq_ok] at h3
      obtain ⟨c, t1, g1, _, t2, g2, g3⟩ := h3
      injection g3 with ga gb
      subst ga gb
      have p1 := (parseCommodity_fwd _).2 _ _ g1
      have p2 := (readWhile_fwd _ _).2 _ _ g2
      have e1 := parseCommodity_ok g1
      subst e1
      refine ⟨by omega, ?_⟩
      intro c hc
      simp only [List.mem_singleton] at hc
      subst hc
      simp only [Commodity.toNode, nodeWF_leaf]; omega
    · injection h3 with ga gb
      subst ga gb
      exact ⟨Nat.le_refl _, by simp⟩
  have := perfLoop_ok (lo := s.off) h4 (by omega) hfirst.2
  rw [← ha]
  refine ⟨rfl, ?_⟩
  simp only [Performance.toNode, Node.children, nodesWF_map, rng]
  intro c hc
  exact nodeWF_mono (this.2 c hc) (Nat.le_refl _) o5

end Knut.Syntax

namespace Knut.Syntax
open Knut.Utf8 Knut.Spec.Syntax
set_option linter.unusedVariables false

theorem nodesWF_optNode {lo hi : Nat} {r : Range} {n : Node} (h : nodeWF lo hi n = true) :
    nodesWF lo hi (optNode r n) = true := by
  unfold optNode
  split
  · simp
  · simp [nodesWF_cons, h]

/-- the annotations collected so far are well-formed inside `[lo, hi]` -/
def AddOK (lo hi : Nat) (perf : Performance) (accr : Accrual) : Prop :=
  nodesWF lo hi (optNode perf.range perf.toNode ++ optNode accr.range accr.toNode) = true

theorem AddOK.mono {lo hi hi' : Nat} {perf : Performance} {accr : Accrual} (h : AddOK lo hi perf accr) (hle : hi ≤ hi') :
    AddOK lo hi' perf accr := by
  unfold AddOK at h ⊢
  rw [nodesWF_iff] at h ⊢
  intro c hc
  exact nodeWF_mono (h c hc) (Nat.le_refl _) hle

theorem AddOK.zero (lo hi : Nat) : AddOK lo hi Performance.zero Accrual.zero := by
  simp [AddOK, optNode, Performance.zero, Accrual.zero]

theorem extend_kw {a b c : Nat} (h1 : a ≤ b) (h2 : b ≤ c) : (Range.mk b c).extend ⟨a, b⟩ = ⟨a, c⟩ := by
  simp only [Range.extend, Range.mk.injEq]
  constructor
  · split <;> omega
  · split <;> omega

theorem addonStep_ok {start : Nat} {perf : Performance} {accr : Accrual} {r0 : Nat} {kw : String} {s : St}
    {p' : Performance} {a' : Accrual} {s' : St} {lo : Nat}
    (h : addonStep start perf accr ⟨r0, s.off⟩ kw s = .ok (p', a') s')
    (h1 : lo ≤ r0) (h2 : r0 ≤ s.off) (hA : AddOK lo s.off perf accr) :
    s.off ≤ s'.off ∧ AddOK lo s'.off p' a' := by
  unfold addonStep at h
  simp only at h
  have hA1 := nodesWF_append.mp hA
  split at h
  · split at h
    · cases h
    · simp only [Res.bind_eq_ok] at h
      obtain ⟨p, s1, g1, g2⟩ := h
      injection g2 with ga gb
      injection ga with ga1 ga2
      subst gb ga2
      have o1 := (parsePerformance_fwd _).2 _ _ g1
      obtain ⟨e1, w1⟩ := parsePerformance_ok g1
      refine ⟨o1, ?_⟩
      unfold AddOK
      rw [nodesWF_append]
      refine ⟨?_, ?_⟩
      · apply nodesWF_optNode
        rw [← ga1]
        simp only [Performance.toNode, e1, extend_kw h2 o1, nodeWF_mk]
        refine ⟨by omega, ?_⟩
        simp only [Performance.toNode, Node.children] at w1
        rw [nodesWF_iff] at w1 ⊢
        intro c hc
        exact nodeWF_mono (w1 c hc) h2 (Nat.le_refl _)
      · have hR := nodesWF_iff.mp hA1.2
        rw [nodesWF_iff]
        intro c hc
        exact nodeWF_mono (hR c hc) (Nat.le_refl _) o1
  · split at h
    · split at h
      · cases h
      · simp only [Res.bind_eq_ok] at h
        obtain ⟨a, s1, g1, g2⟩ := h
        injection g2 with ga gb
        injection ga with ga1 ga2
        subst gb ga1
        have o1 := (parseAccrual_fwd _).2 _ _ g1
        obtain ⟨e1, w1⟩ := parseAccrual_ok g1
        refine ⟨o1, ?_⟩
        unfold AddOK
        rw [nodesWF_append]
        refine ⟨?_, ?_⟩
        · have hL := nodesWF_iff.mp hA1.1
          rw [nodesWF_iff]
          intro c hc
          exact nodeWF_mono (hL c hc) (Nat.le_refl _) o1
        · apply nodesWF_optNode
          rw [← ga2]
          simp only [Accrual.toNode, e1, extend_kw h2 o1, nodeWF_mk]
          refine ⟨by omega, ?_⟩
          simp only [Accrual.toNode, Node.children] at w1
          rw [nodesWF_iff] at w1 ⊢
          intro c hc
          exact nodeWF_mono (w1 c hc) h2 (Nat.le_refl _)
    · injection h with ga gb
      injection ga with ga1 ga2
      subst gb ga1 ga2
      exact ⟨Nat.le_refl _, hA⟩

theorem addonsLoop_ok {start : Nat} {perf : Performance} {accr : Accrual} {s : St} {a : Addons} {s' : St}
    (h : addonsLoop start perf accr s = .ok a s') (hs : start ≤ s.off) (hA : AddOK start s.off perf accr) :
    a.range = ⟨start, s'.off⟩ ∧ s.off ≤ s'.off ∧ nodeWF start s'.off a.toNode = true := by
  fun_induction addonsLoop start perf accr s with
  | case1 perf accr s e s1 h1 => cases h
  | case2 perf accr s r kw s1 h1 e s2 h2 => cases h
  | case3 perf accr s r kw s1 h1 perf' accr' s2 h2 e s3 h3 => cases h
  | case4 perf accr s r kw s1 h1 perf' accr' s2 h2 x s3 h3 hc =>
    have o1 := (readAlternative_fwd _ s).2 _ _ h1
    obtain ⟨_, c, hcs, _, hr⟩ := readAlternative_ok' h1
    subst hr
    obtain ⟨o2, A2⟩ := addonStep_ok (lo := start) h2 hs o1 (hA.mono o1)
    have o3 := (readRestOfWhitespaceLine_fwd s2).2 _ _ h3
    injection h with ha hb
    subst hb
    rw [← ha]
    refine ⟨rfl, by omega, ?_⟩
    simp only [Addons.toNode, rng, nodeWF_mk]
    exact ⟨by omega, A2.mono o3⟩
  | case5 perf accr s r kw s1 h1 perf' accr' s2 h2 x s3 h3 hc ih =>
    have o1 := (readAlternative_fwd _ s).2 _ _ h1
    obtain ⟨_, c, hcs, _, hr⟩ := readAlternative_ok' h1
    subst hr
    obtain ⟨o2, A2⟩ := addonStep_ok (lo := start) h2 hs o1 (hA.mono o1)
    have o3 := (readRestOfWhitespaceLine_fwd s2).2 _ _ h3
    have := ih h (by omega) (A2.mono o3)
    exact ⟨this.1, by omega, this.2.2⟩

theorem parseAddons_ok {s : St} {a : Addons} {s' : St} (h : parseAddons s = .ok a s') :
    a.range = ⟨s.off, s'.off⟩ ∧ s.off ≤ s'.off ∧ nodeWF s.off s'.off a.toNode = true :=
  addonsLoop_ok h (Nat.le_refl _) (AddOK.zero _ _)

theorem bookingsLoop_ok {start : Nat} {acc : List Booking} {s : St} {bs : List Booking} {s' : St} {lo : Nat}
    (h : bookingsLoop start acc s = .ok bs s') (hlo : lo ≤ s.off)
    (hacc : ∀ b ∈ acc, nodeWF lo s.off b.toNode = true) :
    s.off ≤ s'.off ∧ ∀ b ∈ bs, nodeWF lo s'.off b.toNode = true := by
  fun_induction bookingsLoop start acc s with
  | case1 acc s e s1 h1 => cases h
  | case2 acc s b s1 h1 e s2 h2 => cases h
  | case3 acc s b s1 h1 x s2 h2 hc =>
    have o1 := (parseBooking_fwd s).2 _ _ h1
    have o2 := (readRestOfWhitespaceLine_fwd s1).2 _ _ h2
    have w := (parseBooking_ok h1).2
    injection h with ha hb
    subst ha hb
    refine ⟨by omega, ?_⟩
    intro b' hb'
    simp only [List.mem_reverse, List.mem_cons] at hb'
    rcases hb' with hb' | hb'
    · subst hb'; exact nodeWF_mono w hlo o2
    · exact nodeWF_mono (hacc b' hb') (Nat.le_refl _) (by omega)
  | case4 acc s b s1 h1 x s2 h2 hc ih =>
    have o1 := (parseBooking_fwd s).2 _ _ h1
    have o2 := (readRestOfWhitespaceLine_fwd s1).2 _ _ h2
    have w := (parseBooking_ok h1).2
    have := ih h (by omega) (by
      intro b' hb'
      rcases List.mem_cons.mp hb' with hb' | hb'
      · subst hb'; exact nodeWF_mono w hlo o2
      · exact nodeWF_mono (hacc b' hb') (Nat.le_refl _) (by omega))
    exact ⟨by omega, this.2⟩

theorem balancesLoop_ok {start : Nat} {acc : List Balance} {s : St} {bs : List Balance} {s' : St} {lo : Nat}
    (h : balancesLoop start acc s = .ok bs s') (hlo : lo ≤ s.off)
    (hacc : ∀ b ∈ acc, nodeWF lo s.off b.toNode = true) :
    s.off ≤ s'.off ∧ ∀ b ∈ bs, nodeWF lo s'.off b.toNode = true := by
  fun_induction balancesLoop start acc s with
  | case1 acc s e s1 h1 => cases h
  | case2 acc s b s1 h1 e s2 h2 => cases h
  | case3 acc s b s1 h1 x s2 h2 hc =>
    have o1 := (parseBalance_fwd s).2 _ _ h1
    have o2 := (readRestOfWhitespaceLine_fwd s1).2 _ _ h2
    have w := (parseBalance_ok h1).2
    injection h with ha hb
    subst ha hb
    refine ⟨by omega, ?_⟩
    intro b' hb'
    simp only [List.mem_reverse, List.mem_cons] at hb'
    rcases hb' with hb' | hb'
    · subst hb'; exact nodeWF_mono w hlo o2
    · exact nodeWF_mono (hacc b' hb') (Nat.le_refl _) (by omega)
  | case4 acc s b s1 h1 x s2 h2 hc ih =>
    have o1 := (parseBalance_fwd s).2 _ _ h1
    have o2 := (readRestOfWhitespaceLine_fwd s1).2 _ _ h2
    have w := (parseBalance_ok h1).2
    have := ih h (by omega) (by
      intro b' hb'
      rcases List.mem_cons.mp hb' with hb' | hb'
      · subst hb'; exact nodeWF_mono w hlo o2
      · exact nodeWF_mono (hacc b' hb') (Nat.le_refl _) (by omega))
    exact ⟨by omega, this.2⟩

theorem parseTransaction_ok {start : Nat} {date : Date} {addons : Addons} {s : St} {t : Transaction} {s' : St}
    (h : parseTransaction start date addons s = .ok t s') (hs : start ≤ s.off)
    (hd : nodeWF start s.off date.toNode = true)
    (ha : nodesWF start s.off (optNode addons.range addons.toNode) = true) :
    t.range = ⟨start, s'.off⟩ ∧ nodeWF start s'.off t.toNode = true := by
  unfold parseTransaction at h
  simp only [Res.bind_eq_ok] at h
  obtain ⟨q, s1, h1, _, s2, h2, bs, s3, h3, h⟩ := h
  injection h with hx hy
  subst hy
  have o1 := (parseQuotedString_fwd _).2 _ _ h1
  have o2 := (readRestOfWhitespaceLine_fwd _).2 _ _ h2
  obtain ⟨q1, q2, q3, q4⟩ := parseQuotedString_ok h1
  obtain ⟨o3, wb⟩ := bookingsLoop_ok (lo := start) h3 (by omega) (by simp)
  rw [← hx]
  refine ⟨rfl, ?_⟩
  simp only [Transaction.toNode, rng, nodeWF_mk]
  refine ⟨by omega, ?_⟩
  rw [nodesWF_append, nodesWF_append]
  refine ⟨⟨?_, ?_⟩, ?_⟩
  · rw [nodesWF_iff] at ha ⊢
    intro c hc
    exact nodeWF_mono (ha c hc) (Nat.le_refl _) (by omega)
  · simp only [nodesWF_cons, nodesWF_nil, and_true]
    refine ⟨nodeWF_mono hd (Nat.le_refl _) (by omega), ?_⟩
    exact quoted_wf' q1 (by omega) (by omega) q2 q3 q4
  · rw [nodesWF_map]
    exact wb

theorem parseOpen_ok {start : Nat} {date : Date} {s : St} {o : Open} {s' : St}
    (h : parseOpen start date s = .ok o s') (hs : start ≤ s.off) (hd : nodeWF start s.off date.toNode = true) :
    o.range = ⟨start, s'.off⟩ ∧ nodeWF start s'.off o.toNode = true := by
  unfold parseOpen at h
  simp only [Res.bind_eq_ok] at h
  obtain ⟨a, s1, h1, h⟩ := h
  injection h with hx hy
  subst hy
  have o1 := (parseAccount_fwd _).2 _ _ h1
  obtain ⟨m, e1⟩ := parseAccount_ok h1
  subst e1
  rw [← hx]
  refine ⟨rfl, ?_⟩
  simp only [Open.toNode, rng, nodeWF_mk, nodesWF_cons, nodesWF_nil, and_true, Account.toNode, nodeWF_leaf]
  exact ⟨by omega, nodeWF_mono hd (Nat.le_refl _) o1, by omega⟩

theorem parseClose_ok {start : Nat} {date : Date} {s : St} {o : Close} {s' : St}
    (h : parseClose start date s = .ok o s') (hs : start ≤ s.off) (hd : nodeWF start s.off date.toNode = true) :
    o.range = ⟨start, s'.off⟩ ∧ nodeWF start s'.off o.toNode = true := by
  unfold parseClose at h
  simp only [Res.bind_eq_ok] at h
  obtain ⟨a, s1, h1, h⟩ := h
  injection h with hx hy
  subst hy
  have o1 := (parseAccount_fwd _).2 _ _ h1
  obtain ⟨m, e1⟩ := parseAccount_ok h1
  subst e1
  rw [← hx]
  refine ⟨rfl, ?_⟩
  simp only [Close.toNode, rng, nodeWF_mk, nodesWF_cons, nodesWF_nil, and_true, Account.toNode, nodeWF_leaf]
  exact ⟨by omega, nodeWF_mono hd (Nat.le_refl _) o1, by omega⟩

theorem parseAssertion_ok {start : Nat} {date : Date} {s : St} {a : Assertion} {s' : St}
    (h : parseAssertion start date s = .ok a s') (hs : start ≤ s.off) (hd : nodeWF start s.off date.toNode = true) :
    a.range = ⟨start, s'.off⟩ ∧ nodeWF start s'.off a.toNode = true := by
  unfold parseAssertion at h
  simp only at h
  split at h
  · simp only [Res.bind_eq_ok] at h
    obtain ⟨_, s1, h1, bs, s2, h2, h⟩ := h
    injection h with hx hy
    subst hy
    have o1 := (readRestOfWhitespaceLine_fwd _).2 _ _ h1
    obtain ⟨o2, wb⟩ := balancesLoop_ok (lo := start) h2 (by omega) (by simp)
    rw [← hx]
    refine ⟨rfl, ?_⟩
    simp only [Assertion.toNode, rng, nodeWF_mk, nodesWF_cons, nodesWF_map]
    exact ⟨by omega, nodeWF_mono hd (Nat.le_refl _) (by omega), wb⟩
  · simp only [Res.bind_eq_ok] at h
    obtain ⟨b, s1, h1, h⟩ := h
    injection h with hx hy
    subst hy
    have o1 := (parseBalance_fwd _).2 _ _ h1
    have w := (parseBalance_ok h1).2
    rw [← hx]
    refine ⟨rfl, ?_⟩
    simp only [Assertion.toNode, rng, nodeWF_mk, nodesWF_cons, List.map_cons, List.map_nil, nodesWF_nil, and_true]
    exact ⟨by omega, nodeWF_mono hd (Nat.le_refl _) (by omega), nodeWF_mono w hs (Nat.le_refl _)⟩

theorem parsePrice_ok {start : Nat} {date : Date} {s : St} {p : Price} {s' : St}
    (h : parsePrice start date s = .ok p s') (hs : start ≤ s.off) (hd : nodeWF start s.off date.toNode = true) :
    p.range = ⟨start, s'.off⟩ ∧ nodeWF start s'.off p.toNode = true := by
  unfold parsePrice at h
  simp only [Res.bind_eq_ok] at h
  obtain ⟨c, s1, h1, _, s2, h2, d, s3, h3, _, s4, h4, t, s5, h5, h⟩ := h
  injection h with hx hy
  subst hy
  have o1 := (parseCommodity_fwd _).2 _ _ h1
  have o2 := (readWhitespace1_fwd _).2 _ _ h2
  have o3 := (parseDecimal_fwd _).2 _ _ h3
  have o4 := (readWhitespace1_fwd _).2 _ _ h4
  have o5 := (parseCommodity_fwd _).2 _ _ h5
  have e1 := parseCommodity_ok h1
  have e3 := parseDecimal_ok h3
  have e5 := parseCommodity_ok h5
  subst e1 e3 e5
  rw [← hx]
  refine ⟨rfl, ?_⟩
  simp only [Price.toNode, rng, nodeWF_mk, nodesWF_cons, nodesWF_nil, and_true, Commodity.toNode, Decimal.toNode, nodeWF_leaf]
  exact ⟨by omega, nodeWF_mono hd (Nat.le_refl _) (by omega), by omega, by omega, by omega⟩

theorem parseInclude_ok {s : St} {i : Include} {s' : St} (h : parseInclude s = .ok i s') :
    i.range = ⟨s.off, s'.off⟩ ∧ nodeWF s.off s'.off i.toNode = true := by
  unfold parseInclude at h
  simp only [Res.bind_eq_ok] at h
  obtain ⟨_, s1, h1, _, s2, h2, q, s3, h3, h⟩ := h
  injection h with hx hy
  subst hy
  have o1 := (readString_fwd _ _).2 _ _ h1
  have o2 := (readWhitespace1_fwd _).2 _ _ h2
  have o3 := (parseQuotedString_fwd _).2 _ _ h3
  obtain ⟨q1, q2, q3, q4⟩ := parseQuotedString_ok h3
  rw [← hx]
  refine ⟨rfl, ?_⟩
  simp only [Include.toNode, rng, nodeWF_mk, nodesWF_cons, nodesWF_nil, and_true]
  refine ⟨by omega, ?_⟩
  exact quoted_wf' q1 (by omega) (by omega) q2 q3 q4

theorem parseKeyword_ok {start : Nat} {date : Date} {kw : String} {s : St} {b : Body} {s' : St}
    (h : parseKeyword start date kw s = .ok b s') (hs : start ≤ s.off) (hd : nodeWF start s.off date.toNode = true) :
    b.range = ⟨start, s'.off⟩ ∧ nodeWF start s'.off b.toNode = true := by
  unfold parseKeyword at h
  simp only at h
  split at h
  · simp only [Res.bind_eq_ok] at h
    obtain ⟨o, s1, h1, h⟩ := h
    injection h with hx hy
    subst hx hy
    exact parseOpen_ok h1 hs hd
  · split at h
    · simp only [Res.bind_eq_ok] at h
      obtain ⟨o, s1, h1, h⟩ := h
      injection h with hx hy
      subst hx hy
      exact parseClose_ok h1 hs hd
    · split at h
      · simp only [Res.bind_eq_ok] at h
        obtain ⟨o, s1, h1, h⟩ := h
        injection h with hx hy
        subst hx hy
        exact parseAssertion_ok h1 hs hd
      · simp only [Res.bind_eq_ok] at h
        obtain ⟨o, s1, h1, h⟩ := h
        injection h with hx hy
        subst hx hy
        exact parsePrice_ok h1 hs hd

theorem parseDirectiveBody_ok {start : Nat} {addons : Addons} {s : St} {b : Body} {s' : St}
    (h : parseDirectiveBody start addons s = .ok b s') (hs : start ≤ s.off)
    (ha : nodesWF start s.off (optNode addons.range addons.toNode) = true) :
    b.range.stop = s'.off ∧ start ≤ b.range.start ∧ nodeWF start s'.off b.toNode = true := by
  unfold parseDirectiveBody at h
  simp only at h
  split at h
  · simp only [Res.bind_eq_ok] at h
    obtain ⟨i, s1, h1, h⟩ := h
    injection h with hx hy
    subst hx hy
    obtain ⟨e1, w1⟩ := parseInclude_ok h1
    simp only [Body.range, Body.toNode, e1]
    exact ⟨trivial, hs, nodeWF_mono w1 hs (Nat.le_refl _)⟩
  · simp only [Res.bind_eq_ok] at h
    obtain ⟨d, s1, h1, _, s2, h2, h⟩ := h
    have o1 := (parseDate_fwd _).2 _ _ h1
    have o2 := (readWhitespace1_fwd _).2 _ _ h2
    have e1 := parseDate_ok h1
    subst e1
    have hd : nodeWF start s2.off (Date.toNode ⟨⟨s.off, s1.off⟩⟩) = true := by
      simp only [Date.toNode, nodeWF_leaf]; omega
    split at h
    · simp only [Res.bind_eq_ok] at h
      obtain ⟨t, s3, h3, h⟩ := h
      injection h with hx hy
      subst hx hy
      have := parseTransaction_ok h3 (by omega) hd (by
        rw [nodesWF_iff] at ha ⊢
        intro c hc
        exact nodeWF_mono (ha c hc) (Nat.le_refl _) (by omega))
      simp only [Body.range, Body.toNode, this.1]
      exact ⟨trivial, Nat.le_refl _, this.2⟩
    · simp only [Res.bind_eq_ok] at h
      obtain ⟨⟨r, kw⟩, s3, h3, _, s4, h4, h⟩ := h
      have o3 := (readAlternative_fwd _ _).2 _ _ h3
      have o4 := (readWhitespace1_fwd _).2 _ _ h4
      have := parseKeyword_ok h (by omega) (nodeWF_mono hd (Nat.le_refl _) (by omega))
      rw [this.1]
      exact ⟨rfl, Nat.le_refl _, this.2⟩

end Knut.Syntax
