import Knut.Wire
import Knut.Model.Partition
import Knut.Spec.PartitionSpec
/-! Driver ops for C11 (calendar, partitions, alignment, monitors). -/
namespace Knut.Driver.C11
open Knut Knut.Wire

def ivOfNat : Nat → Option Interval
  | 0 => some .once | 1 => some .daily | 2 => some .weekly | 3 => some .monthly
  | 4 => some .quarterly | 5 => some .yearly | _ => none

def allIntervals : List Interval := [.once, .daily, .weekly, .monthly, .quarterly, .yearly]

def showPeriods (ps : List Period) : String :=
  ps.foldl (fun s p => s ++ s!" {p.start}:{p.stop}") ""

def parsePeriods (s : String) : Option (List Period) :=
  if s = "-" then some [] else
  (splitOn s ',').mapM (fun f =>
    match splitOn f ':' with
    | [a, b] => do let x ← parseInt a; let y ← parseInt b; pure (⟨x, y⟩ : Period)
    | _ => none)

def showOptInt : Option Int → String
  | some z => toString z
  | none => "none"

def handleStr (fields : List String) : String :=
  match fields with
  | ["cal", z] =>
    match parseInt z with
    | some z =>
      let base := s!"{Date.year z} {Date.month z} {Date.day z} {Date.weekday z}"
      let ss := allIntervals.foldl (fun s iv => s ++ s!" {startOf z iv}") ""
      let es := allIntervals.foldl (fun s iv => s ++ s!" {endOf z iv}") ""
      base ++ ss ++ es
    | none => "bad-op"
  | ["part", a, b, iv, last] =>
    match parseInt a, parseInt b, (iv.toNat?.bind ivOfNat), parseInt last with
    | some a, some b, some iv, some last =>
      match newPartition ⟨a, b⟩ iv last with
      | .ok p => "ok" ++ showPeriods p.periods
      | .panic _ => "panic"
    | _, _, _, _ => "bad-op"
  | ["align", a, b, iv, last, d] =>
    match parseInt a, parseInt b, (iv.toNat?.bind ivOfNat), parseInt last, parseInt d with
    | some a, some b, some iv, some last, some d =>
      match newPartition ⟨a, b⟩ iv last with
      | .ok p => showOptInt (p.align d)
      | .panic _ => "panic"
    | _, _, _, _, _ => "bad-op"
  | ["contains", a, b, iv, last, d] =>
    match parseInt a, parseInt b, (iv.toNat?.bind ivOfNat), parseInt last, parseInt d with
    | some a, some b, some iv, some last, some d =>
      match newPartition ⟨a, b⟩ iv last with
      | .ok p => toString (p.contains d)
      | .panic _ => "panic"
    | _, _, _, _, _ => "bad-op"
  | ["c11mon", a, b, iv, last, ps] =>
    match parseInt a, parseInt b, (iv.toNat?.bind ivOfNat), parseInt last, parsePeriods ps with
    | some a, some b, some iv, some last, some ps =>
      if Spec.partitionOK a b iv last ps then "ok" else "fail"
    | _, _, _, _, _ => "bad-op"
  | ["c11alignmon", b, ps, d, res] =>
    match parseInt b, parsePeriods ps, parseInt d with
    | some b, some ps, some d =>
      if showOptInt (Spec.alignSpec b ps d) = res then "ok" else s!"fail want {showOptInt (Spec.alignSpec b ps d)}"
    | _, _, _ => "bad-op"
  | _ => "no-such-op"

def handle (fields : List String) : Option String :=
  let r := handleStr fields
  if r = "no-such-op" then none else some r

end Knut.Driver.C11
