import Knut.Proofs.SyntaxRoundTrip
import Knut.Proofs.InferTree
/-!
# Print-then-parse for a formatter that edits the extracted fields (C15: the output of `infer` parses)

`Proofs/SyntaxRoundTrip.lean` replays the parser's main loop on the rendering of the run it made on the input. Here
the same replay is done for a run whose directive views were *replaced* by other well-formed, canonical views
(`setViews`): nothing in the replay depends on where a view came from (`ItemsR` is `ItemsOK` without the two
conditions that tie an item to the original text). `formatWith_roundtrip` assembles it for `formatWith edit`, for
every `edit` that maps well-formed fields to well-formed fields (`DirVOK`); with `edit = id` it is `roundtrip`.
-/
namespace Knut.Syntax
open Knut.Utf8 Knut.Spec.Syntax
set_option linter.unusedVariables false

/-- what the replay needs of a run: `ItemsOK` without the range of the directive and without
`viewDirective text d = some v.bytes` -/
def ItemsR : List Item → Prop
  | [] => True
  | .gap c w nl :: rest =>
    (c = [] ∨ CommentToks c) ∧ (c ≠ [] → w = []) ∧ All isWhitespace w ∧ NlOK nl ∧ Valid (c ++ (w ++ nl)) ∧
      Canon (c ++ (w ++ nl)) ∧ c ++ (w ++ nl) ≠ [] ∧ (nl = [] → rest = []) ∧ ItemsR rest
  | .dir D d v w nl :: rest =>
    v.ok ∧ v.canon ∧ All isWhitespace w ∧ NlOK nl ∧ Valid (w ++ nl) ∧ Canon (w ++ nl) ∧ (nl = [] → rest = []) ∧
      ItemsR rest

theorem ItemsOK.toR {text : Bytes} : ∀ {items : List Item} {off : Nat}, ItemsOK text off items → ItemsR items
  | [], _, _ => trivial
  | .gap c w nl :: rest, off, h => by
    unfold ItemsOK at h
    obtain ⟨h1, h2, h3, h4, h5, h6, h7, h8, h9⟩ := h
    unfold ItemsR
    exact ⟨h1, h2, h3, h4, h5, h6, h7, h8, h9.toR⟩
  | .dir D d v w nl :: rest, off, h => by
    unfold ItemsOK at h
    obtain ⟨_, _, vok, vcan, _, pw, onl, vr, cr, hlast, hrest⟩ := h
    unfold ItemsR
    exact ⟨vok, vcan, pw, onl, vr, cr, hlast, hrest.toR⟩

theorem outToks_headValidR {items : List Item} (padding : Nat) (h : ItemsR items) :
    HeadValid (outToks padding items) := by
  cases items with
  | nil => exact HeadValid.nil
  | cons i rest =>
    cases i with
    | gap c w nl =>
      unfold ItemsR at h
      obtain ⟨_, _, _, _, hv, _, hne, _, _⟩ := h
      simp only [outToks, Item.out]
      cases hc : c ++ (w ++ nl) with
      | nil => exact absurd hc hne
      | cons t ts =>
        rw [hc] at hv
        exact HeadValid.cons hv.head
    | dir D d v w nl =>
      unfold ItemsR at h
      obtain ⟨vok, _⟩ := h
      obtain ⟨t, r, e, ht⟩ := renderT_first padding v vok
      simp only [outToks, Item.out, e, List.cons_append]
      exact HeadValid.cons ht.1

theorem items_canonR {items : List Item} (padding : Nat) (h : ItemsR items) : Canon (outToks padding items) := by
  induction items with
  | nil => exact Canon.nil
  | cons i rest ih =>
    cases i with
    | gap c w nl =>
      unfold ItemsR at h
      obtain ⟨_, _, _, _, _, hc, _, _, hrest⟩ := h
      simp only [outToks, Item.out]
      exact hc.append (ih hrest)
    | dir D d v w nl =>
      unfold ItemsR at h
      obtain ⟨_, vcan, _, _, _, cr, _, hrest⟩ := h
      simp only [outToks, Item.out]
      exact ((canon_renderT padding v vcan).append cr).append (ih hrest)

/-- **replaying the main loop on the rendering of any well-formed run** (the proof of `fileLoop_replay`, which never
uses the two conditions `ItemsR` drops) -/
theorem fileLoop_replayR (padding : Nat) (path : String) (items : List Item)
    (hok : ItemsR items) (start2 : Nat) (acc2 : List Directive) (o2 : Nat) :
    ∃ items2 f2 s2', Rendered padding items items2 ∧
      fileLoop path start2 acc2 ⟨o2, outToks padding items⟩ = .ok f2 s2' ∧
      f2.directives = acc2.reverse ++ dirsOf items2 ∧
      ∀ text2, Good text2 ⟨o2, outToks padding items⟩ → ItemsOK text2 o2 items2 := by
  induction items generalizing acc2 o2 with
  | nil =>
    refine ⟨[], ⟨rng start2 ⟨o2, []⟩, acc2.reverse⟩, ⟨o2, []⟩, Rendered.nil, ?_, by simp [dirsOf], fun _ _ => by unfold ItemsOK; trivial⟩
    rw [fileLoop_eq]
    simp [outToks, atEOF]
  | cons i rest ih =>
    cases i with
    | gap c w nl =>
      unfold ItemsR at hok
      obtain ⟨hc, hcw, pw, onl, vall, call, hne, hlast, hrest⟩ := hok
      have hXv : HeadValid (outToks padding rest) := outToks_headValidR padding hrest
      have hlastX : nl = [] → outToks padding rest = [] := fun e => by rw [hlast e]; rfl
      obtain ⟨items2, f2, s2', hr, hrun, hdirs, hview⟩ := ih hrest acc2 (o2 + wsum c + wsum (w ++ nl))
      refine ⟨.gap c w nl :: items2, f2, s2', Rendered.gap c w nl hr, ?_, by simpa [dirsOf] using hdirs, ?_⟩
      · have e : outToks padding (.gap c w nl :: rest) = c ++ (w ++ (nl ++ outToks padding rest)) := by
          simp [outToks, Item.out]
        rw [e, fileLoop_eq]
        have hE : atEOF ⟨o2, c ++ (w ++ (nl ++ outToks padding rest))⟩ = false := by
          cases hcc : c ++ (w ++ nl) with
          | nil => exact absurd hcc hne
          | cons t ts =>
            have : c ++ (w ++ (nl ++ outToks padding rest)) = t :: (ts ++ outToks padding rest) := by
              have := congrArg (· ++ outToks padding rest) hcc
              simpa using this
            rw [this]; rfl
        rw [hE]
        simp only [Bool.false_eq_true, if_false]
        rcases hc with hc | hc
        · -- blank round
          subst hc
          have hfirst : ∃ t x, w ++ (nl ++ outToks padding rest) = t :: x ∧ isWhitespaceOrNewline t.r = true := by
            cases w with
            | cons a as =>
              exact ⟨a, _, rfl, by have := pw a List.mem_cons_self; simp [isWhitespaceOrNewline, this]⟩
            | nil =>
              rcases onl with rfl | ⟨t, rfl, ht⟩
              · exact absurd rfl hne
              · exact ⟨t, _, rfl, by rw [ht]; decide⟩
          obtain ⟨t, x, ex, ht⟩ := hfirst
          simp only [List.nil_append]
          rw [ex, fileItem_blank o2 t x ht, ← ex]
          simp only [Res.bind_ok, pushOpt]
          rw [rest_replay path start2 acc2 o2 w nl _ pw onl (by simpa using vall) hXv hlastX]
          simpa using hrun
        · -- comment round
          have hw := hcw (hc.first 0 []).2
          subst hw
          simp only [List.nil_append] at vall ⊢
          have hn : HeadNot (fun r => !isNewlineOrEOF r) (nl ++ outToks padding rest) := by
            rcases onl with rfl | ⟨t, rfl, ht⟩
            · rw [hlastX rfl]; exact HeadNot.nil
            · exact HeadNot.cons (by rw [ht]; decide)
          have hvx : HeadValid (nl ++ outToks padding rest) := HeadValid.append vall.right hXv
          rw [fileItem_comment hc vall.left o2 _ hvx hn]
          simp only [Res.bind_ok, pushOpt]
          have := rest_replay path start2 acc2 (o2 + wsum c) [] nl _ All.nil onl (by simpa using vall.right) hXv hlastX
          simp only [List.nil_append] at this
          rw [this]
          simpa using hrun
      · intro text2 hG
        have e : outToks padding (.gap c w nl :: rest) = (c ++ (w ++ nl)) ++ outToks padding rest := by
          simp [outToks, Item.out]
        rw [e] at hG
        have G2 := hG.step.2
        unfold ItemsOK
        refine ⟨hc, hcw, pw, onl, vall, call, hne, ?_, ?_⟩
        · intro e2
          have := hlast e2
          subst this
          cases hr
          rfl
        · have := hview text2 (by simpa [wsum_append, Nat.add_assoc] using G2)
          simpa [wsum_append, Nat.add_assoc] using this
    | dir D d v w nl =>
      unfold ItemsR at hok
      obtain ⟨vok, vcan, pw, onl, vr, cr, hlast, hrest⟩ := hok
      have hXv : HeadValid (outToks padding rest) := outToks_headValidR padding hrest
      have hlastX : nl = [] → outToks padding rest = [] := fun e => by rw [hlast e]; rfl
      have hgap := gapStart_of_rest w nl (outToks padding rest) pw onl vr hlastX
      obtain ⟨d2, off', hparse, hview2⟩ := parseDirective_complete padding v vok vcan o2 (w ++ (nl ++ outToks padding rest)) hgap
      have hoff : off' = o2 + wsum (renderT padding v) := by
        obtain ⟨cc, hc1, hc2⟩ := ext_of_ok (parseDirective_prog _).ext hparse
        simp only at hc1 hc2
        have := List.append_cancel_right hc1
        rw [hc2, ← this]
      subst hoff
      obtain ⟨items2, f2, s2', hr, hrun, hdirs, hview⟩ := ih hrest (d2 :: acc2) (o2 + wsum (renderT padding v) + wsum (w ++ nl))
      obtain ⟨t, rt, ert, hds⟩ := renderT_first padding v vok
      refine ⟨.dir (renderT padding v) d2 v w nl :: items2, f2, s2', Rendered.dir D d v w nl d2 hr, ?_,
        by rw [hdirs]; simp [dirsOf], ?_⟩
      · have e : outToks padding (.dir D d v w nl :: rest) = renderT padding v ++ (w ++ (nl ++ outToks padding rest)) := by
          simp [outToks, Item.out]
        rw [e, fileLoop_eq]
        have hE : atEOF ⟨o2, renderT padding v ++ (w ++ (nl ++ outToks padding rest))⟩ = false := by rw [ert]; rfl
        rw [hE]
        simp only [Bool.false_eq_true, if_false]
        have hfi : fileItem ⟨o2, renderT padding v ++ (w ++ (nl ++ outToks padding rest))⟩ =
            .ok (some d2) ⟨o2 + wsum (renderT padding v), w ++ (nl ++ outToks padding rest)⟩ := by
          have := fileItem_dir o2 t (rt ++ (w ++ (nl ++ outToks padding rest))) hds
          rw [ert] at hparse ⊢
          simp only [List.cons_append] at hparse ⊢
          rw [this, hparse]
          rfl
        rw [hfi]
        simp only [Res.bind_ok, pushOpt]
        rw [rest_replay path start2 (d2 :: acc2) _ w nl _ pw onl vr hXv hlastX]
        exact hrun
      · intro text2 hG
        have e : outToks padding (.dir D d v w nl :: rest) = renderT padding v ++ ((w ++ nl) ++ outToks padding rest) := by
          simp [outToks, Item.out]
        have hG' := hG
        rw [e] at hG'
        have G1 := hG'.step.2
        have G2 := G1.step.2
        unfold ItemsOK
        have e2 : outToks padding (.dir D d v w nl :: rest) = renderT padding v ++ (w ++ (nl ++ outToks padding rest)) := by
          simp [outToks, Item.out]
        refine ⟨?_, by rw [ert]; simp, vok, vcan, hview2 text2 (by rw [← e2]; exact hG), pw, onl, vr, cr, ?_, hview text2 G2⟩
        · have := (parseDirective_ok hparse).1
          simpa using this
        · intro e3
          have := hlast e3
          subst this
          cases hr
          rfl

/-! ### replacing the views of a run -/

/-- the run with the views of its directives replaced, in order -/
def setViews : List Item → List DirT → List Item
  | [], _ => []
  | .gap c w nl :: rest, vs => .gap c w nl :: setViews rest vs
  | .dir D d _ w nl :: rest, v :: vs => .dir D d v w nl :: setViews rest vs
  | .dir D d v w nl :: rest, [] => .dir D d v w nl :: setViews rest []

theorem setViews_nil_of_nil (vs : List DirT) : setViews [] vs = [] := by cases vs <;> rfl

theorem setViews_R : ∀ (items : List Item) (vs : List DirT), ItemsR items → vs.length = (viewsOf items).length →
    (∀ v ∈ vs, v.ok ∧ v.canon) → ItemsR (setViews items vs)
  | [], vs, _, _, _ => by rw [setViews_nil_of_nil]; trivial
  | .gap c w nl :: rest, vs, h, hl, hv => by
    unfold ItemsR at h
    obtain ⟨h1, h2, h3, h4, h5, h6, h7, h8, h9⟩ := h
    simp only [setViews]
    unfold ItemsR
    refine ⟨h1, h2, h3, h4, h5, h6, h7, ?_, setViews_R rest vs h9 (by simpa [viewsOf] using hl) hv⟩
    intro e; rw [h8 e, setViews_nil_of_nil]
  | .dir D d v w nl :: rest, [], h, hl, _ => by simp [viewsOf] at hl
  | .dir D d v w nl :: rest, v' :: vs, h, hl, hv => by
    unfold ItemsR at h
    obtain ⟨_, _, pw, onl, vr, cr, hlast, hrest⟩ := h
    simp only [setViews]
    unfold ItemsR
    refine ⟨(hv v' (by simp)).1, (hv v' (by simp)).2, pw, onl, vr, cr, ?_,
      setViews_R rest vs hrest (by simpa [viewsOf] using hl) (fun x hx => hv x (List.mem_cons_of_mem _ hx))⟩
    intro e; rw [hlast e, setViews_nil_of_nil]

theorem viewsOf_setViews : ∀ (items : List Item) (vs : List DirT), vs.length = (viewsOf items).length →
    viewsOf (setViews items vs) = vs
  | [], vs, hl => by
    rw [setViews_nil_of_nil]
    cases vs with
    | nil => rfl
    | cons _ _ => simp [viewsOf] at hl
  | .gap c w nl :: rest, vs, hl => by
    simp only [setViews, viewsOf]
    exact viewsOf_setViews rest vs (by simpa [viewsOf] using hl)
  | .dir D d v w nl :: rest, [], hl => by simp [viewsOf] at hl
  | .dir D d v w nl :: rest, v' :: vs, hl => by
    simp only [setViews, viewsOf]
    rw [viewsOf_setViews rest vs (by simpa [viewsOf] using hl)]

theorem gapBytes_setViews : ∀ (items : List Item) (vs : List DirT) (pre : List UInt8),
    gapBytes pre (setViews items vs) = gapBytes pre items
  | [], vs, pre => by rw [setViews_nil_of_nil]
  | .gap c w nl :: rest, vs, pre => by
    simp only [setViews, gapBytes]
    exact gapBytes_setViews rest vs _
  | .dir D d v w nl :: rest, [], pre => by
    simp only [setViews, gapBytes]
    rw [gapBytes_setViews rest [] _]
  | .dir D d v w nl :: rest, v' :: vs, pre => by
    simp only [setViews, gapBytes]
    rw [gapBytes_setViews rest vs _]

/-- the rendered run is its gaps interleaved with the renderings of its views -/
theorem out_interleave (p : Nat) : ∀ (items : List Item) (pre : List UInt8), (∀ v ∈ viewsOf items, v.canon) →
    pre ++ flat (outToks p items) =
      interleave (gapBytes pre items) ((viewsOf items).map fun v => renderDir p v.bytes)
  | [], pre, _ => by simp [outToks, gapBytes, viewsOf, interleave]
  | .gap c w nl :: rest, pre, h => by
    have ih := out_interleave p rest (pre ++ flat (c ++ (w ++ nl))) (by simpa [viewsOf] using h)
    simp only [outToks, Item.out, gapBytes, viewsOf, flat_append] at ih ⊢
    rw [← ih]
    simp
  | .dir D d v w nl :: rest, pre, h => by
    have ih := out_interleave p rest (flat (w ++ nl)) (fun x hx => h x (by simp [viewsOf, hx]))
    have hv := flat_renderT p v (h v (by simp [viewsOf]))
    simp only [outToks, Item.out, gapBytes, viewsOf, flat_append, List.map_cons, interleave] at ih ⊢
    rw [← ih, hv]
    simp

/-! ### well-formed extracted fields -/

/-- the extracted fields `w` are the bytes of well-formed, canonical token lists: what the parser hands to the
formatter, and what the formatter can print so that the parser reads the same fields again -/
def DirVOK (w : DirV) : Prop := ∃ vT : DirT, vT.ok ∧ vT.canon ∧ vT.bytes = w

theorem choose_views : ∀ ws : List DirV, (∀ w ∈ ws, DirVOK w) →
    ∃ wTs : List DirT, wTs.map DirT.bytes = ws ∧ ∀ v ∈ wTs, v.ok ∧ v.canon
  | [], _ => ⟨[], rfl, fun _ h => by cases h⟩
  | w :: ws, h => by
    obtain ⟨vT, h1, h2, h3⟩ := h w (by simp)
    obtain ⟨wTs, e, hall⟩ := choose_views ws (fun x hx => h x (List.mem_cons_of_mem _ hx))
    refine ⟨vT :: wTs, by simp [h3, e], ?_⟩
    intro v hv
    rcases List.mem_cons.mp hv with rfl | hv
    · exact ⟨h1, h2⟩
    · exact hall v hv

theorem viewsOf_ok {text : Bytes} : ∀ {items : List Item} {off : Nat}, ItemsOK text off items →
    ∀ v ∈ viewsOf items, v.ok ∧ v.canon
  | [], _, _, v, hv => by cases hv
  | .gap c w nl :: rest, off, h, v, hv => by
    unfold ItemsOK at h
    exact viewsOf_ok h.2.2.2.2.2.2.2.2 v (by simpa [viewsOf] using hv)
  | .dir D d v' w nl :: rest, off, h, v, hv => by
    unfold ItemsOK at h
    obtain ⟨_, _, vok, vcan, _, _, _, _, _, _, hrest⟩ := h
    simp only [viewsOf, List.mem_cons] at hv
    rcases hv with rfl | hv
    · exact ⟨vok, vcan⟩
    · exact viewsOf_ok hrest v hv

/-- a file that parses is a run of the main loop over its tokens -/
theorem parse_items {path : String} {text : Bytes} {f : File} (h : parseText path text = .ok f) :
    ∃ items, decodeAll text = origToks items ∧ f.directives = dirsOf items ∧ ItemsOK text 0 items := by
  unfold parseText at h
  split at h
  · cases h
  · rename_i u s0 hs
    have e0 := start_ok hs
    have hv0 := start_headValid hs
    subst e0
    split at h
    · rename_i f' s' hp
      injection h with h
      subst h
      unfold parseFile at hp
      obtain ⟨items, i1, i2, i3⟩ := fileLoop_items hp (good_start text) hv0
      simp only [List.reverse_nil, List.nil_append] at i2
      exact ⟨items, i1, i2, i3⟩
    · cases h

/-- **the fields the formatter extracts from a parsed file are well-formed** -/
theorem parsed_views_ok {path : String} {text : Bytes} {f : File} (h : parseText path text = .ok f) :
    ∃ vs, f.directives.mapM (viewDirective text) = some vs ∧ ∀ w ∈ vs, DirVOK w := by
  obtain ⟨items, _, i2, i3⟩ := parse_items h
  refine ⟨(viewsOf items).map DirT.bytes, by rw [i2]; exact items_views i3, ?_⟩
  intro w hw
  obtain ⟨v, hv, rfl⟩ := List.mem_map.mp hw
  exact ⟨v, (viewsOf_ok i3 v hv).1, (viewsOf_ok i3 v hv).2, rfl⟩

end Knut.Syntax

namespace Knut.Infer
open Knut Knut.Syntax Knut.Spec.Syntax Knut.Utf8

theorem paddingOf_eq_padOf (vs : List DirV) : paddingOf vs = padOf vs := rfl

/-- **print-then-parse for an editing formatter**: if `edit` maps well-formed fields to well-formed fields, then for
every text that parses `formatWith edit` succeeds, its output parses, the fields of the directives of the output are
exactly the edited fields of the input, the text between the directives is the input's, gap by gap, and the output
is a fixed point of `format`. -/
theorem formatWith_roundtrip {edit : DirV → DirV} (hedit : ∀ w, DirVOK w → DirVOK (edit w))
    {path : String} {text : Bytes} {f : File} (h : parseText path text = .ok f) :
    ∃ out f2 vs, formatWith edit text f = some out ∧ f.directives.mapM (viewDirective text) = some vs ∧
      (∀ w ∈ vs, DirVOK w) ∧
      parseText path out = .ok f2 ∧
      f2.directives.mapM (viewDirective out) = some (vs.map edit) ∧
      gapsOf out 0 (f2.directives.map (·.range)) = gapsOf text 0 (f.directives.map (·.range)) ∧
      format out f2 = some out := by
  obtain ⟨items, i1, i2, i3⟩ := parse_items h
  have hvs : f.directives.mapM (viewDirective text) = some ((viewsOf items).map DirT.bytes) := by
    rw [i2]; exact items_views i3
  have hvok : ∀ w ∈ (viewsOf items).map DirT.bytes, DirVOK w := by
    intro w hw
    obtain ⟨v, hv, rfl⟩ := List.mem_map.mp hw
    exact ⟨v, (viewsOf_ok i3 v hv).1, (viewsOf_ok i3 v hv).2, rfl⟩
  -- the edited fields, as token lists
  obtain ⟨wTs, hw1, hw2⟩ := choose_views (((viewsOf items).map DirT.bytes).map edit)
    (fun w hw => by
      obtain ⟨v, hv, rfl⟩ := List.mem_map.mp hw
      exact hedit v (hvok v hv))
  have hlen : wTs.length = (viewsOf items).length := by
    have := congrArg List.length hw1
    simpa using this
  let items' := setViews items wTs
  have hR : ItemsR items' := setViews_R items wTs i3.toR hlen hw2
  have hviews' : viewsOf items' = wTs := viewsOf_setViews items wTs hlen
  let padding := paddingOf (((viewsOf items).map DirT.bytes).map edit)
  -- the output of the editing formatter
  have hsome : (formatWith edit text f).isSome = true := by
    rw [formatWith_isSome]
    obtain ⟨out0, _, hf0, _⟩ := roundtrip h
    rw [hf0]; rfl
  obtain ⟨out, hout⟩ := Option.isSome_iff_exists.mp hsome
  obtain ⟨vs0, hv0, hshape⟩ := formatWith_shape hout
  rw [hvs] at hv0
  injection hv0 with hv0
  subst hv0
  have hG0 : Good text ⟨0, origToks items⟩ := by rw [← i1]; exact good_start text
  obtain ⟨_, hgaps⟩ := items_format (padding := padding) hG0 i3 0 (Nat.le_refl _)
  simp only [slice_self] at hgaps
  have hout_eq : out = flat (outToks padding items') := by
    have hi := out_interleave padding items' [] (by rw [hviews']; exact fun v hv => (hw2 v hv).2)
    simp only [List.nil_append] at hi
    rw [hi, hshape, i2, hgaps]
    show _ = interleave (gapBytes [] (setViews items wTs)) _
    have e : List.map (fun v => renderDir padding v.bytes) wTs = (wTs.map DirT.bytes).map (renderDir padding) := by
      simp [List.map_map, Function.comp_def]
    rw [gapBytes_setViews, hviews', e, hw1]
  -- the tokens of the output and the replay
  have hdec : decodeAll (flat (outToks padding items')) = outToks padding items' :=
    decodeAll_flat _ (items_canonR padding hR)
  obtain ⟨items2, f2, s2', hr, hrun, hdirs, hitems2⟩ := fileLoop_replayR padding path items' hR 0 [] 0
  simp only [List.reverse_nil, List.nil_append] at hdirs
  obtain ⟨r1, r2, r3, r4⟩ := hr.facts
  have hG2 : Good (flat (outToks padding items')) ⟨0, outToks padding items'⟩ := by
    have := good_start (flat (outToks padding items'))
    rwa [hdec] at this
  have i3' := hitems2 _ hG2
  have hparse2 : parseText path (flat (outToks padding items')) = .ok f2 := by
    unfold parseText
    rw [hdec, start_complete _ (outToks_headValidR padding hR)]
    simp only [parseFile, hrun]
  have hG2' : Good (flat (outToks padding items')) ⟨0, origToks items2⟩ := by rw [r1]; exact hG2
  obtain ⟨hfmt2, hgaps2⟩ := items_format (padding := padding) hG2' i3' 0 (Nat.le_refl _)
  simp only [slice_self, List.nil_append] at hfmt2 hgaps2
  have hviews2 : (viewsOf items2).map DirT.bytes = ((viewsOf items).map DirT.bytes).map edit := by
    rw [r3, hviews', hw1]
  refine ⟨out, f2, (viewsOf items).map DirT.bytes, hout, hvs, hvok, by rw [hout_eq]; exact hparse2, ?_, ?_, ?_⟩
  · rw [hout_eq, hdirs, items_views i3', hviews2]
  · rw [hout_eq, hdirs, i2, hgaps2, r4, gapBytes_setViews, hgaps]
  · have hpad : initPadding (flat (outToks padding items')) (dirsOf items2) = some padding := by
      rw [items_padding i3', hviews2]; rfl
    rw [hout_eq]
    simp only [format, hdirs, hpad, Option.bind_eq_bind, Option.bind_some]
    rw [hfmt2, r2]

end Knut.Infer
