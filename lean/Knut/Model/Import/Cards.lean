import Knut.Model.Import.Common
/-!
# Credit-card importers: `ch.swisscard2`, `ch.swisscard`, `ch.supercard`, `ch.cumulus`

One posting pair per booking row between the import account and `Expenses:TBD`.
-/
namespace Knut.Import
open Knut

/-- rows are processed in order; the first failing row decides the outcome -/
def mapRows (f : Rec → Res (List Directive)) : List Rec → Res (List Directive)
  | [] => .ok []
  | r :: rs => do
    let ds ← f r
    let ds' ← mapRows f rs
    pure (ds ++ ds')

/-! ## `ch.swisscard2` (cmd/importer/swisscard2) -/
namespace Swisscard2

/-- `readBooking`; the reader's `FieldsPerRecord = 12` -/
def row (acct : Account) (r : Rec) : Res (List Directive) :=
  if r.length ≠ 12 then .error else do
  let d ← Res.ofOption (parseDate layoutDMYdot (fldD r 0))
  let c ← mustCommodity (fldD r 4)
  let q ← Res.ofOption (newFromString (fldD r 5))
  let desc := joinWith " / " [fldD r 1, fldD r 2, fldD r 10, fldD r 3, fldD r 11, fldD r 8]
  pure [mkTx d desc [⟨acct, tbd, c, q⟩]]

/-- `parser.parse`: the header record is read and dropped (a missing header is `io.EOF`, returned as an error) -/
def run (acct : Account) : List Rec → Res (List Directive)
  | [] => .error
  | h :: rows => if h.length ≠ 12 then .error else mapRows (row acct) rows

end Swisscard2

/-! ## `ch.swisscard` (cmd/importer/swisscard) -/
namespace Swisscard

/-- `strings.NewReplacer("CHF", "", "'", "").Replace` -/
def stripChf : List Char → List Char
  | [] => []
  | 'C' :: 'H' :: 'F' :: rest => stripChf rest
  | '\'' :: rest => stripChf rest
  | c :: rest => c :: stripChf rest

/-- `parseBooking`; `n` is the field count of the first record (`FieldsPerRecord = 0`) -/
def row (acct : Account) (n : Nat) (r : Rec) : Res (List Directive) :=
  if r.length ≠ n then .error else do
  let f0 ← fld r 0
  if !dateRe f0 then pure [] else do
  let f1 ← fld r 1
  if !dateRe f1 then pure [] else
  if r.length ≠ 11 then .error else do
  let words := ([2, 4, 5, 6, 7, 8].map (fun i => trimSpace (fldD r i))).filter (fun s => s.utf8ByteSize > 0)
  let d ← Res.ofOption (parseDate layoutDMYdot f0)
  let q ← Res.ofOption (newFromString (String.ofList (stripChf (fldD r 3).toList)))
  pure [mkTx d (joinWith " " words) [⟨acct, tbd, "CHF", q⟩]]

def run (acct : Account) (recs : List Rec) : Res (List Directive) :=
  mapRows (row acct ((recs.head?.map List.length).getD 0)) recs

end Swisscard

/-! ## `ch.supercard` (cmd/importer/supercard) -/
namespace Supercard

/-- `parseAmount`: Gutschrift (field 11) counts positive, Belastung (field 10) negative -/
def amount (r : Rec) : Res Rat :=
  if (fldD r 11).utf8ByteSize > 0 then Res.ofOption (newFromString (fldD r 11))
  else if (fldD r 10).utf8ByteSize > 0 then (Res.ofOption (newFromString (fldD r 10))).bind (fun q => .ok (-q))
  else .error

/-- `readLine` after the two header records -/
def row (acct : Account) (r : Rec) : Res (List Directive) := do
  let text ← fld r 4
  if text = "Saldovortrag" then pure [] else
  if r.length = 11 || fldD r 0 = "" then pure [] else
  if r.length ≠ 13 then .error else do
  let words := collapseWs (joinWith " " [text, fldD r 5])
  let d ← Res.ofOption (parseDate layoutDMYdot (fldD r 3))
  let q ← amount r
  let c ← getCommodity (fldD r 9)
  pure [mkTx d words [⟨tbd, acct, c, q⟩]]

/-- `parse`: first record `sep=` with an empty second field, a header record of 13 fields, then rows -/
def run (acct : Account) : List Rec → Res (List Directive)
  | first :: header :: rows =>
    if first.length ≠ 2 then .error
    else if fldD first 0 ≠ "sep=" || fldD first 1 ≠ "" then .error
    else if header.length ≠ 13 then .error
    else mapRows (row acct) rows
  | [first] => if first.length ≠ 2 then .error else .error
  | [] => .error

end Supercard

/-! ## `ch.cumulus` (cmd/importer/cumulus) -/
namespace Cumulus

/-- a pending `transaction.Builder` (the description may still grow by FX comments) -/
structure Pending where
  date : Int
  desc : String
  quantity : Rat
  deriving Repr

/-- `parseAmount(creditField, debitField)`: exactly one of the two is non-empty -/
def amount (creditField debitField : String) : Res Rat :=
  if creditField.utf8ByteSize > 0 && debitField.utf8ByteSize == 0 then
    (Res.ofOption (parseDecimalApos creditField)).bind (fun q => .ok (-q))
  else if creditField.utf8ByteSize == 0 && debitField.utf8ByteSize > 0 then
    (Res.ofOption (parseDecimalApos debitField)).bind (fun q => .ok q)
  else .error

/-- `parseRounding`: `some` when the record is a rounding line -/
def rounding (r : Rec) : Res (Option Pending) := do
  if !dateRe (fldD r 0) then pure none else do
  let f1 ← fld r 1
  if f1 ≠ "Rundungskorrektur" then pure none else
  if r.length ≠ 4 then .error else do
  let d ← Res.ofOption (parseDate layoutDMYdot (fldD r 0))
  let q ← amount (fldD r 3) (fldD r 2)
  pure (some ⟨d, f1, q⟩)

/-- `parseFXComment` condition -/
def isFxComment (r : Rec) : Bool :=
  r.length = 5 && (fldD r 0).utf8ByteSize == 0 && (fldD r 1).utf8ByteSize == 0 && (fldD r 2).utf8ByteSize > 0 &&
    (fldD r 3).utf8ByteSize == 0 && (fldD r 4).utf8ByteSize == 0

/-- `parseBooking`: `some` when the record is a booking line -/
def booking (r : Rec) : Res (Option Pending) := do
  if !dateRe (fldD r 0) then pure none else do
  let f1 ← fld r 1
  if !dateRe f1 then pure none else
  if r.length ≠ 5 then .error else do
  let d ← Res.ofOption (parseDate layoutDMYdot (fldD r 0))
  let q ← amount (fldD r 4) (fldD r 3)
  pure (some ⟨d, fldD r 2, q⟩)

/-- append the comment to the description of the last pending transaction -/
def addComment (c : String) : List Pending → Option (List Pending)
  | [] => none
  | [p] => some [{ p with desc := p.desc ++ " " ++ c }]
  | p :: q :: rest => (addComment c (q :: rest)).map (p :: ·)

/-- `readLine` -/
def step (ps : List Pending) (r : Rec) : Res (List Pending) := do
  match ← rounding r with
  | some p => pure (ps ++ [p])
  | none =>
    if isFxComment r then Res.ofOption (addComment (fldD r 2) ps) else
    match ← booking r with
    | some p => pure (ps ++ [p])
    | none => pure ps

def steps : List Pending → List Rec → Res (List Pending)
  | ps, [] => .ok ps
  | ps, r :: rs => (step ps r).bind (fun ps' => steps ps' rs)

def toTx (acct : Account) (p : Pending) : Directive := mkTx p.date p.desc [⟨tbd, acct, "CHF", p.quantity⟩]

def run (acct : Account) (recs : List Rec) : Res (List Directive) :=
  (steps [] recs).bind (fun ps => .ok (ps.map (toTx acct)))

end Cumulus

end Knut.Import
