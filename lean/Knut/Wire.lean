/-! Line protocol helpers for the driver (core only). -/
namespace Knut.Wire

def hexVal (c : Char) : Option Nat :=
  if '0' ≤ c ∧ c ≤ '9' then some (c.toNat - '0'.toNat)
  else if 'a' ≤ c ∧ c ≤ 'f' then some (c.toNat - 'a'.toNat + 10)
  else if 'A' ≤ c ∧ c ≤ 'F' then some (c.toNat - 'A'.toNat + 10)
  else none

def unhexBytes (s : String) : Option ByteArray :=
  if s = "-" then some ByteArray.empty else
  let rec go (cs : List Char) (acc : ByteArray) : Option ByteArray :=
    match cs with
    | [] => some acc
    | [_] => none
    | a :: b :: rest =>
      match hexVal a, hexVal b with
      | some x, some y => go rest (acc.push (UInt8.ofNat (x * 16 + y)))
      | _, _ => none
  go s.toList ByteArray.empty

def hexDigit (n : Nat) : Char := if n < 10 then Char.ofNat (n + 48) else Char.ofNat (n - 10 + 97)

def hexBytes (b : ByteArray) : String :=
  if b.size = 0 then "-" else
  b.foldl (fun s x => (s.push (hexDigit (x.toNat / 16))).push (hexDigit (x.toNat % 16))) ""

def hexStr (s : String) : String := hexBytes s.toUTF8

def unhexStr (s : String) : Option String := do
  let b ← unhexBytes s
  String.fromUTF8? b

def parseInt (s : String) : Option Int := s.toInt?

def splitOn (s : String) (sep : Char) : List String := (s.split (· == sep)).toList.map (·.toString)

end Knut.Wire
