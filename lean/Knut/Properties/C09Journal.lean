import Knut.Proofs.PrintCommands
import Knut.Properties.C09Text
/-!
# C09 (command level) — `knut print` output is accepted, printed again unchanged, and reports the same

With `C09_text_journal_fixpoint` (`Properties/C09Text.lean`) the three clauses of the property hold for the commands as
modelled on a journal that is one file (`printFile`: load with the parser model and the elaboration, build, check,
print; `BalanceCmd.run`: `knut balance` with any flags):

* `C09_print_accepted` – the printed text of a printable journal loads, and the checker's verdict on the reloaded
  journal is the verdict on the original (C05 machinery: the reloaded journal has the same days, transactions in sort
  order);
* `C09_print_fixpoint`, `C09_print_idempotent` – `knut print` of the printed text of an accepted printable journal is
  that text; `print` is idempotent on its own output, byte for byte (`C09_print_idempotent_bytes`);
* `C09_reports_equal` – every balance report (any flag vector, valued or not, no restriction on the price directives:
  `print` keeps their order within a day) of the reloaded journal equals the one of the original.

"Printable" (`PrintableDir`, `PrintableJournal`, decidable) is what the journal syntax can carry: dates 0001..9999, names
of Unicode letters and digits, decimal amounts, assertions with at least one balance, descriptions without a double
quote, transactions as `transaction.Create` builds them.
-/
namespace Knut.C09
open Knut Knut.FromSyntax Knut.JournalPrinter Knut.Utf8

/-- **`print` output is accepted iff the journal is**: the printed text loads and the checker gives the same verdict -/
theorem C09_print_accepted (path : String) (j : List Day) (hp : PrintableJournal j) :
    ∃ ds, loadText path (strBytes (print j)) = .ok ds ∧
      (Check.run (Builder.ofList ds).build).isOk = (Check.run j).isOk := by
  refine ⟨journalDirs j, load_print path j hp.dirs, ?_⟩
  rw [rebuild j hp.shape]
  exact check_normDays j

/-- **`knut print` reproduces its own output**: on the printed text of an accepted printable journal the command prints
that text -/
theorem C09_print_fixpoint (path : String) (j : List Day) (hp : PrintableJournal j) (hacc : (Check.run j).isOk = true) :
    printFile path (strBytes (print j)) = .ok (print j) := printFile_fixpoint path j hp hacc

/-- a rejected journal stays rejected after printing (the printed text loads, the checker refuses it) -/
theorem C09_print_rejected (path : String) (j : List Day) (hp : PrintableJournal j) (hrej : (Check.run j).isOk = false) :
    printFile path (strBytes (print j)) = .error "processing" := by
  unfold printFile
  rw [load_print path j hp.dirs]
  simp only
  have h1 := check_normDays j
  rw [hrej, ← rebuild j hp.shape] at h1
  cases hc : Check.run (Builder.ofList (journalDirs j)).build with
  | error e => rfl
  | ok st => rw [hc] at h1; cases h1

/-- **`print` is idempotent on its own output**: if `knut print` succeeds on a text whose directives are printable, then
`knut print` on the output gives the output again -/
theorem C09_print_idempotent (path path' : String) (text : List UInt8) (ds : List Directive)
    (hl : loadText path text = .ok ds) (hp : ∀ x ∈ ds, PrintableDir x) (out : String)
    (h : printFile path text = .ok out) : printFile path' (strBytes out) = .ok out := by
  unfold printFile at h
  rw [hl] at h
  simp only at h
  cases hc : Check.run (Builder.ofList ds).build with
  | error e => rw [hc] at h; cases h
  | ok st =>
    rw [hc] at h
    simp only [CmdOutcome.ok.injEq] at h
    subst h
    exact C09_print_fixpoint path' _ (printable_built ds hp) (by rw [hc]; rfl)

/-- the same as byte strings: the second run writes the bytes of the first -/
theorem C09_print_idempotent_bytes (path path' : String) (text : List UInt8) (ds : List Directive)
    (hl : loadText path text = .ok ds) (hp : ∀ x ∈ ds, PrintableDir x) (out : String)
    (h : printFile path text = .ok out) :
    ∃ out', printFile path' (strBytes out) = .ok out' ∧ strBytes out' = strBytes out :=
  ⟨out, C09_print_idempotent path path' text ds hl hp out h, rfl⟩

/-- **every balance report of the reloaded journal equals the one of the original**: for every flag vector (periods,
`--val`, `--close`, mappings, filters, …) `knut balance` prints the same bytes, or fails alike, on the directives
loaded from the printed text and on the directives the journal was built from -/
theorem C09_reports_equal (f : BalanceFlags) (path : String) (ds0 : List Directive) (hp : ∀ x ∈ ds0, PrintableDir x) :
    ∃ ds, loadText path (strBytes (print (Builder.ofList ds0).build)) = .ok ds ∧
      BalanceCmd.run f ds = BalanceCmd.run f ds0 :=
  ⟨printedDirs ds0, load_print path _ (printable_built ds0 hp).dirs, balance_printed f ds0 hp⟩

/-- … and so does the check verdict -/
theorem C09_verdict_equal (path : String) (ds0 : List Directive) (hp : ∀ x ∈ ds0, PrintableDir x) :
    ∃ ds, loadText path (strBytes (print (Builder.ofList ds0).build)) = .ok ds ∧
      (Check.run (Builder.ofList ds).build).isOk = (Check.run (Builder.ofList ds0).build).isOk :=
  C09_print_accepted path _ (printable_built ds0 hp)

/-! ## Non-vacuity: the three-day journal of `C09Text.lean` -/

/-- its directives in file order -/
def exDirs : List Directive := exJournal.flatMap rawDirs

theorem exDirs_printable : ∀ x ∈ exDirs, PrintableDir x := by decide +kernel

theorem exJournal_accepted : (Check.run exJournal).isOk = true := by decide +kernel

example : printFile "j" (strBytes (print exJournal)) = .ok (print exJournal) :=
  C09_print_fixpoint "j" exJournal exJournal_printable exJournal_accepted

/-- a monthly report valued in CHF with closing entries -/
def exFlags : BalanceFlags := { to := 737500, interval := .monthly, valuation := some "CHF", close := true }

/-- the builder makes the three days of them, and the (unvalued) pipeline succeeds with 8 report entries -/
example : (Builder.ofList exDirs).build = exJournal := by decide +kernel
example : (match BalanceCmd.entries { exFlags with valuation := none } exDirs with
    | .ok (es, _) => decide (es.length = 8) | _ => false) = true := by decide +kernel

example : ∃ ds, loadText "j" (strBytes (print (Builder.ofList exDirs).build)) = .ok ds ∧
    BalanceCmd.run exFlags ds = BalanceCmd.run exFlags exDirs := C09_reports_equal exFlags "j" exDirs exDirs_printable

end Knut.C09
