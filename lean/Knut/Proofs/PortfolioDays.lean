import Knut.Proofs.PortfolioBalance
/-! Lemmas for C20: the two commands build their day lists from the same journal but register different additional
(empty) days before `Build` — `portfolio` the period ends, `balance` (with closing) the period starts.  An empty day
changes nothing the portfolio pipeline records, so the values at a date do not depend on which empty days exist. -/
namespace Knut.Performance
open Knut Knut.MTM

/-! ### an empty day is a no-op of the portfolio pipeline -/

/-- the day `Builder.Days` creates for a date that has none -/
def emptyDay (x : Int) : Day := { date := x }

theorem checkDay_empty (st : CheckState) (x : Int) : Check.day st (emptyDay x) = .ok st := rfl

theorem addQty_nil (q : AMap Position Rat) : Balance.addQty q [] = q := rfl

/-- `ComputePrices, check, Valuate` on an empty day, from a state at a day boundary (`vPrev = norm`): if they succeed,
nothing is booked and the state is the same -/
theorem valuedDay_empty {cfg : Cfg} {st st' : BalState} {txs : List Transaction} (x : Int)
    (hb : st.vPrev = st.norm) (h : valuedDay cfg st (emptyDay x) = .ok (st', txs)) : st' = st ∧ txs = [] := by
  unfold valuedDay at h
  cases hv : cfg.valuation with
  | none =>
    rw [hv] at h
    simp only [bind, Except.bind, Balance.checkStage, checkDay_empty] at h
    injection h with h; injection h with h1 h2
    exact ⟨h1.symm, h2.symm⟩
  | some v =>
    rw [hv] at h
    have hp : Balance.pricesDay v st (emptyDay x) = .ok st := rfl
    simp only [bind, Except.bind, hp, Balance.checkStage, checkDay_empty] at h
    unfold Balance.valuateDay at h
    simp only [bind, Except.bind] at h
    cases ha : Balance.adjustments v (emptyDay x).date st.vPrev st.norm st.vQty with
    | error e => rw [ha] at h; cases h
    | ok adj =>
      rw [ha] at h; simp only at h
      have hadj : adj = [] := by
        rw [hb] at ha
        exact adjustments_same_prices v _ _ _ adj ha
      subst hadj
      have he : (emptyDay x).transactions ++ [] = [] := rfl
      rw [he] at h
      simp only [List.mapM_nil, pure, Except.pure, addQty_nil] at h
      injection h with h; injection h with h1 h2
      refine ⟨?_, h2.symm⟩
      rw [← h1, ← hb]
      obtain ⟨a1, a2, a3, a4, a5, a6, a7, a8⟩ := st
      simp only at hb ⊢
      rw [hb]

/-- the part of `Reach` an empty day needs -/
structure Boundary (ps : PState) : Prop where
  prev_values : ps.prev = ps.values
  vprev : ps.bal.vPrev = ps.bal.norm

theorem boundary_empty : Boundary {} := ⟨rfl, rfl⟩

theorem perfDay_boundary {cfg : Cfg} {ps ps' : PState} {d : Day} {p : DayPerf}
    (h : perfDay cfg ps d = .ok (ps', p)) (hb : Boundary ps) : Boundary ps' := by
  obtain ⟨txs, hv, _, hprev, _⟩ := perfDay_parts h
  refine ⟨hprev, ?_⟩
  cases hval : cfg.valuation with
  | none =>
    obtain ⟨_, _, g3, g4, _⟩ := valuedDay_none hval hv
    rw [g3, g4]; exact hb.vprev
  | some v =>
    obtain ⟨s1, adj, _, _, _, _, e5, e6, _⟩ := valuedDay_some hval hv
    rw [e5, e6]

theorem perfDay_empty {cfg : Cfg} {ps ps' : PState} {p : DayPerf} (x : Int) (hb : Boundary ps)
    (h : perfDay cfg ps (emptyDay x) = .ok (ps', p)) : ps' = ps ∧ p.v1 = ps.values ∧ p.date = x := by
  obtain ⟨txs, hv, hvals, hprev, hd, _, hv1⟩ := perfDay_parts h
  obtain ⟨e1, e2⟩ := valuedDay_empty x hb.vprev hv
  subst e2
  have hvals' : ps'.values = ps.values := hvals
  refine ⟨?_, by rw [hv1, hvals'], hd⟩
  obtain ⟨bal', values', prev'⟩ := ps'
  obtain ⟨bal, values, prev⟩ := ps
  simp only at e1 hvals' hprev
  have := hb.prev_values
  simp only at this
  subst e1; subst hvals'; subst hprev; subst this
  rfl

/-! ### day lists that differ by empty days -/

/-- two day lists with the same non-empty days in the same order, each with additional empty days -/
inductive EmptyExt : List Day → List Day → Prop
  | nil : EmptyExt [] []
  | both (d : Day) {l1 l2 : List Day} : EmptyExt l1 l2 → EmptyExt (d :: l1) (d :: l2)
  | left (x : Int) {l1 l2 : List Day} : EmptyExt l1 l2 → EmptyExt (emptyDay x :: l1) l2
  | right (x : Int) {l1 l2 : List Day} : EmptyExt l1 l2 → EmptyExt l1 (emptyDay x :: l2)

theorem EmptyExt.refl : ∀ (l : List Day), EmptyExt l l
  | [] => .nil
  | d :: rest => .both d (EmptyExt.refl rest)

theorem EmptyExt.insert_left {l1 l2 : List Day} (h : EmptyExt l1 l2) (x : Int) : EmptyExt (insertDay l1 x) l2 := by
  induction h with
  | nil => exact .left x .nil
  | both d h' ih =>
    unfold insertDay
    split
    · exact .left x (.both d h')
    · split
      · exact .both d h'
      · exact .both d ih
  | left y h' ih =>
    unfold insertDay
    split
    · exact .left x (.left y h')
    · split
      · exact .left y h'
      · exact .left y ih
  | right y h' ih => exact .right y ih

theorem EmptyExt.insert_right {l1 l2 : List Day} (h : EmptyExt l1 l2) (x : Int) : EmptyExt l1 (insertDay l2 x) := by
  induction h with
  | nil => exact .right x .nil
  | both d h' ih =>
    unfold insertDay
    split
    · exact .right x (.both d h')
    · split
      · exact .both d h'
      · exact .both d ih
  | left y h' ih => exact .left y ih
  | right y h' ih =>
    unfold insertDay
    split
    · exact .right x (.right y h')
    · split
      · exact .right y h'
      · exact .right y ih

/-- registering dates on either side of the same base -/
theorem emptyExt_ensure (base : List Day) : ∀ (xs ys : List Int),
    EmptyExt (xs.foldl insertDay base) (ys.foldl insertDay base) := by
  have hl : ∀ (xs : List Int) (l1 l2 : List Day), EmptyExt l1 l2 → EmptyExt (xs.foldl insertDay l1) l2 := by
    intro xs
    induction xs with
    | nil => intro l1 l2 h; exact h
    | cons x rest ih => intro l1 l2 h; exact ih _ _ (h.insert_left x)
  have hr : ∀ (ys : List Int) (l1 l2 : List Day), EmptyExt l1 l2 → EmptyExt l1 (ys.foldl insertDay l2) := by
    intro ys
    induction ys with
    | nil => intro l1 l2 h; exact h
    | cons y rest ih => intro l1 l2 h; exact ih _ _ (h.insert_right y)
  intro xs ys
  exact hl xs _ _ (hr ys _ _ (EmptyExt.refl base))

/-! ### the values do not depend on the empty days -/

theorem filter_le_nil_of_sorted (p : DayPerf) (rest : List DayPerf) (hs : DSorted (p :: rest)) (D : Int)
    (h : ¬ p.date ≤ D) : rest.filter (fun q => decide (q.date ≤ D)) = [] := by
  unfold DSorted at hs
  rw [List.pairwise_cons] at hs
  rw [List.filter_eq_nil_iff]
  intro q hq
  have := hs.1 q hq
  simp; omega

theorem perfFrom_cons {cfg : Cfg} {ps : PState} {d : Day} {rest : List Day} {perfs : List DayPerf}
    (h : perfFrom cfg ps (d :: rest) = .ok perfs) :
    ∃ ps1 p perfs', perfDay cfg ps d = .ok (ps1, p) ∧ perfFrom cfg ps1 rest = .ok perfs' ∧ perfs = p :: perfs' := by
  simp only [perfFrom, bind, Except.bind] at h
  cases hd0 : perfDay cfg ps d with
  | error e => rw [hd0] at h; cases h
  | ok r =>
    obtain ⟨ps1, p⟩ := r
    rw [hd0] at h; simp only at h
    cases hrr : perfFrom cfg ps1 rest with
    | error e => rw [hrr] at h; cases h
    | ok perfs' =>
      rw [hrr] at h; simp only at h
      injection h with h
      exact ⟨ps1, p, perfs', rfl, hrr, h.symm⟩

/-- **the values at a date do not depend on which empty days the list holds** -/
theorem perf_emptyExt {cfg : Cfg} {l1 l2 : List Day} (h : EmptyExt l1 l2) :
    ∀ (ps : PState) (perfs1 perfs2 : List DayPerf), Boundary ps →
      perfFrom cfg ps l1 = .ok perfs1 → perfFrom cfg ps l2 = .ok perfs2 → DSorted perfs1 → DSorted perfs2 →
      ∀ D, lastV1 ps.values (perfs1.filter (fun q => decide (q.date ≤ D))) =
        lastV1 ps.values (perfs2.filter (fun q => decide (q.date ≤ D))) := by
  induction h with
  | nil =>
    intro ps perfs1 perfs2 _ h1 h2 _ _ D
    simp only [perfFrom] at h1 h2
    injection h1 with h1; injection h2 with h2
    subst h1; subst h2; rfl
  | both d h' ih =>
    intro ps perfs1 perfs2 hb h1 h2 s1 s2 D
    obtain ⟨ps1, p, r1, hd1, hr1, rfl⟩ := perfFrom_cons h1
    obtain ⟨ps2, p2, r2, hd2, hr2, rfl⟩ := perfFrom_cons h2
    rw [hd1] at hd2
    injection hd2 with hd2; injection hd2 with e1 e2
    subst e1; subst e2
    have hv1 : p.v1 = ps1.values := by
      obtain ⟨_, _, _, _, _, _, q⟩ := perfDay_parts hd1
      exact q
    have t1 : DSorted r1 := (List.pairwise_cons.mp s1).2
    have t2 : DSorted r2 := (List.pairwise_cons.mp s2).2
    by_cases hle : p.date ≤ D
    · simp only [List.filter_cons, hle, decide_true, if_true, lastV1]
      rw [hv1]
      exact ih ps1 r1 r2 (perfDay_boundary hd1 hb) hr1 hr2 t1 t2 D
    · simp only [List.filter_cons, hle, decide_false, Bool.false_eq_true, if_false]
      rw [filter_le_nil_of_sorted p r1 s1 D hle, filter_le_nil_of_sorted p r2 s2 D hle]
  | left x h' ih =>
    intro ps perfs1 perfs2 hb h1 h2 s1 s2 D
    obtain ⟨ps1, p, r1, hd1, hr1, rfl⟩ := perfFrom_cons h1
    obtain ⟨e1, e2, e3⟩ := perfDay_empty x hb hd1
    subst e1
    have t1 : DSorted r1 := (List.pairwise_cons.mp s1).2
    by_cases hle : p.date ≤ D
    · simp only [List.filter_cons, hle, decide_true, if_true, lastV1]
      rw [e2]
      exact ih ps1 r1 perfs2 hb hr1 h2 t1 s2 D
    · simp only [List.filter_cons, hle, decide_false, Bool.false_eq_true, if_false]
      exact ih ps1 r1 perfs2 hb hr1 h2 t1 s2 D
  | right x h' ih =>
    intro ps perfs1 perfs2 hb h1 h2 s1 s2 D
    obtain ⟨ps1, p, r2, hd2, hr2, rfl⟩ := perfFrom_cons h2
    obtain ⟨e1, e2, e3⟩ := perfDay_empty x hb hd2
    subst e1
    have t2 : DSorted r2 := (List.pairwise_cons.mp s2).2
    by_cases hle : p.date ≤ D
    · simp only [List.filter_cons, hle, decide_true, if_true, lastV1]
      rw [e2]
      exact ih ps1 perfs1 r2 hb h1 hr2 s1 t2 D
    · simp only [List.filter_cons, hle, decide_false, Bool.false_eq_true, if_false]
      exact ih ps1 perfs1 r2 hb h1 hr2 s1 t2 D

/-! ### the balance pipeline accepts ⇒ the portfolio pipeline accepts -/

theorem stages_lockstep_rev {cfg : Cfg} {b : BalCfg} {v : Commodity} (hm : Matches cfg b v)
    {pb st c1 st1 : BalState} {d : Day} {txs : List Transaction} (hs : SameSt pb st)
    (hc : Balance.checkStage st d = .ok c1) (hv : Balance.valuationStage b c1 d = .ok (st1, txs)) :
    ∃ pb', valuedDay cfg pb d = .ok (pb', txs) := by
  obtain ⟨e1, e2, e3, e4, e5⟩ := hs
  obtain ⟨chk, graph, norm, vPrev, vQty, cQty, cVal, entries⟩ := st
  obtain ⟨chk', graph', norm', vPrev', vQty', cQty', cVal', entries'⟩ := pb
  simp only at e1 e2 e3 e4 e5
  subst e1; subst e2; subst e3; subst e4; subst e5
  unfold Balance.checkStage at hc
  simp only at hc
  split at hc
  · rename_i ck hck
    injection hc with hc; subst hc
    unfold Balance.valuationStage at hv
    rw [hm.bval] at hv
    simp only [bind, Except.bind] at hv
    cases hp : Balance.pricesDay v ⟨ck, graph, norm, vPrev, vQty, cQty, cVal, entries⟩ d with
    | error e => rw [hp] at hv; cases hv
    | ok c2 =>
      rw [hp] at hv; simp only at hv
      unfold Balance.pricesDay at hp
      simp only [bind, Except.bind] at hp
      split at hp
      · cases hp
      · rename_i g hg
        injection hp with hp; subst hp
        unfold Balance.valuateDay at hv
        simp only [bind, Except.bind] at hv
        split at hv
        · cases hv
        · rename_i adj hadj
          split at hv
          · cases hv
          · rename_i txsv hmap
            injection hv with hv; injection hv with h1 h2; subst h1; subst h2
            refine ⟨⟨ck, g, if d.prices.isEmpty then norm else some (Prices.normalize g v),
              if d.prices.isEmpty then norm else some (Prices.normalize g v),
              Balance.addQty vQty (d.transactions ++ adj), cQty', cVal', entries'⟩, ?_⟩
            unfold valuedDay
            rw [hm.val]
            simp only [bind, Except.bind]
            unfold Balance.pricesDay
            simp only [bind, Except.bind, hg]
            unfold Balance.checkStage
            simp only [hck]
            unfold Balance.valuateDay
            simp only [bind, Except.bind, hadj, hmap]
  · cases hc

theorem day_stages {b : BalCfg} {st st' : BalState} {d : Day} (h : Balance.day b st d = .ok st') :
    ∃ c1 st1 txs, Balance.checkStage st d = .ok c1 ∧ Balance.valuationStage b c1 d = .ok (st1, txs) := by
  unfold Balance.day Balance.dayTxs at h
  simp only [bind, Except.bind] at h
  cases hc : Balance.checkStage st d with
  | error e => rw [hc] at h; cases h
  | ok c1 =>
    rw [hc] at h; simp only at h
    cases hv : Balance.valuationStage b c1 d with
    | error e => rw [hv] at h; cases h
    | ok r => exact ⟨c1, r.1, r.2, rfl, hv⟩

theorem perfDay_of_valuedDay {cfg : Cfg} {ps : PState} {d : Day} {pb' : BalState} {txs : List Transaction}
    (hv : valuedDay cfg ps.bal d = .ok (pb', txs)) : ∃ ps1 p, perfDay cfg ps d = .ok (ps1, p) ∧ ps1.bal = pb' := by
  unfold perfDay
  simp only [bind, Except.bind, hv]
  exact ⟨_, _, rfl, rfl⟩

/-- **if `knut balance -v` accepts the days, so does the portfolio pipeline** -/
theorem balance_run_rev {cfg : Cfg} {b : BalCfg} {v : Commodity} (hm : Matches cfg b v) :
    ∀ (days : List Day) (ps : PState) (st stF : BalState), SameSt ps.bal st → CloseInv st →
      (∀ d ∈ days, ∀ t ∈ d.transactions, t.date = d.date) →
      days.foldlM (Balance.day b) st = .ok stF → ∃ perfs, perfFrom cfg ps days = .ok perfs := by
  intro days
  induction days with
  | nil => intro ps st stF _ _ _ _; exact ⟨[], rfl⟩
  | cons d rest ih =>
    intro ps st stF hs hinv hdates h
    rw [List.foldlM_cons] at h
    cases hday : Balance.day b st d with
    | error e => rw [hday] at h; cases h
    | ok st' =>
      rw [hday] at h
      simp only [bind, Except.bind] at h
      obtain ⟨c1, st1, txs, hc, hv⟩ := day_stages hday
      obtain ⟨pb', hvd⟩ := stages_lockstep_rev hm hs hc hv
      obtain ⟨ps1, p, hpd, hbal⟩ := perfDay_of_valuedDay hvd
      obtain ⟨st'', E, hday', hs', hinv', _, _⟩ := balance_day hm hs hinv (hdates d List.mem_cons_self) hvd
      rw [hday] at hday'
      injection hday' with e; subst e
      obtain ⟨perfs', hrest⟩ := ih ps1 st' stF (by rw [hbal]; exact hs') hinv'
        (fun d' hd' => hdates d' (List.mem_cons_of_mem _ hd')) h
      refine ⟨p :: perfs', ?_⟩
      simp only [perfFrom, bind, Except.bind, hpd, hrest]

/-! ### the days the builder makes -/

theorem findDay_of_mem : ∀ {days : List Day}, Sorted days → ∀ {d : Day}, d ∈ days → findDay days d.date = some d := by
  intro days
  induction days with
  | nil => intro _ d hd; cases hd
  | cons x rest ih =>
    intro hs d hd
    unfold Sorted at hs
    rw [List.pairwise_cons] at hs
    unfold findDay
    rw [List.find?_cons]
    rcases List.mem_cons.mp hd with rfl | hd
    · simp
    · have := hs.1 d hd
      have hne : ¬ x.date = d.date := by omega
      simp only [hne, decide_false]
      exact ih hs.2 hd

theorem mem_insertDay : ∀ (days : List Day) (x : Int) (d : Day), d ∈ insertDay days x → d ∈ days ∨ d = emptyDay x := by
  intro days
  induction days with
  | nil => intro x d hd; simp only [insertDay, List.mem_singleton] at hd; exact Or.inr hd
  | cons y rest ih =>
    intro x d hd
    unfold insertDay at hd
    split at hd
    · rcases List.mem_cons.mp hd with rfl | hd
      · exact Or.inr rfl
      · exact Or.inl hd
    · split at hd
      · exact Or.inl hd
      · rcases List.mem_cons.mp hd with rfl | hd
        · exact Or.inl List.mem_cons_self
        · rcases ih x d hd with h | h
          · exact Or.inl (List.mem_cons_of_mem _ h)
          · exact Or.inr h

theorem mem_ensure : ∀ (dates : List Int) (base : List Day) (d : Day), d ∈ dates.foldl insertDay base →
    d ∈ base ∨ ∃ x, d = emptyDay x := by
  intro dates
  induction dates with
  | nil => intro base d hd; exact Or.inl hd
  | cons x rest ih =>
    intro base d hd
    rcases ih (insertDay base x) d hd with h | h
    · rcases mem_insertDay base x d h with h | h
      · exact Or.inl h
      · exact Or.inr ⟨x, h⟩
    · exact Or.inr h

theorem add_min_le (b : Builder) (x : Directive) : (b.add x).min ≤ b.min := by
  unfold Builder.add
  cases x <;> simp only [Int.le_refl]
  split <;> omega

theorem add_min_tx (b : Builder) (t : Transaction) : (b.add (.tx t)).min ≤ t.date := by
  unfold Builder.add
  simp only
  split <;> omega

theorem foldl_add_min_le : ∀ (ds : List Directive) (b : Builder), (ds.foldl Builder.add b).min ≤ b.min := by
  intro ds
  induction ds with
  | nil => intro b; exact Int.le_refl _
  | cons x rest ih => intro b; exact Int.le_trans (ih _) (add_min_le b x)

/-- the builder's `min` is not after any transaction -/
theorem ofList_min_le (ds : List Directive) (t : Transaction) (ht : Directive.tx t ∈ ds) :
    (Builder.ofList ds).min ≤ t.date := by
  unfold Builder.ofList
  suffices hgen : ∀ (ds : List Directive) (b : Builder), Directive.tx t ∈ ds → (ds.foldl Builder.add b).min ≤ t.date from
    hgen ds {} ht
  intro ds
  induction ds with
  | nil => intro b h; cases h
  | cons x rest ih =>
    intro b h
    rcases List.mem_cons.mp h with rfl | h
    · exact Int.le_trans (foldl_add_min_le rest _) (add_min_tx b t)
    · exact ih _ h

/-- the days of the journal: every transaction is dated with its day, and no day before the builder's `min` holds one -/
theorem base_day_txs (ds : List Directive) (d : Day) (hd : d ∈ (Builder.ofList ds).days) :
    (∀ t ∈ d.transactions, t.date = d.date) ∧ (d.date < (Builder.ofList ds).min → d.transactions = []) := by
  obtain ⟨hs, hc⟩ := ofList_spec txKind ds
  have hcont : d.transactions = collect txKind ds d.date := by
    rw [← hc d.date]
    unfold contentOn
    rw [findDay_of_mem hs hd]
    rfl
  have hmem : ∀ t ∈ d.transactions, Directive.tx t ∈ ds ∧ t.date = d.date := by
    intro t ht
    rw [hcont] at ht
    unfold collect at ht
    rw [List.mem_filterMap] at ht
    obtain ⟨x, hx, hpick⟩ := ht
    split at hpick
    · rename_i hdate
      cases x with
      | tx t' =>
        simp only [txKind, Option.some.injEq] at hpick
        subst hpick
        exact ⟨hx, hdate⟩
      | price _ => simp [txKind] at hpick
      | opening _ => simp [txKind] at hpick
      | assertion _ => simp [txKind] at hpick
      | closing _ => simp [txKind] at hpick
    · cases hpick
  refine ⟨fun t ht => (hmem t ht).2, ?_⟩
  intro hlt
  cases htx : d.transactions with
  | nil => rfl
  | cons t rest =>
    have := hmem t (by rw [htx]; exact List.mem_cons_self)
    have := ofList_min_le ds t this.1
    omega

/-- … and the same with additional registered dates -/
theorem ensure_day_txs (ds : List Directive) (dates : List Int) (d : Day)
    (hd : d ∈ dates.foldl insertDay (Builder.ofList ds).days) :
    (∀ t ∈ d.transactions, t.date = d.date) ∧ (d.date < (Builder.ofList ds).min → d.transactions = []) := by
  rcases mem_ensure dates _ d hd with h | ⟨x, rfl⟩
  · exact base_day_txs ds d h
  · exact ⟨fun t ht => (by cases ht), fun _ => rfl⟩

end Knut.Performance
