import Knut.Proofs.TableNum
/-!
# Helper lemmas for C17: CSV

`String()` of a decimal amount reads back as the amount itself; the records written are the non-blank
rows; what `encoding/csv.Writer` emits parses back (`parseCSV`) to exactly those records.
-/
open Knut.Dec Knut.Table Knut.Table.Spec
namespace Knut.Table

/-- the amount is a decimal fraction whose scale `showDec` finds (every `decimal.Decimal` is) -/
def isDecimal (d : Rat) : Bool := (10 ^ scaleOf d) % d.den == 0

theorem parseDec_showDec (d : Rat) (h : isDecimal d = true) : parseDec (showDec d) = some d := by
  unfold showDec
  simp only [parseDec_showScaled]
  congr 1
  unfold isDecimal at h
  have hdvd : d.den ∣ 10 ^ scaleOf d := Nat.dvd_of_mod_eq_zero (by simpa using h)
  obtain ⟨c, hc⟩ := hdvd
  have hpow : (10 ^ scaleOf d : Nat) ≠ 0 := Nat.ne_of_gt (Nat.pow_pos (by decide))
  have hd : mkRat d.num d.den = d := Rat.mkRat_self d
  conv => rhs; rw [← hd]
  rw [Rat.mkRat_eq_iff hpow d.den_nz]
  unfold pow10
  have hden : (d.den : Int) ≠ 0 := by have := d.den_pos; omega
  have e : ((10 : Int) ^ scaleOf d) = (d.den : Int) * (c : Int) := by
    have : ((10 ^ scaleOf d : Nat) : Int) = ((d.den * c : Nat) : Int) := by rw [hc]
    simpa using this
  rw [e, ← Int.mul_assoc, Int.mul_comm d.num, Int.mul_assoc, Int.mul_ediv_cancel_left _ hden]
  simp only [hc]
  push_cast
  rw [Int.mul_comm (d.den : Int) c, ← Int.mul_assoc]


def cellDecimal : Cell → Prop
  | .num d => isDecimal d = true
  | _ => True

theorem showDec_ne_nil (d : Rat) : (showDec d).toList ≠ [] := by
  unfold showDec
  rw [showScaled_toList]
  intro h
  simp only [List.append_eq_nil_iff] at h
  exact digitsOf_ne_nil _ h.1.2

theorem csvFieldShows_csvCell (c : Cell) (h : cellDecimal c) : csvFieldShows c (csvCell c) = true := by
  cases c with
  | empty => rfl
  | sep => rfl
  | text s a i => simp [csvFieldShows, csvCell]
  | num d =>
    simp only [csvFieldShows, csvCell, String.ofList_toList]
    rw [parseDec_showDec d h]
    simp

theorem recordShows_map : ∀ (row : List Cell), (∀ c ∈ row, cellDecimal c) → recordShows row (row.map csvCell) = true
  | [], _ => rfl
  | c :: cs, h => by
    simp only [List.map_cons, recordShows, Bool.and_eq_true]
    exact ⟨csvFieldShows_csvCell c (h c (by simp)), recordShows_map cs (fun x hx => h x (by simp [hx]))⟩

theorem rowBlank_iff (row : List Cell) :
    rowBlank row = !((row.map csvCell).any (fun f => !f.isEmpty)) := by
  induction row with
  | nil => rfl
  | cons c cs ih =>
    simp only [rowBlank, List.all_cons, List.map_cons, List.any_cons, Bool.not_or] at ih ⊢
    rw [ih]
    congr 1
    cases c with
    | empty => rfl
    | sep => rfl
    | text s a i => simp [csvCell]
    | num d =>
      simp only [csvCell]
      have := showDec_ne_nil d
      cases h : (showDec d).toList with
      | nil => exact absurd h this
      | cons _ _ => rfl

/-- the records written are the non-blank rows, in order, each field showing its cell exactly -/
theorem csvOK_records : ∀ (rows : List (List Cell)), (∀ row ∈ rows, ∀ c ∈ row, cellDecimal c) →
    csvOK rows ((rows.map (fun row => row.map csvCell)).filter (fun rec => rec.any (fun f => !f.isEmpty))) = true
  | [], _ => rfl
  | row :: rows, h => by
    have ih := csvOK_records rows (fun x hx => h x (by simp [hx]))
    simp only [List.map_cons, List.filter_cons]
    by_cases hb : rowBlank row = true
    · have : (row.map csvCell).any (fun f => !f.isEmpty) = false := by
        rw [rowBlank_iff] at hb; simpa using hb
      simp only [this, Bool.false_eq_true, if_false, csvOK, hb, if_true]
      exact ih
    · have hb' : rowBlank row = false := by simpa using hb
      have : (row.map csvCell).any (fun f => !f.isEmpty) = true := by
        rw [rowBlank_iff] at hb'; simpa using hb'
      simp only [this, if_true, csvOK, hb', Bool.false_eq_true, if_false, Bool.and_eq_true]
      exact ⟨recordShows_map row (h row (by simp)), ih⟩



def isSpecial (c : Char) : Bool := c == '\n' || c == '\r' || c == '"' || c == ','

theorem unquoted_run (term : Char) (hterm : term = ',' ∨ term = '\n') (rest : List Char)
    (rec : List (List Char)) (recs : List (List (List Char))) :
    ∀ (f acc : List Char), (∀ c ∈ f, isSpecial c = false) →
      parseCSVGo (f ++ term :: rest) .unquoted acc rec recs =
        parseCSVGo (term :: rest) .unquoted (f.reverse ++ acc) rec recs := by
  intro f
  induction f with
  | nil => intro acc _; rfl
  | cons c f ih =>
    intro acc h
    have hc := h c (by simp)
    simp only [isSpecial, Bool.or_eq_false_iff, beq_eq_false_iff_ne] at hc
    rw [List.cons_append, parseCSVGo]
    simp only [hc.1.2, hc.2, hc.1.1.1, if_false]
    rw [ih (c :: acc) (fun x hx => h x (by simp [hx]))]
    simp

def esc (c : Char) : List Char := if c = '"' then ['"', '"'] else [c]

theorem quoted_run (tail : List Char) (rec : List (List Char)) (recs : List (List (List Char))) :
    ∀ (f acc : List Char),
      parseCSVGo (f.flatMap esc ++ '"' :: tail) .quoted acc rec recs =
        parseCSVGo tail .quoteSeen (f.reverse ++ acc) rec recs := by
  intro f
  induction f with
  | nil => intro acc; simp [parseCSVGo]
  | cons c f ih =>
    intro acc
    by_cases hc : c = '"'
    · subst hc
      simp only [List.flatMap_cons, esc, if_true, List.cons_append, List.nil_append]
      rw [parseCSVGo]; simp only [if_true]
      rw [parseCSVGo]; simp only [if_true]
      rw [ih]; simp
    · simp only [List.flatMap_cons, esc, hc, if_false, List.cons_append, List.nil_append]
      rw [parseCSVGo]; simp only [hc, if_false]
      rw [ih]; simp

theorem csvField_eq (f : List Char) : csvField f = if fieldNeedsQuotes f then '"' :: f.flatMap esc ++ ['"'] else f := rfl

theorem noSpecial_of_unquoted {f : List Char} (h : fieldNeedsQuotes f = false) : ∀ c ∈ f, isSpecial c = false := by
  unfold fieldNeedsQuotes at h
  intro c hc
  cases f with
  | nil => simp at hc
  | cons a f' =>
    simp only [List.isEmpty_cons, Bool.false_eq_true, if_false] at h
    split at h
    · simp at h
    · split at h
      · simp at h
      · rename_i hany
        have : ¬ ((c == '\n' || c == '\r' || c == '"' || c == ',') = true) :=
          fun hx => hany (List.any_eq_true.mpr ⟨c, hc, hx⟩)
        unfold isSpecial
        simpa using this

/-- one field followed by a comma -/
theorem field_comma (f rest x : List Char) (rec : List (List Char)) (recs : List (List (List Char))) :
    parseCSVGo (csvField f ++ ',' :: rest) .fieldStart x rec recs = parseCSVGo rest .fieldStart [] (f :: rec) recs := by
  rw [csvField_eq]
  by_cases hq : fieldNeedsQuotes f = true
  · simp only [hq, if_true, List.cons_append, List.append_assoc, List.singleton_append, List.nil_append]
    rw [parseCSVGo]; simp only [if_true]
    rw [quoted_run, parseCSVGo]
    simp
  · have hq' : fieldNeedsQuotes f = false := by simpa using hq
    have hns := noSpecial_of_unquoted hq'
    simp only [hq', Bool.false_eq_true, if_false]
    cases f with
    | nil => simp [parseCSVGo]
    | cons c f' =>
      have hc := hns c (by simp)
      simp only [isSpecial, Bool.or_eq_false_iff, beq_eq_false_iff_ne] at hc
      rw [List.cons_append, parseCSVGo]
      simp only [hc.1.2, hc.2, hc.1.1.1, if_false]
      rw [unquoted_run ',' (Or.inl rfl) rest rec recs f' [c] (fun y hy => hns y (by simp [hy])), parseCSVGo]
      simp

/-- the last field of a record, followed by the line end -/
theorem field_newline (f rest x : List Char) (rec : List (List Char)) (recs : List (List (List Char))) :
    parseCSVGo (csvField f ++ '\n' :: rest) .fieldStart x rec recs =
      parseCSVGo rest .fieldStart [] [] ((f :: rec).reverse :: recs) := by
  rw [csvField_eq]
  by_cases hq : fieldNeedsQuotes f = true
  · simp only [hq, if_true, List.cons_append, List.append_assoc, List.singleton_append, List.nil_append]
    rw [parseCSVGo]; simp only [if_true]
    rw [quoted_run, parseCSVGo]
    simp
  · have hq' : fieldNeedsQuotes f = false := by simpa using hq
    have hns := noSpecial_of_unquoted hq'
    simp only [hq', Bool.false_eq_true, if_false]
    cases f with
    | nil => simp [parseCSVGo]
    | cons c f' =>
      have hc := hns c (by simp)
      simp only [isSpecial, Bool.or_eq_false_iff, beq_eq_false_iff_ne] at hc
      rw [List.cons_append, parseCSVGo]
      simp only [hc.1.2, hc.2, hc.1.1.1, if_false]
      rw [unquoted_run '\n' (Or.inr rfl) rest rec recs f' [c] (fun y hy => hns y (by simp [hy])), parseCSVGo]
      simp

theorem record_parse (rest : List Char) (recs : List (List (List Char))) :
    ∀ (fs : List (List Char)) (racc : List (List Char)) (x : List Char), fs ≠ [] →
      parseCSVGo (joinFields (fs.map csvField) ++ '\n' :: rest) .fieldStart x racc recs =
        parseCSVGo rest .fieldStart [] [] ((racc.reverse ++ fs) :: recs)
  | [], _, _, h => absurd rfl h
  | [f], racc, x, _ => by
    simp only [List.map_cons, List.map_nil, joinFields]
    rw [field_newline]; simp
  | f :: g :: fs, racc, x, _ => by
    simp only [List.map_cons, joinFields, List.append_assoc, List.cons_append]
    rw [field_comma]
    have := record_parse rest recs (g :: fs) (f :: racc) [] (by simp)
    simp only [List.map_cons] at this
    rw [this]; simp

theorem records_parse : ∀ (rs : List (List (List Char))) (acc : List (List (List Char))),
    (∀ rec ∈ rs, rec ≠ []) → parseCSVGo (rs.flatMap csvLine) .fieldStart [] [] acc = some (acc.reverse ++ rs)
  | [], acc, _ => by simp [parseCSVGo]
  | rec :: rs, acc, h => by
    simp only [List.flatMap_cons, csvLine, List.append_assoc, List.singleton_append]
    rw [record_parse _ _ rec [] [] (h rec (by simp))]
    simp only [List.reverse_nil, List.nil_append]
    rw [records_parse rs (rec :: acc) (fun x hx => h x (by simp [hx]))]
    simp


end Knut.Table
