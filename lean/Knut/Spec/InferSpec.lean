import Knut.Model.Infer
import Knut.Spec.SyntaxFormat
/-!
# C15: executable predicates relating a formatted journal and the output of `knut infer` on it

`viewsOK placeholder training vs ws`: `ws` (the fields of the directives of the output) are `vs` (the fields of the
directives of the target) except for credit/debit fields of bookings whose text was the placeholder; such a field
holds an account of `training` that differs from the other account of the booking, or — exactly when `training`
offers no such account — still the placeholder. `training` lists the accounts `infer` may learn: the credit and debit
accounts of the bookings of the training journals that use no macro account and do not touch the placeholder
(`trainingAccounts`).

`inferOK` is the same on texts: both texts parse, their fields are related by `viewsOK`, the text between the
directives is identical, and the output is laid out as the formatter lays it out (`format out = out`: the column
alignment is the one its own accounts imply).
-/
namespace Knut.Spec.Infer
open Knut.Syntax Knut.Infer Knut.Spec.Syntax

/-- the accounts `infer` may learn from training transactions -/
def trainingAccounts (placeholder : Bytes) (txs : List TTx) : List Bytes :=
  txs.flatMap fun t => (t.bookings.filter (eligible placeholder)).flatMap fun b => [b.v.credit, b.v.debit]

/-- one account field: `old` the text before, `new` after, `against` the other account of the booking at the moment
the field is inferred, `otherNew` the other account in the output -/
def fieldOK (placeholder : Bytes) (training : List Bytes) (old new against otherNew : Bytes) : Bool :=
  if old == placeholder then
    if training.all (· == against) then new == old
    else training.contains new && new != against && new != otherNew
  else new == old

/-- the credit account is inferred against the original debit account, the debit account against the new credit -/
def bookingOK (placeholder : Bytes) (training : List Bytes) (a b : BookingV) : Bool :=
  a.quantity == b.quantity && a.commodity == b.commodity &&
  fieldOK placeholder training a.credit b.credit a.debit b.debit &&
  fieldOK placeholder training a.debit b.debit b.credit b.credit

def bookingsOK (placeholder : Bytes) (training : List Bytes) : List BookingV → List BookingV → Bool
  | [], [] => true
  | a :: as, b :: bs => bookingOK placeholder training a b && bookingsOK placeholder training as bs
  | _, _ => false

def dirOK (placeholder : Bytes) (training : List Bytes) : DirV → DirV → Bool
  | .transaction accr perf date desc bs, .transaction accr' perf' date' desc' bs' =>
    accr == accr' && perf == perf' && date == date' && desc == desc' && bookingsOK placeholder training bs bs'
  | .transaction .., _ => false
  | d, d' => d == d'

def viewsOK (placeholder : Bytes) (training : List Bytes) : List DirV → List DirV → Bool
  | [], [] => true
  | v :: vs, w :: ws => dirOK placeholder training v w && viewsOK placeholder training vs ws
  | _, _ => false

/-- the monitor: `fmt` is `knut format` of the target, `out` what `knut infer` printed for it -/
def inferOK (placeholder : Bytes) (training : List Bytes) (path : String) (fmt out : Bytes) : Bool :=
  match parseText path fmt, parseText path out with
  | .ok f, .ok g =>
    (match f.directives.mapM (viewDirective fmt), g.directives.mapM (viewDirective out) with
     | some vs, some ws => viewsOK placeholder training vs ws
     | _, _ => false) &&
    gapsOf fmt 0 (f.directives.map (·.range)) == gapsOf out 0 (g.directives.map (·.range)) &&
    format out g == some out
  | _, _ => false

end Knut.Spec.Infer
