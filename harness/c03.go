package main

import (
	"fmt"
	"math/big"
	"strings"
	"time"
)

func init() { runners["C03"] = runC03 }

// parseTextReport reads a `knut balance --color=false` text table: column dates and, per account path
// (rebuilt from the indentation, two blanks per level) and commodity label, the row's values.
type reportRow struct {
	Path   string
	Comm   string
	Values []string
}

func parseTextReport(out string) (dates []string, rows []reportRow, hasComm bool) {
	var stack []string
	for _, l := range strings.Split(out, "\n") {
		if !strings.HasPrefix(l, "|") {
			continue
		}
		cells := strings.Split(strings.TrimSuffix(strings.TrimPrefix(l, "|"), "|"), "|")
		name := cells[0]
		trimmed := strings.TrimSpace(name)
		if trimmed == "Account" {
			rest := cells[1:]
			if len(rest) > 0 && strings.TrimSpace(rest[0]) == "Comm" {
				hasComm = true
				rest = rest[1:]
			}
			for _, d := range rest {
				dates = append(dates, strings.TrimSpace(d))
			}
			continue
		}
		vals := cells[1:]
		comm := ""
		if hasComm && len(vals) > 0 {
			comm = strings.TrimSpace(vals[0])
			vals = vals[1:]
		}
		if trimmed != "" {
			if strings.HasPrefix(trimmed, "Total (") || trimmed == "Delta" {
				stack = []string{trimmed}
			} else {
				depth := (len(name) - len(strings.TrimLeft(name, " ")) - 1) / 2
				if depth < 0 {
					depth = 0
				}
				if depth > len(stack) {
					depth = len(stack)
				}
				stack = append(stack[:depth:depth], trimmed)
			}
		} else if len(stack) == 0 {
			continue
		}
		row := reportRow{Path: strings.Join(stack, ":"), Comm: comm}
		empty := true
		for _, v := range vals {
			v = strings.ReplaceAll(strings.TrimSpace(v), ",", "")
			row.Values = append(row.Values, v)
			if v != "" {
				empty = false
			}
		}
		if trimmed == "" && empty {
			continue
		}
		rows = append(rows, row)
	}
	return
}

func ratOf(s string) (*big.Rat, bool) {
	if s == "" {
		return new(big.Rat), true
	}
	return new(big.Rat).SetString(s)
}

func runC03(c *Ctx) {
	n := c.N(1200, 40000)
	dir := c.WorkDir
	_ = dir
	cases := genBalCasesWith(c, "valued", n, func(r *RNG) JGenOpts {
		return JGenOpts{MaxAccounts: r.Range(2, 6), MaxDays: r.Range(2, 9), BaseDay: 737000 + r.Intn(1500), SpanDays: Pick(r, []int{5, 40, 100, 400}),
			Prices: true, Valuation: Pick(r, []string{"CHF", "USD"}), ManyDecimals: r.Chance(1, 3), DropPrices: r.Chance(1, 8), ChainPrices: r.Chance(1, 3), DupPrices: true}
	}, func(r *RNG, j *Journal, val string) BalFlags {
		f := GenBalFlags(r, j, val, BalGenOpts{Valued: true, NoFilters: true})
		f.Map, f.Remap, f.Show, f.Diff, f.CSV, f.Thousands = nil, nil, nil, false, false, false
		f.Digits = 10
		f.Val = val
		return f
	})
	bt := c.NewBatch()
	defer bt.Flush()
	eps := big.NewRat(1, 100000000)
	for _, bc := range cases {
		bc := bc
		c.Evals++
		impl := bc.implOutcome()
		in := bc.Input()
		for _, t := range bc.Tags {
			c.Tag(t)
		}
		c.Class("c03/" + strings.Fields(impl)[0] + "/" + flagClass(bc.F) + "/n" + bucket(len(bc.J.Dirs)))
		if bc.Idx < 2 {
			c.Sample(map[string]any{"args": strings.Join(bc.F.Args(), " "), "journal": bc.Text, "stdout": bc.Stdout})
		}
		bt.Add(func(model string) {
			if model == "unsupported" {
				return
			}
			if !c.Compare("valued", bc.Idx, "balance", in, impl, modelOutcomeCanon(model)) {
				f := &c.Findings[len(c.Findings)-1]
				if strings.HasPrefix(model, "ok ") {
					f.Model = clip(UnHex(strings.TrimPrefix(model, "ok ")))
				}
				f.Impl = clip(bc.Stdout + "\n" + bc.Stderr)
			}
		}, "balance", bc.F.Wire(today()), bc.J.Wire())
		if bc.Code != 0 {
			c.Tag("rejected")
			continue
		}
		// ---- monitor: shown value of every A/L account row vs exact mark-to-market
		dates, rows, _ := parseTextReport(bc.Stdout)
		if len(dates) == 0 {
			continue
		}
		var ds []string
		for _, d := range dates {
			t, err := time.Parse("2006-01-02", d)
			if err != nil {
				ds = nil
				break
			}
			ds = append(ds, itoa(dayNum(t)))
		}
		if ds == nil {
			continue
		}
		jmin := 1 << 30
		for _, d := range bc.J.Dirs {
			if d.Kind == 't' && d.Date < jmin {
				jmin = d.Date
			}
		}
		start := jmin
		if bc.F.From > start {
			start = bc.F.From
		}
		if bc.F.To != 0 && start > bc.F.To {
			c.Tag("inverted-window")
			continue // empty window: the report shows nothing, the property makes no claim
		}
		shown := map[string][]string{}
		for _, r := range rows {
			if strings.HasPrefix(r.Path, "Assets") || strings.HasPrefix(r.Path, "Liabilities") {
				shown[r.Path] = r.Values
			}
		}
		bt.Add(func(ans string) {
			if ans == "bad-op" || ans == "" {
				return
			}
			for _, item := range strings.Fields(ans) {
				parts := strings.Split(item, "|")
				acc := parts[0]
				vals, has := shown[acc]
				for k, cell := range parts[1:] {
					f := strings.Split(cell, ":")
					if len(f) != 4 {
						continue
					}
					if f[1] == "none" {
						// a needed price is missing at this date although the command printed a report
						q := "0"
						if has && k < len(vals) {
							q = vals[k]
						}
						c.Monitor("valued", bc.Idx, "missing_price_is_error", in, false, fmt.Sprintf("account %s column %s: no price exists but the report shows %q", acc, dates[k], q))
						continue
					}
					mtmD, _ := ratOf(f[1])
					mtmF := new(big.Rat)
					if f[2] != "none" {
						mtmF, _ = ratOf(f[2])
					}
					var steps int64
					fmt.Sscan(f[3], &steps)
					// steps = Spec.stepBound (non-zero bookings on the account in a commodity other than V dated inside
					// the window up to the column date + days with a price declaration there, per such commodity):
					// the bound of theorem C03_command_cell, no slack added
					bound := new(big.Rat).Mul(eps, big.NewRat(steps, 1))
					sv := ""
					if has && k < len(vals) {
						sv = vals[k]
					}
					s, ok := ratOf(sv)
					if !ok {
						c.Monitor("valued", bc.Idx, "cell_is_number", in, false, "cell "+sv)
						continue
					}
					windowed := new(big.Rat).Sub(mtmD, mtmF)
					diffW := new(big.Rat).Abs(new(big.Rat).Sub(s, windowed))
					diffL := new(big.Rat).Abs(new(big.Rat).Sub(s, mtmD))
					detail := fmt.Sprintf("account %s column %s: shown %s, mark-to-market %s, before window %s, steps %d", acc, dates[k], s.FloatString(10), mtmD.FloatString(10), mtmF.FloatString(10), steps)
					switch {
					case diffL.Cmp(bound) <= 0:
						c.Monitored++
						c.Tag("mtm-literal-ok")
					case diffW.Cmp(bound) <= 0 && mtmF.Sign() != 0:
						c.MonitorKnown("valued", bc.Idx, "shown_equals_mark_to_market", in, detail, "window-start-after-position")
					default:
						c.Monitor("valued", bc.Idx, "shown_equals_mark_to_market", in, false, detail)
					}
				}
			}
		}, "c03mtm", bc.F.Val, bc.J.Wire(), itoa(start-1), strings.Join(ds, ","))
		if !bc.F.NoClose {
			continue
		}
		// ---- monitors for --close=false: (1) theorem C03_command_flow_cell_noclose_partial: the row of an expense/equity account
		// shows exactly -Spec.flowAt (every booking valued at the price of its own day); (2) theorem C03_gain_mirrors_adjustments
		// read off the report: the row of Income:<path> shows -(flow on it - sum over the A/L accounts mirrored there of
		// (shown value - flow on that account)), the value adjustments being shown value minus booked values. Both exact.
		shownAll := map[string][]string{}
		for _, r := range rows {
			shownAll[r.Path] = r.Values
		}
		nd := len(dates)
		bt.Add(func(ans string) {
			if ans == "bad-op" || ans == "" {
				return
			}
			flow := map[string][]*big.Rat{}
			for _, item := range strings.Fields(ans) {
				parts := strings.Split(item, "|")
				if len(parts) != nd+1 {
					continue
				}
				fl := make([]*big.Rat, nd)
				for k, cell := range parts[1:] {
					f := strings.Split(cell, ":")
					if len(f) == 2 && f[1] != "none" {
						fl[k], _ = ratOf(f[1])
					}
				}
				flow[parts[0]] = fl
			}
			cellOf := func(acc string, k int) *big.Rat {
				vals, has := shownAll[acc]
				if !has || k >= len(vals) {
					return new(big.Rat)
				}
				r, ok := ratOf(vals[k])
				if !ok {
					return nil
				}
				return r
			}
			adj := map[string][]*big.Rat{}
			for acc, fl := range flow {
				seg := strings.SplitN(acc, ":", 2)
				switch seg[0] {
				case "Assets", "Liabilities":
					g := "Income"
					if len(seg) == 2 {
						g += ":" + seg[1]
					}
					if adj[g] == nil {
						adj[g] = make([]*big.Rat, nd)
						for k := range adj[g] {
							adj[g][k] = new(big.Rat)
						}
					}
					for k := 0; k < nd; k++ {
						s := cellOf(acc, k)
						if s == nil || fl[k] == nil || adj[g][k] == nil {
							adj[g][k] = nil
							continue
						}
						adj[g][k].Add(adj[g][k], new(big.Rat).Sub(s, fl[k]))
					}
				case "Income":
				default:
					for k := 0; k < nd; k++ {
						s := cellOf(acc, k)
						if s == nil || fl[k] == nil {
							continue
						}
						want := new(big.Rat).Neg(fl[k])
						if want.Sign() != 0 {
							c.Tag("flow-nonzero")
						}
						c.Monitor("valued", bc.Idx, "flow_valued_at_booking_day", in, s.Cmp(want) == 0,
							fmt.Sprintf("account %s column %s: shown %s, bookings at booking-day prices %s", acc, dates[k], s.FloatString(10), want.FloatString(10)))
					}
				}
			}
			gains := map[string]bool{}
			for g := range adj {
				gains[g] = true
			}
			for acc := range flow {
				if strings.HasPrefix(acc, "Income") {
					gains[acc] = true
				}
			}
			for g := range gains {
				for k := 0; k < nd; k++ {
					s := cellOf(g, k)
					fl := new(big.Rat)
					if f, ok := flow[g]; ok {
						fl = f[k]
					}
					a := new(big.Rat)
					if x, ok := adj[g]; ok {
						a = x[k]
					}
					if s == nil || fl == nil || a == nil {
						continue
					}
					want := new(big.Rat).Neg(new(big.Rat).Sub(fl, a))
					if a.Sign() != 0 {
						c.Tag("gain-nonzero")
					}
					c.Monitor("valued", bc.Idx, "gain_on_mirror_account", in, s.Cmp(want) == 0,
						fmt.Sprintf("account %s column %s: shown %s, expected -(flow %s - adjustments %s)", g, dates[k], s.FloatString(10), fl.FloatString(10), a.FloatString(10)))
				}
			}
		}, "c03flow", bc.F.Val, bc.J.Wire(), itoa(start-1), strings.Join(ds, ","))
	}
}
