import Knut.Model.Import.Cards
/-!
# Bank-account importers: `ch.postfinance`, `revolut2`, `revolut`, `com.wise`, `ch.viac`
-/
namespace Knut.Import
open Knut

/-! ## `ch.postfinance` (cmd/importer/postfinance) -/
namespace Postfinance

/-- `readKeyValues`: records of two fields are key/value pairs (later keys override); the first other record ends the block
and is dropped; running out of records is `io.EOF`, an error.  Returns the value of `Währung:` and the remaining records. -/
def keyValues : Option String → List Rec → Res (Option String × List Rec)
  | _, [] => .error
  | cur, r :: rs =>
    if r.length ≠ 2 then .ok (cur, rs)
    else keyValues (if fldD r 0 = "Währung:" then some (fldD r 1) else cur) rs

/-- `parseAmount(gutschrift, lastschrift)`: exactly one non-empty; the statement signs debits itself -/
def amount (g l : String) : Res Rat :=
  if g.utf8ByteSize > 0 && l.utf8ByteSize == 0 then Res.ofOption (parseDecimalApos g)
  else if g.utf8ByteSize == 0 && l.utf8ByteSize > 0 then Res.ofOption (parseDecimalApos l)
  else .error

/-- the booking loop: a record with fewer than 7 or more than 8 fields ends it; running out of records is `io.EOF`, an
error.  Result: directives, remaining records. -/
def bookings (acct : Account) (cur : Commodity) : List Rec → Res (List Directive × List Rec)
  | [] => .error
  | r :: rs =>
    if r.length < 7 || r.length > 8 then .ok ([], rs) else do
    let d ← Res.ofOption (parseDate layoutDMYdot (fldD r 0))
    let q ← amount (fldD r 2) (fldD r 3)
    let desc := trimSpace (joinWith " " [trimSpace (fldD r 1), trimSpace (fldD r 5), trimSpace (fldD r 4)])
    let (ds, rest) ← bookings acct cur rs
    pure (mkTx d desc [⟨tbd, acct, cur, q⟩] :: ds, rest)

/-- the statement's currency: the `Währung:` value without `=` and quotes, `CHF` when the key is missing -/
def currencyOf : Option String → Res Commodity
  | some s => getCommodity (trimCutset ['=', '"'] s)
  | none => .ok "CHF"

/-- `parse`; every remaining record (the disclaimer) must have exactly one field -/
def run (acct : Account) (recs : List Rec) : Res (List Directive) :=
  (keyValues none recs).bind (fun kv =>
    (currencyOf kv.1).bind (fun c =>
      (bookings acct c kv.2).bind (fun b =>
        if b.2.all (fun r => r.length = 1) then .ok b.1 else .error)))

end Postfinance

/-! ## `revolut2` (cmd/importer/revolut2) -/
namespace Revolut2

def header : List String :=
  ["Type", "Product", "Started Date", "Completed Date", "Description", "Amount", "Fee", "Currency", "State", "Balance"]

/-- `p.balance[DateCommodityKey(d, c)] = bal`: the last row of a (date, commodity) wins -/
def setBalance (m : List ((Int × Commodity) × Rat)) (k : Int × Commodity) (v : Rat) : List ((Int × Commodity) × Rat) :=
  match m with
  | [] => [(k, v)]
  | (k', v') :: rest => if k' = k then (k, v) :: rest else (k', v') :: setBalance rest k v

/-- `parseBooking` of one record: the transaction (if any) and the balance entry -/
def row (acct fee : Account) (r : Rec) : Res (Option (Directive × (Int × Commodity) × Rat)) :=
  if r.length ≠ 10 then .error else
  if fldD r 3 = "" then pure none else do
  let d ← parseDatePrefix10 layoutYMD (fldD r 3)
  let c ← getCommodity (fldD r 7)
  let q ← Res.ofOption (newFromString (fldD r 5))
  let f ← Res.ofOption (newFromString (fldD r 6))
  let bal ← Res.ofOption (newFromString (fldD r 9))
  let ps : List PB := ⟨tbd, acct, c, q⟩ :: (if f = 0 then [] else [⟨acct, fee, c, f⟩])
  pure (some (mkTx d (fldD r 4) ps, (d, c), bal))

def rows (acct fee : Account) : List ((Int × Commodity) × Rat) → List Rec →
    Res (List Directive × List ((Int × Commodity) × Rat))
  | m, [] => .ok ([], m)
  | m, r :: rs => do
    match ← row acct fee r with
    | none => rows acct fee m rs
    | some (t, k, bal) =>
      let (ds, m') ← rows acct fee (setBalance m k bal) rs
      pure (t :: ds, m')

/-- insertion into the (date, commodity name)-ordered index of `addBalances` -/
def insertKey (e : (Int × Commodity) × Rat) : List ((Int × Commodity) × Rat) → List ((Int × Commodity) × Rat)
  | [] => [e]
  | x :: rest =>
    if e.1.1 < x.1.1 || (e.1.1 = x.1.1 && e.1.2 < x.1.2) then e :: x :: rest else x :: insertKey e rest

def sortKeys (m : List ((Int × Commodity) × Rat)) : List ((Int × Commodity) × Rat) := m.foldr insertKey []

def assertionOf (acct : Account) (e : (Int × Commodity) × Rat) : Directive :=
  .assertion { date := e.1.1, balances := [⟨acct, e.2, e.1.2⟩] }

/-- `parse` + `addBalances` for one file -/
def run (acct fee : Account) : List Rec → Res (List Directive)
  | [] => .error
  | h :: rs =>
    if h.length ≠ 10 then .error
    else if h ≠ header then .error
    else do
      let (ds, m) ← rows acct fee [] rs
      pure (ds ++ (sortKeys m).map (assertionOf acct))

end Revolut2

/-! ## `revolut` (cmd/importer/revolut) -/
namespace Revolut

/-- `parseCombiField`: `<commodity> <amount>` -/
def combi (f : String) : Res (Commodity × Rat) :=
  match fields f with
  | [c, a] => do
    let c ← getCommodity c
    let a ← Res.ofOption (parseDecimalApos a)
    pure (c, a)
  | _ => .error

/-- `parseBooking`; state = the date of the previous row (`time.Time{}` = day 0 initially) -/
def row (acct : Account) (cur : Commodity) (n : Nat) (prev : Int) (r : Rec) : Res (Int × List Directive) :=
  if r.length ≠ n then .error else
  if r.length ≠ 9 then .error else do
  let d ← Res.ofOption (parseDate layoutDMonY (fldD r 0))
  let as ← (if d ≠ prev then
      (Res.ofOption (parseDecimalApos (fldD r 6))).bind (fun b =>
        .ok [Directive.assertion { date := d, balances := [⟨acct, b, cur⟩] }])
    else .ok [])
  let desc := trimSpace (collapseWs (joinWith " " [fldD r 1, fldD r 7, fldD r 8]))
  let out := fldD r 2
  let inn := fldD r 3
  let q ← (if out.utf8ByteSize > 0 && inn.utf8ByteSize == 0 then
      (Res.ofOption (parseDecimalApos out)).bind (fun q => .ok (-q))
    else if out.utf8ByteSize == 0 && inn.utf8ByteSize > 0 then Res.ofOption (parseDecimalApos inn)
    else .error)
  let val := valuationAccountFor acct
  if fxSellRe (fldD r 1) then do
    let (oc, oq) ← combi (fldD r 4)
    pure (d, as ++ [mkTx d desc [⟨val, acct, cur, q⟩, ⟨val, acct, oc, oq⟩]])
  else if fxBuyRe (fldD r 1) then do
    let (oc, oq) ← combi (fldD r 5)
    pure (d, as ++ [mkTx d desc [⟨val, acct, cur, q⟩, ⟨val, acct, oc, -oq⟩]])
  else
    pure (d, as ++ [mkTx d desc [⟨tbd, acct, cur, q⟩]])

def rows (acct : Account) (cur : Commodity) (n : Nat) : Int → List Rec → Res (List Directive)
  | _, [] => .ok []
  | prev, r :: rs => do
    let (d, ds) ← row acct cur n prev r
    let ds' ← rows acct cur n d rs
    pure (ds ++ ds')

/-- `parse`: the header names the currency in `Paid Out (XXX)`; `FieldsPerRecord = 0` -/
def run (acct : Account) : List Rec → Res (List Directive)
  | [] => .error
  | h :: rs =>
    if h.length ≠ 9 then .error else
    match paidOutRe (fldD h 2) with
    | none => .error
    | some cur => (getCommodity cur).bind (fun c => rows acct c 9 0 rs)

end Revolut

/-! ## `com.wise` (cmd/importer/wise) -/
namespace Wise

def header : List String := ["ID", "Status", "Direction", "Created on", "Finished on", "Source fee amount",
  "Source fee currency", "Target fee amount", "Target fee currency", "Source name", "Source amount (after fees)",
  "Source currency", "Target name", "Target amount (after fees)", "Target currency", "Exchange rate", "Reference", "Batch"]

/-- `parseFee` -/
def fee (acct feeAcct : Account) (amount currency : String) : Res (List PB) :=
  if currency.utf8ByteSize > 0 then
    match newFromString amount with
    | none => .error
    | some a => if a = 0 then .ok [] else (mustCommodity currency).bind (fun c => .ok [⟨acct, feeAcct, c, a⟩])
  else .ok []

/-- `strings.NewReplacer("-", " ", "_", " ").Replace` -/
def replId (s : String) : String := String.ofList (s.toList.map (fun c => if c == '-' || c == '_' then ' ' else c))

/-- `parseBooking` -/
def row (acct feeAcct trading : Account) (r : Rec) : Res (List Directive) :=
  if r.length ≠ 18 then .error else do
  let d ← parseDatePrefix10 layoutYMD (fldD r 3)
  if fldD r 1 = "CANCELLED" then pure [] else do
  let f1 ← fee acct feeAcct (fldD r 5) (fldD r 6)
  let f2 ← fee acct feeAcct (fldD r 7) (fldD r 8)
  let fees := f1 ++ f2
  let sa ← Res.ofOption (newFromString (fldD r 10))
  let ta ← Res.ofOption (newFromString (fldD r 13))
  let sc ← mustCommodity (fldD r 11)
  let tc ← mustCommodity (fldD r 14)
  let dir := fldD r 2
  let id := replId (fldD r 0)
  if fldD r 11 ≠ fldD r 14 then
    let conv := mkTx d (id ++ " / convert " ++ decStr sa ++ " " ++ sc ++ " to " ++ decStr ta ++ " " ++ tc)
      (fees ++ [⟨acct, trading, sc, sa⟩, ⟨trading, acct, tc, ta⟩])
    if dir = "OUT" then pure [conv, mkTx d (id ++ " / " ++ fldD r 12) [⟨acct, tbd, tc, ta⟩]]
    else if dir = "IN" then pure [conv, mkTx d (id ++ " / " ++ fldD r 12) [⟨tbd, acct, tc, ta⟩]]
    else if dir = "NEUTRAL" then pure [conv]
    else .error
  else
    if dir = "OUT" then pure [mkTx d (id ++ " / " ++ fldD r 12) (fees ++ [⟨acct, tbd, sc, sa⟩])]
    else if dir = "IN" then pure [mkTx d (id ++ " / " ++ fldD r 12) (fees ++ [⟨tbd, acct, sc, sa⟩])]
    else if dir = "NEUTRAL" then pure []
    else .error

def run (acct feeAcct trading : Account) : List Rec → Res (List Directive)
  | [] => .error
  | h :: rs =>
    if h.length ≠ 18 then .error
    else if h ≠ header then .error
    else mapRows (row acct feeAcct trading) rs

end Wise

/-! ## `ch.viac` (cmd/importer/viac) -/
namespace Viac

/-- one `dailyWealth` entry as `encoding/json` decoded it: the date string and the number's literal text -/
def entry (com : Commodity) (fromDay : Int) (e : String × String) : Res (List Directive) := do
  let d ← Res.ofOption (parseDate layoutYMD e.1)
  if d < fromDay then pure [] else do
  let a ← Res.ofOption (newFromString e.2)
  if a = 0 then pure [] else
  pure [.price { date := d, commodity := com, price := Dec.roundHalfAway 2 a, target := "CHF" }]

def run (com : Commodity) (fromDay : Int) : List (String × String) → Res (List Directive)
  | [] => .ok []
  | e :: es => do
    let ds ← entry com fromDay e
    let ds' ← run com fromDay es
    pure (ds ++ ds')

end Viac

end Knut.Import
