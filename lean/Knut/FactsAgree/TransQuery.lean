import Knut.Generated.TransJournal
import Knut.FactsAgree.TransProcess
/-!
# The translated `Query.Into` (`lib/journal/process.go`) agrees with the model's `queryPosting`

`Query{Select, Where, Valuation}.Into(c)` sets one closure, `Posting`.  Its state is the query (after the two nil defaults of the
prologue) and — because the collection `c` is an interface on which the closure only calls `Insert(k, v)` — the LOG of these calls.
`Select` and `Where` are function values (`Option (Key → Outcome …)`; nil = `none`, calling it panics).
-/
namespace Knut.FactsAgree.TransQuery
open Knut Knut.GoSem
open Knut.Generated.Go
open Knut.FactsAgree.TransAccount Knut.FactsAgree.TransPosting Knut.FactsAgree.TransTransaction
open Knut.FactsAgree.TransProcess (Proc processDay)

example : journal.Query.Into.callbacks = ["Posting"] := rfl
example : journal.Query.Into.nonNil = [] ∧ journal.Query.Into.externals = [] := ⟨rfl, rfl⟩

/-- **the prologue of `Query.Into`**: a nil `Where` becomes `predicate.True`, a nil `Select` becomes `mapper.Identity`; nothing
has been inserted yet -/
theorem Query_init_agrees (q : journal.Query) :
    journal.Query.Into.init q =
      { query := { q with Where := some (q.Where.getD (fun _ => GoSem.Outcome.ok true)),
                          Select := some (q.Select.getD (fun k => GoSem.Outcome.ok k)) },
        c := [] } := by
  unfold journal.Query.Into.init
  obtain ⟨sel, whr, val⟩ := q
  cases whr <;> cases sel <;> simp [predicate.True_, mapper.Identity]

/-- the key `Posting` builds from the transaction and the posting -/
def keyOf (val : commodity.Commodity) (t : transaction.Transaction) (b : posting.Posting) : amounts.Key :=
  { Date := t.Date, Account := b.Account, Other := b.Other, Commodity := b.Commodity, Valuation := val, Description := t.Description }

/-- **`Query.Into`'s `Posting`**: the amount is the value when a valuation is set (a nil `Valuation` is the zero commodity) and the
quantity otherwise; the key carries date, description, both accounts, commodity and valuation; if `Where` accepts the key,
`c.Insert(Select(key), amount)` is called (appended to the log).  A nil `Where`/`Select` panics, as in Go. -/
theorem Query_Posting_agrees (st : journal.Query.Into.State) (t : transaction.Transaction) (b : posting.Posting) :
    journal.Query.Into.Posting st t b =
      let amount := if st.query.Valuation = GoZero.zero then b.Quantity else b.Value
      let key := keyOf st.query.Valuation t b
      (callFn1 st.query.Where key).bind fun ok =>
        if ok then (callFn1 st.query.Select key).bind fun k' =>
          GoSem.Outcome.ok ({ st with c := st.c ++ [(k', amount)] }, none)
        else GoSem.Outcome.ok (st, none) := by
  unfold journal.Query.Into.Posting keyOf
  by_cases hv : st.query.Valuation = GoZero.zero
  · simp only [hv, decide_true, Bool.not_true, Bool.false_eq_true, if_false, if_true]
    cases callFn1 st.query.Where _ with
    | ok r => cases r <;> simp [GoSem.Outcome.bind] <;> cases callFn1 st.query.Select _ <;> rfl
    | panic m => rfl
    | outOfFuel => rfl
  · simp only [hv, decide_false, Bool.not_false, if_true, if_false]
    cases callFn1 st.query.Where _ with
    | ok r => cases r <;> simp [GoSem.Outcome.bind] <;> cases callFn1 st.query.Select _ <;> rfl
    | panic m => rfl
    | outOfFuel => rfl

/-- what `Report.Insert` keeps of a logged call: a key whose account is nil (the zero account: hidden by a level-0 mapping) is
dropped; a zero date is "after the window" -/
def entryOf (e : amounts.Key × Rat) : Option Knut.Entry :=
  if e.1.Account = GoZero.zero then none
  else some { date := if e.1.Date = 0 then none else some e.1.Date, account := ⟨e.1.Account.segments⟩,
              commodity := e.1.Commodity.name, amount := e.2 }

/-- **against the model**: when `Where` computes the model's two filters and `Select` the model's account mapping and column
(`hw`, `hs`: that is how `cmd/commands/balance.go`, which is not translated, sets them up), the entries that `Report.Insert` keeps
of the log grow by exactly `Balance.queryPosting` -/
theorem Query_Posting_model (cur : String → Bool) (cfg : BalCfg) (st : journal.Query.Into.State)
    (w : amounts.Key → Bool) (s : amounts.Key → amounts.Key)
    (hW : st.query.Where = some (fun k => GoSem.Outcome.ok (w k))) (hS : st.query.Select = some (fun k => GoSem.Outcome.ok (s k)))
    (hval : (st.query.Valuation = GoZero.zero) ↔ cfg.valuation = none)
    (tg : transaction.Transaction) (t : Knut.Transaction) (src : Ref) (p : Knut.Posting)
    (hw : w (keyOf st.query.Valuation tg (postingGo cur src p)) = (cfg.accountFilter p.account.name && cfg.commodityFilter p.commodity))
    (hs : ∀ amt, entryOf (s (keyOf st.query.Valuation tg (postingGo cur src p)), amt) =
      (mapAccount cfg p.account).map fun a => { date := alignIn cfg.periods t.date, account := a, commodity := p.commodity, amount := amt }) :
    ∃ st', journal.Query.Into.Posting st tg (postingGo cur src p) = GoSem.Outcome.ok (st', none) ∧ st'.query = st.query ∧
      st'.c.filterMap entryOf = st.c.filterMap entryOf ++ (Balance.queryPosting cfg t p).toList := by
  rw [Query_Posting_agrees]
  simp only [hW, hS, callFn1, GoSem.Outcome.bind, hw]
  unfold Balance.queryPosting
  by_cases hf : (cfg.accountFilter p.account.name && cfg.commodityFilter p.commodity) = true
  · simp only [hf, if_true]
    refine ⟨_, rfl, rfl, ?_⟩
    simp only [List.filterMap_append, List.filterMap_cons, List.filterMap_nil, hs]
    have hamt : (if st.query.Valuation = GoZero.zero then (postingGo cur src p).Quantity else (postingGo cur src p).Value) =
        (if cfg.valuation.isSome = true then p.value else p.quantity) := by
      by_cases hz : st.query.Valuation = GoZero.zero
      · simp [hz, hval.mp hz, postingGo]
      · have : cfg.valuation ≠ none := fun e => hz (hval.mpr e)
        have : cfg.valuation.isSome = true := by
          cases hc : cfg.valuation with
          | none => exact absurd hc this
          | some v => rfl
        simp [hz, this, postingGo]
    rw [hamt]
    cases mapAccount cfg p.account <;> simp
  · have hf' : (cfg.accountFilter p.account.name && cfg.commodityFilter p.commodity) = false := by simpa using hf
    simp only [hf', Bool.false_eq_true, if_false]
    exact ⟨st, rfl, rfl, by simp⟩

/-- non-vacuity: with the defaults of the prologue a posting is logged under its own key, with its value when valued -/
example :
    let q : journal.Query := { Select := none, Where := none, Valuation := ⟨"CHF", true⟩ }
    let b : posting.Posting := ⟨⟨0⟩, 10, 25, accountGo ⟨["Assets", "A"]⟩, accountGo ⟨["Income", "B"]⟩, ⟨"USD", false⟩⟩
    (match journal.Query.Into.Posting (journal.Query.Into.init q) ⟨⟨0⟩, 7, "x", [b], none⟩ b with
      | .ok (st, none) => st.c.map (fun e => (e.1.Date, e.1.Account.name, e.1.Commodity.name, e.2))
      | _ => []) = [(7, "Assets:A", "USD", 25)] := by decide +kernel

end Knut.FactsAgree.TransQuery
