import Knut.Proofs.PricesDays
import Knut.FactsAgree.C12
/-!
# C12 — Derived prices are consistent with declared prices

Setting: `decls` are the price declarations in journal order (day by day, file order within a
day), `insertAll [] decls = some ps` says that `Prices.Insert` accepted all of them and built
the price map `ps`, `normalize ps v` is `ps.Normalize(v)`, and `find c (normalize ps v)` is
`NormalizedPrices.Price(c)` (`none` = the "no price found" error).  `latest decls a b` is the
most recent declaration of the unordered pair `{a, b}` read as the price of `b` in `a`
(`Spec/PriceSpec.lean`).  `multiply x y = Truncate(8)(x · y)`, `recip p = Truncate(8)(Div(1, p))`.

All statements hold for every list of declarations (any graph: trees, alternative paths, cycles,
disconnected parts, self-priced commodities), every order, every redeclaration, every `v`.
Only property theorems and their non-vacuity examples live here.
-/
namespace Knut.C12
open Knut Knut.Dec Knut.Prices Knut.Spec

/-- **self**: the valuation commodity has price 1. -/
theorem C12_self (decls : List Decl) (ps : Prices) (v : Commodity) (_h : insertAll [] decls = some ps) :
    find v (normalize ps v) = some 1 :=
  normalize_self ps v

/-- **direct**: a commodity whose pair with `v` is declared gets the latest declared price of the
pair — as `Multiply(latest, 1)`, i.e. cut to 8 decimals (see `C12_direct_exact_partial`). -/
theorem C12_direct (decls : List Decl) (ps : Prices) (v c : Commodity) (p : Rat)
    (h : insertAll [] decls = some ps) (hcv : c ≠ v) (hl : latest decls v c = some p) :
    find c (normalize ps v) = some (multiply p 1) :=
  normalize_direct ps v c p hcv (by rw [edge_eq_latest decls ps h]; exact hl)

/-- "latest" spelled out: `price c p v`, not followed by another declaration of the pair, gives `c`
the price `Truncate(8)(p)` in `v` — whatever else is declared, in particular whatever indirect
chains from `c` to `v` exist (the pre-repair code could answer with such a chain instead). -/
theorem C12_direct_declared (pre post : List Decl) (d : Decl) (ps : Prices)
    (h : insertAll [] (pre ++ d :: post) = some ps) (hne : d.commodity ≠ d.target)
    (hpost : ∀ d' ∈ post, ¬ mentions d' d.target d.commodity) :
    find d.commodity (normalize ps d.target) = some (multiply d.price 1) :=
  C12_direct _ ps d.target d.commodity d.price h hne
    (latest_of_last pre post d d.target d.commodity ⟨rfl, rfl⟩ (fun e => hne e.symm) hpost)

/-- … and declared the other way round (`price v p c`), `c` gets exactly the reciprocal
`Truncate(8)(Div(1, p))`. -/
theorem C12_direct_reciprocal (pre post : List Decl) (d : Decl) (ps : Prices)
    (h : insertAll [] (pre ++ d :: post) = some ps) (hne : d.commodity ≠ d.target)
    (hpost : ∀ d' ∈ post, ¬ mentions d' d.commodity d.target) :
    find d.target (normalize ps d.commodity) = some (recip d.price) := by
  rw [← multiply_recip_one]
  exact C12_direct _ ps d.commodity d.target (recip d.price) h (fun e => hne e.symm)
    (latest_of_last_rev pre post d d.commodity d.target ⟨rfl, rfl⟩ hpost)

/- Full statement of the property's second clause: "the price is the most recent declared price
when the pair is declared directly", i.e. `find c (normalize ps v) = some p`.  This is FALSE for
the code as it stands when `p` has more than 8 decimals (`price AAA 1.123456789 CHF` gives
1.12345678): `Normalize` multiplies every stored price by the price of the commodity it was
reached from, and `Multiply` truncates.  Recorded as known finding
`direct-price-cut-to-8-decimals`.  What is proved: the declared price exactly, whenever cutting it
to 8 decimals does not change it. -/
theorem C12_direct_exact_partial (decls : List Decl) (ps : Prices) (v c : Commodity) (p : Rat)
    (h : insertAll [] decls = some ps) (hcv : c ≠ v) (hl : latest decls v c = some p)
    (h8 : trunc 8 p = p) : find c (normalize ps v) = some p := by
  rw [C12_direct decls ps v c p h hcv hl]
  simp [multiply, multiplyPlaces, Rat.mul_one, h8]

/-- in particular for every declared price with at most 8 decimals (`p = k / 10^8`). -/
theorem C12_direct_exact_8_decimals_partial (decls : List Decl) (ps : Prices) (v c : Commodity) (k : Int)
    (h : insertAll [] decls = some ps) (hcv : c ≠ v) (hl : latest decls v c = some (mkRat k (10 ^ 8))) :
    find c (normalize ps v) = some (mkRat k (10 ^ 8)) :=
  C12_direct_exact_partial decls ps v c _ h hcv hl (trunc_mkRat 8 k)

/-- **chain**: any price returned is the fold of `Multiply` along a chain of latest declared prices
starting at `v` (price 1); the chain is simple (no commodity twice). -/
theorem C12_chain (decls : List Decl) (ps : Prices) (v c : Commodity) (x : Rat)
    (h : insertAll [] decls = some ps) (hx : find c (normalize ps v) = some x) :
    ∃ path, chainFrom (latest decls) v 1 path = some (c, x) ∧ (v :: path).Nodup := by
  obtain ⟨path, h1, h2, _⟩ := normalize_chain ps v c x hx
  rw [edge_eq_latest decls ps h] at h1
  exact ⟨path, h1, h2⟩

/-- **unreachable**: a commodity has no price exactly if no chain of declarations connects it to `v`. -/
theorem C12_unreachable (decls : List Decl) (ps : Prices) (v c : Commodity)
    (h : insertAll [] decls = some ps) :
    find c (normalize ps v) = none ↔ ¬ Connected (latest decls) v c := by
  rw [← edge_eq_latest decls ps h, ← normalize_isSome_iff]
  cases find c (normalize ps v) <;> simp

/-- … so valuing it fails, and valuing a connected commodity is `Multiply(amount, price)`. -/
theorem C12_valuate_missing_is_error (np : NPrices) (c : Commodity) (a : Rat) :
    (npValuate np c a = none ↔ npPrice np c = none) ∧
    (∀ p, npPrice np c = some p → npValuate np c a = some (multiply a p)) := by
  unfold npValuate npPrice
  cases find c np <;> simp

/-- **zero rejected**: `Insert` fails exactly for a zero price … -/
theorem C12_zero_rejected (ps : Prices) (d : Decl) : insert ps d = none ↔ d.price = 0 :=
  insert_eq_none_iff ps d

/-- … hence a list of declarations is accepted exactly if none has a zero price. -/
theorem C12_zero_rejected_all (decls : List Decl) :
    insertAll [] decls = none ↔ ∃ d ∈ decls, d.price = 0 :=
  insertAll_eq_none_iff decls []

/-- **map order**: the result does not depend on the order in which Go enumerates the keys of the
price maps.  Any reordering of the outer association list, followed by any reordering of every
inner one, gives the same table (the traversal sorts the keys it ranges over, and looks up the rest). -/
theorem C12_order_irrelevant (decls : List Decl) (ps ps1 ps2 : Prices) (v : Commodity)
    (h : insertAll [] decls = some ps) (houter : ps.Perm ps1) (hinner : InnerPerm ps1 ps2) :
    normalize ps2 v = normalize ps v := by
  have hwf := wf_insertAll decls [] ps wf_nil h
  have hwf1 : WF ps1 := by
    refine ⟨(List.Perm.nodup_iff (houter.map (fun e : Commodity × NPrices => e.1))).mp hwf.1, ?_⟩
    intro c m hm
    rw [← find_perm houter hwf.1 c] at hm
    exact hwf.2 c m hm
  rw [normalize_same ps ps1 (samePrices_of_perm ps ps1 hwf houter) v,
    normalize_same ps1 ps2 (samePrices_of_innerPerm ps1 ps2 hwf1 hinner) v]

/-- the monitor's predicate holds of the model for every input … -/
theorem C12_priceOK (decls : List Decl) (ps : Prices) (v : Commodity) (h : insertAll [] decls = some ps) :
    priceOK decls v (normalize ps v) = true := by
  have he := edge_eq_latest decls ps h
  have hL := normalize_loopInv ps v
  simp only [priceOK, Bool.and_eq_true]
  refine ⟨⟨⟨?_, ?_⟩, ?_⟩, ?_⟩
  · simp [selfOK, normalize_self]
  · simp only [directOK, List.all_eq_true, Bool.or_eq_true, decide_eq_true_eq]
    intro c _
    by_cases hcv : c = v
    · exact Or.inl hcv
    · right
      cases hl : latest decls v c with
      | none => rfl
      | some p => simp [C12_direct decls ps v c p h hcv hl]
  · simp only [chainOK, List.all_eq_true]
    intro c hc
    have hs := (isSome_iff_mem_keys _ c).mpr hc
    cases hf : find c (normalize ps v) with
    | none => simp [hf] at hs
    | some x =>
      obtain ⟨path, h1, h2, h3⟩ := normalize_chain ps v c x hf
      rw [he] at h1
      have hnd := List.nodup_cons.mp h2
      apply reach_complete (latest decls) _ c x path _ [v] v 1 h1 (by omega) _ hnd.2
      · intro d hd hm
        simp only [List.mem_singleton] at hm
        subst hm; exact hnd.1 hd
      · intro d hd
        obtain ⟨a, ha⟩ := chainFrom_nodes _ _ _ _ _ h1 d hd
        cases hl : latest decls a d with
        | none => simp [hl] at ha
        | some q => exact List.mem_cons_of_mem _ (latest_mem_names decls a d q hl).2
  · simp only [closedOK, List.all_eq_true, Bool.or_eq_true, Bool.not_eq_true']
    intro c hc n _
    have hs := (isSome_iff_mem_keys _ c).mpr hc
    cases hl : latest decls c n with
    | none => left; rfl
    | some q =>
      right
      rcases hL.closed c hs with hq | hcl
      · simp at hq
      · exact hcl n (by rw [he, hl]; rfl)

/-- … and what the predicate means for any observed table `N` (in particular the real code's):
the four clauses of the property. -/
theorem C12_priceOK_sound (decls : List Decl) (v : Commodity) (N : NPrices) (h : priceOK decls v N = true) :
    find v N = some 1 ∧
    (∀ c p, c ≠ v → latest decls v c = some p → find c N = some (multiply p 1)) ∧
    (∀ c x, find c N = some x → ∃ path, chainFrom (latest decls) v 1 path = some (c, x)) ∧
    (∀ c, find c N = none ↔ ¬ Connected (latest decls) v c) :=
  priceOK_sound decls v N h

/-- **on a given day**: `journal.ComputePrices(v)` leaves in `Day.Normalized` of day `i` the table
`Normalize(v)` of the map holding all declarations of days `0 … i`, in journal order — carried over
unchanged on days without prices — and nil (no price for anything) before the first declaration. -/
theorem C12_day (v : Commodity) (days : List Day) (out : List (Int × Option NPrices))
    (h : computePrices v {} days = some out) (i : Nat) (hi : i < days.length) :
    ∃ ps, insertAll [] (declsUpTo days i) = some ps ∧
      out[i]? = some (days[i].date, if declsUpTo days i = [] then none else some (normalize ps v)) := by
  have := (computePrices_spec v days {} [] out rfl rfl h).2 i hi
  simpa using this

/-- **journal order**: `journal.Builder` turns the dated directives of a journal (in file order) into days
with strictly ascending dates, one for every date that occurs, each holding the price declarations
of its date in file order.  Together with `C12_day`: the table of a day is `Normalize` of all
declarations dated up to that day, inserted day by day, in file order within a day — so "latest"
is the last declaration of the pair in that order. -/
theorem C12_journal_order (ds : List (Int × Option Decl)) :
    (dayDates (buildDays ds)).Pairwise (· < ·) ∧
    (∀ d, d ∈ dayDates (buildDays ds) ↔ ∃ e ∈ ds, e.1 = d) ∧
    (∀ day ∈ buildDays ds, day.prices = pricesOn ds day.date) :=
  let h := buildDays_inv ds
  ⟨h.sorted, h.dates, h.prices⟩

/-- the traversal terminates for every price map: the loop is a well-founded recursion on
`unvisited + queue length`, which every pass decreases (recorded here as the fact that justifies it). -/
theorem C12_loop_measure (ps : Prices) (c : Commodity) (rest : List Commodity) (res : NPrices) :
    unvisited ps ((neighbors ps c).foldl (visit ps c) (rest, res)).2
        + ((neighbors ps c).foldl (visit ps c) (rest, res)).1.length
      < unvisited ps res + (c :: rest).length := by
  have := visitAll_measure ps c (neighbors ps c) (rest, res) (neighbors_sub_universe ps c)
  simp only [List.length_cons] at this ⊢
  omega

/-! Non-vacuity: the witness of the pre-repair defect (`AAA 2 CHF`, `BBB 3 CHF`, `AAA 5 BBB`; the old
depth-first traversal could answer 15 for AAA).  The declarations are accepted, AAA is declared
directly against CHF, and the theorems give it the price `Multiply(2, 1)`. -/
def witness : List Decl := [⟨"AAA", 2, "CHF"⟩, ⟨"BBB", 3, "CHF"⟩, ⟨"AAA", 5, "BBB"⟩]

example : ∃ ps, insertAll [] witness = some ps := ⟨_, rfl⟩
example : latest witness "CHF" "AAA" = some 2 := by decide
example : ∀ ps, insertAll [] witness = some ps → find "AAA" (normalize ps "CHF") = some (multiply 2 1) :=
  fun ps h => C12_direct witness ps "CHF" "AAA" 2 h (by decide) (by decide)
example : Connected (latest witness) "CHF" "BBB" := Connected.step Connected.refl (by decide)
example : insertAll [] [⟨"AAA", 0, "CHF"⟩] = none := by decide

end Knut.C12
