import Knut.FactsAgree.TransProcessAllBalance
/-!
# `knut balance` over a whole journal: the FAILURE direction, and the two directions together

`TransProcessAllBalance.processAllBalance_agrees_partial` says: the sequential run of the six translated stages succeeds ⇒ the model's
(re-listed) run succeeds with the same entries.  This module adds the converse from the per-day theorems:

* `fusedBalance_eq`: the six stages on one day, spelled out;
* **`balance_day_fails`**: when one of the six translated stages fails on a day (an error value, a panic or the fuel — the latter two
  never happen: the proof excludes them), `Balance.day` of the model fails on that day, from the state whose `vQty` / `cQty` are
  re-listed as Go iterates.  Only `check`, `ComputePrices` and `Valuate` can fail; `Filter`, `CloseAccounts` and `Query.Into` cannot
  (`Filter_day_agrees`, `CloseAccounts_day_agrees`, `query_day_model`);
* `RunFail`: the re-listed run of the model fails (on its first day or later) — the counterpart of `RunOrd`;
* **`processAllBalance_agrees`**: `processAllBalance … = some out` ⇒ `RunOrd` with related final states and the same entries (the old
  theorem); `processAllBalance … = none` ⇒ `RunFail`.  `processAllBalance_agrees_partial` stays as it is (other modules use it); it is
  the first half of this theorem.
-/
namespace Knut.FactsAgree.TransProcessAll
open Knut Knut.GoSem Knut.Pipeline
open Knut.Generated.Go
open Knut.FactsAgree.TransProcess Knut.FactsAgree.TransCheck Knut.FactsAgree.TransBalanceCmd
open Knut.FactsAgree.TransAccount (accountGo)
open Knut.FactsAgree.TransPrice (cGo)
open Knut.FactsAgree.TransQuery (entryOf)

/-- the six stages on one day, spelled out -/
theorem fusedBalance_eq (P : BalPar) (g1 : check.Checker) (g2 : journal.ComputePrices.State) (g3 : journal.Valuate.State)
    (g4 : journal.Filter.State) (g5 : journal.CloseAccounts.State) (g6 : journal.Query.Into.State) (dg : journal.Day) :
    fusedBalance P (((((g1, g2), g3), g4), g5), g6) dg =
      match stCheck P g1 dg with
      | .error e => .error e
      | .ok (g1', a1) =>
        match stPrices P g2 a1 with
        | .error e => .error e
        | .ok (g2', a2) =>
          match stValuate P g3 a2 with
          | .error e => .error e
          | .ok (g3', a3) =>
            match stFilter P g4 a3 with
            | .error e => .error e
            | .ok (g4', a4) =>
              match stClose P g5 a4 with
              | .error e => .error e
              | .ok (g5', a5) =>
                match stQuery g6 a5 with
                | .error e => .error e
                | .ok (g6', a6) => .ok ((((((g1', g2'), g3'), g4'), g5'), g6'), a6) := by
  unfold fusedBalance fuse
  simp only
  cases stCheck P g1 dg with
  | error e => rfl
  | ok r1 =>
    obtain ⟨g1', a1⟩ := r1
    simp only
    cases stPrices P g2 a1 with
    | error e => rfl
    | ok r2 =>
      obtain ⟨g2', a2⟩ := r2
      simp only
      cases stValuate P g3 a2 with
      | error e => rfl
      | ok r3 =>
        obtain ⟨g3', a3⟩ := r3
        simp only
        cases stFilter P g4 a3 with
        | error e => rfl
        | ok r4 =>
          obtain ⟨g4', a4⟩ := r4
          simp only
          cases stClose P g5 a4 with
          | error e => rfl
          | ok r5 =>
            obtain ⟨g5', a5⟩ := r5
            simp only
            cases stQuery g6 a5 with
            | error e => rfl
            | ok r6 => rfl

/-! ### model side: how `Balance.day` fails -/

theorem day_error_check (cfg : BalCfg) (st0 : BalState) (d : Knut.Day) (e : CheckErr) (h : Check.day st0.chk d = .error e) :
    Balance.day cfg st0 d = .error (BalErr.check e) := by
  unfold Balance.day Balance.dayTxs Balance.checkStage
  simp only [h, bind, Except.bind]

theorem day_error_val (cfg : BalCfg) (st0 : BalState) (d : Knut.Day) (c : CheckState) (e : BalErr)
    (h1 : Check.day st0.chk d = .ok c) (h2 : Balance.valuationStage cfg { st0 with chk := c } d = .error e) :
    Balance.day cfg st0 d = .error e := by
  unfold Balance.day Balance.dayTxs Balance.checkStage
  simp only [h1, bind, Except.bind, h2]

theorem relist_refl (q : Knut.AMap Position Rat) : Relist q q := fun _ => rfl

/-- the stage of `check` against the model's `Check.day`, as an alternative -/
theorem stCheck_cases (cur : String → Bool) (P : BalPar) (ho : OrdOK P.ord) {g : check.Checker} {st : CheckState}
    (h : StEquiv cur g st) (dg : journal.Day) (d : Knut.Day) (hd : DayRel cur dg d) :
    (∃ g' c, stCheck P g dg = .ok (g', dg) ∧ Check.day st d = .ok c ∧ StEquiv cur g' c) ∨
    (∃ e e', stCheck P g dg = .error e ∧ Check.day st d = .error e') := by
  have C := Check_day_agrees cur ho h dg d hd
  unfold stCheck stageOf
  revert C
  generalize processDay (checkProc P.ord) g dg = r
  cases hc : Check.day st d with
  | error e' =>
    rcases r with ⟨g', x', _ | e⟩ | m | _ <;> simp [SimStep]
  | ok c =>
    rcases r with ⟨g', x', _ | e⟩ | m | _ <;> simp [SimStep]
    intro hg hx
    subst hx
    exact ⟨g', ⟨rfl, rfl⟩, hg⟩

/-- **a failing day**: when one of the six translated stages fails, the model's day fails (from the state re-listed as Go iterates) -/
theorem balance_day_fails (cur : String → Bool) (cfg : BalCfg) (P : BalPar) (q : journal.Query) (hP : ParOK cur cfg P q)
    {G : FusedState} {st : BalState} (hI : BalInv cur cfg q G st)
    (dg : journal.Day) (d : Knut.Day) (hd : DayRel cur dg d) (hwf : QueryWf cfg d) {e : PErr}
    (hgo : fusedBalance P G dg = .error e) :
    ∃ vq cq e', Relist st.vQty vq ∧ Relist st.cQty cq ∧ (cfg.valuation = none → vq = st.vQty) ∧ (cfg.close = false → cq = st.cQty) ∧
      Balance.day cfg { st with vQty := vq, cQty := cq } d = .error e' := by
  obtain ⟨⟨⟨⟨⟨g1, g2⟩, g3⟩, g4⟩, g5⟩, g6⟩ := G
  rw [fusedBalance_eq] at hgo
  have hchk0 : StEquiv cur g1 st.chk := hI.chk
  refine (stCheck_cases cur P hP.ord hchk0 dg d hd).elim ?_ (fun ⟨e1, e1', _, hc⟩ =>
    ⟨st.vQty, st.cQty, _, relist_refl _, relist_refl _, fun _ => rfl, fun _ => rfl, day_error_check cfg _ d e1' hc⟩)
  rintro ⟨g1', c, h1, hc, hchk⟩
  simp only [h1] at hgo
  -- stages 2 and 3 fail, or succeed
  have hval := hP.val
  have hseg : (∃ vq, Relist st.vQty vq ∧ (cfg.valuation = none → vq = st.vQty) ∧
        ∀ cq, ∃ e', Balance.valuationStage cfg { st with chk := c, vQty := vq, cQty := cq } d = .error e') ∨
      (∃ g2' dg2 g3' dg3, stPrices P g2 dg = .ok (g2', dg2) ∧ stValuate P g3 dg2 = .ok (g3', dg3)) := by
    cases hv : cfg.valuation with
    | none =>
      rw [hv] at hval
      simp only [Option.map_none] at hval
      right
      exact ⟨g2, dg, g3, dg, by unfold stPrices; rw [hval]; rfl, by unfold stValuate; rw [hval]; rfl⟩
    | some v =>
      rw [hv] at hval
      simp only [Option.map_some] at hval
      have hsome : cfg.valuation.isSome = true := by rw [hv]; rfl
      have hcp0 := hI.cp hsome
      obtain ⟨old, hve⟩ := hI.va hsome
      simp only at hcp0 hve
      have hp2 : stPrices P g2 dg = stageOf (fun st d => processDay (computePricesProc (cGo cur v) (P.fuel st d)) st d) g2 dg := by
        unfold stPrices; rw [hval]
      have hp3 : ∀ x, stValuate P g3 x = stageOf (fun st d => processDay (valuateProc (cGo cur v) P.ext1 (P.oV st d)) st d) g3 x := by
        intro x; unfold stValuate; rw [hval]
      have A : ∀ s1 : BalState, s1.graph = st.graph → s1.norm = st.norm → _ := fun s1 e1 e2 =>
        ComputePrices_day_agrees cur v (P.fuel g2 dg) s1 (by rw [e1, e2]; exact hcp0) dg d hd.prices
          (fun graph' hg => hP.fuel v hv g2 dg _ _ d hcp0 hd.prices graph' (by rw [← e1]; exact hg))
      cases hr2 : processDay (computePricesProc (cGo cur v) (P.fuel g2 dg)) g2 dg with
      | panic m =>
        have := A st rfl rfl; rw [hr2] at this; revert this; cases Balance.pricesDay v st d <;> simp
      | outOfFuel =>
        have := A st rfl rfl; rw [hr2] at this; revert this; cases Balance.pricesDay v st d <;> simp
      | ok r2 =>
        obtain ⟨g2', x2, e2⟩ := r2
        cases e2 with
        | some ee =>
          left
          refine ⟨st.vQty, relist_refl _, fun _ => rfl, ?_⟩
          intro cq
          have := A { st with chk := c, vQty := st.vQty, cQty := cq } rfl rfl
          rw [hr2] at this
          revert this
          unfold Balance.valuationStage
          simp only [hv, bind, Except.bind]
          cases hpd : Balance.pricesDay v { st with chk := c, vQty := st.vQty, cQty := cq } d with
          | ok sp => simp
          | error e' => intro _; exact ⟨e', rfl⟩
        | none =>
          -- prices succeeded: the day that reaches `Valuate` is `x2`
          have hvq := relist_of_QEquiv hve.qty _ (hP.oV g3 x2)
          have hB : ∀ cq, match processDay (valuateProc (cGo cur v) P.ext1 (P.oV g3 x2)) g3 x2,
              Balance.valuationStage cfg { st with chk := c, vQty := qtyIn g3.quantities (P.oV g3 x2), cQty := cq } d with
              | .ok (_, _, none), .ok _ => True
              | .ok (_, _, some _), .error _ => True
              | _, _ => False := by
            intro cq
            have A1 := A { st with chk := c, vQty := qtyIn g3.quantities (P.oV g3 x2), cQty := cq } rfl rfl
            rw [hr2] at A1
            unfold Balance.valuationStage
            simp only [hv, bind, Except.bind]
            cases hpd : Balance.pricesDay v { st with chk := c, vQty := qtyIn g3.quantities (P.oV g3 x2), cQty := cq } d with
            | error e' => rw [hpd] at A1; exact absurd A1 (by simp)
            | ok sp =>
              rw [hpd] at A1
              simp only at A1 ⊢
              obtain ⟨hcp1, hx2, hvp, hvq'⟩ := A1
              have hve' : VEquiv cur g3 sp.vPrev old st.vQty := by rw [hvp]; exact hve
              have hn : NPEquivO cur x2.Normalized sp.norm := by rw [hx2]; exact hcp1.previous
              have B := Valuate_day_agrees cur v P.ext1 hP.ext1 sp hve' (P.oV g3 x2) (hP.oV g3 x2) x2 d
                (by rw [hx2]; exact hd.date) hn (by rw [hx2]; exact hd.transactions)
              have esp : ({ sp with vQty := qtyIn g3.quantities (P.oV g3 x2) } : BalState) = sp := by
                have : sp.vQty = qtyIn g3.quantities (P.oV g3 x2) := hvq'
                cases sp
                simp only at this
                subst this
                rfl
              rw [esp] at B
              revert B
              generalize processDay (valuateProc (cGo cur v) P.ext1 (P.oV g3 x2)) g3 x2 = r
              rcases r with ⟨g', x', _ | e'⟩ | m | _ <;> cases Balance.valuateDay v sp d <;> simp
          cases hr3 : processDay (valuateProc (cGo cur v) P.ext1 (P.oV g3 x2)) g3 x2 with
          | ok r3 =>
            obtain ⟨g3', x3, e3⟩ := r3
            cases e3 with
            | none =>
              right
              refine ⟨g2', x2, g3', x3, ?_, ?_⟩
              · rw [hp2]; unfold stageOf; dsimp only; rw [hr2]
              · rw [hp3]; unfold stageOf; dsimp only; rw [hr3]
            | some ee =>
              left
              refine ⟨qtyIn g3.quantities (P.oV g3 x2), hvq, (fun h => by cases h), fun cq => ?_⟩
              have := hB cq
              rw [hr3] at this
              revert this
              cases Balance.valuationStage cfg { st with chk := c, vQty := qtyIn g3.quantities (P.oV g3 x2), cQty := cq } d <;> simp
          | panic m =>
            have := hB st.cQty
            rw [hr3] at this
            revert this
            cases Balance.valuationStage cfg { st with chk := c, vQty := qtyIn g3.quantities (P.oV g3 x2), cQty := st.cQty } d <;> simp
          | outOfFuel =>
            have := hB st.cQty
            rw [hr3] at this
            revert this
            cases Balance.valuationStage cfg { st with chk := c, vQty := qtyIn g3.quantities (P.oV g3 x2), cQty := st.cQty } d <;> simp
  rcases hseg with ⟨vq, hrv, hvn, hfail⟩ | ⟨g2', dg2, g3', dg3, h2, h3⟩
  · obtain ⟨e', he'⟩ := hfail st.cQty
    exact ⟨vq, st.cQty, e', hrv, relist_refl _, hvn, fun _ => rfl, day_error_val cfg _ d c e' hc he'⟩
  -- stages 1-3 succeeded: `Filter`, `CloseAccounts` and `Query.Into` cannot fail
  exfalso
  simp only [h2, h3] at hgo
  obtain ⟨part, hpart, hspan⟩ := hP.part
  have hcp : cfg.valuation.isSome → CPEquiv cur g2 st.graph st.norm := hI.cp
  have hva : cfg.valuation.isSome → ∃ old, VEquiv cur g3 st.vPrev old st.vQty := hI.va
  have hclI : cfg.close = true → CEquiv cur g5 (cfg.periods.map (·.start)) st.cQty st.cVal := hI.cl
  have hquI : g6.query = q := hI.qu
  -- a first pass to learn the day that leaves `Filter`
  obtain ⟨_, _, txs0, _, _, _, _, _, _, _, _, _, hdate3, htx30⟩ :=
    valuation_segment cur cfg P q hP { st with chk := c } hcp hva dg dg2 dg3 d hd h2 h3
  obtain ⟨l4, hf0, _⟩ := Filter_day_agrees cur cfg part hspan g4 dg3 d (by rw [hdate3]; exact hd.date) txs0 htx30
  have h4 : stFilter P g4 dg3 = .ok (g4, { dg3 with Transactions := l4 }) := by
    unfold stFilter; rw [hpart]; exact stageOf_ok hf0
  simp only [h4] at hgo
  -- the re-listed `cQty`
  have hrelc : ∃ cq, (cfg.close = true → cq = qtyIn g5.quantities (P.oC g5 { dg3 with Transactions := l4 })) := by
    by_cases hcl : cfg.close = true
    · exact ⟨qtyIn g5.quantities (P.oC g5 { dg3 with Transactions := l4 }), fun _ => rfl⟩
    · exact ⟨st.cQty, fun h => absurd h hcl⟩
  obtain ⟨cq, hcy⟩ := hrelc
  obtain ⟨vq, s2, txs, _, _, hvs, _, _, _, e2, e3, _, _, htx3⟩ :=
    valuation_segment cur cfg P q hP { st with chk := c, cQty := cq } hcp hva dg dg2 dg3 d hd h2 h3
  obtain ⟨l4', hf, htx4⟩ := Filter_day_agrees cur cfg part hspan g4 dg3 d (by rw [hdate3]; exact hd.date) txs htx3
  have el : l4' = l4 := by
    rw [hf0] at hf
    injection hf with hf
    injection hf with _ hf
    injection hf with hf _
    injection hf with _ _ _ _ ht
    exact ht.symm
  subst el
  have hdate4 : ({ dg3 with Transactions := l4' } : journal.Day).Date = d.date := by
    show dg3.Date = d.date; rw [hdate3]; exact hd.date
  -- stage 5 cannot fail
  have h5 : ∃ g5' dg5, stClose P g5 { dg3 with Transactions := l4' } = .ok (g5', dg5) := by
    unfold stClose
    rw [hP.close]
    by_cases hcl : cfg.close = true
    · simp only [hcl, if_true]
      obtain ⟨g', l, hgo5, _, _⟩ := CloseAccounts_day_agrees cur cfg hcl s2 (q := st.cQty) (by rw [e3]; exact hclI hcl)
        (P.oC g5 { dg3 with Transactions := l4' }) (hP.oC g5 _) { dg3 with Transactions := l4' } d hdate4
        (Balance.filterStage cfg d txs) htx4
      exact ⟨g', _, stageOf_ok hgo5⟩
    · simp only [hcl, Bool.false_eq_true, if_false, idStage]
      exact ⟨_, _, rfl⟩
  obtain ⟨g5', dg5, h5⟩ := h5
  simp only [h5] at hgo
  obtain ⟨_, _, htx5⟩ := close_segment cur cfg P q hP s2 (q0 := st.cQty) (fun h => by rw [e3]; exact hclI h)
    { dg3 with Transactions := l4' } dg5 d hdate4 (Balance.filterStage cfg d txs) htx4 (fun h => by rw [e2]; exact hcy h) h5
  -- stage 6 cannot fail
  have hx := day_of_parts cfg { st with vQty := vq, cQty := cq } d c s2 txs hc hvs
  obtain ⟨g6'', hq6, _, _⟩ := query_day_model hP.query g6 hquI dg5 _ htx5 (hwf _ _ _ hx.1)
  have h6 : stQuery g6 dg5 = .ok (g6'', dg5) := stageOf_ok hq6
  simp only [h6] at hgo
  cases hgo

/-! ### the whole journal -/

/-- the re-listed run of the model fails (on its first day, or later): the counterpart of `RunOrd` -/
inductive RunFail (cfg : BalCfg) : BalState → List Knut.Day → Prop
  | here {st : BalState} {d : Knut.Day} {ds : List Knut.Day} {e : BalErr} (vq cq : Knut.AMap Position Rat) :
      Relist st.vQty vq → Relist st.cQty cq → (cfg.valuation = none → vq = st.vQty) → (cfg.close = false → cq = st.cQty) →
      Balance.day cfg { st with vQty := vq, cQty := cq } d = .error e → RunFail cfg st (d :: ds)
  | later {st st1 : BalState} {d : Knut.Day} {ds : List Knut.Day} (vq cq : Knut.AMap Position Rat) :
      Relist st.vQty vq → Relist st.cQty cq → (cfg.valuation = none → vq = st.vQty) → (cfg.close = false → cq = st.cQty) →
      Balance.day cfg { st with vQty := vq, cQty := cq } d = .ok st1 → RunFail cfg st1 ds → RunFail cfg st (d :: ds)

/-- without valuation and closing no map is ranged over: a failing re-listed run is a failing `Balance.run` -/
theorem run_fails_of_RunFail (cfg : BalCfg) (hv : cfg.valuation = none) (hc : cfg.close = false) :
    ∀ (days : List Knut.Day) (st : BalState), RunFail cfg st days → ∃ e, days.foldlM (Balance.day cfg) st = .error e := by
  intro days st h
  induction h with
  | here vq cq _ _ h1 h2 hd =>
    rw [h1 hv, h2 hc] at hd
    exact ⟨_, by simp only [List.foldlM_cons, bind, Except.bind]; rw [hd]⟩
  | later vq cq _ _ h1 h2 hd _ ih =>
    rw [h1 hv, h2 hc] at hd
    obtain ⟨e, he⟩ := ih
    exact ⟨e, by simp only [List.foldlM_cons, bind, Except.bind]; rw [hd]; exact he⟩

theorem runDays_error_of_seqStage {σ α ε : Type} {f : σ → α → Except ε (σ × α)} {l : List α} {s : σ}
    (h : seqStage f s l = none) : ∃ e, runDays f s l = .error e := by
  cases hr : runDays f s l with
  | error e => exact ⟨e, rfl⟩
  | ok r =>
    obtain ⟨s', out⟩ := r
    rw [seqStage_of_runDays hr] at h
    cases h

/-- **the failure direction over the journal**, by induction over the days -/
theorem balance_runDays_fails (cur : String → Bool) (cfg : BalCfg) (P : BalPar) (q : journal.Query) (hP : ParOK cur cfg P q) :
    ∀ (days : List Knut.Day) (gdays : List journal.Day), DaysRel cur gdays days → (∀ d ∈ days, QueryWf cfg d) →
      ∀ (G : FusedState) (st : BalState) (e : PErr), BalInv cur cfg q G st →
        runDays (fusedBalance P) G gdays = .error e → RunFail cfg st days := by
  intro days gdays hrel
  induction hrel with
  | nil =>
    intro _ G st e _ h
    simp only [runDays] at h
    cases h
  | @cons dg d gds ds hd _ ih =>
    intro hwf G st e hI h
    simp only [runDays] at h
    cases hf : fusedBalance P G dg with
    | error e1 =>
      obtain ⟨vq, cq, e', r1, r2, r3, r4, hday⟩ := balance_day_fails cur cfg P q hP hI dg d hd (hwf d List.mem_cons_self) hf
      exact .here vq cq r1 r2 r3 r4 hday
    | ok r =>
      obtain ⟨G1, dg'⟩ := r
      rw [hf] at h
      simp only at h
      obtain ⟨vq, cq, st1, r1, r2, r3, r4, hday, hI1⟩ :=
        balance_day_agrees cur cfg P q hP hI dg dg' d hd (hwf d List.mem_cons_self) hf
      cases hr : runDays (fusedBalance P) G1 gds with
      | ok r2' =>
        obtain ⟨G2, l'⟩ := r2'
        rw [hr] at h
        simp only at h
        cases h
      | error e2 =>
        exact .later vq cq r1 r2 r3 r4 hday (ih (fun d' hd' => hwf d' (List.mem_cons_of_mem _ hd')) G1 st1 e2 hI1 hr)

/-- the Go sequential run fails ⇒ the model's (re-listed) run fails -/
theorem processAllBalance_fails (cur : String → Bool) (cfg : BalCfg) (P : BalPar) (q : journal.Query) (hP : ParOK cur cfg P q)
    (G0 : BalGo) (hinit : BalInv cur cfg q (fusedInit G0) {}) (gdays : List journal.Day) (days : List Knut.Day)
    (hdays : DaysRel cur gdays days) (hwf : ∀ d ∈ days, QueryWf cfg d)
    (h : processAllBalance P G0 gdays = none) : RunFail cfg {} days := by
  rw [processAllBalance_eq] at h
  obtain ⟨e, he⟩ := runDays_error_of_seqStage h
  exact balance_runDays_fails cur cfg P q hP days gdays hdays hwf _ {} e hinit he

/-- **`Journal.Process` of `knut balance` over a whole journal = the model's run, both directions** (`Balance.run`, its two
association lists re-listed before each day in the order Go iterates): for EVERY admissible family of iteration orders and fuels
(`ParOK`) the sequential run of the six translated stages succeeds ⇒ the model's run succeeds on the days the Go days stand for, the
final captured states stand for the model's final state and the entries `Report.Insert` keeps of the log of `Query.Into` are
`st.entries`; it fails ⇒ the model's run fails. -/
theorem processAllBalance_agrees (cur : String → Bool) (cfg : BalCfg) (P : BalPar) (q : journal.Query) (hP : ParOK cur cfg P q)
    (G0 : BalGo) (hinit : BalInv cur cfg q (fusedInit G0) {}) (gdays : List journal.Day) (days : List Knut.Day)
    (hdays : DaysRel cur gdays days) (hwf : ∀ d ∈ days, QueryWf cfg d) :
    match processAllBalance P G0 gdays with
    | some out => ∃ G' st, runDays (fusedBalance P) (fusedInit G0) gdays = .ok (G', out) ∧ RunOrd cfg {} days st ∧
        BalInv cur cfg q G' st ∧ G'.2.c.filterMap entryOf = st.entries
    | none => RunFail cfg {} days := by
  cases h : processAllBalance P G0 gdays with
  | some out => exact processAllBalance_agrees_partial cur cfg P q hP G0 hinit gdays days hdays hwf out h
  | none => exact processAllBalance_fails cur cfg P q hP G0 hinit gdays days hdays hwf h

end Knut.FactsAgree.TransProcessAll
