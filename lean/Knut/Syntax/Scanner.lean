import Knut.Basic.Utf8
import Knut.Syntax.CharClass
import Knut.Syntax.Tree
/-!
# Model of `lib/syntax/scanner`

Go state `(text, offset, current, currentLen)` becomes `St = (off, toks)`: `toks` are the not yet consumed
results of `DecodeRuneInString` starting at `off`; its head is `current` (with `currentLen` = its width), the
empty list is `current = EOF`. `DecodeRuneInString` never yields `rune(-1)`, so "`Current() == EOF`" is
`toks = []`. Calling `Advance` at EOF makes Go store `(RuneError, 0)` as current rune: the zero-width
pseudo token `eofTok` (the next `Advance` turns it into EOF again, exactly as in Go).

Every function returns the new state in both outcomes (`Res.ok` / `Res.err`), because the callers build the
ranges of their errors from the offset reached. Errors are the chain of `directives.Error` values,
innermost first.
-/
namespace Knut.Syntax
open Knut.Utf8

/-- one link of a Go error chain -/
inductive Frame where
  /-- `directives.Error{Message, Range}` pointing into the parsed text -/
  | at (msg : String) (r : Range)
  /-- `directives.Error{}`: empty message, zero range, empty text and path -/
  | zero
  /-- `io.EOF` -/
  | eof
  deriving DecidableEq, Repr, Inhabited

/-- error chain, innermost (root cause) first; `Annotate` appends -/
abbrev Err := List Frame

structure St where
  off : Nat
  toks : List Tok
  deriving Repr, Inhabited

inductive Res (α : Type) where
  | ok (a : α) (s : St)
  | err (e : Err) (s : St)
  deriving Repr, Inhabited

def Res.st {α} : Res α → St
  | .ok _ s => s
  | .err _ s => s

@[simp] theorem Res.st_ok {α} (a : α) (s : St) : (Res.ok a s).st = s := rfl
@[simp] theorem Res.st_err {α} (e : Err) (s : St) : (Res.err e s : Res α).st = s := rfl

/-- sequencing with the error decoration of the call site (`return …, s.Annotate(err)`) -/
@[inline] def Res.bind {α β} (r : Res α) (onErr : Err → St → Err) (f : α → St → Res β) : Res β :=
  match r with
  | .ok a s => f a s
  | .err e s => .err (onErr e s) s

/-- `Scanner.Current` -/
def cur (s : St) : Nat :=
  match s.toks with
  | [] => EOF
  | t :: _ => t.r

/-- `Current() == EOF` -/
def atEOF (s : St) : Bool := s.toks.isEmpty

/-- `Scope.Range()` of a scope opened at `start` -/
def rng (start : Nat) (s : St) : Range := ⟨start, s.off⟩

/-- `Scope.Annotate` -/
def annotate (desc : String) (start : Nat) (e : Err) (s : St) : Err :=
  e ++ [Frame.at ("while " ++ desc) (rng start s)]

/-- the current rune after `Advance` at EOF: `DecodeRuneInString("") = (RuneError, 0)` -/
def eofTok : Tok := ⟨runeError, []⟩

/-- `%c` -/
def runeStr (r : Nat) : String :=
  if r.isValidChar then String.singleton (Char.ofNat r) else "�"

/-- `Advance` when the current token is `t` and `rest` follows it -/
def advanceTok (off : Nat) (t : Tok) (rest : List Tok) : Res Unit :=
  let off' := off + t.bytes.length
  match rest with
  | [] => .ok () ⟨off', []⟩
  | u :: _ =>
    if u.invalid then .err [Frame.at "invalid unicode character" ⟨off', off'⟩] ⟨off', rest⟩
    else .ok () ⟨off', rest⟩

/-- `Scanner.Advance` -/
def advance (s : St) : Res Unit :=
  match s.toks with
  | [] => .err [Frame.at "unexpected end of file" ⟨s.off, s.off⟩] ⟨s.off, [eofTok]⟩
  | t :: rest => advanceTok s.off t rest

/-- the first `Advance` on a fresh scanner (`current = 0`, `currentLen = 0`, `offset = 0`) -/
def start (toks : List Tok) : Res Unit :=
  match toks with
  | [] => .ok () ⟨0, []⟩
  | u :: _ =>
    if u.invalid then .err [Frame.at "invalid unicode character" ⟨0, 0⟩] ⟨0, toks⟩
    else .ok () ⟨0, toks⟩

/-- the loop of `ReadWhile`/`ReadWhile1`: `for pred(Current()) && Current() != EOF { Advance }` -/
def readWhileL (p : Nat → Bool) (start off : Nat) : List Tok → Res Range
  | [] => .ok ⟨start, off⟩ ⟨off, []⟩
  | t :: rest =>
    if p t.r then
      match advanceTok off t rest with
      | .ok _ _ => readWhileL p start (off + t.bytes.length) rest
      | .err e s' => .err (e ++ [Frame.at "reading next character" (rng start s')]) s'
    else .ok ⟨start, off⟩ ⟨off, t :: rest⟩

/-- `Scanner.ReadWhile` -/
def readWhile (p : Nat → Bool) (s : St) : Res Range := readWhileL p s.off s.off s.toks

/-- `Scanner.ReadWhile1` -/
def readWhile1 (desc : String) (p : Nat → Bool) (s : St) : Res Range :=
  if atEOF s then .err [Frame.at ("unexpected end of file, want " ++ desc) (rng s.off s)] s
  else if !p (cur s) then
    .err [Frame.at ("unexpected character `" ++ runeStr (cur s) ++ "`, want " ++ desc) (rng s.off s)] s
  else readWhileL p s.off s.off s.toks

/-- the loop of `ReadUntil` -/
def readUntilL (desc : String) (p : Nat → Bool) (start off : Nat) : List Tok → Res Range
  | [] =>
    if p EOF then .ok ⟨start, off⟩ ⟨off, []⟩
    else .err [Frame.at "unexpected end of file" ⟨off, off⟩, Frame.at "reading next character" ⟨start, off⟩] ⟨off, [eofTok]⟩
  | t :: rest =>
    if p t.r then .ok ⟨start, off⟩ ⟨off, t :: rest⟩
    else
      match advanceTok off t rest with
      | .err e s' => .err (e ++ [Frame.at "reading next character" (rng start s')]) s'
      | .ok _ s' =>
        match rest with
        | [] => .err [Frame.at ("unexpected end of file, want " ++ desc) (rng start s')] s'
        | _ :: _ => readUntilL desc p start (off + t.bytes.length) rest

/-- `Scanner.ReadUntil` -/
def readUntil (desc : String) (p : Nat → Bool) (s : St) : Res Range := readUntilL desc p s.off s.off s.toks

/-- `Scanner.ReadCharacter` -/
def readCharacter (r : Nat) (s : St) : Res Range :=
  if atEOF s then .err [Frame.at ("unexpected end of file, want `" ++ runeStr r ++ "`") (rng s.off s)] s
  else if cur s != r then
    .err [Frame.at ("unexpected character `" ++ runeStr (cur s) ++ "`, want `" ++ runeStr r ++ "`") (rng s.off s)] s
  else
    match advance s with
    | .ok _ s' => .ok (rng s.off s') s'
    | .err e s' => .err (e ++ [Frame.at "reading next character" (rng s.off s')]) s'

/-- `Scanner.ReadCharacterWith` -/
def readCharacterWith (desc : String) (p : Nat → Bool) (s : St) : Res Range :=
  if atEOF s then .err [Frame.at ("unexpected end of file, want " ++ desc) (rng s.off s)] s
  else if !p (cur s) then
    .err [Frame.at ("unexpected character `" ++ runeStr (cur s) ++ "`, want " ++ desc) (rng s.off s)] s
  else
    match advance s with
    | .ok _ s' => .ok (rng s.off s') s'
    | .err e s' => .err (e ++ [Frame.at "reading next character" (rng s.off s')]) s'

/-- `%q` of a keyword (the parser only passes plain ASCII words) -/
def quoteStr (str : String) : String := "\"" ++ str ++ "\""

/-- the loop of `ReadString` over the runes of `str` -/
def readStringL (str : String) (start : Nat) : List Nat → St → Res Range
  | [], s => .ok (rng start s) s
  | ch :: chs, s =>
    if ch != cur s then .err [Frame.at ("while reading " ++ quoteStr str) (rng start s)] s
    else
      match advance s with
      | .ok _ s' => readStringL str start chs s'
      | .err e s' => .err (e ++ [Frame.at ("while reading " ++ quoteStr str) (rng start s')]) s'

def runesOf (str : String) : List Nat := str.toList.map Char.toNat

/-- `Scanner.ReadString` -/
def readString (str : String) (s : St) : Res Range := readStringL str s.off (runesOf str) s

/-- `scanner.format` -/
def formatAlts (ss : List String) : String :=
  "{" ++ ", ".intercalate (ss.map (fun s => "`" ++ s ++ "`")) ++ "}"

/-- the loop of `ReadAlternative`; `Backtrack(sc.Start)` re-establishes the state `s` -/
def readAltL (all : List String) (s : St) : List String → Res (Range × String)
  | [] => .err [Frame.at ("unexpected input, want one of " ++ formatAlts all) (rng s.off s)] s
  | t :: ts =>
    match readString t s with
    | .ok r s' => .ok (r, t) s'
    | .err _ _ => readAltL all s ts

/-- `Scanner.ReadAlternative`; also returns the alternative that matched (Go callers recover it as
`r.Extract()`, which is that string because `ReadString` compared it rune by rune). -/
def readAlternative (ss : List String) (s : St) : Res (Range × String) :=
  if atEOF s then .err [Frame.at ("unexpected end of file, want one of " ++ formatAlts ss) (rng s.off s)] s
  else readAltL ss s ss

/-- `Scanner.ReadN` -/
def readNL (n : Nat) (start : Nat) : Nat → St → Res Range
  | 0, s => .ok (rng start s) s
  | k + 1, s =>
    let msg := "while reading " ++ toString (n - (k + 1)) ++ " of " ++ toString n ++ " characters"
    if atEOF s then .err [Frame.eof, Frame.at msg (rng start s)] s
    else
      match advance s with
      | .ok _ s' => readNL n start k s'
      | .err e s' => .err (e ++ [Frame.at msg (rng start s')]) s'

def readN (n : Nat) (s : St) : Res Range := readNL n s.off n s

/-! ## Consumption: what a call does to the state -/

/-- `s'` is `s` after consuming the tokens `c` -/
def Consumed (s : St) (c : List Tok) (s' : St) : Prop := s.toks = c ++ s'.toks ∧ s'.off = s.off + wsum c

/-- `s'` is reached from `s` by consuming tokens -/
def Ext (s s' : St) : Prop := ∃ c, Consumed s c s'

/-- … at least one token -/
def ExtS (s s' : St) : Prop := ∃ c, c ≠ [] ∧ Consumed s c s'

theorem Ext.refl (s : St) : Ext s s := ⟨[], by simp [Consumed]⟩

theorem Ext.trans {a b c : St} (h1 : Ext a b) (h2 : Ext b c) : Ext a c := by
  obtain ⟨c1, h1a, h1b⟩ := h1
  obtain ⟨c2, h2a, h2b⟩ := h2
  exact ⟨c1 ++ c2, by simp [h1a, h2a], by simp [h1b, h2b]; omega⟩

theorem ExtS.ext {a b : St} (h : ExtS a b) : Ext a b := by
  obtain ⟨c, _, h⟩ := h; exact ⟨c, h⟩

theorem ExtS.trans_ext {a b c : St} (h1 : ExtS a b) (h2 : Ext b c) : ExtS a c := by
  obtain ⟨c1, hn, h1a, h1b⟩ := h1
  obtain ⟨c2, h2a, h2b⟩ := h2
  exact ⟨c1 ++ c2, by simp [hn], by simp [h1a, h2a], by simp [h1b, h2b]; omega⟩

theorem Ext.trans_extS {a b c : St} (h1 : Ext a b) (h2 : ExtS b c) : ExtS a c := by
  obtain ⟨c1, h1a, h1b⟩ := h1
  obtain ⟨c2, hn, h2a, h2b⟩ := h2
  exact ⟨c1 ++ c2, by simp [hn], by simp [h1a, h2a], by simp [h1b, h2b]; omega⟩

theorem Ext.length_le {a b : St} (h : Ext a b) : b.toks.length ≤ a.toks.length := by
  obtain ⟨c, h, _⟩ := h; rw [h]; simp

theorem ExtS.length_lt {a b : St} (h : ExtS a b) : b.toks.length < a.toks.length := by
  obtain ⟨c, hn, h, _⟩ := h
  rw [h]
  have : 0 < c.length := List.length_pos_iff.mpr hn
  simp; omega

theorem Ext.off_le {a b : St} (h : Ext a b) : a.off ≤ b.off := by
  obtain ⟨c, _, h⟩ := h; omega

theorem atEOF_false_iff (s : St) : atEOF s = false ↔ ∃ t rest, s.toks = t :: rest := by
  unfold atEOF
  cases s.toks <;> simp

theorem advanceTok_st (off : Nat) (t : Tok) (rest : List Tok) :
    (advanceTok off t rest).st = ⟨off + t.bytes.length, rest⟩ := by
  unfold advanceTok
  cases rest with
  | nil => rfl
  | cons u r => simp only; split <;> rfl

theorem advance_extS (s : St) (h : atEOF s = false) : ExtS s (advance s).st := by
  obtain ⟨t, rest, ht⟩ := (atEOF_false_iff s).mp h
  unfold advance
  rw [ht]
  simp only [advanceTok_st]
  exact ⟨[t], by simp, by simp [Consumed, ht]⟩

theorem readWhileL_ext (p : Nat → Bool) (start off : Nat) (toks : List Tok) :
    Ext ⟨off, toks⟩ (readWhileL p start off toks).st := by
  induction toks generalizing off with
  | nil => exact Ext.refl _
  | cons t rest ih =>
    unfold readWhileL
    split
    · have hst := advanceTok_st off t rest
      have step : Ext ⟨off, t :: rest⟩ ⟨off + t.bytes.length, rest⟩ := ⟨[t], by simp [Consumed]⟩
      split
      · exact step.trans (ih _)
      · rename_i e s' heq
        rw [heq] at hst
        simp only [Res.st_err] at hst ⊢
        rw [hst]; exact step
    · exact Ext.refl _

theorem readWhile_ext (p : Nat → Bool) (s : St) : Ext s (readWhile p s).st :=
  readWhileL_ext p s.off s.off s.toks

theorem readWhileL_extS (p : Nat → Bool) (start off : Nat) (t : Tok) (rest : List Tok) (hp : p t.r = true) :
    ExtS ⟨off, t :: rest⟩ (readWhileL p start off (t :: rest)).st := by
  have step : ExtS ⟨off, t :: rest⟩ ⟨off + t.bytes.length, rest⟩ := ⟨[t], by simp, by simp [Consumed]⟩
  have hst := advanceTok_st off t rest
  rw [readWhileL]
  simp only [hp, if_true]
  split
  · exact step.trans_ext (readWhileL_ext _ _ _ _)
  · rename_i e s' heq
    rw [heq] at hst
    simp only [Res.st_err] at hst ⊢
    rw [hst]; exact step

theorem readWhile1_ext (desc : String) (p : Nat → Bool) (s : St) : Ext s (readWhile1 desc p s).st := by
  unfold readWhile1
  split
  · exact Ext.refl _
  · split
    · exact Ext.refl _
    · exact readWhileL_ext p s.off s.off s.toks

theorem readWhile1_extS (desc : String) (p : Nat → Bool) (s s' : St) (r : Range)
    (h : readWhile1 desc p s = .ok r s') : ExtS s s' := by
  unfold readWhile1 at h
  split at h
  · cases h
  · rename_i hE
    split at h
    · cases h
    · rename_i hp
      obtain ⟨t, rest, ht⟩ := (atEOF_false_iff s).mp (by simpa using hE)
      have hp' : p t.r = true := by simpa [cur, ht] using hp
      have := readWhileL_extS p s.off s.off t rest hp'
      rw [ht] at h
      rw [h] at this
      simpa [← ht] using this

theorem readCharacter_ext (r : Nat) (s : St) : Ext s (readCharacter r s).st := by
  unfold readCharacter
  split
  · exact Ext.refl _
  · rename_i hE
    split
    · exact Ext.refl _
    · have := (advance_extS s (by simpa using hE)).ext
      split <;> simp_all

theorem readCharacter_extS (r : Nat) (s s' : St) (x : Range) (h : readCharacter r s = .ok x s') : ExtS s s' := by
  unfold readCharacter at h
  split at h
  · cases h
  · rename_i hE
    split at h
    · cases h
    · have := advance_extS s (by simpa using hE)
      split at h <;> simp_all

theorem readCharacterWith_ext (desc : String) (p : Nat → Bool) (s : St) : Ext s (readCharacterWith desc p s).st := by
  unfold readCharacterWith
  split
  · exact Ext.refl _
  · rename_i hE
    split
    · exact Ext.refl _
    · have := (advance_extS s (by simpa using hE)).ext
      split <;> simp_all

theorem readCharacterWith_extS (desc : String) (p : Nat → Bool) (s s' : St) (x : Range)
    (h : readCharacterWith desc p s = .ok x s') : ExtS s s' := by
  unfold readCharacterWith at h
  split at h
  · cases h
  · rename_i hE
    split at h
    · cases h
    · have := advance_extS s (by simpa using hE)
      split at h <;> simp_all

theorem cur_ne_eof_of_eq {s : St} {ch : Char} (h : ch.toNat = cur s) : atEOF s = false := by
  unfold cur at h
  unfold atEOF
  cases hs : s.toks with
  | nil =>
    rw [hs] at h
    simp only [EOF] at h
    have := ch.valid  -- a `Char` is below 0x110000
    simp only [UInt32.isValidChar, Nat.isValidChar] at this
    simp only [Char.toNat] at h
    omega
  | cons t r => rfl

theorem readStringL_ext (str : String) (start : Nat) (chs : List Char) (s : St) :
    Ext s (readStringL str start (chs.map Char.toNat) s).st := by
  induction chs generalizing s with
  | nil => exact Ext.refl _
  | cons ch chs ih =>
    simp only [List.map_cons, readStringL]
    split
    · exact Ext.refl _
    · rename_i hc
      have hE : atEOF s = false := cur_ne_eof_of_eq (by simpa using hc)
      have := (advance_extS s hE).ext
      split
      · rename_i u s' heq
        rw [heq] at this
        exact this.trans (ih s')
      · rename_i e s' heq
        rw [heq] at this
        exact this

theorem readString_ext (str : String) (s : St) : Ext s (readString str s).st :=
  readStringL_ext str s.off str.toList s

theorem readStringL_extS (str : String) (start : Nat) (ch : Char) (chs : List Char) (s s' : St) (r : Range)
    (h : readStringL str start ((ch :: chs).map Char.toNat) s = .ok r s') : ExtS s s' := by
  simp only [List.map_cons, readStringL] at h
  split at h
  · cases h
  · rename_i hc
    have hE : atEOF s = false := cur_ne_eof_of_eq (by simpa using hc)
    have h1 := advance_extS s hE
    split at h
    · rename_i u s1 heq
      rw [heq] at h1
      have h2 := readStringL_ext str start chs s1
      rw [h] at h2
      exact h1.trans_ext h2
    · cases h

theorem readAltL_ext (all : List String) (s : St) (ss : List String) : Ext s (readAltL all s ss).st := by
  induction ss with
  | nil => exact Ext.refl _
  | cons t ts ih =>
    unfold readAltL
    split
    · rename_i r s' heq
      have := readString_ext t s
      rw [heq] at this
      exact this
    · exact ih

theorem readAlternative_ext (ss : List String) (s : St) : Ext s (readAlternative ss s).st := by
  unfold readAlternative
  split
  · exact Ext.refl _
  · exact readAltL_ext ss s ss

/-- an alternative that matched was one of the offered strings, read by `ReadString` from the same state -/
theorem readAltL_ok (all : List String) (s : St) (ss : List String) (r : Range) (t : String) (s' : St)
    (h : readAltL all s ss = .ok (r, t) s') : t ∈ ss ∧ readString t s = .ok r s' := by
  induction ss with
  | nil => simp [readAltL] at h
  | cons u us ih =>
    unfold readAltL at h
    split at h
    · rename_i r1 s1 heq
      injection h with h1 h2
      injection h1 with h1a h1b
      subst h1a h1b h2
      exact ⟨List.mem_cons_self, heq⟩
    · have := ih h
      exact ⟨List.mem_cons_of_mem _ this.1, this.2⟩

theorem readAlternative_ok (ss : List String) (s : St) (r : Range) (t : String) (s' : St)
    (h : readAlternative ss s = .ok (r, t) s') : t ∈ ss ∧ readString t s = .ok r s' := by
  unfold readAlternative at h
  split at h
  · cases h
  · exact readAltL_ok ss s ss r t s' h

/-- reading a non-empty keyword consumes at least one token -/
theorem readString_extS (str : String) (s s' : St) (r : Range) (hne : str.toList ≠ [])
    (h : readString str s = .ok r s') : ExtS s s' := by
  unfold readString runesOf at h
  cases hl : str.toList with
  | nil => exact absurd hl hne
  | cons ch chs =>
    rw [hl] at h
    exact readStringL_extS str s.off ch chs s s' r h

end Knut.Syntax
