import Knut.Driver.C11
import Knut.Driver.Dec
/-! Line-protocol driver over the executable model: one request per line (`op field*`), one answer line.
Each property contributes a handler module `Knut/Driver/<X>.lean`; add it to `handlers`. -/
open Knut Knut.Wire

def handlers : List (List String → Option String) := [
  Knut.Driver.C11.handle,
  Knut.Driver.Dec.handle
]

def handle (fields : List String) : String :=
  (handlers.findSome? (fun h => h fields)).getD "bad-op"

partial def loop (hin hout : IO.FS.Stream) : IO Unit := do
  let line ← hin.getLine
  if line.isEmpty then return ()
  let fields := (splitOn line ' ').map (fun f => String.ofList (f.toList.filter (fun c => c != '\n' && c != '\r'))) |>.filter (· ≠ "")
  hout.putStrLn (handle fields)
  hout.flush
  loop hin hout

def main : IO Unit := do
  let hin ← IO.getStdin
  let hout ← IO.getStdout
  loop hin hout
