import Knut.Proofs.InferParse
/-!
# `infer` maps well-formed fields to well-formed fields, and is idempotent (helper lemmas for C15)

* `AccB a`: the bytes `a` are the bytes of a well-formed, canonical account token list. Every account text the parser
  hands out is one (`fileTxs_accB`), hence every key of a model trained on parsed files (`trained_keys_accB`), hence
  every account `Infer` writes: `inferDir` preserves `DirVOK` (`inferDir_ok`), which is what
  `formatWith_roundtrip` asks of an edit.
* `inferBooking_idem` / `inferDir_idem`: a second `Infer` with the same model changes nothing (a field that is still
  the placeholder had no candidate the first time, and has none the second time).
* `trainingTxs` / `inferCmd_written`: the command, taken apart.
-/
namespace Knut.Infer
open Knut Knut.Syntax Knut.Spec.Syntax Knut.Spec.Infer Knut.Utf8

variable {S : Type} (sc : Scorer S) (m : Model)

/-- bytes of a well-formed, canonical account token list -/
def AccB (a : Bytes) : Prop := ∃ c, AccountOK c ∧ Canon c ∧ flat c = a

def BookingVOK (b : BookingV) : Prop := ∃ bT : BookingT, bT.ok ∧ bT.canon ∧ bT.bytes = b

/-! ### `Infer` keeps the fields well-formed -/

theorem inferBooking_ok (hne : [] ∉ m.countByAccount.keys) (hk : ∀ a ∈ m.countByAccount.keys, AccB a) (desc : Bytes)
    (b : BookingV) (hb : BookingVOK b) : BookingVOK (m.inferBooking sc desc b) := by
  obtain ⟨bT, ⟨o1, o2, o3, o4⟩, ⟨c1, c2, c3, c4⟩, rfl⟩ := hb
  have spec := inferBooking_spec sc m desc bT.bytes hne
  have hcr : AccB (m.inferBooking sc desc bT.bytes).credit := by
    rcases spec.credit_cases with e | ⟨_, e, _⟩
    · rw [e]; exact ⟨bT.credit, o1, c1, rfl⟩
    · exact hk _ e
  have hdb : AccB (m.inferBooking sc desc bT.bytes).debit := by
    rcases spec.debit_cases with e | ⟨_, e, _⟩
    · rw [e]; exact ⟨bT.debit, o2, c2, rfl⟩
    · exact hk _ e
  obtain ⟨x, xo, xc, xe⟩ := hcr
  obtain ⟨y, yo, yc, ye⟩ := hdb
  refine ⟨⟨x, y, bT.quantity, bT.commodity⟩, ⟨xo, yo, o3, o4⟩, ⟨xc, yc, c3, c4⟩, ?_⟩
  have q := spec.quantity
  have c := spec.commodity
  cases hr : m.inferBooking sc desc bT.bytes with
  | mk cr db qu co =>
    rw [hr] at xe ye q c
    simp only [BookingT.bytes] at xe ye q c ⊢
    rw [xe, ye, q, c]

theorem choose_bookings (f : BookingV → BookingV) (hf : ∀ b, BookingVOK b → BookingVOK (f b)) :
    ∀ bs : List BookingT, (∀ b ∈ bs, b.ok) → (∀ b ∈ bs, b.canon) →
      ∃ bs' : List BookingT, bs'.map BookingT.bytes = (bs.map BookingT.bytes).map f ∧ (∀ b ∈ bs', b.ok) ∧ (∀ b ∈ bs', b.canon)
  | [], _, _ => ⟨[], rfl, (fun _ h => by cases h), (fun _ h => by cases h)⟩
  | b :: bs, ho, hc => by
    obtain ⟨b', o', c', e'⟩ := hf b.bytes ⟨b, ho b (by simp), hc b (by simp), rfl⟩
    obtain ⟨bs', e, o, c⟩ := choose_bookings f hf bs (fun x hx => ho x (List.mem_cons_of_mem _ hx))
      (fun x hx => hc x (List.mem_cons_of_mem _ hx))
    refine ⟨b' :: bs', by simp [e', e], ?_, ?_⟩
    · intro x hx
      rcases List.mem_cons.mp hx with rfl | hx
      · exact o'
      · exact o x hx
    · intro x hx
      rcases List.mem_cons.mp hx with rfl | hx
      · exact c'
      · exact c x hx

/-- **`Infer` maps well-formed fields to well-formed fields** when every key of the model is an account text -/
theorem inferDir_ok (hne : [] ∉ m.countByAccount.keys) (hk : ∀ a ∈ m.countByAccount.keys, AccB a) (w : DirV)
    (hw : DirVOK w) : DirVOK (m.inferDir sc w) := by
  obtain ⟨vT, hok, hcan, rfl⟩ := hw
  cases vT with
  | transaction aT pT d desc bs =>
    obtain ⟨k1, k2, k3, k4, k5, k6⟩ := hok
    obtain ⟨n1, n2, n3, n4, n5⟩ := hcan
    obtain ⟨bs', e, o, c⟩ := choose_bookings (m.inferBooking sc (flat desc)) (inferBooking_ok sc m hne hk (flat desc)) bs k6 n5
    have hne' : bs' ≠ [] := by
      intro e0
      rw [e0] at e
      have := congrArg List.length e
      simp only [List.map_nil, List.length_nil, List.length_map] at this
      exact k5 (List.eq_nil_of_length_eq_zero this.symm)
    exact ⟨.transaction aT pT d desc bs', ⟨k1, k2, k3, k4, hne', o⟩, ⟨n1, n2, n3, n4, c⟩, by
      simp only [DirT.bytes, Model.inferDir, e]⟩
  | «open» d a => exact ⟨_, hok, hcan, rfl⟩
  | close d a => exact ⟨_, hok, hcan, rfl⟩
  | assertion d bs => exact ⟨_, hok, hcan, rfl⟩
  | price d c p t => exact ⟨_, hok, hcan, rfl⟩
  | «include» p => exact ⟨_, hok, hcan, rfl⟩

/-! ### the account texts of parsed training files -/

theorem mapM_mem_fwd {α β : Type} (f : α → Option β) : ∀ (l : List α) (r : List β), l.mapM f = some r →
    ∀ x ∈ l, ∃ y ∈ r, f x = some y
  | [], r, h, x, hx => by cases hx
  | a :: l, r, h, x, hx => by
    obtain ⟨b, bs, h1, h2, rfl⟩ := (mapM_cons_some f a l r).mp h
    rcases List.mem_cons.mp hx with e | e
    · subst e; exact ⟨b, by simp, h1⟩
    · obtain ⟨y, hy, hfx⟩ := mapM_mem_fwd f l bs h2 x e
      exact ⟨y, List.mem_cons_of_mem _ hy, hfx⟩

theorem viewTransaction_some {text : Bytes} {tr : Transaction} {w : DirV} (h : viewTransaction text tr = some w) :
    ∃ accr perf date desc bookings, w = .transaction accr perf date desc bookings ∧
      tr.bookings.mapM (viewBooking text) = some bookings := by
  unfold viewTransaction at h
  split at h <;> split at h <;>
    (simp only [Option.bind_eq_bind, Option.pure_def, Option.bind_eq_some_iff, Option.some.injEq] at h
     obtain ⟨accr, _, perf, _, date, _, desc, _, bookings, hb, rfl⟩ := h
     exact ⟨_, _, _, _, bookings, rfl, hb⟩)

theorem dirsOf_mem {text : Bytes} : ∀ {items : List Item} {off : Nat}, ItemsOK text off items → ∀ d ∈ dirsOf items,
    ∃ v : DirT, v.ok ∧ v.canon ∧ viewDirective text d = some v.bytes
  | [], _, _, d, hd => by cases hd
  | .gap c w nl :: rest, off, h, d, hd => by
    unfold ItemsOK at h
    exact dirsOf_mem h.2.2.2.2.2.2.2.2 d (by simpa [dirsOf] using hd)
  | .dir D d' v w nl :: rest, off, h, d, hd => by
    unfold ItemsOK at h
    obtain ⟨_, _, vok, vcan, vview, _, _, _, _, _, hrest⟩ := h
    simp only [dirsOf, List.mem_cons] at hd
    rcases hd with rfl | hd
    · exact ⟨v, vok, vcan, vview⟩
    · exact dirsOf_mem hrest d hd

/-- **every account text training reads from a parsed file is a well-formed account** -/
theorem fileTxs_accB {path : String} {text : Bytes} {f : File} (hp : parseText path text = .ok f) {txs : List TTx}
    (h : fileTxs text f = some txs) {t : TTx} (ht : t ∈ txs) {tb : TBooking} (htb : tb ∈ t.bookings) :
    AccB tb.v.credit ∧ AccB tb.v.debit := by
  obtain ⟨d, hd, tr, hbody, bk, hbk, e1, e2, _, _⟩ := fileTxs_mem h ht htb
  obtain ⟨items, _, i2, i3⟩ := parse_items hp
  obtain ⟨v, vok, vcan, vview⟩ := dirsOf_mem i3 d (by rw [← i2]; exact hd)
  simp only [viewDirective, hbody] at vview
  obtain ⟨accr, perf, date, desc, bookings, hw, hbs⟩ := viewTransaction_some vview
  obtain ⟨bv, hbv, hvb⟩ := mapM_mem_fwd _ _ _ hbs bk hbk
  obtain ⟨f1, f2⟩ := viewBooking_some hvb
  rw [e1] at f1
  rw [e2] at f2
  injection f1 with f1
  injection f2 with f2
  cases v with
  | transaction aT pT dT descT bsT =>
    simp only [DirT.bytes, DirV.transaction.injEq] at hw
    obtain ⟨_, _, _, _, hbk'⟩ := hw
    rw [← hbk'] at hbv
    obtain ⟨bT, hbT, rfl⟩ := List.mem_map.mp hbv
    obtain ⟨_, _, _, _, _, ko⟩ := vok
    obtain ⟨_, _, _, _, kc⟩ := vcan
    obtain ⟨o1, o2, _, _⟩ := ko bT hbT
    obtain ⟨c1, c2, _, _⟩ := kc bT hbT
    exact ⟨⟨bT.credit, o1, c1, by rw [f1]; rfl⟩, ⟨bT.debit, o2, c2, by rw [f2]; rfl⟩⟩
  | «open» _ _ => simp [DirT.bytes] at hw
  | close _ _ => simp [DirT.bytes] at hw
  | assertion _ _ => simp [DirT.bytes] at hw
  | price _ _ _ _ => simp [DirT.bytes] at hw
  | «include» _ => simp [DirT.bytes] at hw

/-- the keys of a trained model are account texts of the training transactions -/
theorem trained_keys_accB {placeholder : Bytes} {txs : List TTx}
    (h : ∀ t ∈ txs, ∀ tb ∈ t.bookings, AccB tb.v.credit ∧ AccB tb.v.debit) :
    ∀ a ∈ (train placeholder txs).countByAccount.keys, AccB a := by
  intro a ha
  obtain ⟨t, ht, tb, htb, hor, _⟩ := trainingAccounts_spec ((mem_keys_train placeholder txs a).mp ha)
  rcases hor with rfl | rfl
  · exact (h t ht tb htb).1
  · exact (h t ht tb htb).2

/-! ### the command, taken apart -/

/-- the transactions `inferRunner.train` feeds to the model: those of all training files, in arrival order
(`none`: a file does not parse, or a slice is out of range) -/
def trainingTxs (training : List (String × Bytes)) : Option (List TTx) :=
  match training.mapM (fun pt => (parseText pt.1 pt.2).toOption.map fun f => (pt.2, f)) with
  | none => none
  | some files => (files.mapM fun tf => fileTxs tf.1 tf.2).map List.flatten

theorem inferCmd_written {placeholder : Bytes} {training : List (String × Bytes)} {path : String} {target out : Bytes}
    (h : inferCmd sc placeholder training path target = .written out) :
    ∃ txs f, trainingTxs training = some txs ∧ parseText path target = .ok f ∧
      inferFormat sc (train placeholder txs) target f = some out ∧
      ∀ t ∈ txs, ∀ tb ∈ t.bookings, AccB tb.v.credit ∧ AccB tb.v.debit := by
  unfold inferCmd at h
  cases h1 : training.mapM (fun pt => (parseText pt.1 pt.2).toOption.map fun f => (pt.2, f)) with
  | none => simp [h1] at h
  | some files =>
    simp only [h1] at h
    cases h2 : files.mapM (fun tf => fileTxs tf.1 tf.2) with
    | none => simp [h2] at h
    | some txss =>
      simp only [h2] at h
      cases h3 : parseText path target with
      | error e => simp [h3] at h
      | ok f =>
        simp only [h3] at h
        cases h4 : inferFormat sc (train placeholder txss.flatten) target f with
        | none => simp [h4] at h
        | some o =>
          simp only [h4, Outcome.written.injEq] at h
          subst h
          refine ⟨txss.flatten, f, by simp [trainingTxs, h1, h2], rfl, h4, ?_⟩
          intro t ht tb htb
          obtain ⟨txs, htxs, ht'⟩ := List.mem_flatten.mp ht
          obtain ⟨tf, htf, hftx⟩ := mapM_mem _ _ _ h2 txs htxs
          obtain ⟨pt, _, hpt⟩ := mapM_mem _ _ _ h1 tf htf
          cases hq : parseText pt.1 pt.2 with
          | error e => simp [hq, Except.toOption] at hpt
          | ok g =>
            simp only [hq, Except.toOption, Option.map_some, Option.some.injEq] at hpt
            subst hpt
            exact fileTxs_accB hq hftx ht' htb

theorem inferCmd_of {placeholder : Bytes} {training : List (String × Bytes)} {path : String} {target out : Bytes}
    {txs : List TTx} {f : File} (h1 : trainingTxs training = some txs) (h2 : parseText path target = .ok f)
    (h3 : inferFormat sc (train placeholder txs) target f = some out) :
    inferCmd sc placeholder training path target = .written out := by
  unfold trainingTxs at h1
  unfold inferCmd
  cases g1 : training.mapM (fun pt => (parseText pt.1 pt.2).toOption.map fun f => (pt.2, f)) with
  | none => simp [g1] at h1
  | some files =>
    simp only [g1] at h1 ⊢
    cases g2 : files.mapM (fun tf => fileTxs tf.1 tf.2) with
    | none => simp [g2] at h1
    | some txss =>
      simp only [g2, Option.map_some, Option.some.injEq] at h1 ⊢
      subst h1
      simp only [h2, h3]

/-! ### a second `Infer` changes nothing -/

theorem inferAccount_none_iff (hne : [] ∉ m.countByAccount.keys) {desc : Bytes} {b : BookingV} {other : Bytes} :
    m.inferAccount sc desc b other = none ↔ ∀ k ∈ m.countByAccount.keys, k = other := by
  constructor
  · intro h k hk
    apply Classical.byContradiction
    intro hko
    obtain ⟨a, ha⟩ := inferAccount_isSome sc m (desc := desc) (b := b) hne ⟨k, hk, hko⟩
    rw [h] at ha
    cases ha
  · exact inferAccount_none sc m

theorem inferDebit_idem (hp : m.account ∉ m.countByAccount.keys) (desc : Bytes) (b : BookingV) :
    m.inferDebit sc desc (m.inferDebit sc desc b) = m.inferDebit sc desc b := by
  by_cases h1 : b.debit = m.account
  · cases hi : m.inferAccount sc desc b b.credit with
    | none =>
      have e : m.inferDebit sc desc b = b := by simp [Model.inferDebit, h1, hi]
      rw [e, e]
    | some a =>
      have e : m.inferDebit sc desc b = { b with debit := a } := by simp [Model.inferDebit, h1, hi]
      rw [e]
      have hne : a ≠ m.account := fun x => hp (x ▸ (inferAccount_some sc m hi).1)
      simp [Model.inferDebit, hne]
  · have e : m.inferDebit sc desc b = b := by simp [Model.inferDebit, h1]
    rw [e, e]

/-- after the whole loop body the credit step finds nothing left to do -/
theorem inferCredit_after (hne : [] ∉ m.countByAccount.keys) (hp : m.account ∉ m.countByAccount.keys) (desc : Bytes)
    (b : BookingV) :
    m.inferCredit sc desc (m.inferDebit sc desc (m.inferCredit sc desc b)) = m.inferDebit sc desc (m.inferCredit sc desc b) := by
  obtain ⟨d1, d2, d3⟩ := inferDebit_fields sc m desc (m.inferCredit sc desc b)
  by_cases h1 : b.credit = m.account
  · cases hi : m.inferAccount sc desc b b.debit with
    | some a =>
      have e : m.inferCredit sc desc b = { b with credit := a } := by simp [Model.inferCredit, h1, hi]
      have hna : a ≠ m.account := fun x => hp (x ▸ (inferAccount_some sc m hi).1)
      have hc : (m.inferDebit sc desc (m.inferCredit sc desc b)).credit ≠ m.account := by rw [d1, e]; exact hna
      generalize m.inferDebit sc desc (m.inferCredit sc desc b) = b2 at hc ⊢
      simp [Model.inferCredit, hc]
    | none =>
      have e : m.inferCredit sc desc b = b := by simp [Model.inferCredit, h1, hi]
      rw [e] at d1 ⊢
      have hall := (inferAccount_none_iff sc m hne).mp hi
      -- the debit step on `b`
      have hdeb : (m.inferDebit sc desc b).debit = b.debit := by
        by_cases h2 : b.debit = m.account
        · -- every key equals the placeholder, which is no key: there are no keys
          have hnone : ∀ k ∈ m.countByAccount.keys, k = b.credit := by
            intro k hk
            exact absurd ((hall k hk).trans h2 ▸ hk) hp
          have := inferAccount_none sc m (desc := desc) (b := b) hnone
          simp [Model.inferDebit, h2, this]
        · simp [Model.inferDebit, h2]
      have hnone2 : m.inferAccount sc desc (m.inferDebit sc desc b) (m.inferDebit sc desc b).debit = none :=
        inferAccount_none sc m (by rw [hdeb]; exact hall)
      have hc : (m.inferDebit sc desc b).credit = m.account := by rw [d1]; exact h1
      generalize m.inferDebit sc desc b = b2 at hnone2 hc ⊢
      simp [Model.inferCredit, hc, hnone2]
  · have e : m.inferCredit sc desc b = b := by simp [Model.inferCredit, h1]
    rw [e] at d1 ⊢
    have hc : (m.inferDebit sc desc b).credit ≠ m.account := by rw [d1]; exact h1
    generalize m.inferDebit sc desc b = b2 at hc ⊢
    simp [Model.inferCredit, hc]

/-- **`Infer` is idempotent on a booking**, for every score function: a field that is still the placeholder had no
candidate, and has none the second time -/
theorem inferBooking_idem (hne : [] ∉ m.countByAccount.keys) (hp : m.account ∉ m.countByAccount.keys) (desc : Bytes)
    (b : BookingV) : m.inferBooking sc desc (m.inferBooking sc desc b) = m.inferBooking sc desc b := by
  rw [inferBooking_steps, inferBooking_steps, inferCredit_after sc m hne hp, inferDebit_idem sc m hp]

theorem inferDir_idem (hne : [] ∉ m.countByAccount.keys) (hp : m.account ∉ m.countByAccount.keys) (w : DirV) :
    m.inferDir sc (m.inferDir sc w) = m.inferDir sc w := by
  cases w with
  | transaction accr perf date desc bs =>
    simp only [Model.inferDir, List.map_map, DirV.transaction.injEq, true_and]
    apply List.map_congr_left
    intro b _
    exact inferBooking_idem sc m hne hp desc b
  | _ => rfl

/-- an edit that leaves the extracted fields alone leaves the formatter alone -/
theorem formatWith_fixed {edit : DirV → DirV} {text : Bytes} {f : File} {vs : List DirV}
    (hv : f.directives.mapM (viewDirective text) = some vs) (hfix : vs.map edit = vs) :
    formatWith edit text f = format text f := by
  rw [← formatWith_id]
  unfold formatWith
  simp only [hv, Option.bind_eq_bind, Option.bind_some, hfix, List.map_id]

end Knut.Infer
