import Knut.Generated.TransImportSupercard
import Knut.FactsAgree.TransImportSwisscard2
/-!
# The translated per-record functions of `ch.supercard` agree with `Model/Import/Cards.lean`

`cmd/importer/supercard/supercard.go`: `(*parser).readLine`, `parseBooking`, `parseAmount`, `parseWords`, `parseDate`, `parseCurrency`,
regenerated into `Knut/Generated/TransImportSupercard.lean` on every run (`harness/trans_units_import.go`).  What stays outside the
translation: the `csv.Reader` (the result of `p.reader.Read()` is the parameter `ext1 : List String × Option Error`), the loop of
`parse` with `checkFirstLine` / `skipHeader`, flags and cobra wiring; the registry calls `p.registry.Commodities().Get(currency)` and
`p.registry.Accounts().TBDAccount()` are parameters (their RESULTS: commodity and error; the account).

| Go | theorem | model |
|---|---|---|
| prelude `Regexp.replaceAllWs · " "` (the package-level `regexp.MustCompile("\\s+")`, `GoSem/ImportStr.lean`) | `replaceAllWsChars_model`, `replaceAllWs_model` | `Import.collapseWs` (the copy is the original; stream `lib-str` of C13) |
| `len(s) > 0` on a string (`Strings.byteLen`) | `byteLen_pos_size` | `s.utf8ByteSize > 0` |
| `parser.parseWords`, `parseCurrency`, `parseDate` | `parseWords_agrees`, `parseCurrency_agrees`, `parseDate_agrees` | `collapseWs (joinWith " " [r4, r5])`, `fldD r 9`, `parseDate layoutDMYdot (fldD r 3)` |
| `parser.parseAmount` (a tagless `switch` whose case expressions index the record) | `parseAmount_agrees` | `Import.Supercard.amount` |
| `parser.parseBooking` | `built_tx`, `parseBooking_agrees` | `booking` = the tail of `Import.Supercard.row` (`row_booking`) |
| `parser.readLine` | **`readLine_agrees`**, `readLine_reader_error` | `Import.Supercard.row` |

`readLine_agrees`: for EVERY record (the reader runs with `FieldsPerRecord = -1` after the header), with `ext3` the TBD account and
`ext2` what `Get` returns for field 9 (the interned commodity for a valid name, an error otherwise): where the model's `row` answers
`ok ds` (`Saldovortrag`, eleven fields, an empty account number: nothing; a booking: one transaction) the translated function returns
a nil error, the parser's account untouched and a builder that stands for the model's builder with `ds` added (`BEquiv`); where it
answers `error` (another length than thirteen, date, amount, commodity) the translated function returns an error and the parser
unchanged; where it answers `panic` (fewer than five fields: `r[fieldBuchungstext]`) the translated function panics with Go's index
panic.  Full agreement: no case is left out.
-/
namespace Knut.FactsAgree.TransImportSupercard
open Knut Knut.GoSem
open Knut.Generated.Go
open Knut.FactsAgree.TransAccount Knut.FactsAgree.TransPosting Knut.FactsAgree.TransTransaction
open Knut.FactsAgree.TransProcess (AllRel TRel TRel_txGo)
open Knut.FactsAgree.TransJournal
open Knut.FactsAgree.TransImportSwisscard2 (parseDMYdot_model newFromString_model)

theorem isSpaceRe_model : Regexp.isSpaceRe = Import.isSpaceRe := rfl

theorem replaceAllWsChars_model (cs : List Char) : Regexp.replaceAllWsChars [' '] cs = Import.collapseWsChars cs := by
  fun_induction Import.collapseWsChars cs with
  | case1 => rw [Regexp.replaceAllWsChars]
  | case2 c rest h ih =>
    rw [Regexp.replaceAllWsChars, isSpaceRe_model, if_pos h, ih]; rfl
  | case3 c rest h ih =>
    rw [Regexp.replaceAllWsChars, isSpaceRe_model, if_neg h, ih]

/-- the prelude's `\s+` replacement by one blank is the importer models' `collapseWs` -/
theorem replaceAllWs_model (s : String) : Regexp.replaceAllWs s " " = Import.collapseWs s := by
  unfold Regexp.replaceAllWs Import.collapseWs
  rw [show (" " : String).toList = [' '] from rfl, replaceAllWsChars_model]

theorem join2 (a b : String) : Strings.Join [a, b] " " = Import.joinWith " " [a, b] := rfl

theorem byteLen_pos_size (s : String) : decide (Strings.byteLen s > 0) = decide (s.utf8ByteSize > 0) := by
  have hb : decide (Strings.byteLen s > 0) = !s.toList.isEmpty := by
    unfold Strings.byteLen
    cases h : s.toList with
    | nil => simp
    | cons c cs =>
      have := Char.utf8Size_pos c
      simp only [List.map_cons, List.sum_cons, List.isEmpty_cons, Bool.not_false, decide_eq_true_eq]
      omega
  rw [hb]
  by_cases h : s.utf8ByteSize > 0
  · have : s.toList ≠ [] := by
      intro he
      have : s = "" := by rw [← String.toList_inj]; simpa using he
      subst this; simp at h
    simp [h, this]
  · have h0 : s.utf8ByteSize = 0 := by omega
    have : s = "" := String.utf8ByteSize_eq_zero_iff.mp h0
    subst this; simp

theorem len13 {r : List String} (h : r.length = 13) :
    ∃ f0 f1 f2 f3 f4 f5 f6 f7 f8 f9 f10 f11 f12, r = [f0, f1, f2, f3, f4, f5, f6, f7, f8, f9, f10, f11, f12] := by
  rcases r with _ | ⟨f0, _ | ⟨f1, _ | ⟨f2, _ | ⟨f3, _ | ⟨f4, _ | ⟨f5, _ | ⟨f6, _ | ⟨f7, _ | ⟨f8, _ | ⟨f9, _ | ⟨f10, _ | ⟨f11, _ | ⟨f12, _ | ⟨f13, r⟩⟩⟩⟩⟩⟩⟩⟩⟩⟩⟩⟩⟩⟩ <;>
    simp at h
  exact ⟨_, _, _, _, _, _, _, _, _, _, _, _, _, rfl⟩

theorem fldD_get (r : List String) (i : Nat) : Import.fldD r i = (r[i]?).getD "" := rfl

/-- `parser.parseWords` on a record of thirteen fields -/
theorem parseWords_agrees (p : supercard.parser) (r : List String) (hr : r.length = 13) :
    supercard.parser.parseWords p r = .ok (Import.collapseWs (Import.joinWith " " [Import.fldD r 4, Import.fldD r 5])) := by
  obtain ⟨f0, f1, f2, f3, f4, f5, f6, f7, f8, f9, f10, f11, f12, rfl⟩ := len13 hr
  simp only [fldD_get, List.getElem?_cons_succ, List.getElem?_cons_zero, Option.getD_some]
  unfold supercard.parser.parseWords
  simp [index, supercard.fieldBuchungstext, supercard.fieldBranche, GoSem.Outcome.bind, replaceAllWs_model, join2]

/-- `parser.parseCurrency` -/
theorem parseCurrency_agrees (p : supercard.parser) (r : List String) (hr : r.length = 13) :
    supercard.parser.parseCurrency p r = .ok (Import.fldD r 9) := by
  obtain ⟨f0, f1, f2, f3, f4, f5, f6, f7, f8, f9, f10, f11, f12, rfl⟩ := len13 hr
  simp [fldD_get, supercard.parser.parseCurrency, index, supercard.fieldWährung, GoSem.Outcome.bind]

/-- `parser.parseDate` -/
theorem parseDate_agrees (p : supercard.parser) (r : List String) (hr : r.length = 13) :
    supercard.parser.parseDate p r = .ok (match Import.parseDate Import.layoutDMYdot (Import.fldD r 3) with
      | some d => (d, none) | none => (0, some ⟨"time.Parse"⟩)) := by
  obtain ⟨f0, f1, f2, f3, f4, f5, f6, f7, f8, f9, f10, f11, f12, rfl⟩ := len13 hr
  simp only [fldD_get, supercard.parser.parseDate, index, supercard.fieldEinkaufsdatum, GoSem.Outcome.bind, Time.ParseDMYdot, parseDMYdot_model]
  simp
  cases Import.parseDate Import.layoutDMYdot f3 <;> rfl

/-- `parser.parseAmount` = `Import.Supercard.amount` -/
theorem parseAmount_agrees (p : supercard.parser) (r : List String) (hr : r.length = 13) :
    match Import.Supercard.amount r with
    | .ok q => supercard.parser.parseAmount p r = .ok (q, none)
    | .error => ∃ e, supercard.parser.parseAmount p r = .ok (0, some e)
    | .panic => False := by
  obtain ⟨f0, f1, f2, f3, f4, f5, f6, f7, f8, f9, f10, f11, f12, rfl⟩ := len13 hr
  unfold Import.Supercard.amount supercard.parser.parseAmount
  simp only [fldD_get, List.getElem?_cons_succ, List.getElem?_cons_zero, Option.getD_some]
  simp only [index, supercard.fieldGutschrift, supercard.fieldBelastung, GoSem.Outcome.bind, byteLen_pos_size,
    Decimal.NewFromString, newFromString_model]
  simp
  by_cases h11 : 0 < f11.utf8ByteSize
  · simp only [h11, if_true]
    cases Import.newFromString f11 with
    | none => exact ⟨_, rfl⟩
    | some q => simp [Import.Res.ofOption]
  · simp only [h11, if_false]
    by_cases h10 : 0 < f10.utf8ByteSize
    · simp only [h10, if_true]
      cases Import.newFromString f10 with
      | none => exact ⟨_, rfl⟩
      | some q => simp [Import.Res.ofOption, Import.Res.bind, Rat.mul_neg, Rat.mul_one]
    · simp only [h10, if_false]
      exact ⟨_, rfl⟩

/-- the model's transaction of a row as the Go value `transaction.Builder{…}.Build()` builds it (any credit / debit accounts) -/
theorem built_tx (cur : String → Bool) (cr db : Knut.Account) (d : Int) (desc : String) (c : Knut.Commodity) (q : Rat) :
    ∃ t, Import.mkTx d desc [⟨cr, db, c, q⟩] = .tx t ∧
      transaction.Builder.Build ⟨GoZero.zero, d, desc,
        posting.Builder.Build ⟨GoZero.zero, q, GoZero.zero, accountGo cr, accountGo db, commodityGo cur c⟩,
        GoZero.zero⟩ = txGo cur GoZero.zero GoZero.zero t := by
  refine ⟨_, rfl, ?_⟩
  have hp := TransPosting.Builder_Build_agrees cur GoZero.zero cr db c q 0
  have hz : (GoZero.zero : Rat) = 0 := rfl
  rw [hz, hp, TransTransaction.Builder_Build_agrees]
  simp [txGo, Import.buildPostings, Import.replaceQuotes, JournalPrinter.descText]

/-- the part of `Import.Supercard.row` that models `parseBooking` (a record of thirteen fields that is a booking) -/
def booking (acct : Knut.Account) (r : Import.Rec) : Import.Res (List Knut.Directive) := do
  let d ← Import.Res.ofOption (Import.parseDate Import.layoutDMYdot (Import.fldD r 3))
  let q ← Import.Supercard.amount r
  let c ← Import.getCommodity (Import.fldD r 9)
  pure [Import.mkTx d (Import.collapseWs (Import.joinWith " " [Import.fldD r 4, Import.fldD r 5])) [⟨Import.tbd, acct, c, q⟩]]

/-- **`parser.parseBooking`** of `ch.supercard` on a record of thirteen fields; `ext1` = the result of `Commodities().Get(r[fieldWährung])`
(the interned commodity for a valid name, an error otherwise), `ext2` = `Accounts().TBDAccount()` -/
theorem parseBooking_agrees (cur : String → Bool) (p : supercard.parser) (b : Knut.Builder) (acct : Knut.Account) (r : Import.Rec)
    (hb : BEquiv cur p.builder b) (hacct : p.account = accountGo acct) (hr : r.length = 13)
    (ext1 : commodity.Commodity × Option Error) (ext2 : account.Account)
    (h1v : Import.validCommodity (Import.fldD r 9) = true → ext1 = (commodityGo cur (Import.fldD r 9), none))
    (h1e : Import.validCommodity (Import.fldD r 9) = false → ext1.2.isSome = true)
    (h2 : ext2 = accountGo Import.tbd) :
    match booking acct r with
    | .ok ds => ∃ p', supercard.parser.parseBooking p r ext1 ext2 = .ok (p', none) ∧ p'.account = p.account ∧
        BEquiv cur p'.builder (ds.foldl Knut.Builder.add b)
    | .error => ∃ e, supercard.parser.parseBooking p r ext1 ext2 = .ok (p, some e)
    | .panic => False := by
  unfold booking supercard.parser.parseBooking
  rw [parseWords_agrees p r hr, parseCurrency_agrees p r hr, parseDate_agrees p r hr]
  simp only [GoSem.Outcome.bind]
  cases hd : Import.parseDate Import.layoutDMYdot (Import.fldD r 3) with
  | none => exact ⟨_, rfl⟩
  | some d =>
    have ha := parseAmount_agrees p r hr
    cases hq : Import.Supercard.amount r with
    | panic => rw [hq] at ha; exact ha
    | error =>
      rw [hq] at ha
      obtain ⟨e, he⟩ := ha
      exact ⟨e, by simp [he]⟩
    | ok q =>
      rw [hq] at ha
      simp only [Import.Res.ofOption, Import.Res.bind_ok, ha, Option.isSome_none, Bool.false_eq_true, if_false]
      by_cases hc : Import.validCommodity (Import.fldD r 9) = true
      · simp only [Import.getCommodity, hc, if_true, Import.Res.bind_ok, Import.Res.pure_eq]
        obtain ⟨t, ht, hbuild⟩ := built_tx cur Import.tbd acct d (Import.collapseWs (Import.joinWith " " [Import.fldD r 4, Import.fldD r 5]))
          (Import.fldD r 9) q
        obtain ⟨g', hg, hbe⟩ := Add_agrees cur hb (.Transaction (txGo cur GoZero.zero GoZero.zero t)) (.tx t) (TRel_txGo cur _ _ t)
        rw [h1v hc, h2, hacct, ht]
        refine ⟨{ account := accountGo acct, builder := g' }, ?_, rfl, ?_⟩
        · rw [hbuild, hg]; simp
        · simpa using hbe
      · have hc' : Import.validCommodity (Import.fldD r 9) = false := by simpa using hc
        simp only [Import.getCommodity, hc', Bool.false_eq_true, if_false, Import.Res.bind_error]
        have := h1e hc'
        cases hx : ext1.2 with
        | none => rw [hx] at this; cases this
        | some e => exact ⟨e, by simp⟩

theorem row_booking (acct : Knut.Account) (r : Import.Rec) (hr : r.length = 13) (h4 : Import.fldD r 4 ≠ "Saldovortrag")
    (h0 : Import.fldD r 0 ≠ "") : Import.Supercard.row acct r = booking acct r := by
  obtain ⟨f0, f1, f2, f3, f4, f5, f6, f7, f8, f9, f10, f11, f12, rfl⟩ := len13 hr
  simp only [fldD_get, List.getElem?_cons_succ, List.getElem?_cons_zero, Option.getD_some] at h4 h0
  unfold Import.Supercard.row booking
  simp [Import.fld, fldD_get, h4, h0]

/-- **`parser.readLine`** of `ch.supercard` on a record the reader returned (`FieldsPerRecord = -1` after the header: ANY number of
fields): the index panic on a record of fewer than five fields included -/
theorem readLine_agrees (cur : String → Bool) (p : supercard.parser) (b : Knut.Builder) (acct : Knut.Account) (r : Import.Rec)
    (hb : BEquiv cur p.builder b) (hacct : p.account = accountGo acct)
    (ext2 : commodity.Commodity × Option Error) (ext3 : account.Account)
    (h2v : Import.validCommodity (Import.fldD r 9) = true → ext2 = (commodityGo cur (Import.fldD r 9), none))
    (h2e : Import.validCommodity (Import.fldD r 9) = false → ext2.2.isSome = true)
    (h3 : ext3 = accountGo Import.tbd) :
    match Import.Supercard.row acct r with
    | .ok ds => ∃ p', supercard.parser.readLine p (r, none) ext2 ext3 = .ok (p', none) ∧ p'.account = p.account ∧
        BEquiv cur p'.builder (ds.foldl Knut.Builder.add b)
    | .error => ∃ e, supercard.parser.readLine p (r, none) ext2 ext3 = .ok (p, some e)
    | .panic => ∃ m, supercard.parser.readLine p (r, none) ext2 ext3 = .panic m := by
  by_cases hr : r.length = 13
  · -- a record of thirteen fields
    by_cases h4 : Import.fldD r 4 = "Saldovortrag"
    · obtain ⟨f0, f1, f2, f3, f4, f5, f6, f7, f8, f9, f10, f11, f12, rfl⟩ := len13 hr
      simp only [fldD_get, List.getElem?_cons_succ, List.getElem?_cons_zero, Option.getD_some] at h4
      subst h4
      refine ⟨p, ?_, rfl, hb⟩
      simp [supercard.parser.readLine, index, supercard.fieldBuchungstext, GoSem.Outcome.bind]
    · by_cases h0 : Import.fldD r 0 = ""
      · obtain ⟨f0, f1, f2, f3, f4, f5, f6, f7, f8, f9, f10, f11, f12, rfl⟩ := len13 hr
        simp only [fldD_get, List.getElem?_cons_succ, List.getElem?_cons_zero, Option.getD_some] at h4 h0
        subst h0
        have hrow : Import.Supercard.row acct ["", f1, f2, f3, f4, f5, f6, f7, f8, f9, f10, f11, f12] = .ok [] := by
          simp [Import.Supercard.row, Import.fld, fldD_get]
        rw [hrow]
        refine ⟨p, ?_, rfl, hb⟩
        simp [supercard.parser.readLine, index, supercard.fieldBuchungstext, supercard.fieldKontonummer, GoSem.Outcome.bind, h4]
      · rw [row_booking acct r hr h4 h0]
        have hpb := parseBooking_agrees cur p b acct r hb hacct hr ext2 ext3 h2v h2e h3
        have hrl : supercard.parser.readLine p (r, none) ext2 ext3 =
            GoSem.Outcome.bind (supercard.parser.parseBooking p r ext2 ext3) (fun t5 =>
              if t5.2.isSome then .ok (t5.1, t5.2) else .ok (t5.1, none)) := by
          obtain ⟨f0, f1, f2, f3, f4, f5, f6, f7, f8, f9, f10, f11, f12, rfl⟩ := len13 hr
          simp only [fldD_get, List.getElem?_cons_succ, List.getElem?_cons_zero, Option.getD_some] at h4 h0
          simp [supercard.parser.readLine, index, supercard.fieldBuchungstext, supercard.fieldKontonummer, GoSem.Outcome.bind, h4, h0]
        rw [hrl]
        cases hbk : booking acct r with
        | ok ds =>
          rw [hbk] at hpb
          obtain ⟨p', hp', hrest⟩ := hpb
          exact ⟨p', by simp [hp', GoSem.Outcome.bind], hrest⟩
        | error =>
          rw [hbk] at hpb
          obtain ⟨e, he⟩ := hpb
          exact ⟨e, by simp [he, GoSem.Outcome.bind]⟩
        | panic => rw [hbk] at hpb; exact hpb.elim
  · -- any other length
    cases h4 : r[4]? with
    | none =>
      have hrow : Import.Supercard.row acct r = .panic := by simp [Import.Supercard.row, Import.fld, h4]
      rw [hrow]
      refine ⟨"runtime error: index out of range", ?_⟩
      simp [supercard.parser.readLine, index, supercard.fieldBuchungstext, GoSem.Outcome.bind, h4]
    | some text =>
      obtain ⟨x0, rest, rfl⟩ : ∃ x0 rest, r = x0 :: rest := by
        cases r with
        | nil => simp at h4
        | cons x0 rest => exact ⟨x0, rest, rfl⟩
      have hi4 : index (x0 :: rest) supercard.fieldBuchungstext = .ok text := by
        have h4' : rest[3]? = some text := by simpa using h4
        simp [index, supercard.fieldBuchungstext, h4']
      have hi0 : index (x0 :: rest) supercard.fieldKontonummer = .ok x0 := by simp [index, supercard.fieldKontonummer]
      by_cases ht : text = "Saldovortrag"
      · have hrow : Import.Supercard.row acct (x0 :: rest) = .ok [] := by simp [Import.Supercard.row, Import.fld, h4, ht]
        rw [hrow]
        refine ⟨p, ?_, rfl, hb⟩
        simp [supercard.parser.readLine, hi4, GoSem.Outcome.bind, ht]
      · by_cases hskip : (x0 :: rest).length = 11 ∨ x0 = ""
        · have hrow : Import.Supercard.row acct (x0 :: rest) = .ok [] := by
            have : ((x0 :: rest).length = 11 || Import.fldD (x0 :: rest) 0 = "") = true := by
              simpa [fldD_get] using hskip
            simp only [Import.Supercard.row, Import.fld, h4, Import.Res.bind_ok, ht, if_false, this, if_true]
            rfl
          rw [hrow]
          refine ⟨p, ?_, rfl, hb⟩
          rcases hskip with h11 | h0
          · have : ((rest.length : Int) + 1 = 11) := by simp at h11; omega
            simp [supercard.parser.readLine, hi4, GoSem.Outcome.bind, ht, this]
          · by_cases h11 : ((rest.length : Int) + 1 = 11)
            · simp [supercard.parser.readLine, hi4, GoSem.Outcome.bind, ht, h11]
            · subst h0
              simp [supercard.parser.readLine, hi4, hi0, GoSem.Outcome.bind, ht, h11]
        · have hn11 : ¬ (x0 :: rest).length = 11 := fun h => hskip (Or.inl h)
          have hn0 : ¬ x0 = "" := fun h => hskip (Or.inr h)
          have hrow : Import.Supercard.row acct (x0 :: rest) = .error := by
            have : ((x0 :: rest).length = 11 || Import.fldD (x0 :: rest) 0 = "") = false := by
              simp [fldD_get, hn0]; simpa using hn11
            simp only [Import.Supercard.row, Import.fld, h4, Import.Res.bind_ok, ht, if_false, this, Bool.false_eq_true]
            have hr' : ¬ rest.length = 12 := by simpa using hr
            simp [hr']
          rw [hrow]
          have h11 : ¬ ((rest.length : Int) + 1 = 11) := by simp at hn11; omega
          have h13 : ¬ ((rest.length : Int) + 1 = 13) := by simp at hr; omega
          exact ⟨⟨"record %v with invalid length %d"⟩, by simp [supercard.parser.readLine, hi4, hi0, GoSem.Outcome.bind, ht, h11, hn0, h13]⟩

/-- an error of the reader (`io.EOF`, a parse error) is returned unchanged -/
theorem readLine_reader_error (p : supercard.parser) (r : List String) (e : Error) (ext2 : commodity.Commodity × Option Error)
    (ext3 : account.Account) : supercard.parser.readLine p (r, some e) ext2 ext3 = .ok (p, some e) := rfl

/-- non-vacuity: a booking record from the fresh builder -/
example : ∃ ds, Import.Supercard.row ⟨["Liabilities", "Card"]⟩
      ["1", "2", "N", "01.02.2023", "Coop  City", "Food", "12.50", "CHF", "", "CHF", "12.50", "", "02.02.2023"] = .ok ds ∧ ds.length = 1 ∧
    ∃ p', supercard.parser.readLine ⟨accountGo ⟨["Liabilities", "Card"]⟩, journal.New⟩
        (["1", "2", "N", "01.02.2023", "Coop  City", "Food", "12.50", "CHF", "", "CHF", "12.50", "", "02.02.2023"], none)
        (commodityGo (fun _ => true) "CHF", none) (accountGo Import.tbd)
      = .ok (p', none) ∧ BEquiv (fun _ => true) p'.builder (ds.foldl Knut.Builder.add {}) := by
  have h := readLine_agrees (fun _ => true) ⟨accountGo ⟨["Liabilities", "Card"]⟩, journal.New⟩ {} ⟨["Liabilities", "Card"]⟩
    ["1", "2", "N", "01.02.2023", "Coop  City", "Food", "12.50", "CHF", "", "CHF", "12.50", "", "02.02.2023"] (New_agrees _) rfl
    (commodityGo (fun _ => true) "CHF", none) (accountGo Import.tbd) (fun _ => rfl) (fun h => by revert h; decide +kernel) rfl
  have hok : (match Import.Supercard.row ⟨["Liabilities", "Card"]⟩
      ["1", "2", "N", "01.02.2023", "Coop  City", "Food", "12.50", "CHF", "", "CHF", "12.50", "", "02.02.2023"] with
      | .ok ds => ds.length == 1 | _ => false) = true := by decide +kernel
  revert h hok
  cases Import.Supercard.row ⟨["Liabilities", "Card"]⟩
      ["1", "2", "N", "01.02.2023", "Coop  City", "Food", "12.50", "CHF", "", "CHF", "12.50", "", "02.02.2023"] with
  | ok ds => exact fun h hok => ⟨ds, rfl, by simpa using hok, h.imp fun p' h => ⟨h.1, h.2.2⟩⟩
  | error => simp
  | panic => simp

end Knut.FactsAgree.TransImportSupercard
