import Knut.Driver.C04
import Knut.Driver.Balance
import Knut.Model.Weights
import Knut.Spec.PortfolioPeriodSpec
/-! Driver ops for C20: the exact-arithmetic models of `knut portfolio returns` and `knut portfolio weights`.

```
returns <flags> <journal>  → ok <day>:<num/den | undef>[!|~](,…)* | ok - | error <class> | panic <site>
calm <flags> <journal>     → ok <day>:<0|1>(,…)* | ok -      per period end: do the hypotheses of the 0 %-clause hold (`calmPeriods`)?
weights <flags> <journal>  → ok undefined | ok <flagsOut>;<day,day,…|->;<row>(|<row>)*    row := <depth>~<name hex>~<cell>(,<cell>)*   cell := - | num/den
flags := key=value(;key=value)*   keys: val from to last iv acc com map sort uni
uni   := <commodity hex>:<segment hex>/<segment hex>/…(,…)*        (the path includes the commodity name)
flagsOut := prefixfree=<0|1>,rooted=<0|1>   (no add path is a proper prefix of another / no add has the empty path)
```
-/
namespace Knut.Driver.C20
open Knut Knut.Wire Knut.Driver Knut.Performance Knut.Weights
open Knut.Driver.Balance (simpleRegex anyRegex parseList)

def parseUniverse (v : String) : Option Universe :=
  (splitOn v ',').mapM (fun e =>
    match splitOn e ':' with
    | [c, p] => do
      let c ← unhexStr c
      let segs ← (splitOn p '/').mapM unhexStr
      pure (c, segs)
    | _ => none)

def parseFlags (s : String) : Option WFlags :=
  let kvs := if s = "-" then [] else splitOn s ';'
  kvs.foldlM (fun (f : WFlags) kv =>
    match splitOn kv '=' with
    | ["val", v] => some { f with valuation := some v }
    | ["from", v] => v.toInt?.map (fun z => { f with from? := some z })
    | ["to", v] => v.toInt?.map (fun z => { f with to := z })
    | ["last", v] => v.toInt?.map (fun z => { f with last := z })
    | ["iv", v] => (v.toNat?.bind Knut.Driver.C11.ivOfNat).map (fun iv => { f with interval := iv })
    | ["sort", v] => some { f with sortAlpha := v == "1" }
    | ["acc", v] => (parseList v).map (fun ps => { f with accountFilter := anyRegex ps })
    | ["com", v] => (parseList v).map (fun ps => { f with commodityFilter := anyRegex ps })
    | ["uni", v] => (parseUniverse v).map (fun u => { f with classes := u })
    | ["map", v] =>
      ((splitOn v ',').mapM (fun r =>
        match splitOn r ':' with
        | [l, sfx, p] => do
          let l ← l.toNat?
          let sfx ← sfx.toNat?
          let test : String → Bool ← (if p = "*" then some (fun _ => true) else (unhexStr p).map simpleRegex)
          pure ({ level := l, suffix := sfx, test := test } : MapRule)
        | _ => none)).map (fun rs => { f with mapping := rs })
    | _ => none) { to := 0 }

def showOpt : Option Rat → String
  | some r => Dec.showRat r
  | none => "undef"

def showCell : Option Rat → String
  | some r => Dec.showRat r
  | none => "-"

def showRow (r : Row) : String :=
  s!"{r.depth}~{hexStr r.segment}~" ++ (if r.cells.isEmpty then "-" else String.intercalate "," (r.cells.map showCell))

def handle (fields : List String) : Option String :=
  match fields with
  | ["returns", fl, j] => some (
    match parseFlags fl, (parseJournal j).bind Knut.Driver.C04.toDirectives with
    | some f, some ds =>
      match Performance.returns f.toFlags ds with
      | .ok lines =>
        -- a `!` marks a period with a day whose denominator `V0 + inflow` vanishes (see `Performance.illConditioned`),
        -- a `~` one with a day whose denominator is a rounding residue of much larger operands (`residueConditioned`)
        let cond := Performance.returnsCond f.toFlags ds
        "ok " ++ (if lines.isEmpty then "-" else String.intercalate ","
          ((lines.zip (cond ++ List.replicate lines.length 0)).map
            (fun (l, c) => s!"{l.1}:{showOpt l.2}{if c = 1 then "!" else if c = 2 then "~" else ""}")))
      | .error w => "error " ++ w
      | .panic s => "panic " ++ hexStr s
    | none, _ => "bad-flags"
    | _, none => "unsupported")
  | ["calm", fl, j] => some (
    match parseFlags fl, (parseJournal j).bind Knut.Driver.C04.toDirectives with
    | some f, some ds =>
      let cs := Performance.calmPeriods f.toFlags ds
      "ok " ++ (if cs.isEmpty then "-" else String.intercalate "," (cs.map (fun c => s!"{c.1}:{if c.2 then "1" else "0"}")))
    | none, _ => "bad-flags"
    | _, none => "unsupported")
  | ["weights", fl, j] => some (
    match parseFlags fl, (parseJournal j).bind Knut.Driver.C04.toDirectives with
    | some f, some ds =>
      match Weights.weightAdds f ds with
      | .ok none => "ok undefined"
      | .ok (some adds) =>
        let (dates, rows) := report adds f.sortAlpha
        let pf := "prefixfree=" ++ (if prefixFree adds then "1" else "0") ++ ",rooted=" ++ (if rooted adds then "1" else "0")
        "ok " ++ pf ++ ";" ++ (if dates.isEmpty then "-" else String.intercalate "," (dates.map toString)) ++ ";" ++
          (if rows.isEmpty then "-" else String.intercalate "|" (rows.map showRow))
      | .error w => "error " ++ w
      | .panic s => "panic " ++ hexStr s
    | none, _ => "bad-flags"
    | _, none => "unsupported")
  | _ => none

end Knut.Driver.C20
