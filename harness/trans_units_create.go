package main

// Units "Create…" of the Go→Lean translator: the MODEL LAYER conversion syntax tree → model directives
// (model.ParseDirective, transaction/posting/price/open/close/assertion.Create, directives.Date.Parse / Decimal.Parse).
//
// These functions sit on the border of the two readings of Go: their INPUT is the syntax tree (lib/syntax/directives, translated by the
// syntax-layer translator trans_syntax*.go: strings are bytes), their OUTPUT the model types of the first translator (strings are texts,
// time.Time a day number, decimal.Decimal a Rat, error = Option Error).  They are translated by the first translator with these additions:
//
//   directives.T (a struct of lib/syntax/directives)   the structure `Knut.Generated.Go.directives.T` that the syntax-layer translator
//                          generates (Generated/TransDirectives.lean): same fields, every range with its text and path; an embedded
//                          `Range` is the field `Range` (promoted fields and methods take the path through it)
//   *directives.T          a PARAMETER of a function of these units is the struct value (the callers pass `&d`: never nil); everywhere
//                          else a pointer into the syntax tree stays a `Ref` that is only copied: `&bs[i]`, `&bal`, `&d`, and the
//                          pointer parameter itself stored in a `Src` field are `Ref.node` (one constant for all non-nil addresses of
//                          syntax nodes: the translated code never reads, compares or writes through a `Ref`; the agreement theorems
//                          are stated for arbitrary `Src`)
//   r.Extract()            `Bridge.extract r`: the syntax layer's translated `Range.Extract` (the slice-bounds panic included), then the
//                          bytes read as a TEXT — a Go string that is not valid UTF-8 has no meaning in the model layer's reading: the
//                          distinct outcome `panic "outside the model: …"`, which the agreement theorems exclude by hypothesis
//   r.Empty()              the syntax layer's translated `Range.Empty`
//   time.Parse("2006-01-02", s), decimal.NewFromString(s)   prelude `Time.ParseISO`, `Decimal.NewFromString` (GoSem/Parse.lean: the
//                          model's own definitions, compared with real Go by the streams `gosemparse` of C11, `lib-date`/`lib-dec`
//                          of C13 and `loadtext` of C04); every other layout is rejected
//   reg.Accounts().Create(a), reg.Commodities().Create(c)   (a call of an untranslated function of /repo) an extra parameter
//                          `ext<N> : directives.Account → (account.Account × Option Error)`, the callee AS A FUNCTION of its translated
//                          arguments — also inside loops: a registry hands out one pointer per name (interned pointers are values), so
//                          what `Create` answers is a function of the node.  The agreement theorems fix these functions to the model of
//                          the registries (valid names only)
//   f(reg, x, &d)          a call of a translated function: the untranslatable arguments (the registry) are dropped with the parameters,
//                          a node pointer for a parameter of one of these units is the node
//   return f(…)            with several results: the results of the call are the results
//   nil for a *T result    the zero value of the struct (as for a nil field of interned pointer type); the callers test the error first
//   var xs []T … xs = []T{} … xs = append(xs, x)   for the locals of trNilSlices (`targets` of transaction.Create: nil = no @performance
//                          annotation): `Option (List T)`; a slice literal and an append are non-nil
//   switch d := w.Directive.(type)   a match on the syntax layer's closed sum `GoAny`; cases are struct VALUES (`case syntax.Open:`)
//   append(res, t), []Directive{o}   for a slice of a sum-type interface: the constructor of the dynamic type is applied

import (
	"go/ast"
	"go/token"
	"go/types"
	"strings"
)

const trDirPath = trKnutPath + "lib/syntax/directives"
const trDirNS = "Knut.Generated.Go.directives"

var trCreateUnits = []*trUnit{
	{pkg: "lib/syntax/directives", mod: "CreateDirectives", funcs: []string{"Date.Parse", "Decimal.Parse"},
		agree: map[string]string{"Date.Parse": "Create", "Decimal.Parse": "Create"}},
	{pkg: "lib/model/posting", mod: "CreatePosting", funcs: []string{"Create"}, agree: map[string]string{"Create": "Create"}},
	{pkg: "lib/model/open", mod: "CreateOpen", funcs: []string{"Create"}, agree: map[string]string{"Create": "Create"}},
	{pkg: "lib/model/close", mod: "CreateClose", funcs: []string{"Create"}, agree: map[string]string{"Create": "Create"}},
	{pkg: "lib/model/price", mod: "CreatePrice", funcs: []string{"Create"}, agree: map[string]string{"Create": "Create"}},
	{pkg: "lib/model/assertion", mod: "CreateAssertion", funcs: []string{"Create"}, agree: map[string]string{"Create": "Create"}},
	{pkg: "lib/model/transaction", mod: "CreateTransaction", funcs: []string{"Create"}, agree: map[string]string{"Create": "Create2"}},
	{pkg: "lib/model", mod: "CreateModel", funcs: []string{"ParseDirective"}, agree: map[string]string{"ParseDirective": "Create2"}},
}

var trCreateUnitSet = map[*trUnit]bool{}

func init() {
	for _, u := range trCreateUnits {
		trCreateUnitSet[u] = true
	}
	trUnits = append(trUnits, trCreateUnits...)
	trStubEnsure("time", "func Parse(", "func Parse(layout, value string) (Time, error)\n")
	trStubEnsure("github.com/shopspring/decimal", "func NewFromString(", "func NewFromString(value string) (Decimal, error)\n")
	trPrims["time.Parse"] = trPrim{lean: "Time.ParseISO", args: func(c *trCtx, call *ast.CallExpr) []ast.Expr {
		if tv := c.info().Types[call.Args[0]]; tv.Value == nil || tv.Value.ExactString() != `"2006-01-02"` {
			trFail(call.Args[0].Pos(), "time.Parse with a layout other than the constant \"2006-01-02\" is outside the subset")
		}
		return call.Args[1:]
	}}
	trPrims["github.com/shopspring/decimal.NewFromString"] = trPrim{lean: "Decimal.NewFromString"}
	trNilSlices[trKnutPath+"lib/model/transaction.Create"] = []string{"targets"}
}

// createMode: the function being translated belongs to one of the Create units
func (c *trCtx) createMode() bool {
	return c != nil && c.fn != nil && trCreateUnitSet[c.fn.unit]
}

// trNodeNamed: ty is a struct type of lib/syntax/directives (a node of the syntax tree); Error is the error type of that package
func trNodeNamed(ty types.Type) *types.Named {
	n, ok := ty.(*types.Named)
	if !ok || n.Obj().Pkg() == nil || n.Obj().Pkg().Path() != trDirPath || n.Obj().Name() == "Error" {
		return nil
	}
	if _, isStruct := n.Underlying().(*types.Struct); !isStruct {
		return nil
	}
	return n
}

func trNodePtr(ty types.Type) *types.Named {
	p, ok := ty.(*types.Pointer)
	if !ok {
		return nil
	}
	return trNodeNamed(p.Elem())
}

// createNodeType (hook of leanType): a struct of the syntax tree is the structure generated by the syntax-layer translator
func (t *trTranslator) createNodeType(x *types.Named) (string, bool) {
	if n := trNodeNamed(x); n != nil {
		return trDirNS + "." + trMangle(n.Obj().Name()), true
	}
	return "", false
}

// createParam: o is a parameter (or the receiver) of the function being translated
func (c *trCtx) createParam(o types.Object) bool {
	if c.fn == nil || c.fn.obj == nil {
		return false
	}
	sig := c.fn.obj.Type().(*types.Signature)
	if sig.Recv() == o {
		return true
	}
	for i := 0; i < sig.Params().Len(); i++ {
		if sig.Params().At(i) == o {
			return true
		}
	}
	return false
}

// createVarType (hook of varType): a node-pointer PARAMETER of a function of these units is the node
func (c *trCtx) createVarType(o types.Object, pos token.Pos) (string, bool) {
	if !c.createMode() {
		return "", false
	}
	if n := trNodePtr(o.Type()); n != nil && c.createParam(o) {
		return trDirNS + "." + trMangle(n.Obj().Name()), true
	}
	return "", false
}

// createNode: the struct VALUE a node expression denotes (`t`, `&d`, `*p`, `t.Addons.Accrual`, `b`)
func (c *trCtx) createNode(e ast.Expr) string {
	switch x := trUnparen(e).(type) {
	case *ast.Ident:
		o := c.info().Uses[x]
		if n, ok := c.names[o]; ok {
			return n
		}
		trFail(x.Pos(), "the syntax node %s is used before the translator saw its declaration", x.Name)
	case *ast.UnaryExpr:
		if x.Op == token.AND {
			return c.createNode(x.X)
		}
	case *ast.StarExpr:
		return c.createNode(x.X)
	case *ast.SelectorExpr:
		if sel, ok := c.info().Selections[x]; ok && sel.Kind() == types.FieldVal {
			if r, ok := c.createSelector(x, sel); ok {
				return r
			}
		}
	}
	trFail(e.Pos(), "this expression for a syntax node (%s) is outside the subset", trSrc(e))
	return ""
}

// createIsNode: the expression has the type of a syntax node or of a pointer to one
func (c *trCtx) createIsNode(e ast.Expr) bool {
	tv, ok := c.info().Types[e]
	if !ok || tv.Type == nil {
		return false
	}
	return trNodeNamed(tv.Type) != nil || trNodePtr(tv.Type) != nil
}

// createPath: the field names along a selection (embedded structs are fields named after their types)
func createPath(recv types.Type, index []int) ([]string, types.Type) {
	var names []string
	ty := recv
	for _, i := range index {
		if p, ok := ty.Underlying().(*types.Pointer); ok {
			ty = p.Elem()
		}
		st, ok := ty.Underlying().(*types.Struct)
		if !ok {
			return nil, nil
		}
		f := st.Field(i)
		names = append(names, trMangle(f.Name()))
		ty = f.Type()
	}
	return names, ty
}

// createSelector (hook of selector): a field of a syntax node, possibly promoted from an embedded struct
func (c *trCtx) createSelector(x *ast.SelectorExpr, sel *types.Selection) (string, bool) {
	if !c.createMode() || sel.Kind() != types.FieldVal {
		return "", false
	}
	recv := sel.Recv()
	if trNodeNamed(recv) == nil && trNodePtr(recv) == nil {
		return "", false
	}
	names, _ := createPath(recv, sel.Index())
	if names == nil {
		trFail(x.Pos(), "selection %s through a type that is not a struct is outside the subset", trSrc(x))
	}
	return c.createNode(x.X) + "." + strings.Join(names, "."), true
}

// createAddrOK: the operand of `&` is a place inside the syntax tree whose evaluation has no effect: a variable, a field path, or
// `xs[i]` with the index variable of the enclosing range over xs
func (c *trCtx) createAddrOK(e ast.Expr) bool {
	switch x := trUnparen(e).(type) {
	case *ast.Ident:
		return true
	case *ast.SelectorExpr:
		if sel, ok := c.info().Selections[x]; ok && sel.Kind() == types.FieldVal {
			return c.createAddrOK(x.X)
		}
	case *ast.IndexExpr:
		xs, ok1 := trUnparen(x.X).(*ast.Ident)
		i, ok2 := trUnparen(x.Index).(*ast.Ident)
		if !ok1 || !ok2 {
			return false
		}
		// i must be the key of a range statement over xs that encloses this expression
		found := false
		ast.Inspect(c.fn.decl.Body, func(n ast.Node) bool {
			rs, ok := n.(*ast.RangeStmt)
			if !ok {
				return true
			}
			k, okk := rs.Key.(*ast.Ident)
			r, okr := trUnparen(rs.X).(*ast.Ident)
			if okk && okr && c.info().Defs[k] != nil && c.info().Defs[k] == c.info().Uses[i] && c.info().Uses[r] == c.info().Uses[xs] &&
				rs.Body.Pos() <= x.Pos() && x.End() <= rs.Body.End() {
				// neither i nor xs may be assigned in the body
				ok := true
				for _, o := range c.assignedIn2(false, rs.Body) {
					if o == c.info().Uses[i] || o == c.info().Uses[xs] {
						ok = false
					}
				}
				found = found || ok
			}
			return true
		})
		return found
	}
	return false
}

// createExpr (hook of expr)
func (c *trCtx) createExpr(e ast.Expr) (string, bool) {
	if !c.createMode() {
		return "", false
	}
	switch x := e.(type) {
	case *ast.UnaryExpr:
		if x.Op == token.AND && trNodeNamed(c.typeOf(x.X)) != nil {
			if !c.createAddrOK(x.X) {
				trFail(x.Pos(), "taking the address of %s (not a variable, a field path or the current element of a range) is outside the subset", trSrc(x.X))
			}
			return "Ref.node", true
		}
	case *ast.Ident:
		if o, ok := c.info().Uses[x].(*types.Var); ok && trNodePtr(o.Type()) != nil && c.createParam(o) {
			if _, known := c.names[o]; known {
				return "Ref.node", true // the pointer itself (stored in a Src field, passed on as a Ref)
			}
		}
	case *ast.CallExpr:
		if id, ok := trUnparen(x.Fun).(*ast.Ident); ok {
			if b, ok := c.info().Uses[id].(*types.Builtin); ok && b.Name() == "append" && x.Ellipsis == token.NoPos {
				if sl, ok := c.typeOf(x).Underlying().(*types.Slice); ok && c.createSumIface(sl.Elem()) {
					var els []string
					for _, a := range x.Args[1:] {
						els = append(els, c.ifaceArg(sl.Elem(), a, c.expr(a)))
					}
					return "(" + c.expr(x.Args[0]) + " ++ [" + strings.Join(els, ", ") + "])", true
				}
			}
		}
	case *ast.CompositeLit:
		if sl, ok := c.typeOf(x).Underlying().(*types.Slice); ok && c.createSumIface(sl.Elem()) {
			lt := c.leanType(c.typeOf(x), x.Pos())
			var els []string
			for _, el := range x.Elts {
				if _, isKV := el.(*ast.KeyValueExpr); isKV {
					trFail(el.Pos(), "keyed slice literal is outside the subset")
				}
				els = append(els, c.ifaceArg(sl.Elem(), el, c.expr(el)))
			}
			return "([" + strings.Join(els, ", ") + "] : " + lt + ")", true
		}
	}
	return "", false
}

// createSumIface: a named interface type of a translated package with declared implementers
func (c *trCtx) createSumIface(ty types.Type) bool {
	n, ok := ty.(*types.Named)
	if !ok || n.Obj().Pkg() == nil {
		return false
	}
	if _, isIface := n.Underlying().(*types.Interface); !isIface {
		return false
	}
	return c.t.unitOfPkg(n.Obj().Pkg()) != nil && len(c.t.implementers(n)) > 0
}

// trCreateNodeMethod: fo is a method of a struct of lib/syntax/directives
func trCreateNodeMethod(fo *types.Func) *types.Named {
	if fo == nil {
		return nil
	}
	sig, ok := fo.Type().(*types.Signature)
	if !ok || sig.Recv() == nil {
		return nil
	}
	rt := sig.Recv().Type()
	if p, ok := rt.(*types.Pointer); ok {
		rt = p.Elem()
	}
	return trNodeNamed(rt)
}

// trCreateEffect (hook of directEffectIn): `r.Extract()` on a syntax node slices the text (and reads bytes as a text)
func trCreateEffect(info *types.Info, n ast.Node) bool {
	call, ok := n.(*ast.CallExpr)
	if !ok {
		return false
	}
	f, ok := trUnparen(call.Fun).(*ast.SelectorExpr)
	if !ok {
		return false
	}
	sel, ok := info.Selections[f]
	if !ok || sel.Kind() != types.MethodVal {
		return false
	}
	fo, _ := sel.Obj().(*types.Func)
	if rn := trCreateNodeMethod(fo); rn != nil && rn.Obj().Name() == "Range" && fo.Name() == "Extract" {
		return true
	}
	return false
}

// createDropped: the callee's parameter has no translatable type (the registry): it was dropped from the translated function
func (c *trCtx) createDropped(tf *trFunc, p *types.Var) (dropped bool) {
	if trNodePtr(p.Type()) != nil {
		return false
	}
	defer func() {
		if r := recover(); r != nil {
			if _, ok := r.(trReject); ok {
				dropped = true
				return
			}
			panic(r)
		}
	}()
	c.t.leanType(tf.unit, p.Type(), p.Pos())
	return false
}

// createCall (hook of call): methods of syntax nodes, and calls of translated functions that take the registry or a node pointer
func (c *trCtx) createCall(x *ast.CallExpr) (string, bool) {
	if !c.createMode() {
		return "", false
	}
	var fobj *types.Func
	var recvExpr ast.Expr
	var recvPath []string
	switch f := trUnparen(x.Fun).(type) {
	case *ast.Ident:
		fobj, _ = c.info().Uses[f].(*types.Func)
	case *ast.SelectorExpr:
		if sel, ok := c.info().Selections[f]; ok {
			if sel.Kind() != types.MethodVal {
				return "", false
			}
			fobj, _ = sel.Obj().(*types.Func)
			recvExpr = f.X
			if idx := sel.Index(); len(idx) > 1 {
				recvPath, _ = createPath(sel.Recv(), idx[:len(idx)-1])
				if recvPath == nil {
					trFail(x.Pos(), "call of the promoted method %s through a type that is not a struct is outside the subset", trSrc(f))
				}
			}
		} else {
			fobj, _ = c.info().Uses[f.Sel].(*types.Func)
		}
	}
	if fobj == nil {
		return "", false
	}
	tf := c.t.funcs[fobj.Origin()]
	rn := trCreateNodeMethod(fobj)
	recvTerm := ""
	if recvExpr != nil && c.createIsNode(recvExpr) {
		recvTerm = c.createNode(recvExpr)
		if len(recvPath) > 0 {
			recvTerm += "." + strings.Join(recvPath, ".")
		}
	}
	if rn != nil && tf == nil {
		if recvTerm == "" {
			trFail(x.Pos(), "call of %s on a receiver that is not a syntax node is outside the subset", fobj.FullName())
		}
		switch rn.Obj().Name() + "." + fobj.Name() {
		case "Range.Empty":
			return "(" + trDirNS + ".Range.Empty " + recvTerm + ")", true
		case "Range.Extract":
			return c.hoist("Bridge.extract "+recvTerm, x.Pos()), true
		}
		trFail(x.Pos(), "call of %s: this method of a syntax node has no meaning in the model layer's reading", fobj.FullName())
	}
	if tf == nil {
		return "", false
	}
	// a translated callee: only when an argument is the registry or a node (otherwise the general rule applies)
	sig := fobj.Type().(*types.Signature)
	special := recvTerm != ""
	for i, a := range x.Args {
		if i < sig.Params().Len() && (c.createDropped(tf, sig.Params().At(i)) || trNodePtr(sig.Params().At(i).Type()) != nil) {
			special = true
		}
		_ = a
	}
	if !special {
		return "", false
	}
	if x.Ellipsis != token.NoPos || sig.Variadic() {
		trFail(x.Pos(), "call with … is outside the subset")
	}
	if len(tf.mut) > 0 {
		trFail(x.Pos(), "call of %s (assigns through a pointer or map parameter) is outside the subset here", fobj.FullName())
	}
	var args []string
	if recvExpr != nil {
		if recvTerm != "" {
			args = append(args, recvTerm)
		} else {
			args = append(args, c.expr(recvExpr))
		}
	}
	for i, a := range x.Args {
		p := sig.Params().At(i)
		switch {
		case c.createDropped(tf, p):
			if id, ok := trUnparen(a).(*ast.Ident); !ok || !c.opaqueParams[c.info().Uses[id]] {
				trFail(a.Pos(), "the argument for the untranslatable parameter %s must be an untranslatable parameter of this function", p.Name())
			}
		case trNodePtr(p.Type()) != nil && trCreateUnitSet[tf.unit]:
			args = append(args, c.createNode(a))
		default:
			args = append(args, c.exprAs(a, p.Type()))
		}
	}
	n0 := c.norder
	args = append(args, c.passExtras(tf)...)
	if !trCreateUnitSet[tf.unit] && c.norder > n0 {
		// the callee's own `ext` parameters (results of ITS calls of untranslated functions, whose arguments are not translated) are
		// handed through as parameters of this function; which calls they stand for is pinned by source text
		c.externals = append(c.externals, "extra"+itoa(n0+1)+"…extra"+itoa(c.norder)+" = the results of "+strings.Join(c.createExtTexts(tf), ", ")+
			" in "+trSrcText(c.t.l.fset, x))
	}
	c.fn.deps = append(c.fn.deps, tf)
	name := c.t.qname(c.unit(), tf.unit, tf.leanName)
	app := name
	if len(args) > 0 {
		app += " " + strings.Join(args, " ")
	}
	if tf.effect {
		return c.hoist(app, x.Pos()), true
	}
	return "(" + app + ")", true
}

// createReturnCall (hook of the return statement): `return f(…)` with several results
func (c *trCtx) createReturnCall(x *ast.ReturnStmt) (trLines, bool) {
	if !c.createMode() || len(x.Results) != 1 || c.nresults < 2 {
		return nil, false
	}
	call, ok := trUnparen(x.Results[0]).(*ast.CallExpr)
	if !ok {
		return nil, false
	}
	tup, ok := c.typeOf(call).(*types.Tuple)
	if !ok || tup.Len() != c.nresults {
		return nil, false
	}
	for i := 0; i < tup.Len(); i++ {
		if !types.Identical(tup.At(i).Type(), c.resultTypes[i]) {
			trFail(x.Pos(), "return of a call whose result %d has another type than the result of the function is outside the subset", i)
		}
	}
	if len(c.fn.mutObjs) > 0 || c.statePack != nil {
		return nil, false
	}
	v := c.expr(call)
	pre := c.takePre()
	return trWrapPre(pre, c.retRaw(v, x.Pos())), true
}

// createNil (hook of exprAs): nil for a pointer to a translated struct in a result position: the zero value
func (c *trCtx) createNil(e ast.Expr, ty types.Type) (string, bool) {
	if !c.createMode() {
		return "", false
	}
	p, ok := ty.(*types.Pointer)
	if !ok {
		return "", false
	}
	n, ok := p.Elem().(*types.Named)
	if !ok || n.Obj().Pkg() == nil || c.t.unitOfPkg(n.Obj().Pkg()) == nil || trNodeNamed(n) != nil {
		return "", false
	}
	if _, isStruct := n.Underlying().(*types.Struct); !isStruct {
		return "", false
	}
	return "(GoZero.zero : " + c.leanType(ty, e.Pos()) + ")", true
}

// createNilSliceValue (hook of nilSliceValue): a slice literal and an append are non-nil
func (c *trCtx) createNilSliceValue(e ast.Expr, ty types.Type) (string, bool) {
	if !c.createMode() {
		return "", false
	}
	switch x := trUnparen(e).(type) {
	case *ast.CompositeLit:
		return "(some " + c.expr(x) + ")", true
	case *ast.CallExpr:
		if id, ok := trUnparen(x.Fun).(*ast.Ident); ok {
			if b, ok := c.info().Uses[id].(*types.Builtin); ok && b.Name() == "append" && len(x.Args) >= 2 && x.Ellipsis == token.NoPos {
				return "(some " + c.expr(x) + ")", true // append with at least one element allocates: never nil
			}
		}
	}
	return "", false
}

// createNilableValue (hook of nilableValue): a tracked slice variable stored into a field whose nil-ness is observed
func (c *trCtx) createNilableValue(e ast.Expr) (string, bool) {
	if !c.createMode() || !c.nilSliceExpr(e) {
		return "", false
	}
	id := trUnparen(e).(*ast.Ident)
	if n, ok := c.names[c.info().Uses[id]]; ok {
		return n, true
	}
	return "", false
}

// createTypeSwitch (hook of typeSwitch): `switch d := w.Directive.(type)` on the `any` of the syntax tree
func (c *trCtx) createTypeSwitch(x *ast.TypeSwitchStmt, k trK) (trLines, bool) {
	if !c.createMode() {
		return nil, false
	}
	var subj ast.Expr
	bound := false
	switch a := x.Assign.(type) {
	case *ast.AssignStmt:
		subj = a.Rhs[0].(*ast.TypeAssertExpr).X
		bound = true
	case *ast.ExprStmt:
		subj = a.X.(*ast.TypeAssertExpr).X
	}
	st := c.typeOf(subj)
	if i, ok := st.Underlying().(*types.Interface); !ok || i.NumMethods() != 0 {
		return nil, false
	}
	if _, named := st.(*types.Named); named {
		return nil, false
	}
	se, ok := trUnparen(subj).(*ast.SelectorExpr)
	if !ok {
		return nil, false
	}
	sel, ok := c.info().Selections[se]
	if !ok || sel.Kind() != types.FieldVal || (trNodeNamed(sel.Recv()) == nil && trNodePtr(sel.Recv()) == nil) {
		return nil, false
	}
	if x.Init != nil {
		trFail(x.Pos(), "type switch with an init statement is outside the subset")
	}
	// the cases of GoAny: the struct types the syntax-layer translator stores in an `any` (its anyTypes); here: the struct types of
	// lib/syntax/directives that the parser assigns to Directive.Directive — the generated sum is matched by name, and a
	// constructor that does not exist there fails the build of the generated module
	sv := c.expr(subj)
	pre := c.takePre()
	out := trLines{"match " + sv + " with"}
	covered := map[string]bool{}
	var deflt *ast.CaseClause
	for _, cl := range x.Body.List {
		cc := cl.(*ast.CaseClause)
		if cc.List == nil {
			deflt = cc
			continue
		}
		if len(cc.List) != 1 {
			trFail(cc.Pos(), "a case with several types is outside the subset")
		}
		n := trNodeNamed(c.typeOf(cc.List[0]))
		if n == nil {
			trFail(cc.Pos(), "case %s: not a struct of the syntax tree (a pointer case never matches: the parser stores values)", c.typeOf(cc.List[0]))
		}
		ctor := trMangle(n.Obj().Name())
		if covered[ctor] {
			trFail(cc.Pos(), "duplicate case %s", ctor)
		}
		covered[ctor] = true
		vn := "_"
		if bound {
			if o := c.info().Implicits[cc]; o != nil {
				vn = c.local(o)
			}
		}
		body := c.stmts(cc.Body, k)
		out = append(out, "| "+trDirNS+".GoAny."+ctor+" "+vn+" =>")
		out = append(out, body.indent(2)...)
	}
	var rest trLines
	if deflt == nil {
		rest = k()
	} else {
		if bound {
			if o := c.info().Implicits[deflt]; o != nil {
				c.names[o] = sv
			}
		}
		rest = c.stmts(deflt.Body, k)
	}
	out = append(out, "| _ =>")
	out = append(out, rest.indent(2)...)
	return trWrapPre(pre, out), true
}

// createExtTexts: the calls of untranslated functions of /repo in the body of a translated function of another unit, in source order
func (c *trCtx) createExtTexts(tf *trFunc) []string {
	var res []string
	info := tf.pkg.info
	ast.Inspect(tf.decl.Body, func(n ast.Node) bool {
		call, ok := n.(*ast.CallExpr)
		if !ok {
			return true
		}
		var fo *types.Func
		switch f := trUnparen(call.Fun).(type) {
		case *ast.Ident:
			fo, _ = info.Uses[f].(*types.Func)
		case *ast.SelectorExpr:
			if sel, ok := info.Selections[f]; ok {
				fo, _ = sel.Obj().(*types.Func)
			} else {
				fo, _ = info.Uses[f.Sel].(*types.Func)
			}
		}
		if fo == nil || fo.Pkg() == nil || !strings.HasPrefix(fo.Pkg().Path(), trKnutPath) {
			return true
		}
		if _, pinned := trPinned[fo.Origin().FullName()]; pinned {
			return true
		}
		if g := c.t.funcs[fo.Origin()]; g != nil && !trCreateUnitSet[g.unit] {
			return true
		}
		res = append(res, trSrcText(c.t.l.fset, call))
		return false // the receiver chain `reg.Accounts()` belongs to the call
	})
	return res
}

// createExternalsDef (hook of translateFunc): the source texts of the calls behind the `ext`/`extra` parameters, as a definition that the
// agreement module pins (`example : F.externals = […] := rfl`): their arguments are not part of the translated term
func (c *trCtx) createExternalsDef() string {
	if !c.createMode() || len(c.externals) == 0 {
		return ""
	}
	return "\n/-- the calls of untranslated functions behind the `ext`/`extra` parameters (source text; pinned by the agreement module) -/\ndef " +
		c.fn.leanName + ".externals : List String := " + trLeanStrList(c.externals) + "\n"
}

// trCreateImports: the prelude modules of this file, when the generated text uses them
func trCreateImports(text string) string {
	for _, m := range []string{"Bridge.", "Ref.node", trDirNS + ".", "Time.ParseISO", "Decimal.NewFromString"} {
		if strings.Contains(text, m) {
			return "import Knut.GoSem.Bridge\n"
		}
	}
	return ""
}
