import Knut.GoSem.Multimap
/-!
# Lemmas about the prelude's tree (`Knut/GoSem/Multimap.lean`)

`nodeAt?` (the node at a path, if any) characterises a tree by lookups; `modifyAt` is the closed form of the translated idiom
`n := root.GetOrCreate(ss); n.Value… = …` (create the path, read the node, write it back).
-/
namespace Knut.GoSem.MNode
variable {V : Type}

/-- the node at a path -/
def nodeAt? : MNode V → List String → Option (MNode V)
  | n, [] => some n
  | n, s :: rest =>
    match AMap.find? n.Children s with
    | some c => nodeAt? c rest
    | none => none

/-- create the path and apply `f` to the node at its end -/
def modifyAt [GoZero V] (f : MNode V → MNode V) : List String → MNode V → MNode V
  | [], n => f n
  | s :: rest, n => { n with Children := AMap.set n.Children s (modifyAt f rest ((AMap.find? n.Children s).getD (new s))) }

@[simp] theorem nodeAt?_nil (n : MNode V) : nodeAt? n [] = some n := rfl

theorem nodeAt?_cons (n : MNode V) (s : String) (rest : List String) :
    nodeAt? n (s :: rest) = (AMap.find? n.Children s).bind (fun c => nodeAt? c rest) := by
  simp only [nodeAt?]; cases AMap.find? n.Children s <;> rfl

theorem nodeAt?_append (n : MNode V) (p q : List String) :
    nodeAt? n (p ++ q) = (nodeAt? n p).bind (fun m => nodeAt? m q) := by
  induction p generalizing n with
  | nil => rfl
  | cons s rest ih =>
    simp only [List.cons_append, nodeAt?_cons]
    cases AMap.find? n.Children s with
    | none => rfl
    | some c => simpa using ih c

theorem create_eq_modifyAt [GoZero V] (p : List String) (n : MNode V) : create p n = modifyAt id p n := by
  induction p generalizing n with
  | nil => rfl
  | cons s rest ih => simp only [create, modifyAt, ih]

theorem find?_set_self {κ ν : Type} [DecidableEq κ] (m : AMap κ ν) (k : κ) (v : ν) : AMap.find? (AMap.set m k v) k = some v := by
  rw [AMap.find?_set]; simp

theorem set_set {κ ν : Type} [DecidableEq κ] (m : AMap κ ν) (k : κ) (v w : ν) : AMap.set (AMap.set m k v) k w = AMap.set m k w := by
  induction m with
  | nil => simp [AMap.set]
  | cons e rest ih =>
    obtain ⟨a, b⟩ := e
    by_cases h : a = k
    · simp [AMap.set, h]
    · simp [AMap.set, h, ih]

/-- reading the node at the end of a created path -/
theorem getAt_modifyAt [GoZero V] (f : MNode V → MNode V) (p : List String) (n : MNode V) :
    getAt (modifyAt f p n) p = f (getAt (modifyAt id p n) p) := by
  induction p generalizing n with
  | nil => rfl
  | cons s rest ih => simp only [modifyAt, getAt, find?_set_self, Option.getD_some, ih]

theorem getAt_create [GoZero V] (p : List String) (n : MNode V) :
    getAt (create p n) p = getAt (modifyAt id p n) p := by rw [create_eq_modifyAt]

/-- writing back through the pointer `GetOrCreate` returned: the closed form -/
theorem setAt_create [GoZero V] (p : List String) (n v : MNode V) :
    setAt (create p n) p v = modifyAt (fun _ => v) p n := by
  induction p generalizing n with
  | nil => rfl
  | cons s rest ih =>
    simp only [create, setAt, find?_set_self, set_set, modifyAt, ih]

theorem setAt_modifyAt [GoZero V] (f : MNode V → MNode V) (p : List String) (n v : MNode V) :
    setAt (modifyAt f p n) p v = modifyAt (fun _ => v) p n := by
  induction p generalizing n with
  | nil => rfl
  | cons s rest ih =>
    simp only [setAt, modifyAt, find?_set_self, set_set, ih]

/-- **the translated idiom**: create the path, take the node at its end, update it with `f`, write it back -/
theorem setAt_getAt_create [GoZero V] (f : MNode V → MNode V) (p : List String) (n : MNode V) :
    setAt (create p n) p (f (getAt (create p n) p)) = modifyAt f p n := by
  induction p generalizing n with
  | nil => rfl
  | cons s rest ih =>
    simp only [create, setAt, getAt, find?_set_self, set_set, modifyAt, Option.getD_some, ih]

/-- lookups after `modifyAt` when `f` keeps the children: the nodes along the path change, every other node stays -/
theorem nodeAt?_modifyAt [GoZero V] (f : MNode V → MNode V) (hf : ∀ m, (f m).Children = m.Children)
    (p : List String) (n : MNode V) (q : List String) :
    nodeAt? (modifyAt f p n) q =
      if q.isPrefixOf p then
        some (modifyAt f (p.drop q.length) ((nodeAt? n q).getD (new (q.getLast?.getD ""))))
      else nodeAt? n q := by
  induction p generalizing n q with
  | nil =>
    cases q with
    | nil => simp [modifyAt]
    | cons t q' => simp [modifyAt, nodeAt?_cons, hf]
  | cons s rest ih =>
    cases q with
    | nil => simp [modifyAt]
    | cons t q' =>
      by_cases hts : t = s
      · subst hts
        simp only [modifyAt, nodeAt?_cons, find?_set_self, Option.bind_some, ih, List.isPrefixOf_cons_cons_self, List.length_cons, List.drop_succ_cons]
        by_cases hq : q'.isPrefixOf rest
        · simp only [hq, if_true]
          cases hc : AMap.find? n.Children t with
          | none =>
            cases q' with
            | nil => simp [nodeAt?]
            | cons u q'' => simp [nodeAt?_cons, new, AMap.find?, List.getLast?_cons_cons]
          | some c =>
            cases q' with
            | nil => simp
            | cons u q'' => simp [List.getLast?_cons_cons]
        · simp only [hq, Bool.false_eq_true, if_false]
          cases hc : AMap.find? n.Children t with
          | none =>
            cases q' with
            | nil => simp at hq
            | cons u q'' => simp [nodeAt?_cons, new, AMap.find?]
          | some c => simp
      · have hst : ¬ s = t := fun e => hts e.symm
        simp [modifyAt, nodeAt?_cons, AMap.find?_set, hst, hts]

/-- eta for the (recursive) structure -/
@[simp] theorem eta (n : MNode V) : (⟨n.Segment, n.Value, n.Children, n.SortedKeys⟩ : MNode V) = n := by cases n; rfl

/-! ## height (the fuel of `postOrder`) -/

theorem height_mk (seg : String) (v : V) (cs : List (String × MNode V)) (so : List String) :
    height (⟨seg, v, cs, so⟩ : MNode V) = heightL cs + 1 := by
  rw [height]

theorem heightL_cons (k : String) (c : MNode V) (rest : List (String × MNode V)) :
    heightL ((k, c) :: rest) = max (height c) (heightL rest) := by
  rw [heightL]

theorem height_le_heightL {cs : List (String × MNode V)} {k : String} {c : MNode V} (h : (k, c) ∈ cs) : height c ≤ heightL cs := by
  induction cs with
  | nil => simp at h
  | cons e rest ih =>
    obtain ⟨a, b⟩ := e
    rw [heightL_cons]
    rcases List.mem_cons.1 h with h | h
    · cases h; exact Nat.le_max_left _ _
    · exact Nat.le_trans (ih h) (Nat.le_max_right _ _)

theorem mem_of_find?' {cs : List (String × MNode V)} {k : String} {c : MNode V} (h : AMap.find? cs k = some c) : (k, c) ∈ cs := by
  induction cs with
  | nil => simp [AMap.find?] at h
  | cons e rest ih =>
    obtain ⟨a, b⟩ := e
    by_cases hak : a = k
    · simp only [AMap.find?, hak, if_true, Option.some.injEq] at h
      subst hak; subst h; simp
    · simp only [AMap.find?, hak, if_false] at h
      exact List.mem_cons_of_mem _ (ih h)

theorem height_child_lt {n : MNode V} {s : String} {c : MNode V} (h : AMap.find? n.Children s = some c) : height c < height n := by
  obtain ⟨seg, v, cs, so⟩ := n
  rw [height_mk]
  exact Nat.lt_succ_of_le (height_le_heightL (mem_of_find?' h))

theorem set_self {κ ν : Type} [DecidableEq κ] (m : AMap κ ν) (k : κ) (v : ν) (h : AMap.find? m k = some v) : AMap.set m k v = m := by
  induction m with
  | nil => simp [AMap.find?] at h
  | cons e rest ih =>
    obtain ⟨a, b⟩ := e
    by_cases hak : a = k
    · simp only [AMap.find?, hak, if_true, Option.some.injEq] at h
      subst hak; subst h; simp [AMap.set]
    · simp only [AMap.find?, hak, if_false] at h
      simp [AMap.set, hak, ih h]

/-- one child of the traversal: skipped when the key is not (or no longer) a child -/
def childStep {σ : Type} (f : List String → σ → MNode V → Outcome (σ × MNode V)) (ord : List String → List String)
    (fuel : Nat) (path : List String) (st : σ × List (String × MNode V)) (key : String) : Outcome (σ × List (String × MNode V)) :=
  match AMap.find? st.2 key with
  | none => .ok st
  | some ch => (postOrderF f ord fuel (path ++ [key]) st.1 ch).bind fun r => .ok (r.1, AMap.set st.2 key r.2)

theorem childStep_none {σ : Type} (f : List String → σ → MNode V → Outcome (σ × MNode V)) (ord : List String → List String)
    (fuel : Nat) (path : List String) (st : σ × List (String × MNode V)) (key : String) (h : AMap.find? st.2 key = none) :
    childStep f ord fuel path st key = .ok st := by simp [childStep, h]

theorem childStep_some {σ : Type} (f : List String → σ → MNode V → Outcome (σ × MNode V)) (ord : List String → List String)
    (fuel : Nat) (path : List String) (st : σ × List (String × MNode V)) (key : String) (ch : MNode V) (h : AMap.find? st.2 key = some ch) :
    childStep f ord fuel path st key =
      (postOrderF f ord fuel (path ++ [key]) st.1 ch).bind fun r => .ok (r.1, AMap.set st.2 key r.2) := by simp [childStep, h]

theorem postOrderF_succ {σ : Type} (f : List String → σ → MNode V → Outcome (σ × MNode V)) (ord : List String → List String)
    (fuel : Nat) (path : List String) (s : σ) (n : MNode V) :
    postOrderF f ord (fuel + 1) path s n =
      (foldlE (childStep f ord fuel path) (s, n.Children) (ord path)).bind fun st => f path st.1 { n with Children := st.2 } := rfl

/-! ## `sort` -/

theorem sort_mk (cmp : MNode V → MNode V → Int) (seg : String) (v : V) (cs : List (String × MNode V)) (so : List String) :
    sort cmp (⟨seg, v, cs, so⟩ : MNode V) =
      ⟨seg, v, sortChildren cmp cs, ((sortChildren cmp cs).mergeSort (fun a b => decide (cmp a.2 b.2 ≠ 1))).map Prod.fst⟩ := by
  rw [sort]

theorem sortChildren_nil (cmp : MNode V → MNode V → Int) : sortChildren cmp ([] : List (String × MNode V)) = [] := by
  rw [sortChildren]

theorem sortChildren_cons (cmp : MNode V → MNode V → Int) (k : String) (c : MNode V) (rest : List (String × MNode V)) :
    sortChildren cmp ((k, c) :: rest) = (k, sort cmp c) :: sortChildren cmp rest := by
  rw [sortChildren]

theorem sortChildren_eq_map (cmp : MNode V → MNode V → Int) (cs : List (String × MNode V)) :
    sortChildren cmp cs = cs.map (fun e => (e.1, sort cmp e.2)) := by
  induction cs with
  | nil => rw [sortChildren_nil]; rfl
  | cons e rest ih => obtain ⟨k, c⟩ := e; rw [sortChildren_cons, ih]; rfl

theorem find?_sortChildren (cmp : MNode V → MNode V → Int) (cs : List (String × MNode V)) (s : String) :
    AMap.find? (sortChildren cmp cs) s = (AMap.find? cs s).map (sort cmp) := by
  induction cs with
  | nil => rw [sortChildren_nil]; rfl
  | cons e rest ih =>
    obtain ⟨k, c⟩ := e
    rw [sortChildren_cons]
    by_cases h : k = s <;> simp [AMap.find?, h, ih]

theorem keys_sortChildren (cmp : MNode V → MNode V → Int) (cs : List (String × MNode V)) :
    AMap.keys (sortChildren cmp cs) = AMap.keys cs := by
  rw [sortChildren_eq_map]; simp [AMap.keys, List.map_map, Function.comp_def]

theorem sort_Segment (cmp : MNode V → MNode V → Int) (n : MNode V) : (sort cmp n).Segment = n.Segment := by
  obtain ⟨seg, v, cs, so⟩ := n; rw [sort_mk]
theorem sort_Value (cmp : MNode V → MNode V → Int) (n : MNode V) : (sort cmp n).Value = n.Value := by
  obtain ⟨seg, v, cs, so⟩ := n; rw [sort_mk]
theorem sort_Children (cmp : MNode V → MNode V → Int) (n : MNode V) : (sort cmp n).Children = sortChildren cmp n.Children := by
  obtain ⟨seg, v, cs, so⟩ := n; rw [sort_mk]
theorem sort_SortedKeys (cmp : MNode V → MNode V → Int) (n : MNode V) :
    (sort cmp n).SortedKeys = ((sortChildren cmp n.Children).mergeSort (fun a b => decide (cmp a.2 b.2 ≠ 1))).map Prod.fst := by
  obtain ⟨seg, v, cs, so⟩ := n; rw [sort_mk]

/-- sorting commutes with the lookup of a node -/
theorem nodeAt?_sort (cmp : MNode V → MNode V → Int) (n : MNode V) (q : List String) :
    nodeAt? (sort cmp n) q = (nodeAt? n q).map (sort cmp) := by
  induction q generalizing n with
  | nil => rfl
  | cons s rest ih =>
    rw [nodeAt?_cons, nodeAt?_cons, sort_Children, find?_sortChildren]
    cases AMap.find? n.Children s with
    | none => rfl
    | some c => simpa using ih c

theorem find?_of_mem_nodup' {κ ν : Type} [DecidableEq κ] {m : AMap κ ν} {k : κ} {v : ν} (hn : (AMap.keys m).Nodup) (h : (k, v) ∈ m) :
    AMap.find? m k = some v := by
  induction m with
  | nil => simp at h
  | cons e rest ih =>
    obtain ⟨a, b⟩ := e
    have hn' : a ∉ AMap.keys rest ∧ (AMap.keys rest).Nodup := by simpa [AMap.keys] using hn
    rcases List.mem_cons.1 h with h | h
    · cases h; simp [AMap.find?]
    · have : a ≠ k := by
        intro e; subst e
        exact hn'.1 (List.mem_map.2 ⟨(a, v), h, rfl⟩)
      simp [AMap.find?, this, ih hn'.2 h]

/-- **the keys in sorted order**: when the comparator looks at segment and value only (it gives the same answer on sorted
nodes), the sorted keys of a node are its children's keys sorted by the comparator on the children -/
theorem sort_SortedKeys_eq (cmp : MNode V → MNode V → Int)
    (hcmp : ∀ a b : MNode V, cmp (sort cmp a) (sort cmp b) = cmp a b) (n : MNode V) (hn : (AMap.keys n.Children).Nodup) :
    (sort cmp n).SortedKeys =
      (AMap.keys n.Children).mergeSort (fun a b =>
        decide (cmp ((AMap.find? n.Children a).getD n) ((AMap.find? n.Children b).getD n) ≠ 1)) := by
  rw [sort_SortedKeys]
  have hk : AMap.keys n.Children = (sortChildren cmp n.Children).map Prod.fst := by
    rw [← keys_sortChildren cmp]; rfl
  rw [hk]
  apply List.map_mergeSort
  intro a ha b hb
  rw [sortChildren_eq_map] at ha hb
  obtain ⟨a0, ha0, rfl⟩ := List.mem_map.1 ha
  obtain ⟨b0, hb0, rfl⟩ := List.mem_map.1 hb
  obtain ⟨ka, ca⟩ := a0
  obtain ⟨kb, cb⟩ := b0
  simp only [find?_of_mem_nodup' hn ha0, find?_of_mem_nodup' hn hb0, Option.getD_some, hcmp]

end Knut.GoSem.MNode
