import Knut.Wire
import Knut.Model.Accrual
import Knut.Spec.AccrualSpec
/-! Driver ops for C10 (`transaction.Create` with `@accrue`, and the property monitor).

Field formats: names hex; quantities plain decimal literals; a booking `credit>debit>qty>commodity`,
bookings joined by `,`; targets `n` (no annotation) or `t[:commodity]*`; accrual `n` or
`interval:start:end:account` (interval 1 = daily … 4 = quarterly, as in the C11 ops; 0 and 5 are
accepted for `once`/`yearly`); a posting `account>other>commodity>qty`, postings joined by `;`;
a transaction `date|description|postings|targets`, transactions joined by `,` (monitor) or ` ` (answer). -/
namespace Knut.Driver.C10
open Knut Knut.Wire Knut.Accrual Knut.Dec

def ivOfNat : Nat → Option Interval
  | 0 => some .once | 1 => some .daily | 2 => some .weekly | 3 => some .monthly
  | 4 => some .quarterly | 5 => some .yearly | _ => none

def parseAccount (s : String) : Option Account := (unhexStr s).map Account.ofName

def parseBooking (s : String) : Option Booking :=
  match splitOn s '>' with
  | [c, d, q, m] => do
    let c ← parseAccount c; let d ← parseAccount d; let q ← parseDec q; let m ← unhexStr m
    pure { credit := c, debit := d, quantity := q, commodity := m }
  | _ => none

def parseBookings (s : String) : Option (List Booking) :=
  if s = "-" then some [] else (splitOn s ',').mapM parseBooking

def parseTargets (s : String) : Option (Option (List Commodity)) :=
  match splitOn s ':' with
  | ["n"] => some none
  | "t" :: rest => (rest.mapM unhexStr).map some
  | _ => none

def parseAddon (s : String) : Option (Option Addon) :=
  match splitOn s ':' with
  | ["n"] => some none
  | [iv, a, b, acc] => do
    let iv ← iv.toNat?.bind ivOfNat; let a ← parseInt a; let b ← parseInt b; let acc ← parseAccount acc
    pure (some { interval := iv, start := a, stop := b, account := acc })
  | _ => none

def showTargets : Option (List Commodity) → String
  | none => "n"
  | some l => l.foldl (fun s c => s ++ ":" ++ hexStr c) "t"

def showPosting (p : Posting) : String :=
  hexStr p.account.name ++ ">" ++ hexStr p.other.name ++ ">" ++ hexStr p.commodity ++ ">" ++ showDec p.quantity

def showTx (t : Transaction) : String :=
  s!"{t.date}|" ++ hexStr t.description ++ "|" ++ String.intercalate ";" (t.postings.map showPosting) ++ "|" ++ showTargets t.targets

def parsePosting (s : String) : Option Posting :=
  match splitOn s '>' with
  | [a, o, c, q] => do
    let a ← parseAccount a; let o ← parseAccount o; let c ← unhexStr c; let q ← parseDec q
    pure { account := a, other := o, commodity := c, quantity := q }
  | _ => none

def parsePostings (s : String) : Option (List Posting) :=
  if s = "-" then some [] else (splitOn s ';').mapM parsePosting

def parseTx (s : String) : Option Transaction :=
  match splitOn s '|' with
  | [d, desc, ps, tg] => do
    let d ← parseInt d; let desc ← unhexStr desc; let ps ← parsePostings ps; let tg ← parseTargets tg
    pure { date := d, description := desc, postings := ps, targets := tg }
  | _ => none

def parseTxs (s : String) : Option (List Transaction) :=
  if s = "-" then some [] else (splitOn s ',').mapM parseTx

def handleStr (fields : List String) : String :=
  match fields with
  | ["c10", date, desc, bookings, targets, accrual] =>
    match parseInt date, unhexStr desc, parseBookings bookings, parseTargets targets, parseAddon accrual with
    | some date, some desc, some bs, some tg, some ac =>
      match create { date := date, description := desc, bookings := bs, targets := tg, accrual := ac } with
      | .ok txs => txs.foldl (fun s t => s ++ " " ++ showTx t) "ok"
      | .error => "error"
      | .panic _ => "panic"
    | _, _, _, _, _ => "bad-op"
  | ["c10mon", date, orig, accrual, gen] =>
    match parseInt date, parsePostings orig, parseAddon accrual, parseTxs gen with
    | some date, some orig, some (some a), some gen =>
      let ends := (periodsOf ⟨a.start, a.stop⟩ a.interval 0).map (·.stop)
      let fails := (if gen.all (Spec.balancedPair a.account) then "" else " balanced")
        ++ (if Spec.conservedB orig gen then "" else " conserved")
        ++ (if Spec.datesB date ends orig gen then "" else " dates")
      if Spec.accrualOK orig date a gen then "ok" else "fail" ++ fails
    | _, _, _, _ => "bad-op"
  | _ => "no-such-op"

def handle (fields : List String) : Option String :=
  let r := handleStr fields
  if r = "no-such-op" then none else some r

end Knut.Driver.C10
