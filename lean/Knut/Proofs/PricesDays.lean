import Knut.Proofs.PricesSpec
/-!
# `journal.ComputePrices`: what `Day.Normalized` is on every day
-/
namespace Knut.Prices
open Knut Knut.Dec Knut.Spec

/-- the declarations of the days `0 … i`, in journal order -/
def declsUpTo (days : List Day) (i : Nat) : List Decl := (days.take (i + 1)).flatMap (·.prices)

theorem insertAll_append (ps : Prices) (a b : List Decl) :
    insertAll ps (a ++ b) = (insertAll ps a).bind (fun ps' => insertAll ps' b) := by
  induction a generalizing ps with
  | nil => simp [insertAll]
  | cons d rest ih =>
    simp only [List.cons_append, insertAll]
    cases insert ps d with
    | none => rfl
    | some ps1 => exact ih ps1

theorem declsUpTo_zero (d : Day) (ds : List Day) : declsUpTo (d :: ds) 0 = d.prices := by
  simp [declsUpTo]

theorem declsUpTo_succ (d : Day) (ds : List Day) (i : Nat) :
    declsUpTo (d :: ds) (i + 1) = d.prices ++ declsUpTo ds i := by
  simp [declsUpTo]

/-- `Day.Normalized` of day `i` is `Normalize(v)` of the price map holding every declaration of the days
`0 … i` (inserted in journal order), or nil if there is none yet.  `pre` are the declarations already
in the processor's map. -/
theorem computePrices_spec (v : Commodity) (days : List Day) :
    ∀ (st : CPState) (pre : List Decl) (out : List (Int × Option NPrices)),
    insertAll [] pre = some st.prc →
    st.previous = (if pre = [] then none else some (normalize st.prc v)) →
    computePrices v st days = some out →
    out.length = days.length ∧
    ∀ i (hi : i < days.length), ∃ ps, insertAll [] (pre ++ declsUpTo days i) = some ps ∧
      out[i]? = some (days[i].date, if pre ++ declsUpTo days i = [] then none else some (normalize ps v)) := by
  induction days with
  | nil =>
    intro st pre out _ _ h
    simp only [computePrices, Option.some.injEq] at h
    subst h
    exact ⟨rfl, fun i hi => absurd hi (Nat.not_lt_zero i)⟩
  | cons d ds ih =>
    intro st pre out hst hprev h
    simp only [computePrices, cpDay] at h
    cases hins : insertAll st.prc d.prices with
    | none => simp [hins] at h
    | some prc =>
      simp only [hins] at h
      -- the state after the day
      have hpre' : insertAll [] (pre ++ d.prices) = some prc := by
        rw [insertAll_append, hst]; exact hins
      have hprev' : (if d.prices.length > 0 then some (normalize prc v) else st.previous) =
          (if pre ++ d.prices = [] then none else some (normalize prc v)) := by
        by_cases hd : d.prices = []
        · have hprc : prc = st.prc := by
            rw [hd] at hins; simp only [insertAll, Option.some.injEq] at hins; exact hins.symm
          simp [hd, hprev, hprc]
        · have : d.prices.length > 0 := List.length_pos_iff.mpr hd
          simp [this, hd]
      cases hrest : computePrices v { prc := prc, previous := if d.prices.length > 0 then some (normalize prc v) else st.previous } ds with
      | none => simp [hrest] at h
      | some rest =>
        simp only [hrest, Option.some.injEq] at h
        subst h
        have := ih { prc := prc, previous := if d.prices.length > 0 then some (normalize prc v) else st.previous }
          (pre ++ d.prices) rest hpre' hprev' hrest
        refine ⟨by simp [this.1], ?_⟩
        intro i hi
        cases i with
        | zero =>
          refine ⟨prc, by rw [declsUpTo_zero]; exact hpre', ?_⟩
          simp only [List.getElem?_cons_zero, List.getElem_cons_zero, declsUpTo_zero, hprev']
        | succ j =>
          have hj : j < ds.length := by simpa using hi
          obtain ⟨ps, h1, h2⟩ := this.2 j hj
          refine ⟨ps, by rw [declsUpTo_succ, ← List.append_assoc]; exact h1, ?_⟩
          simp only [List.getElem?_cons_succ, List.getElem_cons_succ, declsUpTo_succ, ← List.append_assoc]
          exact h2

/-! ## `journal.Builder`: days sorted by date, file order within a day -/

/-- the price declarations of the directives dated `date`, in file order -/
def pricesOn (ds : List (Int × Option Decl)) (date : Int) : List Decl :=
  ds.filterMap (fun e => if e.1 = date then e.2 else none)

theorem pricesOn_append (ds : List (Int × Option Decl)) (date : Int) (x : Option Decl) (d : Int) :
    pricesOn (ds ++ [(date, x)]) d = pricesOn ds d ++ (if date = d then x.toList else []) := by
  unfold pricesOn
  rw [List.filterMap_append]
  by_cases h : date = d
  · cases x <;> simp [h]
  · simp [h]

theorem pricesOn_eq_nil (ds : List (Int × Option Decl)) (d : Int) (h : ∀ e ∈ ds, e.1 ≠ d) : pricesOn ds d = [] := by
  unfold pricesOn
  apply List.filterMap_eq_nil_iff.mpr
  intro e he
  simp [h e he]

def dayDates (days : List Day) : List Int := days.map (·.date)

theorem mem_dates_insertDay (days : List Day) (date : Int) (x : Option Decl) (d : Int) :
    d ∈ dayDates (insertDay days date x) ↔ d = date ∨ d ∈ dayDates days := by
  induction days with
  | nil => simp [insertDay, dayDates]
  | cons y rest ih =>
    simp only [insertDay]
    split
    · simp [dayDates]
    · split
      · rename_i heq
        simp only [dayDates, List.map_cons, List.mem_cons]
        constructor
        · intro h; exact Or.inr h
        · intro h
          rcases h with h | h
          · exact Or.inl (h.trans heq)
          · exact h
      · simp only [dayDates, List.map_cons, List.mem_cons] at ih ⊢
        rw [ih]
        constructor
        · intro h
          rcases h with h | h | h
          · exact Or.inr (Or.inl h)
          · exact Or.inl h
          · exact Or.inr (Or.inr h)
        · intro h
          rcases h with h | h | h
          · exact Or.inr (Or.inl h)
          · exact Or.inl h
          · exact Or.inr (Or.inr h)

theorem sorted_insertDay (days : List Day) (date : Int) (x : Option Decl)
    (h : (dayDates days).Pairwise (· < ·)) : (dayDates (insertDay days date x)).Pairwise (· < ·) := by
  induction days with
  | nil => simp [insertDay, dayDates]
  | cons y rest ih =>
    simp only [dayDates, List.map_cons, List.pairwise_cons] at h
    simp only [insertDay]
    split
    · rename_i hlt
      simp only [dayDates, List.map_cons, List.pairwise_cons, List.mem_cons]
      refine ⟨?_, h.1, h.2⟩
      intro a ha
      rcases ha with rfl | ha
      · exact hlt
      · exact Int.lt_trans hlt (h.1 a ha)
    · split
      · simp only [dayDates, List.map_cons, List.pairwise_cons]
        exact h
      · rename_i hnlt hne
        have hgt : y.date < date := by omega
        simp only [dayDates, List.map_cons, List.pairwise_cons]
        refine ⟨?_, ih h.2⟩
        intro a ha
        rcases (mem_dates_insertDay rest date x a).mp ha with rfl | ha'
        · exact hgt
        · exact h.1 a ha'

/-- the invariant of `Builder.Add`: dates strictly ascending, exactly the dates that occur, and every
day holds the declarations of its date in file order -/
structure DaysInv (days : List Day) (ds : List (Int × Option Decl)) : Prop where
  sorted : (dayDates days).Pairwise (· < ·)
  dates : ∀ d, d ∈ dayDates days ↔ ∃ e ∈ ds, e.1 = d
  prices : ∀ day ∈ days, day.prices = pricesOn ds day.date

theorem prices_insertDay (days : List Day) (date : Int) (x : Option Decl) (ds : List (Int × Option Decl))
    (h : DaysInv days ds) : ∀ day ∈ insertDay days date x, day.prices = pricesOn (ds ++ [(date, x)]) day.date := by
  have hnew : date ∉ dayDates days → pricesOn ds date = [] := by
    intro hn
    apply pricesOn_eq_nil
    intro e he heq
    exact hn ((h.dates date).mpr ⟨e, he, heq⟩)
  have hs := h.sorted
  have hp := h.prices
  clear h
  induction days with
  | nil =>
    intro day hday
    simp only [insertDay, List.mem_singleton] at hday
    subst hday
    rw [pricesOn_append, hnew (by simp [dayDates])]
    simp
  | cons y rest ih =>
    simp only [dayDates, List.map_cons, List.pairwise_cons] at hs
    intro day hday
    simp only [insertDay] at hday
    split at hday
    · rename_i hlt
      rcases List.mem_cons.mp hday with rfl | hday'
      · have : date ∉ dayDates (y :: rest) := by
          simp only [dayDates, List.map_cons, List.mem_cons, not_or]
          refine ⟨by omega, ?_⟩
          intro hm
          have := hs.1 date hm
          omega
        rw [pricesOn_append, hnew this]
        simp
      · rw [pricesOn_append, hp day hday']
        have : date ≠ day.date := by
          rcases List.mem_cons.mp hday' with rfl | hr
          · omega
          · have := hs.1 day.date (List.mem_map_of_mem hr)
            omega
        simp [this]
    · split at hday
      · rename_i heq
        rcases List.mem_cons.mp hday with rfl | hday'
        · simp only
          rw [pricesOn_append, hp y List.mem_cons_self]
          simp [heq]
        · rw [pricesOn_append, hp day (List.mem_cons_of_mem _ hday')]
          have : date ≠ day.date := by
            have := hs.1 day.date (List.mem_map_of_mem hday')
            omega
          simp [this]
      · rename_i hnlt hne
        rcases List.mem_cons.mp hday with rfl | hday'
        · rw [pricesOn_append, hp day List.mem_cons_self]
          simp [hne]
        · apply ih _ hs.2 (fun d hd => hp d (List.mem_cons_of_mem _ hd)) day hday'
          intro hn
          apply hnew
          simp only [dayDates, List.map_cons, List.mem_cons, not_or]
          exact ⟨hne, hn⟩

theorem daysInv_insertDay (days : List Day) (date : Int) (x : Option Decl) (ds : List (Int × Option Decl))
    (h : DaysInv days ds) : DaysInv (insertDay days date x) (ds ++ [(date, x)]) := by
  refine ⟨sorted_insertDay days date x h.sorted, ?_, prices_insertDay days date x ds h⟩
  intro d
  rw [mem_dates_insertDay, h.dates d]
  constructor
  · intro hd
    rcases hd with rfl | ⟨e, he, heq⟩
    · exact ⟨(d, x), by simp, rfl⟩
    · exact ⟨e, by simp [he], heq⟩
  · intro ⟨e, he, heq⟩
    rcases List.mem_append.mp he with he | he
    · exact Or.inr ⟨e, he, heq⟩
    · simp only [List.mem_singleton] at he
      subst he
      exact Or.inl heq.symm

theorem daysInv_foldl (ds pre : List (Int × Option Decl)) (days : List Day) (h : DaysInv days pre) :
    DaysInv (ds.foldl (fun acc e => insertDay acc e.1 e.2) days) (pre ++ ds) := by
  induction ds generalizing days pre with
  | nil => simpa using h
  | cons e rest ih =>
    simp only [List.foldl_cons]
    have := ih (pre ++ [(e.1, e.2)]) (insertDay days e.1 e.2) (daysInv_insertDay days e.1 e.2 pre h)
    simpa using this

/-- `journal.Builder` applied to the dated directives of a journal in file order -/
theorem buildDays_inv (ds : List (Int × Option Decl)) : DaysInv (buildDays ds) ds := by
  have := daysInv_foldl ds [] [] ⟨by simp [dayDates], by simp [dayDates], by simp⟩
  simpa [buildDays] using this

end Knut.Prices
