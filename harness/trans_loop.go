package main

// Loops of the Go→Lean translator.
//
// for init; cond; post { body }   →   def F.loopN (free…) (fuel : Nat) (state…) : Outcome R :=
//                                        if cond then match fuel with | 0 => Outcome.outOfFuel | fuel+1 => body; post; F.loopN … fuel state'
//                                        else Outcome.ok state
//   called with the fuel derived from the FIRST comparison of the loop condition, evaluated at loop entry:
//     a < b → fuelLt a b = (b-a).toNat     a <= b → fuelGe b a = (b-a+1).toNat     (and symmetrically for >, >=,
//     !t.Before(u) → fuelGe t u, t.After(u) → fuelLt u t, !t.After(u) → fuelGe u t, t.Before(u) → fuelLt t u, len(q) > 0 is
//     not a bound).  The fuel is a heuristic; that it suffices is part of the agreement theorem (outOfFuel ≠ model result).
// for _, v := range xs { body }   →   List.foldl (or foldlE in the monad) over xs (xs.zipIdx when the index is used)

import (
	"go/ast"
	"go/token"
	"go/types"
	"sort"
	"strings"
)

// trFuelParam: functions whose loops take their fuel as an explicit parameter
var trFuelParam = map[string]bool{
	trKnutPath + "lib/model/price.Prices.normalize": true,
}

// freeVars: local variables (parameters included) read inside the nodes and declared outside, minus `except`
func (c *trCtx) freeVars(except []types.Object, nodes ...ast.Node) []types.Object {
	defined := map[types.Object]bool{}
	used := map[types.Object]bool{}
	for _, n := range nodes {
		if n == nil || isNilNode(n) {
			continue
		}
		ast.Inspect(n, func(n ast.Node) bool {
			for _, o := range c.ambientUsed(n, false) {
				used[o] = true // color.NoColor, the float formatter (trans_units_tablerender.go)
			}
			if id, ok := n.(*ast.Ident); ok {
				if o := c.info().Defs[id]; o != nil {
					defined[o] = true
				}
				if o, ok := c.info().Uses[id].(*types.Var); ok && !o.IsField() && !(o.Pkg() != nil && o.Parent() == o.Pkg().Scope()) {
					used[o] = true
				}
			}
			return true
		})
	}
	// a `return` inside the nodes also reads what every result carries: the parameters assigned through and the captured state
	for _, n := range nodes {
		if n != nil && !isNilNode(n) && trHasReturn(n) {
			for _, m := range c.fn.mutObjs {
				if mv := c.writerMove; mv != nil && mv.param == m {
					if _, known := c.names[mv.local]; known {
						used[mv.local] = true // the sink lives in the local's field (trans_units_jprinter.go)
						continue
					}
				}
				used[m] = true
			}
			for _, v := range c.stateVars {
				used[v] = true
			}
		}
	}
	ex := map[types.Object]bool{}
	for _, o := range except {
		ex[o] = true
	}
	var res []types.Object
	for o := range used {
		if !defined[o] && !ex[o] {
			if _, known := c.names[o]; known {
				res = append(res, o)
			}
		}
	}
	sort.Slice(res, func(i, j int) bool { return res[i].Pos() < res[j].Pos() })
	return res
}

// fuelOf derives the fuel expression from the first comparison of the loop condition
func (c *trCtx) fuelOf(cond ast.Expr) string {
	e := trUnparen(cond)
	for {
		if b, ok := e.(*ast.BinaryExpr); ok && b.Op == token.LAND {
			e = trUnparen(b.X)
			continue
		}
		break
	}
	neg := false
	if u, ok := e.(*ast.UnaryExpr); ok && u.Op == token.NOT {
		neg = true
		e = trUnparen(u.X)
	}
	switch x := e.(type) {
	case *ast.BinaryExpr:
		if !trIsInt(c.typeOf(x.X)) || neg {
			break
		}
		a, b := c.expr(x.X), c.expr(x.Y)
		switch x.Op {
		case token.LSS:
			return "fuelLt " + a + " " + b
		case token.LEQ:
			return "fuelGe " + b + " " + a
		case token.GTR:
			return "fuelLt " + b + " " + a
		case token.GEQ:
			return "fuelGe " + a + " " + b
		}
	case *ast.CallExpr:
		sel, ok := x.Fun.(*ast.SelectorExpr)
		if !ok || len(x.Args) != 1 || !trIsTime(c.typeOf(sel.X)) {
			break
		}
		a, b := c.expr(sel.X), c.expr(x.Args[0])
		switch {
		case sel.Sel.Name == "Before" && neg: // a >= b
			return "fuelGe " + a + " " + b
		case sel.Sel.Name == "Before": // a < b
			return "fuelLt " + a + " " + b
		case sel.Sel.Name == "After" && neg: // a <= b
			return "fuelGe " + b + " " + a
		case sel.Sel.Name == "After": // a > b
			return "fuelLt " + b + " " + a
		}
	}
	trFail(cond.Pos(), "cannot derive a bound for this loop: its condition does not start with a comparison of integers or dates")
	return ""
}

func (c *trCtx) forStmt(x *ast.ForStmt, k trK) trLines {
	c.needEffect(x.Pos(), "for loop")
	if x.Init != nil {
		return c.stmt(x.Init, func() trLines {
			y := *x
			y.Init = nil
			return c.forStmt(&y, k)
		})
	}
	if x.Cond == nil {
		trFail(x.Pos(), "for without a condition is outside the subset")
	}
	var post ast.Node
	if x.Post != nil {
		post = x.Post
	}
	state := c.assignedIn(x.Body, post)
	free := c.freeVars(state, x.Cond, x.Body, post)
	// the variables that are live after the loop: all state variables (those declared by the init statement are simply unused later)
	flow := trHasReturn(x.Body)
	c.nloop++
	name := c.fn.leanName + ".loop" + itoa(c.nloop)

	var fuel string
	if trFuelParam[c.fn.pkg.path+"."+c.fn.leanName] {
		// no bound can be derived from the condition (the loop also grows what it consumes): the fuel is an explicit parameter of the
		// translated function and the agreement theorem says for which values it suffices
		c.norder++
		fuel = "fuel" + itoa(c.norder)
		c.extraParams = append(c.extraParams, "("+fuel+" : Nat)")
		c.extraTypes = append(c.extraTypes, "Nat")
	} else {
		fuel = c.fuelOf(x.Cond)
	}
	fuelPre := c.takePre() // a bound that can panic (cap of a slice whose capacity is unknown) is evaluated before the loop, as its condition is (trans_units_tablerender.go)
	if len(fuelPre) > 0 && !trFuelMayPanic[c.fn.pkg.path+"."+c.fn.leanName] {
		trFail(x.Cond.Pos(), "a loop bound that can panic is outside the subset")
	}
	tuple, ttyp := c.tupleOf(state)
	resTy := ttyp
	exit := "Outcome.ok " + tuple
	if flow {
		resTy = "(Flow " + ttyp + " " + c.fn.resType + ")"
		exit = "Outcome.ok (Flow.next " + tuple + ")"
	}

	// ---- the loop function
	var params []string
	var callArgs []string
	for _, o := range free {
		params = append(params, "("+c.names[o]+" : "+c.varType(o, o.Pos())+")")
		callArgs = append(callArgs, c.names[o])
	}
	var sparams, sargs []string
	for _, o := range state {
		sparams = append(sparams, "("+c.names[o]+" : "+c.varType(o, o.Pos())+")")
		sargs = append(sargs, c.names[o])
	}
	savedLoop, savedPre := c.loop, c.takePre()
	lc := &trLoopCtx{kind: "for", flow: flow, outer: savedLoop}
	ph, x0, a0 := c.extrasMark()
	rec := func() trLines {
		return trOne(name + ph + " " + strings.Join(append(append([]string{}, callArgs...), append([]string{"fuel"}, sargs...)...), " "))
	}
	afterBody := func() trLines {
		if x.Post == nil {
			return rec()
		}
		saved := c.loop
		c.loop = nil // the post statement is not inside the body
		defer func() { c.loop = saved }()
		return c.stmt(x.Post, rec)
	}
	lc.brk = func() trLines { return trOne(exit) }
	lc.cont = afterBody
	c.loop = lc
	cond := c.expr(x.Cond)
	condPre := c.takePre()
	body := c.stmts(x.Body.List, afterBody)
	c.loop = savedLoop
	c.pre = savedPre
	m := trLines{"match fuel with", "| 0 => Outcome.outOfFuel", "| fuel + 1 =>"}
	m = append(m, body.indent(2)...)
	def := trWrapPre(condPre, trIte(cond, m, trOne(exit)))
	exDecls, exNames := c.extrasSince(ph, x0, a0, def)
	head := "def " + name + exDecls + " " + strings.Join(append(append(params, "(fuel : Nat)"), sparams...), " ") + " : Outcome " + resTy + " :="
	c.aux = append(c.aux, "/-- loop of `"+c.fn.leanName+"` at "+c.t.l.relPos(x.Pos())+"; state: "+strings.Join(sargs, ", ")+" -/\n"+head+"\n"+def.indent(2).String()+"\n")

	// ---- the call
	call := name + exNames + " " + strings.Join(append(append([]string{}, callArgs...), append([]string{"(" + fuel + ")"}, sargs...)...), " ")
	st := c.fresh("st")
	if !flow {
		if len(state) == 1 {
			st = c.names[state[0]]
		}
		return trWrapPre(fuelPre, trBind(st, call, c.unpack(st, state, k())))
	}
	r := c.fresh("r")
	next := c.unpack(st, state, k())
	out := trLines{"match " + r + " with", "| Flow.ret v => " + c.retRaw("v", x.Pos())[0], "| Flow.next " + st + " =>"}
	out = append(out, next.indent(2)...)
	return trWrapPre(fuelPre, trBind(r, call, out))
}


func (c *trCtx) rangeStmt(x *ast.RangeStmt, k trK) trLines {
	c.rangeSelfWrite(x) // a store into the slice ranged over, at another index than the key: rejected (trans_units_tablerender.go)
	tx := c.typeOf(x.X)
	var elemTy types.Type
	switch u := tx.Underlying().(type) {
	case *types.Slice:
		elemTy = u.Elem()
	case *types.Map:
		return c.rangeRec(x, u.Key(), u, k)
	case *types.Basic:
		if u.Info()&types.IsString != 0 {
			// for i, ch := range s: byte offset and rune of every UTF-8 sequence
			return c.rangeRec(x, nil, nil, k)
		}
		trFail(x.Pos(), "range over %s is outside the subset", tx)
	default:
		trFail(x.Pos(), "range over %s is outside the subset", tx)
	}
	if x.Tok == token.ASSIGN {
		trFail(x.Pos(), "range with = (assignment to existing variables) is outside the subset")
	}
	if trHasReturn(x.Body) || trHasBreak(x.Body) {
		return c.rangeRec(x, elemTy, nil, k)
	}
	xs := c.expr(x.X)
	pre := c.takePre()
	state := c.notLoopVars(x, c.assignedIn(x.Body)) // (trans_units_beancount.go)
	tuple, ttyp := c.tupleOf(state)
	keyName, valName := "", ""
	if id, ok := x.Key.(*ast.Ident); ok && id.Name != "_" {
		keyName = c.local(c.info().Defs[id])
	}
	if x.Value != nil {
		if id, ok := x.Value.(*ast.Ident); ok && id.Name != "_" {
			valName = c.local(c.info().Defs[id])
		}
	}
	et := c.leanType(elemTy, x.Pos())
	st := c.fresh("st")
	el := c.fresh("el")
	// the lambda: fun (st : σ) (el : τ [× Nat]) => let vars := st.i; let v := el; body; tuple
	mk := func(okWrap bool) trLines {
		savedLoop := c.loop
		cont := func() trLines {
			if okWrap {
				return trOne("Outcome.ok " + tuple)
			}
			return trOne(tuple)
		}
		c.loop = &trLoopCtx{kind: "range", cont: cont, outer: savedLoop}
		c.inLambda++
		defer func() { c.loop = savedLoop; c.inLambda-- }()
		body := c.stmts(x.Body.List, cont)
		elTy := et
		if keyName != "" {
			elTy = "(" + et + " × Nat)"
			body = trLet(keyName, "Int", trOne("("+el+".2 : Int)"), body)
			if valName != "" {
				body = trLet(valName, et, trOne(el+".1"), body)
			}
		} else if valName != "" {
			body = trLet(valName, et, trOne(el), body)
		}
		body = c.unpack(st, state, body)
		lam := trLines{"(fun (" + st + " : " + ttyp + ") (" + el + " : " + elTy + ") =>"}
		lam = append(lam, body.indent(2)...)
		lam[len(lam)-1] += ")"
		return lam
	}
	list := xs
	if keyName != "" {
		list = "(List.zipIdx " + xs + ")"
	}
	res := c.fresh("st")
	if len(state) == 1 {
		res = c.names[state[0]]
	}
	if lam, ok := c.tryPure(func() trLines { return mk(false) }); ok {
		t := trLines{"List.foldl"}
		t = append(t, lam.indent(2)...)
		t = append(t, "  "+tuple+" "+list)
		if len(state) == 0 {
			return trWrapPre(pre, k())
		}
		return trWrapPre(pre, trLet(res, ttyp, t, c.unpack(res, state, k())))
	}
	c.needEffect(x.Pos(), "range loop with effects")
	lam := mk(true)
	t := trLines{"Outcome.bind (foldlE"}
	t = append(t, lam.indent(2)...)
	t = append(t, "  "+tuple+" "+list+") (fun "+res+" =>")
	body := c.unpack(res, state, k())
	t = append(t, body.indent(2)...)
	t[len(t)-1] += ")"
	return trWrapPre(pre, t)
}

func trHasBreak(n ast.Node) bool {
	found := false
	ast.Inspect(n, func(m ast.Node) bool {
		switch x := m.(type) {
		case *ast.BranchStmt:
			if x.Tok == token.BREAK {
				found = true
			}
		case *ast.ForStmt, *ast.RangeStmt, *ast.FuncLit, *ast.SwitchStmt:
			if m != n {
				return false
			}
		}
		return true
	})
	return found
}

// rangeRec: a range loop as a structural recursion over the list of elements — used when the body can leave the loop
// (return, break) and for maps.
//   def F.rangeN (free…) (items : List τ) [(idx : Int)] (state…) : [Outcome] (Flow σ ρ) | σ :=
//     match items with | [] => exit | el :: items => body; F.rangeN … items [(idx+1)] state'
// The iteration order of a Go MAP is unspecified: the translated function gets the order as an explicit extra parameter
// `order<N> : List κ` (the agreement theorem quantifies over it); a key of the order that is not (or no longer: `delete` in the
// body) in the map is skipped, as Go does; the value is read when the key is reached. Setting entries of the ranged map in the
// body is rejected (Go leaves open whether they are visited).
func (c *trCtx) rangeRec(x *ast.RangeStmt, elemTy types.Type, m *types.Map, k trK) trLines {
	if x.Tok == token.ASSIGN {
		trFail(x.Pos(), "range with = (assignment to existing variables) is outside the subset")
	}
	flow := trHasReturn(x.Body)
	effect := c.fn.effect && !c.pureMode()
	if c.pureMode() && c.fn.effect {
		// inside a pure join of an effectful function: the loop may need the monad; let the caller retry monadically
		panic(trPureFail{})
	}
	xs := c.expr(x.X)
	pre := c.takePre()
	state := c.notLoopVars(x, c.assignedIn(x.Body)) // (trans_units_beancount.go)
	if m != nil {
		// the ranged map must be a variable or field path; entries may only be deleted
		ast.Inspect(x.Body, func(n ast.Node) bool {
			if as, ok := n.(*ast.AssignStmt); ok {
				for _, l := range as.Lhs {
					if ix, ok := trUnparen(l).(*ast.IndexExpr); ok && trSrc(ix.X) == trSrc(x.X) {
						trFail(as.Pos(), "setting an entry of the map that is being ranged over is outside the subset")
					}
				}
			}
			return true
		})
	}
	// the loop's own variables are not free in it (they are already named when the loop is translated a second time: a
	// statement after an `if` with a return is continued inside both branches)
	except := append([]types.Object{}, state...)
	for _, kv := range []ast.Expr{x.Key, x.Value} {
		if id, ok := kv.(*ast.Ident); ok {
			if o := c.info().Defs[id]; o != nil {
				except = append(except, o)
			}
		}
	}
	free := c.freeVars(except, x.X, x.Body)
	c.nloop++
	name := c.fn.leanName + ".range" + itoa(c.nloop)
	tuple, ttyp := c.tupleOf(state)
	keyName, valName := "", ""
	if id, ok := x.Key.(*ast.Ident); ok && id.Name != "_" {
		keyName = c.local(c.info().Defs[id])
	}
	if x.Value != nil {
		if id, ok := x.Value.(*ast.Ident); ok && id.Name != "_" {
			valName = c.local(c.info().Defs[id])
		}
	}
	strMode := elemTy == nil && m == nil
	var et string
	if strMode {
		et = "(Int × Char)"
		xs = "(Strings.runes " + xs + ")"
	} else {
		et = c.leanType(elemTy, x.Pos())
	}
	resTy := ttyp
	exit := tuple
	if flow {
		resTy = "(Flow " + ttyp + " " + c.fn.resType + ")"
		exit = "(Flow.next " + tuple + ")"
	}
	if effect {
		exit = "Outcome.ok " + exit
		resTy = "Outcome " + resTy
	}
	var params, callArgs []string
	for _, o := range free {
		params = append(params, "("+c.names[o]+" : "+c.varType(o, o.Pos())+")")
		callArgs = append(callArgs, c.names[o])
	}
	var sparams, sargs []string
	for _, o := range state {
		sparams = append(sparams, "("+c.names[o]+" : "+c.varType(o, o.Pos())+")")
		sargs = append(sargs, c.names[o])
	}
	items := c.fresh("items")
	el := c.fresh("el")
	idx := ""
	if m == nil && keyName != "" && !strMode {
		idx = c.fresh("idx")
	}
	ph, x0, a0 := c.extrasMark()
	recArgs := func(first bool) string {
		parts := append([]string{}, callArgs...)
		parts = append(parts, items)
		if idx != "" {
			if first {
				parts = append(parts, "(0 : Int)")
			} else {
				parts = append(parts, "("+idx+" + 1)")
			}
		}
		parts = append(parts, sargs...)
		return name + ph + " " + strings.Join(parts, " ")
	}
	savedLoop, savedPre := c.loop, c.takePre()
	lc := &trLoopCtx{kind: "rangerec", flow: flow, outer: savedLoop, wrapOk: effect}
	lc.cont = func() trLines { return trOne(recArgs(false)) }
	lc.brk = func() trLines { return trOne(exit) }
	c.loop = lc
	body := c.stmts(x.Body.List, lc.cont)
	c.loop = savedLoop
	c.pre = savedPre
	if m != nil {
		// map: el is the key; skip keys that are not present now
		mapNow := xs
		if valName != "" {
			body = trLet(valName, c.leanType(m.Elem(), x.Pos()), trOne("(AMap.get "+mapNow+" "+el+" (GoZero.zero : "+c.leanType(m.Elem(), x.Pos())+"))"), body)
		}
		if keyName != "" {
			body = trLet(keyName, et, trOne(el), body)
		}
		body = trIte("(!Option.isSome (AMap.find? "+mapNow+" "+el+"))", trOne(recArgs(false)), body)
	} else if strMode {
		if valName != "" {
			body = trLet(valName, "Char", trOne(el+".2"), body)
		}
		if keyName != "" {
			body = trLet(keyName, "Int", trOne(el+".1"), body)
		}
	} else {
		if valName != "" {
			body = trLet(valName, et, trOne(el), body)
		}
		if keyName != "" {
			body = trLet(keyName, "Int", trOne(idx), body)
		}
	}
	def := trLines{"match " + items + " with", "| [] => " + exit, "| " + el + " :: " + items + " =>"}
	def = append(def, body.indent(2)...)
	ps := append([]string{}, params...)
	ps = append(ps, "("+items+" : List "+et+")")
	if idx != "" {
		ps = append(ps, "("+idx+" : Int)")
	}
	ps = append(ps, sparams...)
	exDecls, exNames := c.extrasSince(ph, x0, a0, def)
	head := "def " + name + exDecls + " " + strings.Join(ps, " ") + " : " + resTy + " :="
	c.aux = append(c.aux, "/-- range loop of `"+c.fn.leanName+"` at "+c.t.l.relPos(x.Pos())+"; state: "+strings.Join(sargs, ", ")+" -/\n"+head+"\n"+def.indent(2).String()+"\n")

	// ---- the call
	list := xs
	if m != nil {
		c.norder++
		ord := "order" + itoa(c.norder)
		c.extraParams = append(c.extraParams, "("+ord+" : List "+et+")")
		c.extraTypes = append(c.extraTypes, "List "+c.qualType(elemTy, x.Pos())) // callers in other units pass it on: fully qualified
		list = ord
	}
	callParts := append([]string{}, callArgs...)
	callParts = append(callParts, list)
	if idx != "" {
		callParts = append(callParts, "(0 : Int)")
	}
	callParts = append(callParts, sargs...)
	call := name + exNames + " " + strings.Join(callParts, " ")
	st := c.fresh("st")
	if !flow && len(state) == 1 {
		st = c.names[state[0]]
	}
	var after trLines
	if flow {
		r := c.fresh("r")
		next := c.unpack(st, state, k())
		after = trLines{"match " + r + " with", "| Flow.ret v => " + c.retRaw("v", x.Pos())[0], "| Flow.next " + st + " =>"}
		after = append(after, next.indent(2)...)
		if effect {
			return trWrapPre(pre, trBind(r, call, after))
		}
		return trWrapPre(pre, trLet(r, "", trOne(call), after))
	}
	after = c.unpack(st, state, k())
	if effect {
		return trWrapPre(pre, trBind(st, call, after))
	}
	if len(state) == 0 {
		return trWrapPre(pre, after)
	}
	return trWrapPre(pre, trLet(st, ttyp, trOne(call), after))
}
