import Knut.FactsAgree.TransWeights
import Knut.FactsAgree.TransAmountsSum
/-!
# The translated report tree of `lib/reports/weights` after any log of `Report.Add` calls, and `PropagateWeights` over it

Part 2 of the agreement of `lib/reports/weights` (part 1, the closures: `TransWeights.lean`).

* `Rep L T`: after the log `L` of adds (the model's `Weights.Add`: path, date, weight) every node of the tree is the node of its path
  (`Local`): its segment is the last segment of the path; its map `Weights` is nil iff no add went to exactly this path, and otherwise
  holds per date the sum of the weights added there on that date (`wOn (ownL L π)`); its children are the next segments of the added
  paths below it, each once.  `Add_fold_agrees`: this holds after ANY log of adds from `NewReport`.
* `Propagate_tree_agrees`: `PropagateWeights` on such a tree, for EVERY admissible family of iteration orders (each node's children each
  once, each node's dates reaching the dates of its children once): every node's map afterwards is, per date, the model's `nodeWeight`
  (the sum of the adds at or below the node on that date; no entry when there is none), the shape of the tree is unchanged; the fuel
  `MNode.height` suffices, nothing panics.
-/
namespace Knut.FactsAgree.TransWeights
open Knut Knut.GoSem Knut.MapSum
open Knut.Generated.Go
open Knut.FactsAgree.TransAmountsSum (find?_isSome mem_keys_set wf_set WF)

abbrev Node := MNode weights.Value
/-- the log of adds, in the model's terms -/
abbrev Log := List Weights.Add

/-- the adds at exactly the path `π` -/
def ownL (L : Log) (π : List String) : Log := L.filter (fun a => decide (a.path = π))

/-- the weight of a list of adds on a date: no value when no add has the date -/
def wOn (xs : Log) (d : Int) : Option Rat :=
  if (xs.filter (fun a => decide (a.date = d))).isEmpty then none
  else some (((xs.filter (fun a => decide (a.date = d))).map (·.weight)).sum)

theorem wOn_nil (d : Int) : wOn [] d = none := rfl

theorem wOn_append (xs : Log) (a : Weights.Add) (d : Int) :
    wOn (xs ++ [a]) d = if a.date = d then some ((wOn xs d).getD 0 + a.weight) else wOn xs d := by
  unfold wOn
  rw [List.filter_append]
  by_cases h : a.date = d
  · have hf : List.filter (fun a => decide (a.date = d)) [a] = [a] := by simp [h]
    rw [hf]
    cases hx : List.filter (fun a => decide (a.date = d)) xs with
    | nil =>
      simp only [List.nil_append, List.isEmpty_cons, Bool.false_eq_true, if_false, List.map_cons, List.map_nil, h, if_true,
        List.isEmpty_nil, Option.getD_none, Option.some.injEq]
      show a.weight + (0 : Rat) = 0 + a.weight
      grind
    | cons y ys =>
      simp only [List.cons_append, List.isEmpty_cons, Bool.false_eq_true, if_false, List.map_cons, List.map_append, List.map_nil, h,
        if_true, Option.getD_some, Option.some.injEq, sum_cons, sum_append]
      show y.weight + ((List.map (fun x => x.weight) ys).sum + (a.weight + (0 : Rat))) = y.weight + (List.map (fun x => x.weight) ys).sum + a.weight
      grind
  · have hf : List.filter (fun a => decide (a.date = d)) [a] = [] := by simp [h]
    rw [hf, List.append_nil]
    simp only [h, if_false]

/-! ### the model's `childSegs` when an add is appended -/

theorem mem_dedup (x : String) : ∀ l : List String, x ∈ Weights.dedup l ↔ x ∈ l := by
  intro l
  induction l with
  | nil => simp [Weights.dedup]
  | cons y ys ih =>
    simp only [Weights.dedup, List.mem_cons, List.mem_filter, ih, ne_eq, decide_not, Bool.not_eq_eq_eq_not, Bool.not_true,
      decide_eq_false_iff_not]
    by_cases h : x = y
    · simp [h]
    · simp [h]

theorem dedup_snoc (t : String) : ∀ xs : List String,
    Weights.dedup (xs ++ [t]) = if t ∈ xs then Weights.dedup xs else Weights.dedup xs ++ [t] := by
  intro xs
  induction xs with
  | nil => simp [Weights.dedup]
  | cons x xs ih =>
    simp only [List.cons_append, Weights.dedup, ih, List.mem_cons]
    by_cases htx : t = x
    · subst htx
      by_cases hm : t ∈ xs
      · simp [hm]
      · simp [hm, List.filter_append]
    · by_cases hm : t ∈ xs
      · simp [hm, htx]
      · simp [hm, htx, List.filter_append]

theorem childSegs_append (L : Log) (a : Weights.Add) (π : List String) :
    Weights.childSegs (L ++ [a]) π =
      if π.isPrefixOf a.path then
        match (a.path.drop π.length).head? with
        | some t => if t ∈ Weights.childSegs L π then Weights.childSegs L π else Weights.childSegs L π ++ [t]
        | none => Weights.childSegs L π
      else Weights.childSegs L π := by
  unfold Weights.childSegs Weights.below
  rw [List.filter_append]
  by_cases hp : π.isPrefixOf a.path = true
  · simp only [hp, List.filter_cons_of_pos, List.filter_nil, if_true, List.filterMap_append, List.filterMap_cons, List.filterMap_nil,
      Weights.nextSeg]
    cases hh : (List.drop π.length a.path).head? with
    | none => simp
    | some t => simp only [dedup_snoc, mem_dedup]
  · simp [hp]

/-- **the node of the path `π`** in the tree of the adds `L` -/
structure Local (L : Log) (π : List String) (n : Node) : Prop where
  segment : n.Segment = π.getLast?.getD ""
  wnone : n.Value.Weights = none ↔ ownL L π = []
  weights : ∀ W, n.Value.Weights = some W → NodupKeys W ∧ ∀ d, AMap.find? W d = wOn (ownL L π) d
  nodup : (AMap.keys n.Children).Nodup
  children : ∀ s, s ∈ AMap.keys n.Children ↔ ∃ a ∈ L, (π ++ [s]).isPrefixOf a.path = true
  keysEq : AMap.keys n.Children = Weights.childSegs L π

/-- every node of the tree is the node of its path -/
def Rep (L : Log) (T : Node) : Prop := ∀ π n, MNode.nodeAt? T π = some n → Local L π n

theorem Rep_new : Rep [] (MNode.new "" : Node) := by
  intro π n h
  cases π with
  | nil =>
    simp only [MNode.nodeAt?_nil, Option.some.injEq] at h; subst h
    exact ⟨rfl, (by simp [MNode.new, ownL]; rfl), (fun W hW => by simp [MNode.new] at hW), List.nodup_nil,
      fun s => by simp [MNode.new, AMap.keys], rfl⟩
  | cons s rest => simp [MNode.nodeAt?_cons, MNode.new, AMap.find?] at h

theorem ownL_append (L : Log) (a : Weights.Add) (π : List String) :
    ownL (L ++ [a]) π = if a.path = π then ownL L π ++ [a] else ownL L π := by
  unfold ownL
  rw [List.filter_append]
  by_cases h : a.path = π <;> simp [h]

theorem isPrefixOf_self (p : List String) : p.isPrefixOf p = true := by
  rw [List.isPrefixOf_iff_prefix]; exact List.prefix_refl p

theorem isPrefixOf_snoc_of (p : List String) (s : String) (q : List String) (h : (p ++ [s]).isPrefixOf q = true) :
    p.isPrefixOf q = true := by
  rw [List.isPrefixOf_iff_prefix] at h ⊢
  exact (List.prefix_append p [s]).trans h

/-- the node of a path nobody added at or below: fresh -/
theorem Local_fresh (L : Log) (π : List String) (hp : ∀ a ∈ L, π.isPrefixOf a.path = false) :
    Local L π (MNode.new (π.getLast?.getD "")) := by
  have hown : ownL L π = [] := by
    apply List.filter_eq_nil_iff.2
    intro a ha
    have := hp a ha
    simp only [decide_eq_true_eq]
    intro heq
    rw [heq, isPrefixOf_self] at this
    exact Bool.noConfusion this
  have hbelow : Weights.below L π = [] := by
    apply List.filter_eq_nil_iff.2
    intro a ha
    simp [hp a ha]
  refine ⟨rfl, (by simp [MNode.new, hown]; rfl), (fun W hW => by simp [MNode.new] at hW), List.nodup_nil, fun s => ?_,
    by simp [MNode.new, AMap.keys, Weights.childSegs, hbelow, Weights.dedup]⟩
  simp only [MNode.new, AMap.keys, List.map_nil, List.not_mem_nil, false_iff, not_exists, not_and]
  intro a ha h
  have h1 := hp a ha
  have : π.isPrefixOf a.path = true := isPrefixOf_snoc_of π s _ h
  simp [this] at h1

/-- the node of every prefix of an added path exists -/
theorem exists_of_prefix {L : Log} {T : Node} (h : Rep L T) (a : Weights.Add) (ha : a ∈ L) (q : List String)
    (hq : q.isPrefixOf a.path = true) : (MNode.nodeAt? T q).isSome = true := by
  rw [List.isPrefixOf_iff_prefix] at hq
  obtain ⟨t, ht⟩ := hq
  have key : ∀ n, n ≤ q.length → (MNode.nodeAt? T (q.take n)).isSome = true := by
    intro n
    induction n with
    | zero => intro _; rfl
    | succ n ih =>
      intro hn
      have hlt : n < q.length := hn
      have := ih (Nat.le_of_lt hlt)
      cases hm : MNode.nodeAt? T (q.take n) with
      | none => simp [hm] at this
      | some m =>
        have hl := h _ m hm
        have htake : q.take (n + 1) = q.take n ++ [q[n]] := by
          rw [List.take_add_one]; simp [List.getElem?_eq_getElem hlt]
        have hs : q[n] ∈ AMap.keys m.Children := by
          apply (hl.children _).2
          refine ⟨a, ha, ?_⟩
          rw [List.isPrefixOf_iff_prefix, ← htake, ← ht]
          exact (List.take_prefix _ q).trans (List.prefix_append q t)
        rw [htake, MNode.nodeAt?_append, hm]
        simp only [Option.bind_some, MNode.nodeAt?_cons]
        have : (AMap.find? m.Children q[n]).isSome := by rw [find?_isSome]; simpa using hs
        cases hc : AMap.find? m.Children q[n] with
        | none => simp [hc] at this
        | some c => simp
  simpa using key q.length (Nat.le_refl _)

theorem bumpW_children (date : Int) (w : Rat) (n : Node) : (bumpW date w n).Children = n.Children := rfl

/-- **one more add keeps the representation** -/
theorem Rep_add {L : Log} {T : Node} (h : Rep L T) (a : Weights.Add) :
    Rep (L ++ [a]) (MNode.modifyAt (bumpW a.date a.weight) a.path T) := by
  intro q n hq
  rw [MNode.nodeAt?_modifyAt _ (bumpW_children a.date a.weight)] at hq
  generalize hsegs : a.path = segs at hq
  by_cases hpre : q.isPrefixOf segs = true
  · simp only [hpre, if_true, Option.some.injEq] at hq
    have hold : Local L q ((MNode.nodeAt? T q).getD (MNode.new (q.getLast?.getD ""))) := by
      cases hT : MNode.nodeAt? T q with
      | some m => exact h q m hT
      | none =>
        apply Local_fresh
        intro e he
        cases hpe : q.isPrefixOf e.path with
        | false => rfl
        | true =>
          exfalso
          have := (exists_of_prefix h e he q hpe)
          simp [hT] at this
    generalize (MNode.nodeAt? T q).getD (MNode.new (q.getLast?.getD "")) = m at hq hold
    obtain ⟨r, hr⟩ : ∃ r, segs = q ++ r := by
      rw [List.isPrefixOf_iff_prefix] at hpre
      obtain ⟨r, hr⟩ := hpre
      exact ⟨r, hr.symm⟩
    have hdrop : segs.drop q.length = r := by rw [hr]; simp
    rw [hdrop] at hq
    subst hq
    cases r with
    | nil =>
      -- the node at the end of the path: bumped
      have hqs : segs = q := by simpa using hr
      have hown : ownL (L ++ [a]) q = ownL L q ++ [a] := by rw [ownL_append]; simp [hsegs, hqs]
      have hkeys : Weights.childSegs (L ++ [a]) q = Weights.childSegs L q := by
        rw [childSegs_append, hsegs, hqs, isPrefixOf_self]; simp
      refine ⟨hold.segment, ?_, ?_, hold.nodup, fun s => ?_, by rw [hkeys]; exact hold.keysEq⟩
      · simp [MNode.modifyAt, bumpW, hown]
      · intro W hW
        simp only [MNode.modifyAt, bumpW, Option.some.injEq] at hW
        subst hW
        cases hw : m.Value.Weights with
        | none =>
          have hon : ownL L q = [] := hold.wnone.1 hw
          refine ⟨nodupKeys_set _ _ _ nodupKeys_nil, fun d => ?_⟩
          rw [hown, wOn_append, hon, wOn_nil]
          simp only [Option.getD_none, AMap.find?_set, AMap.get, AMap.find?_nil]
        | some W0 =>
          obtain ⟨hn0, hl0⟩ := hold.weights W0 hw
          refine ⟨nodupKeys_set _ _ _ hn0, fun d => ?_⟩
          rw [hown, wOn_append]
          simp only [Option.getD_some, AMap.find?_set, AMap.get, hl0]
          by_cases hd : a.date = d
          · subst hd; simp
          · simp [hd]
      · rw [show (MNode.modifyAt (bumpW a.date a.weight) [] m).Children = m.Children from rfl, hold.children s]
        constructor
        · rintro ⟨e, he, hp⟩; exact ⟨e, List.mem_append_left _ he, hp⟩
        · rintro ⟨e, he, hp⟩
          rcases List.mem_append.1 he with he | he
          · exact ⟨e, he, hp⟩
          · simp only [List.mem_singleton] at he; subst he
            simp only [hsegs, hqs] at hp
            rw [List.isPrefixOf_iff_prefix] at hp
            have := hp.length_le
            simp at this
            omega
    | cons t r' =>
      -- a node above the end of the path: it gets (or keeps) the child `t`
      have hne : ¬ segs = q := by rw [hr]; simp
      have hown : ownL (L ++ [a]) q = ownL L q := by rw [ownL_append]; simp [hsegs, hne]
      have hkeys : AMap.keys (MNode.modifyAt (bumpW a.date a.weight) (t :: r') m).Children = Weights.childSegs (L ++ [a]) q := by
        simp only [MNode.modifyAt]
        rw [TransAmountsSum.keys_set, childSegs_append, hsegs, hpre, hr]
        simp only [if_true, List.drop_left, List.head?_cons, hold.keysEq]
      refine ⟨hold.segment, by rw [hown]; exact hold.wnone, by rw [hown]; exact hold.weights, ?_, fun s => ?_, hkeys⟩
      · simp only [MNode.modifyAt]; exact wf_set hold.nodup _ _
      · simp only [MNode.modifyAt]
        rw [mem_keys_set, hold.children s]
        constructor
        · rintro (hs | ⟨e, he, hp⟩)
          · subst hs
            refine ⟨a, by simp, ?_⟩
            simp only [hsegs, hr]
            rw [List.isPrefixOf_iff_prefix]
            exact ⟨r', by simp⟩
          · exact ⟨e, List.mem_append_left _ he, hp⟩
        · rintro ⟨e, he, hp⟩
          rcases List.mem_append.1 he with he | he
          · exact Or.inr ⟨e, he, hp⟩
          · simp only [List.mem_singleton] at he; subst he
            simp only [hsegs, hr] at hp
            rw [List.isPrefixOf_iff_prefix] at hp
            obtain ⟨w, hw⟩ := hp
            have : s :: w = t :: r' := by
              have := List.append_cancel_left (by simpa [List.append_assoc] using hw : q ++ (s :: w) = q ++ (t :: r'))
              exact this
            exact Or.inl (by injection this)
  · -- a node off the path: unchanged, and the add is not under it
    have hpre' : q.isPrefixOf segs = false := Bool.eq_false_iff.mpr hpre
    simp only [hpre', Bool.false_eq_true, if_false] at hq
    have hold := h q n hq
    have hne : ¬ segs = q := by
      intro e; subst e; rw [isPrefixOf_self] at hpre'; exact Bool.noConfusion hpre'
    have hown : ownL (L ++ [a]) q = ownL L q := by rw [ownL_append]; simp [hsegs, hne]
    have hkeys : Weights.childSegs (L ++ [a]) q = Weights.childSegs L q := by
      rw [childSegs_append, hsegs, hpre']; simp
    refine ⟨hold.segment, by rw [hown]; exact hold.wnone, by rw [hown]; exact hold.weights, hold.nodup, fun s => ?_,
      by rw [hkeys]; exact hold.keysEq⟩
    rw [hold.children s]
    constructor
    · rintro ⟨e, he, hp⟩; exact ⟨e, List.mem_append_left _ he, hp⟩
    · rintro ⟨e, he, hp⟩
      rcases List.mem_append.1 he with he | he
      · exact ⟨e, he, hp⟩
      · simp only [List.mem_singleton] at he; subst he
        simp only [hsegs] at hp
        have := isPrefixOf_snoc_of q s _ hp
        simp [this] at hpre'

/-- the report after a log of `Report.Add` calls (`Add` never fails: `Add_agrees`) -/
def addAll (r : weights.Report) : Log → GoSem.Outcome weights.Report
  | [] => .ok r
  | a :: rest => (weights.Report.Add r a.path a.date a.weight).bind fun x => addAll x.1 rest

/-- **after any log of adds** from `NewReport`: no panic, the tree represents the log, the dates are the dates of the adds -/
theorem Add_fold_agrees (L : Log) :
    ∃ r, addAll weights.NewReport L = .ok r ∧ Rep L r.weights ∧ ∀ d, set.Set.Has r.dates d = (L.map (·.date)).contains d := by
  have key : ∀ (rest L0 : Log) (r0 : weights.Report), Rep L0 r0.weights →
      (∀ d, set.Set.Has r0.dates d = (L0.map (·.date)).contains d) →
      ∃ r, addAll r0 rest = .ok r ∧ Rep (L0 ++ rest) r.weights ∧ ∀ d, set.Set.Has r.dates d = ((L0 ++ rest).map (·.date)).contains d := by
    intro rest
    induction rest with
    | nil => intro L0 r0 h1 h2; exact ⟨r0, rfl, by simpa using h1, by simpa using h2⟩
    | cons a rest ih =>
      intro L0 r0 h1 h2
      simp only [addAll, Add_agrees, bind_okW]
      have := ih (L0 ++ [a]) { dates := set.Set.Add r0.dates a.date, weights := MNode.modifyAt (bumpW a.date a.weight) a.path r0.weights }
        (Rep_add h1 a)
        (by
          intro d
          simp only [set.Set.Has, set.Set.Add, AMap.find?_set, List.map_append, List.map_cons, List.map_nil, List.contains_append,
            List.contains_cons, List.contains_nil, Bool.or_false]
          have := h2 d
          simp only [set.Set.Has] at this
          by_cases hd : a.date = d
          · subst hd; simp
          · have hd' : ¬ d = a.date := fun e => hd e.symm
            simp [hd, hd', this])
      simpa [List.append_assoc] using this
  have := key L [] weights.NewReport (by simpa [NewReport_agrees] using Rep_new) (by intro d; simp [NewReport_agrees, set.Set.Has])
  simpa using this

/-! ## the adds at or below a path are its own and those below its children -/

/-- the adds at or below `π` (the model's `Weights.below`) -/
def below (L : Log) (π : List String) : Log := L.filter (fun a => π.isPrefixOf a.path)

/-- `Σ f` over a list of adds -/
def lsum (f : Weights.Add → Rat) (xs : Log) : Rat := (xs.map f).sum

theorem lsum_cons (f : Weights.Add → Rat) (a : Weights.Add) (xs : Log) : lsum f (a :: xs) = f a + lsum f xs := rfl

theorem sum_map_add {α : Type} (l : List α) (a b : α → Rat) :
    (l.map (fun s => a s + b s)).sum = (l.map a).sum + (l.map b).sum := by
  induction l with
  | nil => simp [Rat.add_zero]
  | cons x rest ih => simp only [List.map_cons, sum_cons, ih]; grind

theorem sum_map_indicator (ks : List String) (hn : ks.Nodup) (s0 : String) (v : Rat) :
    (ks.map (fun s => if s = s0 then v else 0)).sum = if s0 ∈ ks then v else 0 := by
  induction ks with
  | nil => rfl
  | cons a rest ih =>
    have hn' := List.nodup_cons.1 hn
    simp only [List.map_cons, sum_cons, ih hn'.2, List.mem_cons]
    by_cases ha : a = s0
    · subst ha; simp [hn'.1, Rat.add_zero]
    · have : ¬ s0 = a := fun e => ha e.symm
      simp [ha, this, Rat.zero_add]

theorem not_prefix_snoc_self (p : List String) (s : String) : (p ++ [s]).isPrefixOf p = false := by
  apply Bool.eq_false_iff.mpr
  intro h
  rw [List.isPrefixOf_iff_prefix] at h
  have := h.length_le
  simp at this
  omega

/-- how one add is placed relative to the path `π` and its children `ks` -/
theorem placement (a : Weights.Add) (π : List String) (ks : List String)
    (hks : ∀ s, (π ++ [s]).isPrefixOf a.path = true → s ∈ ks) :
    (π.isPrefixOf a.path = false ∧ a.path ≠ π ∧ ∀ s, (π ++ [s]).isPrefixOf a.path = false) ∨
    (π.isPrefixOf a.path = true ∧ a.path = π ∧ ∀ s, (π ++ [s]).isPrefixOf a.path = false) ∨
    (π.isPrefixOf a.path = true ∧ a.path ≠ π ∧ ∃ s0 ∈ ks, ∀ s, (π ++ [s]).isPrefixOf a.path = decide (s = s0)) := by
  by_cases hp : π.isPrefixOf a.path = true
  · by_cases heq : a.path = π
    · exact Or.inr (Or.inl ⟨hp, heq, fun s => by rw [heq]; exact not_prefix_snoc_self π s⟩)
    · obtain ⟨t, ht⟩ := List.isPrefixOf_iff_prefix.1 hp
      cases t with
      | nil => exact absurd (by simpa using ht.symm) heq
      | cons s0 t' =>
        have hs0 : (π ++ [s0]).isPrefixOf a.path = true := by
          rw [List.isPrefixOf_iff_prefix]; exact ⟨t', by simpa [List.append_assoc] using ht⟩
        refine Or.inr (Or.inr ⟨hp, heq, s0, hks s0 hs0, fun s => ?_⟩)
        by_cases hs : s = s0
        · subst hs; simp [hs0]
        · simp only [hs, decide_false]
          apply Bool.eq_false_iff.mpr
          intro h
          obtain ⟨w, hw⟩ := List.isPrefixOf_iff_prefix.1 h
          have : π ++ (s :: w) = π ++ (s0 :: t') := by simpa [List.append_assoc] using hw.trans ht.symm
          have := List.append_cancel_left this
          injection this with h1 _
          exact hs h1
  · have hp' : π.isPrefixOf a.path = false := Bool.eq_false_iff.mpr hp
    refine Or.inl ⟨hp', ?_, fun s => ?_⟩
    · intro h; rw [h, isPrefixOf_self] at hp'; exact Bool.noConfusion hp'
    · apply Bool.eq_false_iff.mpr
      intro h
      rw [isPrefixOf_snoc_of π s _ h] at hp'
      exact Bool.noConfusion hp'

theorem below_cons (a : Weights.Add) (L : Log) (q : List String) :
    below (a :: L) q = if q.isPrefixOf a.path then a :: below L q else below L q := by
  unfold below; rw [List.filter_cons]

theorem ownL_cons (a : Weights.Add) (L : Log) (π : List String) :
    ownL (a :: L) π = if a.path = π then a :: ownL L π else ownL L π := by
  unfold ownL; rw [List.filter_cons]; simp

/-- **sums split**: `ks` any duplicate-free list that contains the next segment of every added path below `π` -/
theorem lsum_below_split (f : Weights.Add → Rat) (L : Log) (π : List String) (ks : List String) (hn : ks.Nodup)
    (hks : ∀ a ∈ L, ∀ s, (π ++ [s]).isPrefixOf a.path = true → s ∈ ks) :
    lsum f (below L π) = lsum f (ownL L π) + (ks.map (fun s => lsum f (below L (π ++ [s])))).sum := by
  induction L with
  | nil => simp [below, ownL, lsum, sum_map_zero, Rat.add_zero]
  | cons a rest ih =>
    have ih' := ih (fun x hx => hks x (List.mem_cons_of_mem _ hx))
    rcases placement a π ks (hks a List.mem_cons_self) with ⟨h1, h2, h3⟩ | ⟨h1, h2, h3⟩ | ⟨h1, h2, s0, hs0, h3⟩
    · have hmap : (ks.map (fun s => lsum f (below (a :: rest) (π ++ [s])))) = ks.map (fun s => lsum f (below rest (π ++ [s]))) := by
        apply List.map_congr_left; intro s _; rw [below_cons, h3 s]; rfl
      rw [below_cons, h1, ownL_cons, if_neg h2, hmap]; exact ih'
    · have hmap : (ks.map (fun s => lsum f (below (a :: rest) (π ++ [s])))) = ks.map (fun s => lsum f (below rest (π ++ [s]))) := by
        apply List.map_congr_left; intro s _; rw [below_cons, h3 s]; rfl
      rw [below_cons, h1, ownL_cons, if_pos h2, hmap]
      simp only [if_true, lsum_cons, ih']; grind
    · have hmap : (ks.map (fun s => lsum f (below (a :: rest) (π ++ [s])))) =
          ks.map (fun s => (if s = s0 then f a else 0) + lsum f (below rest (π ++ [s]))) := by
        apply List.map_congr_left
        intro s _
        rw [below_cons, h3 s]
        by_cases hs : s = s0
        · simp [hs, lsum_cons]
        · simp [hs, Rat.zero_add]
      rw [below_cons, h1, ownL_cons, if_neg h2, hmap, sum_map_add, sum_map_indicator ks hn, if_pos hs0]
      simp only [if_true, lsum_cons, ih']; grind

/-- **"some add satisfies `p`" splits** in the same way -/
theorem any_below_split (p : Weights.Add → Bool) (L : Log) (π : List String) (ks : List String)
    (hks : ∀ a ∈ L, ∀ s, (π ++ [s]).isPrefixOf a.path = true → s ∈ ks) :
    (below L π).any p = ((ownL L π).any p || ks.any (fun s => (below L (π ++ [s])).any p)) := by
  rw [Bool.eq_iff_iff]
  simp only [List.any_eq_true, Bool.or_eq_true, below, ownL, List.mem_filter, decide_eq_true_eq]
  constructor
  · rintro ⟨a, ⟨ha, hpre⟩, hpa⟩
    rcases placement a π ks (hks a ha) with ⟨h1, _, _⟩ | ⟨_, h2, _⟩ | ⟨_, _, s0, hs0, h3⟩
    · rw [h1] at hpre; exact Bool.noConfusion hpre
    · exact Or.inl ⟨a, ⟨ha, h2⟩, hpa⟩
    · exact Or.inr ⟨s0, hs0, a, ⟨ha, by rw [h3 s0]; simp⟩, hpa⟩
  · rintro (⟨a, ⟨ha, heq⟩, hpa⟩ | ⟨s, _, a, ⟨ha, hpre⟩, hpa⟩)
    · exact ⟨a, ⟨ha, by rw [heq]; exact isPrefixOf_self π⟩, hpa⟩
    · exact ⟨a, ⟨ha, isPrefixOf_snoc_of π s _ hpre⟩, hpa⟩

/-! ## `PropagateWeights` over the tree -/

/-- an add is on the date -/
def onDate (d : Int) (a : Weights.Add) : Bool := decide (a.date = d)
/-- its weight, when it is on the date -/
def wAt (d : Int) (a : Weights.Add) : Rat := if a.date = d then a.weight else 0

theorem sum_filter_onDate (xs : Log) (d : Int) :
    ((xs.filter (fun a => decide (a.date = d))).map (·.weight)).sum = lsum (wAt d) xs := by
  induction xs with
  | nil => rfl
  | cons a xs ih =>
    by_cases h : a.date = d
    · simp only [h, decide_true, List.filter_cons_of_pos, List.map_cons, sum_cons, ih, lsum_cons, wAt, if_true]
    · simp only [h, decide_false, Bool.false_eq_true, not_false_eq_true, List.filter_cons_of_neg, ih, lsum_cons, wAt, if_false]
      exact (Rat.zero_add _).symm

theorem isEmpty_filter_onDate (xs : Log) (d : Int) :
    (xs.filter (fun a => decide (a.date = d))).isEmpty = !xs.any (onDate d) := by
  induction xs with
  | nil => rfl
  | cons a xs ih =>
    by_cases h : a.date = d
    · simp [h, onDate]
    · simp [h, onDate, ih]

theorem wOn_eq (xs : Log) (d : Int) : wOn xs d = if xs.any (onDate d) then some (lsum (wAt d) xs) else none := by
  unfold wOn
  rw [isEmpty_filter_onDate, sum_filter_onDate]
  cases xs.any (onDate d) <;> simp

theorem lsum_zero_of_not_any (xs : Log) (d : Int) (h : xs.any (onDate d) = false) : lsum (wAt d) xs = 0 := by
  induction xs with
  | nil => rfl
  | cons a xs ih =>
    simp only [List.any_cons, Bool.or_eq_false_iff, onDate, decide_eq_false_iff_not] at h
    rw [lsum_cons, ih (by simpa [onDate] using h.2)]
    simp [wAt, h.1, Rat.add_zero]

theorem wOn_getD (xs : Log) (d : Int) : (wOn xs d).getD 0 = lsum (wAt d) xs := by
  rw [wOn_eq]
  cases h : xs.any (onDate d)
  · simp [lsum_zero_of_not_any xs d h]
  · simp

theorem wOn_isSome (xs : Log) (d : Int) : (wOn xs d).isSome = xs.any (onDate d) := by
  rw [wOn_eq]; cases xs.any (onDate d) <;> simp

/-- a lookup is determined by its default-valued form and its presence -/
theorem find?_of_get_isSome (W : AMap Int Rat) (d : Int) (x : Option Rat) (h1 : AMap.get W d 0 = x.getD 0)
    (h2 : (AMap.find? W d).isSome = x.isSome) : AMap.find? W d = x := by
  cases hf : AMap.find? W d with
  | none => cases x with
    | none => rfl
    | some v => simp [hf] at h2
  | some v => cases x with
    | none => simp [hf] at h2
    | some w => simp only [AMap.get, hf, Option.getD_some] at h1; rw [h1]

/-- **the node of the path `π` after `PropagateWeights`**: as before, but its map holds per date the sum of the adds at or below the path
(the model's `nodeWeight`), and is never nil -/
structure LocalP (L : Log) (π : List String) (n : Node) : Prop where
  segment : n.Segment = π.getLast?.getD ""
  weights : ∃ W, n.Value.Weights = some W ∧ NodupKeys W ∧ ∀ d, AMap.find? W d = wOn (below L π) d
  nodup : (AMap.keys n.Children).Nodup
  children : ∀ s, s ∈ AMap.keys n.Children ↔ ∃ a ∈ L, (π ++ [s]).isPrefixOf a.path = true
  keysEq : AMap.keys n.Children = Weights.childSegs L π

/-- the subtree `n` at the path `π`: every node is the node of its path -/
def RepAt (L : Log) (π : List String) (n : Node) : Prop := ∀ q m, MNode.nodeAt? n q = some m → Local L (π ++ q) m
def PropAt (L : Log) (π : List String) (n : Node) : Prop := ∀ q m, MNode.nodeAt? n q = some m → LocalP L (π ++ q) m

theorem RepAt_root {L : Log} {T : Node} : Rep L T ↔ RepAt L [] T := by
  unfold Rep RepAt; simp

theorem RepAt_child {L : Log} {π : List String} {n : Node} (h : RepAt L π n) {s : String} {c : Node}
    (hc : AMap.find? n.Children s = some c) : RepAt L (π ++ [s]) c := by
  intro q m hm
  have : MNode.nodeAt? n (s :: q) = some m := by rw [MNode.nodeAt?_cons, hc]; exact hm
  simpa [List.append_assoc] using h (s :: q) m this

/-- the iteration orders of one traversal of `PropagateWeights`: every node's children exactly once (`o2`); the order of the dates (`o1`)
without repetition and reaching every date of an add at or below the node -/
structure Orders (L : Log) (π : List String) (n : Node) (o1 : List String → List Int) (o2 : List String → List String) : Prop where
  children : ∀ q m, MNode.nodeAt? n q = some m → (o2 (π ++ q)).Perm (AMap.keys m.Children)
  datesNodup : ∀ q, (o1 q).Nodup
  dates : ∀ q, ∀ a ∈ below L q, a.date ∈ o1 q

theorem Orders_child {L : Log} {π : List String} {n : Node} {o1 : List String → List Int} {o2 : List String → List String}
    (h : Orders L π n o1 o2) {s : String} {c : Node} (hc : AMap.find? n.Children s = some c) : Orders L (π ++ [s]) c o1 o2 := by
  refine ⟨fun q m hm => ?_, h.datesNodup, h.dates⟩
  have : MNode.nodeAt? n (s :: q) = some m := by rw [MNode.nodeAt?_cons, hc]; exact hm
  simpa [List.append_assoc] using h.children (s :: q) m this

theorem any_perm {α : Type} {l1 l2 : List α} (h : l1.Perm l2) (p : α → Bool) : l1.any p = l2.any p := by
  rw [Bool.eq_iff_iff]
  simp only [List.any_eq_true]
  constructor
  · rintro ⟨x, hx, hp⟩; exact ⟨x, h.mem_iff.1 hx, hp⟩
  · rintro ⟨x, hx, hp⟩; exact ⟨x, h.mem_iff.2 hx, hp⟩

theorem height_pos (n : Node) : 0 < MNode.height n := by
  obtain ⟨seg, v, cs, so⟩ := n
  rw [MNode.height_mk]; omega

theorem mem_below_of_snoc {L : Log} {π : List String} {s : String} {a : Weights.Add} (h : a ∈ below L (π ++ [s])) : a ∈ below L π := by
  simp only [below, List.mem_filter] at h ⊢
  exact ⟨h.1, isPrefixOf_snoc_of π s _ h.2⟩

/-- the children of a node during the traversal: the keys stay; a child already visited is propagated, the others are as they were -/
structure ChildInv (L : Log) (π : List String) (n : Node) (cs : List (String × Node)) (dn : String → Prop) : Prop where
  keys : AMap.keys cs = AMap.keys n.Children
  visited : ∀ s c, AMap.find? cs s = some c → dn s → PropAt L (π ++ [s]) c
  pending : ∀ s c, AMap.find? cs s = some c → ¬ dn s → AMap.find? n.Children s = some c

/-- **the traversal of a subtree**: every node's map becomes the model's `nodeWeight`; the fuel `MNode.height` suffices -/
theorem propagate_postOrderF (L : Log) (o1 : List String → List Int) (o2 : List String → List String) (fuel : Nat) :
    ∀ (π : List String) (n : Node), MNode.height n ≤ fuel → RepAt L π n → Orders L π n o1 o2 →
      ∃ n', MNode.postOrderF (weights.Report.PropagateWeights.post1 o1) o2 fuel π () n = .ok ((), n') ∧ PropAt L π n' := by
  induction fuel with
  | zero =>
    intro π n hh
    have := height_pos n; omega
  | succ fuel ih =>
    intro π n hh hrep hord
    rw [MNode.postOrderF_succ]
    have hloc : Local L π n := by simpa using hrep [] n rfl
    -- the children, in any order without repetition
    have hfold : ∀ (ks : List String), ks.Nodup → ∀ (cs : List (String × Node)) (dn : String → Prop), (∀ s ∈ ks, ¬ dn s) →
        ChildInv L π n cs dn →
        ∃ cs', foldlE (MNode.childStep (weights.Report.PropagateWeights.post1 o1) o2 fuel π) ((), cs) ks = .ok ((), cs') ∧
          ChildInv L π n cs' (fun s => s ∈ ks ∨ dn s) := by
      intro ks
      induction ks with
      | nil =>
        intro _ cs dn _ hinv
        exact ⟨cs, rfl, ⟨hinv.keys, fun s c h1 h2 => hinv.visited s c h1 (by simpa using h2),
          fun s c h1 h2 => hinv.pending s c h1 (by simpa using h2)⟩⟩
      | cons s rest ihk =>
        intro hnd cs dn hdn hinv
        have hnd' : s ∉ rest ∧ rest.Nodup := by simpa using hnd
        simp only [foldlE]
        cases hc : AMap.find? cs s with
        | none =>
          rw [MNode.childStep_none _ _ _ _ _ _ hc]
          simp only [bind_okW]
          obtain ⟨cs', h1, h2⟩ := ihk hnd'.2 cs (fun x => x = s ∨ dn x)
            (by intro x hx; rintro (h | h)
                · exact hnd'.1 (h ▸ hx)
                · exact hdn x (List.mem_cons_of_mem _ hx) h)
            ⟨hinv.keys, fun x c h1 h2 => by
                rcases h2 with h2 | h2
                · subst h2; rw [hc] at h1; cases h1
                · exact hinv.visited x c h1 h2,
              fun x c h1 h2 => hinv.pending x c h1 (fun h => h2 (Or.inr h))⟩
          refine ⟨cs', h1, ⟨h2.keys, fun x c g1 g2 => h2.visited x c g1 ?_, fun x c g1 g2 => h2.pending x c g1 ?_⟩⟩
          · rcases g2 with g2 | g2
            · rcases List.mem_cons.1 g2 with g2 | g2
              · exact Or.inr (Or.inl g2)
              · exact Or.inl g2
            · exact Or.inr (Or.inr g2)
          · intro h
            apply g2
            rcases h with h | h | h
            · exact Or.inl (List.mem_cons_of_mem _ h)
            · exact Or.inl (h ▸ List.mem_cons_self)
            · exact Or.inr h
        | some c =>
          have hsn : ¬ dn s := hdn s List.mem_cons_self
          have hc0 : AMap.find? n.Children s = some c := hinv.pending s c hc hsn
          have hhc : MNode.height c ≤ fuel := Nat.le_of_lt_succ (Nat.lt_of_lt_of_le (MNode.height_child_lt hc0) hh)
          obtain ⟨c', g1, g2⟩ := ih (π ++ [s]) c hhc (RepAt_child hrep hc0) (Orders_child hord hc0)
          rw [MNode.childStep_some _ _ _ _ _ _ c hc]
          simp only [g1, bind_okW]
          have hsk : s ∈ AMap.keys cs := TransAmountsSum.mem_keys_of_find? hc
          obtain ⟨cs', h1, h2⟩ := ihk hnd'.2 (AMap.set cs s c') (fun x => x = s ∨ dn x)
            (by intro x hx; rintro (h | h)
                · exact hnd'.1 (h ▸ hx)
                · exact hdn x (List.mem_cons_of_mem _ hx) h)
            ⟨by rw [TransAmountsSum.keys_set, if_pos hsk]; exact hinv.keys,
              fun x d h1 h2 => by
                rw [AMap.find?_set] at h1
                by_cases hx : s = x
                · subst hx; simp only [if_true, Option.some.injEq] at h1; subst h1; exact g2
                · simp only [hx, if_false] at h1
                  rcases h2 with h2 | h2
                  · exact absurd h2.symm hx
                  · exact hinv.visited x d h1 h2,
              fun x d h1 h2 => by
                rw [AMap.find?_set] at h1
                by_cases hx : s = x
                · exact absurd (Or.inl hx.symm) h2
                · simp only [hx, if_false] at h1
                  exact hinv.pending x d h1 (fun h => h2 (Or.inr h))⟩
          refine ⟨cs', h1, ⟨h2.keys, fun x d k1 k2 => h2.visited x d k1 ?_, fun x d k1 k2 => h2.pending x d k1 ?_⟩⟩
          · rcases k2 with k2 | k2
            · rcases List.mem_cons.1 k2 with k2 | k2
              · exact Or.inr (Or.inl k2)
              · exact Or.inl k2
            · exact Or.inr (Or.inr k2)
          · intro h
            apply k2
            rcases h with h | h | h
            · exact Or.inl (List.mem_cons_of_mem _ h)
            · exact Or.inl (h ▸ List.mem_cons_self)
            · exact Or.inr h
    have hperm : (o2 π).Perm (AMap.keys n.Children) := by simpa using hord.children [] n rfl
    obtain ⟨cs', h1, hinv⟩ := hfold (o2 π) (hperm.nodup_iff.2 hloc.nodup) n.Children (fun _ => False) (fun _ _ h => h)
      ⟨rfl, fun _ _ _ h => h.elim, fun s c h _ => h⟩
    rw [h1]
    simp only [bind_okW]
    -- every child is propagated now
    have hdone : ∀ s c, AMap.find? cs' s = some c → PropAt L (π ++ [s]) c := by
      intro s c hc
      apply hinv.visited s c hc
      left
      have : s ∈ AMap.keys cs' := TransAmountsSum.mem_keys_of_find? hc
      rw [hinv.keys] at this
      exact hperm.mem_iff.2 this
    -- the child's map, per date
    have hchild : ∀ name, name ∈ AMap.keys n.Children → ∀ d,
        AMap.find? (childW { n with Children := cs' } name) d = wOn (below L (π ++ [name])) d := by
      intro name hname d
      have : (AMap.find? cs' name).isSome := by rw [find?_isSome, hinv.keys]; simpa using hname
      obtain ⟨c, hc⟩ := Option.isSome_iff_exists.1 this
      obtain ⟨W, hW, _, hWd⟩ := (by simpa using hdone name c hc [] c rfl : LocalP L (π ++ [name]) c).weights
      simp only [childW, AMap.get, hc, Option.getD_some, hW, hWd]
    have hcov : ∀ name d, (AMap.find? (childW { n with Children := cs' } name) d).isSome → d ∈ o1 π := by
      intro name d hs
      by_cases hname : name ∈ AMap.keys n.Children
      · rw [hchild name hname d, wOn_isSome, List.any_eq_true] at hs
        obtain ⟨a, ha, had⟩ := hs
        have := hord.dates π a (mem_below_of_snoc ha)
        simp only [onDate, decide_eq_true_eq] at had
        exact had ▸ this
      · have : AMap.find? cs' name = none := by
          rw [TransAmountsSum.find?_eq_none, hinv.keys]; exact hname
        simp [childW, AMap.get, this, GoZero.zero, MNode.new] at hs
    obtain ⟨W', hpost, hnd, hget, hsome⟩ := Propagate_post_agrees o1 π { n with Children := cs' } (hord.datesNodup π) hcov
    refine ⟨setW { n with Children := cs' } W', hpost, ?_⟩
    -- the own weights of the node
    have hown : ∀ d, AMap.get (n.Value.Weights.getD []) d 0 = lsum (wAt d) (ownL L π) ∧
        (AMap.find? (n.Value.Weights.getD []) d).isSome = (ownL L π).any (onDate d) := by
      intro d
      cases hw : n.Value.Weights with
      | none => simp [hloc.wnone.1 hw, AMap.get, lsum]
      | some W0 =>
        obtain ⟨_, hl⟩ := hloc.weights W0 hw
        simp only [Option.getD_some, AMap.get, hl, wOn_getD, wOn_isSome, and_self]
    have hownN : NodupKeys (n.Value.Weights.getD []) := by
      cases hw : n.Value.Weights with
      | none => exact nodupKeys_nil
      | some W0 => exact (hloc.weights W0 hw).1
    have hsk : (sortedKeys cs' (cmpOrdered : String → String → Int)).Perm (AMap.keys n.Children) := by
      unfold sortedKeys
      rw [← hinv.keys]
      exact List.mergeSort_perm _ _
    intro q m hm
    cases q with
    | nil =>
      simp only [MNode.nodeAt?_nil, Option.some.injEq] at hm
      subst hm
      simp only [List.append_nil]
      refine ⟨hloc.segment, ⟨W', rfl, hnd hownN, fun d => ?_⟩, by simpa [setW] using (hinv.keys ▸ hloc.nodup), fun s => ?_,
        (show AMap.keys cs' = _ from hinv.keys.trans hloc.keysEq)⟩
      · apply find?_of_get_isSome
        · rw [hget d, (hown d).1, wOn_getD]
          have e1 : List.map (fun name => AMap.get (childW { n with Children := cs' } name) d 0) (sortedKeys cs' cmpOrdered) =
              List.map (fun name => lsum (wAt d) (below L (π ++ [name]))) (sortedKeys cs' cmpOrdered) := by
            apply List.map_congr_left
            intro name hname
            have hk : name ∈ AMap.keys n.Children := hsk.mem_iff.1 hname
            simp only [AMap.get, hchild name hk d]
            exact wOn_getD _ _
          show _ + (List.map (fun name => AMap.get (childW { n with Children := cs' } name) d 0) (sortedKeys cs' cmpOrdered)).sum = _
          rw [e1, sum_perm (hsk.map _),
            lsum_below_split (wAt d) L π (AMap.keys n.Children) hloc.nodup (fun a ha s hs => (hloc.children s).2 ⟨a, ha, hs⟩)]
        · rw [hsome d, (hown d).2, wOn_isSome]
          have e2 : (sortedKeys cs' (cmpOrdered : String → String → Int)).any
                (fun name => (AMap.find? (childW { n with Children := cs' } name) d).isSome) =
              (AMap.keys n.Children).any (fun s => (below L (π ++ [s])).any (onDate d)) := by
            rw [any_perm hsk]
            rw [Bool.eq_iff_iff]
            simp only [List.any_eq_true]
            constructor
            · rintro ⟨name, hname, h⟩
              rw [hchild name hname d, wOn_isSome, List.any_eq_true] at h
              exact ⟨name, hname, h⟩
            · rintro ⟨name, hname, h⟩
              refine ⟨name, hname, ?_⟩
              rw [hchild name hname d, wOn_isSome, List.any_eq_true]
              exact h
          show (_ || (sortedKeys cs' (cmpOrdered : String → String → Int)).any _) = _
          rw [e2, any_below_split (onDate d) L π (AMap.keys n.Children) (fun a ha s hs => (hloc.children s).2 ⟨a, ha, hs⟩)]
      · show s ∈ AMap.keys cs' ↔ _
        rw [hinv.keys]; exact hloc.children s
    | cons s q' =>
      have : MNode.nodeAt? (setW { n with Children := cs' } W') (s :: q') = (AMap.find? cs' s).bind (fun c => MNode.nodeAt? c q') := by
        rw [MNode.nodeAt?_cons]; rfl
      rw [this] at hm
      cases hc : AMap.find? cs' s with
      | none => simp [hc] at hm
      | some c =>
        simp only [hc, Option.bind_some] at hm
        have := hdone s c hc q' m hm
        simpa [List.append_assoc] using this

/-- **`PropagateWeights`** on the report after a log of adds, for EVERY admissible family of iteration orders: no panic, the fuel
suffices, and every node's map is the model's `nodeWeight` (`PropAt`); the dates are untouched -/
theorem Propagate_tree_agrees (L : Log) (r : weights.Report) (hrep : Rep L r.weights) (o1 : List String → List Int)
    (o2 : List String → List String) (hord : Orders L [] r.weights o1 o2) :
    ∃ T, weights.Report.PropagateWeights r o1 o2 = .ok { r with weights := T } ∧ PropAt L [] T := by
  obtain ⟨T, h1, h2⟩ := propagate_postOrderF L o1 o2 (MNode.height r.weights) [] r.weights (Nat.le_refl _) (RepAt_root.1 hrep) hord
  refine ⟨T, ?_, h2⟩
  rw [PropagateWeights_agrees]
  unfold MNode.postOrder
  rw [h1]; rfl

/-! ## against the model (`Model/Weights.lean`): `nodeWeight`, `childSegs` -/

theorem below_eq (L : Log) (π : List String) : below L π = Weights.below L π := rfl

theorem nodeWeight_eq (L : Log) (π : List String) (d : Int) : wOn (below L π) d = Weights.nodeWeight L π d := rfl

theorem mem_childSegs (L : Log) (π : List String) (s : String) :
    s ∈ Weights.childSegs L π ↔ ∃ a ∈ L, (π ++ [s]).isPrefixOf a.path = true := by
  unfold Weights.childSegs
  rw [mem_dedup]
  simp only [List.mem_filterMap, Weights.below, List.mem_filter, Weights.nextSeg]
  constructor
  · rintro ⟨a, ⟨ha, hpre⟩, hs⟩
    refine ⟨a, ha, ?_⟩
    obtain ⟨t, ht⟩ := List.isPrefixOf_iff_prefix.1 hpre
    rw [← ht] at hs
    simp only [List.drop_left] at hs
    cases t with
    | nil => simp at hs
    | cons s0 t' =>
      simp only [List.head?_cons, Option.some.injEq] at hs
      subst hs
      rw [List.isPrefixOf_iff_prefix]
      exact ⟨t', by simpa [List.append_assoc] using ht⟩
  · rintro ⟨a, ha, hpre⟩
    refine ⟨a, ⟨ha, isPrefixOf_snoc_of π s _ hpre⟩, ?_⟩
    obtain ⟨t, ht⟩ := List.isPrefixOf_iff_prefix.1 hpre
    rw [← ht]
    simp [List.append_assoc]

/-- **the report after any log of adds and `PropagateWeights`**, in the model's terms: no panic; every node of the tree is a path prefix
of the adds; on every date its map holds the model's `nodeWeight` (no entry where the model has none); its children are the model's
`childSegs`, in the same order (the order of first occurrence) — for EVERY admissible family of iteration orders -/
theorem PropagateWeights_model (L : Log) (o1 : List String → List Int) (o2 : List String → List String) :
    ∃ r, addAll weights.NewReport L = .ok r ∧
      ((Orders L [] r.weights o1 o2) →
        ∃ T, weights.Report.PropagateWeights r o1 o2 = .ok { r with weights := T } ∧
          ∀ q m, MNode.nodeAt? T q = some m →
            (∃ W, m.Value.Weights = some W ∧ NodupKeys W ∧ ∀ d, AMap.find? W d = Weights.nodeWeight L q d) ∧
            (AMap.keys m.Children).Nodup ∧ AMap.keys m.Children = Weights.childSegs L q) := by
  obtain ⟨r, hr, hrep, _⟩ := Add_fold_agrees L
  refine ⟨r, hr, fun hord => ?_⟩
  obtain ⟨T, hT, hprop⟩ := Propagate_tree_agrees L r hrep o1 o2 hord
  refine ⟨T, hT, fun q m hm => ?_⟩
  have hl : LocalP L q m := by simpa using hprop q m hm
  exact ⟨hl.weights, hl.nodup, hl.keysEq⟩

end Knut.FactsAgree.TransWeights
