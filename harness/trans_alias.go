package main

// Builder layer of lib/journal (builder trans2): pointers INTO a map, type switches, interface sum types.
//
//  * `return dict.GetDefault(m, k, func() *T { return &T{…} })` / `x := dict.GetDefault(…)`: the entry of m at k, created from the
//    constructor literal when absent and stored (`m[k] = v`): m is rebound to `AMap.set m k v` (setting an existing entry to its own
//    value leaves the association list as it is).  A method whose whole body is `return dict.GetDefault(recv.f, param, ctor)` with a
//    pointer as the map's value type (Builder.Day) RETURNS A POINTER INTO THE MAP: the caller's variable `d := j.Day(x)` is an
//    ALIAS of `j.f[x]`; every assignment through it (`d.Prices = append(d.Prices, t)`) is followed by the write-back
//    `j.f[x] = d`.  (Valid while the entry is not deleted or replaced; `delete`/`m[k] = …` on that map in the same function is rejected.)
//  * `type Directive any` with the implementers declared by `var _ Directive = (*T)(nil)`: an inductive type with one constructor per
//    implementer and `other` for every other dynamic type (nil included).
//  * `switch t := d.(type) { case *T: … default: … }` on such an interface: a `match`; the rest of the statement list is continued inside
//    every branch.

import (
	"go/ast"
	"go/token"
	"go/types"
	"sort"
	"strings"
)

const trGetDefault = trKnutPath + "lib/common/dict.GetDefault"

type trAlias struct {
	recvName string // Lean name of the variable that holds the container struct (the receiver of the aliasing method)
	recvObj  types.Object
	field    string // field of the container that is the map
	key      string // Lean name of the key value
	tree     bool     // trans_tree.go: the alias points to the node of the tree `root` at the path `key`
	slice    bool     // trans_units_tablerender.go: the alias points to the element `key` of the slice field `field`
	root     ast.Expr // the expression the tree hangs on (a variable or a field path)
}

// aliasRet: the method returns a pointer into the map `recv.<field>` at key `param <keyParam>`
type trAliasRet struct {
	field    string
	keyParam int
}

func (c *trCtx) isGetDefault(e ast.Expr) *ast.CallExpr {
	call, ok := trUnparen(e).(*ast.CallExpr)
	if !ok {
		return nil
	}
	if fo := c.calledFunc(call); fo != nil && fo.FullName() == trGetDefault && len(call.Args) == 3 {
		return call
	}
	return nil
}

// getDefaultParts: (m, k, the value of the entry after the call)
func (c *trCtx) getDefaultParts(call *ast.CallExpr) (m, k, v string) {
	fo := c.calledFunc(call)
	c.t.checkPinned(fo, call.Pos())
	if trBaseIdent(call.Args[0]) == nil {
		trFail(call.Pos(), "dict.GetDefault on a map that is not a variable or field is outside the subset")
	}
	m, k = c.expr(call.Args[0]), c.expr(call.Args[1])
	var ctor string
	switch x := trUnparen(call.Args[2]).(type) {
	case *ast.FuncLit:
		// func() V { return e }: a pure constructor, evaluated whether or not the entry exists
		if len(x.Type.Params.List) != 0 || len(x.Body.List) != 1 {
			trFail(x.Pos(), "dict.GetDefault: the constructor literal must be `func() V { return e }`")
		}
		ret, ok := x.Body.List[0].(*ast.ReturnStmt)
		if !ok || len(ret.Results) != 1 {
			trFail(x.Pos(), "dict.GetDefault: the constructor literal must be `func() V { return e }`")
		}
		n := len(c.pre)
		ctor = c.expr(ret.Results[0])
		if len(c.pre) != n {
			trFail(x.Pos(), "dict.GetDefault: a constructor that can panic is outside the subset")
		}
	case *ast.Ident:
		ctorF, _ := c.info().Uses[x].(*types.Func)
		tf := c.t.funcs[ctorF]
		if tf == nil || tf.effect || len(tf.mut) > 0 {
			trFail(call.Pos(), "dict.GetDefault: the constructor %s is not a translated pure function", x.Name)
		}
		c.fn.deps = append(c.fn.deps, tf)
		ctor = c.t.qname(c.unit(), tf.unit, tf.leanName)
	default:
		trFail(call.Pos(), "dict.GetDefault with this constructor is outside the subset")
	}
	return m, k, "(getDefault " + m + " " + k + " " + ctor + ")"
}

// getDefaultThen: v := dict.GetDefault(m, k, ctor); m[k] = v; then k2(name of v)
func (c *trCtx) getDefaultThen(call *ast.CallExpr, k2 func(v string) trLines) trLines {
	m, k, val := c.getDefaultParts(call)
	pre := c.takePre()
	v := c.fresh("v")
	ty := c.leanType(c.typeOf(call), call.Pos())
	return trWrapPre(pre, trLet(v, ty, trOne(val), c.store(call.Args[0], "(AMap.set "+m+" "+k+" "+v+")", call.Pos(), func() trLines { return k2(v) })))
}

// aliasRetOf: does the function return a pointer into a map of its receiver? (`return dict.GetDefault(recv.f, param, ctor)`)
func (t *trTranslator) aliasRetOf(f *trFunc) *trAliasRet {
	if f.decl == nil || f.decl.Recv == nil || f.decl.Body == nil || len(f.decl.Body.List) != 1 {
		return nil
	}
	ret, ok := f.decl.Body.List[0].(*ast.ReturnStmt)
	if !ok || len(ret.Results) != 1 {
		return nil
	}
	call, ok := trUnparen(ret.Results[0]).(*ast.CallExpr)
	if !ok || len(call.Args) != 3 {
		return nil
	}
	info := f.pkg.info
	var fo *types.Func
	if sel, ok := call.Fun.(*ast.SelectorExpr); ok {
		fo, _ = info.Uses[sel.Sel].(*types.Func)
	}
	if fo == nil || fo.FullName() != trGetDefault {
		return nil
	}
	sel, ok := trUnparen(call.Args[0]).(*ast.SelectorExpr)
	if !ok {
		return nil
	}
	rid, ok := sel.X.(*ast.Ident)
	sig := f.obj.Type().(*types.Signature)
	if !ok || info.Uses[rid] != sig.Recv() {
		return nil
	}
	mt, ok := info.Types[call.Args[0]].Type.Underlying().(*types.Map)
	if !ok {
		return nil
	}
	if _, isPtr := mt.Elem().Underlying().(*types.Pointer); !isPtr {
		return nil
	}
	kid, ok := trUnparen(call.Args[1]).(*ast.Ident)
	if !ok {
		return nil
	}
	for i := 0; i < sig.Params().Len(); i++ {
		if info.Uses[kid] == sig.Params().At(i) {
			return &trAliasRet{field: sel.Sel.Name, keyParam: i}
		}
	}
	return nil
}

// registerAlias: after `d := recv.M(args)` where M returns a pointer into recv.<field>[args[keyParam]]
func (c *trCtx) registerAlias(call *ast.CallExpr, tf *trFunc, recv ast.Expr, lhs ast.Expr, keyName string) {
	ar := c.t.aliasRetOf(tf)
	if ar == nil {
		return
	}
	rid, ok := trUnparen(recv).(*ast.Ident)
	lid, ok2 := lhs.(*ast.Ident)
	if !ok || !ok2 {
		trFail(call.Pos(), "%s returns a pointer into a map of its receiver: receiver and target must be variables", tf.leanName)
	}
	ro := c.info().Uses[rid]
	lo := c.info().Defs[lid]
	if lo == nil {
		lo = c.info().Uses[lid]
	}
	if c.aliases == nil {
		c.aliases = map[types.Object]*trAlias{}
	}
	c.aliases[lo] = &trAlias{recvName: c.names[ro], recvObj: ro, field: ar.field, key: keyName}
}

// aliasKeyArg: the key argument of a call of an aliasing method, bound to a name before the call
func (c *trCtx) aliasKeyArg(call *ast.CallExpr, tf *trFunc) (idx int, ok bool) {
	ar := c.t.aliasRetOf(tf)
	if ar == nil {
		return 0, false
	}
	return ar.keyParam, true
}

// writeBack: the assignment went through the alias `lhs`-base: store the updated value into the map entry it points to
func (c *trCtx) writeBack(lhs ast.Expr, k trK) trK {
	id := trBaseIdent(lhs)
	if id == nil || c.aliases == nil {
		return k
	}
	if _, bare := trUnparen(lhs).(*ast.Ident); bare {
		return k // rebinding the variable itself ends nothing: it now points elsewhere
	}
	o := c.info().Uses[id]
	al := c.aliases[o]
	if al == nil {
		return k
	}
	if al.slice {
		return c.sliceWriteBack(al, o, k) // (trans_units_tablerender.go)
	}
	if al.tree {
		return func() trLines {
			name, ty, term := c.storeTerm(al.root, "(MNode.setAt "+c.expr(al.root)+" "+al.key+" "+c.names[o]+")", lhs.Pos())
			pre := c.takePre()
			return trWrapPre(pre, trLet(name, ty, trOne(term), k()))
		}
	}
	return func() trLines {
		rn := c.names[al.recvObj]
		rt := c.leanType(al.recvObj.Type(), lhs.Pos())
		f := trMangle(al.field)
		return trLet(rn, rt, trOne("{ "+rn+" with "+f+" := (AMap.set "+rn+"."+f+" "+al.key+" "+c.names[o]+") }"), k())
	}
}

// ---------------------------------------------------------------------------------------------- interface sum types

type trSumAlt struct {
	ctor string
	typ  types.Type // *T
}

// implementers: `var _ I = (*T)(nil)` in the package of the interface type
func (t *trTranslator) implementers(n *types.Named) []trSumAlt {
	if alts, ok := t.closedSumAlts(n); ok {
		return alts // an interface with an unexported method: the types of its package (trans_units_tablerender.go)
	}
	p := t.l.pkgs[n.Obj().Pkg().Path()]
	if p == nil {
		return nil
	}
	var alts []trSumAlt
	for _, f := range p.files {
		for _, d := range f.Decls {
			gd, ok := d.(*ast.GenDecl)
			if !ok || gd.Tok != token.VAR {
				continue
			}
			for _, sp := range gd.Specs {
				vs := sp.(*ast.ValueSpec)
				if len(vs.Names) != 1 || vs.Names[0].Name != "_" || vs.Type == nil || len(vs.Values) != 1 {
					continue
				}
				if tv, ok := p.info.Types[vs.Type]; !ok || !types.Identical(tv.Type, n) {
					continue
				}
				tv, ok := p.info.Types[vs.Values[0]]
				if !ok || tv.Type == nil {
					continue
				}
				ptr, ok := tv.Type.(*types.Pointer)
				if !ok {
					continue
				}
				tn, ok := ptr.Elem().(*types.Named)
				if !ok {
					continue
				}
				alts = append(alts, trSumAlt{trMangle(tn.Obj().Name()), tv.Type})
			}
		}
	}
	sort.Slice(alts, func(i, j int) bool { return alts[i].ctor < alts[j].ctor })
	return alts
}

// needSumType: the declaration of an interface type with declared implementers
func (t *trTranslator) needSumType(u *trUnit, n *types.Named, pos token.Pos) {
	if t.closedSumDecl(u, n, pos) {
		return // closed sum without `other` (trans_units_tablerender.go)
	}
	obj := n.Obj()
	alts := t.implementers(n)
	if len(alts) == 0 {
		trFail(pos, "interface type %s without declared implementers (`var _ %s = (*T)(nil)`) is outside the subset", obj.Name(), obj.Name())
	}
	name := trMangle(obj.Name())
	var b strings.Builder
	var names []string
	seen := map[string]bool{}
	for _, a := range alts {
		if seen[a.ctor] {
			trFail(pos, "interface type %s: two implementers are called %s", obj.Name(), a.ctor)
		}
		seen[a.ctor] = true
		names = append(names, a.typ.String())
	}
	b.WriteString("/-- Go: `type " + obj.Name() + " " + n.Underlying().String() + "` (" + t.l.relPos(obj.Pos()) + ") with the implementers declared by `var _ " + obj.Name() +
		" = (*T)(nil)`; `other` = every other dynamic type, nil included -/\ninductive " + name + " where\n")
	for _, a := range alts {
		b.WriteString("  | " + a.ctor + " (v : " + t.leanType(u, a.typ, pos) + ")\n")
	}
	b.WriteString("  | other\n  deriving DecidableEq, Repr\ninstance : GoZero " + name + " := ⟨" + name + ".other⟩\n")
	t.decls[u] = append(t.decls[u], b.String())
}

// typeSwitch: switch t := x.(type) { case *T: … default: … }
func (c *trCtx) typeSwitch(x *ast.TypeSwitchStmt, k trK) trLines {
	if out, ok := c.createTypeSwitch(x, k); ok {
		return out // on the `any` of the syntax tree (trans_units_create.go)
	}
	if x.Init != nil {
		trFail(x.Pos(), "type switch with an init statement is outside the subset")
	}
	var subj ast.Expr
	bound := false
	switch a := x.Assign.(type) {
	case *ast.AssignStmt:
		subj = a.Rhs[0].(*ast.TypeAssertExpr).X
		bound = true
	case *ast.ExprStmt:
		subj = a.X.(*ast.TypeAssertExpr).X
	}
	st := c.typeOf(subj)
	n, ok := st.(*types.Named)
	if !ok {
		trFail(x.Pos(), "type switch on %s is outside the subset", st)
	}
	if _, isIface := n.Underlying().(*types.Interface); !isIface {
		trFail(x.Pos(), "type switch on %s is outside the subset", st)
	}
	if c.t.isClosedSum(n) {
		return c.typeSwitchClosed(x, n, subj, bound, k) // (trans_units_tablerender.go)
	}
	lt := c.leanType(st, x.Pos())
	alts := c.t.implementers(n)
	sv := c.expr(subj)
	pre := c.takePre()
	out := trLines{"match " + sv + " with"}
	covered := map[string]bool{}
	var deflt *ast.CaseClause
	for _, cl := range x.Body.List {
		cc := cl.(*ast.CaseClause)
		if cc.List == nil {
			deflt = cc
			continue
		}
		if len(cc.List) != 1 {
			trFail(cc.Pos(), "a case with several types is outside the subset")
		}
		ct := c.typeOf(cc.List[0])
		ctor := ""
		for _, a := range alts {
			if types.Identical(a.typ, ct) {
				ctor = a.ctor
			}
		}
		if ctor == "" {
			trFail(cc.Pos(), "case %s: not a declared implementer of %s", ct, n.Obj().Name())
		}
		if covered[ctor] {
			trFail(cc.Pos(), "duplicate case %s", ct)
		}
		covered[ctor] = true
		vn := "_"
		if bound {
			if o := c.info().Implicits[cc]; o != nil {
				vn = c.local(o)
			}
		}
		body := c.stmts(cc.Body, k)
		out = append(out, "| "+lt+"."+ctor+" "+vn+" =>")
		out = append(out, body.indent(2)...)
	}
	rest := func() trLines {
		if deflt == nil {
			return k()
		}
		if bound {
			if o := c.info().Implicits[deflt]; o != nil {
				c.names[o] = sv // in the default clause the variable has the type of the subject
			}
		}
		return c.stmts(deflt.Body, k)
	}
	for _, a := range alts {
		if !covered[a.ctor] {
			out = append(out, "| "+lt+"."+a.ctor+" _ =>")
			out = append(out, rest().indent(2)...)
		}
	}
	out = append(out, "| "+lt+".other =>")
	out = append(out, rest().indent(2)...)
	return trWrapPre(pre, out)
}

// methodNamed: some translated method of the unit has this name (then the type of the same name must be written in full)
func (t *trTranslator) methodNamed(u *trUnit, name string) bool {
	for _, fn := range u.funcs {
		if i := strings.Index(fn, "."); i >= 0 && trMangle(fn[i+1:]) == name {
			return true
		}
	}
	return false
}
