import Knut.FactsAgree.TransTableRender
/-!
# The three width passes of the translated `TextRenderer.Render` agree with the model

`Render` computes the column widths in three loops (translated as `foldlE` over the rows / the indexed widths):

1. `widths[i] = max(widths[i], minLengthCell(c))` for every cell — `Table.widthsPass1`; a row with more cells than the table has
   columns indexes `widths` out of range: Go's run-time panic, the model's `none`;
2. `groups[columns[i]] = max(…, widths[i])` in a Go map — `Table.groupWidth` (per group the largest width; lookups of the map);
3. `if w < groups[i] { widths[i] = groups[i] }` — indexed by the COLUMN NUMBER `i`, not by the column's group, exactly as the
   code has it — `Table.widthsPass2`.

The bodies of the three loops are restated here (`cellStep`, `rowStep`, `groupStep`, `widenStep`); `TransTableRender3.Render_unfold`
shows by `rfl` that they are the loop bodies of the generated `TextRenderer.Render`.  Go widths are `int`s, the model's are naturals:
`natsGo`.
-/
namespace Knut.FactsAgree.TransTableRender
open Knut Knut.GoSem
open Knut.Generated.Go

def natsGo (ws : List Nat) : List Int := ws.map (fun (n : Nat) => (n : Int))

@[simp] theorem natsGo_length (ws : List Nat) : (natsGo ws).length = ws.length := by simp [natsGo]
theorem natsGo_append (a b : List Nat) : natsGo (a ++ b) = natsGo a ++ natsGo b := by simp [natsGo]
theorem natsGo_cons (a : Nat) (b : List Nat) : natsGo (a :: b) = (a : Int) :: natsGo b := rfl

def idxPanic : String := "runtime error: index out of range"

/-! ## first pass -/

/-- the body of the inner loop `for i, c := range row.cells` of the first pass -/
def cellStep (r : table.TextRenderer) (ff : Fmt.FloatFmt) (widths : List Int) (el : table.cell × Nat) : Outcome (List Int) :=
  let c : table.cell := el.1
  let i : Int := (el.2 : Int)
  Outcome.bind (index widths i) (fun t9 =>
    Outcome.bind (table.TextRenderer.minLengthCell r c ff) (fun t10 =>
      Outcome.bind (
        if (decide (t9 < t10)) then
          Outcome.bind (table.TextRenderer.minLengthCell r c ff) (fun t12 =>
            Outcome.bind (setIndex widths i t12) (fun t13 =>
              let widths : (List Int) := t13
              Outcome.ok widths))
        else
          Outcome.ok widths) (fun widths =>
        Outcome.ok widths)))

/-- the body of the outer loop `for _, row := range r.table.rows` of the first pass -/
def rowStep (r : table.TextRenderer) (ff : Fmt.FloatFmt) (widths : List Int) (row : table.Row) : Outcome (List Int) :=
  Outcome.bind (foldlE (cellStep r ff) widths (List.zipIdx row.cells)) (fun widths => Outcome.ok widths)

/-- the new width of a column after a cell (the model's `updWidths` at one position) -/
def upd (R : Table.Renderer) (w : Nat) (c : Table.Cell) : Nat :=
  if (w : Int) < Table.minLengthCell R c then (Table.minLengthCell R c).toNat else w

theorem cellStep_ok (tr : table.TextRenderer) (ff : Fmt.FloatFmt) (pre : List Nat) (w : Nat) (ws : List Nat) (c : Table.Cell) :
    cellStep tr ff (natsGo (pre ++ w :: ws)) (cellGo c, pre.length)
      = Outcome.ok (natsGo (pre ++ upd (rendOf tr) w c :: ws)) := by
  unfold cellStep
  have hlen : ((pre.length : Nat) : Int).toNat < (natsGo (pre ++ w :: ws)).length := by simp
  have hget : (natsGo (pre ++ w :: ws))[((pre.length : Nat) : Int).toNat] = (w : Int) := by
    simp [natsGo]
  simp only [index_ok _ _ (Int.natCast_nonneg _) hlen, hget, minLengthCell_agrees, Outcome.bind,
    setIndex_ok _ _ _ (Int.natCast_nonneg _) hlen]
  unfold upd
  by_cases h : (w : Int) < Table.minLengthCell (rendOf tr) c
  · have h2 : ((Table.minLengthCell (rendOf tr) c).toNat : Int) = Table.minLengthCell (rendOf tr) c := by omega
    simp only [h, decide_true, if_true]
    congr 1
    simp [natsGo, h2]
  · simp only [h, decide_false, Bool.false_eq_true, if_false]

theorem cellStep_panic (tr : table.TextRenderer) (ff : Fmt.FloatFmt) (pre : List Nat) (c : table.cell) :
    cellStep tr ff (natsGo pre) (c, pre.length) = Outcome.panic idxPanic := by
  unfold cellStep index
  have h1 : ¬ (((pre.length : Nat) : Int) < 0) := by omega
  have h2 : (natsGo pre)[((pre.length : Nat) : Int).toNat]? = none := by simp
  simp only [h1, if_false, h2, Outcome.bind, idxPanic]

theorem foldlE_panic {σ α : Type} (f : σ → α → Outcome σ) (m : String) (s : σ) (x : α) (rest : List α)
    (h : f s x = Outcome.panic m) : foldlE f s (x :: rest) = Outcome.panic m := by
  simp [foldlE, h, Outcome.bind]

theorem foldlE_ok {σ α : Type} (f : σ → α → Outcome σ) (s s' : σ) (x : α) (rest : List α)
    (h : f s x = Outcome.ok s') : foldlE f s (x :: rest) = foldlE f s' rest := by
  simp [foldlE, h, Outcome.bind]

/-- the inner loop from position `|pre|` on is the model's `updWidths` on the remaining widths -/
theorem cells_fold (tr : table.TextRenderer) (ff : Fmt.FloatFmt) : ∀ (cs : List Table.Cell) (pre ws : List Nat),
    foldlE (cellStep tr ff) (natsGo (pre ++ ws)) (List.zipIdx (cs.map cellGo) pre.length)
      = match Table.updWidths (rendOf tr) ws cs with
        | some ws' => Outcome.ok (natsGo (pre ++ ws'))
        | none => Outcome.panic idxPanic := by
  intro cs
  induction cs with
  | nil => intro pre ws; simp [foldlE, Table.updWidths]
  | cons c cs ih =>
    intro pre ws
    rw [List.map_cons, List.zipIdx_cons]
    cases ws with
    | nil =>
      rw [List.append_nil, foldlE_panic _ idxPanic _ _ _ (cellStep_panic tr ff pre (cellGo c))]
      simp [Table.updWidths]
    | cons w ws =>
      rw [foldlE_ok _ _ _ _ _ (cellStep_ok tr ff pre w ws c)]
      have e : pre ++ upd (rendOf tr) w c :: ws = (pre ++ [upd (rendOf tr) w c]) ++ ws := by simp
      have hl : pre.length + 1 = (pre ++ [upd (rendOf tr) w c]).length := by simp
      rw [e, hl, ih (pre ++ [upd (rendOf tr) w c]) ws]
      simp only [Table.updWidths]
      cases Table.updWidths (rendOf tr) ws cs with
      | none => rfl
      | some t => simp [upd]

theorem rowStep_agrees (tr : table.TextRenderer) (ff : Fmt.FloatFmt) (ws : List Nat) (R : table.Row) (row : List Table.Cell)
    (hR : RowRel R row) :
    rowStep tr ff (natsGo ws) R
      = match Table.updWidths (rendOf tr) ws row with
        | some ws' => Outcome.ok (natsGo ws')
        | none => Outcome.panic idxPanic := by
  unfold rowStep
  rw [hR]
  have := cells_fold tr ff row [] ws
  simp only [List.nil_append, List.length_nil] at this
  rw [this]
  cases Table.updWidths (rendOf tr) ws row <;> rfl

/-- the first pass over all rows is `widthsPass1` -/
theorem pass1_agrees (tr : table.TextRenderer) (ff : Fmt.FloatFmt) : ∀ (rows : List (List Table.Cell)) (Rs : List table.Row) (ws : List Nat),
    RowsRel Rs rows →
    foldlE (rowStep tr ff) (natsGo ws) Rs
      = match Table.widthsPass1 (rendOf tr) ws rows with
        | some ws' => Outcome.ok (natsGo ws')
        | none => Outcome.panic idxPanic := by
  intro rows
  induction rows with
  | nil =>
    intro Rs ws h
    cases Rs with
    | nil => simp [foldlE, Table.widthsPass1]
    | cons _ _ => exact absurd h (by simp [RowsRel])
  | cons row rows ih =>
    intro Rs ws h
    cases Rs with
    | nil => exact absurd h (by simp [RowsRel])
    | cons R Rs =>
      simp only [Table.widthsPass1]
      have hr := rowStep_agrees tr ff ws R row h.1
      cases hu : Table.updWidths (rendOf tr) ws row with
      | none =>
        rw [hu] at hr
        exact foldlE_panic _ _ _ _ _ hr
      | some ws' =>
        rw [hu] at hr
        rw [foldlE_ok _ _ _ _ _ hr]
        exact ih Rs ws' h.2

/-! ## second pass -/

/-- the body of the loop `for i, w := range widths` that fills the map `groups` -/
def groupStep (cols : List Int) (groups : AMap Int Int) (el : Int × Nat) : Outcome (AMap Int Int) :=
  let w_1 : Int := el.1
  let i_1 : Int := (el.2 : Int)
  Outcome.bind (index cols i_1) (fun t17 =>
    Outcome.bind (
      if (decide ((AMap.get groups t17 (GoZero.zero : Int)) < w_1)) then
        Outcome.bind (index cols i_1) (fun t19 =>
          let groups : (AMap Int Int) := (AMap.set groups t19 w_1)
          Outcome.ok groups)
      else
        Outcome.ok groups) (fun groups =>
      Outcome.ok groups))

/-- the Go map `groups` read at the natural keys is the function `f` -/
def GRel (gm : AMap Int Int) (f : Nat → Nat) : Prop := ∀ g : Nat, AMap.get gm (g : Int) 0 = (f g : Int)

/-- one step of the model's `groupWidth` fold -/
def gstep (g : Nat) (acc : Nat) (cw : Nat × Nat) : Nat := if cw.1 = g ∧ acc < cw.2 then cw.2 else acc

theorem groupStep_ok (cpre : List Nat) (col : Nat) (crest : List Nat) (gm : AMap Int Int) (f : Nat → Nat) (h : GRel gm f) (w : Nat) :
    ∃ gm', groupStep (natsGo (cpre ++ col :: crest)) gm ((w : Int), cpre.length) = Outcome.ok gm' ∧
      GRel gm' (fun g => gstep g (f g) (col, w)) := by
  unfold groupStep
  have hlen : ((cpre.length : Nat) : Int).toNat < (natsGo (cpre ++ col :: crest)).length := by simp
  have hget : (natsGo (cpre ++ col :: crest))[((cpre.length : Nat) : Int).toNat] = (col : Int) := by simp [natsGo]
  simp only [index_ok _ _ (Int.natCast_nonneg _) hlen, hget, Outcome.bind, zero_int]
  simp only [h col]
  by_cases hlt : (f col : Int) < (w : Int)
  · refine ⟨AMap.set gm (col : Int) (w : Int), by simp [hlt], ?_⟩
    intro g
    rw [AMap.get_set]
    unfold gstep
    by_cases e : col = g
    · subst e
      have : f col < w := by omega
      simp [this]
    · have e' : ¬ ((col : Int) = (g : Int)) := by omega
      simp [e, e', h g]
  · refine ⟨gm, by simp [hlt], ?_⟩
    intro g
    unfold gstep
    by_cases e : col = g
    · subst e
      have : ¬ f col < w := by omega
      simp [this, h col]
    · simp [e, h g]

/-- the second pass from position `|cpre|` on: the map read at `g` is the model's fold over the remaining (column, width) pairs -/
theorem groups_fold : ∀ (ws crest cpre : List Nat) (gm : AMap Int Int) (f : Nat → Nat), GRel gm f → ws.length ≤ crest.length →
    ∃ gm', foldlE (groupStep (natsGo (cpre ++ crest))) gm (List.zipIdx (natsGo ws) cpre.length) = Outcome.ok gm' ∧
      GRel gm' (fun g => (crest.zip ws).foldl (gstep g) (f g)) := by
  intro ws
  induction ws with
  | nil => intro crest cpre gm f h _; exact ⟨gm, by simp [foldlE, natsGo], by simpa using h⟩
  | cons w ws ih =>
    intro crest cpre gm f h hl
    cases crest with
    | nil => simp at hl
    | cons col crest =>
      obtain ⟨gm1, h1, hr1⟩ := groupStep_ok cpre col crest gm f h w
      rw [natsGo_cons, List.zipIdx_cons, foldlE_ok _ _ _ _ _ h1]
      have e : cpre ++ col :: crest = (cpre ++ [col]) ++ crest := by simp
      have hl' : cpre.length + 1 = (cpre ++ [col]).length := by simp
      rw [e, hl']
      obtain ⟨gm2, h2, hr2⟩ := ih crest (cpre ++ [col]) gm1 _ hr1 (by simpa using hl)
      exact ⟨gm2, h2, by simpa [List.zip_cons_cons, List.foldl_cons] using hr2⟩

theorem groupWidth_eq (cols ws : List Nat) (g : Nat) :
    Table.groupWidth cols ws g = (cols.zip ws).foldl (gstep g) 0 := rfl

theorem pass2_agrees (cols ws : List Nat) (hl : ws.length ≤ cols.length) :
    ∃ gm, foldlE (groupStep (natsGo cols)) ([] : AMap Int Int) (List.zipIdx (natsGo ws)) = Outcome.ok gm ∧
      GRel gm (Table.groupWidth cols ws) := by
  have h0 : GRel ([] : AMap Int Int) (fun _ => 0) := by intro g; rfl
  obtain ⟨gm, h1, h2⟩ := groups_fold ws cols [] [] _ h0 hl
  exact ⟨gm, by simpa using h1, h2⟩

/-! ## third pass -/

/-- the body of the loop `for i, w := range widths` that widens the columns -/
def widenStep (groups : AMap Int Int) (widths : List Int) (el : Int × Nat) : Outcome (List Int) :=
  let w_2 : Int := el.1
  let i_2 : Int := (el.2 : Int)
  Outcome.bind (
    if (decide (w_2 < (AMap.get groups i_2 (GoZero.zero : Int)))) then
      Outcome.bind (setIndex widths i_2 (AMap.get groups i_2 (GoZero.zero : Int))) (fun t25 =>
        let widths : (List Int) := t25
        Outcome.ok widths)
    else
      Outcome.ok widths) (fun widths =>
    Outcome.ok widths)

def widen (f : Nat → Nat) (wi : Nat × Nat) : Nat := if wi.1 < f wi.2 then f wi.2 else wi.1

theorem widenStep_ok (gm : AMap Int Int) (f : Nat → Nat) (h : GRel gm f) (pre : List Nat) (w : Nat) (rest : List Nat) (v : Nat) :
    widenStep gm (natsGo (pre ++ w :: rest)) ((v : Int), pre.length)
      = Outcome.ok (natsGo (pre ++ (if v < f pre.length then f pre.length else w) :: rest)) := by
  unfold widenStep
  have hlen : ((pre.length : Nat) : Int).toNat < (natsGo (pre ++ w :: rest)).length := by simp
  simp only [zero_int, h pre.length, setIndex_ok _ _ _ (Int.natCast_nonneg _) hlen, Outcome.bind]
  by_cases hlt : v < f pre.length
  · have : (v : Int) < (f pre.length : Int) := by omega
    simp [hlt, this, natsGo]
  · have : ¬ (v : Int) < (f pre.length : Int) := by omega
    simp [hlt, this]

/-- the third pass from position `|pre|` on (the loop ranges over the widths as they were, and writes position `i` only) -/
theorem widen_fold (gm : AMap Int Int) (f : Nat → Nat) (h : GRel gm f) : ∀ (rest pre : List Nat),
    foldlE (widenStep gm) (natsGo (pre ++ rest)) (List.zipIdx (natsGo rest) pre.length)
      = Outcome.ok (natsGo (pre ++ (List.zipIdx rest pre.length).map (widen f))) := by
  intro rest
  induction rest with
  | nil => intro pre; simp [foldlE, natsGo]
  | cons w rest ih =>
    intro pre
    rw [natsGo_cons, List.zipIdx_cons, foldlE_ok _ _ _ _ _ (widenStep_ok gm f h pre w rest w)]
    have e : ∀ x, pre ++ x :: rest = (pre ++ [x]) ++ rest := by intro x; simp
    have hl : ∀ x, pre.length + 1 = (pre ++ [x]).length := by intro x; simp
    rw [e, hl (if w < f pre.length then f pre.length else w), ih]
    congr 2
    simp [List.zipIdx_cons, widen]

theorem pass3_agrees (gm : AMap Int Int) (cols ws : List Nat) (h : GRel gm (Table.groupWidth cols ws)) :
    foldlE (widenStep gm) (natsGo ws) (List.zipIdx (natsGo ws)) = Outcome.ok (natsGo (Table.widthsPass2 cols ws)) := by
  have := widen_fold gm _ h ws []
  simp only [List.nil_append, List.length_nil] at this
  rw [this]
  rfl

end Knut.FactsAgree.TransTableRender
