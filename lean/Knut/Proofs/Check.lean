import Knut.Model.Check
import Knut.Spec.Lifecycle
import Knut.Proofs.Sim
/-! Refinement of the checker model (maps with deletion) to the lifecycle specification (log of postings). -/
namespace Knut
open Knut.Spec

namespace AMap
variable {κ ν : Type} [DecidableEq κ]

def NodupKeys (m : AMap κ ν) : Prop := (m.map (·.1)).Nodup

theorem mem_of_find? {m : AMap κ ν} {k : κ} {v : ν} (h : find? m k = some v) : (k, v) ∈ m := by
  induction m with
  | nil => simp [find?] at h
  | cons p rest ih =>
    obtain ⟨a, b⟩ := p
    simp only [find?] at h
    by_cases hk : a = k
    · simp [hk] at h; subst hk; subst h; exact List.mem_cons_self
    · simp [hk] at h; exact List.mem_cons_of_mem _ (ih h)

theorem find?_of_mem {m : AMap κ ν} (hn : NodupKeys m) {k : κ} {v : ν} (h : (k, v) ∈ m) : find? m k = some v := by
  induction m with
  | nil => simp at h
  | cons p rest ih =>
    obtain ⟨a, b⟩ := p
    unfold NodupKeys at hn
    simp only [List.map_cons, List.nodup_cons] at hn
    rcases List.mem_cons.mp h with heq | hm
    · injection heq with h1 h2; subst h1; subst h2; simp [find?]
    · have : a ≠ k := by
        intro e; subst e
        exact hn.1 (List.mem_map.mpr ⟨(a, v), hm, rfl⟩)
      simp only [find?, this, if_false]
      exact ih hn.2 hm

theorem keys_set (m : AMap κ ν) (k : κ) (v : ν) :
    ∀ x, x ∈ (set m k v).map (·.1) ↔ (x = k ∨ x ∈ m.map (·.1)) := by
  induction m with
  | nil => intro x; simp [set]
  | cons p rest ih =>
    obtain ⟨a, b⟩ := p
    intro x
    simp only [set]
    by_cases h : a = k
    · subst h; simp
    · simp only [h, if_false, List.map_cons, List.mem_cons]
      rw [ih x]
      constructor
      · rintro (h1 | h1 | h1) <;> simp [h1]
      · rintro (h1 | h1 | h1) <;> simp [h1]

theorem nodup_set {m : AMap κ ν} (hn : NodupKeys m) (k : κ) (v : ν) : NodupKeys (set m k v) := by
  induction m with
  | nil => simp [set, NodupKeys]
  | cons p rest ih =>
    obtain ⟨a, b⟩ := p
    unfold NodupKeys at hn ⊢
    simp only [List.map_cons, List.nodup_cons] at hn
    simp only [set]
    by_cases h : a = k
    · subst h; simp only [if_true, List.map_cons, List.nodup_cons]; exact hn
    · simp only [h, if_false, List.map_cons, List.nodup_cons]
      refine ⟨?_, ih hn.2⟩
      intro hmem
      rcases (keys_set rest k v a).mp hmem with h1 | h1
      · exact h h1
      · exact hn.1 h1

theorem nodup_filter {m : AMap κ ν} (hn : NodupKeys m) (f : κ × ν → Bool) : NodupKeys (m.filter f) := by
  unfold NodupKeys at *
  exact List.Nodup.sublist (List.Sublist.map _ List.filter_sublist) hn

theorem find?_filter_key (m : AMap κ ν) (f : κ → Bool) (k : κ) :
    find? (m.filter (fun e => f e.1)) k = if f k then find? m k else none := by
  induction m with
  | nil => simp [find?]
  | cons p rest ih =>
    obtain ⟨a, b⟩ := p
    simp only [List.filter_cons]
    by_cases hf : f a
    · simp only [hf, if_true, find?]
      by_cases hk : a = k
      · subst hk; simp [hf]
      · simp only [hk, if_false]; exact ih
    · simp only [hf, find?]
      by_cases hk : a = k
      · subst hk; simp [hf] at ih ⊢; exact ih
      · simp only [hk, if_false]; exact ih

end AMap

/-- the simulation relation between checker state and specification state -/
structure CheckRel (st : CheckState) (s : LState) : Prop where
  accounts : st.accounts = s.opened
  qty : ∀ a c, st.quantities.get (a, c) 0 = qtyOf s.log a c
  nodup : AMap.NodupKeys st.quantities

def ErrRel (e : CheckErr) (d : Directive) : Prop := e.directive = d

theorem qtyOf_append (log : List Posting) (p : Posting) (a : Account) (c : Commodity) :
    qtyOf (log ++ [p]) a c = qtyOf log a c + (if p.account = a ∧ p.commodity = c then p.quantity else 0) := by
  unfold qtyOf
  simp only [List.filter_append, List.map_append, List.sum_append]
  congr 1
  by_cases h : p.account = a ∧ p.commodity = c
  · simp [h, Rat.add_zero]
  · simp only [h, if_false]
    have : (decide (p.account = a) && decide (p.commodity = c)) = false := by
      simp only [Bool.and_eq_false_imp, decide_eq_true_eq, decide_eq_false_iff_not]
      intro h1 h2; exact h ⟨h1, h2⟩
    simp [this, Rat.add_zero]

theorem sim_open (st : CheckState) (s : LState) (o : Open) (h : CheckRel st s) :
    Sim CheckRel ErrRel (Check.openAcc st o) (stepOpen s o) := by
  unfold Check.openAcc stepOpen
  rw [h.accounts]
  split
  · simp [Sim, ErrRel]
  · simp only [Sim]
    exact ⟨by simp [h.accounts], h.qty, h.nodup⟩

theorem sim_posting (st : CheckState) (s : LState) (t : Transaction) (p : Posting) (h : CheckRel st s) :
    Sim CheckRel ErrRel (Check.posting st t p) (stepPosting s t p) := by
  unfold Check.posting stepPosting
  rw [h.accounts]
  split
  · simp [Sim, ErrRel]
  · split
    · simp only [Sim]
      refine ⟨rfl, ?_, AMap.nodup_set h.nodup _ _⟩
      intro a c
      simp only
      rw [AMap.get_set, qtyOf_append, h.qty p.account p.commodity]
      by_cases hk : (p.account, p.commodity) = (a, c)
      · injection hk with h1 h2; subst h1; subst h2; simp
      · have : ¬ (p.account = a ∧ p.commodity = c) := by
          intro ⟨h1, h2⟩; exact hk (by rw [h1, h2])
        simp only [hk, this, if_false]
        rw [h.qty a c]; exact (Rat.add_zero _).symm
    · simp only [Sim]; exact h

theorem sim_balance (st : CheckState) (s : LState) (a : Assertion) (b : Balance) (h : CheckRel st s)
    (hAL : ∀ e ∈ st.quantities, e.1.1.isAL = true) :
    Sim CheckRel ErrRel (Check.balance st a b) (stepBalance true s a b) := by
  unfold Check.balance stepBalance
  rw [h.accounts]
  split
  · simp [Sim, ErrRel]
  · by_cases hal : b.account.isAL = true
    · simp only [hal, if_true]
      rw [h.qty]
      by_cases hq : qtyOf s.log b.account b.commodity = b.quantity
      · simp [hq, Sim]; exact h
      · simp [hq, Sim, ErrRel]
    · simp only [hal]
      -- non-A/L account: the map has no entry, the recorded quantity is 0
      have hz : st.quantities.get (b.account, b.commodity) 0 = 0 := by
        unfold AMap.get
        cases hf : AMap.find? st.quantities (b.account, b.commodity) with
        | none => rfl
        | some v =>
          have := hAL _ (AMap.mem_of_find? hf)
          exact absurd this hal
      rw [hz]
      by_cases hq : b.quantity = 0
      · simp [hq, Sim]; exact h
      · have : (0 : Rat) ≠ b.quantity := fun e => hq e.symm
        simp [hq, this, Sim, ErrRel]

theorem qtyOf_ne_zero_mem {log : List Posting} {a : Account} {c : Commodity} (h : qtyOf log a c ≠ 0) :
    ∃ p ∈ log, p.account = a ∧ p.commodity = c := by
  unfold qtyOf at h
  cases hl : log.filter (fun p => decide (p.account = a) && decide (p.commodity = c)) with
  | nil => rw [hl] at h; simp at h
  | cons p rest =>
    have hp : p ∈ log.filter (fun p => decide (p.account = a) && decide (p.commodity = c)) := by
      rw [hl]; exact List.mem_cons_self
    simp only [List.mem_filter, Bool.and_eq_true, decide_eq_true_eq] at hp
    exact ⟨p, hp.1, hp.2.1, hp.2.2⟩

theorem allZero_true_iff (log : List Posting) (a : Account) :
    allZero log a = true ↔ ∀ p ∈ log, p.account = a → qtyOf log a p.commodity = 0 := by
  unfold allZero
  simp only [List.all_eq_true, List.mem_filter, decide_eq_true_eq, and_imp]

theorem allZero_iff (st : CheckState) (s : LState) (h : CheckRel st s) (a : Account) :
    allZero s.log a = !(st.quantities.any (fun e => e.1.1 = a && e.2 ≠ 0)) := by
  have key : allZero s.log a = true ↔ ∀ e ∈ st.quantities, e.1.1 = a → e.2 = 0 := by
    rw [allZero_true_iff]
    constructor
    · intro hz e he hea
      have hf := AMap.find?_of_mem h.nodup (k := e.1) (v := e.2) he
      have hg : st.quantities.get (e.1.1, e.1.2) 0 = e.2 := by
        show st.quantities.get e.1 0 = e.2
        unfold AMap.get; rw [hf]; rfl
      have hq := h.qty e.1.1 e.1.2
      rw [hg] at hq
      by_cases hne : e.2 = 0
      · exact hne
      · exfalso
        have hsum : qtyOf s.log e.1.1 e.1.2 ≠ 0 := by rw [← hq]; exact hne
        obtain ⟨p, hp, hpa, hpc⟩ := qtyOf_ne_zero_mem hsum
        have := hz p hp (hpa.trans hea)
        rw [hpc, ← hea] at this
        exact hsum this
    · intro hz p hp hpa
      rw [← h.qty a p.commodity]
      unfold AMap.get
      cases hf : AMap.find? st.quantities (a, p.commodity) with
      | none => rfl
      | some v =>
        have hm := AMap.mem_of_find? hf
        exact hz ((a, p.commodity), v) hm rfl
  cases hb : allZero s.log a with
  | true =>
    have := key.mp hb
    symm
    simp only [Bool.not_eq_true', List.any_eq_false, Bool.and_eq_true, decide_eq_true_eq, bne_iff_ne, ne_eq, not_and, Decidable.not_not]
    intro e he hea
    exact this e he hea
  | false =>
    symm
    simp only [Bool.not_eq_false', List.any_eq_true, Bool.and_eq_true, decide_eq_true_eq, bne_iff_ne, ne_eq]
    apply Classical.byContradiction
    intro hcon
    have : ∀ e ∈ st.quantities, e.1.1 = a → e.2 = 0 := by
      intro e he hea
      apply Classical.byContradiction
      intro hne
      exact hcon ⟨e, he, hea, hne⟩
    have := key.mpr this
    rw [hb] at this; cases this

theorem qtyOf_zero_of_allZero {log : List Posting} {a : Account} (hz : allZero log a = true) (k : Commodity) :
    qtyOf log a k = 0 := by
  rw [allZero_true_iff] at hz
  apply Classical.byContradiction
  intro hne
  obtain ⟨p, hp, hpa, hpc⟩ := qtyOf_ne_zero_mem hne
  have := hz p hp hpa
  rw [hpc] at this
  exact hne this

theorem sim_close (st : CheckState) (s : LState) (c : Close) (h : CheckRel st s) :
    Sim CheckRel ErrRel (Check.close st c) (stepClose s c) := by
  have hiff := allZero_iff st s h c.account
  unfold Check.close stepClose
  cases hany : st.quantities.any (fun e => e.1.1 = c.account && e.2 ≠ 0) with
  | true =>
    rw [hany] at hiff
    simp only [Bool.not_true] at hiff
    simp [hiff, Sim, ErrRel]
  | false =>
    rw [hany] at hiff
    simp only [Bool.not_false] at hiff
    simp only [hiff, Bool.not_true, Bool.false_eq_true, if_false]
    rw [h.accounts]
    split
    · simp [Sim, ErrRel]
    · simp only [Sim]
      refine ⟨rfl, ?_, AMap.nodup_filter h.nodup _⟩
      intro a k
      unfold AMap.get
      have := AMap.find?_filter_key st.quantities (fun key => decide (key.1 ≠ c.account)) (a, k)
      simp only at this
      have hfe : (st.quantities.filter (fun e => decide (e.1.1 ≠ c.account))) =
          (st.quantities.filter (fun e => (fun key : Position => decide (key.1 ≠ c.account)) e.1)) := rfl
      rw [hfe, this]
      by_cases hac : a = c.account
      · rw [hac]
        simp only [ne_eq, not_true_eq_false, decide_false, Bool.false_eq_true, if_false, Option.getD_none]
        exact (qtyOf_zero_of_allZero hiff k).symm
      · simp only [ne_eq, hac, not_false_eq_true, decide_true, if_true]
        exact h.qty a k

/-- only asset/liability positions are ever recorded -/
def OnlyAL (st : CheckState) : Prop := ∀ e ∈ st.quantities, e.1.1.isAL = true

theorem AMap.mem_set {κ ν : Type} [DecidableEq κ] (m : AMap κ ν) (k : κ) (v : ν) (e : κ × ν) (h : e ∈ AMap.set m k v) :
    e = (k, v) ∨ e ∈ m := by
  induction m with
  | nil => simp [AMap.set] at h; exact Or.inl h
  | cons p rest ih =>
    obtain ⟨a, b⟩ := p
    simp only [AMap.set] at h
    by_cases hk : a = k
    · simp only [hk, if_true] at h
      rcases List.mem_cons.mp h with h1 | h1
      · exact Or.inl h1
      · exact Or.inr (List.mem_cons_of_mem _ h1)
    · simp only [hk, if_false] at h
      rcases List.mem_cons.mp h with h1 | h1
      · exact Or.inr (h1 ▸ List.mem_cons_self)
      · rcases ih h1 with h2 | h2
        · exact Or.inl h2
        · exact Or.inr (List.mem_cons_of_mem _ h2)

theorem onlyAL_posting {st st' : CheckState} {t : Transaction} {p : Posting} (h : OnlyAL st)
    (hs : Check.posting st t p = .ok st') : OnlyAL st' := by
  unfold Check.posting at hs
  split at hs
  · cases hs
  · split at hs
    · injection hs with hs; subst hs
      intro e he
      rcases AMap.mem_set _ _ _ _ he with h1 | h1
      · rw [h1]; assumption
      · exact h e h1
    · injection hs with hs; subst hs; exact h

theorem onlyAL_open {st st' : CheckState} {o : Open} (h : OnlyAL st) (hs : Check.openAcc st o = .ok st') : OnlyAL st' := by
  unfold Check.openAcc at hs
  split at hs
  · cases hs
  · injection hs with hs; subst hs; exact h

theorem onlyAL_balance {st st' : CheckState} {a : Assertion} {b : Balance} (h : OnlyAL st)
    (hs : Check.balance st a b = .ok st') : OnlyAL st' := by
  unfold Check.balance at hs
  split at hs
  · cases hs
  · split at hs
    · cases hs
    · injection hs with hs; subst hs; exact h

theorem onlyAL_close {st st' : CheckState} {c : Close} (h : OnlyAL st) (hs : Check.close st c = .ok st') : OnlyAL st' := by
  unfold Check.close at hs
  split at hs
  · cases hs
  · split at hs
    · cases hs
    · injection hs with hs; subst hs
      intro e he
      exact h e (List.mem_filter.mp he).1

end Knut
