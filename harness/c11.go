package main

import (
	"fmt"
	"strings"
	"time"

	"github.com/sboehler/knut/lib/common/date"
)

func init() { runners["C11"] = runC11 }

var epoch = time.Date(1, 1, 1, 0, 0, 0, 0, time.UTC)

// dayNum converts a UTC midnight time to the model's day number (0 = 0001-01-01).
func dayNum(t time.Time) int {
	return int((t.Unix() - epoch.Unix()) / 86400)
}

func dayTime(z int) time.Time { return epoch.AddDate(0, 0, z) }

var intervals = []date.Interval{date.Once, date.Daily, date.Weekly, date.Monthly, date.Quarterly, date.Yearly}

const maxDay = 3652058 // 9999-12-31

func implCal(z int) string {
	t := dayTime(z)
	var b strings.Builder
	fmt.Fprintf(&b, "%d %d %d %d", t.Year(), int(t.Month()), t.Day(), int(t.Weekday()))
	for _, iv := range intervals {
		fmt.Fprintf(&b, " %d", dayNum(date.StartOf(t, iv)))
	}
	for _, iv := range intervals {
		fmt.Fprintf(&b, " %d", dayNum(date.EndOf(t, iv)))
	}
	return b.String()
}

func implPartition(a, b, iv, last int) (res string, periods [][2]int, part *date.Partition) {
	defer func() {
		if r := recover(); r != nil {
			res = "panic"
			periods = nil
			part = nil
		}
	}()
	p := date.NewPartition(date.Period{Start: dayTime(a), End: dayTime(b)}, intervals[iv], last)
	ss, es := p.StartDates(), p.EndDates()
	var sb strings.Builder
	sb.WriteString("ok")
	for i := range ss {
		s, e := dayNum(ss[i]), dayNum(es[i])
		periods = append(periods, [2]int{s, e})
		fmt.Fprintf(&sb, " %d:%d", s, e)
	}
	return sb.String(), periods, &p
}

func runC11(c *Ctx) {
	// ---- stream 1: calendar primitives
	var days []int
	var suspects []int // days on which code and model disagree: the partition search is directed at them
	if c.Thorough() {
		for z := 0; z <= maxDay; z++ {
			days = append(days, z)
		}
		c.Extra["calendar_exhaustive"] = "0001-01-01..9999-12-31 x 6 intervals (StartOf, EndOf, Year, Month, Day, Weekday)"
	} else {
		r := c.Rng("calendar", 0)
		for i := 0; i < 20000; i++ {
			days = append(days, r.Intn(maxDay+1))
		}
		// boundaries: around every year start of 1890..2110 and month ends
		for y := 1890; y <= 2110; y++ {
			for m := 1; m <= 12; m++ {
				z := dayNum(time.Date(y, time.Month(m), 1, 0, 0, 0, 0, time.UTC))
				days = append(days, z-1, z, z+1)
			}
		}
		days = append(days, 0, 1, 2, maxDay-1, maxDay)
	}
	if !c.Replay || c.OnlyStr == "calendar" {
		const chunk = 50000
		for off := 0; off < len(days); off += chunk {
			end := off + chunk
			if end > len(days) {
				end = len(days)
			}
			lines := make([]string, 0, end-off)
			for _, z := range days[off:end] {
				lines = append(lines, fmt.Sprintf("cal %d", z))
			}
			answers := c.Drv.AskBatch(lines)
			for i, z := range days[off:end] {
				if !c.Want("calendar", z) {
					continue
				}
				c.Evals++
				impl := implCal(z)
				if !c.Compare("calendar", z, "cal", map[string]any{"day": z, "date": dayTime(z).Format("2006-01-02")}, impl, answers[i]) && len(suspects) < 20 {
					suspects = append(suspects, z)
				}
				t := dayTime(z)
				c.Class(fmt.Sprintf("cal/m%d/wd%d/leap%v", int(t.Month()), int(t.Weekday()), t.YearDay() == 366 || dayTime(z-t.YearDay()+366).Year() == t.Year()))
			}
		}
		c.Sample(map[string]any{"stream": "calendar", "day": days[0], "impl": implCal(days[0])})
	}

	// ---- stream gosem: the prelude of the Go→Lean translator (lean/Knut/GoSem) against the real Go primitives
	runGoSemStream(c, c.N(6000, 200000))

	// ---- stream cli: columns and attribution on the real command line, in varying time zones
	if !c.Replay || c.OnlyStr == "cli" {
		runC11CLI(c)
	}

	// ---- stream files: the same on journals spread over included files, under several goroutine schedules
	if !c.Replay || c.OnlyStr == "files" {
		runC11Files(c)
	}

	// ---- stream edges: directives that book nothing (or are refused) at the chronological ends of the journal, with and without --val
	if !c.Replay || c.OnlyStr == "edges" {
		runC11Edges(c)
	}

	// ---- stream 2: partitions, alignment, property monitor
	n := c.N(4000, 150000)
	lasts := []int{0, 0, 0, 1, 2, 3, 5, 100, -1}
	bt := c.NewBatch()
	defer bt.Flush()
	// directed search: windows that end / start on or around a day where code and model differ
	type win struct{ a, b, iv, last int }
	var directed []win
	for _, z := range suspects {
		for iv := 1; iv < 6; iv++ {
			for _, span := range []int{0, 20, 45, 100, 200, 400} {
				directed = append(directed, win{z - span, z, iv, 0}, win{z - span, z + 3, iv, 0}, win{z - 3, z + span, iv, 0}, win{z - span, z, iv, 2})
			}
		}
	}
	if len(directed) > 0 {
		c.Notes = append(c.Notes, fmt.Sprintf("directed search: %d windows around %d days on which StartOf/EndOf differ from the model", len(directed), len(suspects)))
	}
	if c.Replay && c.ReplayInput != nil && c.OnlyStr == "partition" {
		in := c.ReplayInput
		if w, ok := in["window"].(map[string]any); ok {
			in = w
		}
		iv := 0
		for k, x := range intervals {
			if x.String() == in["interval"] {
				iv = k
			}
		}
		c.Replay = false
		c.runPartitionCase(bt, c.Rng("partition", c.OnlyIndex), c.OnlyIndex, int(in["a"].(float64)), int(in["b"].(float64)), iv, int(in["last"].(float64)))
		return
	}
	for i := -len(directed); i < n; i++ {
		i := i
		if !c.Want("partition", i) {
			continue
		}
		r := c.Rng("partition", i)
		var a, b int
		if i < 0 {
			w := directed[-i-1]
			if w.a < 1 {
				continue
			}
			c.runPartitionCase(bt, r, i, w.a, w.b, w.iv, w.last)
			continue
		}
		base := dayNum(time.Date(r.Range(1900, 2100), time.Month(r.Range(1, 12)), r.Range(1, 28), 0, 0, 0, 0, time.UTC))
		switch r.Intn(10) {
		case 0: // inverted window
			a = base
			b = base - r.Range(1, 400)
		case 1: // single day
			a, b = base, base
		case 2: // long window
			a, b = base, base+r.Range(300, 3000)
		case 3: // tiny dates near the zero time
			a = r.Range(0, 40)
			b = a + r.Range(0, 500)
		case 4: // window starting/ending on unit boundaries
			t := time.Date(r.Range(1990, 2030), time.Month(r.Range(1, 12)), 1, 0, 0, 0, 0, time.UTC)
			a = dayNum(t) - r.Intn(2)
			b = dayNum(t.AddDate(0, r.Range(0, 14), 0)) - r.Intn(2)
		default:
			a, b = base, base+r.Range(0, 500)
		}
		iv := r.Intn(6)
		last := Pick(r, lasts)
		if c.Thorough() && r.Chance(1, 10) {
			last = r.Range(-3, 400)
		}
		c.runPartitionCase(bt, r, i, a, b, iv, last)
	}
}

func (c *Ctx) runPartitionCase(bt *Batch, r *RNG, i, a, b, iv, last int) {
	c.Evals++
	in := map[string]any{"start": dayTime(a).Format("2006-01-02"), "end": dayTime(b).Format("2006-01-02"), "a": a, "b": b, "interval": intervals[iv].String(), "last": last}
	impl, periods, part := implPartition(a, b, iv, last)
	bt.Add(func(model string) { c.Compare("partition", i, "part", in, impl, model) }, "part", itoa(a), itoa(b), itoa(iv), itoa(last))
	c.Class(fmt.Sprintf("part/%s/inv%v/last%s/n%s", intervals[iv], b < a, sign(last), bucket(len(periods))))
	if i < 3 {
		c.Sample(map[string]any{"stream": "partition", "input": in, "impl": impl})
	}
	if part == nil {
		c.Tag("partition-panic")
		// the only panic the model predicts is the zero start date
		c.Monitor("partition", i, "C11_zero_start_panics", in, a == 0, "NewPartition panicked with a non-zero start")
		return
	}
	// monitor: the property predicate evaluated by the Lean driver on the implementation's periods
	bt.Add(func(mon string) {
		c.Monitor("partition", i, "partitionOK", in, mon == "ok", "periods "+impl+" => "+mon)
	},
		"c11mon", itoa(a), itoa(b), itoa(iv), itoa(last), periodsField(periods))
	// alignment: probe dates around the window and at every period border
	probes := []int{a - 400, a - 1, a, b, b + 1, b + 400}
	for k, p := range periods {
		if len(periods) <= 6 || k < 2 || k >= len(periods)-2 || r.Chance(4, len(periods)) {
			probes = append(probes, p[0], p[1])
		}
	}
	for k := 0; k < 4; k++ {
		probes = append(probes, a-50+r.Intn(b-a+100+1))
	}
	align := part.Align()
	for _, d := range probes {
		if d < 0 {
			continue
		}
		var implA string
		if t := align(dayTime(d)); t.IsZero() {
			implA = "none"
		} else {
			implA = itoa(dayNum(t))
		}
		d := d
		in2 := map[string]any{"window": in, "d": d, "date": dayTime(d).Format("2006-01-02")}
		// Partition.Contains decides which days' bookings enter a report at all: exactly the days of the window, also
		// with --last (days before the first shown period are attributed to the first period, not dropped)
		implC := part.Contains(dayTime(d))
		bt.Add(func(m string) { c.Compare("partition", i, "contains", in2, fmt.Sprint(implC), m) }, "contains", itoa(a), itoa(b), itoa(iv), itoa(last), itoa(d))
		c.Monitor("partition", i, "contains_iff_in_window", in2, implC == (a <= d && d <= b), fmt.Sprintf("Contains(%s)=%v for the window %d..%d", dayTime(d).Format("2006-01-02"), implC, a, b))
		bt.Add(func(modelA string) { c.Compare("partition", i, "align", in2, implA, modelA) }, "align", itoa(a), itoa(b), itoa(iv), itoa(last), itoa(d))
		bt.Add(func(monA string) {
			c.Monitor("partition", i, "alignOK", in2, monA == "ok", "align("+itoa(d)+")="+implA+" over "+impl+" => "+monA)
		}, "c11alignmon", itoa(b), periodsField(periods), itoa(d), implA)
	}
}

func periodsField(ps [][2]int) string {
	if len(ps) == 0 {
		return "-"
	}
	parts := make([]string, len(ps))
	for i, p := range ps {
		parts[i] = fmt.Sprintf("%d:%d", p[0], p[1])
	}
	return strings.Join(parts, ",")
}

func itoa(i int) string { return fmt.Sprintf("%d", i) }

func sign(i int) string {
	switch {
	case i < 0:
		return "neg"
	case i == 0:
		return "0"
	}
	return "pos"
}

func bucket(n int) string {
	switch {
	case n == 0:
		return "0"
	case n == 1:
		return "1"
	case n <= 3:
		return "2-3"
	case n <= 12:
		return "4-12"
	case n <= 100:
		return "13-100"
	}
	return ">100"
}
