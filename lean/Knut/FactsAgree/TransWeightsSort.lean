import Knut.FactsAgree.TransWeightsTree
/-!
# `SortWeighted` over the propagated tree of `lib/reports/weights`: every node's `Weight` is the model's `sortKey`

Part 3 of the agreement of `lib/reports/weights`.  After `PropagateWeights` (`TransWeightsTree.lean`) every node's map holds the
model's `nodeWeight`; `SortWeighted` first sets, in a second `PostOrder` traversal, every node's `Weight` to minus the sum of its map —
the model's `sortKey` (minus the sum of the weights of the adds at or below the node) — and then sorts every node's children with the
comparator `SortWeighted_cmp_agrees` (by `Weight`, ties by segment).

* `children_fold`: the children loop of `MNode.postOrderF` for a function that needs no state, in any order that visits each child once.
* `sortKeys_postOrderF`, `SortWeighted_tree_agrees`: for EVERY such order of the traversal, after `SortWeighted` every node `m` at a path
  `q` has `m.Value.Weight = Weights.sortKey L q`, its map and its children as before, and its `Sorted` children — the order in which
  `renderNode` walks them — are exactly the model's `Weights.sortedChildren L false q` (the keys of the Go map are the model's `childSegs`
  in the same order, `Rep.keysEq`, and on them the Go comparator is the model's: `cmpOrdered_str`).
* `Report_pipeline_agrees`: `NewReport`, any log of `Add`s, `PropagateWeights`, `SortWeighted` in sequence.
-/
namespace Knut.FactsAgree.TransWeights
open Knut Knut.GoSem Knut.MapSum
open Knut.Generated.Go

/-- the children loop of a traversal without state: if the traversal of every child `c` that satisfies `Pin` succeeds with a child that
satisfies `Pout`, then the loop over any order that visits each child once succeeds, keeps the keys, and all children satisfy `Pout` -/
theorem children_fold (f : List String → Unit → Node → GoSem.Outcome (Unit × Node)) (ord : List String → List String) (fuel : Nat)
    (π : List String) (n : Node) (Pin Pout : String → Node → Prop)
    (hin : ∀ s c, AMap.find? n.Children s = some c → Pin s c)
    (ih : ∀ s c, AMap.find? n.Children s = some c → Pin s c →
      ∃ c', MNode.postOrderF f ord fuel (π ++ [s]) () c = .ok ((), c') ∧ Pout s c')
    (hperm : (ord π).Perm (AMap.keys n.Children)) (hnd : (AMap.keys n.Children).Nodup) :
    ∃ cs', foldlE (MNode.childStep f ord fuel π) ((), n.Children) (ord π) = .ok ((), cs') ∧
      AMap.keys cs' = AMap.keys n.Children ∧ ∀ s c', AMap.find? cs' s = some c' → Pout s c' := by
  have hfold : ∀ (ks : List String), ks.Nodup → ∀ (cs : List (String × Node)) (dn : String → Prop), (∀ s ∈ ks, ¬ dn s) →
      (AMap.keys cs = AMap.keys n.Children ∧ (∀ s c, AMap.find? cs s = some c → dn s → Pout s c) ∧
        (∀ s c, AMap.find? cs s = some c → ¬ dn s → AMap.find? n.Children s = some c)) →
      ∃ cs', foldlE (MNode.childStep f ord fuel π) ((), cs) ks = .ok ((), cs') ∧
        (AMap.keys cs' = AMap.keys n.Children ∧ (∀ s c, AMap.find? cs' s = some c → (s ∈ ks ∨ dn s) → Pout s c) ∧
          (∀ s c, AMap.find? cs' s = some c → ¬ (s ∈ ks ∨ dn s) → AMap.find? n.Children s = some c)) := by
    intro ks
    induction ks with
    | nil =>
      intro _ cs dn _ hinv
      exact ⟨cs, rfl, hinv.1, fun s c h1 h2 => hinv.2.1 s c h1 (by simpa using h2), fun s c h1 h2 => hinv.2.2 s c h1 (by simpa using h2)⟩
    | cons s rest ihk =>
      intro hnd cs dn hdn hinv
      have hnd' : s ∉ rest ∧ rest.Nodup := by simpa using hnd
      simp only [foldlE]
      have hdn' : ∀ x ∈ rest, ¬ (x = s ∨ dn x) := by
        intro x hx; rintro (h | h)
        · exact hnd'.1 (h ▸ hx)
        · exact hdn x (List.mem_cons_of_mem _ hx) h
      have hmem : ∀ x, (x ∈ s :: rest ∨ dn x) ↔ (x ∈ rest ∨ (x = s ∨ dn x)) := by
        intro x; simp only [List.mem_cons]; constructor
        · rintro ((h | h) | h)
          · exact Or.inr (Or.inl h)
          · exact Or.inl h
          · exact Or.inr (Or.inr h)
        · rintro (h | h | h)
          · exact Or.inl (Or.inr h)
          · exact Or.inl (Or.inl h)
          · exact Or.inr h
      cases hc : AMap.find? cs s with
      | none =>
        rw [MNode.childStep_none _ _ _ _ _ _ hc]
        simp only [bind_okW]
        obtain ⟨cs', h1, h2, h3, h4⟩ := ihk hnd'.2 cs (fun x => x = s ∨ dn x) hdn'
          ⟨hinv.1, fun x c g1 g2 => by
              rcases g2 with g2 | g2
              · subst g2; rw [hc] at g1; cases g1
              · exact hinv.2.1 x c g1 g2,
            fun x c g1 g2 => hinv.2.2 x c g1 (fun h => g2 (Or.inr h))⟩
        exact ⟨cs', h1, h2, fun x c g1 g2 => h3 x c g1 ((hmem x).1 g2), fun x c g1 g2 => h4 x c g1 (fun h => g2 ((hmem x).2 h))⟩
      | some c =>
        have hsn : ¬ dn s := hdn s List.mem_cons_self
        have hc0 : AMap.find? n.Children s = some c := hinv.2.2 s c hc hsn
        obtain ⟨c', g1, g2⟩ := ih s c hc0 (hin s c hc0)
        rw [MNode.childStep_some _ _ _ _ _ _ c hc]
        simp only [g1, bind_okW]
        have hsk : s ∈ AMap.keys cs := TransAmountsSum.mem_keys_of_find? hc
        obtain ⟨cs', h1, h2, h3, h4⟩ := ihk hnd'.2 (AMap.set cs s c') (fun x => x = s ∨ dn x) hdn'
          ⟨by rw [TransAmountsSum.keys_set, if_pos hsk]; exact hinv.1,
            fun x d k1 k2 => by
              rw [AMap.find?_set] at k1
              by_cases hx : s = x
              · subst hx; simp only [if_true, Option.some.injEq] at k1; subst k1; exact g2
              · simp only [hx, if_false] at k1
                rcases k2 with k2 | k2
                · exact absurd k2.symm hx
                · exact hinv.2.1 x d k1 k2,
            fun x d k1 k2 => by
              rw [AMap.find?_set] at k1
              by_cases hx : s = x
              · exact absurd (Or.inl hx.symm) k2
              · simp only [hx, if_false] at k1
                exact hinv.2.2 x d k1 (fun h => k2 (Or.inr h))⟩
        exact ⟨cs', h1, h2, fun x d k1 k2 => h3 x d k1 ((hmem x).1 k2), fun x d k1 k2 => h4 x d k1 (fun h => k2 ((hmem x).2 h))⟩
  obtain ⟨cs', h1, h2, h3, _⟩ := hfold (ord π) (hperm.nodup_iff.2 hnd) n.Children (fun _ => False) (fun _ _ h => h)
    ⟨rfl, fun _ _ _ h => h.elim, fun s c h _ => h⟩
  refine ⟨cs', h1, h2, fun s c' hc => h3 s c' hc (Or.inl ?_)⟩
  have : s ∈ AMap.keys cs' := TransAmountsSum.mem_keys_of_find? hc
  rw [h2] at this
  exact hperm.mem_iff.2 this

/-- the sum of the weights of a list of adds (the model's `sortKey` is minus this sum over the adds at or below a path) -/
def wsum (xs : Log) : Rat := (xs.map (·.weight)).sum

theorem sortKey_eq (L : Log) (π : List String) : Weights.sortKey L π = -(wsum (below L π)) := rfl

theorem lsum_filter_off (d0 d : Int) (hd : ¬ d0 = d) (xs : Log) :
    lsum (wAt d) (xs.filter (fun a => !decide (a.date = d0))) = lsum (wAt d) xs := by
  induction xs with
  | nil => rfl
  | cons a xs ihx =>
    by_cases ha : a.date = d0
    · have hz : wAt d a = 0 := by
        simp only [wAt]; rw [if_neg]; intro h; exact hd (ha.symm.trans h)
      simp only [List.filter_cons, ha, decide_true, Bool.not_true, Bool.false_eq_true, if_false, lsum_cons, hz, ihx]
      exact (Rat.zero_add _).symm
    · simp only [List.filter_cons, ha, decide_false, Bool.not_false, if_true, lsum_cons, ihx]

theorem wsum_split (d0 : Int) (xs : Log) :
    lsum (wAt d0) xs + wsum (xs.filter (fun a => !decide (a.date = d0))) = wsum xs := by
  induction xs with
  | nil => simp [lsum, wsum, Rat.add_zero]
  | cons a xs ihx =>
    by_cases ha : a.date = d0
    · simp only [List.filter_cons, ha, decide_true, Bool.not_true, Bool.false_eq_true, if_false, lsum_cons, wAt, if_true]
      simp only [wsum, List.map_cons, sum_cons] at ihx ⊢
      rw [← ihx]; grind
    · simp only [List.filter_cons, ha, decide_false, Bool.not_false, if_true, lsum_cons, wAt, if_false]
      simp only [wsum, List.map_cons, sum_cons] at ihx ⊢
      rw [← ihx]; grind

/-- the sum of a map that holds per date the weights of a list of adds is the sum of the weights -/
theorem total_of_wOn : ∀ (W : AMap Int Rat) (xs : Log), NodupKeys W → (∀ d, AMap.find? W d = wOn xs d) → total W = wsum xs := by
  intro W
  induction W with
  | nil =>
    intro xs _ hW
    have hno : ∀ a ∈ xs, False := by
      intro a ha
      have := hW a.date
      rw [wOn_eq] at this
      have hany : xs.any (onDate a.date) = true := List.any_eq_true.2 ⟨a, ha, by simp [onDate]⟩
      simp [hany] at this
    cases xs with
    | nil => rfl
    | cons a _ => exact (hno a List.mem_cons_self).elim
  | cons e rest ih =>
    obtain ⟨d0, v0⟩ := e
    intro xs hn hW
    have hn' : d0 ∉ rest.map Prod.fst ∧ NodupKeys rest := by simpa [NodupKeys] using hn
    -- the adds off the date d0
    have hrest : ∀ d, AMap.find? rest d = wOn (xs.filter (fun a => !decide (a.date = d0))) d := by
      intro d
      by_cases hd : d0 = d
      · subst hd
        rw [find?_eq_none_of_not_mem rest d0 hn'.1, wOn_eq]
        have : (xs.filter (fun a => !decide (a.date = d0))).any (onDate d0) = false := by
          rw [Bool.eq_false_iff]; intro h
          obtain ⟨a, ha, hp⟩ := List.any_eq_true.1 h
          have := (List.mem_filter.1 ha).2
          simp only [onDate] at hp
          simp [hp] at this
        simp [this]
      · have := hW d
        simp only [AMap.find?, hd, if_false] at this
        rw [this, wOn_eq, wOn_eq]
        have hany : (xs.filter (fun a => !decide (a.date = d0))).any (onDate d) = xs.any (onDate d) := by
          rw [Bool.eq_iff_iff]; simp only [List.any_eq_true, List.mem_filter]
          constructor
          · rintro ⟨a, ⟨ha, _⟩, hp⟩; exact ⟨a, ha, hp⟩
          · rintro ⟨a, ha, hp⟩
            refine ⟨a, ⟨ha, ?_⟩, hp⟩
            simp only [onDate, decide_eq_true_eq] at hp
            simp only [Bool.not_eq_true', decide_eq_false_iff_not]
            intro h; exact hd (h.symm.trans hp)
        rw [hany, lsum_filter_off d0 d hd]
    have h0 := hW d0
    simp only [AMap.find?, if_true] at h0
    have hv0 : v0 = lsum (wAt d0) xs := by
      have := congrArg (fun x => x.getD 0) h0
      simpa [wOn_getD] using this
    rw [total_cons, ih (xs.filter (fun a => !decide (a.date = d0))) hn'.2 hrest, hv0]
    exact wsum_split d0 xs

/-! ## the traversal of `SortWeighted` -/

/-- **the node of the path `π` after the traversal of `SortWeighted`**: as after `PropagateWeights`, and `Weight` is the model's `sortKey` -/
structure LocalS (L : Log) (π : List String) (n : Node) : Prop extends LocalP L π n where
  weight : n.Value.Weight = Weights.sortKey L π

def SortAt (L : Log) (π : List String) (n : Node) : Prop := ∀ q m, MNode.nodeAt? n q = some m → LocalS L (π ++ q) m

theorem PropAt_child {L : Log} {π : List String} {n : Node} (h : PropAt L π n) {s : String} {c : Node}
    (hc : AMap.find? n.Children s = some c) : PropAt L (π ++ [s]) c := by
  intro q m hm
  have : MNode.nodeAt? n (s :: q) = some m := by rw [MNode.nodeAt?_cons, hc]; exact hm
  simpa [List.append_assoc] using h (s :: q) m this

/-- **the traversal of a subtree**, for EVERY order that visits each node's children once: every node's `Weight` becomes the model's
`sortKey`; maps and children stay; the fuel `MNode.height` suffices -/
theorem sortKeys_postOrderF (L : Log) (ord : List String → List String) (fuel : Nat) :
    ∀ (π : List String) (n : Node), MNode.height n ≤ fuel → PropAt L π n →
      (∀ q m, MNode.nodeAt? n q = some m → (ord (π ++ q)).Perm (AMap.keys m.Children)) →
      ∃ n', MNode.postOrderF weights.Report.SortWeighted.post1 ord fuel π () n = .ok ((), n') ∧ SortAt L π n' := by
  induction fuel with
  | zero =>
    intro π n hh
    have := height_pos n; omega
  | succ fuel ih =>
    intro π n hh hprop hord
    rw [MNode.postOrderF_succ]
    have hloc : LocalP L π n := by simpa using hprop [] n rfl
    obtain ⟨cs', h1, hkeys, hdone⟩ := children_fold weights.Report.SortWeighted.post1 ord fuel π n
      (fun s c => PropAt L (π ++ [s]) c ∧ MNode.height c ≤ fuel ∧
        ∀ q m, MNode.nodeAt? c q = some m → (ord ((π ++ [s]) ++ q)).Perm (AMap.keys m.Children))
      (fun s c => SortAt L (π ++ [s]) c)
      (fun s c hc => ⟨PropAt_child hprop hc, Nat.le_of_lt_succ (Nat.lt_of_lt_of_le (MNode.height_child_lt hc) hh),
        fun q m hm => by
          have : MNode.nodeAt? n (s :: q) = some m := by rw [MNode.nodeAt?_cons, hc]; exact hm
          simpa [List.append_assoc] using hord (s :: q) m this⟩)
      (fun s c _ hp => ih (π ++ [s]) c hp.2.1 hp.1 hp.2.2)
      (by simpa using hord [] n rfl) hloc.nodup
    rw [h1]
    simp only [bind_okW]
    obtain ⟨W, hW, hWn, hWd⟩ := hloc.weights
    have hpost := SortWeighted_post_agrees π { n with Children := cs' } (by simpa [hW] using hWn)
    rw [hpost]
    refine ⟨_, rfl, ?_⟩
    intro q m hm
    cases q with
    | nil =>
      simp only [MNode.nodeAt?_nil, Option.some.injEq] at hm
      subst hm
      simp only [List.append_nil]
      refine ⟨⟨hloc.segment, ⟨W, hW, hWn, hWd⟩, (show (AMap.keys cs').Nodup from hkeys ▸ hloc.nodup), fun s => ?_,
        (show AMap.keys cs' = _ from hkeys.trans hloc.keysEq)⟩, ?_⟩
      · show s ∈ AMap.keys cs' ↔ _
        rw [hkeys]; exact hloc.children s
      · show -(total ((n.Value.Weights).getD [])) = _
        rw [hW, Option.getD_some, total_of_wOn W (below L π) hWn hWd, sortKey_eq]
    | cons s q' =>
      rw [MNode.nodeAt?_cons] at hm
      have hm' : (AMap.find? cs' s).bind (fun c => MNode.nodeAt? c q') = some m := hm
      cases hc : AMap.find? cs' s with
      | none => simp [hc] at hm'
      | some c =>
        simp only [hc, Option.bind_some] at hm'
        have := hdone s c hc q' m hm'
        simpa [List.append_assoc] using this

/-! ## the sorted children are the model's `sortedChildren` -/

theorem cmp2_sort (a b : Node) :
    weights.Report.SortWeighted.cmp2 (MNode.sort weights.Report.SortWeighted.cmp2 a) (MNode.sort weights.Report.SortWeighted.cmp2 b) =
      weights.Report.SortWeighted.cmp2 a b := by
  simp only [SortWeighted_cmp_agrees, MNode.sort_Value, MNode.sort_Segment]

/-- `cmp.Compare` on strings is not `Greater` exactly when the model's `cmpStr` is not `gt` -/
theorem cmpOrdered_str (a b : String) : decide (cmpOrdered a b ≠ (1 : Int)) = (Weights.cmpStr a b != .gt) := by
  unfold cmpOrdered Weights.cmpStr
  simp only [compare, String.compare, compareOfLessAndEq]
  by_cases h1 : a < b
  · simp [h1]
  · by_cases h2 : b < a
    · have hne : ¬ a = b := fun e => by subst e; exact String.lt_irrefl _ h2
      simp [h1, h2, hne]
    · have hab : a = b := String.le_antisymm (String.not_lt.mp h2) (String.not_lt.mp h1)
      simp [hab]

/-- **`SortWeighted`** on the propagated report, for EVERY order of its traversal that visits each node's children once: no panic; every
node of the result has `Weight` = the model's `sortKey`, its map = `nodeWeight`, its children = `childSegs`, and its `Sorted` children
(the order in which `renderNode` walks them) are exactly the model's `sortedChildren … false` -/
theorem SortWeighted_tree_agrees (L : Log) (r : weights.Report) (hprop : PropAt L [] r.weights) (ord : List String → List String)
    (hord : ∀ q m, MNode.nodeAt? r.weights q = some m → (ord q).Perm (AMap.keys m.Children)) :
    ∃ T, weights.Report.SortWeighted r ord = .ok { r with weights := T } ∧
      ∀ q m, MNode.nodeAt? T q = some m →
        m.Value.Weight = Weights.sortKey L q ∧
        (∃ W, m.Value.Weights = some W ∧ NodupKeys W ∧ ∀ d, AMap.find? W d = Weights.nodeWeight L q d) ∧
        AMap.keys m.Children = Weights.childSegs L q ∧
        m.SortedKeys = Weights.sortedChildren L false q := by
  obtain ⟨T1, h1, hsort⟩ := sortKeys_postOrderF L ord (MNode.height r.weights) [] r.weights (Nat.le_refl _) hprop
    (by simpa using hord)
  refine ⟨MNode.sort weights.Report.SortWeighted.cmp2 T1, ?_, ?_⟩
  · rw [SortWeighted_agrees]; unfold MNode.postOrder; rw [h1]; rfl
  · intro q m hm
    rw [MNode.nodeAt?_sort] at hm
    cases hm0 : MNode.nodeAt? T1 q with
    | none => simp [hm0] at hm
    | some m0 =>
      simp only [hm0, Option.map_some, Option.some.injEq] at hm
      subst hm
      have hl : LocalS L q m0 := by simpa using hsort q m0 hm0
      refine ⟨by rw [MNode.sort_Value]; exact hl.weight, by rw [MNode.sort_Value]; exact hl.weights,
        by rw [MNode.sort_Children, MNode.keys_sortChildren]; exact hl.keysEq, ?_⟩
      rw [MNode.sort_SortedKeys_eq _ cmp2_sort m0 hl.nodup, hl.keysEq]
      unfold Weights.sortedChildren
      simp only [Bool.false_eq_true, if_false]
      have := List.map_mergeSort (f := fun (x : String) => x) (l := Weights.childSegs L q)
        (r := fun a b => decide (weights.Report.SortWeighted.cmp2 ((AMap.find? m0.Children a).getD m0) ((AMap.find? m0.Children b).getD m0) ≠ 1))
        (s := fun a b =>
          let ka := Weights.sortKey L (q ++ [a])
          let kb := Weights.sortKey L (q ++ [b])
          if ka < kb then true else if kb < ka then false else Weights.cmpStr a b != .gt)
        (by
          intro a ha b hb
          -- the children `a` and `b`
          have child : ∀ x, x ∈ Weights.childSegs L q → ∃ cx, AMap.find? m0.Children x = some cx ∧
              cx.Value.Weight = Weights.sortKey L (q ++ [x]) ∧ cx.Segment = x := by
            intro x hx
            rw [← hl.keysEq] at hx
            have : (AMap.find? m0.Children x).isSome := by rw [TransAmountsSum.find?_isSome]; simpa using hx
            obtain ⟨cx, hcx⟩ := Option.isSome_iff_exists.1 this
            have hn : MNode.nodeAt? T1 (q ++ [x]) = some cx := by
              rw [MNode.nodeAt?_append, hm0]; simp [MNode.nodeAt?_cons, hcx]
            have hlx : LocalS L (q ++ [x]) cx := by simpa using hsort (q ++ [x]) cx hn
            exact ⟨cx, hcx, hlx.weight, by rw [hlx.segment]; simp⟩
          obtain ⟨ca, hca, wa, sa⟩ := child a ha
          obtain ⟨cb, hcb, wb, sb⟩ := child b hb
          simp only [hca, hcb, Option.getD_some, SortWeighted_cmp_agrees, wa, wb, sa, sb]
          by_cases h1 : Weights.sortKey L (q ++ [a]) < Weights.sortKey L (q ++ [b])
          · simp [h1]
          · by_cases h2 : Weights.sortKey L (q ++ [b]) < Weights.sortKey L (q ++ [a])
            · simp [h1, h2]
            · simp only [h1, h2, if_false]
              exact cmpOrdered_str a b)
      simpa using this

/-- **the report of `knut portfolio weights` before rendering**: `NewReport`, the adds of the query in any number, `PropagateWeights`,
`SortWeighted` (the branch of `Renderer.Render` without `--sort-alphabetically`), for EVERY admissible family of iteration orders: nothing
panics, and every node of the resulting tree is, in the model's terms, the node of its path: `nodeWeight`, `childSegs`, `sortKey`,
`sortedChildren`; the dates are the dates of the adds -/
theorem Report_pipeline_agrees (L : Log) (o1 : List String → List Int) (o2 o3 : List String → List String) :
    ∃ r, addAll weights.NewReport L = .ok r ∧ (∀ d, set.Set.Has r.dates d = (L.map (·.date)).contains d) ∧
      (Orders L [] r.weights o1 o2 →
        ∃ T, weights.Report.PropagateWeights r o1 o2 = .ok { r with weights := T } ∧
          ((∀ q m, MNode.nodeAt? T q = some m → (o3 q).Perm (AMap.keys m.Children)) →
            ∃ T', weights.Report.SortWeighted { r with weights := T } o3 = .ok { r with weights := T' } ∧
              ∀ q m, MNode.nodeAt? T' q = some m →
                m.Value.Weight = Weights.sortKey L q ∧
                (∃ W, m.Value.Weights = some W ∧ NodupKeys W ∧ ∀ d, AMap.find? W d = Weights.nodeWeight L q d) ∧
                AMap.keys m.Children = Weights.childSegs L q ∧
                m.SortedKeys = Weights.sortedChildren L false q)) := by
  obtain ⟨r, hr, hrep, hdates⟩ := Add_fold_agrees L
  refine ⟨r, hr, hdates, fun hord => ?_⟩
  obtain ⟨T, hT, hprop⟩ := Propagate_tree_agrees L r hrep o1 o2 hord
  refine ⟨T, hT, fun hord3 => ?_⟩
  exact SortWeighted_tree_agrees L { r with weights := T } hprop o3 hord3

end Knut.FactsAgree.TransWeights
