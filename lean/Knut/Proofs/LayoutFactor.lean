import Knut.Spec.LayoutSpec
import Knut.Proofs.InsertsPerm
import Knut.Proofs.Accrual
/-!
# `Cmd.run` factors through `journalOf`; what every loaded journal satisfies (C05, layout)
-/
namespace Knut.Layout
open Knut Knut.Loader Knut.Commands Knut.InsertsPerm

/-- `journal.FromPath` of the command model is `journalOf` -/
theorem fromPath_eq_journalOf (fs : FileSys) (root : Path) : fromPath fs root = journalOf fs root := rfl

theorem run_check_eq (fs : FileSys) (f : Flags) :
    Cmd.run .check fs f = (match journalOf fs f.path with | .error o => o | .ok ds => checkOn f.write ds) := by
  show runCheck fs f = _
  unfold runCheck
  rw [fromPath_eq_journalOf]
  cases journalOf fs f.path with
  | error o => rfl
  | ok ds =>
    simp only [bind, Except.bind, checkOn]
    cases checkWrite {} (Builder.ofList ds).build with
    | error e => rfl
    | ok as => cases f.write <;> rfl

theorem run_balance_eq (fs : FileSys) (f : Flags) :
    Cmd.run .balance fs f = balanceOn f.balance (journalOf fs f.path) := by
  show runBalance fs f = _
  unfold runBalance balanceOn
  rw [fromPath_eq_journalOf]
  cases commodityFlag f.balance.valuation with
  | error o => rfl
  | ok v => cases journalOf fs f.path <;> rfl

theorem run_print_eq (fs : FileSys) (f : Flags) :
    Cmd.run .print fs f = (match journalOf fs f.path with | .error o => o | .ok ds => printOn ds) := by
  show runPrint fs f = _
  unfold runPrint
  rw [fromPath_eq_journalOf]
  cases journalOf fs f.path with
  | error o => rfl
  | ok ds =>
    simp only [bind, Except.bind, printOn]
    cases Check.run (Builder.ofList ds).build <;> rfl

/-! ### `check --write` accepts what `check` accepts -/

theorem checkWrite_isOk : ∀ (days : List Day) (st : CheckState),
    (checkWrite st days).isOk = (days.foldlM Check.day st).isOk
  | [], st => rfl
  | d :: rest, st => by
    simp only [checkWrite, List.foldlM_cons]
    cases h : Check.day st d with
    | error e => rfl
    | ok st' =>
      have ih := checkWrite_isOk rest st'
      simp only [bind, Except.bind]
      rw [← ih]
      cases checkWrite st' rest <;> rfl

theorem checkWrite_isOk_run (days : List Day) : (checkWrite {} days).isOk = (Check.run days).isOk :=
  checkWrite_isOk days {}


/-! ### every transaction of a loaded journal books on accounts with an account type (`DirsWF`) -/

theorem postingBuild_wf (cr dr : Account) (c : Commodity) (q : Rat) (h1 : cr.wf = true) (h2 : dr.wf = true) :
    ∀ p ∈ postingBuild cr dr c q, p.account.wf = true := by
  intro p hp
  simp only [postingBuild, List.mem_cons, List.not_mem_nil, or_false] at hp
  rcases hp with rfl | rfl <;> simp only <;> split <;> assumption

open Knut.Accrual in
theorem expandPosting_wf (t : Transaction) (ad : Addon) (p : Posting) (txs : List Transaction) (ha : ad.account.wf = true)
    (hp : p.account.wf = true) (h : expandPosting t ad p = .ok txs) : ∀ g ∈ txs, ∀ q ∈ g.postings, q.account.wf = true := by
  have hre : ∀ date desc q, ∀ x ∈ (rebook t date desc ad.account p q).postings, x.account.wf = true :=
    fun date desc q => postingBuild_wf _ _ _ _ ha hp
  unfold expandPosting at h
  split at h
  · injection h with h
    subst h
    intro g hg
    simp only [List.mem_singleton] at hg
    subst hg
    exact hre _ _ _
  · split at h
    · cases h
    · split at h
      · cases h
      · injection h with h
        subst h
        exact ieLoop_all _ _ _ _ _ _ _ _ _ hre

open Knut.Accrual in
theorem expandLoop_wf (t : Transaction) (ad : Addon) (ha : ad.account.wf = true) (ps : List Posting)
    (hps : ∀ p ∈ ps, p.account.wf = true) (txs : List Transaction)
    (h : expandLoop t ad ps = .ok txs) : ∀ g ∈ txs, ∀ q ∈ g.postings, q.account.wf = true := by
  induction ps generalizing txs with
  | nil =>
    simp only [expandLoop, Step.ok.injEq] at h
    subst h; simp
  | cons p rest ih =>
    simp only [expandLoop] at h
    cases h1 : expandPosting t ad p with
    | panic s => simp [h1] at h
    | ok txs1 =>
      simp only [h1] at h
      cases h2 : expandLoop t ad rest with
      | panic s => simp [h2] at h
      | ok txs2 =>
        simp only [h2, Step.ok.injEq] at h
        subst h
        intro g hg
        rcases List.mem_append.mp hg with hg | hg
        · exact expandPosting_wf t ad p txs1 ha (hps p List.mem_cons_self) h1 g hg
        · exact ih (fun x hx => hps x (List.mem_cons_of_mem _ hx)) txs2 h2 g hg

open Knut.Accrual in
/-- everything `transaction.Create` returns books on accounts with an account type (the registry's check) -/
theorem create_wf (t : TxInput) (gen : List Transaction) (h : create t = .ok gen) :
    ∀ g ∈ gen, ∀ q ∈ g.postings, q.account.wf = true := by
  unfold create at h
  split at h
  · cases h
  · rename_i hb
    have hb' : ∀ b ∈ t.bookings, b.credit.wf = true ∧ b.debit.wf = true := by
      simpa [List.all_eq_true] using hb
    have hps : ∀ p ∈ postingsOf t.bookings, p.account.wf = true := by
      intro p hp
      obtain ⟨b, hbm, hpb⟩ := List.mem_flatMap.mp hp
      exact postingBuild_wf _ _ _ _ (hb' b hbm).1 (hb' b hbm).2 p hpb
    simp only at h
    split at h
    · injection h with h
      subst h
      intro g hg
      simp only [List.mem_singleton] at hg
      subst hg
      exact hps
    · rename_i ad _
      unfold expand at h
      split at h
      · cases h
      · rename_i hwf
        split at h
        · cases h
        · split at h
          · cases h
          · rename_i txs hx
            injection h with h
            subst h
            exact expandLoop_wf _ ad (by simpa using hwf) _ hps _ hx

theorem elabDirective_wf (text : Commands.Bytes) (d : Syntax.Directive) (xs : List Directive) (h : elabDirective text d = .ok xs) :
    DirsWF xs := by
  unfold elabDirective at h
  split at h
  · -- transaction
    rename_i t _
    unfold elabTransaction at h
    cases hi : txInput text t with
    | error e => rw [hi] at h; cases h
    | ok inp =>
      rw [hi] at h
      simp only [bind, Except.bind] at h
      split at h
      · rename_i txs hc
        cases h
        intro u hu p hp
        obtain ⟨g, hg, hgu⟩ := List.mem_map.mp hu
        injection hgu with hgu
        subst hgu
        exact create_wf inp txs hc g hg p hp
      · cases h
      · cases h
  all_goals
    intro u hu
    exfalso
    revert h
    simp only [bind, Except.bind, pure, Except.pure]
    repeat' split
    all_goals intro h; try cases h
    all_goals simp at hu

theorem dirsWF_flatten {xss : List (List Directive)} (h : ∀ xs ∈ xss, DirsWF xs) : DirsWF xss.flatten := by
  intro t ht
  obtain ⟨xs, hxs, hx⟩ := List.mem_flatten.mp ht
  exact h xs hxs t hx

theorem mapM_ok_forall {α β : Type} {g : α → Except CmdOutcome β} {P : β → Prop} :
    ∀ {l : List α} {ys : List β}, l.mapM g = .ok ys → (∀ a ∈ l, ∀ y, g a = .ok y → P y) → ∀ y ∈ ys, P y
  | [], ys, h, _ => by cases h; intro y hy; cases hy
  | a :: l, ys, h, hp => by
    rw [List.mapM_cons] at h
    cases ha : g a with
    | error e => rw [ha] at h; cases h
    | ok ya =>
      rw [ha] at h
      cases hl : l.mapM g with
      | error e => rw [hl] at h; cases h
      | ok ys' =>
        rw [hl] at h
        cases h
        intro y hy
        rcases List.mem_cons.mp hy with rfl | hy
        · exact hp a List.mem_cons_self _ ha
        · exact mapM_ok_forall hl (fun b hb => hp b (List.mem_cons_of_mem _ hb)) y hy

theorem elabFile_wf (tf : Commands.Bytes × Syntax.File) (ds : List Directive) (h : elabFile tf = .ok ds) : DirsWF ds := by
  unfold elabFile at h
  cases hm : tf.2.directives.mapM (elabDirective tf.1) with
  | error e => rw [hm] at h; cases h
  | ok xss =>
    rw [hm] at h
    cases h
    exact dirsWF_flatten (mapM_ok_forall hm (fun d _ xs hx => elabDirective_wf tf.1 d xs hx))

theorem journalOfFiles_wf (files : List LoadedFile) (ds : List Directive) (h : journalOfFiles files = .ok ds) : DirsWF ds := by
  unfold journalOfFiles at h
  cases hm : files.mapM (fun pf => elabFile pf.2) with
  | error e => rw [hm] at h; cases h
  | ok xss =>
    rw [hm] at h
    cases h
    exact dirsWF_flatten (mapM_ok_forall hm (fun pf _ xs hx => elabFile_wf pf.2 xs hx))

/-- **every journal the commands load satisfies `DirsWF`**: the account registry rejects anything else -/
theorem journalOf_wf (fs : FileSys) (root : Path) (ds : List Directive) (h : journalOf fs root = .ok ds) : DirsWF ds := by
  unfold journalOf at h
  split at h
  · cases h
  · exact journalOfFiles_wf _ ds h

/-! ### arrival order of the files -/

theorem mapM_ok_perm {α β : Type} (g : α → Except CmdOutcome (List β)) {l l' : List α} (hp : l.Perm l') :
    ∀ {xs}, l.mapM g = .ok xs → ∃ xs', l'.mapM g = .ok xs' ∧ xs.flatten.Perm xs'.flatten := by
  induction hp with
  | nil => intro xs h; exact ⟨xs, h, List.Perm.refl _⟩
  | @cons a l l' _ ih =>
    intro xs h
    rw [List.mapM_cons] at h ⊢
    cases ha : g a with
    | error e => rw [ha] at h; cases h
    | ok ya =>
      rw [ha] at h
      cases hl : l.mapM g with
      | error e => rw [hl] at h; cases h
      | ok ys =>
        rw [hl] at h
        obtain ⟨ys', h', hperm⟩ := ih hl
        cases h
        refine ⟨ya :: ys', by rw [h']; rfl, ?_⟩
        simp only [List.flatten_cons]
        exact hperm.append_left _
  | swap a b l =>
    intro xs h
    rw [List.mapM_cons, List.mapM_cons] at h
    rw [List.mapM_cons, List.mapM_cons]
    cases hb : g b with
    | error e => rw [hb] at h; cases h
    | ok yb =>
      cases ha : g a with
      | error e => rw [hb, ha] at h; cases h
      | ok ya =>
        cases hl : l.mapM g with
        | error e => rw [hb, ha, hl] at h; cases h
        | ok ys =>
          rw [hb, ha, hl] at h
          cases h
          refine ⟨ya :: yb :: ys, rfl, ?_⟩
          simp only [List.flatten_cons, ← List.append_assoc]
          exact List.Perm.append_right _ List.perm_append_comm
  | trans _ _ ih1 ih2 =>
    intro xs h
    obtain ⟨ys, h1, p1⟩ := ih1 h
    obtain ⟨zs, h2, p2⟩ := ih2 h1
    exact ⟨zs, h2, p1.trans p2⟩

/-- the files may arrive in any order: the journal is a permutation of the one of the loader's order -/
theorem journalOfFiles_perm {files files' : List LoadedFile} (hp : files.Perm files') {ds : List Directive}
    (h : journalOfFiles files = .ok ds) : ∃ ds', journalOfFiles files' = .ok ds' ∧ ds.Perm ds' := by
  unfold journalOfFiles at h ⊢
  cases hm : files.mapM (fun pf => elabFile pf.2) with
  | error e => rw [hm] at h; cases h
  | ok xs =>
    rw [hm] at h
    cases h
    obtain ⟨xs', h', hperm⟩ := mapM_ok_perm (fun pf : LoadedFile => elabFile pf.2) hp hm
    exact ⟨xs'.flatten, by rw [h']; rfl, hperm⟩

end Knut.Layout
