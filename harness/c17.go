package main

import (
	"bytes"
	"errors"
	"fmt"
	"io"
	"os"
	"os/exec"
	"path/filepath"
	"sort"
	"strings"
	"sync"
	"syscall"
	"time"
	"unicode"
	"unicode/utf8"

	"github.com/sboehler/knut/lib/common/table"
	"github.com/shopspring/decimal"
)

func init() { runners["C17"] = runC17 }

// ---------------------------------------------------------------- table descriptions

// c17op is one call of the exported table API.
type c17op struct {
	Kind   string `json:"kind"` // R S E e f t i d
	Align  int    `json:"align,omitempty"`
	Indent int    `json:"indent,omitempty"`
	Text   string `json:"text,omitempty"`
	Dec    string `json:"dec,omitempty"`
}

type c17table struct {
	Groups    []int   `json:"groups"`
	Ops       []c17op `json:"ops"`
	Thousands bool    `json:"thousands"`
	Digits    int     `json:"digits"`
}

func (tb *c17table) width() int {
	n := 0
	for _, g := range tb.Groups {
		n += g
	}
	return n
}

// build performs the calls on the real package.
func (tb *c17table) build() *table.Table {
	t := table.New(tb.Groups...)
	var row *table.Row
	for _, op := range tb.Ops {
		switch op.Kind {
		case "R":
			row = t.AddRow()
		case "S":
			t.AddSeparatorRow()
			row = nil
		case "E":
			t.AddEmptyRow()
			row = nil
		case "e":
			row.AddEmpty()
		case "f":
			row.FillEmpty()
		case "t":
			row.AddText(op.Text, table.Alignment(op.Align))
		case "i":
			row.AddIndented(op.Text, op.Indent)
		case "d":
			row.AddDecimal(decimal.RequireFromString(op.Dec))
		}
	}
	return t
}

// fields are the driver's protocol fields for the calls.
func (tb *c17table) fields() []string {
	fs := make([]string, 0, len(tb.Ops))
	for _, op := range tb.Ops {
		switch op.Kind {
		case "t":
			fs = append(fs, fmt.Sprintf("t%d:%s", op.Align, Hex(op.Text)))
		case "i":
			fs = append(fs, fmt.Sprintf("i%d:%s", op.Indent, Hex(op.Text)))
		case "d":
			fs = append(fs, "d"+Hex(op.Dec))
		default:
			fs = append(fs, op.Kind)
		}
	}
	return fs
}

func (tb *c17table) groupsField() string {
	if len(tb.Groups) == 0 {
		return "-"
	}
	parts := make([]string, len(tb.Groups))
	for i, g := range tb.Groups {
		parts[i] = itoa(g)
	}
	return strings.Join(parts, ",")
}

func c17BoolField(b bool) string {
	if b {
		return "1"
	}
	return "0"
}

func (tb *c17table) implText() (res string, out string) {
	defer func() {
		if r := recover(); r != nil {
			res, out = "panic", ""
		}
	}()
	var buf bytes.Buffer
	rn := table.TextRenderer{Color: false, Thousands: tb.Thousands, Round: int32(tb.Digits)}
	if err := rn.Render(tb.build(), &buf); err != nil {
		return "error", ""
	}
	return "ok " + Hex(buf.String()), buf.String()
}

func (tb *c17table) implCSV() (res string, out string) {
	defer func() {
		if r := recover(); r != nil {
			res, out = "panic", ""
		}
	}()
	var buf bytes.Buffer
	rn := table.CSVRenderer{}
	if err := rn.Render(tb.build(), &buf); err != nil {
		return "error", ""
	}
	return "ok " + Hex(buf.String()), buf.String()
}

// c17FracDigits is the number of decimal places of a decimal literal (trailing zeros not counted).
func c17FracDigits(lit string) int {
	i := strings.IndexByte(lit, '.')
	if i < 0 {
		return 0
	}
	return len(strings.TrimRight(lit[i+1:], "0"))
}

// knownDoubleRounding is the predicate of the known finding `thousands-with-more-than-13-decimals`:
// --thousands is on and some amount of the table has more than 13 decimal places (so that Div's
// rounding to 16 places is not exact).
func (tb *c17table) knownDoubleRounding() bool {
	if !tb.Thousands {
		return false
	}
	for _, op := range tb.Ops {
		if op.Kind == "d" && c17FracDigits(op.Dec) > 13 {
			return true
		}
	}
	return false
}

func (tb *c17table) input() map[string]any {
	return map[string]any{"groups": tb.Groups, "ops": tb.Ops, "thousands": tb.Thousands, "digits": tb.Digits}
}

func c17TableFromInput(in map[string]any) *c17table {
	tb := &c17table{}
	if g, ok := in["groups"].([]any); ok {
		for _, x := range g {
			tb.Groups = append(tb.Groups, int(x.(float64)))
		}
	}
	if ops, ok := in["ops"].([]any); ok {
		for _, x := range ops {
			m := x.(map[string]any)
			var op c17op
			op.Kind, _ = m["kind"].(string)
			if v, ok := m["align"].(float64); ok {
				op.Align = int(v)
			}
			if v, ok := m["indent"].(float64); ok {
				op.Indent = int(v)
			}
			op.Text, _ = m["text"].(string)
			op.Dec, _ = m["dec"].(string)
			tb.Ops = append(tb.Ops, op)
		}
	}
	tb.Thousands, _ = in["thousands"].(bool)
	if v, ok := in["digits"].(float64); ok {
		tb.Digits = int(v)
	}
	return tb
}

// ---------------------------------------------------------------- generators

var c17digits = []int{0, 0, 0, 2, 2, 2, 1, 3, 4, 8, 10, -1, -2, -3, 16, 20}

var c17names = []string{
	"Assets", "Liabilities", "Equity", "Income", "Expenses", "Bank", "Portfolio", "Cash", "A", "Total (A+L)", "Total (E+I+E)", "Delta",
	"Bär", "Zürich", "Überweisung", "日本", "口座", "Ελλάδα", "счёт", "naïve", "ﬁ", "😀", "a😀b", "É", "é", "İstanbul", "ß",
}

var c17weird = []string{
	"", " ", "  lead", "trail  ", "a b", "a,b", "say \"hi\"", "\"", ",", "\\.", "x|y", "+-+", "| ", "-", "--", "1,234", "-5", "0.5", ".", "a\tb", " x", "　", " wide",
}

var c17broken = []string{"a\nb", "\n", "a\r\nb", "\r", "line\n", "\tq"}

func c17name(r *RNG) string {
	switch r.Intn(10) {
	case 0:
		return Pick(r, c17weird)
	case 1, 2:
		// random length, mixed scripts
		n := r.Range(0, 24)
		var b strings.Builder
		alphabet := []rune("abcdefghijklmnopqrstuvwxyzABCDEFXYZ0123456789äöüéèñçøåßЖд日本語口座😀")
		for i := 0; i < n; i++ {
			b.WriteRune(alphabet[r.Intn(len(alphabet))])
		}
		return b.String()
	default:
		return Pick(r, c17names)
	}
}

// c17decimal generates an amount literal; `digits`/`k` steer the boundary cases towards the rounding position in use.
func c17decimal(r *RNG, digits int, k bool) (string, string) {
	shift := digits // decimal position of the last kept digit
	if k {
		shift -= 3
	}
	neg := r.Chance(2, 5)
	sign := ""
	if neg {
		sign = "-"
	}
	// mk places the digit string `ds` so that its last digit sits at decimal position `pos` (pos>0: after the point)
	mk := func(ds string, pos int) string {
		ds = strings.TrimLeft(ds, "0")
		if ds == "" {
			ds = "0"
		}
		if pos <= 0 {
			return ds + strings.Repeat("0", -pos)
		}
		for len(ds) <= pos {
			ds = "0" + ds
		}
		return ds[:len(ds)-pos] + "." + ds[len(ds)-pos:]
	}
	switch r.Intn(16) {
	case 0:
		return "0", "zero"
	case 1: // exactly half at the rounding position: x5 one place further
		return sign + mk(fmt.Sprintf("%d5", r.Intn(2000)), shift+1), "half"
	case 2: // just below / above half
		tail := Pick(r, []string{"49", "4999999", "50", "51", "5000001", "499999999999999999", "500000000000000000"})
		return sign + mk(fmt.Sprintf("%d%s", r.Intn(500), tail), shift+len(tail)), "near-half"
	case 3: // carry across digit groups: 999…9.5
		nines := strings.Repeat("9", r.Range(1, 9))
		tail := Pick(r, []string{"5", "4", "49", "50", "95", "99"})
		return sign + mk(nines+tail, shift+len(tail)), "carry"
	case 4: // rounds to zero
		tail := Pick(r, []string{"4", "49", "1", "04", "004999", "0000001"})
		return sign + mk(tail, shift+len(tail)), "to-zero"
	case 5: // smallest amounts 1e-8 ..
		return sign + mk(fmt.Sprintf("%d", r.Range(1, 999)), r.Range(6, 10)), "tiny"
	case 6: // up to 1e15 and beyond
		ds := fmt.Sprintf("%d", r.Range(1, 9))
		for i := 0; i < r.Range(9, 17); i++ {
			ds += fmt.Sprintf("%d", r.Intn(10))
		}
		return sign + mk(ds, r.Range(0, 3)), "huge"
	case 7: // group boundaries 999, 1000, 999999, 1000000 …
		base := Pick(r, []string{"999", "1000", "999999", "1000000", "99999", "100000", "999999999", "1000000000", "100", "99", "10", "9"})
		return sign + mk(base+Pick(r, []string{"", "5", "49", "99", "01"}), Pick(r, []int{0, 1, 2, shift + 1, shift})), "group-border"
	case 8: // many decimals (beyond 13: Div inexact with -k)
		ds := fmt.Sprintf("%d", r.Range(1, 999999))
		n := r.Range(9, 22)
		for i := 0; i < n; i++ {
			ds += fmt.Sprintf("%d", r.Intn(10))
		}
		return sign + mk(ds, n), "many-decimals"
	case 9: // double rounding candidates: …4999999999999999999 at the rounding position
		return sign + mk(fmt.Sprintf("%d4", r.Intn(100))+strings.Repeat("9", r.Range(12, 22)), shift+1+r.Range(12, 22)), "double-rounding"
	case 10:
		return genDecimal(r), "shared-gen"
	default:
		ds := fmt.Sprintf("%d", r.Intn(10000000))
		return sign + mk(ds, r.Range(0, 8)), "plain"
	}
}

func c17NormDec(lit string) string {
	// the journal grammar (and the driver's parser) wants digits before the point
	if strings.HasPrefix(lit, "-.") {
		return "-0" + lit[1:]
	}
	if strings.HasPrefix(lit, ".") {
		return "0" + lit
	}
	return lit
}

// genC17Table generates a table in the shape the balance report produces (valid = all rows filled), or a malformed one.
func genC17Table(r *RNG, malformed bool, kinds map[string]bool) *c17table {
	tb := &c17table{Thousands: r.Chance(2, 5), Digits: Pick(r, c17digits)}
	if r.Chance(1, 12) {
		tb.Digits = r.Range(-4, 12)
	}
	// column groups
	switch r.Intn(6) {
	case 0:
		tb.Groups = []int{1, r.Range(1, 5)}
	case 1, 2:
		tb.Groups = []int{1, 1, r.Range(1, 5)}
	case 3:
		tb.Groups = []int{r.Range(1, 3)}
	default:
		n := r.Range(1, 4)
		for i := 0; i < n; i++ {
			tb.Groups = append(tb.Groups, r.Range(0, 3))
		}
		if tb.width() == 0 {
			tb.Groups = append(tb.Groups, 1)
		}
	}
	if malformed && r.Chance(1, 10) {
		tb.Groups = []int{0}
	}
	w := tb.width()
	add := func(op c17op) { tb.Ops = append(tb.Ops, op) }
	name := func() string {
		s := c17name(r)
		if malformed && r.Chance(1, 6) {
			s = Pick(r, c17broken)
			kinds["linebreak"] = true
		}
		if !utf8.ValidString(s) {
			s = "x"
		}
		for _, ch := range s {
			if ch > 127 {
				kinds["multibyte"] = true
				break
			}
		}
		return s
	}
	dec := func() c17op {
		lit, kind := c17decimal(r, tb.Digits, tb.Thousands)
		lit = c17NormDec(lit)
		kinds[kind] = true
		if strings.HasPrefix(lit, "-") {
			kinds["neg"] = true
		}
		return c17op{Kind: "d", Dec: lit}
	}
	nrows := r.Range(0, 8)
	if r.Chance(1, 10) {
		nrows = r.Range(8, 30)
	}
	if r.Chance(3, 4) {
		add(c17op{Kind: "S"})
	}
	for i := 0; i < nrows; i++ {
		switch r.Intn(10) {
		case 0:
			add(c17op{Kind: "S"})
		case 1:
			add(c17op{Kind: "E"})
		case 2: // header-like row of centred / right-aligned texts
			add(c17op{Kind: "R"})
			for j := 0; j < w; j++ {
				add(c17op{Kind: "t", Align: Pick(r, []int{2, 2, 1, 0}), Text: name()})
			}
		case 3: // name only
			add(c17op{Kind: "R"})
			add(c17op{Kind: "i", Indent: 2 * r.Intn(5), Text: name()})
			if w >= 1 { // FillEmpty on a row that outgrew the table width depends on append's growth: not modelled
				add(c17op{Kind: "f"})
			}
		default: // data row
			add(c17op{Kind: "R"})
			cells := w
			if malformed {
				switch r.Intn(8) {
				case 0:
					cells = r.Intn(w + 1) // too short, possibly no cell at all
				case 1:
					cells = w + r.Range(1, 2) // too long
				}
			}
			for j := 0; j < cells; j++ {
				switch {
				case j == 0 && r.Chance(4, 5):
					ind := 2 * r.Intn(6)
					if malformed && r.Chance(1, 5) {
						ind = -r.Range(1, 6)
						kinds["neg-indent"] = true
					}
					add(c17op{Kind: "i", Indent: ind, Text: name()})
				case j == 0:
					add(c17op{Kind: "e"})
				case j == 1 && r.Chance(1, 3):
					add(c17op{Kind: "t", Align: 0, Text: Pick(r, []string{"CHF", "USD", "AAPL", "₿", "ÖL", "X"})})
				case r.Chance(1, 12):
					add(c17op{Kind: "e"})
				case r.Chance(1, 30):
					add(c17op{Kind: "t", Align: Pick(r, []int{0, 1, 2}), Text: name()})
				default:
					add(dec())
				}
			}
			if cells == w && r.Chance(1, 6) && !malformed {
				// replace the tail by FillEmpty: drop some cells and fill
				drop := r.Intn(w)
				tb.Ops = tb.Ops[:len(tb.Ops)-drop]
				add(c17op{Kind: "f"})
			}
		}
	}
	if r.Chance(3, 4) {
		add(c17op{Kind: "S"})
	}
	return tb
}

func c17DigitsClass(d int) string {
	switch {
	case d < 0:
		return "neg"
	case d == 0:
		return "0"
	case d <= 2:
		return "1-2"
	case d <= 8:
		return "3-8"
	}
	return ">8"
}

func c17KindsSig(kinds map[string]bool) string {
	ks := make([]string, 0, len(kinds))
	for k := range kinds {
		ks = append(ks, k)
	}
	sort.Strings(ks)
	return strings.Join(ks, "+")
}

// ---------------------------------------------------------------- one case

type c17suspect struct {
	dec    string
	digits int
	k      bool
}

func (c *Ctx) runC17Case(bt *Batch, stream string, i int, tb *c17table, suspects *[]c17suspect) {
	c.Evals++
	in := tb.input()
	implT, outT := tb.implText()
	implC, outC := tb.implCSV()
	head := []string{c17BoolField(tb.Thousands), itoa(tb.Digits), tb.groupsField()}
	ops := tb.fields()
	note := func() {
		if suspects == nil || len(*suspects) > 40 {
			return
		}
		for _, op := range tb.Ops {
			if op.Kind == "d" {
				*suspects = append(*suspects, c17suspect{op.Dec, tb.Digits, tb.Thousands})
			}
		}
	}
	bt.Add(func(model string) {
		if !c.Compare(stream, i, "c17text", in, implT, model) {
			note()
		}
	}, append(append([]string{"c17text"}, head...), ops...)...)
	bt.Add(func(model string) { c.Compare(stream, i, "c17csv", in, implC, model) }, append([]string{"c17csv", tb.groupsField()}, ops...)...)
	if strings.HasPrefix(implT, "ok") {
		bt.Add(func(mon string) {
			switch {
			case mon == "ok":
				c.Monitor(stream, i, "textOK", in, true, "")
			case strings.HasPrefix(mon, "skip"):
				c.Tag("monitor-" + strings.ReplaceAll(mon, " ", "-"))
			case strings.HasPrefix(mon, "inexact") && tb.knownDoubleRounding():
				c.MonitorKnown(stream, i, "textOK(exact quotient)", in, mon+"\n"+outT, "thousands-with-more-than-13-decimals")
			default:
				c.Monitor(stream, i, "textOK", in, false, mon+"\n"+outT)
				note()
			}
		}, append(append([]string{"c17mon"}, append(head, Hex(outT))...), ops...)...)
	} else {
		c.Tag("text-" + implT)
	}
	if strings.HasPrefix(implC, "ok") {
		bt.Add(func(mon string) {
			c.Monitor(stream, i, "csvTextOK", in, mon == "ok", mon+"\n"+outC)
		}, append([]string{"c17csvmon", tb.groupsField(), Hex(outC)}, ops...)...)
	}
}

// ---------------------------------------------------------------- runner

func runC17(c *Ctx) {
	// decimal arithmetic and printing (shared stream): StringFixed, Div, String against shopspring
	if !c.Replay || c.OnlyStr == "dec" {
		runDecStream(c, c.N(4000, 200000))
	}
	bt := c.NewBatch()
	bt.Limit = 4000
	defer bt.Flush()

	if c.Replay && c.ReplayInput != nil && (c.OnlyStr == "table" || c.OnlyStr == "malformed" || c.OnlyStr == "directed" || c.OnlyStr == "numbers") {
		if _, ok := c.ReplayInput["ops"]; ok {
			tb := c17TableFromInput(c.ReplayInput)
			c.Replay = false
			c.runC17Case(bt, c.OnlyStr, c.OnlyIndex, tb, nil)
			return
		}
	}

	var suspects []c17suspect

	// ---- stream "numbers": one-column tables full of amounts, every digits value, -k on/off
	nNum := c.N(12000, 300000)
	for i := 0; i < nNum; i++ {
		if !c.Want("numbers", i) {
			continue
		}
		r := c.Rng("numbers", i)
		tb := &c17table{Groups: []int{1}, Thousands: r.Bool(), Digits: r.Range(-3, 10)}
		if r.Chance(1, 10) {
			tb.Digits = Pick(r, c17digits)
		}
		kinds := map[string]bool{}
		n := r.Range(1, 12)
		for j := 0; j < n; j++ {
			lit, kind := c17decimal(r, tb.Digits, tb.Thousands)
			kinds[kind] = true
			tb.Ops = append(tb.Ops, c17op{Kind: "R"}, c17op{Kind: "d", Dec: c17NormDec(lit)})
		}
		for kd := range kinds {
			c.Class(fmt.Sprintf("num/%s/d%d/k%v", kd, tb.Digits, tb.Thousands))
		}
		c.runC17Case(bt, "numbers", i, tb, &suspects)
		if i < 2 {
			_, out := tb.implText()
			c.Sample(map[string]any{"stream": "numbers", "input": tb.input(), "text": out})
		}
	}

	// ---- stream "table": balance-shaped tables
	nTab := c.N(20000, 500000)
	for i := 0; i < nTab; i++ {
		if !c.Want("table", i) {
			continue
		}
		r := c.Rng("table", i)
		kinds := map[string]bool{}
		tb := genC17Table(r, false, kinds)
		c.Class(fmt.Sprintf("table/w%d/k%v/d%s/%s", tb.width(), tb.Thousands, c17DigitsClass(tb.Digits), c17KindsSig(kinds)))
		c.runC17Case(bt, "table", i, tb, &suspects)
		if i < 2 {
			_, out := tb.implText()
			_, csv := tb.implCSV()
			c.Sample(map[string]any{"stream": "table", "input": tb.input(), "text": out, "csv": csv})
		}
	}

	// ---- stream "malformed": short / long / empty rows, zero-width tables, negative indents, line breaks
	nMal := c.N(5000, 100000)
	for i := 0; i < nMal; i++ {
		if !c.Want("malformed", i) {
			continue
		}
		r := c.Rng("malformed", i)
		kinds := map[string]bool{}
		tb := genC17Table(r, true, kinds)
		c.Class(fmt.Sprintf("malformed/w%d/d%s/%s", tb.width(), c17DigitsClass(tb.Digits), c17KindsSig(kinds)))
		c.runC17Case(bt, "malformed", i, tb, &suspects)
	}
	bt.Flush()

	// ---- directed search around amounts on which code and model (or code and predicate) disagree
	if len(suspects) > 0 && !c.Replay {
		seen := map[string]bool{}
		idx := 0
		for _, s := range suspects {
			if seen[s.dec] || len(seen) >= 12 {
				continue
			}
			seen[s.dec] = true
			d, err := decimal.NewFromString(s.dec)
			if err != nil {
				continue
			}
			variants := []string{s.dec, d.Neg().String(), d.Mul(decimal.NewFromInt(1000)).String(), d.Div(decimal.NewFromInt(1000)).String(),
				d.Truncate(0).String(), d.Round(int32(s.digits)).String(), d.Add(decimal.New(1, int32(-s.digits))).String(), d.Sub(decimal.New(1, int32(-s.digits))).String()}
			for _, v := range variants {
				for digits := -3; digits <= 10; digits++ {
					for _, k := range []bool{false, true} {
						tb := &c17table{Groups: []int{1}, Thousands: k, Digits: digits, Ops: []c17op{{Kind: "R"}, {Kind: "d", Dec: c17NormDec(v)}}}
						c.runC17Case(bt, "directed", idx, tb, nil)
						idx++
					}
				}
			}
		}
		bt.Flush()
		c.Notes = append(c.Notes, fmt.Sprintf("directed search: %d single-amount tables around %d amounts of disagreeing cases (all --digits -3..10, -k on/off, sign/scale variants)", idx, len(seen)))
	}

	// ---- stream "fault": the renderers writing into a writer that fails after N bytes
	runC17Fault(c, bt)

	// ---- stream "balance": the real binary, text against --csv of the same journal
	runC17Balance(c, bt)

	// ---- stream "collide": sibling accounts whose names collide under a folding, text twice and --csv
	runC17Collide(c, bt)

	// ---- stream "paced": large reports through consumers with different pacing
	runC17Paced(c, bt)
}

// ---------------------------------------------------------------- subprocess: knut balance text vs csv

type c17journal struct {
	Text string   `json:"journal"`
	Args []string `json:"args"`
}

// ---- the flags that determine the partition of a report (columns of the table)

var c17intervalFlags = []string{"", "--once", "--days", "--weeks", "--months", "--quarters", "--years"}

func c17Date(y int, m time.Month, d int) time.Time { return time.Date(y, m, d, 0, 0, 0, 0, time.UTC) }

// c17StartOf is the first day of the interval of the given kind that contains d (harness side, used only to steer the inputs).
func c17StartOf(d time.Time, ivl string) time.Time {
	switch ivl {
	case "--weeks":
		return d.AddDate(0, 0, -((int(d.Weekday()) + 6) % 7))
	case "--months":
		return c17Date(d.Year(), d.Month(), 1)
	case "--quarters":
		return c17Date(d.Year(), (d.Month()-1)/3*3+1, 1)
	case "--years":
		return c17Date(d.Year(), 1, 1)
	}
	return d
}

// c17CountPeriods is the number of intervals of the given kind that meet [lo, hi]: the number of columns a report over that span
// has without --last (1 without an interval flag, whatever the span).
func c17CountPeriods(lo, hi time.Time, ivl string) int {
	if ivl == "" || ivl == "--once" {
		return 1
	}
	n := 0
	for end := hi; !end.Before(lo) && n < 1000000; end = c17StartOf(end, ivl).AddDate(0, 0, -1) {
		n++
	}
	return n
}

var c17intervalDays = map[string]int{"": 1, "--once": 1, "--days": 1, "--weeks": 7, "--months": 28, "--quarters": 90, "--years": 365}

const c17nLastOpts = 10

// genC17PeriodFlags draws the flags that determine the partition of a balance report over a journal whose period is [jlo, jhi]:
// an interval flag (ivl indexes c17intervalFlags, -1: drawn), a --from/--to window (absent, one-sided, inside, covering, overlapping
// either end, outside, inverted, one day, a few intervals long, the calendar year) and --last (lastOpt: 0 absent, then 0 (or -1), 1, 2, 3,
// number of periods -1, +0, +1, 12, 1000; -1: drawn). The window is narrowed until the span holds at most maxCols periods; `big`
// keeps windows away that leave the report without accounts (and bounds the columns by --last instead of narrowing). Returns the flags, a class signature and the number of columns expected.
func genC17PeriodFlags(r *RNG, jlo, jhi time.Time, ivl, lastOpt, maxCols int, big bool) ([]string, string, int) {
	if ivl < 0 {
		ivl = r.Intn(len(c17intervalFlags))
	}
	if lastOpt < 0 {
		lastOpt = r.Intn(c17nLastOpts)
	}
	flag := c17intervalFlags[ivl]
	if jhi.Before(jlo) {
		jlo, jhi = jhi, jlo
	}
	span := int(jhi.Sub(jlo).Hours()/24 + 0.5)
	day := func(t time.Time, n int) time.Time { return t.AddDate(0, 0, n) }
	inside := func() time.Time { return day(jlo, r.Intn(span+1)) }
	before := func() time.Time { return day(jlo, -r.Range(1, 400)) }
	after := func() time.Time { return day(jhi, r.Range(1, 400)) }
	var from, to *time.Time
	set := func(f, t *time.Time) { from, to = f, t }
	ptr := func(t time.Time) *time.Time { return &t }
	wk := r.Intn(14)
	if big && (wk == 9 || wk == 10) {
		wk = 0
	}
	win := "none"
	switch wk {
	case 1:
		set(ptr(inside()), nil)
		win = "from-inside"
	case 2:
		set(ptr(before()), nil)
		win = "from-before"
	case 3:
		set(nil, ptr(inside()))
		win = "to-inside"
	case 4:
		set(nil, ptr(after()))
		win = "to-after"
	case 5:
		a, b := inside(), inside()
		if b.Before(a) {
			a, b = b, a
		}
		set(&a, &b)
		win = "inside"
	case 6:
		set(ptr(before()), ptr(after()))
		win = "covering"
	case 7:
		set(ptr(before()), ptr(inside()))
		win = "overlap-start"
	case 8:
		set(ptr(inside()), ptr(after()))
		win = "overlap-end"
	case 9:
		switch r.Intn(4) {
		case 0:
			b := before()
			set(ptr(day(b, -r.Range(0, 200))), &b)
			win = "outside-before"
		case 1:
			a := after()
			set(&a, ptr(day(a, r.Range(0, 200))))
			win = "outside-after"
		case 2:
			set(ptr(after()), nil)
			win = "from-after"
		default:
			set(nil, ptr(before()))
			win = "to-before"
		}
	case 10:
		a := inside()
		set(&a, ptr(day(a, -r.Range(1, 1+span))))
		win = "inverted"
	case 11:
		a := inside()
		if r.Chance(1, 3) {
			a = Pick(r, []time.Time{jlo, jhi, c17StartOf(a, flag), day(c17StartOf(a, flag), -1)})
		}
		set(&a, &a)
		win = "one-day"
	case 12:
		a := inside()
		set(&a, ptr(day(a, r.Range(0, 3)*c17intervalDays[flag]+r.Range(0, 6))))
		win = "short"
	case 13:
		set(ptr(c17Date(2020, 1, 1)), ptr(c17Date(2020, 12, 31)))
		win = "year-2020"
	}
	// the span of the partition: the window clipped to the journal's period
	eff := func() (time.Time, time.Time) {
		s, e := jlo, jhi
		if from != nil && from.After(s) {
			s = *from
		}
		if to != nil && to.Before(e) {
			e = *to
		}
		return s, e
	}
	s, e := eff()
	p := c17CountPeriods(s, e, flag)
	force := 0
	if big && p > maxCols { // keep the window (and with it the accounts of the report): --last bounds the number of columns
		force = r.Range(1, maxCols)
	}
	for limit, round := maxCols, 0; force == 0 && p > maxCols && round < 40; limit, round = limit/2+1, round+1 {
		from = ptr(day(e, -r.Range(0, limit-1)*c17intervalDays[flag]))
		s, e = eff()
		p = c17CountPeriods(s, e, flag)
		if round == 0 {
			win += "+narrowed"
		}
	}
	var args []string
	if from != nil {
		args = append(args, "--from", from.Format("2006-01-02"))
	}
	if to != nil {
		args = append(args, "--to", to.Format("2006-01-02"))
	}
	if flag != "" {
		args = append(args, flag)
		if r.Chance(1, 25) { // --once is not in the group of mutually exclusive interval flags and wins over any of them
			if flag == "--once" {
				args = append(args, Pick(r, c17intervalFlags[2:]))
			} else {
				args = append(args, "--once")
				flag, p = "--once", 1
			}
		}
	}
	last, lastSig := 0, "absent"
	switch lastOpt {
	case 1:
		if r.Chance(1, 4) {
			last = -1
		}
		lastSig = "<=0"
	case 2, 3, 4:
		last = lastOpt - 1
		lastSig = itoa(last)
	case 5, 6, 7:
		last = p + lastOpt - 6
		if last < 0 {
			last = 0
		}
		lastSig = []string{"P-1", "P", "P+1"}[lastOpt-5]
	case 8:
		last, lastSig = 12, "12"
	case 9:
		last, lastSig = 1000, "1000"
	}
	if force > 0 {
		lastOpt, last, lastSig = 2, force, "forced"
	}
	if lastOpt != 0 {
		args = append(args, "--last", itoa(last))
	}
	cols := p
	if last > 0 && last < p && flag != "" && flag != "--once" {
		cols = last
	}
	rel := "-"
	switch {
	case lastOpt == 0 || last <= 0:
	case last < p:
		rel = "lt"
	case last == p:
		rel = "eq"
	default:
		rel = "gt"
	}
	return args, fmt.Sprintf("ivl%s/win:%s/last:%s(%s)/P%s", flag, win, lastSig, rel, bucket(p)), cols
}

var c17journalAccs = []string{"Assets:Bank", "Assets:Bär:Konto", "Assets:Portfolio:日本", "Liabilities:Card", "Expenses:Food", "Expenses:Miete:Zürich", "Income:Salary", "Equity:Equity", "Expenses:A:B:C:D", "Assets:X"}

// genC17Journal generates a small journal and a flag vector of `knut balance`. The interval flag and the --last option are
// stratified over the case number (every pair within 70 consecutive cases), everything else is drawn.
func genC17Journal(r *RNG, idx int, maxCols int) (string, []string, int, bool, string) {
	accs := c17journalAccs
	comms := []string{"CHF", "USD", "AAPL", "ÖL"}
	var b strings.Builder
	for _, a := range accs {
		fmt.Fprintf(&b, "2019-12-31 open %s\n", a)
	}
	b.WriteString("\n")
	digits := Pick(r, []int{0, 0, 2, 2, 1, 3, 4, 8, -1, -2})
	k := r.Chance(2, 5)
	n := r.Range(1, 14)
	ncomm := r.Range(1, 3)
	// the days the transactions are drawn from: the year 2020, about five months, a few days, one day, two to three years
	lo := c17Date(2020, 1, 1)
	var days int
	switch r.Intn(9) {
	case 0, 1, 2:
		days = 336
	case 3, 4:
		lo = lo.AddDate(0, r.Intn(8), r.Intn(28))
		days = r.Range(120, 170)
	case 5:
		lo = lo.AddDate(0, r.Intn(12), r.Intn(28))
		days = r.Range(1, 10)
	case 6:
		lo = lo.AddDate(0, r.Intn(12), r.Intn(28))
		days = 0
	default:
		lo = lo.AddDate(0, r.Intn(12), r.Intn(28))
		days = r.Range(500, 1090)
	}
	var jlo, jhi time.Time
	note := func(d time.Time, tx bool) {
		if tx && (jlo.IsZero() || d.Before(jlo)) {
			jlo = d
		}
		if jhi.IsZero() || d.After(jhi) {
			jhi = d
		}
	}
	for i := 0; i < n; i++ {
		d := lo.AddDate(0, 0, r.Intn(days+1))
		a1, a2 := Pick(r, accs), Pick(r, accs)
		if a1 == a2 {
			continue
		}
		lit, _ := c17decimal(r, digits, k)
		lit = c17NormDec(lit)
		note(d, true)
		fmt.Fprintf(&b, "%s \"t%d\"\n%s %s %s %s\n\n", d.Format("2006-01-02"), i, a1, a2, lit, comms[r.Intn(ncomm)])
	}
	valued := r.Chance(2, 5)
	if valued {
		for _, c := range comms[1:ncomm] {
			fmt.Fprintf(&b, "2019-12-31 price %s %d.%02d CHF\n", c, r.Range(0, 300), r.Range(1, 99))
			if r.Chance(1, 3) { // a later price: inside the journal's period or extending it
				d := lo.AddDate(0, 0, r.Intn(days+120))
				note(d, false)
				fmt.Fprintf(&b, "%s price %s %d.%02d CHF\n", d.Format("2006-01-02"), c, r.Range(0, 300), r.Range(1, 99))
			}
		}
	}
	if jlo.IsZero() { // no transaction at all: the flags are drawn around the intended days
		jlo, jhi = lo, lo.AddDate(0, 0, days)
	}
	if jhi.Before(jlo) {
		jhi = jlo
	}
	args := []string{"--color=false", "--digits", itoa(digits)}
	if k {
		args = append(args, "-k")
	}
	if maxCols > 40 && !r.Chance(1, 8) {
		maxCols = 40
	}
	pargs, sig, _ := genC17PeriodFlags(r, jlo, jhi, idx%len(c17intervalFlags), (idx/len(c17intervalFlags))%c17nLastOpts, maxCols, false)
	args = append(args, pargs...)
	if r.Chance(2, 3) {
		args = append(args, Pick(r, []string{"-a", "--sort"}))
	}
	if r.Chance(1, 3) {
		args = append(args, Pick(r, []string{"--diff", "-d"}))
		sig += "/diff"
	}
	if r.Chance(1, 4) {
		args = append(args, "--close=false")
	}
	if r.Chance(1, 5) {
		args = append(args, "-m", Pick(r, []string{"2", "1", "3", "1,Expenses", "2,^Assets"}))
	}
	srx := []string{"Assets:Bank", "^Assets", "Expenses", "Konto$", "Liabilities|Income", "Nothing", "."}
	switch {
	case valued && r.Chance(2, 3):
		// valued, with some accounts broken down by commodity (-s): rows with and without a commodity cell share one table
		// (seeded change C17-d left the rows of the other accounts and the total rows one cell short)
		args = append(args, "-v", "CHF", "-s", Pick(r, srx))
		if r.Chance(1, 4) {
			args = append(args, "-s", Pick(r, []string{"Equity", "Food"}))
		}
		sig += "/v+s"
	case valued:
		// valued without -s: the table has no commodity column
		args = append(args, "-v", "CHF")
		sig += "/v"
	case r.Chance(1, 8):
		args = append(args, "-s", Pick(r, srx))
		sig += "/s"
	}
	if r.Chance(1, 10) {
		args = append(args, "--account", Pick(r, []string{"Assets", "Expenses|Income", "Bank$", "Nothing", "^E"}))
		sig += "/account"
	}
	if r.Chance(1, 12) {
		args = append(args, "--commodity", Pick(r, []string{"CHF", "USD|AAPL", "Nothing"}))
		sig += "/commodity"
	}
	return b.String(), args, digits, k, sig
}

func c17RunKnut(bin string, timeout time.Duration, args ...string) (string, string, error) {
	cmd := exec.Command(bin, args...)
	var so, se bytes.Buffer
	cmd.Stdout, cmd.Stderr = &so, &se
	if err := cmd.Start(); err != nil {
		return "", "", err
	}
	done := make(chan error, 1)
	go func() { done <- cmd.Wait() }()
	select {
	case err := <-done:
		return so.String(), se.String(), err
	case <-time.After(timeout):
		cmd.Process.Kill()
		return so.String(), se.String(), fmt.Errorf("timeout")
	}
}

// c17LineKind classifies a line of the text table: separator row, empty row or a row with content.
func c17LineKind(l string) string {
	if strings.Trim(l, "+-") == "" {
		return "S"
	}
	if strings.Trim(l, "| ") == "" {
		return "E"
	}
	return "R"
}

// c17CsvFields splits one CSV line as knut writes it (quotes doubled inside quoted fields; no line breaks in balance reports).
func c17CsvFields(line string) []string {
	var fs []string
	var cur strings.Builder
	inq := false
	rs := []rune(line)
	for i := 0; i < len(rs); i++ {
		ch := rs[i]
		switch {
		case inq && ch == '"' && i+1 < len(rs) && rs[i+1] == '"':
			cur.WriteRune('"')
			i++
		case ch == '"':
			inq = !inq
		case ch == ',' && !inq:
			fs = append(fs, cur.String())
			cur.Reset()
		default:
			cur.WriteRune(ch)
		}
	}
	return append(fs, cur.String())
}

// c17ReportTable reconstructs the table of a balance report from its CSV records (exact amounts) and the row kinds / indents
// of its text. A nil table comes with the statement that failed.
func c17ReportTable(outT, outC string, k bool, digits int) (*c17table, int, int, string) {
	lines := strings.Split(outT, "\n")
	csvLines := strings.Split(strings.TrimRight(outC, "\n"), "\n")
	var recs [][]string
	for _, l := range csvLines {
		recs = append(recs, c17CsvFields(l))
	}
	if len(recs) == 0 || len(lines) < 3 {
		return nil, 0, 0, "balance output has a header"
	}
	w := len(recs[0])
	// the column of commodities is there unless the report is valued and no account is broken down (-v without -s)
	hasComm := w >= 2 && recs[0][1] == "Comm"
	tb := &c17table{Groups: []int{1, 1, w - 2}, Thousands: k, Digits: digits}
	if !hasComm {
		tb.Groups = []int{1, w - 1}
	}
	ri := 0
	okShape := true
	for _, l := range lines[:len(lines)-2] {
		switch c17LineKind(l) {
		case "S":
			tb.Ops = append(tb.Ops, c17op{Kind: "S"})
		case "E":
			tb.Ops = append(tb.Ops, c17op{Kind: "E"})
		default:
			if ri >= len(recs) || len(recs[ri]) != w {
				okShape = false
				break
			}
			rec := recs[ri]
			tb.Ops = append(tb.Ops, c17op{Kind: "R"})
			for j, f := range rec {
				switch {
				case ri == 0:
					tb.Ops = append(tb.Ops, c17op{Kind: "t", Align: 2, Text: f})
				case f == "":
					tb.Ops = append(tb.Ops, c17op{Kind: "e"})
				case j == 0:
					body := strings.TrimPrefix(l, "| ")
					ind := len(body) - len(strings.TrimLeft(body, " "))
					tb.Ops = append(tb.Ops, c17op{Kind: "i", Indent: ind, Text: f})
				case j == 1 && hasComm:
					tb.Ops = append(tb.Ops, c17op{Kind: "t", Align: 0, Text: f})
				default:
					if _, err := decimal.NewFromString(f); err != nil {
						okShape = false
					}
					tb.Ops = append(tb.Ops, c17op{Kind: "d", Dec: f})
				}
			}
			ri++
		}
	}
	if !okShape || ri != len(recs) {
		return nil, 0, 0, "csv records correspond one-to-one to the non-blank text rows"
	}
	return tb, len(recs), w, ""
}

// c17LinesMonitor evaluates the statements of the property that need no table on a report whose table could not be reconstructed
// (`why` is the statement of the reconstruction that failed): the text is lines plus a final blank line, the lines have one width,
// and as many separator columns run through all of them as the CSV header has fields. The reconstruction's own failure is reported after it.
func (c *Ctx) c17LinesMonitor(bt *Batch, stream string, i int, in map[string]any, outT, outC, why string) {
	ncols := len(c17CsvFields(strings.SplitN(outC, "\n", 2)[0]))
	bt.Add(func(mon string) {
		c.Monitor(stream, i, "rectLines and alignedOK of the report's lines", in, mon == "ok", mon+"\n"+clip(outT)+"\n"+clip(outC))
		c.Monitor(stream, i, why, in, false, clip(outT)+"\n"+clip(outC))
	}, "c17lines", itoa(ncols), Hex(outT))
}

// c17BalanceJudge judges one report of the binary given as text and as CSV: the table is rebuilt from the CSV records (labels and
// exact amounts, in the CSV's row order) and the text's row kinds and indents; the text must be what the model renders for it and
// satisfy the property predicate with the CSV amounts, row by row and column by column (positional, not by label).
func (c *Ctx) c17BalanceJudge(bt *Batch, stream string, i int, in map[string]any, outT, outC string, k bool, digits int, sig string) {
	tb, nrecs, w, why := c17ReportTable(outT, outC, k, digits)
	if tb == nil {
		c.c17LinesMonitor(bt, stream, i, in, outT, outC, why)
		return
	}
	in["table"] = tb.input()
	head := []string{c17BoolField(k), itoa(digits), tb.groupsField()}
	ops := tb.fields()
	c.Class(fmt.Sprintf(stream+"/w%d/k%v/d%s/rows%s", w, k, c17DigitsClass(digits), bucket(nrecs)))
	c.Class(stream + "/" + sig)
	// the real text is what the model renders for the table the CSV describes …
	bt.Add(func(model string) { c.Compare(stream, i, "c17text("+stream+")", in, "ok "+Hex(outT), model) },
		append(append([]string{"c17text"}, head...), ops...)...)
	// … and satisfies the property predicate with the CSV amounts as the underlying amounts
	bt.Add(func(mon string) {
		switch {
		case mon == "ok":
			c.Monitor(stream, i, "textOK(csv amounts)", in, true, "")
		case strings.HasPrefix(mon, "inexact") && tb.knownDoubleRounding():
			c.MonitorKnown(stream, i, "textOK(exact quotient)", in, mon+"\n"+outT+"\n"+outC, "thousands-with-more-than-13-decimals")
		default:
			c.Monitor(stream, i, "textOK(csv amounts)", in, false, mon+"\n"+outT+"\n"+outC)
		}
	}, append(append([]string{"c17mon"}, append(head, Hex(outT))...), ops...)...)
}

func runC17Balance(c *Ctx, bt *Batch) {
	if c.KnutBin == "" {
		c.Notes = append(c.Notes, "no knut binary: balance stream skipped")
		return
	}
	n := c.N(560, 7000)
	maxCols := c.N(130, 400) // widest table drawn (--days over a long span is narrowed to this many columns)
	dir := filepath.Join(c.WorkDir, "c17")
	os.MkdirAll(dir, 0o755)
	ran := 0
	for i := 0; i < n; i++ {
		if !c.Want("balance", i) {
			continue
		}
		r := c.Rng("balance", i)
		text, args, digits, k, sig := genC17Journal(r, i, maxCols)
		if c.Replay && c.ReplayInput != nil {
			if j, ok := c.ReplayInput["journal"].(string); ok {
				text = j
			}
		}
		path := filepath.Join(dir, fmt.Sprintf("j%d.knut", i))
		if err := os.WriteFile(path, []byte(text), 0o644); err != nil {
			fatalf("%v", err)
		}
		in := map[string]any{"journal": text, "args": args}
		full := append(append([]string{"balance"}, args...), path)
		outT, errT, e1 := c17RunKnut(c.KnutBin, 20*time.Second, full...)
		outC, errC, e2 := c17RunKnut(c.KnutBin, 20*time.Second, append(append([]string{"balance", "--csv"}, args...), path)...)
		os.Remove(path)
		if e1 != nil || e2 != nil {
			// rejected journal (e.g. an unbalanced amount format): both renderings must fail alike
			c.Tag("balance-rejected")
			c.Monitor("balance", i, "text and csv runs agree on failure", in, (e1 != nil) == (e2 != nil), errT+" / "+errC)
			continue
		}
		c.Evals++
		ran++
		c.c17BalanceJudge(bt, "balance", i, in, outT, outC, k, digits, sig)
		if ran <= 1 {
			c.Sample(map[string]any{"stream": "balance", "args": args, "text": outT, "csv": outC})
		}
	}
	bt.Flush()
	c.Extra["balance_runs"] = ran
}

// ---------------------------------------------------------------- subprocess: sibling accounts that collide under a folding

// c17collideBases are the words the colliding sibling families are derived from: ASCII, Latin-1, sharp s, dotted/dotless i, the
// digraph letters with a title case, compatibility letters whose lower case is an ordinary letter (Kelvin, Angstrom, Ohm, micro),
// long s, full-width forms, Greek with a final sigma, Cyrillic, ligatures, names with leading/trailing digits, numbers.
var c17collideBases = []string{"UBS", "eBay", "Ubs", "Ärzte", "Öl", "Straße", "STRASSE", "Masse", "Istanbul", "İstanbul", "ılık", "ǅungla", "ǈubav",
	"\u212Aelvin", "Kelvin", "\u212Bngström", "Ångström", "\u2126hm", "Ωmega", "\u00B5m", "\u03BCm", "ſtraſse", "ＡＢＣ", "ABC", "ａ1", "ΟΔΟΣ", "οδος", "Σίσυφος",
	"Банк", "банк", "ﬁnanz", "Konto1", "konto01", "1A", "01a", "2020", "K2", "k٢", "X", "x", "日本", "Zürich", "ÉCOLE", "école", "ǲ", "ẞ"}

func c17SegmentOK(s string) bool {
	if s == "" || !utf8.ValidString(s) {
		return false
	}
	for _, ch := range s {
		if !unicode.IsLetter(ch) && !unicode.IsDigit(ch) {
			return false
		}
	}
	return true
}

// c17FoldVariant rewrites a segment into one that some notion of "the same name" identifies with it: per rune upper/lower/title case,
// the next rune of its Unicode simple-folding orbit (k → K → Kelvin sign → k), ASCII ↔ full-width form, ASCII digit ↔ Arabic-Indic digit;
// on the whole word ß ↔ ss/SS/ẞ, a leading zero before a leading digit, a trailing digit added or a trailing zero inserted.
// mode 0 uses only the per-rune case mappings (variants that collide under ToLower/ToUpper), mode 1 everything.
func c17FoldVariant(r *RNG, s string, mode int) string {
	var b strings.Builder
	for _, ch := range s {
		out := ch
		n := 4
		if mode == 1 {
			n = 8
		}
		switch r.Intn(n) {
		case 0:
			out = unicode.ToUpper(ch)
		case 1:
			out = unicode.ToLower(ch)
		case 2:
			if r.Chance(1, 3) {
				out = unicode.ToTitle(ch)
			}
		case 3:
		case 4:
			out = unicode.SimpleFold(ch)
		case 5:
			switch {
			case ch > 0x20 && ch < 0x7f:
				out = ch + 0xFEE0
			case ch > 0xFF00 && ch < 0xFF5F:
				out = ch - 0xFEE0
			}
		case 6:
			switch {
			case ch >= '0' && ch <= '9':
				out = 0x660 + (ch - '0')
			case ch >= 0x660 && ch <= 0x669:
				out = '0' + (ch - 0x660)
			}
		}
		if !unicode.IsLetter(out) && !unicode.IsDigit(out) {
			out = ch
		}
		b.WriteRune(out)
	}
	v := b.String()
	if mode == 1 {
		switch r.Intn(8) {
		case 0:
			v = strings.ReplaceAll(v, "ß", Pick(r, []string{"ss", "SS", "ẞ", "ſs"}))
		case 1:
			v = strings.Replace(strings.Replace(v, "ss", "ß", 1), "SS", "ẞ", 1)
		case 2:
			if rs := []rune(v); unicode.IsDigit(rs[0]) {
				v = "0" + v
			}
		case 3:
			if rs := []rune(v); unicode.IsDigit(rs[len(rs)-1]) {
				v = string(rs[:len(rs)-1]) + "0" + string(rs[len(rs)-1:])
			} else {
				v += itoa(r.Intn(10))
			}
		}
	}
	if !c17SegmentOK(v) {
		return s
	}
	return v
}

// genC17CollideJournal generates a journal whose account tree has several families of sibling accounts (same parent, level 2 to 5,
// leaves or inner nodes with children of their own, several families under one parent now and then) with names that differ as written
// and are the same under a folding, booked with equal, opposite or different amounts in one or two commodities, and a flag vector of
// `knut balance` (default weighted order, -a/--sort, -v with prices, -s, -m, --diff, the period flags of the balance stream).
func genC17CollideJournal(r *RNG) (string, []string, int, bool, string) {
	types := []string{"Assets", "Liabilities", "Expenses", "Income", "Equity"}
	mids := []string{"Bank", "Bär", "日本", "Konto", "A", "bank", "Shopping"}
	comms := []string{"CHF", "USD", "ÖL"}
	digits := Pick(r, []int{0, 2, 2, 1, 3, 8, -1})
	k := r.Chance(1, 4)
	ncomm := r.Range(1, 3)
	type booking struct {
		acc, lit, comm string
	}
	var accs []string
	seen := map[string]bool{}
	var books []booking
	add := func(a string) bool {
		if seen[a] {
			return false
		}
		seen[a] = true
		accs = append(accs, a)
		return true
	}
	add("Equity:Equity")
	nsites := r.Range(2, 6)
	sigFam := map[string]bool{}
	var parents []string
	for s := 0; s < nsites; s++ {
		var parent string
		if len(parents) > 0 && r.Chance(1, 4) {
			parent = Pick(r, parents) // a second family under the same parent
		} else {
			parent = Pick(r, types)
			for d := r.Intn(3); d > 0; d-- {
				parent += ":" + Pick(r, mids)
			}
			parents = append(parents, parent)
		}
		base := Pick(r, c17collideBases)
		mode := 0
		if r.Chance(1, 3) {
			mode = 1
		}
		fam := []string{base}
		for t, want := 0, r.Range(2, 4); t < 12 && len(fam) < want; t++ {
			v := c17FoldVariant(r, base, mode)
			dup := false
			for _, f := range fam {
				dup = dup || f == v
			}
			if !dup {
				fam = append(fam, v)
			}
		}
		if len(fam) < 2 {
			sigFam["single"] = true
		}
		// amounts of the family: equal (equal weights under -v), equal up to sign (weights are absolute), or drawn one by one
		amtMode := r.Intn(3)
		lit0, _ := c17decimal(r, digits, k)
		lit0 = c17NormDec(lit0)
		comm0 := comms[r.Intn(ncomm)]
		inner := r.Chance(1, 3)
		sigFam[fmt.Sprintf("m%d/amt%d/inner%v/n%d", mode, amtMode, inner, len(fam))] = true
		for fi, f := range fam {
			lit, comm := lit0, comm0
			switch amtMode {
			case 1:
				if fi%2 == 1 {
					if strings.HasPrefix(lit, "-") {
						lit = lit[1:]
					} else if d, err := decimal.NewFromString(lit); err == nil && !d.IsZero() {
						lit = "-" + lit
					}
				}
			case 2:
				lit, _ = c17decimal(r, digits, k)
				lit = c17NormDec(lit)
				comm = comms[r.Intn(ncomm)]
			}
			node := parent + ":" + f
			leaves := []string{node}
			if inner {
				leaves = nil
				for _, ch := range []string{"Konto", "Depot", Pick(r, c17collideBases)}[:r.Range(1, 3)] {
					leaves = append(leaves, node+":"+ch)
				}
				if r.Chance(1, 3) {
					leaves = append(leaves, node)
				}
			}
			for li, a := range leaves {
				add(a)
				if li > 0 && amtMode != 2 && r.Chance(1, 2) {
					continue // opened, not booked
				}
				books = append(books, booking{a, lit, comm})
			}
		}
	}
	for _, a := range []string{"Assets:Bank", "Expenses:Food", "Income:Salary", "Liabilities:Card"}[:r.Intn(5)] {
		if add(a) {
			lit, _ := c17decimal(r, digits, k)
			books = append(books, booking{a, c17NormDec(lit), comms[r.Intn(ncomm)]})
		}
	}
	var b strings.Builder
	for _, a := range accs {
		fmt.Fprintf(&b, "2019-12-31 open %s\n", a)
	}
	b.WriteString("\n")
	lo := c17Date(2020, 1, 1)
	days := Pick(r, []int{0, 5, 120, 335, 335})
	jlo, jhi := time.Time{}, time.Time{}
	order := make([]int, len(books))
	for j := range order {
		order[j] = j
	}
	for j := len(order) - 1; j > 0; j-- {
		o := r.Intn(j + 1)
		order[j], order[o] = order[o], order[j]
	}
	for _, j := range order {
		bk := books[j]
		d := lo.AddDate(0, 0, r.Intn(days+1))
		if jlo.IsZero() || d.Before(jlo) {
			jlo = d
		}
		if jhi.IsZero() || d.After(jhi) {
			jhi = d
		}
		fmt.Fprintf(&b, "%s \"t%d\"\nEquity:Equity %s %s %s\n\n", d.Format("2006-01-02"), j, bk.acc, bk.lit, bk.comm)
	}
	if jlo.IsZero() {
		jlo, jhi = lo, lo
	}
	valued := r.Chance(1, 2)
	if valued {
		for _, c := range comms[1:ncomm] {
			fmt.Fprintf(&b, "2019-12-31 price %s %d.%02d CHF\n", c, r.Range(0, 300), r.Range(1, 99))
		}
	}
	args := []string{"--color=false", "--digits", itoa(digits)}
	if k {
		args = append(args, "-k")
	}
	sig := ""
	if r.Chance(3, 4) {
		pargs, psig, _ := genC17PeriodFlags(r, jlo, jhi, -1, -1, 12, true)
		args = append(args, pargs...)
		sig = psig
	} else {
		sig = "noperiod"
	}
	switch r.Intn(3) {
	case 0:
		args = append(args, Pick(r, []string{"-a", "--sort"}))
		sig += "/alpha"
	default:
		sig += "/weighted"
	}
	if valued {
		args = append(args, "-v", "CHF")
		sig += "/v"
		if r.Chance(1, 3) {
			args = append(args, "-s", Pick(r, []string{".", "^Assets", "Konto$", "Expenses"}))
			sig += "+s"
		}
	} else if r.Chance(1, 8) {
		args = append(args, "-s", ".")
		sig += "/s"
	}
	if r.Chance(1, 4) {
		args = append(args, "-m", Pick(r, []string{"1", "2", "3", "4", "2,^Assets", "3,Expenses"}))
		sig += "/m"
	}
	if r.Chance(1, 4) {
		args = append(args, Pick(r, []string{"--diff", "-d"}))
		sig += "/diff"
	}
	if r.Chance(1, 5) {
		args = append(args, "--close=false")
	}
	var fams []string
	for f := range sigFam {
		fams = append(fams, f)
	}
	sort.Strings(fams)
	return b.String(), args, digits, k, sig + "|" + strings.Join(fams, ",")
}

// runC17Collide is the stream `collide`: `knut balance` as text, as --csv and as text once more on journals with sibling accounts whose
// names collide under a folding. The order of the rows must be a function of the journal: the two text runs give the same bytes, and
// the CSV carries every label and amount in the row and column position of the text (c17BalanceJudge: the table is rebuilt from the
// CSV's rows in the CSV's order and the text must show exactly these cells in these positions).
func runC17Collide(c *Ctx, bt *Batch) {
	if c.KnutBin == "" {
		return
	}
	n := c.N(110, 3000)
	dir := filepath.Join(c.WorkDir, "c17")
	os.MkdirAll(dir, 0o755)
	ran := 0
	for i := 0; i < n; i++ {
		if !c.Want("collide", i) {
			continue
		}
		r := c.Rng("collide", i)
		text, args, digits, k, sig := genC17CollideJournal(r)
		if c.Replay && c.ReplayInput != nil {
			if j, ok := c.ReplayInput["journal"].(string); ok {
				text = j
			}
		}
		path := filepath.Join(dir, fmt.Sprintf("s%d.knut", i))
		if err := os.WriteFile(path, []byte(text), 0o644); err != nil {
			fatalf("%v", err)
		}
		in := map[string]any{"journal": text, "args": args}
		full := append(append([]string{"balance"}, args...), path)
		outT, errT, e1 := c17RunKnut(c.KnutBin, 20*time.Second, full...)
		outC, errC, e2 := c17RunKnut(c.KnutBin, 20*time.Second, append(append([]string{"balance", "--csv"}, args...), path)...)
		outT2, errT2, e3 := c17RunKnut(c.KnutBin, 20*time.Second, full...)
		os.Remove(path)
		if e1 != nil || e2 != nil || e3 != nil {
			c.Tag("collide-rejected")
			c.Monitor("collide", i, "text and csv runs agree on failure", in, (e1 != nil) == (e2 != nil) && (e1 != nil) == (e3 != nil), errT+" / "+errC+" / "+errT2)
			continue
		}
		c.Evals++
		ran++
		c.Monitor("collide", i, "two text renderings of one journal have every row in the same position", in, outT == outT2, c17FirstDiff(outT, outT2)+"\n"+clip(outT)+"\n"+clip(outT2))
		c.c17BalanceJudge(bt, "collide", i, in, outT, outC, k, digits, sig)
		if ran <= 1 {
			c.Sample(map[string]any{"stream": "collide", "args": args, "journal": text, "text": outT, "csv": outC})
		}
	}
	bt.Flush()
	c.Extra["collide_runs"] = ran
}

// ---------------------------------------------------------------- subprocess: large reports through paced consumers

// c17pace describes how the consumer at the other end of knut's standard output takes the report.
type c17pace struct {
	Kind    string `json:"kind"`               // file | late | stall | slow | tiny | burst
	CSV     bool   `json:"csv,omitempty"`      // the --csv rendering is read this way (else the text rendering)
	Pipe    int    `json:"pipe,omitempty"`     // capacity of the pipe in bytes (0: the system's default, 64 KiB)
	StallAt int    `json:"stall_at"`           // the consumer stops reading once after this many bytes (0: before the first read) …
	Stall   int    `json:"stall_ms,omitempty"` // … for this long
	Chunk   int    `json:"chunk"`              // size of one read
	Pause   int    `json:"pause_ms,omitempty"` // pause after every `Every`-th read …
	Every   int    `json:"every,omitempty"`
	Budget  int    `json:"budget_ms,omitempty"` // … until the pauses add up to this much
	Reads   int    `json:"reads,omitempty"`     // after this many reads the rest is drained with large reads (0: never)
}

const c17SetPipeSize = 1031 // F_SETPIPE_SZ (Linux)

var c17pipeSizes = []int{0, 0, 4096, 4096, 8192, 16384, 65536, 1 << 20}

// genC17Pace draws a consumer schedule of the given kind; `size` is the length of the eagerly read output.
func genC17Pace(r *RNG, kind string, size int, long int) c17pace {
	p := c17pace{Kind: kind, Pipe: Pick(r, c17pipeSizes), Chunk: 65536}
	stall := func() int {
		switch r.Intn(8) {
		case 0, 1:
			return r.Range(5, 99) // short pauses
		case 2:
			return r.Range(500, long) // long ones (a consumer that is busy for seconds)
		}
		return r.Range(110, 480)
	}
	switch kind {
	case "file":
		p.Pipe = 0
	case "late": // a pager that starts reading late
		p.Stall = stall()
		p.Chunk = Pick(r, []int{4096, 65536, 1 << 20})
	case "stall": // a consumer that stops in the middle of the report
		p.StallAt = 1 + r.Intn(size+1)
		if r.Chance(1, 3) { // just around the buffer sizes in play
			p.StallAt = Pick(r, []int{4096, 8192, 65536, 65536 + 4096}) + r.Range(-2, 2)
		}
		p.Stall = stall()
		p.Chunk = Pick(r, []int{512, 4096, 65536})
	case "slow": // chunked reads with a pause after each
		p.Chunk = Pick(r, []int{256, 512, 1024, 4096, 8192, 16384})
		p.Pause = r.Range(3, 140)
		p.Every = 1
		p.Budget = r.Range(300, 900)
		if r.Chance(1, 3) {
			p.Stall = r.Range(10, 200)
		}
	case "tiny": // very small reads
		p.Chunk = Pick(r, []int{1, 1, 2, 3, 7, 16, 61})
		p.Reads = r.Range(2000, 60000)
		if r.Chance(1, 2) {
			p.Pause = r.Range(1, 30)
			p.Every = Pick(r, []int{64, 256, 1024, 4096})
			p.Budget = r.Range(200, 700)
		}
		if r.Chance(1, 3) {
			p.Stall = stall()
		}
	case "burst": // bursts of reads separated by long pauses
		p.Chunk = Pick(r, []int{1024, 4096, 16384, 65536})
		p.Pause = r.Range(60, 260)
		p.Every = r.Range(1, 8)
		p.Budget = r.Range(400, 1000)
	}
	return p
}

func c17Consume(f *os.File, p c17pace) []byte {
	var out []byte
	nap := func(ms int) { time.Sleep(time.Duration(ms) * time.Millisecond) }
	stalled := false
	if p.StallAt == 0 && p.Stall > 0 {
		nap(p.Stall)
		stalled = true
	}
	chunk := p.Chunk
	if chunk <= 0 {
		chunk = 65536
	}
	buf := make([]byte, chunk)
	reads, paused := 0, 0
	for {
		n, err := f.Read(buf)
		out = append(out, buf[:n]...)
		if err != nil {
			return out
		}
		reads++
		if !stalled && p.Stall > 0 && len(out) >= p.StallAt {
			stalled = true
			nap(p.Stall)
		}
		if p.Pause > 0 && p.Every > 0 && reads%p.Every == 0 && paused+p.Pause <= p.Budget {
			paused += p.Pause
			nap(p.Pause)
		}
		if p.Reads > 0 && reads == p.Reads && len(buf) < 65536 {
			buf = make([]byte, 65536)
		}
	}
}

// c17RunPaced runs knut with its standard output connected to the consumer `p` describes.
func c17RunPaced(bin string, timeout time.Duration, p c17pace, scratch string, args ...string) (string, string, error) {
	cmd := exec.Command(bin, args...)
	var se bytes.Buffer
	cmd.Stderr = &se
	wait := func() error {
		done := make(chan error, 1)
		go func() { done <- cmd.Wait() }()
		select {
		case err := <-done:
			return err
		case <-time.After(timeout):
			cmd.Process.Kill()
			<-done
			return fmt.Errorf("timeout")
		}
	}
	if p.Kind == "file" {
		f, err := os.Create(scratch)
		if err != nil {
			return "", "", err
		}
		defer os.Remove(scratch)
		cmd.Stdout = f
		if err := cmd.Start(); err != nil {
			f.Close()
			return "", "", err
		}
		err = wait()
		f.Close()
		b, _ := os.ReadFile(scratch)
		return string(b), se.String(), err
	}
	pr, pw, err := os.Pipe()
	if err != nil {
		return "", "", err
	}
	if p.Pipe > 0 {
		syscall.Syscall(syscall.SYS_FCNTL, pw.Fd(), c17SetPipeSize, uintptr(p.Pipe))
	}
	cmd.Stdout = pw
	if err := cmd.Start(); err != nil {
		pr.Close()
		pw.Close()
		return "", "", err
	}
	pw.Close()
	outc := make(chan []byte, 1)
	go func() { outc <- c17Consume(pr, p) }()
	err = wait()
	out := <-outc
	pr.Close()
	return string(out), se.String(), err
}

var c17bigSegs = []string{"Bank", "Konto", "Depot", "Bär", "Zürich", "Miete", "Food", "Reise", "日本", "口座", "Ελλάδα", "счёт", "Portfolio", "Cash", "Salary", "Tax", "Übrige", "Naïve", "X", "Versicherungspolicen"}

// genC17BigJournal generates a journal with `leaves` booked accounts (one report row or more each) and the flags of a balance report.
func genC17BigJournal(r *RNG, leaves int) (string, []string, int, bool) {
	tops := []string{"Assets", "Liabilities", "Expenses", "Income"}
	comms := []string{"CHF", "USD", "AAPL", "ÖL"}
	digits := Pick(r, []int{0, 0, 2, 2, 1, 3, 4, 8, -1, -2})
	k := r.Chance(2, 5)
	ncomm := r.Range(1, 3)
	perGroup := r.Range(3, 40)
	depth := r.Range(0, 3) // further levels between the group and the leaf
	pad := Pick(r, []int{1, 3, 4, 6})
	accs := make([]string, 0, leaves)
	jlo, jhi := c17Date(2020, 12, 31), c17Date(2020, 1, 1)
	for i := 0; i < leaves; i++ {
		g := i / perGroup
		a := tops[g%len(tops)] + ":" + c17bigSegs[(g/len(tops))%len(c17bigSegs)] + itoa(g)
		for d := 0; d < depth; d++ {
			if (i+d)%3 != 0 {
				a += ":" + c17bigSegs[(i/3+7*d)%len(c17bigSegs)]
			}
		}
		a += ":" + Pick(r, c17bigSegs) + fmt.Sprintf("%0*d", pad, i)
		accs = append(accs, a)
	}
	var b strings.Builder
	b.WriteString("2019-12-31 open Equity:Equity\n")
	for _, a := range accs {
		fmt.Fprintf(&b, "2019-12-31 open %s\n", a)
	}
	b.WriteString("\n")
	for i, a := range accs {
		nt := 1
		if r.Chance(1, 6) {
			nt = r.Range(2, 3)
		}
		for t := 0; t < nt; t++ {
			d := time.Date(2020, time.Month(r.Range(1, 12)), r.Range(1, 28), 0, 0, 0, 0, time.UTC)
			if d.Before(jlo) {
				jlo = d
			}
			if d.After(jhi) {
				jhi = d
			}
			var lit string
			if r.Chance(1, 3) {
				lit, _ = c17decimal(r, digits, k)
			} else {
				lit = fmt.Sprintf("%d.%02d", r.Intn(2000000), r.Intn(100))
				if r.Chance(1, 4) {
					lit = "-" + lit
				}
			}
			lit = c17NormDec(lit)
			other := "Equity:Equity"
			if r.Chance(1, 8) {
				other = accs[r.Intn(len(accs))]
			}
			if other == a {
				continue
			}
			fmt.Fprintf(&b, "%s \"t%d\"\n%s %s %s %s\n\n", d.Format("2006-01-02"), i, other, a, lit, comms[r.Intn(ncomm)])
		}
	}
	args := []string{"--color=false", "--digits", itoa(digits)}
	if k {
		args = append(args, "-k")
	}
	if r.Chance(1, 2) {
		args = append(args, "-a", "--from", "2020-01-01", "--to", "2020-12-31")
		switch r.Intn(6) {
		case 0:
			args = append(args, "--months")
		case 1:
			args = append(args, "--quarters")
		case 2:
			args = append(args, "--years")
		}
	} else {
		// any interval flag, window and --last (at most 12 columns; windows that leave accounts in the report)
		if jhi.Before(jlo) {
			jlo, jhi = c17Date(2020, 1, 1), c17Date(2020, 12, 31)
		}
		pargs, _, _ := genC17PeriodFlags(r, jlo, jhi, -1, -1, 12, true)
		args = append(args, pargs...)
		if r.Chance(2, 3) {
			args = append(args, "-a")
		}
	}
	if r.Chance(1, 4) {
		args = append(args, "--diff")
	}
	if r.Chance(1, 4) {
		args = append(args, "--close=false")
	}
	if r.Chance(1, 8) {
		args = append(args, "-m", Pick(r, []string{"3", "4"}))
	}
	if r.Chance(1, 4) {
		for _, c := range comms[1:ncomm] {
			fmt.Fprintf(&b, "2019-12-31 price %s %d.%02d CHF\n", c, r.Range(0, 300), r.Range(1, 99))
		}
		args = append(args, "-v", "CHF")
		if r.Chance(3, 4) {
			args = append(args, "-s", Pick(r, []string{"^Assets", "Expenses", "Konto", "Liabilities|Income", "Nothing", "."}))
		}
	}
	return b.String(), args, digits, k
}

func c17SizeClass(n int) string {
	switch {
	case n <= 4096:
		return "<=4K"
	case n <= 8192:
		return "4-8K"
	case n <= 65536:
		return "8-64K"
	case n <= 65536+4096:
		return "64-68K"
	case n <= 262144:
		return "68-256K"
	}
	return ">256K"
}

type c17pacedRun struct {
	pace     c17pace
	out, err string
	runErr   error
}

type c17pacedCase struct {
	index      int
	in         map[string]any
	args       []string
	path       string
	digits     int
	k          bool
	outT, outC string
	tb         *c17table
	runs       []*c17pacedRun
}

// runC17Paced is the stream "paced": reports far larger than the buffers between the renderer and the consumer (bufio's 4 KiB,
// the pipe's capacity) are read by consumers that start late, stop in the middle, read slowly, in tiny pieces or in bursts, or are a
// file. What arrives must be the model's rendering of the table the CSV describes and satisfy the Lean predicates (rectangular,
// aligned, every slot shows its cell with the CSV amount), whatever the pacing; the CSV read through a paced consumer must satisfy csvTextOK.
func runC17Paced(c *Ctx, bt *Batch) {
	if c.KnutBin == "" {
		return
	}
	n := c.N(10, 60)
	npace := c.N(3, 5)
	dir := filepath.Join(c.WorkDir, "c17p")
	os.MkdirAll(dir, 0o755)
	const watchdog = 90 * time.Second
	kinds := []string{"late", "stall", "slow", "tiny", "burst", "late", "stall", "file"}
	var cases []*c17pacedCase
	t0 := time.Now()
	// phase 1: journals, eagerly read text and CSV
	for i := 0; i < n; i++ {
		if !c.Want("paced", i) {
			continue
		}
		r := c.Rng("paced", i)
		var leaves int
		switch r.Intn(5) {
		case 0:
			leaves = r.Range(30, 150) // a few buffers
		case 1, 2:
			leaves = r.Range(150, 800)
		default:
			leaves = r.Range(800, c.N(2000, 3500))
		}
		text, args, digits, k := genC17BigJournal(r, leaves)
		if c.Replay && c.ReplayInput != nil {
			if j, ok := c.ReplayInput["journal"].(string); ok {
				text = j
			}
		}
		pc := &c17pacedCase{index: i, args: args, digits: digits, k: k, path: filepath.Join(dir, fmt.Sprintf("j%d.knut", i))}
		if err := os.WriteFile(pc.path, []byte(text), 0o644); err != nil {
			fatalf("%v", err)
		}
		pc.in = map[string]any{"journal": text, "args": args, "leaves": leaves}
		var errT, errC string
		var e1, e2 error
		pc.outT, errT, e1 = c17RunKnut(c.KnutBin, watchdog, append(append([]string{"balance"}, args...), pc.path)...)
		pc.outC, errC, e2 = c17RunKnut(c.KnutBin, watchdog, append(append([]string{"balance", "--csv"}, args...), pc.path)...)
		if e1 != nil || e2 != nil {
			c.Tag("paced-rejected")
			c.Monitor("paced", i, "text and csv runs agree on failure", pc.in, (e1 != nil) == (e2 != nil), errT+" / "+errC)
			os.Remove(pc.path)
			continue
		}
		c.Evals++
		var why string
		pc.tb, _, _, why = c17ReportTable(pc.outT, pc.outC, k, digits)
		if pc.tb == nil {
			c.c17LinesMonitor(bt, "paced", i, pc.in, pc.outT, pc.outC, why)
		}
		// the schedules: distinct kinds, one of them reads the CSV
		start := r.Intn(len(kinds))
		for j := 0; j < npace; j++ {
			p := genC17Pace(r, kinds[(start+j)%len(kinds)], len(pc.outT), c.N(1200, 2600))
			pc.runs = append(pc.runs, &c17pacedRun{pace: p})
		}
		pcsv := genC17Pace(r, Pick(r, []string{"late", "stall", "slow", "burst"}), len(pc.outC), c.N(1200, 2600))
		pcsv.CSV = true
		pc.runs = append(pc.runs, &c17pacedRun{pace: pcsv})
		cases = append(cases, pc)
	}
	t1 := time.Now()
	// phase 2: the paced runs (they mostly sleep: a few at a time)
	type job struct {
		pc *c17pacedCase
		j  int
	}
	jobs := make(chan job)
	var wg sync.WaitGroup
	for w := 0; w < 6; w++ {
		wg.Add(1)
		go func() {
			defer wg.Done()
			for jb := range jobs {
				run := jb.pc.runs[jb.j]
				full := []string{"balance"}
				if run.pace.CSV {
					full = append(full, "--csv")
				}
				full = append(append(full, jb.pc.args...), jb.pc.path)
				run.out, run.err, run.runErr = c17RunPaced(c.KnutBin, watchdog, run.pace, fmt.Sprintf("%s.out%d", jb.pc.path, jb.j), full...)
			}
		}()
	}
	for _, pc := range cases {
		for j := range pc.runs {
			jobs <- job{pc, j}
		}
	}
	close(jobs)
	wg.Wait()
	t2 := time.Now()
	// phase 3: verdicts, in case order
	nruns, blocked := 0, 0
	for _, pc := range cases {
		os.Remove(pc.path)
		pc := pc
		i := pc.index
		tb := pc.tb
		var head, ops []string
		if tb != nil {
			head = []string{c17BoolField(pc.k), itoa(pc.digits), tb.groupsField()}
			ops = tb.fields()
			c.Class(fmt.Sprintf("paced/w%d/k%v/d%s/text%s", tb.width(), pc.k, c17DigitsClass(pc.digits), c17SizeClass(len(pc.outT))))
		}
		inOf := func(p *c17pace) map[string]any {
			m := map[string]any{}
			for k, v := range pc.in {
				m[k] = v
			}
			if p != nil {
				m["pace"] = *p
			}
			return m
		}
		var same, sameCSV []*c17pacedRun // runs whose bytes are those of the eager run: one evaluation of the predicate covers them
		for _, run := range pc.runs {
			run := run
			nruns++
			p := run.pace
			if run.runErr != nil && run.runErr.Error() == "timeout" {
				c.Tag("paced-timeout")
				c.Notes = append(c.Notes, fmt.Sprintf("paced %d: watchdog expired for consumer %+v (not evaluated)", i, p))
				continue
			}
			if run.runErr != nil {
				c.Tag("paced-exit-nonzero")
			}
			capacity := p.Pipe
			if capacity == 0 {
				capacity = 65536
			}
			ref := pc.outT
			if p.CSV {
				ref = pc.outC
			}
			if p.Kind != "file" && len(ref) > capacity+4096 && (p.Stall >= 100 || p.Pause >= 100) {
				blocked++
			}
			c.Class(fmt.Sprintf("pace/%s/csv%v/pipe%d/size%s", p.Kind, p.CSV, p.Pipe, c17SizeClass(len(ref))))
			if tb == nil {
				continue
			}
			switch {
			case p.CSV && run.out == pc.outC:
				sameCSV = append(sameCSV, run)
			case p.CSV:
				bt.Add(func(mon string) {
					c.Monitor("paced", i, "csvTextOK (paced consumer)", inOf(&p), mon == "ok", mon+"\n"+c17FirstDiff(pc.outC, run.out))
				}, append([]string{"c17csvmon", tb.groupsField(), Hex(run.out)}, ops...)...)
			case run.out == pc.outT:
				same = append(same, run)
			default:
				bt.Add(func(mon string) {
					c.Monitor("paced", i, "textOK(csv amounts) (paced consumer)", inOf(&p), mon == "ok", mon+"\n"+c17FirstDiff(pc.outT, run.out))
				}, append(append([]string{"c17mon"}, append(head, Hex(run.out))...), ops...)...)
			}
		}
		if tb == nil {
			continue
		}
		// the text is what the model renders for the table the CSV describes, for every consumer …
		bt.Add(func(model string) {
			c.Compare("paced", i, "c17text(balance)", inOf(nil), "ok "+Hex(pc.outT), model)
			for _, run := range pc.runs {
				if !run.pace.CSV && (run.runErr == nil || run.runErr.Error() != "timeout") {
					p := run.pace
					c.Compare("paced", i, "c17text(balance, paced consumer)", inOf(&p), "ok "+Hex(run.out), model)
				}
			}
		}, append(append([]string{"c17text"}, head...), ops...)...)
		// … and satisfies the property predicate with the CSV amounts as the underlying amounts
		bt.Add(func(mon string) {
			switch {
			case mon == "ok":
				c.Monitor("paced", i, "textOK(csv amounts)", inOf(nil), true, "")
				for range same {
					c.Monitor("paced", i, "textOK(csv amounts) (paced consumer)", nil, true, "")
				}
			case strings.HasPrefix(mon, "inexact") && tb.knownDoubleRounding():
				c.MonitorKnown("paced", i, "textOK(exact quotient)", inOf(nil), mon, "thousands-with-more-than-13-decimals")
			default:
				c.Monitor("paced", i, "textOK(csv amounts)", inOf(nil), false, mon+"\n"+clip(pc.outT))
			}
		}, append(append([]string{"c17mon"}, append(head, Hex(pc.outT))...), ops...)...)
		bt.Add(func(mon string) {
			if c.Monitor("paced", i, "csvTextOK", inOf(nil), mon == "ok", mon+"\n"+clip(pc.outC)) {
				for range sameCSV {
					c.Monitor("paced", i, "csvTextOK (paced consumer)", nil, true, "")
				}
			}
		}, append([]string{"c17csvmon", tb.groupsField(), Hex(pc.outC)}, ops...)...)
		if i < 1 {
			c.Sample(map[string]any{"stream": "paced", "args": pc.args, "text_bytes": len(pc.outT), "csv_bytes": len(pc.outC), "paces": pc.runs[0].pace})
		}
		bt.Flush()
	}
	c.Extra["paced_runs"] = nruns
	c.Extra["paced_wall_s"] = fmt.Sprintf("eager runs %.1f, paced runs %.1f, model and predicates %.1f", t1.Sub(t0).Seconds(), t2.Sub(t1).Seconds(), time.Since(t2).Seconds())
	c.Extra["paced_runs_blocking_100ms"] = blocked
}

// c17FirstDiff describes where two outputs part.
func c17FirstDiff(want, got string) string {
	n := 0
	for n < len(want) && n < len(got) && want[n] == got[n] {
		n++
	}
	ctx := func(s string) string {
		lo, hi := n-200, n+300
		if lo < 0 {
			lo = 0
		}
		if hi > len(s) {
			hi = len(s)
		}
		return s[lo:hi]
	}
	return fmt.Sprintf("eagerly read output: %d bytes, this consumer: %d bytes, first difference at byte %d\n--- eager\n%s\n--- this consumer\n%s", len(want), len(got), n, ctx(want), ctx(got))
}

// ---------------------------------------------------------------- stream "fault": rendering into a writer that fails

// c17faultWriter accepts limit bytes and fails from then on, for good. Mode "reject": the write that would
// cross the limit writes nothing; "partial": it writes up to the limit and reports a short write; "nospace":
// the same with ENOSPC (what write(2) on a full file system does to a buffered writer).
type c17faultWriter struct {
	buf    bytes.Buffer
	limit  int // < 0: never fails
	mode   string
	failed bool
}

var errC17Fault = errors.New("c17: injected write fault")

func (w *c17faultWriter) Write(p []byte) (int, error) {
	if w.failed {
		return 0, w.err()
	}
	if w.limit < 0 || w.buf.Len()+len(p) <= w.limit {
		return w.buf.Write(p)
	}
	w.failed = true
	if w.mode == "reject" {
		return 0, w.err()
	}
	n, _ := w.buf.Write(p[:w.limit-w.buf.Len()])
	return n, w.err()
}

func (w *c17faultWriter) err() error {
	switch w.mode {
	case "partial":
		return io.ErrShortWrite
	case "nospace":
		return syscall.ENOSPC
	}
	return errC17Fault
}

var c17faultModes = []string{"reject", "partial", "nospace"}

// c17FaultRender renders the table with the given renderer into w; res is "nil", "error" or "panic".
func (tb *c17table) c17FaultRender(renderer string, colour bool, w io.Writer) (res string) {
	defer func() {
		if r := recover(); r != nil {
			res = "panic"
		}
	}()
	var err error
	if renderer == "csv" {
		rn := table.CSVRenderer{}
		err = rn.Render(tb.build(), w)
	} else {
		rn := table.TextRenderer{Color: colour, Thousands: tb.Thousands, Round: int32(tb.Digits)}
		err = rn.Render(tb.build(), w)
	}
	if err != nil {
		return "error"
	}
	return "nil"
}

// genC17LongTable is a report-shaped table of many rows (output above one or several 4 KiB buffers).
func genC17LongTable(r *RNG, rows int) *c17table {
	tb := &c17table{Thousands: r.Chance(2, 5), Digits: Pick(r, c17digits)}
	cols := r.Range(1, 6)
	if r.Bool() {
		tb.Groups = []int{1, cols}
	} else {
		tb.Groups = []int{1, 1, cols}
	}
	w := tb.width()
	tb.Ops = append(tb.Ops, c17op{Kind: "S"}, c17op{Kind: "R"})
	for j := 0; j < w; j++ {
		tb.Ops = append(tb.Ops, c17op{Kind: "t", Align: 2, Text: c17name(r)})
	}
	tb.Ops = append(tb.Ops, c17op{Kind: "S"})
	for i := 0; i < rows; i++ {
		switch {
		case r.Chance(1, 25):
			tb.Ops = append(tb.Ops, c17op{Kind: "S"})
			continue
		case r.Chance(1, 30):
			tb.Ops = append(tb.Ops, c17op{Kind: "E"})
			continue
		}
		tb.Ops = append(tb.Ops, c17op{Kind: "R"}, c17op{Kind: "i", Indent: 2 * r.Intn(5), Text: c17name(r)})
		for j := 1; j < w; j++ {
			switch {
			case j == 1 && len(tb.Groups) == 3:
				tb.Ops = append(tb.Ops, c17op{Kind: "t", Align: r.Intn(3), Text: Pick(r, []string{"CHF", "USD", "AAPL", "日本円", ""})})
			case r.Chance(1, 6):
				tb.Ops = append(tb.Ops, c17op{Kind: "f"})
				j = w
			case r.Chance(1, 8):
				tb.Ops = append(tb.Ops, c17op{Kind: "e"})
			default:
				lit, _ := c17decimal(r, tb.Digits, tb.Thousands)
				tb.Ops = append(tb.Ops, c17op{Kind: "d", Dec: c17NormDec(lit)})
			}
		}
	}
	tb.Ops = append(tb.Ops, c17op{Kind: "S"})
	return tb
}

// c17FaultOffsets: every offset of a small output; for a larger one the first and last bytes, the bytes around
// every line break of a few lines, around the multiples of 4096 (bufio) and a random sample.
func c17FaultOffsets(r *RNG, full string, all int, sample int) []int {
	n := len(full)
	if n <= all {
		offs := make([]int, n)
		for i := range offs {
			offs[i] = i
		}
		return offs
	}
	seen := map[int]bool{}
	var offs []int
	add := func(x int) {
		if x >= 0 && x < n && !seen[x] {
			seen[x] = true
			offs = append(offs, x)
		}
	}
	for _, x := range []int{0, 1, 2, 3, n - 1, n - 2, n - 3, n - 4} {
		add(x)
	}
	var breaks []int
	for i := 0; i < n; i++ {
		if full[i] == '\n' {
			breaks = append(breaks, i)
		}
	}
	for k := 0; k < 6 && len(breaks) > 0; k++ {
		b := Pick(r, breaks)
		add(b - 1)
		add(b)
		add(b + 1)
		add(b + 2)
	}
	for m := 4096; m < n+4096; m += 4096 {
		for d := -2; d <= 2; d++ {
			add(m + d)
		}
	}
	for len(offs) < sample {
		add(r.Intn(n))
	}
	sort.Ints(offs)
	return offs
}

// runC17FaultOne renders tb with one renderer configuration into writers failing at the offsets; monitor:
// Render reports an error, or what it wrote is the complete output (which the other streams judge).
func (c *Ctx) runC17FaultOne(bt *Batch, i int, tb *c17table, renderer string, colour bool, mode string, offs []int, all int, sample int, r *RNG) {
	ok := &c17faultWriter{limit: -1}
	res := tb.c17FaultRender(renderer, colour, ok)
	if res != "nil" {
		c.Tag("fault-unfaulted-" + res)
		return
	}
	full := ok.buf.String()
	if offs == nil {
		offs = c17FaultOffsets(r, full, all, sample)
	}
	c.Class(fmt.Sprintf("fault/%s/colour%v/k%v/%s/%s", renderer, colour, tb.Thousands, mode, c17SizeClass(len(full))))
	head := []string{c17BoolField(tb.Thousands), itoa(tb.Digits), tb.groupsField()}
	for _, off := range offs {
		if off < 0 || off >= len(full) {
			continue
		}
		c.Evals++
		fw := &c17faultWriter{limit: off, mode: mode}
		res := tb.c17FaultRender(renderer, colour, fw)
		got := fw.buf.String()
		pred := "write fault: Render reports an error or wrote the complete " + renderer + " output"
		if res == "error" || (res == "nil" && got == full) {
			c.Monitor("fault", i, pred, nil, true, "")
			continue
		}
		in := tb.input()
		in["fault"] = map[string]any{"renderer": renderer, "colour": colour, "mode": mode, "offset": off, "full_len": len(full)}
		detail := fmt.Sprintf("Render returned %s after the writer failed (%s) at byte %d of %d; written %d bytes:\n%s", res, mode, off, len(full), len(got), got)
		switch {
		case res == "nil" && renderer == "text" && !colour:
			// the property's own statement on what was reported as a complete table
			bt.Add(func(mon string) {
				c.Monitor("fault", i, pred+" (textOK of the bytes: "+mon+")", in, false, detail)
			}, append(append([]string{"c17mon"}, append(head, Hex(got))...), tb.fields()...)...)
		case res == "nil" && renderer == "csv":
			bt.Add(func(mon string) {
				c.Monitor("fault", i, pred+" (csvTextOK of the bytes: "+mon+")", in, false, detail)
			}, append([]string{"c17csvmon", tb.groupsField(), Hex(got)}, tb.fields()...)...)
		default:
			c.Monitor("fault", i, pred, in, false, detail)
		}
	}
}

var c17faultConfigs = []struct {
	renderer string
	colour   bool
}{{"text", false}, {"text", true}, {"csv", false}}

func runC17Fault(c *Ctx, bt *Batch) {
	if c.Replay && c.OnlyStr != "fault" {
		return
	}
	if c.Replay && c.ReplayInput != nil {
		if f, ok := c.ReplayInput["fault"].(map[string]any); ok {
			tb := c17TableFromInput(c.ReplayInput)
			renderer, _ := f["renderer"].(string)
			colour, _ := f["colour"].(bool)
			mode, _ := f["mode"].(string)
			off, _ := f["offset"].(float64)
			c.Replay = false
			c.runC17FaultOne(bt, c.OnlyIndex, tb, renderer, colour, mode, []int{int(off)}, 0, 0, nil)
			bt.Flush()
			return
		}
	}
	n := c.N(260, 6000)
	t0 := time.Now()
	ev0 := c.Evals
	defer func() {
		if !c.Replay {
			c.Notes = append(c.Notes, fmt.Sprintf("fault stream: %d tables, %d renderings into failing writers, %.1f s", n, c.Evals-ev0, time.Since(t0).Seconds()))
		}
	}()
	for i := 0; i < n; i++ {
		if !c.Want("fault", i) {
			continue
		}
		r := c.Rng("fault", i)
		var tb *c17table
		all, sample := 700, 48
		switch {
		case i%13 == 12:
			// several buffers long
			tb = genC17LongTable(r, r.Range(40, c.N(400, 1500)))
			sample = 64
		default:
			tb = genC17Table(r, false, map[string]bool{})
		}
		if c.Thorough() {
			all, sample = 3000, 160
		}
		for _, cf := range c17faultConfigs {
			mode := Pick(r, c17faultModes)
			c.runC17FaultOne(bt, i, tb, cf.renderer, cf.colour, mode, nil, all, sample, r)
		}
		if i < 1 {
			c.Sample(map[string]any{"stream": "fault", "input": tb.input()})
		}
	}
	bt.Flush()
}
