import Knut.Proofs.Loader
import Knut.Proofs.Commands
import Knut.Spec.LoaderSpec
import Knut.FactsAgree.C14
/-!
# C14 — Commands fail cleanly on every input

> For every input — arbitrary bytes, any include graph including missing files and files that include each other,
> and any flag values — each journal-processing command (check, balance, print, format, infer, transcode,
> portfolio) terminates, and does so either successfully or with a non-zero exit status and a diagnostic on
> standard error; it never panics, hangs, or exhausts memory. An error in any included file fails the whole
> command, and a failing report command leaves standard output empty.

Models: `Knut.Loader` (`syntax.ParseFileRecursively`/`parseRec` over a file system `Path → Option Bytes` and an
arbitrary parser), `Knut.Commands` (`Cmd.run`, the commands composed from the loader, `model.FromStream` and the
models of the processors and printers; `portfolioClass` for the two portfolio commands, outcome class only).

What the theorems say, clause by clause:

* **terminates** — the model functions are total Lean functions; the one recursion of the code that is not bounded
  by the size of a single input, the include recursion, is defined *without fuel* (`Loader.loadRec`, well-founded on
  the number of readable paths not yet in the chain) and `C14_loader_depth_bounded` states the bound: the include
  chain never gets longer than the number of readable cleaned paths plus one. What Lean cannot express — wall-clock
  hangs and memory use of the real process — is decided by the monitors on every run.
* **successfully, or non-zero status with a diagnostic, never a panic** — `C14_no_panic` (per command, under exactly
  the guards of the two recorded findings), `C14_loader_no_panic`, `C14_fails_cleanly`.
* **an error in any included file fails the whole command** — `C14_included_error_fails`, `C14_cycle_is_error`,
  `C14_load_ok_iff`, `C14_included_error_fails_command`, `C14_included_semantic_error_fails`.
* **a failing report command leaves standard output empty** — `C14_error_stdout_empty` (structural in the model; tied
  to the code by `FactsAgree/C14.lean`: the writer on standard output is created after the last fallible call).

Only property theorems and their non-vacuity examples live here.
-/
namespace Knut.C14
open Knut Knut.Loader Knut.Spec.Clean
open Knut.Commands hiding Bytes

variable {E F : Type}

/-! ## The loader -/

/-- **the include recursion is bounded**: run with a depth budget of (number of readable cleaned paths + 1), the
loader never asks for more, and every larger budget gives the same result — the result of the fuel-free `load`.
For every file system with finitely many readable paths, every parser, every root: no include graph (cycles,
self-includes, missing files, diamonds) makes the loader recurse forever. -/
theorem C14_loader_depth_bounded (fs : FileSys) (parse : Path → Bytes → Parsed E F) (root : Path) (n : Nat)
    (h : depthBound fs ≤ n) : loadFuel fs parse n root [] = some (load fs parse root) := by
  unfold load
  apply loadFuel_eq
  have := remaining_le_length fs []
  unfold depthBound at h
  omega

/-- **the loader has no panic outcome**: it returns the files or an error value. -/
theorem C14_loader_no_panic (fs : FileSys) (parse : Path → Bytes → Parsed E F) (root : Path) :
    (∃ files, load fs parse root = .ok files) ∨ (∃ e, load fs parse root = .error e) :=
  loadRec_ok_or_error fs parse root []

/-- **an error in any included file fails the whole load**: if following include directives from the root
(`Walk`) reaches a file that cannot be read or that the parser rejects, the load is an error — wherever in the graph
the file is, whatever the other files contain. -/
theorem C14_included_error_fails (fs : FileSys) (parse : Path → Bytes → Parsed E F) {root g : Path} {vs : List Path}
    (w : Walk fs parse root vs g)
    (hbad : fs.read g = none ∨ ∃ text e, fs.read g = some text ∧ (parse g text).result = .error e) :
    ∃ e, load fs parse root = .error e :=
  load_error_of_walk w (Or.inr hbad)

/-- **a cycle is an error**: if following include directives from the root reaches a file whose cleaned path is the
cleaned path of a file passed on the way (a self-include, a 2-cycle, any longer cycle, under any spelling of the
paths), the load is an error. -/
theorem C14_cycle_is_error (fs : FileSys) (parse : Path → Bytes → Parsed E F) {root c : Path} {vs : List Path}
    (w : Walk fs parse root vs c) (hcyc : ∃ v ∈ vs, pathClean v = pathClean c) :
    ∃ e, load fs parse root = .error e := by
  apply load_error_of_walk w
  left
  obtain ⟨v, hv, he⟩ := hcyc
  simp only [inChain, List.any_eq_true, beq_iff_eq]
  exact ⟨v, hv, he⟩

/-- a file that includes itself -/
theorem C14_self_include_is_error (fs : FileSys) (parse : Path → Bytes → Parsed E F) {root : Path} {text : Bytes} {inc : String}
    (hr : fs.read root = some text) (hi : inc ∈ (parse root text).includes)
    (hself : pathClean (resolve root inc) = pathClean root) : ∃ e, load fs parse root = .error e :=
  C14_cycle_is_error fs parse (.cons ⟨text, inc, hr, hi, rfl⟩ (.nil _)) ⟨root, List.mem_cons_self, hself.symm⟩

/-- **exactly the errors of the graph**: the load succeeds iff no include walk from the root ends in a call that
fails (cycle, unreadable, rejected by the parser). In particular an error never comes from nowhere. -/
theorem C14_load_ok_iff (fs : FileSys) (parse : Path → Bytes → Parsed E F) (root : Path) :
    (∃ files, load fs parse root = .ok files) ↔ ∀ vs c, Walk fs parse root vs c → ¬ Fails fs parse c vs :=
  load_ok_iff fs parse root

/-- every file of a successful load was read from the file system and accepted by the parser -/
theorem C14_loaded_files_parsed (fs : FileSys) (parse : Path → Bytes → Parsed E F) (root : Path) (files : List (Path × F))
    (h : load fs parse root = .ok files) :
    ∀ pf ∈ files, ∃ text, fs.read pf.1 = some text ∧ (parse pf.1 text).result = .ok pf.2 :=
  loadRec_mem fs parse root [] files h

/-! ## The commands -/

/-- **a failing command leaves standard output empty**: output exists only as part of a completed result. Holds for
every command of the model, in particular for balance, print, transcode, infer and check --write. -/
theorem C14_error_stdout_empty (c : Command) (fs : FileSys) (f : Flags) (h : (Cmd.run c fs f).cls ≠ .ok) :
    (Cmd.run c fs f).stdout = "" := by
  cases hr : Cmd.run c fs f with
  | ok s => rw [hr] at h; exact absurd rfl h
  | error w => rfl
  | panic s => rfl

/-- **an error in any included file fails the whole command**: if the loader fails on the journal (for `infer`: on
the training file), the command ends with an error — not a panic, not success. With `C14_included_error_fails`
and `C14_cycle_is_error`: a missing, unreadable, malformed or cyclic file anywhere in the include graph. `format`
reads the one file it is given and nothing else. -/
theorem C14_included_error_fails_command (c : Command) (fs : FileSys) (f : Flags) (hc : c ≠ .format)
    (e : LoadErr Syntax.Err)
    (h : load fs parseForLoader (if c = .infer then f.training else f.path) = .error e) :
    (Cmd.run c fs f).cls = .error := by
  cases c with
  | format => exact absurd rfl hc
  | check => simp only [Cmd.run]; rw [runCheck_load_error fs f (by simpa using h)]; rfl
  | print => simp only [Cmd.run]; rw [runPrint_load_error fs f (by simpa using h)]; rfl
  | balance => obtain ⟨w, hw⟩ := runBalance_load_error fs f (e := e) (by simpa using h); simp only [Cmd.run, hw]; rfl
  | transcode => obtain ⟨w, hw⟩ := runTranscode_load_error fs f (e := e) (by simpa using h); simp only [Cmd.run, hw]; rfl
  | infer => simp only [Cmd.run]; rw [runInfer_load_error fs f (by simpa using h)]; rfl

/-- **an error in any included file fails the whole command**, second half: a file of the include graph that loads
and parses but cannot be turned into model directives (impossible date, invalid account type, unparsable amount,
`@accrue` window that ends before it starts, …) makes every command that builds the journal end without success —
wherever the file is in the graph, whatever the flags. -/
theorem C14_included_semantic_error_fails (c : Command) (fs : FileSys) (f : Flags)
    (hc : c = .check ∨ c = .balance ∨ c = .print ∨ c = .transcode) :
    ∀ files, load fs parseForLoader f.path = .ok files → ∀ pf ∈ files, ∀ e, elabFile pf.2 = .error e →
      (Cmd.run c fs f).cls ≠ .ok := by
  intro files hl pf hpf e he
  obtain ⟨e', h'⟩ := fromPath_error_of_file fs f.path files hl pf hpf e he
  rcases hc with rfl | rfl | rfl | rfl
  · exact runCheck_fromPath_error fs f h'
  · exact runBalance_fromPath_error fs f h'
  · exact runPrint_fromPath_error fs f h'
  · exact runTranscode_fromPath_error fs f h'

/-- the parser the loader runs on every file is `syntax.ParseFile`'s (the C07 model `parseText`): same tree, same
error; the loader only adds the include callback -/
theorem C14_loader_parser_is_parseText (file : Path) (text : Commands.Bytes) :
    (parseForLoader file text).result =
      (match Syntax.parseText file text with | .ok f => .ok (text, f) | .error e => .error e) :=
  parseForLoader_result file text

/-- **no command panics**, under exactly the guards of the two recorded findings:

* `AccrualGuard` (commands that build the journal: check, balance, print, transcode): no `@accrue` window of a
  loaded file starts on 0001-01-01 — otherwise `transaction.Create` panics in `date.NewPartition`
  (`Knut.C10.C10_zero_start_panics`, finding `accrual-window-starting-0001-01-01`);
* `WindowGuard` (balance only): the report window clipped to the journal does not start on 0001-01-01 — otherwise
  `date.NewPartition` panics (`Knut.C11.C11_zero_start_panics`, finding `transaction-dated-0001-01-01`).

`format` and `infer` never panic. Every other panic site of the modelled code (slice bounds in `Extract`, the table
renderer's `widths[i]` and `cells[0]`, `QuoRem` by zero) is shown unreachable. -/
theorem C14_no_panic (c : Command) (fs : FileSys) (f : Flags)
    (ha : c ≠ .format → c ≠ .infer → AccrualGuard fs f.path) (hw : c = .balance → WindowGuard fs f) :
    (Cmd.run c fs f).cls ≠ .panic := by
  apply cls_ne_panic
  cases c with
  | check => exact runCheck_noPanic fs f (ha (by decide) (by decide))
  | balance => exact runBalance_noPanic fs f (ha (by decide) (by decide)) (hw rfl)
  | print => exact runPrint_noPanic fs f (ha (by decide) (by decide))
  | format => exact runFormat_noPanic fs f
  | infer => exact runInfer_noPanic fs f
  | transcode => exact runTranscode_noPanic fs f (ha (by decide) (by decide))

/-- the two portfolio commands (outcome class only): no panic under the same two guards -/
theorem C14_no_panic_portfolio (fs : FileSys) (f : Flags) (ha : AccrualGuard fs f.path) (hw : WindowGuard fs f) :
    portfolioClass fs f ≠ .panic :=
  portfolioClass_noPanic fs f ha hw

/-- the guards are the code's: with a transaction dated 0001-01-01 and no `--from`, `balance` does panic in the model
as it does in the binary (the recorded finding), so the guard of `C14_no_panic` cannot be dropped -/
theorem C14_zero_window_panics (f : BalanceFlags) (ds : List Directive)
    (h : (BalanceCmd.window f (Builder.ofList ds)).start = 0) :
    BalanceCmd.run f ds = .panic "can't create partition with zero time" := by
  unfold BalanceCmd.run BalanceCmd.entries
  simp [newPartition, h]

/-! ## The monitor's predicate -/

/-- what a run of the model looks like to the harness: `ok` is exit status 0, an error is exit status 1 with a
diagnostic and (structurally) nothing on standard output, a panic is Go's exit status 2 with a trace -/
def observe (o : CmdOutcome) : Observation :=
  match o with
  | .ok out => { ending := .exited 0, stdoutEmpty := out.isEmpty, stderrEmpty := true, crashTrace := false }
  | .error _ => { ending := .exited 1, stdoutEmpty := true, stderrEmpty := false, crashTrace := false }
  | .panic _ => { ending := .exited 2, stdoutEmpty := true, stderrEmpty := false, crashTrace := true }

/-- **the predicate the monitor evaluates on every real run holds of the model**, for every command, file system
and flag vector, under the guards of `C14_no_panic` — also when the command is treated as a report command. -/
theorem C14_fails_cleanly (c : Command) (fs : FileSys) (f : Flags) (report : Bool)
    (ha : c ≠ .format → c ≠ .infer → AccrualGuard fs f.path) (hw : c = .balance → WindowGuard fs f) :
    failsCleanly report (observe (Cmd.run c fs f)) = true := by
  have hp := C14_no_panic c fs f ha hw
  cases hr : Cmd.run c fs f with
  | ok out => simp [observe, failsCleanly]
  | error w => cases report <;> simp [observe, failsCleanly]
  | panic s => rw [hr] at hp; exact absurd rfl hp

/-- and the second monitor clause: a loader error is observed as a failed run -/
theorem C14_included_error_observed (c : Command) (fs : FileSys) (f : Flags) (hc : c ≠ .format) (e : LoadErr Syntax.Err)
    (h : load fs parseForLoader (if c = .infer then f.training else f.path) = .error e) :
    includedErrorFails true (observe (Cmd.run c fs f)) = true := by
  have := C14_included_error_fails_command c fs f hc e h
  cases hr : Cmd.run c fs f with
  | ok out => rw [hr] at this; cases this
  | error w => simp [observe, includedErrorFails, failed]
  | panic s => rw [hr] at this; cases this


/-! ## Non-vacuity -/

/-- a one-file file system whose file includes itself under another spelling -/
def exFS : FileSys := FileSys.ofList [("a", [])]
def exParse : Path → Loader.Bytes → Parsed Unit Unit := fun file _ => if file = "a" then ⟨["./a"], .ok ()⟩ else ⟨[], .ok ()⟩

example : ∃ e, load exFS exParse "a" = .error e :=
  C14_self_include_is_error exFS exParse (root := "a") (text := []) (inc := "./a")
    (by decide +kernel) (by simp [exParse]) (by decide +kernel)

/-- an include of a missing file: the walk `a → b`, `b` unreadable -/
def exParse2 : Path → Loader.Bytes → Parsed Unit Unit := fun file _ => if file = "a" then ⟨["sub/../b"], .ok ()⟩ else ⟨[], .ok ()⟩

example : ∃ e, load exFS exParse2 "a" = .error e :=
  C14_included_error_fails exFS exParse2 (root := "a") (g := "b") (vs := ["a"])
    (.cons ⟨[], "sub/../b", by decide +kernel, by simp [exParse2], by decide +kernel⟩ (.nil _))
    (Or.inl (by decide +kernel))

/-- the depth bound is attained: one readable file, depth 2 (the file, then the failing call for the cycle) -/
example : loadFuel exFS exParse 1 "a" [] = none ∧ depthBound exFS = 2 := by
  constructor
  · simp [loadFuel, exFS, exParse, FileSys.ofList, inChain]
  · rfl

/-- a journal that is not there: every journal command ends with an error, nothing on standard output, and the
guards of `C14_no_panic` hold -/
def exEmpty : FileSys := FileSys.ofList []

theorem exEmpty_load (p : Path) : load exEmpty parseForLoader p = .error (.unreadable p) :=
  loadRec_unreadable _ _ _ _ rfl rfl

example : (Cmd.run .print exEmpty { path := "j.knut" }).cls = .error :=
  C14_included_error_fails_command .print exEmpty _ (by decide) _ (exEmpty_load _)

example : (Cmd.run .print exEmpty { path := "j.knut" }).stdout = "" :=
  C14_error_stdout_empty _ _ _ (by rw [C14_included_error_fails_command .print exEmpty _ (by decide) _ (exEmpty_load _)]; decide)

example : AccrualGuard exEmpty "j.knut" := by
  intro files h; rw [exEmpty_load] at h; cases h

/-- the recorded finding in the model: a transaction dated 0001-01-01 and no `--from` -/
example : BalanceCmd.run { to := 738000 } [.tx { date := 0, description := "x", postings := [] }]
    = .panic "can't create partition with zero time" :=
  C14_zero_window_panics _ _ (by decide +kernel)

end Knut.C14
