import Knut.Generated.TransJPrinter
import Knut.FactsAgree.TransJournal
import Knut.Model.JournalPrinter
/-!
# The translated printer of model directives (`lib/journal/printer`) agrees with `Model/JournalPrinter.lean`

`lib/journal/printer/printer.go` is regenerated into `Knut/Generated/TransJPrinter.lean` on every run
(`harness/trans_units_jprinter.go`): the `io.Writer` of the `Printer` is the text written so far, `fmt.Fprintf(p, …)` and
`io.WriteString(p, s)` are `p.Write(text)` for the formatted text (prelude `Knut/GoSem/Fmt.lean`: `Fmt.pad`, `Fmt.padStar`,
`Time.FormatISO`, `Strings.Join`, `Writer.Write`), `t.Targets != nil` reads the `Option` that `Targets` is.

Every theorem says: the translated method, on a printer `p` and a Go value that stands for a model value (relations `TRel`,
`OpenRel`, … of `TransJournal`/`TransProcess`: all `Src` pointers arbitrary), returns the printer that **wrote** the model's text
(`wrote p text`: the text appended to the writer, its byte length added to `count`), the byte length as `n`, and no error.

Invariant stated in the theorems (and nowhere hidden):
* `DateOK d`: `0 ≤ year d` — `Time.Format` prints a sign for negative years, the model's `fmtDate` does not (the journal syntax has
  four-digit years only).

| Go | theorem | model |
|---|---|---|
| `Printer.Write` | `Write_agrees` | `wrote` |
| `padRight`, `printPosting` | `padRight_agrees`, `printPosting_agrees` | `JournalPrinter.padRight`, `printPosting` (for every padding: no width limit) |
| `printOpen`, `printClose`, `printPrice` | `printOpen_agrees`, `printClose_agrees`, `printPrice_agrees` | `printOpen`, `printClose`, `printPrice` |
| `printAssertion` (+ loop) | `printAssertion_range1_agrees`, `printAssertion_agrees` | `printAssertion` |
| `printTransaction` (+ loop, translated twice: after the `if t.Targets != nil` that can return) | `printTransaction_range1_agrees`, `printTransaction_range2_agrees`, `printTransaction_agrees` | `printTx` |
| `PrintDirective`, `PrintDirectiveLn` | `PrintDirective_agrees`, `PrintDirective_other`, `PrintDirectiveLn_agrees` | `printDirective` (below) |
| `UpdatePadding`, `Initialize`, `New` | `UpdatePadding_agrees`, `Initialize_agrees`, `New_agrees` | `padTx`, `padDirs` (the folds of `JournalPrinter.padding`) |
-/
set_option linter.unusedSimpArgs false
namespace Knut.FactsAgree.TransJPrinter
open Knut Knut.GoSem
open Knut.Generated.Go
open Knut.FactsAgree.TransAccount Knut.FactsAgree.TransPosting Knut.FactsAgree.TransTransaction
open Knut.FactsAgree.TransProcess (AllRel TRel PRel PriceRel priceGo)
open Knut.FactsAgree.TransCheck (openGo closeGo balanceGo)
open Knut.FactsAgree.TransJournal (OpenRel CloseRel BalRel AssertRel DayRel DirRel)

/-! ## strings -/

theorem byteLen_append (a b : String) : Strings.byteLen (a ++ b) = Strings.byteLen a + Strings.byteLen b := by
  simp [Strings.byteLen, String.toList_append, List.map_append, List.sum_append]

theorem byteLen_empty : Strings.byteLen "" = 0 := rfl

/-- the printer after it wrote `text` -/
def wrote (p : printer.Printer) (text : String) : printer.Printer :=
  { p with writer := p.writer ++ text, count := p.count + Strings.byteLen text }

theorem wrote_wrote (p : printer.Printer) (a b : String) : wrote (wrote p a) b = wrote p (a ++ b) := by
  simp [wrote, byteLen_append, String.append_assoc, Int.add_assoc]

theorem wrote_empty (p : printer.Printer) : wrote p "" = p := by
  simp [wrote, byteLen_empty]

@[simp] theorem wrote_padding (p : printer.Printer) (a : String) : (wrote p a).padding = p.padding := rfl
@[simp] theorem wrote_count (p : printer.Printer) (a : String) : (wrote p a).count = p.count + Strings.byteLen a := rfl
theorem wrote_count_sub (p : printer.Printer) (a : String) : (wrote p a).count - p.count = Strings.byteLen a := by
  simp only [wrote]; omega
theorem index_singleton {α : Type} (x : α) : index [x] (0 : Int) = .ok x := rfl
@[simp] theorem wrote_writer (p : printer.Printer) (a : String) : (wrote p a).writer = p.writer ++ a := rfl

/-- **`Printer.Write`**: the text is appended, the count grows by its byte length, no error -/
theorem Write_agrees (p : printer.Printer) (bs : String) :
    printer.Printer.Write p bs = (wrote p bs, Strings.byteLen bs, none) := by
  simp [printer.Printer.Write, Writer.Write, wrote]

theorem New_agrees (w : String) : printer.New w = ⟨w, 0, 0⟩ := rfl

/-! ## the primitives of the prelude against the model's helpers -/

/-- dates that `fmtDate` prints as `Time.Format` does -/
def DateOK (d : Int) : Prop := 0 ≤ Date.year d

theorem pad_right (w : Int) (s : String) (h0 : 0 ≤ w) :
    Fmt.pad true w s = JournalPrinter.padRight s w.toNat := by
  unfold Fmt.pad Fmt.spaces JournalPrinter.padRight JournalPrinter.runeLen
  have : (w - (s.length : Int)).toNat = w.toNat - s.length := by omega
  simp [this]

theorem pad_left (w : Int) (s : String) (h0 : 0 ≤ w) :
    Fmt.pad false w s = JournalPrinter.padLeft s w.toNat := by
  unfold Fmt.pad Fmt.spaces JournalPrinter.padLeft JournalPrinter.runeLen
  have : (w - (s.length : Int)).toNat = w.toNat - s.length := by omega
  simp [this]

theorem padStar_right (w : Int) (s : String) (h0 : 0 ≤ w) (h1 : w ≤ 1000000) :
    Fmt.padStar true w s = JournalPrinter.padRight s w.toNat := by
  unfold Fmt.padStar
  have a : ¬ (w > 1000000 ∨ w < -1000000) := by omega
  have b : ¬ w < 0 := by omega
  simp only [a, b, if_false]
  exact pad_right w s h0

theorem appendInt_pad (x : Int) (w : Nat) (h : 0 ≤ x) : Time.appendInt x w = BalanceReport.pad x.toNat w := by
  unfold Time.appendInt BalanceReport.pad
  have a : ¬ x < 0 := by omega
  have b : x.natAbs = x.toNat := by omega
  simp [a, b]

/-- `t.Format("2006-01-02")` is the model's `fmtDate` from year 0 on -/
theorem FormatISO_agrees (d : Int) (h : DateOK d) : Time.FormatISO d = JournalPrinter.fmtDate d := by
  unfold Time.FormatISO JournalPrinter.fmtDate BalanceReport.fmtDate
  have hm := (Date.month_bounds d).1
  have hd := Date.day_pos d
  rw [appendInt_pad _ _ h, appendInt_pad _ _ (by omega), appendInt_pad _ _ (by omega)]
  simp [toString, String.append_assoc]

theorem Join_agrees (xs : List String) (sep : String) : Strings.Join xs sep = String.intercalate sep xs := rfl

theorem Account_String (a : Knut.Account) : account.Account.String (accountGo a) = a.name := rfl
theorem Commodity_Name (cur : String → Bool) (c : Knut.Commodity) : commodity.Commodity.Name (commodityGo cur c) = c := rfl

/-! ## the directives on one line -/

theorem join_replicate_space (k : Nat) : String.join (List.replicate k " ") = String.ofList (List.replicate k ' ') := by
  induction k with
  | zero => rfl
  | succ k ih =>
    rw [List.replicate_succ, List.replicate_succ, String.join_cons, ih]
    apply String.toList_injective
    simp

/-- **`padRight`** (the helper of `printPosting`): blanks up to `n` runes, for every `n` -/
theorem padRight_agrees (s : String) (n : Int) : printer.padRight s n = JournalPrinter.padRight s n.toNat := by
  unfold printer.padRight JournalPrinter.padRight JournalPrinter.runeLen
  simp only [Strings.RuneCount, Strings.Repeat]
  by_cases h : (s.length : Int) < n
  · have e : (n - (s.length : Int)).toNat = n.toNat - s.length := by omega
    simp only [h, decide_true, if_true, e, join_replicate_space]
  · have e : n.toNat - s.length = 0 := by omega
    simp [h, e]

/-- **`printPosting`** (`%s %s %10s %s` of the padded Other, the padded Account, Quantity, Commodity) -/
theorem printPosting_agrees (cur : String → Bool) (p : printer.Printer) (g : posting.Posting) (q : Knut.Posting)
    (hr : PRel cur g q) :
    printer.Printer.printPosting p g =
      (wrote p (JournalPrinter.printPosting p.padding.toNat q), Strings.byteLen (JournalPrinter.printPosting p.padding.toNat q), none) := by
  unfold PRel at hr
  rw [hr]
  simp only [printer.Printer.printPosting, Write_agrees, postingGo, Account_String, Commodity_Name, Decimal.String,
    padRight_agrees, pad_left 10 _ (by omega), JournalPrinter.printPosting]
  rfl

/-- **`printOpen`** -/
theorem printOpen_agrees (p : printer.Printer) (g : open_.Open) (o : Knut.Open) (hr : OpenRel g o) (hd : DateOK o.date) :
    printer.Printer.printOpen p g =
      (wrote p (JournalPrinter.printOpen o), Strings.byteLen (JournalPrinter.printOpen o), none) := by
  unfold OpenRel at hr
  rw [hr]
  simp only [printer.Printer.printOpen, Write_agrees, openGo, Account_String, FormatISO_agrees _ hd, JournalPrinter.printOpen]

/-- **`printClose`** -/
theorem printClose_agrees (p : printer.Printer) (g : close.Close) (c : Knut.Close) (hr : CloseRel g c) (hd : DateOK c.date) :
    printer.Printer.printClose p g =
      (wrote p (JournalPrinter.printClose c), Strings.byteLen (JournalPrinter.printClose c), none) := by
  unfold CloseRel at hr
  rw [hr]
  simp only [printer.Printer.printClose, Write_agrees, closeGo, Account_String, FormatISO_agrees _ hd, JournalPrinter.printClose]

/-- **`printPrice`** -/
theorem printPrice_agrees (cur : String → Bool) (p : printer.Printer) (g : price.Price) (pr : Knut.Price) (hr : PriceRel cur g pr)
    (hd : DateOK pr.date) :
    printer.Printer.printPrice p g =
      (wrote p (JournalPrinter.printPrice pr), Strings.byteLen (JournalPrinter.printPrice pr), none) := by
  unfold PriceRel at hr
  rw [hr]
  simp only [printer.Printer.printPrice, Write_agrees, priceGo, TransProcess.cGo_eq, Commodity_Name, FormatISO_agrees _ hd,
    JournalPrinter.printPrice, Decimal.String]

/-! ## `printAssertion` -/

/-- one balance of a multi-line assertion -/
def balLine (b : Knut.Balance) : String := "\n" ++ b.account.name ++ " " ++ Dec.showDec b.quantity ++ " " ++ b.commodity

theorem printAssertion_multi (a : Knut.Assertion) (h : a.balances.length ≠ 1) :
    JournalPrinter.printAssertion a = JournalPrinter.fmtDate a.date ++ " balance" ++ String.join (a.balances.map balLine) := by
  unfold JournalPrinter.printAssertion
  match hb : a.balances with
  | [] => rfl
  | [b] => simp [hb] at h
  | b :: c :: rest => rfl

theorem printAssertion_single (a : Knut.Assertion) (b : Knut.Balance) (h : a.balances = [b]) :
    JournalPrinter.printAssertion a = JournalPrinter.fmtDate a.date ++ " balance" ++
      (" " ++ b.account.name ++ " " ++ Dec.showDec b.quantity ++ " " ++ b.commodity) := by
  unfold JournalPrinter.printAssertion
  rw [h]

/-- the loop of `printAssertion` over the balances of a multi-line assertion -/
theorem printAssertion_range1_agrees (cur : String → Bool) (ga : assertion.Assertion) (start : Int) :
    ∀ (gbs : List assertion.Balance) (bs : List Knut.Balance) (p : printer.Printer), AllRel (BalRel cur) gbs bs →
      printer.Printer.printAssertion.range1 ga start gbs p = .ok (.next (wrote p (String.join (bs.map balLine)))) := by
  intro gbs bs p h
  induction h generalizing p with
  | nil => simp [printer.Printer.printAssertion.range1, wrote_empty]
  | @cons g b gs bs hg _ ih =>
    unfold BalRel at hg
    unfold printer.Printer.printAssertion.range1
    rw [hg]
    simp only [Write_agrees, balanceGo, Account_String, Commodity_Name, Decimal.String, Option.isSome_none, Bool.false_eq_true,
      if_false, ih, wrote_wrote, List.map_cons, String.join_cons, balLine]

/-- **`printAssertion`**: the single-balance form on one line, otherwise one line per balance -/
theorem printAssertion_agrees (cur : String → Bool) (p : printer.Printer) (g : assertion.Assertion) (a : Knut.Assertion)
    (hr : AssertRel cur g a) (hd : DateOK a.date) :
    printer.Printer.printAssertion p g =
      .ok (wrote p (JournalPrinter.printAssertion a), Strings.byteLen (JournalPrinter.printAssertion a), none) := by
  obtain ⟨hdate, hbs⟩ := hr
  have hlen := TransProcess.AllRel_length hbs
  unfold printer.Printer.printAssertion
  simp only [Write_agrees, Option.isSome_none, Bool.false_eq_true, if_false, hdate, FormatISO_agrees _ hd, len]
  by_cases h1 : g.Balances.length = 1
  · have h1' : ((g.Balances.length : Int) = 1) := by omega
    simp only [h1', decide_true, if_true]
    match hgb : g.Balances, ha : a.balances, hbs with
    | [gb], [b], .cons hg .nil =>
      unfold BalRel at hg
      rw [printAssertion_single a b ha, hg]
      simp only [index_singleton, Outcome.bind, balanceGo, Account_String, Commodity_Name, Decimal.String, Write_agrees, wrote_wrote,
        Option.isSome_none, Bool.false_eq_true, if_false, wrote_count_sub]
    | [], _, _ => simp [hgb] at h1
    | _ :: _ :: _, _, _ => simp [hgb] at h1
  · have h1' : ¬ ((g.Balances.length : Int) = 1) := by omega
    simp only [h1', decide_false, Bool.false_eq_true, if_false]
    rw [printAssertion_range1_agrees cur g _ g.Balances a.balances _ hbs, printAssertion_multi a (by omega)]
    simp only [Outcome.bind, wrote_wrote, wrote_count_sub]

/-! ## `printTransaction` -/

/-- every other element: `alt true` drops the first, keeps the second, … (the loop `if i%2 == 0 { continue }`) -/
def alt {α : Type} : Bool → List α → List α
  | _, [] => []
  | true, _ :: xs => alt false xs
  | false, x :: xs => x :: alt true xs

theorem everyOther_eq_alt (ps : List Knut.Posting) : JournalPrinter.everyOther ps = alt true ps := by
  fun_induction JournalPrinter.everyOther ps with
  | case1 a b rest ih => simp [alt, ih]
  | case2 ps h =>
    match ps, h with
    | [], _ => rfl
    | [a], _ => rfl
    | a :: b :: rest, h => exact absurd rfl (h a b rest)

/-- the text of the postings `printTransaction` prints -/
def postingLines (pad : Nat) (ps : List Knut.Posting) : String :=
  String.join (ps.map (fun q => JournalPrinter.printPosting pad q ++ "\n"))

theorem imod2_nat (k : Nat) : (imod (k : Int) 2 = 0) ↔ k % 2 = 0 := by
  simp only [imod, Int.tmod_eq_emod_of_nonneg (Int.natCast_nonneg k)]
  omega

/-- the loop of `printTransaction` (first translation: inside the branch `t.Targets != nil`) -/
theorem printTransaction_range1_agrees (cur : String → Bool) (gt : transaction.Transaction) (start : Int) :
    ∀ (gps : List posting.Posting) (ps : List Knut.Posting) (k : Nat) (p : printer.Printer), AllRel (PRel cur) gps ps →
      printer.Printer.printTransaction.range1 gt start gps (k : Int) p =
        .next (wrote p (postingLines p.padding.toNat (alt (k % 2 == 0) ps))) := by
  intro gps ps k p h
  induction h generalizing k p with
  | nil => simp [printer.Printer.printTransaction.range1, alt, postingLines, wrote_empty]
  | @cons g q gs qs hg _ ih =>
    unfold printer.Printer.printTransaction.range1
    have hk : ((k : Int) + 1) = ((k + 1 : Nat) : Int) := by omega
    by_cases h2 : k % 2 = 0
    · have h3 : ((k + 1) % 2 == 0) = false := by simp; omega
      simp only [(imod2_nat k).mpr h2, decide_true, if_true, hk, ih, h2, beq_self_eq_true, alt, h3]
    · have h3 : ((k + 1) % 2 == 0) = true := by simp; omega
      have h4 : (k % 2 == 0) = false := by simp; omega
      have h5 : ¬ (imod (k : Int) 2 = 0) := fun e => h2 ((imod2_nat k).mp e)
      simp only [h5, decide_false, Bool.false_eq_true, if_false, printPosting_agrees cur _ g q hg, Write_agrees,
        Option.isSome_none, hk, ih, h3, h4, alt, wrote_wrote, wrote_padding, postingLines, List.map_cons, String.join_cons,
        String.append_assoc]

/-- the loop of `printTransaction` (second translation: after the branch `t.Targets != nil` was not taken) -/
theorem printTransaction_range2_agrees (cur : String → Bool) (gt : transaction.Transaction) (start : Int) :
    ∀ (gps : List posting.Posting) (ps : List Knut.Posting) (k : Nat) (p : printer.Printer), AllRel (PRel cur) gps ps →
      printer.Printer.printTransaction.range2 gt start gps (k : Int) p =
        .next (wrote p (postingLines p.padding.toNat (alt (k % 2 == 0) ps))) := by
  intro gps ps k p h
  induction h generalizing k p with
  | nil => simp [printer.Printer.printTransaction.range2, alt, postingLines, wrote_empty]
  | @cons g q gs qs hg _ ih =>
    unfold printer.Printer.printTransaction.range2
    have hk : ((k : Int) + 1) = ((k + 1 : Nat) : Int) := by omega
    by_cases h2 : k % 2 = 0
    · have h3 : ((k + 1) % 2 == 0) = false := by simp; omega
      simp only [(imod2_nat k).mpr h2, decide_true, if_true, hk, ih, h2, beq_self_eq_true, alt, h3]
    · have h3 : ((k + 1) % 2 == 0) = true := by simp; omega
      have h4 : (k % 2 == 0) = false := by simp; omega
      have h5 : ¬ (imod (k : Int) 2 = 0) := fun e => h2 ((imod2_nat k).mp e)
      simp only [h5, decide_false, Bool.false_eq_true, if_false, printPosting_agrees cur _ g q hg, Write_agrees,
        Option.isSome_none, hk, ih, h3, h4, alt, wrote_wrote, wrote_padding, postingLines, List.map_cons, String.join_cons,
        String.append_assoc]

theorem descText_idem (s : String) : JournalPrinter.descText (JournalPrinter.descText s) = JournalPrinter.descText s := by
  unfold JournalPrinter.descText
  simp only [String.toList_ofList, List.map_map]
  congr 1
  apply List.map_congr_left
  intro c _
  by_cases h : c = '"' <;> simp [h]

/-- what `printTransaction` prints for the description of a Go transaction that stands for `t` (`TRel`: the description as parsed
or already with its quotes replaced) -/
theorem desc_agrees {gd td : String} (h : gd = td ∨ gd = JournalPrinter.descText td) :
    Strings.ReplaceAll gd "\"" "'" = JournalPrinter.descText td := by
  rw [ReplaceAll_quote]
  cases h with
  | inl e => rw [e]
  | inr e => rw [e, descText_idem]

theorem foldl_names (cur : String → Bool) (tg : List Knut.Commodity) (acc : List String) :
    List.foldl (fun (st : List String) (el : commodity.Commodity) => st ++ [commodity.Commodity.Name el]) acc
      (tg.map (commodityGo cur)) = acc ++ tg := by
  induction tg generalizing acc with
  | nil => simp
  | cons c rest ih => simp [ih, Commodity_Name]

/-- **`printTransaction`**: the `@performance(…)` line for non-nil targets (an empty, non-nil slice prints `@performance()`), the
date and the description with `"` replaced, every other posting -/
theorem printTransaction_agrees (cur : String → Bool) (p : printer.Printer) (g : transaction.Transaction) (t : Knut.Transaction)
    (hr : TRel cur g t) (hd : DateOK t.date) :
    printer.Printer.printTransaction p g =
      (wrote p (JournalPrinter.printTx p.padding.toNat t), Strings.byteLen (JournalPrinter.printTx p.padding.toNat t), none) := by
  obtain ⟨hdate, hdesc, hps, htg⟩ := hr
  unfold printer.Printer.printTransaction JournalPrinter.printTx
  simp only [htg, hdate, FormatISO_agrees _ hd, desc_agrees hdesc, Write_agrees, Option.isSome_none, Bool.false_eq_true, if_false,
    wrote_wrote, wrote_padding]
  have h0 : ((0 : Int)) = ((0 : Nat) : Int) := rfl
  cases htt : t.targets with
  | none =>
    simp only [Option.map_none, Option.isSome_none, Bool.false_eq_true, if_false]
    rw [h0, printTransaction_range2_agrees cur g _ _ _ 0 _ hps]
    simp only [wrote_wrote, wrote_padding, wrote_count_sub, everyOther_eq_alt, postingLines, String.append_assoc,
      String.empty_append]
    rfl
  | some tg =>
    simp only [Option.map_some, Option.isSome_some, if_true, Option.getD_some, zero_list, foldl_names, List.nil_append,
      Join_agrees]
    rw [h0, printTransaction_range1_agrees cur g _ _ _ 0 _ hps]
    simp only [wrote_wrote, wrote_padding, wrote_count_sub, everyOther_eq_alt, postingLines, String.append_assoc]
    rfl

/-! ## `PrintDirective`, `PrintDirectiveLn` -/

/-- the text of one directive (the model has one function per kind) -/
def printDirective (pad : Nat) : Knut.Directive → String
  | .price p => JournalPrinter.printPrice p
  | .opening o => JournalPrinter.printOpen o
  | .tx t => JournalPrinter.printTx pad t
  | .assertion a => JournalPrinter.printAssertion a
  | .closing c => JournalPrinter.printClose c

/-- **`PrintDirective`**: the type switch over the dynamic type of the directive -/
theorem PrintDirective_agrees (cur : String → Bool) (p : printer.Printer) (g : model.Directive) (d : Knut.Directive)
    (hr : DirRel cur g d) (hd : DateOK d.date) :
    printer.Printer.PrintDirective p g =
      .ok (wrote p (printDirective p.padding.toNat d), Strings.byteLen (printDirective p.padding.toNat d), none) := by
  unfold printer.Printer.PrintDirective
  cases g <;> cases d <;> simp only [DirRel] at hr
  · rename_i g a; simp only [printAssertion_agrees cur p g a hr hd, Outcome.bind, printDirective]
  · rename_i g c; simp only [printClose_agrees p g c hr hd, printDirective]
  · rename_i g o; simp only [printOpen_agrees p g o hr hd, printDirective]
  · rename_i g pr; simp only [printPrice_agrees cur p g pr hr hd, printDirective]
  · rename_i g t; simp only [printTransaction_agrees cur p g t hr hd, printDirective]

/-- a directive of any other dynamic type (nil included): nothing is written, the error is returned -/
theorem PrintDirective_other (p : printer.Printer) :
    printer.Printer.PrintDirective p .other = .ok (p, 0, some ⟨"unknown directive: %v"⟩) := rfl

/-- **`PrintDirectiveLn`**: the directive and a newline -/
theorem PrintDirectiveLn_agrees (cur : String → Bool) (p : printer.Printer) (g : model.Directive) (d : Knut.Directive)
    (hr : DirRel cur g d) (hd : DateOK d.date) :
    printer.Printer.PrintDirectiveLn p g =
      .ok (wrote p (printDirective p.padding.toNat d ++ "\n"), Strings.byteLen (printDirective p.padding.toNat d ++ "\n"), none) := by
  unfold printer.Printer.PrintDirectiveLn
  simp only [PrintDirective_agrees cur p g d hr hd, Outcome.bind, Option.isSome_none, Bool.false_eq_true, if_false, Write_agrees,
    wrote_wrote, wrote_count_sub]

theorem PrintDirectiveLn_other (p : printer.Printer) :
    printer.Printer.PrintDirectiveLn p .other = .ok (p, 0, some ⟨"unknown directive: %v"⟩) := by
  simp [printer.Printer.PrintDirectiveLn, PrintDirective_other, Outcome.bind]

/-! ## `UpdatePadding`, `Initialize` -/

/-- `UpdatePadding` in the model: the inner fold of `JournalPrinter.padding` -/
def padTx (m : Nat) (t : Knut.Transaction) : Nat :=
  t.postings.foldl (fun m p => max m (max (JournalPrinter.runeLen p.account.name) (JournalPrinter.runeLen p.other.name))) m

/-- `Initialize` in the model -/
def padDirs (m : Nat) (ds : List Knut.Directive) : Nat :=
  ds.foldl (fun m d => match d with | .tx t => padTx m t | _ => m) m

theorem padding_eq (days : List Knut.Day) :
    JournalPrinter.padding days = days.foldl (fun m d => d.transactions.foldl padTx m) 0 := rfl

/-- the printer with another padding -/
def withPad (p : printer.Printer) (m : Nat) : printer.Printer := { p with padding := (m : Int) }

@[simp] theorem withPad_padding (p : printer.Printer) (m : Nat) : (withPad p m).padding.toNat = m := by simp [withPad]
theorem withPad_withPad (p : printer.Printer) (m k : Nat) : withPad (withPad p m) k = withPad p k := rfl
theorem withPad_self (p : printer.Printer) (h : 0 ≤ p.padding) : withPad p p.padding.toNat = p := by
  obtain ⟨w, pad, c⟩ := p
  simp only [withPad, printer.Printer.mk.injEq, true_and, and_true]
  simp only at h
  omega

theorem update_step (p : printer.Printer) (a b : Nat) (h0 : 0 ≤ p.padding) :
    (let p1 : printer.Printer := if decide (p.padding < (a : Int)) then { p with padding := (a : Int) } else p
     if decide (p1.padding < (b : Int)) then { p1 with padding := (b : Int) } else p1) =
      withPad p (max p.padding.toNat (max a b)) := by
  obtain ⟨w, pad, c⟩ := p
  simp only at h0
  simp only [withPad]
  by_cases h1 : pad < (a : Int) <;> by_cases h2 : (a : Int) < (b : Int) <;> by_cases h3 : pad < (b : Int) <;>
    simp only [h1, h2, h3, decide_true, decide_false, if_true, if_false, Bool.false_eq_true, printer.Printer.mk.injEq, true_and,
      and_true] <;> omega

/-- the body of the loop of `UpdatePadding` -/
def updStep (p : printer.Printer) (pt : posting.Posting) : printer.Printer :=
  let cr : Int := Strings.RuneCount (account.Account.String pt.Account)
  let dr : Int := Strings.RuneCount (account.Account.String pt.Other)
  let p : printer.Printer := if decide (p.padding < cr) then { p with padding := cr } else p
  if decide (p.padding < dr) then { p with padding := dr } else p

theorem UpdatePadding_eq (p : printer.Printer) (g : transaction.Transaction) :
    printer.Printer.UpdatePadding p g = List.foldl updStep p g.Postings := rfl

theorem updStep_agrees (cur : String → Bool) (p : printer.Printer) (src : Ref) (q : Knut.Posting) (h0 : 0 ≤ p.padding) :
    updStep p (postingGo cur src q) =
      withPad p (max p.padding.toNat (max (JournalPrinter.runeLen q.account.name) (JournalPrinter.runeLen q.other.name))) :=
  update_step p q.account.name.length q.other.name.length h0

theorem UpdatePadding_loop (cur : String → Bool) (gps : List posting.Posting) (ps : List Knut.Posting) (h : AllRel (PRel cur) gps ps) :
    ∀ (p : printer.Printer), 0 ≤ p.padding →
      List.foldl updStep p gps =
      withPad p (ps.foldl (fun m p => max m (max (JournalPrinter.runeLen p.account.name) (JournalPrinter.runeLen p.other.name)))
        p.padding.toNat) := by
  induction h with
  | nil => intro p h0; simp [withPad_self p h0]
  | @cons g q gs qs hg _ ih =>
    intro p h0
    unfold PRel at hg
    rw [List.foldl_cons, List.foldl_cons, hg, updStep_agrees cur p _ q h0, ih _ (by simp [withPad])]
    simp [withPad_withPad]

/-- **`UpdatePadding`**: the padding becomes the maximum of itself and the rune counts of the account names of the postings -/
theorem UpdatePadding_agrees (cur : String → Bool) (p : printer.Printer) (g : transaction.Transaction) (t : Knut.Transaction)
    (hr : TRel cur g t) (h0 : 0 ≤ p.padding) :
    printer.Printer.UpdatePadding p g = withPad p (padTx p.padding.toNat t) := by
  rw [UpdatePadding_eq]
  exact UpdatePadding_loop cur g.Postings t.postings hr.2.2.1 p h0

/-- the body of the loop of `Initialize` -/
def initStep (p : printer.Printer) (d : model.Directive) : printer.Printer :=
  match d with
  | .Transaction t => printer.Printer.UpdatePadding p t
  | _ => p

theorem Initialize_eq (p : printer.Printer) (gds : List model.Directive) :
    printer.Printer.Initialize p gds = List.foldl initStep p gds := by
  have e : ∀ (st : printer.Printer) (el : model.Directive),
      (match el with
        | model.Directive.Transaction t => printer.Printer.UpdatePadding st t
        | model.Directive.Assertion _ => st
        | model.Directive.Close _ => st
        | model.Directive.Open _ => st
        | model.Directive.Price _ => st
        | model.Directive.other => st) = initStep st el := by
    intro st el; cases el <;> rfl
  show List.foldl (fun st el => _) p gds = _
  induction gds generalizing p with
  | nil => rfl
  | cons g gs ih =>
    rw [List.foldl_cons, List.foldl_cons, ih]
    congr 1
    exact e p g

/-- **`Initialize`**: `UpdatePadding` for every transaction among the directives -/
theorem Initialize_agrees (cur : String → Bool) (gds : List model.Directive) (ds : List Knut.Directive)
    (h : AllRel (DirRel cur) gds ds) :
    ∀ (p : printer.Printer), 0 ≤ p.padding → printer.Printer.Initialize p gds = withPad p (padDirs p.padding.toNat ds) := by
  intro p h0
  rw [Initialize_eq]
  unfold padDirs
  induction h generalizing p with
  | nil => simp [withPad_self p h0]
  | @cons g d gs ds hg _ ih =>
    rw [List.foldl_cons, List.foldl_cons]
    cases g <;> cases d <;> simp only [DirRel] at hg
    · exact ih p h0
    · exact ih p h0
    · exact ih p h0
    · exact ih p h0
    · rename_i g t
      simp only [initStep, UpdatePadding_agrees cur p g t hg h0]
      rw [ih _ (by simp [withPad])]
      simp [withPad_withPad]

/-! ## non-vacuity: the translated definitions evaluated on concrete directives -/

example : printer.Printer.PrintDirectiveLn ⟨"", 12, 0⟩ (.Open ⟨⟨0⟩, 738885, accountGo ⟨["Assets", "Bank"]⟩⟩)
    = .ok (⟨"2024-01-01 open Assets:Bank\n", 12, 28⟩, 28, none) := by decide +kernel

/-- an empty, non-nil `Targets` slice prints `@performance()`; the `"` of the description are replaced; of the two postings of the
booking only the second is printed, padded to 12 runes (`é` counts once) -/
example : (printer.Printer.printTransaction ⟨"", 12, 0⟩
    ⟨⟨1⟩, 738885, "say \"hi\"", [⟨⟨2⟩, -5, 0, accountGo ⟨["Assets", "Bank"]⟩, accountGo ⟨["Expenses", "Café"]⟩, ⟨"CHF", true⟩⟩,
                                 ⟨⟨2⟩, 5, 0, accountGo ⟨["Expenses", "Café"]⟩, accountGo ⟨["Assets", "Bank"]⟩, ⟨"CHF", true⟩⟩], some []⟩).1.writer
    = "@performance()\n2024-01-01 \"say 'hi'\"\nAssets:Bank  Expenses:Café          5 CHF\n" := by decide +kernel

end Knut.FactsAgree.TransJPrinter
