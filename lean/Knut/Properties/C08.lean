import Knut.Proofs.SyntaxFormat
/-!
# C08 — format preserves meaning and comments and is idempotent

`format text f` is the model of `printer.Format` / `syntax.FormatFile` on the tree `f` the parser returned for
`text` (`none` = a slice bound violated, Go's panic); `formatFile path text` is `formatRunner.formatFile`
(parse first, buffer the whole result, then replace the file).
-/
namespace Knut.C08
open Knut Knut.Syntax Knut.Spec.Syntax Knut.Utf8

/-- **a file that does not parse is left exactly as it was**: the command's only write happens after a successful
parse (the write itself is `atomic.WriteFile`, C18). -/
theorem C08_unparseable_untouched {path : String} {text : Bytes} {e : Err} (h : parseText path text = .error e) :
    formatFile path text = .rejected e ∧ (formatFile path text).fileAfter text = text := by
  simp [formatFile, h, FormatOutcome.fileAfter]

/-- **all text between directives is kept byte for byte**: the output is `gap₀ ++ r₁ ++ gap₁ ++ … ++ gapₙ` with the
input's own gap slices and `rᵢ` the rendering of directive `i` from the slices of its own fields. -/
theorem C08_gaps_verbatim {text : Bytes} {f : File} {out : Bytes} (h : format text f = some out) :
    ∃ padding rs, f.directives.mapM (printDirective text padding) = some rs ∧
      out = interleave (gapsOf text 0 (f.directives.map (·.range))) rs := by
  obtain ⟨padding, rs, _, h1, h2⟩ := format_shape h
  exact ⟨padding, rs, h1, h2⟩

end Knut.C08
