import Knut.Proofs.Accrual
import Knut.FactsAgree.C10
/-!
# C10 — Accruals move amounts in time without creating or losing money

Setting: `t : TxInput` is a parsed transaction carrying `@accrue <interval> <start> <end> <account>`
(`t.accrual = some ad`), `create t = .ok gen` says that `transaction.Create` returned the
transactions `gen`.  `postingsOf t.bookings` is what the original transaction books (every booking
as its credit/debit posting pair), `booked a c ps` / `bookedTxs a c gen` the total quantity booked on
account `a` in commodity `c`.  Statements hold for any number of bookings, all account types, any
quantities (negative, zero, many decimals), every interval of the model (the parser admits daily,
weekly, monthly, quarterly) and every window with `start ≤ end`, independent of the date.

The code iterates over ALL postings, i.e. both halves of every booking.  Consequently (a) a booking
between two income/expense accounts is split on both sides, one between two other accounts gives
two transactions on the original date, and (b) conservation holds for EVERY account, the accrual
account included: it ends with exactly what the original transaction books on it — zero when the
transaction does not touch it (`C10_accrual_nets_zero`), the original amount when it does.
Only property theorems and their non-vacuity examples live here.
-/
namespace Knut.C10
open Knut Knut.Dec Knut.Accrual Knut.Spec

/-- what `create` does on an annotated transaction that it accepts -/
theorem create_ok {t : TxInput} {ad : Addon} {gen : List Transaction}
    (ha : t.accrual = some ad) (h : create t = .ok gen) :
    ad.start ≤ ad.stop ∧
    expandLoop { date := t.date, description := t.description, postings := postingsOf t.bookings, targets := t.targets }
      ad (postingsOf t.bookings) = .ok gen := by
  unfold create at h
  split at h
  · cases h
  · simp only [ha] at h
    unfold expand at h
    split at h
    · cases h
    · split at h
      · cases h
      · rename_i hle
        split at h
        · cases h
        · rename_i txs hx
          injection h with h
          subst h
          exact ⟨by omega, hx⟩

/-- **each generated transaction balances**: it consists of two postings that are negations of each
other (same commodity, mirrored accounts, opposite quantities), one of them on the accrual account. -/
theorem C10_each_balances {t : TxInput} {ad : Addon} {gen : List Transaction}
    (ha : t.accrual = some ad) (h : create t = .ok gen) :
    ∀ g ∈ gen, balancedPair ad.account g = true :=
  expandLoop_balanced _ ad _ gen (create_ok ha h).2

/-- **conservation, every account**: for every account (the accrual account included) and every
commodity, the total booked over all generated transactions equals what the original booked. -/
theorem C10_conserves_all {t : TxInput} {ad : Addon} {gen : List Transaction}
    (ha : t.accrual = some ad) (h : create t = .ok gen) (a : Account) (c : Commodity) :
    bookedTxs a c gen = booked a c (postingsOf t.bookings) := by
  rw [bookedTxs_expandLoop _ ad _ gen (create_ok ha h).2 a c, comSum_postingsOf]
  split <;> grind

/-- **conservation** as the property states it: for every account other than the accrual account. -/
theorem C10_conserves {t : TxInput} {ad : Addon} {gen : List Transaction}
    (ha : t.accrual = some ad) (h : create t = .ok gen) (a : Account) (_hne : a ≠ ad.account) (c : Commodity) :
    bookedTxs a c gen = booked a c (postingsOf t.bookings) :=
  C10_conserves_all ha h a c

/-- **the accrual account nets to zero** in every commodity, provided the original transaction does
not itself book on it … -/
theorem C10_accrual_nets_zero {t : TxInput} {ad : Addon} {gen : List Transaction}
    (ha : t.accrual = some ad) (h : create t = .ok gen)
    (huntouched : ∀ b ∈ t.bookings, b.credit ≠ ad.account ∧ b.debit ≠ ad.account) (c : Commodity) :
    bookedTxs ad.account c gen = 0 := by
  rw [C10_conserves_all ha h, booked_untouched ad.account c t.bookings huntouched]

/- Full statement of the clause: "the accrual account nets to zero" for EVERY annotated transaction.
This is false as a literal statement when a booking of the transaction itself is on the accrual
account (`Assets:Prepaid Expenses:Tax 100 CHF` with `@accrue … Assets:Prepaid`): the account then
keeps what the original booked (−100), which is conservation, not loss.  Proved instead: … -/
/-- … and in general it ends with exactly what the original transaction books on it. -/
theorem C10_accrual_nets_zero_partial {t : TxInput} {ad : Addon} {gen : List Transaction}
    (ha : t.accrual = some ad) (h : create t = .ok gen) (c : Commodity) :
    bookedTxs ad.account c gen = booked ad.account c (postingsOf t.bookings) :=
  C10_conserves_all ha h ad.account c

/-- **dates and periods**: the generated list is, posting by posting in order, what `LegShape` says: an
income/expense posting gives one transaction per period of `periodsOf [start, end] interval` (the
partition of C11), dated at the period ends in order and described `"<description> (accrual i/n)"`;
any other posting (assets, liabilities, equity) gives one transaction on the original date with the
original description.  Each books the posting's account and commodity against the accrual account,
the quantities adding up to the posting's quantity. -/
theorem C10_dates {t : TxInput} {ad : Addon} {gen : List Transaction}
    (ha : t.accrual = some ad) (h : create t = .ok gen) :
    Legs { date := t.date, description := t.description, postings := postingsOf t.bookings, targets := t.targets }
      ad (postingsOf t.bookings) gen :=
  expandLoop_legs _ ad _ gen (create_ok ha h).2

/-- the number of transactions an income/expense posting gives is the number of periods, which is
positive for `start ≤ end` -/
theorem C10_period_count (ad : Addon) (hle : ad.start ≤ ad.stop) :
    0 < (periodsOf ⟨ad.start, ad.stop⟩ ad.interval 0).length :=
  List.length_pos_iff.mpr (periodsOf_ne_nil ⟨ad.start, ad.stop⟩ ad.interval hle)

/-- **`quoRem_sum`**: the split `amount, rem := quantity.QuoRem(n, 1)` loses nothing: `n·amount + rem = quantity`
(for `n ≠ 0`, the only case in which `QuoRem` returns). -/
theorem C10_quoRem_sum (x n : Rat) (p : Nat) (q r : Rat) (h : quoRem x n p = some (q, r)) :
    n ≠ 0 ∧ q * n + r = x :=
  ⟨quoRem_ne_zero x n p (q, r) h, quoRem_sum x n p q r h⟩

/-- **a non-empty window expands**: with valid accounts, `start ≤ end` and a start other than Go's zero
time, `Create` returns transactions (no error, no panic). -/
theorem C10_expands (t : TxInput) (ad : Addon) (ha : t.accrual = some ad)
    (hwf : t.bookings.all (fun b => b.credit.wf && b.debit.wf) = true) (hacc : ad.account.wf = true)
    (hle : ad.start ≤ ad.stop) (h0 : ad.start ≠ 0) : ∃ gen, create t = .ok gen := by
  obtain ⟨txs, hx⟩ := expandLoop_ok
    { date := t.date, description := t.description, postings := postingsOf t.bookings, targets := t.targets }
    ad (postingsOf t.bookings) h0 hle
  refine ⟨txs, ?_⟩
  unfold create
  simp only [hwf, ha, expand, hacc]
  have : ¬ ad.stop < ad.start := by omega
  simp [this, hx]

/-- an empty window (`end < start`) is rejected with an error before any expansion. -/
theorem C10_inverted_rejected (t : TxInput) (ad : Addon) (ha : t.accrual = some ad) (hinv : ad.stop < ad.start) :
    create t = .error := by
  unfold create
  split
  · rfl
  · simp only [ha, expand]
    split
    · rfl
    · simp [hinv]

/-- the guard of the code, stated as it is: a window starting at Go's zero time (0001-01-01) panics in
`NewPartition` as soon as an income/expense posting is reached (known finding). -/
theorem C10_zero_start_panics (t : TxInput) (ad : Addon) (ha : t.accrual = some ad)
    (hwf : t.bookings.all (fun b => b.credit.wf && b.debit.wf) = true) (hacc : ad.account.wf = true)
    (h0 : ad.start = 0) (hle : ad.start ≤ ad.stop)
    (hie : ∃ p ∈ postingsOf t.bookings, p.account.isIE = true) :
    create t = .panic "can't create partition with zero time" := by
  unfold create
  simp only [hwf, ha, expand, hacc]
  have : ¬ ad.stop < ad.start := by omega
  simp [this, expandLoop_zero_panics _ ad _ h0 hie]

/-- the monitor's predicate holds of the model for every input … -/
theorem C10_accrualOK {t : TxInput} {ad : Addon} {gen : List Transaction}
    (ha : t.accrual = some ad) (h : create t = .ok gen) :
    accrualOK (postingsOf t.bookings) t.date ad gen = true := by
  simp only [accrualOK, Bool.and_eq_true]
  refine ⟨⟨?_, ?_⟩, ?_⟩
  · simp only [List.all_eq_true]
    exact C10_each_balances ha h
  · simp only [conservedB, List.all_eq_true, decide_eq_true_eq]
    intro ac _
    exact C10_conserves_all ha h ac.1 ac.2
  · exact expandLoop_dates _ ad _ gen (create_ok ha h).2

/-- … and what it means for any observed list `gen` (in particular the real code's). -/
theorem C10_accrualOK_sound (orig : List Posting) (date : Int) (ad : Addon) (gen : List Transaction)
    (h : accrualOK orig date ad gen = true) :
    (∀ g ∈ gen, balancedPair ad.account g = true) ∧
    (∀ a c, bookedTxs a c gen = booked a c orig) ∧
    datesB date ((periodsOf ⟨ad.start, ad.stop⟩ ad.interval 0).map (·.stop)) orig gen = true := by
  simp only [accrualOK, Bool.and_eq_true] at h
  obtain ⟨⟨h1, h2⟩, h3⟩ := h
  exact ⟨by simpa [List.all_eq_true] using h1, conservedB_sound orig gen h2, h3⟩

/-! Non-vacuity: the README example (12000 USD of taxes paid 2020-03-24, accrued monthly over
2020-01-01 … 2020-12-01 on Assets:PrepaidTax; day numbers 737424 … 737759, date 737507). -/
def readme : TxInput :=
  { date := 737507, description := "2020 Taxes",
    bookings := [{ credit := ⟨["Assets", "BankAccount"]⟩, debit := ⟨["Expenses", "Taxes"]⟩, quantity := 12000, commodity := "USD" }],
    accrual := some { interval := .monthly, start := 737424, stop := 737759, account := ⟨["Assets", "PrepaidTax"]⟩ } }

example : ∃ gen, create readme = .ok gen :=
  C10_expands readme _ rfl (by decide) (by decide) (by decide) (by decide)
example : ∃ p ∈ postingsOf readme.bookings, p.account.isIE = true := by decide
example : ∀ b ∈ readme.bookings, b.credit ≠ ⟨["Assets", "PrepaidTax"]⟩ ∧ b.debit ≠ ⟨["Assets", "PrepaidTax"]⟩ := by decide
example : ∃ qr, quoRem 100 3 1 = some qr := quoRem_isSome 100 3 1 (by decide)

end Knut.C10
