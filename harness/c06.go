package main

import (
	"fmt"
	"os"
	"path"
	"path/filepath"
	"sort"
	"strings"
	"time"
)

func init() { runners["C06"] = runC06 }

type c06Job struct {
	Idx    int
	Kind   string
	Args   []string          // argv after the binary; "@F" entries are replaced by file paths
	Files  map[string]string // relative path -> content
	Input  map[string]any
	Runs   []c06Run
	Quiet  bool   // run two of three repetitions without the schedule-perturbation hook (it slows the loader's converters down)
	Mixed  bool   // every fourth repetition runs without the hook (the natural schedule), the others rotate seeds and GOMAXPROCS
	Plain  bool   // stream `floatties`: only Go's per-process map seed matters; three of four repetitions run without the hook
	Reps   int    // number of repetitions (0: the tier's default)
	Fault  string // stream `failing`: what is wrong with the include tree ("none": it loads)
	NFiles int    // number of journal files of the case
}

type c06Run struct {
	Env    []string
	Code   int
	Stdout string
	Stderr string
}

// c06TieJournal builds a journal rich in ties: sibling accounts with equal values, diamond-shaped
// price graphs (two equally long chains), same-day directives.
func c06TieJournal(r *RNG) (*Journal, string) {
	j := &Journal{}
	day := 737000 + r.Intn(1000)
	val := "CHF"
	// diamond: X priced in A and B, A and B priced in CHF (inconsistent cross rates)
	j.Dirs = append(j.Dirs,
		JDir{Kind: 'p', Date: day, Com: "AAA", Price: fmt.Sprintf("%d.%d", r.Range(1, 3), r.Intn(10)), Target: val},
		JDir{Kind: 'p', Date: day, Com: "BBB", Price: fmt.Sprintf("%d.%d", r.Range(1, 3), r.Intn(10)), Target: val},
		JDir{Kind: 'p', Date: day, Com: "XXX", Price: fmt.Sprintf("%d", r.Range(2, 9)), Target: "AAA"},
		JDir{Kind: 'p', Date: day, Com: "XXX", Price: fmt.Sprintf("%d", r.Range(2, 9)), Target: "BBB"},
		// commodities that differ from others only in letter case are distinct commodities
		JDir{Kind: 'p', Date: day, Com: "chf", Price: "1", Target: val},
		JDir{Kind: 'p', Date: day, Com: "Aaa", Price: "3", Target: val},
	)
	names := []string{"Assets:Bank:A", "Assets:Bank:B", "Assets:Bank:C", "Assets:Broker:D", "Assets:Broker:E", "Liabilities:Card:F", "Expenses:Food:G", "Expenses:Food:H", "Income:Job:I", "Equity:Equity"}
	for _, a := range names {
		j.Dirs = append(j.Dirs, JDir{Kind: 'o', Date: day, Account: a})
	}
	amt := fmt.Sprintf("%d", r.Range(1, 500))
	for d := 0; d < r.Range(1, 3); d++ {
		for _, a := range names[:9] {
			if r.Chance(3, 4) {
				c := Pick(r, []string{"CHF", "CHF", "AAA", "XXX", "BBB", "chf", "Aaa"})
				j.Dirs = append(j.Dirs, JDir{Kind: 't', Date: day + d*17, Desc: "same", Bookings: []JBook{{"Equity:Equity", a, amt, c}}})
			}
		}
		if d > 0 {
			j.Dirs = append(j.Dirs, JDir{Kind: 'p', Date: day + d*17, Com: "AAA", Price: fmt.Sprintf("%d.%d", r.Range(1, 3), r.Intn(10)), Target: val})
		}
	}
	return j, val
}

func runC06(c *Ctx) {
	n := c.N(320, 4000)
	reps := c.N(8, 30)
	dir := filepath.Join(c.WorkDir, "c06")
	var jobs []*c06Job
	add := func(j *c06Job) { jobs = append(jobs, j) }
	// C06_STREAM=<name>: run one stream only (development aid; the check never sets it)
	want := func(stream string, i int) bool {
		only := os.Getenv("C06_STREAM")
		return (only == "" || only == stream) && c.Want(stream, i)
	}
	for i := 0; i < n; i++ {
		if !want("repeat", i) {
			continue
		}
		r := c.Rng("repeat", i)
		var j *Journal
		val := ""
		if r.Chance(1, 2) {
			j, val = c06TieJournal(r)
		} else {
			o := JGenOpts{MaxAccounts: r.Range(3, 8), MaxDays: r.Range(1, 6), Unicode: true, BaseDay: 737000 + r.Intn(1500), SpanDays: Pick(r, []int{0, 30, 300}), Prices: true, Valuation: "CHF", ChainPrices: true, CaseVariants: true, Accruals: r.Chance(1, 2), ManyPricesPerDay: r.Chance(1, 3), DupPrices: r.Chance(1, 3)}
			j, _ = GenJournal(r, o)
			val = "CHF"
		}
		c06EnrichTargets(c.Rng("repeat-targets", i), j)
		text, _ := j.Text()
		f := GenBalFlags(r, j, val, BalGenOpts{Valued: true})
		if r.Chance(1, 2) {
			f.SortAlpha = false
		}
		files := map[string]string{"j.knut": text}
		in := map[string]any{"journal": text}
		switch i % 8 {
		case 0, 1, 2:
			add(&c06Job{Idx: i, Kind: "balance", Args: append(append([]string{"balance"}, f.Args()...), "@j.knut"), Files: files, Input: in})
		case 3:
			add(&c06Job{Idx: i, Kind: "print", Args: []string{"print", "@j.knut"}, Files: files, Input: in})
		case 4:
			add(&c06Job{Idx: i, Kind: "check-write", Args: []string{"check", "--write", "@j.knut"}, Files: files, Input: in})
		case 5:
			add(&c06Job{Idx: i, Kind: "transcode", Args: []string{"transcode", "-v", val, "@j.knut"}, Files: files, Input: in})
		case 6:
			wf := BalFlags{Val: val, Interval: Pick(r, []int{0, 3, 5}), To: f.To}
			args := append([]string{"portfolio", "weights"}, wf.Args()[1:]...)
			add(&c06Job{Idx: i, Kind: "weights", Args: append(append(args, "--csv"), "@j.knut"), Files: files, Input: in})
			{
				// a universe file: classes are a YAML map (map iteration order); a commodity listed under two classes must be
				// rejected the same way on every run (seeded change C06-e kept the first classification met)
				_, coms := journalNames(j)
				var ub strings.Builder
				classes := []string{"Equity:US", "Equity:CH", "Cash", "Bonds:Gov:Long", "Other"}
				dup := r.Chance(1, 2) && len(coms) > 0
				for k, c := range coms {
					fmt.Fprintf(&ub, "\"%s\": [%s]\n", classes[k%len(classes)], c)
				}
				if dup {
					fmt.Fprintf(&ub, "\"Alternatives\": [%s]\n\"Zeta:Zz\": [%s]\n", coms[0], coms[len(coms)-1])
				}
				ufiles := map[string]string{"j.knut": text, "uni.yaml": ub.String()}
				uin := map[string]any{"journal": text, "universe": ub.String()}
				add(&c06Job{Idx: i, Kind: "weights-universe", Args: append(append(append([]string{}, args...), "--universe", "@uni.yaml"), "@j.knut"), Files: ufiles, Input: uin})
			}
			// portfolio returns: float64 sums over per-commodity maps (found on the unchanged tree by C19's stream after accrued
			// expenses in a priced commodity were added to its journals: `0.0%` in some runs, `-0.0%` in others; repaired by 6606650)
			rf := BalFlags{Val: val, Interval: Pick(r, []int{2, 3, 3, 4}), To: f.To}
			add(&c06Job{Idx: i, Kind: "returns", Args: append(append([]string{"portfolio", "returns"}, rf.Args()[1:]...), "@j.knut"), Files: files, Input: in})
		case 7:
			// infer with ties: several candidates seen equally often with the same tokens; training split over included files
			var tr, tr2 strings.Builder
			cands := []string{"Expenses:Zurich", "Expenses:Geneva", "Expenses:Bern", "Expenses:Aarau"}
			for k, cnd := range cands {
				line := fmt.Sprintf("2020-01-0%d \"monthly rent\"\nAssets:Bank %s %d CHF\n\n", k+1, cnd, 1500)
				if k%2 == 0 {
					tr.WriteString(line)
				} else {
					tr2.WriteString(line)
				}
			}
			training := "include \"t2.knut\"\n\n" + tr.String()
			target := "2021-03-05 \"monthly rent\"\nAssets:Bank Expenses:TBD 1500 CHF\n\n2021-03-06 \"other\"\nExpenses:TBD Assets:Bank 3 CHF\n"
			fs := map[string]string{"train.knut": training, "t2.knut": tr2.String(), "target.knut": target}
			add(&c06Job{Idx: i, Kind: "infer", Args: []string{"infer", "-t", "@train.knut", "@target.knut"}, Files: fs, Input: map[string]any{"training": training, "t2": tr2.String(), "target": target}})
			// revolut2 with several currencies per day
			var csv strings.Builder
			csv.WriteString("Type,Product,Started Date,Completed Date,Description,Amount,Fee,Currency,State,Balance\n")
			for k := 0; k < r.Range(3, 12); k++ {
				d := 1 + r.Intn(3)
				cur := Pick(r, []string{"CHF", "EUR", "USD", "GBP", "JPY"})
				fmt.Fprintf(&csv, "CARD_PAYMENT,Current,2020-07-%02d 10:00:00,2020-07-%02d 11:00:00,shop %d,-%d.50,0.00,%s,COMPLETED,%d.00\n", d, d, k, r.Range(1, 90), cur, r.Range(1, 900))
			}
			add(&c06Job{Idx: i, Kind: "import-revolut2", Args: []string{"import", "revolut2", "-a", "Assets:Revolut", "-f", "Expenses:Fees", "@stmt.csv"},
				Files: map[string]string{"stmt.csv": csv.String()}, Input: map[string]any{"statement": csv.String()}})
		}
	}
	// journals spread over included files whose converter goroutines all meet the same not-yet-registered commodities and
	// accounts at the same moment (goroutine scheduling decides who registers them): seeded change C06-c lost the re-check
	// under the registry's write lock, so that the report showed a commodity twice in some runs
	for i := 0; i < c.N(9, 60); i++ {
		if !want("shared", i) {
			continue
		}
		r := c.Rng("shared", i)
		nf, nc := r.Range(3, 12), r.Range(80, 400)
		files := map[string]string{}
		var root strings.Builder
		root.WriteString("2020-01-01 open Equity:A1\n2020-01-01 open Assets:A0\n\n")
		for f := 0; f < nf; f++ {
			var b strings.Builder
			for k := 0; k < nc; k++ {
				fmt.Fprintf(&b, "2020-01-%02d \"t\"\nEquity:A1 Assets:A0 %d K%d\n\n", 2+f, f+1, k)
			}
			files[fmt.Sprintf("f%d.knut", f)] = b.String()
			fmt.Fprintf(&root, "include \"f%d.knut\"\n", f)
		}
		files["root.knut"] = root.String()
		if i%3 == 2 {
			// ONE large file whose same-day directives (opens, prices — among them one pair declared many times on one day —
			// and assertions) are spread over its whole length: a loader that converts a file in concurrent batches delivers them
			// in completion order (seeded change C06-d: batches of >= 1024 directives)
			var b strings.Builder
			n := r.Range(3000, 9000)
			b.WriteString("2020-01-01 open Equity:A1\n\n")
			for k := 0; k < n; k++ {
				switch k % 5 {
				case 0:
					fmt.Fprintf(&b, "2020-01-01 open Assets:B%d\n\n", k)
				case 1:
					fmt.Fprintf(&b, "2020-01-02 price P%d %d.%02d CHF\n\n", k%7, 1+k%97, k%100)
				case 2:
					fmt.Fprintf(&b, "2020-01-03 \"t%d\"\nEquity:A1 Assets:B%d %d P%d\n\n", k, k-2, 1+k%9, k%7)
				case 3:
					fmt.Fprintf(&b, "2020-01-03 balance Assets:B%d %d P%d\n\n", k-3, 1+(k-1)%9, (k-1)%7)
				default:
					fmt.Fprintf(&b, "2020-01-04 \"u%d\"\nEquity:A1 Assets:B%d 1 CHF\n\n", k, k-4)
				}
			}
			files = map[string]string{"root.knut": b.String()}
			in := map[string]any{"layout": fmt.Sprintf("one file of %d directives: directive k is, by k mod 5: `2020-01-01 open Assets:B<k>`, `2020-01-02 price P<k mod 7> <1+k mod 97>.<k mod 100> CHF`, a transaction on 2020-01-03 of 1+k mod 9 P<k mod 7> to Assets:B<k-2>, the matching assertion, a 1 CHF transaction on 2020-01-04", n)}
			kind, args := "print-big-file", []string{"print", "@root.knut"}
			if i%2 == 0 {
				kind, args = "balance-big-file", []string{"balance", "--color=false", "-v", "CHF", "@root.knut"}
			}
			add(&c06Job{Idx: 100000 + i, Kind: kind, Args: args, Files: files, Input: in, Quiet: true})
			continue
		}
		in := map[string]any{"layout": fmt.Sprintf("root.knut opens Equity:A1 and Assets:A0 and includes f0..f%d; file f books `Equity:A1 Assets:A0 <f+1> K<k>` for k < %d on 2020-01-<2+f>", nf-1, nc)}
		kind, args := "balance-shared-includes", []string{"balance", "--color=false", "@root.knut"}
		if i%3 == 1 {
			kind, args = "print-shared-includes", []string{"print", "@root.knut"}
		}
		add(&c06Job{Idx: 100000 + i, Kind: kind, Args: args, Files: files, Input: in, Quiet: true})
	}
	// include trees in which a file FAILS (stream `failing`): every command, one or two faults anywhere in the tree
	for i := 0; i < c.N(120, 600); i++ {
		if !want("failing", i) {
			continue
		}
		add(c06FailJob(c, i))
	}
	// exact ties reached through float-order-sensitive addends (stream `floatties`)
	for i := 0; i < c.N(72, 400); i++ {
		if !want("floatties", i) {
			continue
		}
		add(c06FloatTieJob(c, i))
	}
	// same-day directives of DIFFERENT files whose order matters (stream `arrival`): transactions tied under transaction.Compare
	// that differ in their @performance targets, and one price pair quoted differently on one day (both found by the census review)
	for i := 0; i < c.N(40, 240); i++ {
		if !want("arrival", i) {
			continue
		}
		add(c06ArrivalJob(c, i))
	}
	// journals split over 2-6 files whose first / last dated directive is of any kind and lives in a file other than (most of)
	// the transactions (stream `period`): the report period is folded over the directives in file arrival order
	for i := 0; i < c.N(72, 480); i++ {
		if !want("period", i) {
			continue
		}
		add(c06PeriodJob(c, i))
	}
	// transactions with every shape of `@performance(...)` annotation: 0-8 targets, repeated targets, the bookings' own
	// commodities, several spellings (stream `targets`)
	for i := 0; i < c.N(60, 480); i++ {
		if !want("targets", i) {
			continue
		}
		add(c06TargetsJob(c, i))
	}
	gomax := []string{"1", "2", "16"}
	parallelFor(len(jobs), 8, func(q int) {
		jb := jobs[q]
		d := filepath.Join(dir, fmt.Sprintf("%s-%d", jb.Kind, jb.Idx))
		os.MkdirAll(d, 0o755)
		for name, content := range jb.Files {
			if strings.HasSuffix(name, "/") { // a directory where a file is expected
				os.MkdirAll(filepath.Join(d, name), 0o755)
				continue
			}
			os.MkdirAll(filepath.Dir(filepath.Join(d, name)), 0o755)
			os.WriteFile(filepath.Join(d, name), []byte(content), 0o644)
			if strings.HasSuffix(name, ".knut") {
				jb.NFiles++
			}
		}
		args := make([]string, len(jb.Args))
		for k, a := range jb.Args {
			if strings.HasPrefix(a, "@") {
				a = filepath.Join(d, a[1:])
			}
			args[k] = a
		}
		nreps := reps
		if jb.Reps > 0 {
			nreps = jb.Reps
		}
		for rep := 0; rep < nreps; rep++ {
			env := []string{fmt.Sprintf("KNUT_VERIF_SEED=%d", rep*7919+jb.Idx+1), "GOMAXPROCS=" + gomax[rep%3]}
			if jb.Plain && rep%4 != 3 {
				env = env[1:]
			}
			if jb.Mixed && rep%4 == 3 {
				env = []string{"GOMAXPROCS=" + gomax[(rep/4)%3]}
			}
			if jb.Quiet {
				env = []string{"GOMAXPROCS=16"}
				if rep%3 == 2 {
					env = append(env, fmt.Sprintf("KNUT_VERIF_SEED=%d", rep*7919+jb.Idx+1))
				}
			}
			code, so, se := runKnut(c.KnutBin, 30*time.Second, env, args...)
			jb.Runs = append(jb.Runs, c06Run{Env: env, Code: code, Stdout: so, Stderr: se})
		}
		if (jb.Idx >= 200000 && jb.Idx < 300000 || jb.Idx >= 500000 && jb.Idx < 600000) && jb.Input["files"] == nil {
			jb.Files = nil // large trees are not kept in memory: the case is regenerated from (seed, stream, index)
		}
		if os.Getenv("C06_KEEP") == "" { // C06_KEEP=1: leave the case's files in the work directory (for a replay by hand)
			os.RemoveAll(d)
		}
	})
	for _, jb := range jobs {
		c.Evals++
		c.Tag(jb.Kind)
		r0 := jb.Runs[0]
		same := true
		detail := ""
		for k, rr := range jb.Runs[1:] {
			if rr.Code != r0.Code || rr.Stdout != r0.Stdout {
				same = false
				detail = fmt.Sprintf("run 0 (%v): exit %d\n%s\nrun %d (%v): exit %d\n%s", r0.Env, r0.Code, clip(r0.Stdout), k+1, rr.Env, rr.Code, clip(rr.Stdout))
				break
			}
		}
		in := map[string]any{"kind": jb.Kind, "args": strings.Join(jb.Args, " "), "files": jb.Files, "runs": len(jb.Runs)}
		stream, idx := "repeat", jb.Idx
		if jb.Idx >= 100000 {
			stream, idx = "shared", jb.Idx-100000
			delete(in, "files") // regenerated from the layout description (hundreds of kilobytes)
			in["layout"] = jb.Input["layout"]
		}
		if jb.Idx >= 200000 && jb.Idx < 300000 {
			stream, idx = "failing", jb.Idx-200000
			in["tree"], in["fault"] = jb.Input["tree"], jb.Fault
			if jb.Input["files"] == nil {
				delete(in, "files") // large: regenerated from (seed, stream, index); the tree description says what is in them
			}
		}
		if jb.Idx >= 300000 && jb.Idx < 400000 {
			stream, idx = "floatties", jb.Idx-300000
			delete(in, "layout")
			in["files"], in["shape"] = jb.Files, jb.Input["shape"]
		}
		if jb.Idx >= 400000 && jb.Idx < 500000 {
			stream, idx = "arrival", jb.Idx-400000
			in["files"], in["shape"] = jb.Files, jb.Input["shape"]
		}
		if jb.Idx >= 600000 {
			stream, idx = "targets", jb.Idx-600000
			delete(in, "layout")
			in["files"], in["shape"] = jb.Files, jb.Input["shape"]
		}
		if jb.Idx >= 500000 && jb.Idx < 600000 {
			stream, idx = "period", jb.Idx-500000
			delete(in, "layout")
			in["shape"] = jb.Input["shape"]
			if jb.Input["files"] == nil {
				delete(in, "files") // large: regenerated from (seed, stream, index); the shape says what is in them
			}
		}
		sameExit, exits, firstOther := true, "", ""
		for _, rr := range jb.Runs {
			if sameExit && rr.Code != r0.Code {
				firstOther = fmt.Sprintf("\nstderr of the first run with another status (%v):\n%s", rr.Env, rr.Stderr[:min(len(rr.Stderr), 600)])
			}
			sameExit = sameExit && rr.Code == r0.Code
			exits += fmt.Sprintf(" %d", rr.Code)
		}
		exits += firstOther
		c.Monitor(stream, idx, "same_exit_status_every_run", in, sameExit, "exit status of the runs:"+exits)
		if key := c06KnownDifference(jb); !same && key != "" {
			c.MonitorKnown(stream, idx, "same_output_every_run", in, detail, key)
		} else {
			c.Monitor(stream, idx, "same_output_every_run", in, same, detail)
		}
		c.Monitor(stream, idx, "no_panic", in, !strings.Contains(r0.Stderr, "panic:"), clip(r0.Stderr))
		if jb.Fault != "" {
			c.Tag("fault:" + jb.Fault)
			c.Class(fmt.Sprintf("c06/%s/%s/exit%d/len%s", jb.Kind, jb.Fault, r0.Code, bucket(len(r0.Stdout)/200)))
			continue
		}
		c.Class(fmt.Sprintf("c06/%s/exit%d/len%s", jb.Kind, r0.Code, bucket(len(r0.Stdout)/200)))
		if jb.Idx < 3 {
			c.Sample(map[string]any{"kind": jb.Kind, "args": strings.Join(jb.Args, " "), "exit": r0.Code, "stdout": clip(r0.Stdout)[:min(len(r0.Stdout), 600)]})
		}
	}
}

// ---------------------------------------------------------------- stream `failing`: include trees in which a file fails
//
// "Output is a function of the input alone" holds for inputs that are REJECTED as well: the exit status and the bytes on
// stdout may not depend on which loader goroutine met its error first, nor on how much of the rest of the tree had been
// parsed, converted or consumed by then. The loader parses every included file in a goroutine of its own under one
// cancellable context; when a file fails, its siblings are at arbitrary points of their work. A command that goes on with
// what has arrived so far (a dropped error, a consumer that is not joined, a result used although the producer failed)
// shows a schedule-dependent part of the journal (seeded change C06-f: `knut infer` lost the error of the training loader).
//
// One case = one include tree (2..30 files, nested, sub-directories) with own, recognisable content per file (its own
// expense account, its own description tokens, optionally its own `open`), file sizes from empty to thousands of
// directives (mixed / all equal / the faulty file the largest or the smallest, so that it fails before, among or after its
// siblings), and 0, 1 or 2 faults: a half-typed directive (first / middle / last in its file), an include of a missing
// file, of a directory, of an ancestor (cycle), or a directive the parser accepts and the journal rejects (failing
// assertion, unopened account, second open, booking before the open, close of a non-empty account). Commands: infer -t
// (the tree is the training journal; the target asks for every file's tokens), balance, print, check [--write], transcode,
// register, portfolio weights / returns. Every case runs `reps` times with different schedule seeds and GOMAXPROCS, every
// fourth run without the perturbation hook.

type c06TFile struct {
	rel    string
	parent int
	n      int      // own transactions
	blocks []string // directives (text blocks) in file order
}

var c06SyntaxFaults = []string{
	"2020-02-01 \"half", // unterminated description
	"2020-02-01 \"half typed\"\nAssets:Bank Expenses:Cat0 12", // booking without commodity
	"2020-02-01 \"half typed\"\nAssets:Bank",                  // booking without debit account
	"2020-02-01 open",
	"2020-02-01 ope Assets:Bank",
	"2020-02-01 price USD x CHF",
	"2020-02-01 balance Assets:Bank 1,5 CHF",
	"2020-02-",
	"@performance(",
	"@accrue monthly 2020-01-01",
	"include \"",
	"include f1.knut",
	"garbage",
	"\xff\xfe",
}

var c06ModelFaults = []string{
	"2020-04-01 balance Assets:Bank 12345 CHF",
	"2020-01-15 \"unopened\"\nAssets:Bank Expenses:Nope 1 CHF",
	"2019-12-31 open Assets:Bank",
	"2019-01-01 \"before the open\"\nAssets:Bank Equity:Opening 1 CHF",
	"2020-04-01 close Assets:Bank",
	"2020-04-02 close Assets:Never",
	"2020-02-30 open Assets:Other",                      // the parser takes any digits, the journal rejects the date
	"2020-02-01 \"x\"\nassets:bank Expenses:Cat0 1 CHF", // the parser takes any segments, the journal rejects the account type
}

func c06FailJob(c *Ctx, i int) *c06Job {
	r := c.Rng("failing", i)
	ra := c.Rng("failing-targets", i) // the `@performance(...)` annotations: draws of their own
	cmdSel := i % 8
	nf := r.Range(2, 9) // files besides the root
	sizes := []int{0, 1, 2, 5, 20, 60, 200, 600}
	if c.Thorough() {
		sizes = append(sizes, 2500)
		if r.Chance(1, 4) {
			nf = r.Range(10, 30)
		}
	}
	files := []*c06TFile{{rel: "root.knut", parent: -1}}
	for k := 1; k <= nf; k++ {
		parent := 0
		if r.Chance(1, 3) {
			parent = r.Intn(k)
		}
		files = append(files, &c06TFile{rel: path.Join(Pick(r, []string{"", "", "inc", "inc/deep", "other"}), fmt.Sprintf("f%d.knut", k)), parent: parent})
	}
	// faults
	// one fault; a sixth of the trees have two, a sixth none: the control cases, on which every command prints its whole report
	// about a journal whose files arrive in schedule order
	nfaults := 1
	switch r.Intn(12) {
	case 0, 1:
		nfaults = 0
	case 2, 3:
		nfaults = 2
	}
	if cmdSel == 6 && r.Chance(1, 3) {
		nfaults = 0 // register and transcode print one line per booking: more of their cases load
	}
	type fault struct {
		file      int
		kind, pos string
		text      string
	}
	var faults []fault
	kinds := []string{"syntax", "syntax", "syntax", "missing-include", "missing-include", "include-cycle", "include-dir", "model", "model"}
	if cmdSel < 3 {
		kinds = kinds[:7] // infer reads the training files' syntax only
	}
	for q := 0; q < nfaults; q++ {
		faults = append(faults, fault{file: r.Intn(nf + 1), kind: Pick(r, kinds), pos: Pick(r, []string{"first", "middle", "last", "last"})})
	}
	// portfolio returns prints while its pipeline runs: half of its cases are journals that are rejected on a late day
	// (a directive the journal rejects, in a file with many days before it)
	returns := cmdSel == 7 && r.Chance(2, 3)
	lateModel := returns && r.Chance(1, 2)
	if lateModel {
		faults = []fault{{file: r.Intn(nf + 1), kind: "model", pos: Pick(r, []string{"middle", "last"})}}
	}
	// sizes: mixed / all equal (every file races with the faulty one) / the faulty file at an extreme
	mode := r.Intn(3)
	eq := Pick(r, sizes[2:])
	for k, f := range files {
		f.n = Pick(r, sizes)
		if mode == 1 {
			f.n = eq
		}
		if k == 0 && r.Chance(1, 2) {
			f.n = Pick(r, sizes[:4]) // a root that is little more than a list of includes
		}
	}
	if mode == 2 && len(faults) > 0 {
		files[faults[0].file].n = Pick(r, []int{0, sizes[len(sizes)-1], sizes[len(sizes)-1]})
	}
	if lateModel {
		files[faults[0].file].n = Pick(r, sizes[5:])
	}
	// content
	var head strings.Builder
	head.WriteString("2019-12-31 open Assets:Bank\n2019-12-31 open Equity:Opening\n")
	coms := []string{"CHF", "CHF", "USD", "AAPL"}
	twins := r.Chance(1, 4) // two files share their tokens but book to different accounts (tied candidates)
	for k, f := range files {
		open := fmt.Sprintf("2019-12-31 open Expenses:Cat%d\n", k)
		if r.Chance(1, 3) {
			f.blocks = append(f.blocks, open)
		} else {
			head.WriteString(open)
		}
		com := Pick(r, coms)
		tok := k
		if twins && k == len(files)-1 {
			tok = k - 1
		}
		// a table of 12 annotations per file (transaction q takes entry q mod 12: transactions of one file that are equal in
		// everything else are equal in their annotation as well)
		var anns [12]string
		for q := range anns {
			if ra.Chance(1, 3) {
				anns[q] = c06Ann(ra, coms, []string{com}, true)
			}
		}
		for q := 0; q < f.n; q++ {
			f.blocks = append(f.blocks, fmt.Sprintf("%s2020-%02d-%02d \"shop%d w%d\"\nAssets:Bank Expenses:Cat%d %d %s\n", anns[q%12], 1+(q/28)%3, 1+q%28, tok, q%4, k, 1+(q*7+k)%90, com))
		}
	}
	files[0].blocks = append([]string{head.String()}, files[0].blocks...)
	pf := files[r.Intn(len(files))]
	pf.blocks = append(pf.blocks, "2019-12-31 price USD 0.9 CHF\n2019-12-31 price AAPL 150 CHF\n2020-02-01 price USD 0.95 CHF\n2020-02-01 price AAPL 140.5 CHF\n")
	insert := func(f *c06TFile, pos string, text string) {
		at := len(f.blocks)
		switch pos {
		case "first":
			at = 0
		case "middle":
			at = r.Intn(len(f.blocks) + 1)
		}
		f.blocks = append(f.blocks[:at:at], append([]string{text}, f.blocks[at:]...)...)
	}
	relTo := func(from, to *c06TFile) string {
		p, _ := filepath.Rel(path.Dir(from.rel), to.rel)
		return p
	}
	// include directives (children in index order, each at a random place of its parent)
	for k := 1; k < len(files); k++ {
		p := files[files[k].parent]
		insert(p, Pick(r, []string{"first", "middle", "last"}), fmt.Sprintf("include \"%s\"\n", relTo(p, files[k])))
	}
	out := map[string]string{}
	var faultNames []string
	for q, ft := range faults {
		f := files[ft.file]
		switch ft.kind {
		case "syntax":
			ft.text = Pick(r, c06SyntaxFaults)
			if ft.pos != "last" || r.Chance(1, 2) {
				ft.text += "\n"
			}
		case "model":
			ft.text = Pick(r, c06ModelFaults) + "\n"
		case "missing-include":
			ft.text = fmt.Sprintf("include \"%s\"\n", Pick(r, []string{"missing.knut", "inc/missing.knut", "../missing.knut", "f0.knut", ""}))
		case "include-dir":
			d := fmt.Sprintf("dir%d", q)
			out[path.Join(path.Dir(f.rel), d)+"/"] = ""
			ft.text = fmt.Sprintf("include \"%s\"\n", d)
		case "include-cycle":
			anc := ft.file
			for anc > 0 && r.Chance(1, 2) {
				anc = files[anc].parent
			}
			ft.text = fmt.Sprintf("include \"%s\"\n", relTo(f, files[anc]))
		}
		insert(f, ft.pos, ft.text)
		faults[q] = ft
		faultNames = append(faultNames, ft.kind+"-"+ft.pos)
	}
	sort.Strings(faultNames)
	faultName := strings.Join(faultNames, "+")
	if faultName == "" {
		faultName = "none"
	}
	total := 0
	var tree []string
	for k, f := range files {
		text := strings.Join(f.blocks, "\n")
		out[f.rel] = text
		total += len(text)
		line := fmt.Sprintf("%s: %d transactions of its own (tokens shop%d, account Expenses:Cat%d), %d bytes", f.rel, f.n, k, k, len(text))
		if k > 0 {
			line += ", included by " + files[f.parent].rel
		}
		for _, ft := range faults {
			if ft.file == k {
				line += fmt.Sprintf("; FAULT %s (%s): %q", ft.kind, ft.pos, ft.text)
			}
		}
		tree = append(tree, line)
	}
	// the command
	jb := &c06Job{Idx: 200000 + i, Files: out, Mixed: true, Fault: faultName}
	root := "@root.knut"
	switch cmdSel {
	case 0, 1, 2:
		// the target asks for the tokens of every file, in a random order, plus tokens no file has
		var tg strings.Builder
		acc := Pick(r, []string{"Expenses:TBD", "Expenses:TBD", "Expenses:Unknown"})
		order := make([]int, 0, 2*len(files))
		for k := range files {
			order = append(order, k, k)
		}
		for k := len(order) - 1; k > 0; k-- {
			q := r.Intn(k + 1)
			order[k], order[q] = order[q], order[k]
		}
		for n, k := range order {
			fmt.Fprintf(&tg, "2021-03-%02d \"shop%d w%d\"\nAssets:Bank %s %d CHF\n\n", 1+n%28, k, n%4, acc, 10+n)
		}
		fmt.Fprintf(&tg, "2021-04-01 \"never seen\"\n%s Assets:Bank 3 CHF\n", acc)
		out["target.knut"] = tg.String()
		total += tg.Len()
		jb.Kind, jb.Args = "infer", []string{"infer", "-t", root, "@target.knut"}
		if acc != "Expenses:TBD" {
			jb.Args = []string{"infer", "-a", acc, "--training-file", root, "@target.knut"}
		}
		if r.Chance(1, 6) {
			// the target is a file of the training tree itself
			jb.Args = []string{"infer", "-a", fmt.Sprintf("Expenses:Cat%d", r.Intn(len(files))), "-t", root, "@" + files[r.Intn(len(files))].rel}
		}
	case 3:
		fl := Pick(r, [][]string{{}, {"-v", "CHF"}, {"-v", "CHF", "--months", "--csv"}, {"--diff", "--weeks", "--last", "5"}, {"-v", "USD", "--quarters", "-m", "1"}, {"--from", "2020-01-10", "--to", "2020-02-20", "--days", "--last", "3"}})
		jb.Kind, jb.Args = "balance", append(append([]string{"balance", "--color=false"}, fl...), root)
	case 4:
		jb.Kind, jb.Args = "print", []string{"print", root}
	case 5:
		jb.Kind, jb.Args = "check", []string{"check", root}
		if r.Chance(1, 2) {
			jb.Kind, jb.Args = "check-write", []string{"check", "--write", root}
		}
	case 6:
		jb.Kind, jb.Args = "transcode", []string{"transcode", "-v", Pick(r, []string{"CHF", "USD"}), root}
		if r.Chance(1, 2) {
			// rows tied on the destination account came out in map order with -d / -a (found by this stream, repaired by e77962c)
			fl := Pick(r, [][]string{{}, {"-d"}, {"-a"}, {"-d", "-a"}, {"-d", "-a", "-s"}, {"-s", "-c"}, {"-v", "CHF", "--months"}, {"-v", "CHF", "-d", "-a", "--weeks"},
				{"-d", "-c", "--weeks"}, {"--source", "Bank", "-v", "USD", "-a", "--quarters"}, {"-m", "1", "-d"}, {"--dest", "Expenses", "-k", "-d", "--days"}, {"-a", "--digits", "1", "--months"}})
			jb.Kind, jb.Args = "register", append(append([]string{"register", "--color=false"}, fl...), root)
		}
	default:
		jb.Kind, jb.Args = "weights", []string{"portfolio", "weights", "--color=false", "-v", "CHF", Pick(r, []string{"--months", "--quarters", "--weeks"}), "--csv", root}
		if returns {
			jb.Kind, jb.Args = "returns", []string{"portfolio", "returns", "-v", "CHF", Pick(r, []string{"--months", "--quarters", "--weeks", "--days"}), root}
		}
	}
	jb.Kind += "-failing-tree"
	jb.Input = map[string]any{"tree": tree}
	if total <= 12000 {
		jb.Input["files"] = out
	}
	return jb
}

// Three differences between repeated runs are findings on the UNCHANGED code (known_findings.jsonl); they are recognised by
// their exact shape, everything else fails the check:
//   - `portfolio returns` prints a period as soon as the last pipeline stage has it; when an earlier stage fails later on
//     (model error on a late day), the lines printed by then are a schedule-dependent PREFIX of the report (same exit status);
//   - `portfolio returns` adds the float64 values of a day's transactions in the order in which the files arrived (it has no
//     Sort stage); in a period whose denominator V0 + inflow vanishes (C20's finding) the last bits decide between NaN%, +Inf%
//     and -Inf%;
//   - `print` and `transcode` of a journal that loads: price / open / balance / close directives of ONE date that come from
//     DIFFERENT files are printed in the order in which the loader goroutines delivered the files.
//   - `print`: same-day TRANSACTIONS of different files that are equal in date, description and postings but differ in their
//     `@performance(...)` targets tie under transaction.Compare (it does not look at the targets) and are printed in arrival order;
//   - valued reports on an input in which >= 2 files quote one (unordered) price pair on one date differently: the quotes reach
//     Prices.Insert in arrival order and the last one wins.
const (
	c06KnownReturnsPrefix = "returns-prints-periods-before-a-late-failure"
	c06KnownReturnsNaN    = "returns-ill-conditioned-period-float-sum-in-arrival-order"
	c06KnownArrivalOrder  = "print-same-day-directives-of-different-files-in-arrival-order"
	c06KnownTargets       = "print-same-day-transactions-differing-only-in-targets-in-arrival-order"
	c06KnownRequote       = "valued-reports-same-day-requote-across-files"
)

func c06KnownDifference(jb *c06Job) string {
	r0 := jb.Runs[0]
	for _, rr := range jb.Runs {
		if rr.Code != r0.Code {
			return ""
		}
	}
	// allSame: the outputs agree under the canonical form; with prefixOK it suffices that each is a prefix of the longest
	allSame := func(canon func(string) string, prefixOK bool) bool {
		long := canon(r0.Stdout)
		for _, rr := range jb.Runs {
			if c := canon(rr.Stdout); len(c) > len(long) {
				long = c
			}
		}
		for _, rr := range jb.Runs {
			c := canon(rr.Stdout)
			if c != long && !(prefixOK && strings.HasPrefix(long, c)) {
				return false
			}
		}
		return true
	}
	switch {
	case strings.HasPrefix(jb.Kind, "returns"):
		failed := r0.Code != 0
		if failed && allSame(func(s string) string { return s }, true) {
			return c06KnownReturnsPrefix
		}
		if jb.NFiles > 1 && allSame(c06CanonIllConditioned, failed) {
			return c06KnownReturnsNaN
		}
	case (strings.HasPrefix(jb.Kind, "print") || strings.HasPrefix(jb.Kind, "transcode")) && r0.Code == 0 && jb.NFiles > 1:
		if allSame(c06CanonSameDay, false) {
			return c06KnownArrivalOrder
		}
		if strings.HasPrefix(jb.Kind, "print") && allSame(c06CanonTiedTargets, false) {
			return c06KnownTargets
		}
	}
	// a valued report (`-v`) on an input with one price pair quoted differently on one date in two files: the last arrival wins
	valued := false
	for _, a := range jb.Args {
		valued = valued || a == "-v"
	}
	if valued && c06RequoteAcrossFiles(jb.Files) {
		return c06KnownRequote
	}
	return ""
}

// c06CanonTiedTargets sorts, inside every maximal run of consecutive transaction blocks of `knut print` that are identical except
// for their `@performance(...)` line, the blocks of the run; everything else stays in place.
func c06CanonTiedTargets(out string) string {
	blocks := strings.Split(out, "\n\n")
	key := func(b string) string { // "" for anything that is not a transaction block
		lines := strings.Split(strings.Trim(b, "\n"), "\n")
		if len(lines) > 0 && strings.HasPrefix(lines[0], "@performance(") {
			lines = lines[1:]
		}
		if len(lines) < 2 || len(lines[0]) < 12 || lines[0][4] != '-' || lines[0][7] != '-' || lines[0][10] != ' ' || lines[0][11] != '"' {
			return ""
		}
		return strings.Join(lines, "\n")
	}
	for lo := 0; lo < len(blocks); {
		k := key(blocks[lo])
		hi := lo + 1
		for k != "" && hi < len(blocks) && key(blocks[hi]) == k {
			hi++
		}
		if hi-lo > 1 {
			run := blocks[lo:hi]
			for q := range run {
				run[q] = strings.Trim(run[q], "\n")
			}
			sort.Strings(run)
		}
		lo = hi
	}
	return strings.Join(blocks, "\n\n")
}

// c06RequoteAcrossFiles: at least two files of the case quote one unordered commodity pair on one date, and not all of these
// quotes are the same directive (commodity, price, target).
func c06RequoteAcrossFiles(files map[string]string) bool {
	type quote struct{ file, text string }
	byPair := map[string][]quote{}
	for name, content := range files {
		if !strings.HasSuffix(name, ".knut") {
			continue
		}
		for _, l := range strings.Split(content, "\n") {
			f := strings.Fields(l)
			if len(f) != 5 || f[1] != "price" || len(f[0]) != 10 || l[0] == ' ' {
				continue
			}
			a, b := f[2], f[4]
			if a > b {
				a, b = b, a
			}
			k := f[0] + " " + a + " " + b
			byPair[k] = append(byPair[k], quote{name, f[2] + " " + f[3] + " " + f[4]})
		}
	}
	for _, qs := range byPair {
		for _, q := range qs[1:] {
			if q.file != qs[0].file && q.text != qs[0].text {
				return true
			}
			if q.text != qs[0].text { // three quotes, the differing ones in other files than the first
				for _, q2 := range qs {
					if q2.file != q.file && q2.text != q.text {
						return true
					}
				}
			}
		}
	}
	return false
}

// ---------------------------------------------------------------- stream `arrival`: same-day directives of different files whose order matters
//
// The loader delivers the files of an include tree in schedule order and the journal builder appends per day and kind. What is
// sorted afterwards (a day's transactions, by transaction.Compare) or summed exactly does not show the arrival order. Two
// things do, both found by the review of the census of order-sensitive sites (FactsAgree/C06.lean) and recorded as known
// findings; this stream keeps them in view with narrow class predicates, so that anything else these inputs show still fails:
//
//	targets  every file holds one transaction with the same date, description and postings but its own `@performance(...)`
//	         annotation (a target list, the empty list, or none): they tie in the Sort stage and `print` shows them in arrival
//	         order. Class: exit 0 in all runs and equal outputs after sorting the runs of such blocks (c06CanonTiedTargets).
//	requote  every file quotes the same price pair on the same date with its own price (some in the other direction); the
//	         last arrival wins in every valued report (balance, register, transcode, portfolio weights with -v). Class: the
//	         input has such quotes in >= 2 files (c06RequoteAcrossFiles) and all runs exit alike. Control cases quote the SAME
//	         price everywhere: they must be byte-stable.
//
// Files: 2-7 included files of different sizes (0-600 filler transactions with descriptions of their own), nested directories.
func c06ArrivalJob(c *Ctx, i int) *c06Job {
	r := c.Rng("arrival", i)
	ra := c.Rng("arrival-targets", i) // the annotations of the filler transactions: draws of their own
	nf := r.Range(2, 7)
	sizes := []int{0, 1, 5, 20, 60, 200}
	if c.Thorough() {
		sizes = append(sizes, 600)
	}
	files := map[string]string{}
	var root strings.Builder
	root.WriteString("2019-12-31 open Assets:Bank\n2019-12-31 open Assets:Broker\n2019-12-31 open Equity:Opening\n\n")
	day := fmt.Sprintf("2020-02-%02d", r.Range(1, 28))
	family := []string{"targets", "requote"}[i%2]
	same := family == "requote" && i%10 == 9 // control: every file quotes the same price
	var shape []string
	for k := 0; k < nf; k++ {
		rel := path.Join(Pick(r, []string{"", "", "inc", "inc/deep"}), fmt.Sprintf("f%d.knut", k))
		fmt.Fprintf(&root, "include \"%s\"\n", rel)
		var b strings.Builder
		n := Pick(r, sizes)
		for q := 0; q < n; q++ {
			ann := ""
			if ra.Chance(1, 4) {
				ann = c06Ann(ra, []string{"CHF", "AAA", "T0", "T1", "USD"}, []string{"CHF"}, true)
			}
			fmt.Fprintf(&b, "%s2020-01-%02d \"shop%d no %d\"\nAssets:Bank Assets:Broker %d CHF\n\n", ann, 1+q%28, k, q, q+1)
		}
		switch family {
		case "targets":
			ann := ""
			switch v := r.Intn(5); {
			case v == 0 && k > 0:
				ann = "@performance()\n"
			case v == 1 && k > 1:
				ann = ""
			case v == 2:
				ann = fmt.Sprintf("@performance(T%d,CHF)\n", k)
			default:
				ann = fmt.Sprintf("@performance(T%d)\n", k)
			}
			fmt.Fprintf(&b, "%s%s \"buy\"\nAssets:Bank Assets:Broker 100 CHF\n\n", ann, day)
			shape = append(shape, fmt.Sprintf("%s: %d filler, %s", rel, n, strings.TrimSpace(ann)))
		case "requote":
			price := fmt.Sprintf("%d.%d", 10+k, r.Intn(10))
			if same {
				price = "12.5"
			}
			if !same && k > 0 && r.Chance(1, 5) {
				fmt.Fprintf(&b, "%s price CHF 0.0%d AAA\n\n", day, 5+k)
				shape = append(shape, fmt.Sprintf("%s: %d filler, price CHF 0.0%d AAA", rel, n, 5+k))
			} else {
				fmt.Fprintf(&b, "%s price AAA %s CHF\n\n", day, price)
				shape = append(shape, fmt.Sprintf("%s: %d filler, price AAA %s CHF", rel, n, price))
			}
		}
		files[rel] = b.String()
	}
	jb := &c06Job{Idx: 400000 + i, Mixed: true}
	switch family {
	case "targets":
		jb.Kind, jb.Args = "print-arrival-targets", []string{"print", "@root.knut"}
	case "requote":
		fmt.Fprintf(&root, "\n2020-03-02 \"buy\"\nEquity:Opening Assets:Broker 100 AAA\n\n2020-03-03 \"buy\"\nEquity:Opening Assets:Bank 7 AAA\n")
		switch (i / 2) % 4 {
		case 0:
			jb.Kind, jb.Args = "balance-arrival-requote", []string{"balance", "--color=false", "-v", "CHF", "@root.knut"}
		case 1:
			jb.Kind, jb.Args = "register-arrival-requote", []string{"register", "--color=false", "-v", "CHF", "@root.knut"}
		case 2:
			jb.Kind, jb.Args = "transcode-arrival-requote", []string{"transcode", "-v", "CHF", "@root.knut"}
		default:
			jb.Kind, jb.Args = "weights-arrival-requote", []string{"portfolio", "weights", "--color=false", "-v", "CHF", "--months", "--csv", "@root.knut"}
		}
		if same {
			jb.Kind += "-control"
		}
	}
	files["root.knut"] = root.String()
	jb.Files = files
	jb.Input = map[string]any{"shape": family + " on " + day + "; " + strings.Join(shape, "; ")}
	return jb
}

// c06CanonIllConditioned replaces the three ways `portfolio returns` prints a division by zero by one token.
func c06CanonIllConditioned(out string) string {
	return strings.NewReplacer(": NaN%", ": <x/0>%", ": +Inf%", ": <x/0>%", ": -Inf%", ": <x/0>%").Replace(out)
}

// c06CanonSameDay sorts the lines inside every maximal run of one-line directives with the same date and keyword
// (blank lines inside such a run are dropped: transcode separates them, print does not); everything else stays in place.
func c06CanonSameDay(out string) string {
	key := func(l string) string {
		f := strings.Fields(l)
		if len(f) < 3 || len(f[0]) != 10 || l[0] == ' ' {
			return ""
		}
		switch f[1] {
		case "open", "close", "price", "balance":
			return f[0] + " " + f[1]
		}
		return ""
	}
	var res, run []string
	cur, blanks := "", 0
	flush := func() {
		sort.Strings(run)
		res = append(res, run...)
		for ; blanks > 0; blanks-- {
			res = append(res, "")
		}
		run, cur = nil, ""
	}
	for _, l := range strings.Split(out, "\n") {
		k := key(l)
		switch {
		case l == "" && cur != "":
			blanks++
		case k != "" && k == cur:
			run, blanks = append(run, l), 0
		default:
			flush()
			if k != "" {
				run, cur = []string{l}, k
			} else {
				res = append(res, l)
			}
		}
	}
	flush()
	return strings.Join(res, "\n")
}

// ---------------------------------------------------------------- stream `floatties`: exact ties behind float-order-sensitive sums
//
// The reports order sibling rows by a weight and break ties by name. A tie is a tie in EXACT arithmetic: the balance report
// adds decimals, portfolio weights adds float64 values in a fixed order (commodity names, child names, dates). When such a
// sum is taken in float64 while ranging over a Go map, its last bit depends on the iteration order of that process, two
// rows that are mathematically equal are no longer equal in some runs, and the name no longer decides (seeded change
// C06-g: balance sort weights in float64 over the per-period/commodity amounts and the children; the defects repaired in
// `portfolio weights` by 19865c1 / 54048cb). The tie-rich inputs of stream `repeat` never showed it: their ties are sums of
// one or two addends like 1, 2, 0.5, which every order adds to the same float.
//
// One case = one journal in which sibling rows reach EXACTLY the same total through addends that differ in number, order,
// sign and magnitude (decimal fractions that are not multiples of a power of two), spread over many periods:
//   - balance: groups of 2-5 sibling accounts with the same total T: a lump sum; 3-8 instalments; the negated total (the
//     weight is an absolute value); a subtree whose leaves add up to T (with and without an amount of its own); T spread
//     over several commodities with constant prices (several entries per period); positions in a commodity whose
//     two-decimal price changes every month (bought at once, in steps, twice the quantity at half the price, the same
//     series under another name) against a lump sum of quantity x last price; groups tie with each other as well.
//     Flags: valued / unvalued, every interval, --diff, -m collapsing leaves, siblings or whole groups into one row, -s,
//     --last, --from / --to, --csv, -a.
//   - portfolio weights: k classes of commodities with pairwise equal values on every date (quantity x f at price / f),
//     >= 3 period end dates, monthly varying prices, further commodities so that weights are not constant; without a
//     universe (tied sibling commodities), with --universe (tied sibling classes of 5-8 commodities) and -m collapsing
//     the classes into one row each; text output with up to 15 digits shows the last bits of every sum.
// Only Go's per-process map seed matters: 24 (thorough: 60) runs per case, three of four without the perturbation hook.

// c06Dec renders thousandths as a decimal literal without trailing zeros.
func c06Dec(u int64) string {
	sign := ""
	if u < 0 {
		sign, u = "-", -u
	}
	s := strings.TrimRight(fmt.Sprintf("%d.%03d", u/1000, u%1000), "0")
	return sign + strings.TrimSuffix(s, ".")
}

// c06Split returns m addends (thousandths) of different magnitudes and signs that add up to total exactly.
func c06Split(r *RNG, total int64, m int) []int64 {
	parts := make([]int64, m)
	rest := total
	for k := 0; k < m-1; k++ {
		var p int64
		switch r.Intn(6) {
		case 0:
			p = Pick(r, []int64{100, 200, 300, 700, 1100, 2200, 3300, 10, 70, 1, 5, 333, 600, 900})
		case 1:
			p = int64(r.Range(1, 999))
		case 2:
			p = int64(r.Range(1, 999)) * 10
		case 3:
			p = int64(r.Range(1000, 5000000))
		case 4:
			p = int64(r.Range(1, 99)) * 100
		default:
			p = rest/int64(m-k) + int64(r.Range(-50, 50))
		}
		if r.Chance(1, 6) {
			p = -p
		}
		parts[k] = p
		rest -= p
	}
	parts[m-1] = rest
	for k := m - 1; k > 0; k-- { // the remainder is not always the last instalment
		q := r.Intn(k + 1)
		parts[k], parts[q] = parts[q], parts[k]
	}
	return parts
}

type c06FTBook struct {
	day  int
	acct string
	qty  int64 // thousandths
	com  string
}

// c06FTText renders opens, prices and bookings (against Equity:Opening) as a journal.
func c06FTText(r *RNG, open int, prices []string, books []c06FTBook) string {
	var b strings.Builder
	seen := map[string]bool{"Equity:Opening": true}
	fmt.Fprintf(&b, "%s open Equity:Opening\n", fmtDate(open))
	for _, bk := range books {
		if !seen[bk.acct] {
			seen[bk.acct] = true
			fmt.Fprintf(&b, "%s open %s\n", fmtDate(open), bk.acct)
		}
	}
	b.WriteString("\n")
	for _, p := range prices {
		b.WriteString(p)
	}
	for n, bk := range books {
		if bk.qty == 0 {
			continue
		}
		from, to, q := "Equity:Opening", bk.acct, bk.qty
		if q < 0 && r.Chance(1, 2) {
			from, to, q = to, from, -q
		}
		fmt.Fprintf(&b, "\n%s \"booking %d\"\n%s %s %s %s\n", fmtDate(bk.day), n, from, to, c06Dec(q), bk.com)
	}
	return b.String()
}

func c06Shuffled(r *RNG, xs []string) []string {
	ys := append([]string{}, xs...)
	for k := len(ys) - 1; k > 0; k-- {
		q := r.Intn(k + 1)
		ys[k], ys[q] = ys[q], ys[k]
	}
	return ys
}

func c06FloatTieJob(c *Ctx, i int) *c06Job {
	r := c.Rng("floatties", i)
	jb := &c06Job{Idx: 300000 + i, Plain: true, Reps: c.N(24, 60)}
	var text, shape string
	files := map[string]string{}
	switch i % 4 {
	case 0, 1:
		text, shape, jb.Args = c06FloatTieBalance(r)
		jb.Kind = "balance-floatties"
	default:
		var uni string
		text, uni, shape, jb.Args = c06FloatTieWeights(r, i%4 == 3)
		jb.Kind = "weights-floatties"
		if uni != "" {
			jb.Kind = "weights-universe-floatties"
			files["uni.yaml"] = uni
		}
	}
	files["j.knut"] = text
	jb.Files = files
	jb.Args = append(jb.Args, "@j.knut")
	jb.Input = map[string]any{"shape": shape}
	return jb
}

// c06FloatTieBalance: groups of sibling accounts with exactly equal totals (see the stream's header).
func c06FloatTieBalance(r *RNG) (text, shape string, args []string) {
	base := 737000 + r.Intn(1200)
	span := Pick(r, []int{70, 100, 130, 200, 400, 800})
	day := func() int { return base + r.Intn(span) }
	// a commodity whose price changes every month (even cents, so that HLF at half the price is a two-decimal price too)
	var prices []string
	last := int64(0)
	for d, k := base-1, 0; ; k++ {
		if d > base+span {
			d = base + span
		}
		last = 2 * int64(r.Range(300, 9000))
		for _, pc := range []struct {
			com string
			c   int64
		}{{"STK", last}, {"TWN", last}, {"HLF", last / 2}} {
			prices = append(prices, fmt.Sprintf("%s price %s %d.%02d CHF\n", fmtDate(d), pc.com, pc.c/100, pc.c%100))
		}
		if d == base+span {
			break
		}
		d += 25 + r.Intn(10)
	}
	consts := []struct {
		com, price string
		mult       int64
	}{{"EUR", "0.5", 2}, {"GBP", "0.25", 4}, {"JPY", "0.01", 100}, {"USD", "0.1", 10}}
	for _, k := range consts {
		prices = append(prices, fmt.Sprintf("%s price %s %s CHF\n", fmtDate(base-1), k.com, k.price))
	}
	var books []c06FTBook
	instalments := func(acct string, total int64, m int) {
		for _, p := range c06Split(r, total, m) {
			books = append(books, c06FTBook{day(), acct, p, "CHF"})
		}
	}
	ng := r.Range(2, 5)
	gnames := c06Shuffled(r, []string{"Bonds", "Cash", "Funds", "Gold", "Notes", "Stocks", "Zinc", "Art"})
	sharedT := int64(r.Range(1, 4000)) * Pick(r, []int64{1, 10, 100, 1000})
	sharedK := r.Range(2, 4)
	shareType := Pick(r, []string{"Assets", "Assets", "Expenses"})
	var shapes []string
	for g := 0; g < ng; g++ {
		typ := Pick(r, []string{"Assets", "Assets", "Liabilities", "Expenses", "Income"})
		T, K := int64(r.Range(1, 4000))*Pick(r, []int64{1, 10, 100, 1000}), r.Range(2, 5)
		if r.Chance(1, 2) {
			T, K, typ = sharedT, sharedK, shareType // groups that tie with each other
		}
		stock := r.Chance(1, 3)
		qd := int64(r.Range(1, 400)) // tenths of a share
		if stock {
			T = qd * last // thousandths: tenths x cents
		}
		grp := typ + ":" + gnames[g]
		snames := c06Shuffled(r, []string{"Alpha", "Beta", "Gamma", "Delta", "Omega", "Zeta", "A1", "b2", "Mid"})
		var ss []string
		for k := 0; k < K; k++ {
			acct := grp + ":" + snames[k]
			sh := r.Intn(7)
			if stock && r.Chance(2, 3) {
				sh = 7 + r.Intn(4)
			}
			switch sh {
			case 0: // lump sum
				books = append(books, c06FTBook{day(), acct, T, "CHF"})
				ss = append(ss, "lump")
			case 1, 2: // instalments
				m := r.Range(3, 8)
				instalments(acct, T, m)
				ss = append(ss, fmt.Sprintf("%d instalments", m))
			case 3: // the negated total
				m := r.Range(1, 6)
				instalments(acct, -T, m)
				ss = append(ss, fmt.Sprintf("negated, %d instalments", m))
			case 4, 5: // a subtree (case 5: with an amount of its own)
				nc := r.Range(2, 4)
				cn := c06Shuffled(r, []string{"Sub1", "Sub2", "Sub3", "Xtra", "Ynot"})
				shares := c06Split(r, T, nc+sh-4)
				for q := 0; q < nc; q++ {
					child := acct + ":" + cn[q]
					if r.Chance(1, 4) {
						child += ":Leaf"
					}
					instalments(child, shares[q], r.Range(1, 4))
				}
				if sh == 5 {
					instalments(acct, shares[nc], r.Range(1, 3))
				}
				ss = append(ss, fmt.Sprintf("subtree of %d", nc))
			case 6: // several commodities with constant prices
				m := r.Range(3, 8)
				for _, p := range c06Split(r, T, m) {
					k := Pick(r, consts)
					if r.Chance(1, 3) {
						books = append(books, c06FTBook{day(), acct, p, "CHF"})
					} else {
						books = append(books, c06FTBook{day(), acct, p * k.mult, k.com})
					}
				}
				ss = append(ss, fmt.Sprintf("%d parts in several commodities", m))
			case 7: // the position, bought at once
				books = append(books, c06FTBook{base + r.Intn(span/2), acct, qd * 100, "STK"})
				ss = append(ss, "STK at once")
			case 8: // bought in steps
				m := r.Range(2, 4)
				rest := qd
				for q := 0; q < m; q++ {
					p := rest
					if q < m-1 {
						p = int64(r.Range(0, int(rest)))
					}
					rest -= p
					books = append(books, c06FTBook{day(), acct, p * 100, "STK"})
				}
				ss = append(ss, fmt.Sprintf("STK in %d steps", m))
			case 9: // twice the quantity at half the price
				books = append(books, c06FTBook{base + r.Intn(span/2), acct, qd * 200, "HLF"})
				ss = append(ss, "HLF")
			default: // the same series under another name, partly
				p := int64(r.Range(0, int(qd)))
				books = append(books, c06FTBook{day(), acct, p * 100, "TWN"}, c06FTBook{day(), acct, (qd - p) * 100, "STK"})
				ss = append(ss, "TWN + STK")
			}
		}
		shapes = append(shapes, fmt.Sprintf("%s (total %s): %s", grp, c06Dec(T), strings.Join(ss, " | ")))
	}
	text = c06FTText(r, base-1, prices, books)
	// flags
	args = []string{"balance", "--color=false"}
	valued := r.Chance(5, 6)
	if valued {
		args = append(args, "-v", "CHF")
	}
	iv := Pick(r, []string{"", "--days", "--weeks", "--months", "--months", "--quarters", "--years"})
	if iv != "" {
		args = append(args, iv)
	}
	if iv == "--days" || (iv == "--weeks" && span > 200) || r.Chance(1, 6) {
		args = append(args, "--last", itoa(r.Range(2, 25)))
	}
	if r.Chance(1, 3) {
		args = append(args, "--diff")
	}
	if r.Chance(1, 2) {
		args = append(args, Pick(r, [][]string{{"-m", "3,."}, {"-m", "2,."}, {"-m", "2,Assets"}, {"-m", "3,^(Assets|Expenses)"}, {"-m", "2:1,."}, {"-m", "1,Liabilities", "-m", "3,."},
			{"-m", "1,Equity", "-m", "4,."}, {"-m", "2," + gnames[0]}, {"-m", "1:1,."}})...)
	}
	if r.Chance(1, 3) {
		args = append(args, "-s", Pick(r, []string{".", "Assets", gnames[0], "Equity", "Alpha|Zeta"}))
	}
	if r.Chance(1, 8) {
		args = append(args, "--to", fmtDate(base+span/2+r.Intn(span/2)))
	}
	if r.Chance(1, 8) {
		args = append(args, "--from", fmtDate(base+r.Intn(span/2)))
	}
	if r.Chance(1, 5) {
		args = append(args, "--close=false")
	}
	if r.Chance(1, 4) {
		args = append(args, "--csv")
	} else if r.Chance(1, 2) {
		args = append(args, "--digits", itoa(r.Range(0, 4)))
	}
	if r.Chance(1, 10) {
		args = append(args, "-a")
	}
	return text, strings.Join(shapes, "; "), args
}

// c06FloatTieWeights: classes of commodities with pairwise equal values on every date (see the stream's header).
func c06FloatTieWeights(r *RNG, universe bool) (text, uni, shape string, args []string) {
	base := 737000 + r.Intn(1200)
	months := r.Range(3, 14)
	span := months * 30
	ncls := r.Range(2, 4)
	nslot := r.Range(1, 3)
	if universe {
		nslot = r.Range(5, 8)
	}
	// price dates shared by all commodities; one series (cents, multiples of 20) per slot
	var pdays []int
	for d := base - 1; d < base+span; d += 26 + r.Intn(9) {
		pdays = append(pdays, d)
	}
	classes := c06Shuffled(r, []string{"Equity:US", "Equity:CH", "Equity:EM", "Bonds:Gov", "Bonds:Corp", "Metals"})[:ncls]
	if r.Chance(1, 2) {
		classes = c06Shuffled(r, []string{"Equity:US", "Equity:CH", "Equity:EM", "Equity:JP"})[:ncls] // sibling classes
	}
	factors := []int64{1, 1, 2, 4, 5, 10, 20}
	permuted := r.Chance(1, 3) // the name order inside a class does not follow the slots
	var prices []string
	var books []c06FTBook
	var ub strings.Builder
	var names [][]string
	for j := 0; j < ncls; j++ {
		letters := []string{"A", "B", "C", "D", "E", "F", "G", "H"}[:nslot]
		if permuted {
			letters = c06Shuffled(r, letters)
		}
		var ns []string
		for s := 0; s < nslot; s++ {
			ns = append(ns, fmt.Sprintf("K%d%s", j, letters[s]))
		}
		names = append(names, ns)
		fmt.Fprintf(&ub, "\"%s\": [%s]\n", classes[j], strings.Join(c06Shuffled(r, ns), ", "))
	}
	oneAccount := r.Chance(1, 3)
	for s := 0; s < nslot; s++ {
		// the slot's buying schedule (tenths of a share) and its price series
		type buy struct {
			day int
			qd  int64
		}
		sched := []buy{{base, int64(r.Range(1, 300))}}
		for q := r.Intn(3); q > 0; q-- {
			sched = append(sched, buy{base + r.Intn(span), int64(r.Range(-50, 200))})
		}
		series := make([]int64, len(pdays))
		for k := range series {
			series[k] = 20 * int64(r.Range(15, 4000))
		}
		for j := 0; j < ncls; j++ {
			f := Pick(r, factors)
			com := names[j][s]
			for k, d := range pdays {
				pc := series[k] / f
				prices = append(prices, fmt.Sprintf("%s price %s %d.%02d CHF\n", fmtDate(d), com, pc/100, pc%100))
			}
			acct := "Assets:Portfolio"
			if !oneAccount {
				acct = fmt.Sprintf("Assets:Depot%d:%s", j, com)
			}
			for _, b := range sched {
				books = append(books, c06FTBook{b.day, acct, b.qd * 100 * f, com})
			}
		}
	}
	// further commodities, so that the weights are not constant
	nother := r.Range(1, 3)
	var others []string
	for q := 0; q < nother; q++ {
		com := fmt.Sprintf("OTH%d", q)
		others = append(others, com)
		for _, d := range pdays {
			pc := int64(r.Range(100, 90000))
			prices = append(prices, fmt.Sprintf("%s price %s %d.%02d CHF\n", fmtDate(d), com, pc/100, pc%100))
		}
		books = append(books, c06FTBook{base + r.Intn(span/2), "Assets:Portfolio", int64(r.Range(1, 500)) * 100, com})
	}
	if r.Chance(1, 2) {
		fmt.Fprintf(&ub, "\"%s\": [%s]\n", Pick(r, []string{"Misc", "Equity:Other", "Alternatives:Hedge:Long"}), strings.Join(others, ", "))
	}
	if r.Chance(1, 2) {
		for _, p := range c06Split(r, int64(r.Range(1, 90000))*10, r.Range(1, 4)) {
			books = append(books, c06FTBook{base + r.Intn(span), "Assets:Cash", p, "CHF"})
		}
		if r.Chance(1, 2) {
			ub.WriteString("\"Cash\": [CHF]\n")
		}
	}
	// the journal ends on a day of its own, after the last price
	books = append(books, c06FTBook{base + span + 1, "Assets:Cash", 1000, "CHF"})
	text = c06FTText(r, base-1, prices, books)
	args = []string{"portfolio", "weights", "--color=false", "-v", "CHF"}
	iv := Pick(r, []string{"--months", "--months", "--months", "--quarters", "--weeks", "--days", "--years"})
	args = append(args, iv)
	if iv == "--days" || r.Chance(1, 6) {
		args = append(args, "--last", itoa(r.Range(3, 30)))
	}
	if universe {
		uni = ub.String()
		args = append(args, "--universe", "@uni.yaml")
		args = append(args, Pick(r, [][]string{{"-m", "1,.*"}, {"-m", "1,.*"}, {"-m", "2,.*"}, {"-m", "2,."}, {"-m", "1,Equity"}, {"-m", "1:1,."}, {}})...)
	} else if r.Chance(1, 4) {
		args = append(args, "-m", Pick(r, []string{"1,.*", "1:0,K0", "2,."}))
	}
	if r.Chance(1, 2) {
		args = append(args, "--csv")
	} else {
		args = append(args, "--digits", itoa(Pick(r, []int{0, 2, 6, 12, 15})))
	}
	if r.Chance(1, 10) {
		args = append(args, "-a")
	}
	shape = fmt.Sprintf("%d classes %v of %d commodities each, commodity K<j><slot> of class j holds f x the slot's quantities at 1/f of the slot's prices (f in 1, 2, 4, 5, 10, 20); %d price dates; %d further commodities; name order permuted: %v; one account: %v",
		ncls, classes, nslot, len(pdays), nother, permuted, oneAccount)
	return text, uni, shape, args
}

// ---------------------------------------------------------------- stream `period`: the report period is a fold in arrival order
//
// balance, register, portfolio weights and portfolio returns clip their periods to journal.Builder.Period(): the minimum and
// the maximum date over some kinds of directives (transactions on both ends, prices at the end), folded over the directives
// in the order in which the concurrently parsed files reach the builder. The fold is a function of the input only as long as
// every update is commutative. An update that looks at what has been seen so far ("the first transaction opens the period",
// a kind that only counts after / before another kind, an early return) makes the first / last column, the valuation date
// and the totals depend on the schedule (seeded change C06-i: the first transaction overwrote an end date that a later
// dated price of a file that had arrived earlier had set).
//
// One case = a root and 1-5 included files (nested, sub-directories). Every file has a filler of its own — transactions
// inside a span of 1-300 days, prices of a commodity of its own inside the span, or nothing — of 0-150 (thorough: 600)
// directives: mixed sizes, all equal (the files race), the files with the extreme directives tiny and the others large, or
// the other way round. On top 1-3 EXTREME directives dated before the span or after it, each of any kind (price, open,
// assertion, transaction, close), first / somewhere / last in its file, preferably in a file without transactions, at
// distinct distances of 1-200 days (so that which kind is THE first / last directive varies). Commands: balance (with and
// without -v, every interval, --diff, --last, --from / --to inside and outside the span, --csv, -m, -s), register, portfolio
// weights, portfolio returns. Amounts are integers and prices multiples of 0.25 (float sums are exact in any order); no
// price pair is quoted twice on one date. 16 (thorough: 40) runs per case with rotating schedule seeds and GOMAXPROCS,
// every fourth run with the natural schedule.
func c06PeriodJob(c *Ctx, i int) *c06Job {
	r := c.Rng("period", i)
	day := func(off int) string {
		return time.Date(2020, 1, 1, 0, 0, 0, 0, time.UTC).AddDate(0, 0, off).Format("2006-01-02")
	}
	const opened = "2018-12-31"
	nf := r.Range(1, 5)
	sizes := []int{0, 1, 3, 10, 40, 150}
	if c.Thorough() {
		sizes = append(sizes, 600)
	}
	span := Pick(r, []int{1, 10, 40, 100, 300})
	type pfile struct {
		rel    string
		parent int
		fill   string // tx / prices / none
		n      int
		blocks []string
		ext    []string
	}
	files := []*pfile{{rel: "root.knut", parent: -1}}
	for k := 1; k <= nf; k++ {
		parent := 0
		if r.Chance(1, 4) {
			parent = r.Intn(k)
		}
		files = append(files, &pfile{rel: path.Join(Pick(r, []string{"", "", "inc", "inc/deep"}), fmt.Sprintf("f%d.knut", k)), parent: parent})
	}
	for _, f := range files {
		f.fill = Pick(r, []string{"tx", "tx", "prices", "prices", "none"})
	}
	files[r.Intn(len(files))].fill = "tx"
	if r.Chance(1, 2) {
		files[0].fill = "none" // a root that is little more than a list of includes
		files[1+r.Intn(nf)].fill = "tx"
	}
	// the extreme directives
	type extreme struct {
		off  int
		kind string
		file int
		pos  string
	}
	var exts []extreme
	used := map[int]bool{}
	var noTx []int
	for k, f := range files {
		if f.fill != "tx" {
			noTx = append(noTx, k)
		}
	}
	// kinds: the first case of every five in a row has a late price, so that every command meets every kind
	for q, ne := 0, r.Range(1, 3); q < ne; q++ {
		e := extreme{kind: Pick(r, []string{"price", "price", "open", "assertion", "transaction", "close"}), pos: Pick(r, []string{"first", "middle", "last"})}
		dist := Pick(r, []int{1, 2, 5, 20, 40, 100, 200}) + r.Intn(3)
		for used[dist] {
			dist++
		}
		used[dist] = true
		e.off = span - 1 + dist
		if r.Chance(1, 3) {
			e.off = -dist
		}
		e.file = r.Intn(len(files))
		if len(noTx) > 0 && r.Chance(3, 4) {
			e.file = Pick(r, noTx)
		}
		exts = append(exts, e)
	}
	// sizes
	mode := r.Intn(4)
	eq := Pick(r, sizes[2:])
	isExt := map[int]bool{}
	for _, e := range exts {
		isExt[e.file] = true
	}
	for k, f := range files {
		f.n = Pick(r, sizes)
		switch {
		case mode == 1:
			f.n = eq
		case mode == 2 && isExt[k], mode == 3 && !isExt[k]:
			f.n = Pick(r, sizes[:3])
		case mode == 2 || mode == 3:
			f.n = Pick(r, sizes[4:])
		}
		if f.fill == "none" {
			f.n = 0
		}
		if f.fill == "tx" && f.n == 0 {
			f.n = 1
		}
	}
	// content
	type flow struct{ off, amt int }
	var bank []flow
	var head strings.Builder
	for _, a := range []string{"Assets:Bank", "Assets:Broker", "Equity:Opening", "Expenses:Misc"} {
		fmt.Fprintf(&head, "%s open %s\n", opened, a)
	}
	fmt.Fprintf(&head, "%s price AAA %d CHF\n", opened, r.Range(5, 40))
	ra := c.Rng("period-targets", i) // the `@performance(...)` annotations: draws of their own
	tx := func(off, k, q int) string {
		a := r.Range(1, 900)
		ann := ""
		if ra.Chance(1, 4) {
			ann = c06Ann(ra, []string{"CHF", "AAA", "USD", "BBB", "aaa"}, []string{"CHF", "AAA"}, true)
		}
		switch r.Intn(4) {
		case 0:
			bank = append(bank, flow{off, -a})
			return fmt.Sprintf("%s%s \"shop%d no %d\"\nAssets:Bank Expenses:Misc %d CHF\n", ann, day(off), k, q, a)
		case 1:
			return fmt.Sprintf("%s%s \"buy%d no %d\"\nEquity:Opening Assets:Broker %d AAA\n", ann, day(off), k, q, a)
		default:
			bank = append(bank, flow{off, a})
			return fmt.Sprintf("%s%s \"pay%d no %d\"\nEquity:Opening Assets:Bank %d CHF\n", ann, day(off), k, q, a)
		}
	}
	aaaFile := r.Intn(len(files)) // the one file that requotes AAA inside the span
	for k, f := range files {
		for q := 0; q < f.n; q++ {
			off := r.Intn(span)
			switch f.fill {
			case "tx":
				f.blocks = append(f.blocks, tx(off, k, q))
			case "prices":
				// one quote per date and commodity: the q-th price of the file is for its commodity no q / span
				f.blocks = append(f.blocks, fmt.Sprintf("%s price P%dx%d %d.%s CHF\n", day(q%span), k, q/span, r.Range(1, 90), Pick(r, []string{"0", "25", "5", "75"})))
			}
		}
		if k == aaaFile {
			for d := 0; d < span; d += 1 + r.Intn(40) {
				f.blocks = append(f.blocks, fmt.Sprintf("%s price AAA %d.%s CHF\n", day(d), r.Range(5, 40), Pick(r, []string{"0", "25", "5", "75"})))
			}
		}
	}
	insert := func(f *pfile, pos string, text string) {
		at := len(f.blocks)
		switch pos {
		case "first":
			at = 0
		case "middle":
			at = r.Intn(len(f.blocks) + 1)
		}
		f.blocks = append(f.blocks[:at:at], append([]string{text}, f.blocks[at:]...)...)
	}
	sort.Slice(exts, func(a, b int) bool { return exts[a].off < exts[b].off })
	for q, e := range exts {
		text := ""
		switch e.kind {
		case "price":
			text = fmt.Sprintf("%s price AAA %d.%s CHF\n", day(e.off), r.Range(5, 40), Pick(r, []string{"0", "25", "5", "75"}))
		case "open":
			text = fmt.Sprintf("%s open Assets:Extra%d\n", day(e.off), q)
		case "close":
			fmt.Fprintf(&head, "%s open Assets:Temp%d\n", opened, q)
			text = fmt.Sprintf("%s close Assets:Temp%d\n", day(e.off), q)
		case "transaction":
			text = tx(e.off, e.file, 1000+q)
		case "assertion":
			text = "" // needs every flow: below
		}
		exts[q].kind = e.kind
		files[e.file].ext = append(files[e.file].ext, fmt.Sprintf("%s %s (%s)", day(e.off), e.kind, e.pos))
		if e.kind != "assertion" {
			insert(files[e.file], e.pos, text)
		}
	}
	for _, e := range exts {
		if e.kind == "assertion" {
			total := 0
			for _, fl := range bank {
				if fl.off < e.off {
					total += fl.amt
				}
			}
			insert(files[e.file], e.pos, fmt.Sprintf("%s balance Assets:Bank %d CHF\n", day(e.off), total))
		}
	}
	relTo := func(from, to *pfile) string {
		p, _ := filepath.Rel(path.Dir(from.rel), to.rel)
		return p
	}
	for k := 1; k < len(files); k++ {
		p := files[files[k].parent]
		insert(p, Pick(r, []string{"first", "first", "middle", "last"}), fmt.Sprintf("include \"%s\"\n", relTo(p, files[k])))
	}
	files[0].blocks = append([]string{head.String()}, files[0].blocks...)
	out := map[string]string{}
	total := 0
	var shape []string
	for k, f := range files {
		text := strings.Join(f.blocks, "\n")
		out[f.rel] = text
		total += len(text)
		line := fmt.Sprintf("%s: filler %s x %d, %d bytes", f.rel, f.fill, f.n, len(text))
		if k > 0 {
			line += ", included by " + files[f.parent].rel
		}
		if k == aaaFile {
			line += ", requotes AAA inside the span"
		}
		if len(f.ext) > 0 {
			line += "; EXTREME " + strings.Join(f.ext, ", ")
		}
		shape = append(shape, line)
	}
	// the command
	in1, in2 := day(r.Intn(span)), day(span-1+r.Range(1, 30))
	jb := &c06Job{Idx: 500000 + i, Files: out, Mixed: true, Reps: c.N(16, 40)}
	root := "@root.knut"
	iv := func() string { return Pick(r, []string{"--days", "--weeks", "--months", "--quarters", "--years"}) }
	switch i % 6 {
	case 0:
		fl := Pick(r, [][]string{{}, {}, {iv()}, {"--diff", iv()}, {iv(), "--last", "4"}, {"--csv"}, {"-m", "1", iv()}, {"-s", ".", "--from", in1}, {"--to", in2, iv()}})
		jb.Kind, jb.Args = "balance", append(append([]string{"balance", "--color=false"}, fl...), root)
	case 1, 2:
		fl := Pick(r, [][]string{{}, {}, {iv()}, {iv()}, {"--diff", iv()}, {iv(), "--last", "3"}, {"--csv", iv()}, {"-m", "1"}, {"--from", in1, iv()}, {"--to", in2}, {"--to", in1, iv()}, {"-a", "--digits", "2", iv()}, {"--close=false", iv()}})
		jb.Kind, jb.Args = "balance-valued", append(append([]string{"balance", "--color=false", "-v", "CHF"}, fl...), root)
	case 3:
		fl := Pick(r, [][]string{{}, {"-v", "CHF"}, {iv()}, {"-v", "CHF", iv()}, {"-d", iv()}, {"-a", "-s", iv()}, {"-v", "CHF", "--to", in2, iv()}, {"--last", "3", iv()}, {"-c", "--from", in1}})
		jb.Kind, jb.Args = "register", append(append([]string{"register", "--color=false"}, fl...), root)
	case 4:
		fl := Pick(r, [][]string{{}, {iv()}, {iv(), "--csv"}, {iv(), "--last", "5"}, {"--to", in2, iv()}, {"--from", in1, iv(), "--digits", "4"}})
		jb.Kind, jb.Args = "weights", append(append([]string{"portfolio", "weights", "--color=false", "-v", "CHF"}, fl...), root)
	default:
		fl := Pick(r, [][]string{{}, {iv()}, {iv()}, {iv(), "--last", "5"}, {"--to", in2, iv()}, {"--from", in1, iv()}})
		jb.Kind, jb.Args = "returns", append(append([]string{"portfolio", "returns", "-v", "CHF"}, fl...), root)
	}
	jb.Kind += "-period"
	var es []string
	for _, e := range exts {
		es = append(es, fmt.Sprintf("%s %s in %s", day(e.off), e.kind, files[e.file].rel))
	}
	jb.Input = map[string]any{"shape": fmt.Sprintf("transactions on %s..%s; extremes: %s; %s", day(0), day(span-1), strings.Join(es, ", "), strings.Join(shape, " | "))}
	if total <= 12000 {
		jb.Input["files"] = out
	}
	return jb
}

// ---------------------------------------------------------------- stream `targets`: every shape of `@performance(...)` annotation
//
// The annotation of a transaction is a LIST the user wrote: `knut print` shows it as written, `portfolio returns` splits the
// transaction's flows evenly among its entries, accrual expansion copies it to every instalment. Anything that passes the
// list through a map on its way (de-duplication, a set of "known" commodities, grouping by commodity) gives it the map order
// of that process (seeded change C06-j: duplicates removed through set.Set.Slice, only when there is a duplicate). The older
// streams wrote annotations rarely and always as a sub-sequence of the journal's commodities: never a repeated entry, never
// more than a handful, never an order other than the generator's.
//
// c06TargetNames draws a list of 0-8 entries from a pool of commodities: distinct ones in random order, entries repeated
// (next to each other, first = last, one commodity everywhere, each entry twice), the commodities the transaction itself
// books (alone, first, last, twice), lists that use up the pool. pow2: only 0, 1, 2, 4 or 8 entries (flows divided by the
// number of entries stay exact in float64: for multi-file inputs of `portfolio returns`, which adds in arrival order).
func c06TargetNames(r *RNG, pool, own []string, pow2 bool) []string {
	n := Pick(r, []int{0, 1, 1, 2, 2, 3, 3, 4, 4, 5, 6, 7, 8})
	if pow2 {
		n = Pick(r, []int{0, 1, 1, 2, 2, 2, 4, 4, 4, 8, 8})
	}
	if len(pool) == 0 {
		pool = []string{"CHF"}
	}
	if len(own) == 0 {
		own = pool[:1]
	}
	res := []string{}
	perm := c06Shuffled(r, pool)
	switch r.Intn(7) {
	case 0: // distinct entries (as many as the pool has), random order
		for k := 0; k < n && k < len(perm); k++ {
			res = append(res, perm[k])
		}
		if pow2 {
			for len(res) != 0 && len(res)&(len(res)-1) != 0 {
				res = res[:len(res)-1]
			}
		}
	case 1: // drawn with replacement from the whole pool
		for k := 0; k < n; k++ {
			res = append(res, Pick(r, pool))
		}
	case 2: // drawn with replacement from two or three commodities: many repetitions
		sub := perm[:min(len(perm), r.Range(2, 3))]
		for k := 0; k < n; k++ {
			res = append(res, Pick(r, sub))
		}
	case 3: // distinct entries, then the first one again at the end / every entry twice
		half := (n + 1) / 2
		for k := 0; k < half && k < len(perm); k++ {
			res = append(res, perm[k])
		}
		if r.Chance(1, 2) {
			res = append(res, res...)
		} else {
			for len(res) < n && len(res) > 0 {
				res = append(res, res[0])
			}
		}
		if pow2 {
			for len(res) != 0 && len(res)&(len(res)-1) != 0 {
				res = append(res, res[0])
			}
		}
	case 4: // one commodity in every place
		x := Pick(r, append(append([]string{}, own...), pool...))
		for k := 0; k < n; k++ {
			res = append(res, x)
		}
	case 5: // the transaction's own commodities first / last / twice, the rest from the pool
		for k := 0; k < n; k++ {
			res = append(res, Pick(r, pool))
		}
		if n > 0 {
			res[Pick(r, []int{0, n - 1, r.Intn(n)})] = Pick(r, own)
			if n > 1 && r.Chance(1, 2) {
				res[r.Intn(n)] = Pick(r, own)
			}
		}
	default: // neighbours repeated: A,A,B,B,B,C
		for len(res) < n {
			x := Pick(r, pool)
			for q := r.Range(1, 3); q > 0 && len(res) < n; q-- {
				res = append(res, x)
			}
		}
	}
	return res
}

// c06Ann renders a drawn list as an annotation line (separators `,`, `, ` or ` , `, sometimes blanks inside the brackets).
func c06Ann(r *RNG, pool, own []string, pow2 bool) string {
	tg := c06TargetNames(r, pool, own, pow2)
	sep := Pick(r, []string{",", ",", ",", ", ", " , "})
	in := strings.Join(tg, sep)
	if r.Chance(1, 8) {
		in = " " + in + " "
	}
	return "@performance(" + in + ")\n"
}

// c06EnrichTargets gives a third of the transactions of a generated journal a drawn annotation (replacing what it had).
func c06EnrichTargets(r *RNG, j *Journal) {
	_, coms := journalNames(j)
	for k := range j.Dirs {
		d := &j.Dirs[k]
		if d.Kind != 't' || !r.Chance(1, 3) {
			continue
		}
		var own []string
		for _, b := range d.Bookings {
			own = append(own, b.Com)
		}
		tg := c06TargetNames(r, coms, own, false)
		d.Targets = &tg
	}
}

func c06TargetsJob(c *Ctx, i int) *c06Job {
	r := c.Rng("targets", i)
	day := func(off int) string {
		return time.Date(2020, 1, 1, 0, 0, 0, 0, time.UTC).AddDate(0, 0, off).Format("2006-01-02")
	}
	cmdSel := i % 6
	// the pool: 2-10 commodities, some differing only in letter case, some that no booking and no price mentions
	all := []string{"CHF", "AAPL", "USD", "VWRL", "MSFT", "chf", "Aapl", "EUR", "X1", "ZZZ9", "BTC", "Gold"}
	pool := c06Shuffled(r, all)[:r.Range(2, 10)]
	booked := pool[:r.Range(1, min(len(pool), 4))]
	multi := r.Chance(1, 3)
	pow2 := multi && cmdSel == 4
	nf := 0
	if multi {
		nf = r.Range(1, 3)
	}
	nt := Pick(r, []int{1, 2, 3, 5, 8, 15, 30, 60})
	if c.Thorough() && r.Chance(1, 4) {
		nt = Pick(r, []int{150, 400})
	}
	accounts := []string{"Assets:Bank", "Assets:Broker", "Assets:Broker:Sub", "Liabilities:Card", "Expenses:Fees", "Income:Dividends", "Equity:Opening", "Assets:Receivable"}
	var head strings.Builder
	for _, a := range accounts {
		fmt.Fprintf(&head, "2019-12-31 open %s\n", a)
	}
	for _, cm := range pool {
		if cm != "CHF" && (indexOf(booked, cm) >= 0 || r.Chance(4, 5)) {
			fmt.Fprintf(&head, "2019-12-31 price %s %d.%s CHF\n", cm, r.Range(1, 300), Pick(r, []string{"0", "25", "5", "75"}))
		}
	}
	for q := r.Intn(4); q > 0; q-- {
		fmt.Fprintf(&head, "%s price %s %d.%s CHF\n", day(10*q+r.Intn(5)), Pick(r, pool), r.Range(1, 300), Pick(r, []string{"0", "25", "5", "75"}))
	}
	bodies := make([]strings.Builder, nf+1)
	annotated := Pick(r, []int{1, 2, 2, 3, 3, 4}) // of four transactions
	var shapes []string
	for q := 0; q < nt; q++ {
		k := r.Intn(nf + 1)
		b := &bodies[k]
		// every file books on days of its own (day = k mod (nf+1)): no same-day directives of different files
		off := (1+r.Intn(120))*(nf+1) + k
		nb := Pick(r, []int{1, 1, 1, 2, 3})
		var own []string
		var bk strings.Builder
		for x := 0; x < nb; x++ {
			cm := Pick(r, booked)
			own = append(own, cm)
			cr, dr := Pick(r, accounts), Pick(r, accounts)
			for dr == cr {
				dr = Pick(r, accounts)
			}
			fmt.Fprintf(&bk, "%s %s %d %s\n", cr, dr, r.Range(1, 500), cm)
		}
		if r.Chance(1, 10) {
			s := off + r.Intn(30)
			fmt.Fprintf(b, "@accrue %s %s %s Assets:Receivable\n", Pick(r, []string{"monthly", "weekly", "quarterly"}), day(s), day(s+Pick(r, []int{0, 6, 45, 100})))
		}
		if r.Intn(4) < annotated {
			ann := c06Ann(r, pool, own, pow2)
			b.WriteString(ann)
			if len(shapes) < 12 {
				shapes = append(shapes, strings.TrimSpace(ann))
			}
		}
		fmt.Fprintf(b, "%s \"tx %d of file %d\"\n%s\n", day(off), q, k, bk.String())
	}
	files := map[string]string{}
	var root strings.Builder
	root.WriteString(head.String())
	root.WriteString("\n")
	for k := 1; k <= nf; k++ {
		rel := path.Join(Pick(r, []string{"", "", "inc"}), fmt.Sprintf("f%d.knut", k))
		fmt.Fprintf(&root, "include \"%s\"\n", rel)
		files[rel] = bodies[k].String()
	}
	root.WriteString("\n")
	root.WriteString(bodies[0].String())
	files["root.knut"] = root.String()
	jb := &c06Job{Idx: 600000 + i, Files: files, Mixed: true}
	iv := func() string { return Pick(r, []string{"--days", "--weeks", "--months", "--quarters", "--years"}) }
	switch cmdSel {
	case 0, 1, 2:
		jb.Kind, jb.Args = "print", []string{"print", "@root.knut"}
	case 3:
		fl := Pick(r, [][]string{{}, {"-v", "CHF"}, {"-v", "CHF", iv()}, {"-v", "CHF", "--diff", iv(), "--csv"}, {iv(), "-m", "1"}})
		jb.Kind, jb.Args = "balance", append(append([]string{"balance", "--color=false"}, fl...), "@root.knut")
	case 4:
		fl := Pick(r, [][]string{{}, {iv()}, {"--weeks"}, {"--months"}, {iv(), "--last", "6"}})
		jb.Kind, jb.Args = "returns", append(append([]string{"portfolio", "returns", "-v", "CHF"}, fl...), "@root.knut")
	default:
		jb.Kind, jb.Args = "transcode", []string{"transcode", "-v", "CHF", "@root.knut"}
		if r.Chance(1, 2) {
			jb.Kind, jb.Args = "register", []string{"register", "--color=false", "-v", "CHF", Pick(r, []string{"-d", "-a", "--months"}), "@root.knut"}
		}
	}
	jb.Kind += "-targets"
	jb.Input = map[string]any{"shape": fmt.Sprintf("%d files, %d transactions, pool %s, booked %s; first annotations: %s", nf+1, nt, strings.Join(pool, " "), strings.Join(booked, " "), strings.Join(shapes, " "))}
	return jb
}
