package main

import (
	"fmt"
	"os"
	"path/filepath"
	"regexp"
	"sort"
	"strings"
	"time"

	"github.com/shopspring/decimal"
)

func init() { runners["C09"] = runC09 }

type printCase struct {
	Idx                int
	J                  *Journal
	Text               string
	F                  BalFlags
	Tags               []string
	Code               int
	Out1, Err1         string
	Code2              int
	Out2               string
	BalA, BalB         string
	BalCodeA, BalCodeB int
}

func runC09(c *Ctx) {
	dir := filepath.Join(c.WorkDir, "c09")
	os.MkdirAll(dir, 0o755)
	runC09Text(c, dir)
	runC09Print(c, dir, "print", c.N(1500, 12000), nil, func(r *RNG) JGenOpts {
		o := JGenOpts{MaxAccounts: r.Range(2, 7), MaxDays: r.Range(1, 6), Unicode: true, BaseDay: 737000 + r.Intn(1500), SpanDays: Pick(r, []int{0, 3, 30, 200}),
			ManyDecimals: r.Chance(1, 2), Mutate: r.Chance(1, 12), Accruals: r.Chance(1, 3)}
		if r.Chance(1, 2) {
			o.Prices, o.Valuation, o.DupPrices = true, "CHF", true
			o.LongPrices, o.ChainPrices, o.ManyPricesPerDay = r.Chance(1, 2), r.Chance(1, 2), r.Chance(1, 2)
		}
		o.CaseVariants = true
		return o
	})
	// stream `sizes`: the same journals with wide fields (JGenOpts.Sizes): account names of 30-300 runes, commodity names of 8-40
	// runes, amounts of 8-40 characters, the lengths clustered around powers of two and typical caps; same comparisons and monitors
	runC09Print(c, dir, "sizes", c.N(250, 3000), nil, func(r *RNG) JGenOpts {
		o := JGenOpts{MaxAccounts: r.Range(2, 6), MaxDays: r.Range(1, 4), Unicode: true, BaseDay: 737000 + r.Intn(1500), SpanDays: Pick(r, []int{0, 3, 30, 200}),
			ManyDecimals: r.Chance(1, 2), Mutate: r.Chance(1, 12), Accruals: r.Chance(1, 4), Sizes: true, CaseVariants: r.Chance(1, 3)}
		if r.Chance(1, 3) {
			o.Prices, o.Valuation, o.DupPrices = true, "CHF", r.Chance(1, 2)
		}
		return o
	})
	// stream `ties`: journals whose FILE order is not their date order and whose days hold groups of transactions that tie on date,
	// description and leading postings (c09Ties, c09Shuffle); same comparisons and monitors
	runC09Print(c, dir, "ties", c.N(300, 4000), c09TiesPost, func(r *RNG) JGenOpts {
		o := JGenOpts{MaxAccounts: r.Range(2, 6), MaxDays: r.Range(1, 5), Unicode: true, BaseDay: 737000 + r.Intn(1500), SpanDays: Pick(r, []int{0, 3, 30, 200}),
			ManyDecimals: r.Chance(1, 3), Mutate: r.Chance(1, 16), Accruals: r.Chance(1, 4), CaseVariants: r.Chance(1, 3)}
		if r.Chance(1, 3) {
			o.Prices, o.Valuation, o.DupPrices = true, "CHF", r.Chance(1, 2)
		}
		return o
	})
}

// c09Widths: the longest account name (runes), commodity name (runes) and amount literal (characters) of a journal.
func c09Widths(j *Journal) (acc, com, amt int) {
	up := func(p *int, s string, runes bool) {
		n := len(s)
		if runes {
			n = len([]rune(s))
		}
		if n > *p {
			*p = n
		}
	}
	for _, d := range j.Dirs {
		up(&acc, d.Account, true)
		up(&com, d.Com, true)
		up(&com, d.Target, true)
		up(&amt, d.Price, false)
		for _, b := range d.Balances {
			up(&acc, b.Account, true)
			up(&com, b.Com, true)
			up(&amt, b.Qty, false)
		}
		for _, b := range d.Bookings {
			up(&acc, b.Credit, true)
			up(&acc, b.Debit, true)
			up(&com, b.Com, true)
			up(&amt, b.Qty, false)
		}
	}
	return
}

func c09WidthBucket(n int) string {
	for _, b := range []int{9, 10, 16, 31, 32, 63, 64, 80, 100, 127, 128, 200, 254, 255, 256} {
		if n <= b {
			return fmt.Sprintf("le%d", b)
		}
	}
	return "gt256"
}

// runC09Print: one stream of generated journals through knut print, knut print on the output, knut balance on both; model comparisons and monitors.
// post (optional) rewrites the generated journal before it is rendered and returns further tags.
func runC09Print(c *Ctx, dir, stream string, n int, post func(r *RNG, j *Journal) []string, opts func(r *RNG) JGenOpts) {
	var cases []*printCase
	for i := 0; i < n; i++ {
		if !c.Want(stream, i) {
			continue
		}
		r := c.Rng(stream, i)
		o := opts(r)
		j, tags := GenJournal(r, o)
		if post != nil {
			tags = append(tags, post(r, j)...)
		}
		text, _ := j.Text()
		f := GenBalFlags(r, j, o.Valuation, BalGenOpts{Valued: true})
		cases = append(cases, &printCase{Idx: i, J: j, Text: text, F: f, Tags: tags})
	}
	parallelFor(len(cases), 16, func(k int) {
		pc := cases[k]
		p1 := filepath.Join(dir, fmt.Sprintf("a-%s%d.knut", stream, pc.Idx))
		p2 := filepath.Join(dir, fmt.Sprintf("b-%s%d.knut", stream, pc.Idx))
		os.WriteFile(p1, []byte(pc.Text), 0o644)
		pc.Code, pc.Out1, pc.Err1 = runKnut(c.KnutBin, 20*time.Second, nil, "print", p1)
		if pc.Code == 0 {
			os.WriteFile(p2, []byte(pc.Out1), 0o644)
			pc.Code2, pc.Out2, _ = runKnut(c.KnutBin, 20*time.Second, nil, "print", p2)
			args := append([]string{"balance"}, pc.F.Args()...)
			pc.BalCodeA, pc.BalA, _ = runKnut(c.KnutBin, 20*time.Second, nil, append(args, p1)...)
			pc.BalCodeB, pc.BalB, _ = runKnut(c.KnutBin, 20*time.Second, nil, append(args, p2)...)
			os.Remove(p2)
		}
		os.Remove(p1)
	})
	bt := c.NewBatch()
	defer bt.Flush()
	for _, pc := range cases {
		pc := pc
		c.Evals++
		in := map[string]any{"journal": pc.Text, "balance_args": strings.Join(pc.F.Args(), " ")}
		impl := "error"
		if pc.Code == 0 {
			impl = "ok " + Hex(pc.Out1)
		}
		if strings.Contains(pc.Err1, "panic") {
			impl = "panic"
		}
		for _, t := range pc.Tags {
			c.Tag(t)
		}
		sig := []string{}
		for _, t := range pc.Tags {
			if t == "multi-balance-assertion" || t == "zero-amount" || t == "performance-annotation" || t == "unicode" || t == "negative-amount" {
				sig = append(sig, t[:4])
			}
		}
		if stream == "ties" {
			var ts []string
			for _, t := range pc.Tags {
				if strings.HasPrefix(t, "tie") || strings.HasPrefix(t, "file-order") {
					ts = append(ts, t)
				}
			}
			c.Class(fmt.Sprintf("c09ties/%s/%s", strings.Fields(impl)[0], strings.Join(dedup(ts), "+")))
		} else if stream == "sizes" {
			wa, wc, wq := c09Widths(pc.J)
			c.Class(fmt.Sprintf("c09sizes/%s/acc-%s/com-%s/amt-%s", strings.Fields(impl)[0], c09WidthBucket(wa), c09WidthBucket(wc), c09WidthBucket(wq)))
		} else {
			c.Class(fmt.Sprintf("c09/%s/%s/n%s", strings.Fields(impl)[0], strings.Join(dedup(sig), "+"), bucket(len(pc.J.Dirs))))
		}
		if pc.Idx < 2 {
			c.Sample(map[string]any{"journal": pc.Text, "printed": pc.Out1})
		}
		bt.Add(func(model string) {
			if model == "unsupported" {
				return
			}
			if !c.Compare(stream, pc.Idx, "print", in, impl, model) {
				f := &c.Findings[len(c.Findings)-1]
				if strings.HasPrefix(model, "ok ") {
					f.Model = clip(UnHex(strings.TrimPrefix(model, "ok ")))
				}
				f.Impl = clip(pc.Out1 + pc.Err1)
			}
		}, "print", pc.J.Wire())
		// the command model on the SAME input text: Cmd.run .print of a one-file file system (= FromSyntax.printFile of the bytes,
		// Knut.C09.C09_cmd_print_is_printFile), byte for byte, rejected inputs included
		bt.Add(func(model string) {
			if !c.Compare(stream, pc.Idx, "print_text", in, impl, model) {
				f := &c.Findings[len(c.Findings)-1]
				if strings.HasPrefix(model, "ok ") {
					f.Model = clip(UnHex(strings.TrimPrefix(model, "ok ")))
				}
				f.Impl = clip(pc.Out1 + pc.Err1)
			}
		}, "c09printtext", Hex(pc.Text))
		// the same round trip inside the model: print, re-read with the Lean parser + FromSyntax, print again
		bt.Add(func(m string) {
			if m == "rejected" || m == "unsupported" {
				return
			}
			c.Monitor(stream, pc.Idx, "model_print_parse_print_fixpoint", in, m == "ok", "model round trip: "+m)
		}, "c09roundtrip", pc.J.Wire())
		if pc.Code == 0 {
			c.Monitor(stream, pc.Idx, "print_output_accepted", in, pc.Code2 == 0, "printed journal is rejected:\n"+pc.Out1)
			if pc.Code2 == 0 {
				c.Monitor(stream, pc.Idx, "print_fixpoint", in, pc.Out2 == pc.Out1, "print(print(j)) differs:\n"+pc.Out1+"\n---\n"+pc.Out2)
			}
			c.Monitor(stream, pc.Idx, "reports_equal", in, pc.BalCodeA == pc.BalCodeB && pc.BalA == pc.BalB,
				fmt.Sprintf("balance %s differs between original (exit %d) and printed journal (exit %d):\n%s\n---\n%s", strings.Join(pc.F.Args(), " "), pc.BalCodeA, pc.BalCodeB, pc.BalA, pc.BalB))
		}
	}
}

// c09TextCase is a case of the stream `text`: a generated journal text with one text-level mutation, most of which make
// knut reject it (syntax error, calendar date, account type, decimal, unresolved include, transaction.Create panic).
type c09TextCase struct {
	Idx         int
	Kind        string
	Text        string
	Code, Code2 int
	Out1, Err1  string
	Out2        string
}

var c09DateRe = regexp.MustCompile(`\d{4}-\d{2}-\d{2}`)
var c09NumRe = regexp.MustCompile(` -?\d+(\.\d+)? `)

const c09PanicTx = "@accrue monthly 0001-01-01 0001-03-01 Assets:A\n2020-01-01 \"x\"\nAssets:B Expenses:C 10 CHF\n\n"

func c09ReplaceAt(text string, loc []int, with string) string {
	return text[:loc[0]] + with + text[loc[1]:]
}

func c09Mutate(r *RNG, text string) (string, string) {
	lines := strings.SplitAfter(text, "\n")
	switch k := r.Intn(13); k {
	case 0:
		return "unchanged", text
	case 1, 2:
		if locs := c09DateRe.FindAllStringIndex(text, -1); len(locs) > 0 {
			bad := Pick(r, []string{"2021-02-30", "2021-13-01", "2021-00-10", "2021-04-31", "1900-02-29", "0000-01-01", "2021-01-00", "٢٠٢١-01-01"})
			return "bad-date", c09ReplaceAt(text, locs[r.Intn(len(locs))], bad)
		}
	case 3:
		if len(text) > 0 {
			return "truncated", text[:r.Intn(len(text))]
		}
	case 4:
		if len(text) > 0 {
			i := r.Intn(len(text))
			b := Pick(r, []string{"\xff", "\"", "\n", " ", "\xc3", "#", "@", ":", "x"})
			if r.Bool() {
				return "byte-inserted", text[:i] + b + text[i:]
			}
			return "byte-replaced", text[:i] + b + text[i+1:]
		}
	case 5:
		i := r.Intn(len(lines) + 1)
		return "include-missing", strings.Join(lines[:i], "") + "include \"missing.knut\"\n" + strings.Join(lines[i:], "")
	case 6:
		if n := strings.Count(text, "Assets:"); n > 0 {
			return "account-type", strings.Replace(text, "Assets:", Pick(r, []string{"Foo:", "assets:", "Asset:"}), 1)
		}
	case 7:
		return "create-panic", c09PanicTx + text
	case 8:
		if locs := c09DateRe.FindAllStringIndex(text, -1); len(locs) > 0 {
			return "create-panic-then-bad-date", c09PanicTx + c09ReplaceAt(text, locs[r.Intn(len(locs))], "2021-02-30")
		}
	case 9:
		if len(lines) > 1 {
			i := r.Intn(len(lines))
			return "line-deleted", strings.Join(lines[:i], "") + strings.Join(lines[i+1:], "")
		}
	case 10:
		if len(lines) > 1 {
			i := r.Intn(len(lines))
			return "line-doubled", strings.Join(lines[:i+1], "") + strings.Join(lines[i:], "")
		}
	case 11:
		if locs := c09NumRe.FindAllStringIndex(text, -1); len(locs) > 0 {
			bad := Pick(r, []string{" 1.2.3 ", " ١٢ ", " 1. ", " .5 ", " 1e3 ", " -0 ", " 007.50 "})
			return "bad-decimal", c09ReplaceAt(text, locs[r.Intn(len(locs))], bad)
		}
	case 12:
		return "accrue-interval", "@accrue " + Pick(r, []string{"once", "yearly", "monthly", "daily"}) + " 2020-01-01 2020-03-01 Assets:A\n2020-01-01 \"x\"\nAssets:B Expenses:C 10 CHF\n\n" + text
	}
	return "unchanged", text
}

func runC09Text(c *Ctx, dir string) {
	n := c.N(600, 4000)
	var cases []*c09TextCase
	for i := 0; i < n; i++ {
		if !c.Want("text", i) {
			continue
		}
		r := c.Rng("text", i)
		o := JGenOpts{MaxAccounts: r.Range(2, 5), MaxDays: r.Range(1, 4), Unicode: true, BaseDay: 737000 + r.Intn(1500), SpanDays: Pick(r, []int{0, 3, 30}),
			ManyDecimals: r.Chance(1, 2), Accruals: r.Chance(1, 3)}
		if r.Chance(1, 3) {
			o.Prices, o.Valuation = true, "CHF"
		}
		j, _ := GenJournal(r, o)
		text, _ := j.Text()
		kind, mut := c09Mutate(r, text)
		cases = append(cases, &c09TextCase{Idx: i, Kind: kind, Text: mut})
	}
	parallelFor(len(cases), 16, func(k int) {
		tc := cases[k]
		sub := filepath.Join(dir, fmt.Sprintf("t%d", tc.Idx))
		os.MkdirAll(sub, 0o755)
		p1 := filepath.Join(sub, "j.knut")
		p2 := filepath.Join(sub, "k.knut")
		os.WriteFile(p1, []byte(tc.Text), 0o644)
		tc.Code, tc.Out1, tc.Err1 = runKnut(c.KnutBin, 20*time.Second, nil, "print", p1)
		if tc.Code == 0 {
			os.WriteFile(p2, []byte(tc.Out1), 0o644)
			tc.Code2, tc.Out2, _ = runKnut(c.KnutBin, 20*time.Second, nil, "print", p2)
		}
		os.RemoveAll(sub)
	})
	bt := c.NewBatch()
	defer bt.Flush()
	for _, tc := range cases {
		tc := tc
		c.Evals++
		in := map[string]any{"text": tc.Text, "text_hex": Hex(tc.Text), "mutation": tc.Kind}
		impl := "error"
		if tc.Code == 0 {
			impl = "ok " + Hex(tc.Out1)
		}
		if strings.Contains(tc.Err1, "panic") {
			impl = "panic"
		}
		c.Tag("text:" + tc.Kind)
		c.Class(fmt.Sprintf("c09text/%s/%s", tc.Kind, strings.Fields(impl)[0]))
		bt.Add(func(model string) {
			if !c.Compare("text", tc.Idx, "print_text", in, impl, model) {
				f := &c.Findings[len(c.Findings)-1]
				if strings.HasPrefix(model, "ok ") {
					f.Model = clip(UnHex(strings.TrimPrefix(model, "ok ")))
				}
				f.Impl = clip(tc.Out1 + tc.Err1)
			}
		}, "c09printtext", Hex(tc.Text))
		if tc.Code == 0 {
			// C09_cmd_print_idempotent, decided on the real binary for this input text
			c.Monitor("text", tc.Idx, "print_output_accepted", in, tc.Code2 == 0, "printed journal is rejected:\n"+tc.Out1)
			if tc.Code2 == 0 {
				c.Monitor("text", tc.Idx, "print_fixpoint", in, tc.Out2 == tc.Out1, "print(print(text)) differs:\n"+tc.Out1+"\n---\n"+tc.Out2)
			}
		}
	}
}

func dedup(xs []string) []string {
	seen := map[string]bool{}
	var res []string
	for _, x := range xs {
		if !seen[x] {
			seen[x] = true
			res = append(res, x)
		}
	}
	return res
}

// ---------------------------------------------------------------- stream `ties` (added after seed C09-k)
//
// knut print sorts the days by date and the transactions of a day by transaction.Compare; the printed text registers accounts,
// commodities and days in another order than the input file did whenever the file is not in print order. Anything in that
// comparison (or elsewhere in print) that depends on the order of first mention shows only when (a) the file order differs from
// the print order and (b) some transactions tie up to the field in question. c09Ties adds such groups, c09Shuffle reorders the file.

func c09TiesPost(r *RNG, j *Journal) []string {
	tags := c09Ties(r, j)
	return append(tags, c09Shuffle(r, j)...)
}

func c09AccType(a string) string {
	if i := strings.IndexByte(a, ':'); i >= 0 {
		return a[:i]
	}
	return a
}

var c09TieSegs = []string{"Depot", "Savings", "Alpha", "Zeta", "Mid", "B2", "Övrig", "K", "Aa", "Zz", "Pool", "N1", "N2", "Тест", "Joint"}

// c09Ties adds 1-2 groups of 2-4 transactions on one day with the description and the leading bookings of a transaction of the
// journal, which differ only in one later booking (or the only one): in its credit or debit account (another account of the same
// type: a fresh one, opened on that day or 1-400 days earlier, or one the journal has open), in its commodity or in its quantity.
// A compensating transaction (other description) on the same day takes the net effect on the journal's own accounts back, so
// assertions and closes of the journal still hold; sometimes a later transaction between the fresh accounts follows.
func c09Ties(r *RNG, j *Journal) []string {
	var tags []string
	known := map[string]bool{}
	closed := map[string]bool{}
	opened := map[string]int{}
	var coms []string
	var txs []int
	for i, d := range j.Dirs {
		switch d.Kind {
		case 'o':
			known[d.Account] = true
			if z, ok := opened[d.Account]; !ok || d.Date < z {
				opened[d.Account] = d.Date
			}
		case 'c':
			closed[d.Account] = true
		case 'a':
			for _, b := range d.Balances {
				known[b.Account] = true
			}
		case 't':
			if len(d.Bookings) > 0 {
				txs = append(txs, i)
			}
			for _, b := range d.Bookings {
				known[b.Credit], known[b.Debit] = true, true
				if !contains(coms, b.Com) {
					coms = append(coms, b.Com)
				}
			}
		}
	}
	if len(txs) == 0 {
		return nil
	}
	own := map[string]bool{}
	for a := range known {
		own[a] = true
	}
	fresh := func(typ string, date int) string {
		for {
			a := typ + ":" + Pick(r, c09TieSegs)
			if r.Chance(1, 2) {
				a += ":" + Pick(r, c09TieSegs)
			}
			if known[a] {
				if r.Chance(1, 4) {
					a += fmt.Sprintf("%d", r.Intn(100))
				}
				if known[a] {
					continue
				}
			}
			known[a] = true
			od := date - Pick(r, []int{0, 0, r.Range(1, 5), r.Range(6, 400)})
			j.Dirs = append(j.Dirs, JDir{Kind: 'o', Date: od, Account: a})
			return a
		}
	}
	for g, ng := 0, r.Range(1, 2); g < ng; g++ {
		base := j.Dirs[Pick(r, txs)]
		date := base.Date
		lead := append([]JBook(nil), base.Bookings...)
		var tmpl JBook
		switch {
		case len(lead) > 1 && r.Chance(1, 2): // the last booking varies, the base is a member of the group
			tmpl, lead = lead[len(lead)-1], lead[:len(lead)-1]
			tags = append(tags, "tie-pos:last")
		case r.Chance(1, 4): // the first booking varies
			tmpl, lead = lead[0], nil
			tags = append(tags, "tie-pos:first")
		default: // a further booking after all of the base's
			tmpl = Pick(r, lead)
			tags = append(tags, "tie-pos:appended")
		}
		n := r.Range(2, 4)
		if base.Accrual == nil && len(lead) < len(base.Bookings) {
			n-- // the base itself is a member of the group
		}
		kind := Pick(r, []string{"credit", "credit", "credit", "debit", "debit", "debit", "commodity", "quantity"})
		if kind == "commodity" && len(coms) < 2 {
			kind = "debit"
		}
		tags = append(tags, "tie:"+kind, fmt.Sprintf("tie-n:%d", n))
		var made []string
		variantAcc := func(orig, other string) string {
			typ := c09AccType(orig)
			if r.Chance(1, 4) { // an account the journal has open on that day
				var cand []string
				for a := range own {
					if z, ok := opened[a]; ok && z <= date && !closed[a] && a != orig && a != other && c09AccType(a) == typ {
						cand = append(cand, a)
					}
				}
				if len(cand) > 0 {
					sort.Strings(cand)
					return Pick(r, cand)
				}
			}
			a := fresh(typ, date)
			made = append(made, a)
			return a
		}
		type key = [2]string
		eff := map[key]decimal.Decimal{}
		var effKeys []key
		note := func(bs []JBook) {
			for _, b := range bs {
				q, err := decimal.NewFromString(b.Qty)
				if err != nil {
					continue
				}
				for side, a := range []string{b.Credit, b.Debit} {
					if !own[a] {
						continue
					}
					k := key{a, b.Com}
					if _, ok := eff[k]; !ok {
						effKeys = append(effKeys, k)
					}
					if side == 0 {
						eff[k] = eff[k].Sub(q)
					} else {
						eff[k] = eff[k].Add(q)
					}
				}
			}
		}
		for k := 0; k < n; k++ {
			v := tmpl
			switch kind {
			case "credit":
				v.Credit = variantAcc(tmpl.Credit, tmpl.Debit)
			case "debit":
				v.Debit = variantAcc(tmpl.Debit, tmpl.Credit)
			case "commodity":
				v.Com = Pick(r, coms)
			case "quantity":
				v.Qty = fmt.Sprintf("%d.%02d", r.Intn(300), r.Intn(100))
			}
			t := JDir{Kind: 't', Date: date, Desc: base.Desc, Targets: base.Targets}
			t.Bookings = append(append([]JBook(nil), lead...), v)
			note(t.Bookings)
			j.Dirs = append(j.Dirs, t)
		}
		// take the net effect on the journal's own accounts back (same day, other description)
		var comp []JBook
		sink := ""
		for _, k := range effKeys {
			if q := eff[k]; !q.IsZero() {
				if sink == "" {
					sink = fresh("Equity", date)
					made = append(made, sink)
				}
				comp = append(comp, JBook{Credit: sink, Debit: k[0], Qty: q.Neg().String(), Com: k[1]})
			}
		}
		if len(comp) > 0 {
			j.Dirs = append(j.Dirs, JDir{Kind: 't', Date: date, Desc: base.Desc + " (reversal)", Bookings: comp})
		}
		if len(made) >= 2 && r.Chance(1, 2) { // the fresh accounts are used again on that day or later
			t := JDir{Kind: 't', Date: date + Pick(r, []int{0, 1, 7, 40}), Desc: Pick(r, []string{base.Desc, "later", "x"})}
			for k := r.Range(1, 2); k > 0; k-- {
				a, b := Pick(r, made), Pick(r, made)
				if a != b {
					t.Bookings = append(t.Bookings, JBook{Credit: a, Debit: b, Qty: fmt.Sprintf("%d", r.Range(1, 90)), Com: Pick(r, coms)})
				}
			}
			if len(t.Bookings) > 0 {
				j.Dirs = append(j.Dirs, t)
				tags = append(tags, "tie-later-use")
			}
		}
	}
	return tags
}

// c09Shuffle reorders the directives in the FILE without changing the journal: the relative order of a day's directives is kept
// (except, half of the time, that of a day's opens among themselves), the days are interleaved / reversed / permuted, or all opens
// are listed first in a random order.
func c09Shuffle(r *RNG, j *Journal) []string {
	mode := r.Intn(6)
	if mode == 0 {
		return []string{"file-order:appended"} // as generated, the added directives at the end of the file
	}
	byDay := map[int][]JDir{}
	var days []int
	for _, d := range j.Dirs {
		if _, ok := byDay[d.Date]; !ok {
			days = append(days, d.Date)
		}
		byDay[d.Date] = append(byDay[d.Date], d)
	}
	sort.Ints(days)
	tags := []string{}
	perm := func(n int, swap func(i, k int)) {
		for i := n - 1; i > 0; i-- {
			swap(i, r.Intn(i+1))
		}
	}
	if r.Chance(1, 2) {
		for _, z := range days {
			ds := byDay[z]
			var at []int
			for i, d := range ds {
				if d.Kind == 'o' {
					at = append(at, i)
				}
			}
			perm(len(at), func(i, k int) { ds[at[i]], ds[at[k]] = ds[at[k]], ds[at[i]] })
		}
		tags = append(tags, "file-order:opens-permuted")
	}
	var out []JDir
	interleave := func(qs [][]JDir) {
		for {
			var live []int
			for i, q := range qs {
				if len(q) > 0 {
					live = append(live, i)
				}
			}
			if len(live) == 0 {
				return
			}
			i := Pick(r, live)
			out, qs[i] = append(out, qs[i][0]), qs[i][1:]
		}
	}
	queues := func() [][]JDir {
		var qs [][]JDir
		for _, z := range days {
			qs = append(qs, byDay[z])
		}
		return qs
	}
	switch mode {
	case 1:
		for _, z := range days {
			out = append(out, byDay[z]...)
		}
		tags = append(tags, "file-order:by-date")
	case 2:
		perm(len(days), func(i, k int) { days[i], days[k] = days[k], days[i] })
		for _, z := range days {
			out = append(out, byDay[z]...)
		}
		tags = append(tags, "file-order:days-permuted")
	case 3:
		interleave(queues())
		tags = append(tags, "file-order:interleaved")
	case 4:
		var opens []JDir
		for _, z := range days {
			var rest []JDir
			for _, d := range byDay[z] {
				if d.Kind == 'o' {
					opens = append(opens, d)
				} else {
					rest = append(rest, d)
				}
			}
			byDay[z] = rest
		}
		// (an account opened, closed and opened again keeps the order of its own opens irrelevant: they are equal directives up to the date)
		perm(len(opens), func(i, k int) { opens[i], opens[k] = opens[k], opens[i] })
		out = append(out, opens...)
		if r.Bool() {
			interleave(queues())
		} else {
			for _, z := range days {
				out = append(out, byDay[z]...)
			}
		}
		tags = append(tags, "file-order:opens-first")
	case 5:
		for i := len(days) - 1; i >= 0; i-- {
			out = append(out, byDay[days[i]]...)
		}
		tags = append(tags, "file-order:days-reversed")
	}
	j.Dirs = out
	return tags
}
