package main

import (
	"fmt"
	"os"
	"path/filepath"
	"strings"
	"time"
)

func init() { runners["C09"] = runC09 }

type printCase struct {
	Idx                int
	J                  *Journal
	Text               string
	F                  BalFlags
	Tags               []string
	Code               int
	Out1, Err1         string
	Code2              int
	Out2               string
	BalA, BalB         string
	BalCodeA, BalCodeB int
}

func runC09(c *Ctx) {
	n := c.N(300, 12000)
	dir := filepath.Join(c.WorkDir, "c09")
	os.MkdirAll(dir, 0o755)
	var cases []*printCase
	for i := 0; i < n; i++ {
		if !c.Want("print", i) {
			continue
		}
		r := c.Rng("print", i)
		o := JGenOpts{MaxAccounts: r.Range(2, 7), MaxDays: r.Range(1, 6), Unicode: true, BaseDay: 737000 + r.Intn(1500), SpanDays: Pick(r, []int{0, 3, 30, 200}),
			ManyDecimals: r.Chance(1, 2), Mutate: r.Chance(1, 12), Accruals: r.Chance(1, 3)}
		if r.Chance(1, 2) {
			o.Prices, o.Valuation, o.DupPrices = true, "CHF", true
			o.LongPrices, o.ChainPrices, o.ManyPricesPerDay = r.Chance(1, 2), r.Chance(1, 2), r.Chance(1, 2)
		}
		o.CaseVariants = true
		j, tags := GenJournal(r, o)
		text, _ := j.Text()
		f := GenBalFlags(r, j, o.Valuation, BalGenOpts{Valued: true})
		cases = append(cases, &printCase{Idx: i, J: j, Text: text, F: f, Tags: tags})
	}
	parallelFor(len(cases), 16, func(k int) {
		pc := cases[k]
		p1 := filepath.Join(dir, fmt.Sprintf("a%d.knut", pc.Idx))
		p2 := filepath.Join(dir, fmt.Sprintf("b%d.knut", pc.Idx))
		os.WriteFile(p1, []byte(pc.Text), 0o644)
		pc.Code, pc.Out1, pc.Err1 = runKnut(c.KnutBin, 20*time.Second, nil, "print", p1)
		if pc.Code == 0 {
			os.WriteFile(p2, []byte(pc.Out1), 0o644)
			pc.Code2, pc.Out2, _ = runKnut(c.KnutBin, 20*time.Second, nil, "print", p2)
			args := append([]string{"balance"}, pc.F.Args()...)
			pc.BalCodeA, pc.BalA, _ = runKnut(c.KnutBin, 20*time.Second, nil, append(args, p1)...)
			pc.BalCodeB, pc.BalB, _ = runKnut(c.KnutBin, 20*time.Second, nil, append(args, p2)...)
			os.Remove(p2)
		}
		os.Remove(p1)
	})
	bt := c.NewBatch()
	defer bt.Flush()
	for _, pc := range cases {
		pc := pc
		c.Evals++
		in := map[string]any{"journal": pc.Text, "balance_args": strings.Join(pc.F.Args(), " ")}
		impl := "error"
		if pc.Code == 0 {
			impl = "ok " + Hex(pc.Out1)
		}
		if strings.Contains(pc.Err1, "panic") {
			impl = "panic"
		}
		for _, t := range pc.Tags {
			c.Tag(t)
		}
		sig := []string{}
		for _, t := range pc.Tags {
			if t == "multi-balance-assertion" || t == "zero-amount" || t == "performance-annotation" || t == "unicode" || t == "negative-amount" {
				sig = append(sig, t[:4])
			}
		}
		c.Class(fmt.Sprintf("c09/%s/%s/n%s", strings.Fields(impl)[0], strings.Join(dedup(sig), "+"), bucket(len(pc.J.Dirs))))
		if pc.Idx < 2 {
			c.Sample(map[string]any{"journal": pc.Text, "printed": pc.Out1})
		}
		bt.Add(func(model string) {
			if model == "unsupported" {
				return
			}
			if !c.Compare("print", pc.Idx, "print", in, impl, model) {
				f := &c.Findings[len(c.Findings)-1]
				if strings.HasPrefix(model, "ok ") {
					f.Model = clip(UnHex(strings.TrimPrefix(model, "ok ")))
				}
				f.Impl = clip(pc.Out1 + pc.Err1)
			}
		}, "print", pc.J.Wire())
		// the same round trip inside the model: print, re-read with the Lean parser + FromSyntax, print again
		bt.Add(func(m string) {
			if m == "rejected" || m == "unsupported" {
				return
			}
			c.Monitor("print", pc.Idx, "model_print_parse_print_fixpoint", in, m == "ok", "model round trip: "+m)
		}, "c09roundtrip", pc.J.Wire())
		if pc.Code == 0 {
			c.Monitor("print", pc.Idx, "print_output_accepted", in, pc.Code2 == 0, "printed journal is rejected:\n"+pc.Out1)
			if pc.Code2 == 0 {
				c.Monitor("print", pc.Idx, "print_fixpoint", in, pc.Out2 == pc.Out1, "print(print(j)) differs:\n"+pc.Out1+"\n---\n"+pc.Out2)
			}
			c.Monitor("print", pc.Idx, "reports_equal", in, pc.BalCodeA == pc.BalCodeB && pc.BalA == pc.BalB,
				fmt.Sprintf("balance %s differs between original (exit %d) and printed journal (exit %d):\n%s\n---\n%s", strings.Join(pc.F.Args(), " "), pc.BalCodeA, pc.BalCodeB, pc.BalA, pc.BalB))
		}
	}
}

func dedup(xs []string) []string {
	seen := map[string]bool{}
	var res []string
	for _, x := range xs {
		if !seen[x] {
			seen[x] = true
			res = append(res, x)
		}
	}
	return res
}
