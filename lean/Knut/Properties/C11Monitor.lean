import Knut.Proofs.PartitionMonitor
/-!
# C11 — monitor soundness

The harness evaluates the executable predicates `Spec.partitionOK` / `Spec.alignSpec` on the output of the
REAL `date.NewPartition` / `Partition.Align`.  Here they are proved to hold of the model's output for every
window, every interval and every `last` (positive or not).  Hence a monitor alarm on the real code is a
genuine deviation from the proved behaviour (the model satisfies the predicate, so either the code differs
from the model or it violates the property), never an artefact of the predicate.
-/
namespace Knut.C11
open Knut Knut.Date Knut.Spec

/-- **monitor soundness (partition)**: the executable predicate the monitor evaluates on the real
output accepts the model's output, for every window, interval and `last`. -/
theorem partitionOK_of_model (span : Period) (iv : Interval) (last : Int) (P : Partition)
    (h : newPartition span iv last = .ok P) :
    Spec.partitionOK span.start span.stop iv last P.periods = true := by
  by_cases hiv : iv = .once
  · subst hiv
    have ⟨_, hp⟩ := periods_eq h
    rw [hp]
    simp [partitionOK, periodsOf]
  · by_cases hinv : span.stop < span.start
    · rw [C11_inverted h hiv hinv]
      simp [partitionOK, hiv, hinv]
    · obtain ⟨L0, n, ht, hp, h0, h1⟩ := periods_shape h hiv
      rw [hp]
      exact partitionOK_of_tiles hiv (by omega) ht h0 h1

/-- **monitor soundness (Align)**: for every window, interval, `last` and probe day `d` the model's
`Align` returns exactly what `alignSpec` computes from the shown periods. -/
theorem alignSpec_of_model (span : Period) (iv : Interval) (last : Int) (P : Partition)
    (h : newPartition span iv last = .ok P) (d : Int) :
    P.align d = Spec.alignSpec span.stop P.periods d := by
  unfold Partition.align
  by_cases hiv : iv = .once
  · subst hiv
    have ⟨_, hp⟩ := periods_eq h
    rw [hp]
    simp only [periodsOf, if_true]
    unfold alignIn alignSpec
    by_cases hbd : span.stop < d
    · simp [hbd]
    · by_cases hs : span.start ≤ d
      · have : d ≤ span.stop := by omega
        simp [hbd, hs, this]
      · have h1 : d < span.start := by omega
        simp [hbd, hs, h1]
  · obtain ⟨L0, n, ht, hp, _, _⟩ := periods_shape h hiv
    have hmem : ∀ p ∈ P.periods, p ∈ L0 := by
      intro p hpm; rw [hp] at hpm
      exact List.mem_of_mem_take (List.mem_reverse.mp hpm)
    apply alignIn_eq_alignSpec _ _ _ (C11_consecutive h)
    · intro p hpm; have := ht.mem_bounds p (hmem p hpm); omega
    · intro p hpm; have := ht.mem_bounds p (hmem p hpm); omega
    · intro p hpl
      rw [hp, List.getLast?_reverse] at hpl
      apply ht.head_stop p
      cases n with
      | zero => simp at hpl
      | succ m => cases L0 with
        | nil => simp at hpl
        | cons q r => simpa using hpl

/-! Non-vacuity: the hypothesis is satisfiable (2020-01-15 … 2020-03-10, with and without `--last`),
and the predicates are not trivially true: they reject a list that does not reach the window end, and
`alignSpec` disagrees with a wrong answer. -/
example : ∃ P, newPartition ⟨737438, 737493⟩ .monthly 0 = .ok P := by
  unfold newPartition; simp
example : ∃ P, newPartition ⟨737438, 737493⟩ .monthly 2 = .ok P := by
  unfold newPartition; simp
example : Spec.partitionOK 1 10 .daily 0 [⟨1, 1⟩, ⟨2, 2⟩] = false := by decide
example : Spec.partitionOK 1 2 .daily 0 [⟨1, 1⟩, ⟨2, 2⟩] = true := by decide
example : Spec.partitionOK 1 2 .daily 0 [⟨1, 2⟩] = false := by decide
example : Spec.alignSpec 2 [⟨1, 1⟩, ⟨2, 2⟩] 2 = some 2 := by decide

end Knut.C11
