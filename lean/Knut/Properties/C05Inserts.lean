import Knut.Proofs.InsertsPerm
import Knut.Properties.C05Verdict
import Knut.Properties.C06Report
import Knut.Model.BalanceCmd
/-!
# C05 — the unvalued balance report does not depend on the order of the directives

For `cfg.valuation = none` (no `--val`), with or without period closing, all flags (filters, mappings, remap,
windows, intervals, `--last`, `--diff`, sorting, csv):

* `C05_inserts_perm` – two runs of the pipeline over day lists that agree day by day up to the order of the
  directives of each kind (`DayEquiv`; this is what permuting the directives of a journal produces:
  `C05_days_equiv`) insert the same MULTISET of report entries.  No further hypothesis: with closing, the closing
  transactions come from accumulators whose key order follows the posting order, so the lists do differ
  (`C05_inserts_order_differs`), the multisets do not.
* `C05_run_ok_perm` – and the one run succeeds iff the other does (the only failure of an unvalued run is the
  checker's, `C05_verdict_perm`).
* `C05_inserts_wf` – the inserted accounts keep their account type (remap swaps types, shorten keeps the first
  segment, closings book on position accounts and `Equity:Equity`), so `C06.table_perm` applies.
* `C05_report_perm` – hence the same table for every renderer configuration.
* **`C05_balance_output_perm`** – `knut balance` without `--val` (model `BalanceCmd.run`: journal period, partition,
  `ensureDays`, pipeline, report, text or csv rendering) prints byte for byte the same, or fails alike, for every
  permutation of the directives whose bookings are on accounts with an account type (`DirsWF`; the registry admits
  no others).

Open: the valued report (`--val`): prices of a day are order-sensitive by the property's own exclusion, and the
valuation stage's adjustment transactions follow the key order of `vQty` in the same way as the closings do here.
-/
namespace Knut.C05
open Knut Knut.Spec Knut.InsertsPerm

/-- **the multiset of report inserts is order-independent** (unvalued; closing on or off) -/
theorem C05_inserts_perm (cfg : BalCfg) (hv : cfg.valuation = none) (days days' : List Day)
    (h : List.Forall₂ DayEquiv days days') (st st' : BalState)
    (h1 : Balance.run cfg days = .ok st) (h2 : Balance.run cfg days' = .ok st') : st.entries.Perm st'.entries :=
  (run_rel cfg hv h {} {} st st' rel_init h1 h2).ent

/-- an unvalued run succeeds for both orders or for neither -/
theorem C05_run_ok_perm (cfg : BalCfg) (hv : cfg.valuation = none) (days days' : List Day)
    (h : List.Forall₂ DayEquiv days days') : (Balance.run cfg days).isOk = (Balance.run cfg days').isOk := by
  unfold Balance.run
  rw [run_isOk cfg hv, run_isOk cfg hv]
  show (Check.run days).isOk = (Check.run days').isOk
  rw [C04.C04_accept_iff_strict, C04.C04_accept_iff_strict]
  exact verdict_perm true _ _ h

/-- the report inserts of a journal with well-formed accounts are on well-formed accounts -/
theorem C05_inserts_wf (cfg : BalCfg) (hv : cfg.valuation = none) (days : List Day)
    (hwf : ∀ d ∈ days, TxsWF d.transactions) (st : BalState) (h1 : Balance.run cfg days = .ok st) :
    ReportPerm.WF st.entries :=
  (run_wf cfg hv days hwf {} st ⟨fun _ h => (List.not_mem_nil h).elim, fun _ h => (List.not_mem_nil h).elim⟩ h1).ent

/-- **same table** for every renderer configuration -/
theorem C05_report_perm (cfg : BalCfg) (hv : cfg.valuation = none) (rc : RenderCfg) (days days' : List Day)
    (h : List.Forall₂ DayEquiv days days') (hwf : ∀ d ∈ days, TxsWF d.transactions) (st st' : BalState)
    (h1 : Balance.run cfg days = .ok st) (h2 : Balance.run cfg days' = .ok st') :
    BalanceReport.table rc st.entries = BalanceReport.table rc st'.entries :=
  C06.table_perm rc _ _ (C05_inserts_perm cfg hv days days' h st st' h1 h2) (C05_inserts_wf cfg hv days hwf st h1)


/-- both outcomes of the entries stage, given corresponding day lists (helper of `entries_perm`) -/
theorem entries_core (cfg : BalCfg) (hcv : cfg.valuation = none) (days days' : List Day)
    (heq : List.Forall₂ DayEquiv days days') (hw : ∀ d ∈ days, TxsWF d.transactions) (part : Partition) :
    match (match Balance.run cfg days with
        | .error _ => .error (.error "processing")
        | .ok st => .ok (st.entries, part) : Except CmdOutcome (List Entry × Partition)),
      (match Balance.run cfg days' with
        | .error _ => .error (.error "processing")
        | .ok st => .ok (st.entries, part) : Except CmdOutcome (List Entry × Partition)) with
    | .ok (es, part), .ok (es', part') => es.Perm es' ∧ part = part' ∧ ReportPerm.WF es
    | .error o, .error o' => o = o'
    | _, _ => False := by
  have hok := C05_run_ok_perm cfg hcv _ _ heq
  cases h1 : Balance.run cfg days with
  | error e =>
    cases h2 : Balance.run cfg days' with
    | error e' => simp only
    | ok st' => rw [h1, h2] at hok; cases hok
  | ok st =>
    cases h2 : Balance.run cfg days' with
    | error e' => rw [h1, h2] at hok; cases hok
    | ok st' =>
      simp only
      exact ⟨C05_inserts_perm cfg hcv _ _ heq st st' h1 h2, trivial, C05_inserts_wf cfg hcv _ hw st h1⟩

/-- the outcome of the entries stage of `knut balance` for two directive orders -/
theorem entries_perm (f : BalanceFlags) (hv : f.valuation = none) (ds ds' : List Directive) (hp : ds.Perm ds')
    (hwf : DirsWF ds) :
    match BalanceCmd.entries f ds, BalanceCmd.entries f ds' with
    | .ok (es, part), .ok (es', part') => es.Perm es' ∧ part = part' ∧ ReportPerm.WF es
    | .error o, .error o' => o = o'
    | _, _ => False := by
  have hwin : BalanceCmd.window f (Builder.ofList ds) = BalanceCmd.window f (Builder.ofList ds') := by
    unfold BalanceCmd.window
    rw [(builder_period ds).1, (builder_period ds').1, (builder_period ds).2, (builder_period ds').2,
      (C05_journal_period_perm ds ds' hp).1, (C05_journal_period_perm ds ds' hp).2]
  unfold BalanceCmd.entries
  simp only [hwin]
  cases newPartition (BalanceCmd.window f (Builder.ofList ds')) f.interval f.last with
  | panic s => simp only
  | ok part =>
    simp only
    have heq : List.Forall₂ DayEquiv
        (if f.close = true then (Builder.ofList ds).ensureDays part.startDates else Builder.ofList ds).build
        (if f.close = true then (Builder.ofList ds').ensureDays part.startDates else Builder.ofList ds').build := by
      have := C05_days_equiv ds ds' hp
      split
      · exact ensureDays_equiv _ this
      · exact this
    have hw : ∀ d ∈ (if f.close = true then (Builder.ofList ds).ensureDays part.startDates else Builder.ofList ds).build,
        TxsWF d.transactions := by
      intro d hd
      split at hd
      · rcases ensureDays_txs _ hd with h | h
        · exact built_wf hwf d h
        · rw [h]; intro t ht; cases ht
      · exact built_wf hwf d hd
    exact entries_core _ hv _ _ heq hw part

/-- **permuting the directives of a journal does not change a byte of the unvalued balance report** -/
theorem C05_balance_output_perm (f : BalanceFlags) (hv : f.valuation = none) (ds ds' : List Directive) (hp : ds.Perm ds')
    (hwf : DirsWF ds) : BalanceCmd.run f ds = BalanceCmd.run f ds' := by
  have := entries_perm f hv ds ds' hp hwf
  unfold BalanceCmd.run
  cases h1 : BalanceCmd.entries f ds with
  | error o =>
    cases h2 : BalanceCmd.entries f ds' with
    | error o' => rw [h1, h2] at this; simp only at this ⊢; exact this
    | ok r => rw [h1, h2] at this; exact this.elim
  | ok r =>
    cases h2 : BalanceCmd.entries f ds' with
    | error o' => rw [h1, h2] at this; exact this.elim
    | ok r' =>
      obtain ⟨es, part⟩ := r
      obtain ⟨es', part'⟩ := r'
      rw [h1, h2] at this
      simp only at this ⊢
      obtain ⟨hperm, hpart, hw⟩ := this
      subst hpart
      rw [ReportPerm.table_perm_wf _ es es' hperm hw]

/-! ### Non-vacuity: a journal with two periods, closing enabled -/

def xBank : Account := ⟨["Assets", "Bank"]⟩
def xSal : Account := ⟨["Income", "Salary"]⟩
def xFood : Account := ⟨["Expenses", "Food"]⟩
def xDirs : List Directive :=
  [.opening ⟨1, xBank⟩, .opening ⟨1, xSal⟩, .opening ⟨1, xFood⟩,
   .tx ⟨2, "salary", postingBuild xSal xBank "CHF" 100, none⟩,
   .tx ⟨2, "food", postingBuild xBank xFood "CHF" 30, none⟩,
   .tx ⟨40, "food", postingBuild xBank xFood "CHF" 5, none⟩]
def xFlags : BalanceFlags := { to := 50, interval := .monthly }

theorem xDirs_wf : DirsWF xDirs := by
  intro t ht p hp
  simp only [xDirs, List.mem_cons, List.not_mem_nil, or_false, reduceCtorEq, false_or, Directive.tx.injEq] at ht
  rcases ht with rfl | rfl | rfl <;> simp only [postingBuild, List.mem_cons, List.not_mem_nil, or_false] at hp <;>
    rcases hp with rfl | rfl <;> simp only <;> split <;> rfl

/-- the theorem applies to the journal read backwards … -/
example : BalanceCmd.run xFlags xDirs = BalanceCmd.run xFlags xDirs.reverse :=
  C05_balance_output_perm xFlags rfl _ _ (List.reverse_perm _).symm xDirs_wf

/-- … both runs succeed with 10 report inserts (6 bookings, 2 closing pairs at the second period start), and the
two insert LISTS differ (the closings of Income:Salary and Expenses:Food are emitted in accumulator order, which
follows the order of the two transactions of day 2): the permutation in `C05_inserts_perm` cannot be an equality -/
theorem C05_inserts_order_differs :
    (match BalanceCmd.entries xFlags xDirs, BalanceCmd.entries xFlags xDirs.reverse with
      | .ok (es, _), .ok (es', _) => decide (es.length = 10 ∧ es ≠ es')
      | _, _ => false) = true := by decide +kernel

end Knut.C05
