package main

import (
	"fmt"
	"math/big"
	"os"
	"path/filepath"
	"strings"
	"time"

	"github.com/shopspring/decimal"
)

func init() { runners["C02"] = runC02 }

type balCase struct {
	Idx    int
	J      *Journal
	Text   string
	F      BalFlags
	Tags   []string
	Code   int
	Stdout string
	Stderr string
}

func (bc *balCase) Input() map[string]any {
	return map[string]any{"journal": bc.Text, "args": strings.Join(bc.F.Args(), " "), "wire_flags": bc.F.Wire(today()), "wire_journal": bc.J.Wire()}
}

// implOutcome canonicalises the real command's result in the driver's outcome format.
func (bc *balCase) implOutcome() string {
	switch {
	case strings.Contains(bc.Stderr, "panic:") || strings.Contains(bc.Stderr, "goroutine "):
		return "panic"
	case bc.Code == 0:
		return "ok " + Hex(canonTable(bc.Stdout))
	case bc.Code == -2:
		return "timeout"
	default:
		return "error"
	}
}

// canonTable reduces a rendered text table to its cell contents (column widths and padding are C17's subject, not
// that of the report properties): separator lines become "+", cells are trimmed, the first cell keeps its indentation.
func canonTable(out string) string {
	if !strings.HasPrefix(out, "+-") {
		return out
	}
	var b strings.Builder
	for _, l := range strings.Split(out, "\n") {
		switch {
		case strings.HasPrefix(l, "+"):
			b.WriteString("+\n")
		case strings.HasPrefix(l, "|"):
			cells := strings.Split(strings.TrimSuffix(strings.TrimPrefix(l, "|"), "|"), "|")
			for i, c := range cells {
				if i == 0 {
					cells[i] = strings.TrimRight(strings.TrimPrefix(c, " "), " ")
				} else {
					cells[i] = strings.TrimSpace(c)
				}
			}
			b.WriteString(strings.Join(cells, "|") + "\n")
		default:
			b.WriteString(l + "\n")
		}
	}
	return b.String()
}

// canonOutcome applies canonTable to an "ok <hex>" outcome.
func canonOutcome(o string) string {
	if strings.HasPrefix(o, "ok ") {
		return "ok " + Hex(canonTable(UnHex(strings.TrimPrefix(o, "ok "))))
	}
	return o
}

func modelOutcomeCanon(m string) string {
	f := strings.Fields(m)
	if len(f) == 0 {
		return m
	}
	switch f[0] {
	case "error":
		return "error"
	case "panic":
		return "panic"
	}
	return canonOutcome(m)
}

// genBalCases generates n (journal, flags) cases and runs the real `knut balance` on them in parallel.
func genBalCases(c *Ctx, stream string, n int, jo func(r *RNG) JGenOpts, bo BalGenOpts) []*balCase {
	return genBalCasesWith(c, stream, n, jo, func(r *RNG, j *Journal, val string) BalFlags { return GenBalFlags(r, j, val, bo) })
}

// genBalCasesWith is genBalCases with a custom flag generator.
func genBalCasesWith(c *Ctx, stream string, n int, jo func(r *RNG) JGenOpts, fo func(r *RNG, j *Journal, val string) BalFlags) []*balCase {
	dir := filepath.Join(c.WorkDir, stream)
	os.MkdirAll(dir, 0o755)
	var cases []*balCase
	for i := 0; i < n; i++ {
		if !c.Want(stream, i) {
			continue
		}
		r := c.Rng(stream, i)
		o := jo(r)
		j, tags := GenJournal(r, o)
		text, _ := j.Text()
		f := fo(r, j, o.Valuation)
		if r.Chance(1, 50) {
			// a very long comment line between two directives (longer than the 64 KiB token limit of a bufio.Scanner, longer
			// than a pipe buffer): the journal is the same (seeded change C02-e read files line by line and silently stopped
			// at such a line)
			if k := strings.Index(text, "\n\n"); k >= 0 {
				at := k + 2
				if q := strings.LastIndex(text[:len(text)*r.Range(1, 3)/3], "\n\n"); q >= 0 {
					at = q + 2
				}
				text = text[:at] + "# " + strings.Repeat(Pick(r, []string{"x", "-", "é"}), Pick(r, []int{65536, 70000, 200000})) + "\n\n" + text[at:]
				tags = append(tags, "long-line")
			}
		}
		cases = append(cases, &balCase{Idx: i, J: j, Text: text, F: f, Tags: tags})
	}
	parallelFor(len(cases), 16, func(k int) {
		bc := cases[k]
		path := filepath.Join(dir, fmt.Sprintf("c%d.knut", bc.Idx))
		os.WriteFile(path, []byte(bc.Text), 0o644)
		args := append([]string{"balance"}, bc.F.Args()...)
		args = append(args, path)
		bc.Code, bc.Stdout, bc.Stderr = runKnut(c.KnutBin, 20*time.Second, nil, args...)
		os.Remove(path)
	})
	return cases
}

func flagClass(f BalFlags) string {
	var b strings.Builder
	fmt.Fprintf(&b, "iv%d", f.Interval)
	if f.Val != "" {
		b.WriteString("/val")
	}
	if f.Last != 0 {
		b.WriteString("/last")
	}
	if f.Diff {
		b.WriteString("/diff")
	}
	if f.NoClose {
		b.WriteString("/noclose")
	}
	if len(f.Map) > 0 {
		b.WriteString("/map")
		for _, m := range f.Map {
			if m.Level == 0 {
				b.WriteString("0")
			}
			if m.Suffix > 0 {
				b.WriteString("s")
			}
		}
	}
	if len(f.Remap) > 0 {
		b.WriteString("/remap")
	}
	if len(f.Acc) > 0 || len(f.Com) > 0 {
		b.WriteString("/filter")
	}
	if f.From != 0 {
		b.WriteString("/from")
	}
	if f.CSV {
		b.WriteString("/csv")
	}
	return b.String()
}

func runC02(c *Ctx) {
	// C02_STREAMS=a,b restricts a run to some streams (development aid)
	on := func(s string) bool {
		only := os.Getenv("C02_STREAMS")
		return c.Replay || only == "" || strings.Contains(","+only+",", ","+s+",")
	}
	if on("baltext") {
		runC02Text(c)
	}
	if on("shared") {
		runC02Shared(c)
	}
	if on("magnitude") {
		runC02Magnitude(c)
	}
	if !on("balance") {
		return
	}
	n := c.N(5000, 40000)
	cases := genBalCases(c, "balance", n, func(r *RNG) JGenOpts {
		return JGenOpts{MaxAccounts: r.Range(2, 8), MaxDays: r.Range(1, 8), Unicode: true, BaseDay: 737000 + r.Intn(1500), SpanDays: Pick(r, []int{0, 5, 40, 100, 400, 800}), BoundaryDates: r.Chance(1, 8),
			Mutate: r.Chance(1, 10), Accruals: r.Chance(1, 3), CaseVariants: true}
	}, BalGenOpts{})
	bt := c.NewBatch()
	defer bt.Flush()
	for _, bc := range cases {
		bc := bc
		c.Evals++
		impl := bc.implOutcome()
		in := bc.Input()
		c.Class("c02/" + strings.Fields(impl)[0] + "/" + flagClass(bc.F) + "/n" + bucket(len(bc.J.Dirs)))
		for _, t := range bc.Tags {
			c.Tag(t)
		}
		if bc.Idx < 2 {
			c.Sample(map[string]any{"args": strings.Join(bc.F.Args(), " "), "journal": bc.Text, "stdout": bc.Stdout})
		}
		bt.Add(func(model string) {
			if model == "unsupported" {
				c.Tag("model-unsupported")
				return
			}
			if !c.Compare("balance", bc.Idx, "balance", in, impl, modelOutcomeCanon(model)) {
				// show the decoded texts in the finding
				f := &c.Findings[len(c.Findings)-1]
				if strings.HasPrefix(model, "ok ") {
					f.Model = clip(UnHex(strings.TrimPrefix(model, "ok ")))
				}
				f.Impl = clip(fmt.Sprintf("exit %d\n%s\n%s", bc.Code, bc.Stdout, bc.Stderr))
			}
		}, "balance", bc.F.Wire(today()), bc.J.Wire())
		// monitor: the real output against the independent ledger specification (Lean Spec.ledgerEntries)
		bt.Add(func(spec string) {
			if spec == "unsupported" {
				return
			}
			ok := impl == modelOutcomeCanon(spec)
			detail := ""
			if !ok {
				detail = "real output:\n" + bc.Stdout + bc.Stderr + "\nledger specification:\n"
				if strings.HasPrefix(spec, "ok ") {
					detail += UnHex(strings.TrimPrefix(spec, "ok "))
				} else {
					detail += spec
				}
			}
			c.Monitor("balance", bc.Idx, "report_equals_ledger", in, ok, detail)
		}, "balance-spec", bc.F.Wire(today()), bc.J.Wire())
	}
}

// ---------------------------------------------------------------- stream baltext: journals as TEXT over several files
//
// The balance stream above sends the structured journal to the model, so it can only hold what the structured generator can
// express: every directive converts (dates exist, accounts carry an account type, @accrue windows are ordered), and everything
// sits in one file.  This stream works on the text: a generated (well-formed) journal is spread over a main file and 0-5
// included files (chunks or interleaved, include trees with sub-directories, include lines first / last / in between), and in
// most cases ONE directive of the text gets a fault which the parser lets through but the conversion to the model
// (model.ParseDirective: Date.Parse, Decimal.Parse, the account registry, transaction.Create with its @accrue expansion) must
// reject - or, more rarely, a syntax error, an include that cannot be read, an include cycle.  The fault sits in any kind of
// directive (transaction, open, close, price, assertion), in the main file or an included one, first / last / anywhere in its file.
// (Seeded change C02-g lost the error of transaction.Create: the transaction was dropped, `knut balance` exited 0 and printed a
// report without its bookings.)
//   compare  c02text       real outcome against the pipeline model on the parsed text (Lean parser + FromSyntax + BalanceCmd.run)
//   monitor  report_equals_ledger            real outcome against the ledger specification on the parsed text (rejects included)
//   monitor  accepted_report_has_all_bookings  independent of the text model: whenever the command exits 0, its report is the
//            ledger of ALL directives written into the files (the generator's own journal, through the structured wire form)

type c02File struct {
	Path string // relative to the main file's directory
	Text string
}

type c02TextCase struct {
	Idx     int
	J       *Journal
	F       BalFlags
	Files   []c02File
	Fault   string // "none" | fault kind
	DirKind string // kind of the faulted directive
	Pos     string // first | last | mid | only (position of the faulted directive among the directives of its file)
	InInc   bool   // the fault sits in an included file
	Tags    []string
	Code    int
	Stdout  string
	Stderr  string
}

func (tc *c02TextCase) Input() map[string]any {
	files := make([]map[string]string, len(tc.Files))
	for i, f := range tc.Files {
		files[i] = map[string]string{"path": f.Path, "text": f.Text}
	}
	return map[string]any{"files": files, "args": strings.Join(tc.F.Args(), " ") + " main.knut", "fault": tc.Fault, "wire_flags": tc.F.Wire(today()), "wire_journal": tc.J.Wire()}
}

func (tc *c02TextCase) implOutcome() string {
	switch {
	case strings.Contains(tc.Stderr, "panic:") || strings.Contains(tc.Stderr, "goroutine "):
		return "panic"
	case tc.Code == 0:
		return "ok " + Hex(canonTable(tc.Stdout))
	case tc.Code == -2:
		return "timeout"
	case tc.Stdout != "":
		return "error-after-output " + Hex(tc.Stdout) // a failing command prints no report
	default:
		return "error"
	}
}

// digits of other scripts: unicode.IsDigit (the parser's test) accepts them, time.Parse and decimal.NewFromString do not
func c02ForeignDigit(r *RNG, d byte) string {
	base := Pick(r, []rune{0x0660, 0xFF10, 0x0966, 0x1D7CE})
	return string(base + rune(d-'0'))
}

func c02ForeignDigitIn(r *RNG, s string) string {
	var at []int
	for i := 0; i < len(s); i++ {
		if s[i] >= '0' && s[i] <= '9' {
			at = append(at, i)
		}
	}
	if len(at) == 0 {
		return s
	}
	k := Pick(r, at)
	return s[:k] + c02ForeignDigit(r, s[k]) + s[k+1:]
}

// c02BadDate: dddd-dd-dd (what the parser asks for) that is no date
func c02BadDate(r *RNG, s string) string {
	y := s[:4]
	switch r.Intn(6) {
	case 0:
		return y + Pick(r, []string{"-02-30", "-02-31", "-04-31", "-06-31", "-09-31", "-11-31"})
	case 1:
		return Pick(r, []string{"2023", "2019", "2100", "1900", "2021"}) + "-02-29"
	case 2:
		return y + Pick(r, []string{"-13-01", "-00-15", "-99-99", "-20-20"})
	case 3:
		return s[:8] + Pick(r, []string{"00", "32", "99", "40"})
	case 4:
		return s[:5] + Pick(r, []string{"00", "13", "14"}) + s[7:]
	default:
		return c02ForeignDigitIn(r, s)
	}
}

// c02BadAccount: parses as an account, but its first segment is no account type
func c02BadAccount(r *RNG, a string) string {
	segs := strings.Split(a, ":")
	near := map[string][]string{"Assets": {"Asset", "assets", "ASSETS", "Aktiven", "Assets1"}, "Liabilities": {"Liability", "liabilities", "Liabilites"},
		"Equity": {"Equities", "equity", "EQUITY"}, "Income": {"Incomes", "income", "Revenue"}, "Expenses": {"Expense", "expenses", "Expences"}}
	switch r.Intn(4) {
	case 0:
		if len(segs) > 1 && !contains(typeNames, segs[1]) { // the type is missing
			return strings.Join(segs[1:], ":")
		}
	case 1:
		return "$" + Pick(r, []string{"acct", "bank", "Assets"}) // a macro account (import rules know them, journals do not)
	case 2:
		return Pick(r, []string{"X", "The", "0"}) + a
	}
	if alt, ok := near[segs[0]]; ok {
		segs[0] = Pick(r, alt)
	} else {
		segs[0] = "No" + segs[0]
	}
	return strings.Join(segs, ":")
}

// c02Fault rewrites the text of one directive.  Model-level faults (syntaxLevel false) keep it parseable.
func c02Fault(r *RNG, d JDir, syntaxLevel bool) (string, string) {
	lines := strings.Split(strings.TrimSuffix(d.Text(), "\n"), "\n")
	hdr := 0
	if d.Kind == 't' {
		if d.Accrual != nil {
			hdr++
		}
		if d.Targets != nil {
			hdr++
		}
	}
	setTok := func(line, tok int, f func(string) string) {
		ts := strings.Split(lines[line], " ")
		ts[tok] = f(ts[tok])
		lines[line] = strings.Join(ts, " ")
	}
	type opt struct {
		kind string
		do   func()
	}
	var opts []opt
	add := func(kind string, do func()) { opts = append(opts, opt{kind, do}) }
	if syntaxLevel {
		add("syntax:short-date", func() { lines[hdr] = lines[hdr][:5] + lines[hdr][6:] })
		add("syntax:token-missing", func() {
			l := len(lines) - 1
			if k := strings.LastIndex(lines[l], " "); k >= 0 {
				lines[l] = lines[l][:k]
			}
		})
		if d.Kind == 't' {
			add("syntax:quote-missing", func() { lines[hdr] = lines[hdr][:11] + lines[hdr][12:] })
			add("syntax:booking-comma", func() { l := len(lines) - 1; lines[l] = strings.Replace(lines[l], " ", ", ", 1) })
		} else {
			add("syntax:keyword", func() {
				setTok(0, 1, func(s string) string { return Pick(r, []string{"opn", "Open", "closed", "prize", "balanse", "bal"}) })
			})
		}
	} else {
		add("date", func() { lines[hdr] = c02BadDate(r, lines[hdr][:10]) + lines[hdr][10:] })
		switch d.Kind {
		case 'o', 'c':
			add("account", func() { setTok(0, 2, func(s string) string { return c02BadAccount(r, s) }) })
		case 'p':
			add("number", func() { setTok(0, 3, func(s string) string { return c02ForeignDigitIn(r, s) }) })
		case 'a':
			l, t := 0, 2
			if len(lines) > 1 {
				l, t = r.Range(1, len(lines)-1), 0
			}
			add("account", func() { setTok(l, t, func(s string) string { return c02BadAccount(r, s) }) })
			add("number", func() { setTok(l, t+1, func(s string) string { return c02ForeignDigitIn(r, s) }) })
		case 't':
			l := len(lines) - 1 - r.Intn(len(d.Bookings))
			add("account", func() { setTok(l, 0, func(s string) string { return c02BadAccount(r, s) }) })
			add("account", func() { setTok(l, 1, func(s string) string { return c02BadAccount(r, s) }) })
			add("number", func() { setTok(l, 2, func(s string) string { return c02ForeignDigitIn(r, s) }) })
			if d.Accrual != nil {
				add("accrual-ends-before-start", func() {
					setTok(0, 3, func(string) string { return fmtDate(d.Accrual.Start - Pick(r, []int{1, 2, 30, 31, 365, 400})) })
				})
				add("accrual-ends-before-start", func() {
					setTok(0, 2, func(string) string { return fmtDate(d.Accrual.End + Pick(r, []int{1, 2, 30, 31, 365, 400})) })
				})
				add("accrual-date", func() { k := r.Range(2, 3); setTok(0, k, func(s string) string { return c02BadDate(r, s) }) })
				add("accrual-account", func() { setTok(0, 4, func(s string) string { return c02BadAccount(r, s) }) })
			}
		}
	}
	o := Pick(r, opts)
	if !syntaxLevel && d.Accrual != nil && r.Bool() { // half of the faults of an @accrue transaction sit in the annotation
		o = opts[len(opts)-1-r.Intn(4)]
	}
	o.do()
	return strings.Join(lines, "\n") + "\n", o.kind
}

func c02GenTextCase(r *RNG, i int) *c02TextCase {
	o := JGenOpts{MaxAccounts: r.Range(2, 7), MaxDays: r.Range(1, 8), Unicode: true, BaseDay: 737000 + r.Intn(1500), SpanDays: Pick(r, []int{0, 5, 40, 100, 400, 800}),
		BoundaryDates: r.Chance(1, 8), Accruals: r.Chance(1, 2), CaseVariants: true}
	if r.Chance(1, 4) { // price declarations (they do not show in an unvalued report, but they are converted like everything else)
		o.Prices, o.Valuation = true, "CHF"
	}
	j, tags := GenJournal(r, o)
	tc := &c02TextCase{Idx: i, J: j, Tags: tags, Fault: "none", DirKind: "-", Pos: "-"}
	tc.F = GenBalFlags(r, j, "", BalGenOpts{})
	n := len(j.Dirs)
	// layout: which file holds which directive
	nf := Pick(r, []int{1, 2, 2, 3, 3, 4, 6})
	if nf > n {
		nf = max(1, n)
	}
	owner := make([]int, n)
	lo := 0 // files lo..nf-1 hold directives (lo = 1: the main file only includes)
	if nf > 1 && r.Chance(1, 4) {
		lo = 1
	}
	if r.Bool() { // chunks in journal order
		cuts := map[int]bool{}
		for len(cuts) < nf-lo-1 && len(cuts) < n-1 {
			cuts[r.Range(1, n-1)] = true
		}
		f := lo
		for k := 0; k < n; k++ {
			if cuts[k] {
				f++
			}
			owner[k] = f
		}
	} else { // interleaved
		for k := 0; k < n; k++ {
			owner[k] = r.Range(lo, nf-1)
		}
	}
	// the faulted directive
	mode := r.Intn(10)
	texts := make([]string, n)
	for k, d := range j.Dirs {
		texts[k] = d.Text()
	}
	if mode >= 2 && n > 0 {
		var cand []int
		if r.Bool() {
			for k, d := range j.Dirs {
				if d.Kind == 't' {
					cand = append(cand, k)
				}
			}
		}
		if r.Chance(1, 5) { // a transaction with an @accrue annotation
			var acc []int
			for _, k := range cand {
				if j.Dirs[k].Accrual != nil {
					acc = append(acc, k)
				}
			}
			if len(acc) > 0 {
				cand = acc
			}
		}
		if len(cand) == 0 {
			for k := range j.Dirs {
				cand = append(cand, k)
			}
		}
		// prefer an included file two times out of three
		if nf > 1 && r.Chance(2, 3) {
			var inc []int
			for _, k := range cand {
				if owner[k] > 0 {
					inc = append(inc, k)
				}
			}
			if len(inc) > 0 {
				cand = inc
			}
		}
		f := owner[Pick(r, cand)]
		var inFile []int
		for _, k := range cand {
			if owner[k] == f {
				inFile = append(inFile, k)
			}
		}
		t := Pick(r, inFile)
		switch r.Intn(4) {
		case 0:
			t = inFile[0]
		case 1:
			t = inFile[len(inFile)-1]
		}
		first, last := true, true
		for k := range j.Dirs {
			if owner[k] == f && k < t {
				first = false
			}
			if owner[k] == f && k > t {
				last = false
			}
		}
		switch {
		case first && last:
			tc.Pos = "only"
		case first:
			tc.Pos = "first"
		case last:
			tc.Pos = "last"
		default:
			tc.Pos = "mid"
		}
		tc.InInc = f > 0
		tc.DirKind = string(j.Dirs[t].Kind)
		if mode < 9 || r.Bool() {
			texts[t], tc.Fault = c02Fault(r, j.Dirs[t], mode == 9)
		}
	}
	// include tree
	parent := make([]int, nf)
	dir := make([]string, nf)
	path := make([]string, nf)
	path[0] = "main.knut"
	items := make([][]string, nf)
	for k := 0; k < n; k++ {
		items[owner[k]] = append(items[owner[k]], texts[k])
	}
	insert := func(f int, line string) {
		at := len(items[f])
		switch r.Intn(3) {
		case 0:
			at = 0
		case 1:
			at = r.Intn(len(items[f]) + 1)
		}
		items[f] = append(items[f][:at:at], append([]string{line}, items[f][at:]...)...)
	}
	for f := 1; f < nf; f++ {
		parent[f] = r.Intn(f)
		dir[f] = dir[parent[f]]
		if r.Chance(1, 3) {
			dir[f] += fmt.Sprintf("d%d/", f)
		}
		path[f] = dir[f] + fmt.Sprintf("inc%d.knut", f)
	}
	for f := 1; f < nf; f++ {
		insert(parent[f], "include \""+strings.TrimPrefix(path[f], dir[parent[f]])+"\"\n")
	}
	if mode == 9 && tc.Fault == "none" {
		f := r.Intn(nf)
		if r.Bool() {
			insert(f, "include \""+Pick(r, []string{"nofile.knut", "missing/inc1.knut", "main.knut.bak", "inc99.knut"})+"\"\n")
			tc.Fault = "include-unreadable"
		} else {
			g := f // a file includes itself or one of its ancestors
			for g > 0 && r.Bool() {
				g = parent[g]
			}
			up := strings.Repeat("../", strings.Count(dir[f], "/"))
			insert(f, "include \""+up+path[g]+"\"\n")
			tc.Fault = "include-cycle"
		}
		tc.InInc, tc.DirKind, tc.Pos = f > 0, "i", "-"
	}
	for f := 0; f < nf; f++ {
		tc.Files = append(tc.Files, c02File{Path: path[f], Text: strings.Join(items[f], "\n")})
	}
	return tc
}

func c02FileFields(fs []c02File) []string {
	out := make([]string, len(fs))
	for i, f := range fs {
		out[i] = Hex(f.Path) + ":" + Hex(f.Text)
	}
	return out
}

func runC02Text(c *Ctx) {
	const stream = "baltext"
	n := c.N(1500, 15000)
	root := filepath.Join(c.WorkDir, stream)
	os.MkdirAll(root, 0o755)
	var cases []*c02TextCase
	for i := 0; i < n; i++ {
		if c.Want(stream, i) {
			cases = append(cases, c02GenTextCase(c.Rng(stream, i), i))
		}
	}
	parallelFor(len(cases), 16, func(k int) {
		tc := cases[k]
		dir := filepath.Join(root, fmt.Sprintf("c%d", tc.Idx))
		for _, f := range tc.Files {
			p := filepath.Join(dir, filepath.FromSlash(f.Path))
			os.MkdirAll(filepath.Dir(p), 0o755)
			os.WriteFile(p, []byte(f.Text), 0o644)
		}
		args := append([]string{"balance"}, tc.F.Args()...)
		args = append(args, filepath.Join(dir, "main.knut"))
		tc.Code, tc.Stdout, tc.Stderr = runKnut(c.KnutBin, 20*time.Second, nil, args...)
		os.RemoveAll(dir)
	})
	bt := c.NewBatch()
	defer bt.Flush()
	for _, tc := range cases {
		tc := tc
		c.Evals++
		impl := tc.implOutcome()
		in := tc.Input()
		where := "main"
		if tc.InInc {
			where = "included"
		}
		c.Class(fmt.Sprintf("c02text/%s/%s/%s/%s/%s/files%d", strings.Fields(impl)[0], tc.Fault, tc.DirKind, tc.Pos, where, len(tc.Files)))
		c.Tag("baltext:" + tc.Fault + ":" + strings.Fields(impl)[0])
		c.Tag("baltext-at:" + tc.DirKind + "/" + tc.Pos + "/" + where)
		if tc.Idx < 2 {
			c.Sample(map[string]any{"args": in["args"], "files": in["files"], "fault": tc.Fault, "exit": tc.Code, "stdout": tc.Stdout, "stderr": clip(tc.Stderr)})
		}
		show := func(f *Finding, model string) {
			if strings.HasPrefix(model, "ok ") {
				f.Model = clip(UnHex(strings.TrimPrefix(model, "ok ")))
			}
			f.Impl = clip(fmt.Sprintf("exit %d\n%s\n%s", tc.Code, tc.Stdout, tc.Stderr))
		}
		files := c02FileFields(tc.Files)
		bt.Add(func(model string) {
			if !c.Compare(stream, tc.Idx, "c02text", in, impl, modelOutcomeCanon(model)) {
				show(&c.Findings[len(c.Findings)-1], model)
			}
		}, append([]string{"c02text", tc.F.Wire(today())}, files...)...)
		detail := func(spec string) string {
			d := fmt.Sprintf("fault in the text: %s\nreal command: exit %d\n%s%s\nledger specification:\n", tc.Fault, tc.Code, tc.Stdout, tc.Stderr)
			if strings.HasPrefix(spec, "ok ") {
				return d + UnHex(strings.TrimPrefix(spec, "ok "))
			}
			return d + spec
		}
		bt.Add(func(spec string) {
			if spec == "unsupported" {
				return
			}
			ok := impl == modelOutcomeCanon(spec)
			d := ""
			if !ok {
				d = detail(spec)
			}
			c.Monitor(stream, tc.Idx, "report_equals_ledger", in, ok, d)
		}, append([]string{"c02text-spec", tc.F.Wire(today())}, files...)...)
		// whatever the command accepts, it reports in full: the ledger of every directive of the text, taken from the generator's
		// own journal (the faults above garble a directive, they never take its bookings out of the text)
		bt.Add(func(spec string) {
			if spec == "unsupported" {
				return
			}
			ok := tc.Code != 0 || impl == modelOutcomeCanon(spec)
			d := ""
			if !ok {
				d = detail(spec)
			}
			c.Monitor(stream, tc.Idx, "accepted_report_has_all_bookings", in, ok, d)
		}, "balance-spec", tc.F.Wire(today()), tc.J.Wire())
	}
}

// ---------------------------------------------------------------- stream shared: sibling files that introduce the same new names together
//
// The loader converts every file of an include tree in a worker of its own (model.FromStream); all workers resolve commodity
// and account names through ONE pair of registries, and everything downstream (amounts.Key, the closing accumulators, the
// report's rows and columns) is keyed by the OBJECTS the registries handed out.  The cells of the report equal the ledger sums
// only if all files were given the same object for the same name.  The streams above hold a handful of commodities in a
// handful of files and run every journal once; here a root file includes 3-10 sibling files which all book on the same 50-400
// commodities (and the same accounts) that no file has mentioned before, from their first directives on, and the same tree is
// loaded 6-12 times (the natural schedule; GOMAXPROCS 2 / 16 / unset) next to one load of the concatenated single file.
// (Seeded change C02-j replaced the registry's map + RWMutex by a sync.Map with Load / validate / Store: two workers that miss
// together both create the commodity, and the report shows the name in two rows per account, each with one file's bookings.)
//   compare  balance               the first load of the tree against the pipeline model on the union of the files' directives (every fourth case; thorough: all)
//   monitor  report_equals_ledger  EVERY load (tree and single file) against the rendering of Spec.ledgerEntries on the union
// Varied around it: number of files / commodities / accounts, commodity names (K<k>, words, non-ASCII letters, 20-60 runes,
// case variants), the order in which a file goes through the commodities (same everywhere, rotated, reversed, shuffled), files
// that leave some commodities out, one or several bookings per transaction, one day / a day per file / days spread over a year,
// the opens in the root file before or after the include lines or at the top of the sibling files, siblings in a sub-directory
// or included through a chain, and the whole flag space of `knut balance` (text and CSV).

type c02SharedRun struct {
	What   string // "single file" | "include tree"
	Procs  int    // GOMAXPROCS (0 = unset)
	Code   int
	Stdout string
	Stderr string
}

type c02SharedCase struct {
	Idx                  int
	J                    *Journal // the union of all files' directives
	F                    BalFlags
	Files                []c02File // Files[0] is the root
	Flat                 string
	NFiles, NComs, NAccs int
	Names, Order, Layout string
	Runs                 []c02SharedRun
}

func (sc *c02SharedCase) Input(run *c02SharedRun) map[string]any {
	files := make([]map[string]string, len(sc.Files))
	for i, f := range sc.Files {
		files[i] = map[string]string{"path": f.Path, "text": f.Text}
	}
	in := map[string]any{"files": files, "args": strings.Join(sc.F.Args(), " ") + " main.knut", "sibling_files": sc.NFiles, "new_commodities": sc.NComs, "accounts": sc.NAccs,
		"names": sc.Names, "order": sc.Order, "layout": sc.Layout, "wire_flags": sc.F.Wire(today()),
		"note": "the outcome depends on the schedule of the loader's per-file workers: load the tree repeatedly"}
	if run != nil {
		in["load"] = run.What
		if run.Procs > 0 {
			in["GOMAXPROCS"] = run.Procs
		}
	}
	return in
}

func c02SharedOutcome(ru *c02SharedRun) string {
	bc := balCase{Code: ru.Code, Stdout: ru.Stdout, Stderr: ru.Stderr}
	return bc.implOutcome()
}

func c02GenSharedCase(r *RNG, i int) *c02SharedCase {
	sc := &c02SharedCase{Idx: i, NFiles: r.Range(3, 10), NComs: r.Range(50, 400), NAccs: r.Range(2, 12)}
	base := 737000 + r.Intn(1500)
	// commodity names, all different
	style := r.Intn(5)
	sc.Names = []string{"K<k>", "words", "words with non-ASCII letters", "20-60 runes", "words and their case variants"}[style]
	seen := map[string]bool{}
	var coms []string
	for len(coms) < sc.NComs {
		var w string
		switch style {
		case 0:
			w = fmt.Sprintf("K%d", len(coms))
		case 1:
			w = jgWord(r, r.Range(1, 8), 0, true)
		case 2:
			w = jgWord(r, r.Range(1, 8), 1, true)
		case 3:
			w = jgWord(r, r.Range(20, 60), r.Intn(2), true)
		default:
			w = jgWord(r, r.Range(2, 6), 0, true)
			if len(coms) > 0 && r.Chance(1, 3) {
				p := coms[r.Intn(len(coms))]
				w = Pick(r, []string{strings.ToLower(p), strings.ToUpper(p)})
			}
		}
		if !seen[w] {
			seen[w] = true
			coms = append(coms, w)
		}
	}
	// accounts: an A/L account, an equity account, and others
	segs := []string{"Bank", "Cash", "Broker", "Main", "Sub", "X", "Y", "Z9", "Salary", "Rent", "Food", "Car", "A", "B", "Épargne", "日本"}
	accounts := []string{"Assets:" + Pick(r, segs), "Equity:" + Pick(r, []string{"Equity", "Opening", "E"})}
	aseen := map[string]bool{accounts[0]: true, accounts[1]: true}
	for len(accounts) < sc.NAccs {
		a := Pick(r, typeNames)
		for k := r.Range(1, 3); k > 0; k-- {
			a += ":" + Pick(r, segs)
		}
		if r.Chance(1, 4) {
			a = Pick(r, accounts) + ":" + Pick(r, segs)
		}
		if !aseen[a] {
			aseen[a] = true
			accounts = append(accounts, a)
		}
	}
	amount := func() string {
		switch r.Intn(6) {
		case 0:
			return fmt.Sprintf("-%d.%02d", r.Intn(500), r.Intn(100))
		case 1:
			return fmt.Sprintf("%d", r.Range(1, 5000))
		case 2:
			return fmt.Sprintf("%d.5", r.Intn(100))
		default:
			return fmt.Sprintf("%d.%02d", r.Intn(2000), r.Intn(100))
		}
	}
	// the directives of every file: fileDirs[0] is the root, fileDirs[1+f] sibling f
	fileDirs := make([][]JDir, sc.NFiles+1)
	openAt := Pick(r, []int{0, 0, 1, 2}) // 0: root, before the includes; 1: root, after the includes; 2: at the top of the sibling files
	for k, a := range accounts {
		f := 0
		if openAt == 2 {
			f = 1 + k%sc.NFiles
		}
		fileDirs[f] = append(fileDirs[f], JDir{Kind: 'o', Date: base, Account: a})
	}
	dayMode := r.Intn(3)
	span := Pick(r, []int{5, 30, 100, 365})
	orderMode := Pick(r, []int{0, 0, 0, 1, 2, 3})
	sc.Order = []string{"every file goes through the commodities in the same order", "file f starts f/files into the list", "every second file goes backwards", "shuffled per file"}[orderMode]
	sc.Order += "; " + []string{"all bookings on one day", "one day per file", fmt.Sprintf("days spread over %d days", span)}[dayMode]
	leaveOut := r.Chance(1, 4)
	maxBook := Pick(r, []int{1, 1, 2, 4})
	for f := 0; f < sc.NFiles; f++ {
		order := make([]int, sc.NComs)
		for k := range order {
			switch orderMode {
			case 1:
				order[k] = (k + f*sc.NComs/sc.NFiles) % sc.NComs
			case 2:
				if f%2 == 1 {
					order[k] = sc.NComs - 1 - k
				} else {
					order[k] = k
				}
			default:
				order[k] = k
			}
		}
		if orderMode == 3 {
			for k := len(order) - 1; k > 0; k-- {
				q := r.Intn(k + 1)
				order[k], order[q] = order[q], order[k]
			}
		}
		var t *JDir
		for _, k := range order {
			if leaveOut && r.Chance(1, 5) {
				continue
			}
			if t == nil || len(t.Bookings) >= maxBook || r.Bool() {
				if t != nil {
					fileDirs[1+f] = append(fileDirs[1+f], *t)
				}
				day := base + 1
				switch dayMode {
				case 1:
					day += f
				case 2:
					day += r.Intn(span)
				}
				t = &JDir{Kind: 't', Date: day, Desc: Pick(r, []string{"t", "shared", fmt.Sprintf("file %d", f)})}
			}
			cr := Pick(r, accounts)
			dr := Pick(r, accounts)
			if cr == dr {
				dr = accounts[(indexOf(accounts, cr)+1)%len(accounts)]
			}
			t.Bookings = append(t.Bookings, JBook{cr, dr, amount(), coms[k]})
		}
		if t != nil {
			fileDirs[1+f] = append(fileDirs[1+f], *t)
		}
	}
	// the texts
	text := func(ds []JDir) string {
		var b strings.Builder
		for _, d := range ds {
			b.WriteString(d.Text())
			b.WriteString("\n")
		}
		return b.String()
	}
	layout := r.Intn(4) // 0: siblings next to the root; 1: in a sub-directory; 2: mixed; 3: sibling f includes sibling f+1 (a chain)
	sc.Layout = []string{"siblings next to the root", "siblings in a sub-directory", "some siblings in a sub-directory", "the root includes the first sibling, every sibling the next one"}[layout]
	sc.Layout += "; " + []string{"opens in the root before the include lines", "opens in the root after the include lines", "opens at the top of the sibling files"}[openAt]
	path := make([]string, sc.NFiles)
	for f := range path {
		path[f] = fmt.Sprintf("f%d.knut", f)
		if layout == 1 || (layout == 2 && r.Bool()) {
			path[f] = "sub/" + path[f]
		}
	}
	var incs strings.Builder
	for f := range path {
		if layout == 3 && f > 0 {
			break
		}
		fmt.Fprintf(&incs, "include \"%s\"\n\n", path[f])
	}
	rootText := text(fileDirs[0]) + incs.String()
	if openAt == 1 {
		rootText = incs.String() + text(fileDirs[0])
	}
	sc.Files = append(sc.Files, c02File{Path: "main.knut", Text: rootText})
	sc.J = &Journal{}
	sc.J.Dirs = append(sc.J.Dirs, fileDirs[0]...)
	var flat strings.Builder
	flat.WriteString(text(fileDirs[0]))
	for f := range path {
		t := text(fileDirs[1+f])
		flat.WriteString(t)
		if layout == 3 && f+1 < len(path) {
			t += fmt.Sprintf("include \"%s\"\n", strings.TrimPrefix(path[f+1], "sub/"))
		}
		sc.Files = append(sc.Files, c02File{Path: path[f], Text: t})
		sc.J.Dirs = append(sc.J.Dirs, fileDirs[1+f]...)
	}
	sc.Flat = flat.String()
	// flags: the whole space, with a bounded number of period columns (the rows are many)
	sc.F = GenBalFlags(r, sc.J, "", BalGenOpts{})
	hi := base + 1
	for _, d := range sc.J.Dirs {
		hi = max(hi, d.Date)
	}
	if sc.F.Interval != 0 && (sc.F.To == 0 || sc.F.To > hi+40) {
		sc.F.To = hi + r.Range(0, 40)
	}
	if sc.F.Interval != 0 && sc.F.Last == 0 && r.Chance(9, 10) {
		sc.F.Last = r.Range(1, 6)
	}
	if r.Bool() { // half of the cases show every commodity and account
		sc.F.Acc, sc.F.Com = nil, nil
		var m []MapRuleF
		for _, x := range sc.F.Map {
			if x.Level != 0 {
				m = append(m, x)
			}
		}
		sc.F.Map = m
	}
	return sc
}

func runC02Shared(c *Ctx) {
	const stream = "shared"
	n := c.N(8, 60)
	root := filepath.Join(c.WorkDir, "c02shared")
	os.MkdirAll(root, 0o755)
	var cases []*c02SharedCase
	for i := 0; i < n; i++ {
		if !c.Want(stream, i) {
			continue
		}
		r := c.Rng(stream, i)
		sc := c02GenSharedCase(r, i)
		sc.Runs = append(sc.Runs, c02SharedRun{What: "single file"})
		for k, reps := 0, r.Range(6, 12); k < reps; k++ {
			sc.Runs = append(sc.Runs, c02SharedRun{What: "include tree", Procs: Pick(r, []int{0, 0, 0, 0, 2, 16})})
		}
		cases = append(cases, sc)
	}
	t0 := time.Now()
	defer func() { c.Extra["shared_s"] = time.Since(t0).Seconds() }()
	parallelFor(len(cases), 4, func(k int) {
		sc := cases[k]
		dir := filepath.Join(root, fmt.Sprintf("c%d", sc.Idx))
		for _, f := range sc.Files {
			p := filepath.Join(dir, filepath.FromSlash(f.Path))
			os.MkdirAll(filepath.Dir(p), 0o755)
			os.WriteFile(p, []byte(f.Text), 0o644)
		}
		os.WriteFile(filepath.Join(dir, "flat.knut"), []byte(sc.Flat), 0o644)
		for q := range sc.Runs {
			ru := &sc.Runs[q]
			file := "main.knut"
			if ru.What == "single file" {
				file = "flat.knut"
			}
			var env []string
			if ru.Procs > 0 {
				env = []string{fmt.Sprintf("GOMAXPROCS=%d", ru.Procs)}
			}
			args := append([]string{"balance"}, sc.F.Args()...)
			// (the zone of a run is a function of its arguments: the same for all loads of a case)
			ru.Code, ru.Stdout, ru.Stderr = runKnut(c.KnutBin, 60*time.Second, env, append(args, filepath.Join(dir, file))...)
		}
		os.RemoveAll(dir)
	})
	c.Extra["shared_loads_s"] = time.Since(t0).Seconds()
	bt := c.NewBatch()
	defer bt.Flush()
	for _, sc := range cases {
		sc := sc
		c.Evals++
		first := c02SharedOutcome(&sc.Runs[1])
		c.Class(fmt.Sprintf("c02shared/%s/%s/files%s/coms%s/accs%s", strings.Fields(first)[0], flagClass(sc.F), bucket(sc.NFiles), bucket(sc.NComs), bucket(sc.NAccs)))
		c.Tag("shared-names:" + sc.Names)
		if sc.Idx < 1 {
			c.Sample(map[string]any{"stream": stream, "args": strings.Join(sc.F.Args(), " "), "sibling_files": sc.NFiles, "new_commodities": sc.NComs, "accounts": sc.NAccs,
				"names": sc.Names, "order": sc.Order, "layout": sc.Layout, "loads": len(sc.Runs), "root": sc.Files[0].Text, "first_sibling": clip(sc.Files[1].Text), "stdout": clip(sc.Runs[1].Stdout)})
		}
		show := func(f *Finding, model string, ru *c02SharedRun) {
			if f.Stream != stream || f.Index != sc.Idx { // (the finding was not stored: cap)
				return
			}
			if strings.HasPrefix(model, "ok ") {
				f.Model = clip(UnHex(strings.TrimPrefix(model, "ok ")))
			}
			f.Impl = clip(fmt.Sprintf("exit %d\n%s\n%s", ru.Code, ru.Stdout, ru.Stderr))
		}
		if c.Thorough() || sc.Idx%4 == 0 { // (the pipeline model on journals of this size costs as much as the specification)
			bt.Add(func(model string) {
				if model == "unsupported" {
					c.Tag("model-unsupported")
					return
				}
				if !c.Compare(stream, sc.Idx, "balance", sc.Input(&sc.Runs[1]), first, modelOutcomeCanon(model)) {
					show(&c.Findings[len(c.Findings)-1], model, &sc.Runs[1])
				}
			}, "balance", sc.F.Wire(today()), sc.J.Wire())
		}
		bt.Add(func(spec string) {
			if spec == "unsupported" {
				return
			}
			want := modelOutcomeCanon(spec)
			for q := range sc.Runs {
				ru := &sc.Runs[q]
				impl := c02SharedOutcome(ru)
				ok := impl == want
				detail := ""
				if !ok {
					detail = fmt.Sprintf("load %d of %d (%s", q, len(sc.Runs), ru.What)
					if ru.Procs > 0 {
						detail += fmt.Sprintf(", GOMAXPROCS=%d", ru.Procs)
					}
					detail += fmt.Sprintf("): exit %d", ru.Code)
					if ru.Code == 0 && strings.HasPrefix(want, "ok ") {
						detail += "; first difference to the ledger specification (real vs ledger): " + firstDiffLine(canonTable(ru.Stdout), UnHex(strings.TrimPrefix(want, "ok ")))
					} else {
						detail += " " + clip(ru.Stderr) + "; ledger specification: " + strings.Fields(want + " -")[0]
					}
				}
				c.Monitor(stream, sc.Idx, "report_equals_ledger", sc.Input(ru), ok, detail)
			}
		}, "balance-spec", sc.F.Wire(today()), sc.J.Wire())
	}
}

// ---------------------------------------------------------------- stream magnitude: quantities of every size
//
// The streams above write quantities of at most a dozen digits.  A cell of the report is the EXACT decimal sum of the
// quantities written in the journal, whatever their size: the real code keeps arbitrary-precision decimals, and so does the
// model (exact rationals).  Here small journals carry literals of 15-25 (sometimes up to 40) digits in total: values at and
// around 2^31, 2^32, 2^53, 2^63, 2^64, 10^18, 10^19 (+-0, 1, 2, some hundreds), random digit strings of a given total length
// (18 / 19 / 20 digits most often, high leading digits), runs of one digit, each with the point at any position (none, one or
// two decimals, many decimals, "0." in front), with leading zeros, negative; tiny quantities (10-30 zeros after the point);
// ordinary quantities next to them, so that sums mix sizes.  Several bookings hit the same (account, commodity), some
// transactions book a quantity and its negative, a third of the journals assert the exact running totals of their A/L accounts
// (assertion literals of the same sizes).  Flags: the whole space of `knut balance`.
// (Seeded change C02-k gave Decimal.Parse an int64 fast path for literals of up to 19 digits and routed posting.Create through
// it: 19-digit literals above 2^63-1 wrapped silently to negative numbers.)
//   compare  balance               real outcome against the pipeline model (quantities as exact rationals)
//   monitor  report_equals_ledger  real outcome against the rendering of Spec.ledgerEntries: every cell is the exact sum

var c02MagBounds = []string{"2147483647", "2147483648", "4294967295", "4294967296", "9007199254740992", "9007199254740993",
	"999999999999999999", "1000000000000000000", "9223372036854775807", "9223372036854775807", "9223372036854775808", "9223372036854775808",
	"9999999999999999999", "10000000000000000000", "18446744073709551615", "18446744073709551616", "99999999999999999999",
	"340282366920938463463374607431768211455"}

// c02MagDigits draws the digit string of a literal (no sign, no point, no leading zero) and the name of its class.
func c02MagDigits(r *RNG) (string, string) {
	switch r.Intn(10) {
	case 0, 1, 2: // a boundary value and its neighbours
		b, _ := new(big.Int).SetString(Pick(r, c02MagBounds), 10)
		off := Pick(r, []int{-2, -1, 0, 0, 1, 2, r.Range(-1000, 1000), r.Range(0, 1<<20)})
		b.Add(b, big.NewInt(int64(off)))
		return b.String(), "boundary"
	case 3: // a run of one digit, or a power of ten
		n := Pick(r, []int{15, 17, 18, 19, 19, 20, 21, 25, 38})
		if r.Chance(1, 3) {
			return "1" + strings.Repeat("0", n-1), "run"
		}
		return strings.Repeat(Pick(r, []string{"9", "9", "8", "1", "5"}), n), "run"
	default: // n random digits, high leading digits more often
		n := Pick(r, []int{15, 16, 17, 18, 18, 19, 19, 19, 19, 20, 20, 21, 22, 25, r.Range(26, 40)})
		b := make([]byte, n)
		for i := range b {
			b[i] = byte('0' + r.Intn(10))
		}
		b[0] = Pick(r, []byte{'1', '2', '3', '4', '5', '6', '7', '8', '9', '9', '9', '9', '9', '9', '8', '1'})
		if r.Chance(1, 4) { // close to the largest value of its length
			for i := 0; i < n/2; i++ {
				b[i] = '9'
			}
		}
		return string(b), fmt.Sprintf("digits%d", min(n, 26))
	}
}

// c02MagLiteral draws a quantity literal and its class.
func c02MagLiteral(r *RNG) (string, string) {
	switch r.Intn(10) {
	case 0, 1, 2: // ordinary
		return Pick(r, []string{fmt.Sprintf("%d.%02d", r.Intn(2000), r.Intn(100)), fmt.Sprintf("%d", r.Range(1, 5000)), fmt.Sprintf("-%d.%d", r.Intn(500), r.Intn(10)), "0", "1"}), "ordinary"
	case 3: // tiny
		return "0." + strings.Repeat("0", r.Range(10, 30)) + fmt.Sprintf("%d", r.Range(1, 99)), "tiny"
	}
	ds, class := c02MagDigits(r)
	n := len(ds)
	shape := r.Intn(10)
	switch {
	case shape < 4: // an integer
	case shape < 6: // one or two decimals
		k := r.Range(1, 2)
		ds = ds[:n-k] + "." + ds[n-k:]
		class += "/dec"
	case shape < 8: // the point anywhere
		k := r.Range(1, n-1)
		ds = ds[:k] + "." + ds[k:]
		class += "/point"
	case shape < 9: // all digits after the point (the zero in front is a digit of the literal: keep the total length, or not)
		if r.Bool() {
			ds = ds[:n-1]
		}
		ds = "0." + ds
		class += "/fraction"
	default: // many decimals after a short integer part
		k := r.Range(1, 3)
		ds = ds[:k] + "." + ds[k:]
		class += "/point"
	}
	if r.Chance(1, 6) { // leading zeros (the literal gets longer, or keeps its length and loses its last digits)
		z := r.Range(1, 3)
		if r.Bool() && !strings.Contains(ds[len(ds)-z-1:], ".") {
			ds = ds[:len(ds)-z]
		}
		ds = strings.Repeat("0", z) + ds
		class += "/zeros"
	}
	if r.Chance(1, 4) {
		ds = "-" + ds
		class += "/neg"
	}
	return ds, class
}

func c02GenMagJournal(r *RNG) (*Journal, []string) {
	classes := map[string]bool{}
	segs := []string{"Bank", "Cash", "Broker", "Main", "Sub", "X", "Salary", "Rent", "Tokens", "Épargne"}
	accounts := []string{"Assets:" + Pick(r, segs), "Equity:" + Pick(r, []string{"Equity", "Opening", "E"})}
	seen := map[string]bool{accounts[0]: true, accounts[1]: true}
	for nacc := r.Range(2, 6); len(accounts) < nacc; {
		a := Pick(r, typeNames)
		for k := r.Range(1, 2); k > 0; k-- {
			a += ":" + Pick(r, segs)
		}
		if r.Chance(1, 4) {
			a = Pick(r, accounts) + ":" + Pick(r, segs)
		}
		if !seen[a] {
			seen[a] = true
			accounts = append(accounts, a)
		}
	}
	coms := []string{Pick(r, []string{"CHF", "TOK", "SAT"})}
	for _, c := range []string{"USD", "BTC", "WEI", "chf", "Ünit"} {
		if r.Chance(1, 4) {
			coms = append(coms, c)
		}
	}
	base := 737000 + r.Intn(1500)
	span := Pick(r, []int{0, 5, 40, 400})
	daySet := map[int]bool{}
	for k := r.Range(1, 6); k > 0; k-- {
		daySet[base+r.Intn(span+1)] = true
	}
	var days []int
	for d := range daySet {
		days = append(days, d)
	}
	sortInts(days)
	j := &Journal{}
	openDay := days[0] - Pick(r, []int{0, 0, 1, 400})
	for _, a := range accounts {
		j.Dirs = append(j.Dirs, JDir{Kind: 'o', Date: openDay, Account: a})
	}
	isAL := func(a string) bool { return strings.HasPrefix(a, "Assets") || strings.HasPrefix(a, "Liabilities") }
	qty := map[[2]string]decimal.Decimal{}
	asserts := r.Chance(1, 3)
	var last JBook
	for _, day := range days {
		for k := r.Range(1, 4); k > 0; k-- {
			t := JDir{Kind: 't', Date: day, Desc: Pick(r, []string{"t", "transfer", "mint", "fee"})}
			for b := Pick(r, []int{1, 1, 1, 2, 3}); b > 0; b-- {
				cr := Pick(r, accounts)
				dr := Pick(r, accounts)
				if cr == dr {
					dr = accounts[(indexOf(accounts, cr)+1)%len(accounts)]
				}
				q, class := c02MagLiteral(r)
				bk := JBook{cr, dr, q, Pick(r, coms)}
				if last.Qty != "" && r.Chance(1, 6) { // the same position again: the same literal, its negative, or a new literal
					bk.Credit, bk.Debit, bk.Com = last.Credit, last.Debit, last.Com
					switch r.Intn(3) {
					case 0:
						bk.Qty, class = last.Qty, "repeat"
					case 1:
						bk.Qty, class = strings.TrimPrefix("-"+last.Qty, "--"), "reverse"
					}
				}
				classes[class] = true
				last = bk
				t.Bookings = append(t.Bookings, bk)
				qd, _ := decimal.NewFromString(bk.Qty)
				qty[[2]string{bk.Credit, bk.Com}] = qty[[2]string{bk.Credit, bk.Com}].Sub(qd)
				qty[[2]string{bk.Debit, bk.Com}] = qty[[2]string{bk.Debit, bk.Com}].Add(qd)
			}
			j.Dirs = append(j.Dirs, t)
		}
		if asserts && r.Bool() { // the exact running totals of the A/L accounts at the end of the day
			for _, a := range accounts {
				for _, c := range coms {
					if q, ok := qty[[2]string{a, c}]; ok && isAL(a) && r.Bool() {
						j.Dirs = append(j.Dirs, JDir{Kind: 'a', Date: day, Balances: []JBal{{a, q.String(), c}}})
						classes["assertion"] = true
					}
				}
			}
		}
	}
	var tags []string
	for cl := range classes {
		tags = append(tags, cl)
	}
	sortStrings(tags)
	return j, tags
}

func runC02Magnitude(c *Ctx) {
	const stream = "magnitude"
	n := c.N(600, 8000)
	dir := filepath.Join(c.WorkDir, stream)
	os.MkdirAll(dir, 0o755)
	var cases []*balCase
	for i := 0; i < n; i++ {
		if !c.Want(stream, i) {
			continue
		}
		r := c.Rng(stream, i)
		j, tags := c02GenMagJournal(r)
		text, _ := j.Text()
		cases = append(cases, &balCase{Idx: i, J: j, Text: text, F: GenBalFlags(r, j, "", BalGenOpts{}), Tags: tags})
	}
	parallelFor(len(cases), 16, func(k int) {
		bc := cases[k]
		path := filepath.Join(dir, fmt.Sprintf("c%d.knut", bc.Idx))
		os.WriteFile(path, []byte(bc.Text), 0o644)
		args := append([]string{"balance"}, bc.F.Args()...)
		bc.Code, bc.Stdout, bc.Stderr = runKnut(c.KnutBin, 20*time.Second, nil, append(args, path)...)
		os.Remove(path)
	})
	bt := c.NewBatch()
	defer bt.Flush()
	for _, bc := range cases {
		bc := bc
		c.Evals++
		impl := bc.implOutcome()
		in := bc.Input()
		c.Class("c02mag/" + strings.Fields(impl)[0] + "/" + flagClass(bc.F))
		c.Tag("magnitude-outcome:" + strings.Fields(impl)[0])
		parts := map[string]bool{}
		for _, t := range bc.Tags {
			c.Class("c02mag/" + strings.Fields(impl)[0] + "/" + t)
			for k, p := range strings.Split(t, "/") {
				if k > 0 {
					p = "/" + p
				}
				parts[p] = true
			}
		}
		for p := range parts {
			c.Tag("magnitude:" + p)
		}
		if bc.Idx < 2 {
			c.Sample(map[string]any{"stream": stream, "args": strings.Join(bc.F.Args(), " "), "journal": bc.Text, "stdout": bc.Stdout})
		}
		bt.Add(func(model string) {
			if model == "unsupported" {
				c.Tag("model-unsupported")
				return
			}
			if !c.Compare(stream, bc.Idx, "balance", in, impl, modelOutcomeCanon(model)) {
				f := &c.Findings[len(c.Findings)-1]
				if strings.HasPrefix(model, "ok ") {
					f.Model = clip(UnHex(strings.TrimPrefix(model, "ok ")))
				}
				f.Impl = clip(fmt.Sprintf("exit %d\n%s\n%s", bc.Code, bc.Stdout, bc.Stderr))
			}
		}, "balance", bc.F.Wire(today()), bc.J.Wire())
		bt.Add(func(spec string) {
			if spec == "unsupported" {
				return
			}
			want := modelOutcomeCanon(spec)
			ok := impl == want
			detail := ""
			if !ok {
				detail = fmt.Sprintf("exit %d", bc.Code)
				if bc.Code == 0 && strings.HasPrefix(want, "ok ") {
					detail += "; first difference to the ledger specification (real vs exact sums): " + firstDiffLine(canonTable(bc.Stdout), UnHex(strings.TrimPrefix(want, "ok ")))
				} else {
					detail += " " + clip(bc.Stderr) + "; ledger specification: " + strings.Fields(want + " -")[0]
				}
			}
			c.Monitor(stream, bc.Idx, "report_equals_ledger", in, ok, detail)
		}, "balance-spec", bc.F.Wire(today()), bc.J.Wire())
	}
}
