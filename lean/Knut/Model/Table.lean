import Knut.Basic.Dec
/-!
# Model of `lib/common/table` (table.go, renderer.go, csv.go)

Strings are `List Char` (Go strings that are valid UTF-8; `utf8.RuneCountInString` is `List.length`,
`fmt`'s `%*s` pads to a width counted in runes as well).  Go `int`s that can be negative
(`Indent`, the arithmetic inside a text cell) are `Int`; column widths start at 0 and only grow,
so they are `Nat`.

Not modelled: `percentCell` (never produced by the balance report), colour (all comparisons run with
`Color:false`, for which `color.Fprintf` is `fmt.Fprintf`), write errors of the `io.Writer`.
Explicit panic outcomes: a row with more cells than the table has columns (`widths[i]`, index out of
range) and a row without cells (`row.cells[0]`).
-/
namespace Knut.Table
open Knut.Dec

/-- `table.Alignment` -/
inductive Align | left | right | center
  deriving DecidableEq, Repr, Inhabited

/-- `table.cell` implementations: `emptyCell`, `SeparatorCell`, `textCell`, `numberCell` -/
inductive Cell
  | empty
  | sep
  | text (content : List Char) (align : Align) (indent : Int)
  | num (n : Rat)
  deriving DecidableEq, Repr, Inhabited

def Cell.isSep : Cell → Bool
  | .sep => true
  | _ => false

/-- `table.Table`: `columns[i]` is the group number of column `i` -/
structure Table where
  columns : List Nat
  rows : List (List Cell)
  deriving Repr, Inhabited

/-- `table.New(groups...)` -/
def groupColumns : Nat → List Nat → List Nat
  | _, [] => []
  | g, size :: rest => List.replicate size g ++ groupColumns (g + 1) rest

def Table.new (groups : List Nat) : Table := ⟨groupColumns 0 groups, []⟩

def Table.width (t : Table) : Nat := t.columns.length

/-! ## Building a table (the exported API) -/

/-- `AddRow` -/
def Table.addRow (t : Table) : Table := { t with rows := t.rows ++ [[]] }

/-- `AddSeparatorRow` -/
def Table.addSeparatorRow (t : Table) : Table := { t with rows := t.rows ++ [List.replicate t.width .sep] }

/-- `AddEmptyRow` -/
def Table.addEmptyRow (t : Table) : Table := { t with rows := t.rows ++ [List.replicate t.width .empty] }

/-- `Row.addCell` on the most recently added row; `none` when there is no row yet -/
def Table.addCell (t : Table) (c : Cell) : Option Table :=
  match t.rows.reverse with
  | [] => none
  | last :: before => some { t with rows := (before.reverse) ++ [last ++ [c]] }

/-- `Row.FillEmpty`: fills up to `cap(r.cells)`, which is the table width as long as the row never
outgrew it (`none`: the capacity after `append` reallocated is a property of the Go runtime and is
not modelled; the harness never produces it). -/
def Table.fillEmpty (t : Table) : Option Table :=
  match t.rows.reverse with
  | [] => none
  | last :: before =>
    if last.length ≤ t.width then
      some { t with rows := (before.reverse) ++ [last ++ List.replicate (t.width - last.length) .empty] }
    else none

/-! ## Text renderer -/

/-- `TextRenderer` (colour off) -/
structure Renderer where
  thousands : Bool
  round : Int
  deriving Repr, Inhabited, DecidableEq

/-- the loop of `addThousandsSep`: `i` is the index of `ch` (the strings are ASCII, so byte index =
rune index), `ok` is set once a digit has been seen.  `(index-i)%3` is Go's truncated remainder. -/
def sepLoop (index : Int) : Int → Bool → List Char → List Char
  | _, _, [] => []
  | i, ok, ch :: rest =>
    if i ≥ index ∧ ch ≠ '-' then ch :: rest
    else
      let tl := ch :: sepLoop index (i + 1) (ok || isDigit ch) rest
      if Int.tmod (index - i) 3 = 0 ∧ ok = true then ',' :: tl else tl

/-- `addThousandsSep`: `strings.Index(e, ".")`, or `len(e)` when there is no point -/
def addThousandsSep (e : List Char) : List Char := sepLoop (e.idxOf '.') 0 false e

/-- the number actually formatted: `d.Shift(-3)` with `--thousands` — the exact quotient by 1000 (since the repair
`93a24c8`; before it `d.Div(1000)`, rounded to 16 places, see `C17_no_double_rounding`) -/
def scaled (r : Renderer) (d : Rat) : Rat := if r.thousands then d / 1000 else d

/-- `TextRenderer.numToString` -/
def numToString (r : Renderer) (d : Rat) : List Char :=
  addThousandsSep (showFixed r.round (scaled r d)).toList

/-- `minLengthCell` -/
def minLengthCell (r : Renderer) : Cell → Int
  | .empty => 0
  | .sep => 0
  | .text s a ind => if a = .left then ind + s.length else s.length
  | .num n => (numToString r n).length

def spaces (n : Int) : List Char := List.replicate n.toNat ' '
def dashes (n : Int) : List Char := List.replicate n.toNat '-'

/-- `fmt.Fprintf(w, "%*s", l, s)` for `l ≥ 0` -/
def padLeft (l : Nat) (s : List Char) : List Char := List.replicate (l - s.length) ' ' ++ s

/-- `renderCell` -/
def renderCell (r : Renderer) (c : Cell) (l : Nat) : List Char :=
  match c with
  | .empty => spaces l
  | .sep => dashes l
  | .text s a ind =>
    let rc : Int := s.length
    let before : Int :=
      match a with
      | .left => ind
      | .right => l - rc
      | .center => Int.tdiv (l - rc) 2
    spaces before ++ s ++ spaces (l - before - rc)
  | .num n => if n = 0 then padLeft l [] else padLeft l (numToString r n)

/-- `createSep` -/
def createSep (c1 c2 : Cell) : List Char :=
  if c1.isSep && c2.isSep then "-+-".toList
  else if c1.isSep then "-+ ".toList
  else if c2.isSep then " +-".toList
  else " | ".toList

/-- first loop of `Render` for one row: `widths[i] = max(widths[i], minLengthCell(c))`;
`none` is the index-out-of-range panic for a row longer than the table is wide -/
def updWidths (r : Renderer) : List Nat → List Cell → Option (List Nat)
  | ws, [] => some ws
  | [], _ :: _ => none
  | w :: ws, c :: cs =>
    match updWidths r ws cs with
    | some t => some ((if (w : Int) < minLengthCell r c then (minLengthCell r c).toNat else w) :: t)
    | none => none

def widthsPass1 (r : Renderer) : List Nat → List (List Cell) → Option (List Nat)
  | ws, [] => some ws
  | ws, row :: rows =>
    match updWidths r ws row with
    | some ws' => widthsPass1 r ws' rows
    | none => none

/-- `groups[g]` after the second loop: the largest width among the columns of group `g` (0 if none) -/
def groupWidth (cols ws : List Nat) (g : Nat) : Nat :=
  (cols.zip ws).foldl (fun acc cw => if cw.1 = g ∧ acc < cw.2 then cw.2 else acc) 0

/-- third loop: `if w < groups[i] { widths[i] = groups[i] }` — indexed by the column number `i`,
not by the column's group `columns[i]`, exactly as the code has it -/
def widthsPass2 (cols ws : List Nat) : List Nat :=
  ws.zipIdx.map (fun wi => if wi.1 < groupWidth cols ws wi.2 then groupWidth cols ws wi.2 else wi.1)

def finalWidths (r : Renderer) (t : Table) : Option (List Nat) :=
  match widthsPass1 r (List.replicate t.width 0) t.rows with
  | some ws => some (widthsPass2 t.columns ws)
  | none => none

/-- cells of one row with the separators between them; `none`: `widths[i]` out of range -/
def renderCells (r : Renderer) : List Cell → List Nat → Option (List Char)
  | [], _ => some []
  | _ :: _, [] => none
  | [c], w :: _ => some (renderCell r c w)
  | c :: c' :: cs, w :: ws =>
    match renderCells r (c' :: cs) ws with
    | some t => some (renderCell r c w ++ createSep c c' ++ t)
    | none => none

/-- one output line (without the newline); `none`: `row.cells[0]` on an empty row -/
def renderRow (r : Renderer) (ws : List Nat) (row : List Cell) : Option (List Char) :=
  match row with
  | [] => none
  | c0 :: _ =>
    match renderCells r row ws with
    | some body =>
      some ((if c0.isSep then "+-".toList else "| ".toList) ++ body ++
        (if (row.getLast?.getD c0).isSep then "-+".toList else " |".toList))
    | none => none

def renderRows (r : Renderer) (ws : List Nat) : List (List Cell) → Option (List (List Char))
  | [] => some []
  | row :: rows =>
    match renderRow r ws row, renderRows r ws rows with
    | some l, some ls => some (l :: ls)
    | _, _ => none

inductive Outcome (α : Type) | ok (a : α) | panic (site : String)
  deriving Repr, DecidableEq

/-- the lines of `TextRenderer.Render` (each is followed by "\n" in the output, and one more "\n"
ends the table) -/
def renderLines (r : Renderer) (t : Table) : Outcome (List (List Char)) :=
  match finalWidths r t with
  | none => .panic "index out of range (row longer than the table width)"
  | some ws =>
    match renderRows r ws t.rows with
    | some ls => .ok ls
    | none => .panic "index out of range (row without cells)"

def joinLines (ls : List (List Char)) : List Char := ls.flatMap (· ++ ['\n']) ++ ['\n']

/-- `TextRenderer.Render` -/
def renderText (r : Renderer) (t : Table) : Outcome (List Char) :=
  match renderLines r t with
  | .ok ls => .ok (joinLines ls)
  | .panic s => .panic s

/-! ## CSV renderer (`csv.go` + `encoding/csv.Writer` with the default comma, `UseCRLF = false`) -/

/-- `CSVRenderer.renderCell` -/
def csvCell : Cell → List Char
  | .empty => []
  | .sep => []
  | .text s _ _ => s
  | .num n => (showDec n).toList

/-- `unicode.IsSpace` -/
def isSpaceRune (c : Char) : Bool :=
  let n := c.toNat
  (9 ≤ n && n ≤ 13) || n == 0x20 || n == 0x85 || n == 0xA0 || n == 0x1680 ||
  (0x2000 ≤ n && n ≤ 0x200a) || n == 0x2028 || n == 0x2029 || n == 0x202f || n == 0x205f || n == 0x3000

/-- `csv.Writer.fieldNeedsQuotes` -/
def fieldNeedsQuotes (f : List Char) : Bool :=
  if f.isEmpty then false
  else if f = ['\\', '.'] then true
  else if f.any (fun c => c == '\n' || c == '\r' || c == '"' || c == ',') then true
  else match f with
    | c :: _ => isSpaceRune c
    | [] => false

/-- one field as `csv.Writer.Write` emits it -/
def csvField (f : List Char) : List Char :=
  if fieldNeedsQuotes f then
    '"' :: f.flatMap (fun c => if c = '"' then ['"', '"'] else [c]) ++ ['"']
  else f

/-- fields joined by the comma -/
def joinFields : List (List Char) → List Char
  | [] => []
  | [f] => f
  | f :: g :: rest => f ++ ',' :: joinFields (g :: rest)

def csvLine (rec : List (List Char)) : List Char :=
  joinFields (rec.map csvField) ++ ['\n']

/-- the records written: rows all of whose cells render to "" are skipped -/
def csvRecords (t : Table) : List (List (List Char)) :=
  (t.rows.map (fun row => row.map csvCell)).filter (fun rec => rec.any (fun f => !f.isEmpty))

/-- `CSVRenderer.Render` -/
def renderCSV (t : Table) : List Char := (csvRecords t).flatMap csvLine

end Knut.Table
