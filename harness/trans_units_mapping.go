package main

// Constructs of the Go→Lean translator that the account MAPPING of the reports needs (builder trans10):
// lib/model/account (Rule.Match, Mapping.Level, Shorten, Remap), lib/common/regex (Regexes.MatchString).
//
//   *regexp.Regexp       a VALUE of the prelude type `Regexp.Ptr := Option (String → Bool)` (lean/Knut/GoSem/RegexpMatch.lean): nil, or
//                        the compiled expression read through the ONLY method the translated code may call on it, `MatchString` — the
//                        predicate "the expression matches somewhere in this text".  Which predicate a pattern text denotes is not
//                        part of the translation (the hand model's convention: `MapRule.test`, `BalCfg.remap` are `String → Bool`);
//                        `re == nil` ↦ `Option.isNone`, `re.MatchString(s)` ↦ `Regexp.MatchString re s` in the monad (a nil
//                        receiver is Go's nil-pointer panic).  Every other method of regexp stays rejected.
//   nil                  returned where an interned pointer (`*account.Account`) is expected: the zero value of the struct, as for
//                        fields and parameters of these types (trans_units_beancount.go); the registry never hands out a pointer to a
//                        zero-valued object.
//   reg *Registry        a parameter of type *account.Registry is DROPPED like every parameter of an untranslatable type (the registry's
//                        own state — mutex, index, tree, swap cache — is not part of the translated state): it may occur only as
//                        the receiver of calls of untranslated methods, whose results are `ext` parameters (functions of their
//                        arguments inside function literals).

import (
	"fmt"
	"go/ast"
	"go/token"
	"go/types"
	"sort"
	"strings"
)

const trAccountPath = trKnutPath + "lib/model/account"

func init() {
	// functions added to units of trans_units.go; their agreement theorems live in Knut.FactsAgree.Trans<mod>
	for _, u := range trUnits {
		add := func(mod string, fs ...string) {
			if u.agree == nil {
				u.agree = map[string]string{}
			}
			for _, f := range fs {
				u.funcs = append(u.funcs, f)
				u.agree[f] = mod
			}
		}
		switch u.pkg {
		case "lib/model/account":
			add("Mapping", "Rule.Match", "Mapping.Level", "Shorten", "Remap")
			add("SwapType", "Type.String", "Registry.SwapType") // SwapType: the fragment `name` only
		case "lib/common/mapper":
			add("BalanceCmd", "Sequence", "Nil", "IdentityIf")
		case "lib/common/predicate":
			add("BalanceCmd", "And", "ByName")
		case "lib/model/commodity":
			add("BalanceCmd", "IdentityIf")
		case "lib/amounts":
			add("BalanceCmd", "CommodityMatches", "AccountMatches")
		}
	}
	// cmd/flags: Multiperiod.Partition (the values of the period and interval flags are ext parameters)
	trUnits = append(trUnits, &trUnit{pkg: "cmd/flags", mod: "Flags", funcs: []string{"DateFlag.Value", "PeriodFlag.Value", "Multiperiod.Partition"},
		agree: map[string]string{"DateFlag.Value": "BalanceCmd", "PeriodFlag.Value": "BalanceCmd", "Multiperiod.Partition": "BalanceCmd"}})
	// cmd/commands: only the fragment `query` of balanceRunner.execute
	trUnits = append(trUnits, &trUnit{pkg: "cmd/commands", mod: "Commands", funcs: []string{"balanceRunner.execute"},
		agree: map[string]string{"balanceRunner.execute": "BalanceCmd"}})
	trFragSpecs["(*"+trAccountPath+".Registry).SwapType"] = []*trFragSpec{
		{name: "name", kind: "stmts", from: "n", until: "sw, err := as.Get(n)"},
	}
	trFragSpecs["("+trKnutPath+"cmd/commands.balanceRunner).execute"] = []*trFragSpec{
		{name: "query", kind: "expr", typ: trKnutPath + "lib/journal.Query"},
	}
	trUnits = append(trUnits,
		&trUnit{pkg: "lib/common/regex", mod: "Regex", funcs: []string{"Regexes.MatchString"}, agree: map[string]string{"Regexes.MatchString": "Mapping"}},
	)
	trStubEnsure("regexp", "type Regexp struct", "type Regexp struct{ _ int }")
	trStubEnsure("regexp", "func (re *Regexp) MatchString(", "func (re *Regexp) MatchString(s string) bool")
	trStubEnsure("strings", "func TrimPrefix(", "func TrimPrefix(s, prefix string) string")
	trPrims["strings.TrimPrefix"] = trPrim{lean: "Strings.TrimPrefix"}
	trOpaque["*regexp.Regexp"] = "Regexp.Ptr"
	trOpaque[trKnutPath+"cmd/flags.DateFlag"] = "Int" // `type DateFlag time.Time`: a date, as time.Time itself
	trPrims["(*regexp.Regexp).MatchString"] = trPrim{lean: "Regexp.MatchString", effect: true}
	trDropped[trAccountPath+".Registry"] = true
	trNilSlices[trKnutPath+"lib/amounts.AccountMatches"] = []string{"regexes"}
	trVariadicOK[trKnutPath+"lib/common/mapper.Sequence"] = true
	trVariadicOK[trKnutPath+"lib/common/predicate.And"] = true
}

// trDropped: struct types of translated packages whose values are never part of the translated state (a pointer to one is an
// untranslatable type: parameters of it are dropped)
var trDropped = map[string]bool{}

func trIsDropped(ty types.Type) bool {
	if p, ok := ty.Underlying().(*types.Pointer); ok {
		ty = p.Elem()
	}
	n, ok := ty.(*types.Named)
	return ok && n.Obj().Pkg() != nil && trDropped[n.Obj().Pkg().Path()+"."+n.Obj().Name()]
}

func trIsRegexpPtr(ty types.Type) bool {
	p, ok := ty.Underlying().(*types.Pointer)
	return ok && trIsNamed(p.Elem(), "regexp", "Regexp")
}

// trMappingImports: prelude modules a generated unit needs for the constructs of this file
func trMappingImports(body string) []string {
	var res []string
	if strings.Contains(body, "Regexp.Ptr") || strings.Contains(body, "Regexp.MatchString") {
		res = append(res, "import Knut.GoSem.RegexpMatch")
	}
	if strings.Contains(body, "Strings.TrimPrefix") {
		res = append(res, "import Knut.GoSem.Mapping")
	}
	return res
}

// regexpNilCompare: `re == nil` / `re != nil` for a *regexp.Regexp
func (c *trCtx) regexpNilCompare(other ast.Expr, op token.Token) (string, bool) {
	if !trIsRegexpPtr(c.typeOf(other)) {
		return "", false
	}
	if op == token.EQL {
		return "(Option.isNone " + c.expr(other) + ")", true
	}
	return "(Option.isSome " + c.expr(other) + ")", true
}

// regexpMatchCall: re.MatchString(s)
func (c *trCtx) regexpMatchCall(x *ast.CallExpr) (string, bool) {
	sel, ok := trUnparen(x.Fun).(*ast.SelectorExpr)
	if !ok {
		return "", false
	}
	s, ok := c.info().Selections[sel]
	if !ok || s.Kind() != types.MethodVal {
		return "", false
	}
	fo, _ := s.Obj().(*types.Func)
	if fo == nil || fo.FullName() != "(*regexp.Regexp).MatchString" || len(x.Args) != 1 {
		return "", false
	}
	return c.hoist("Regexp.MatchString "+c.expr(sel.X)+" "+c.expr(x.Args[0]), x.Pos()), true
}

// internedNil: `nil` in a position of interned pointer type (a result, an argument): the zero value of the struct
func (c *trCtx) internedNil(e ast.Expr, ty types.Type) (string, bool) {
	if tp, ok := ty.(*types.TypeParam); ok && c.isNil(e) && trPointerConstraint(tp) {
		return "(GoZero.zero : " + trMangle(tp.Obj().Name()) + ")", true // nil of a type parameter constrained to a pointer (mapper.Nil)
	}
	if !c.isNil(e) || !trIsInterned(ty) {
		return "", false
	}
	return "(GoZero.zero : " + c.leanType(ty, e.Pos()) + ")", true
}

// trKeepOmitted: struct fields that stay OMITTED from the translated struct although their type became translatable (the agreement
// modules of these structs were written without the field; the translated functions of the struct do not read it)
var trKeepOmitted = map[string]bool{
	trKnutPath + "lib/reports/balance.Renderer.CommodityDetails": true,
}

// ---------------------------------------------------------------------------------------------- generic helpers of the report commands
//
//   func F(xs ...T)      a translated VARIADIC function (trVariadicOK: mapper.Sequence, predicate.And): inside, the parameter is the slice;
//                        a call `F(a, b)` passes the list `[a, b]` (`F(xs...)` the slice itself)
//   [P interface{ *T }]  a type parameter constrained to a pointer type (mapper.Nil): `{P : Type} [GoZero P]`; `nil` of type P is the zero
//                        value (a pointer to a struct is the struct value; nil is its zero value, as for the interned pointers).  A type
//                        parameter that occurs only inside such constraints (`T`) has no Lean counterpart
//   [T Named]            a type parameter constrained by an interface of result-only methods (predicate.ByName): one DICTIONARY
//                        parameter `(T_Name : T → String)` per method after the type parameter; `t.Name()` ↦ `(T_Name t)`; a call
//                        `ByName[*model.Commodity](…)` passes the translated method of the type argument (`commodity.Commodity.Name`)
//   F(a…) for a curried  a function whose body is `return func(…) R {…}` is translated curried (`Remap rs a ext1`); a CALL of it passes
//   translated F         the outer arguments only and is a function value: `(some (fun a => Remap rs a ext1))`, the callee's extra
//                        parameters (ext functions, iteration orders) becoming extra parameters of the caller
//   an argument for a    is not translated (account.Remap(reg.Accounts(), …): the *Registry parameter of Remap does not exist in Lean)
//   DROPPED parameter

// trCurried: translated functions whose body is `return func(…) R {…}`: the number of parameters of the literal
var trCurried = map[*trFunc]int{}

type trDictEntry struct {
	tparam int    // index of the type parameter
	method string // Go method name
	param  string // Lean parameter name
}

// trDicts: the dictionary parameters of a generic function, in order; trDictName: type parameter → method → Lean parameter
var trDicts = map[*types.Func][]trDictEntry{}
var trDictName = map[*types.TypeParam]map[string]string{}

func trTypeMentions(ty types.Type, tp *types.TypeParam, depth int) bool {
	if depth > 8 || ty == nil {
		return false
	}
	switch x := ty.(type) {
	case *types.TypeParam:
		return x == tp
	case *types.Named:
		if x.TypeArgs() != nil {
			for i := 0; i < x.TypeArgs().Len(); i++ {
				if trTypeMentions(x.TypeArgs().At(i), tp, depth+1) {
					return true
				}
			}
		}
		return false
	case *types.Pointer:
		return trTypeMentions(x.Elem(), tp, depth+1)
	case *types.Slice:
		return trTypeMentions(x.Elem(), tp, depth+1)
	case *types.Map:
		return trTypeMentions(x.Key(), tp, depth+1) || trTypeMentions(x.Elem(), tp, depth+1)
	case *types.Signature:
		return trTypeMentions(x.Params(), tp, depth+1) || trTypeMentions(x.Results(), tp, depth+1)
	case *types.Tuple:
		for i := 0; i < x.Len(); i++ {
			if trTypeMentions(x.At(i).Type(), tp, depth+1) {
				return true
			}
		}
	}
	return false
}

// trTParamUnused: the type parameter occurs neither in the parameters nor in the results (only in constraints of other type parameters)
func trTParamUnused(tp *types.TypeParam, sig *types.Signature) bool {
	if sig.RecvTypeParams() != nil {
		return false
	}
	return !trTypeMentions(sig.Params(), tp, 0) && !trTypeMentions(sig.Results(), tp, 0)
}

// trPointerConstraint: the constraint is `interface{ *T }`
func trPointerConstraint(tp *types.TypeParam) bool {
	iface, ok := tp.Constraint().Underlying().(*types.Interface)
	if !ok || iface.NumMethods() != 0 || iface.NumEmbeddeds() != 1 {
		return false
	}
	et := iface.EmbeddedType(0)
	if u, ok := et.(*types.Union); ok {
		if u.Len() != 1 || u.Term(0).Tilde() {
			return false
		}
		et = u.Term(0).Type()
	}
	_, isPtr := et.(*types.Pointer)
	return isPtr
}

// constraintParams: the Lean parameters of a type parameter whose constraint is a pointer type or an interface of result-only methods
func (c *trCtx) constraintParams(tp *types.TypeParam, sig *types.Signature) ([]string, bool) {
	n := trMangle(tp.Obj().Name())
	if trPointerConstraint(tp) {
		return []string{"{" + n + " : Type} [GoZero " + n + "]"}, true
	}
	iface, ok := tp.Constraint().Underlying().(*types.Interface)
	if !ok || iface.NumEmbeddeds() != 0 || iface.NumMethods() == 0 {
		return nil, false
	}
	res := []string{"{" + n + " : Type} [GoZero " + n + "]"}
	names := map[string]string{}
	var entries []trDictEntry
	for i := 0; i < iface.NumMethods(); i++ {
		m := iface.Method(i)
		ms := m.Type().(*types.Signature)
		if ms.Params().Len() != 0 || ms.Results().Len() != 1 {
			return nil, false
		}
		pn := n + "_" + trMangle(m.Name())
		c.used[pn] = true
		res = append(res, "("+pn+" : "+n+" → "+c.leanType(ms.Results().At(0).Type(), tp.Obj().Pos())+")")
		names[m.Name()] = pn
		entries = append(entries, trDictEntry{tparam: tp.Index(), method: m.Name(), param: pn})
	}
	trDictName[tp] = names
	fo := c.fn.obj.Origin()
	var keep []trDictEntry
	for _, e := range trDicts[fo] {
		if e.tparam != tp.Index() {
			keep = append(keep, e)
		}
	}
	trDicts[fo] = append(keep, entries...)
	return res, true
}

// tparamMethodCall: t.M() for t of a type parameter with a dictionary
func (c *trCtx) tparamMethodCall(x *ast.CallExpr) (string, bool) {
	sel, ok := trUnparen(x.Fun).(*ast.SelectorExpr)
	if !ok || len(x.Args) != 0 {
		return "", false
	}
	s, ok := c.info().Selections[sel]
	if !ok || s.Kind() != types.MethodVal {
		return "", false
	}
	tp, ok := s.Recv().(*types.TypeParam)
	if !ok {
		return "", false
	}
	pn, ok := trDictName[tp][sel.Sel.Name]
	if !ok {
		return "", false
	}
	return "(" + pn + " " + c.expr(sel.X) + ")", true
}

// dictArgs: the dictionary arguments of a call of a generic function with interface-constrained type parameters
func (c *trCtx) dictArgs(tf *trFunc, x *ast.CallExpr) []string {
	entries := trDicts[tf.obj.Origin()]
	if len(entries) == 0 {
		return nil
	}
	var id *ast.Ident
	fun := trUnparen(x.Fun)
	if ix, ok := fun.(*ast.IndexExpr); ok {
		fun = trUnparen(ix.X)
	}
	if ix, ok := fun.(*ast.IndexListExpr); ok {
		fun = trUnparen(ix.X)
	}
	switch f := fun.(type) {
	case *ast.Ident:
		id = f
	case *ast.SelectorExpr:
		id = f.Sel
	}
	inst, ok := c.info().Instances[id]
	if id == nil || !ok {
		trFail(x.Pos(), "call of the generic function %s: its type arguments are not known here", tf.leanName)
	}
	var res []string
	for _, e := range entries {
		ta := inst.TypeArgs.At(e.tparam)
		if tp, isTP := ta.(*types.TypeParam); isTP {
			if pn, ok := trDictName[tp][e.method]; ok {
				res = append(res, pn)
				continue
			}
		}
		obj, _, _ := types.LookupFieldOrMethod(ta, true, c.fn.pkg.tpkg, e.method)
		mo, _ := obj.(*types.Func)
		var mf *trFunc
		if mo != nil {
			mf = c.t.funcs[mo.Origin()]
		}
		if mf == nil || mf.effect || len(mf.mut) > 0 || mf.norder > 0 || mf.rejected != nil {
			trFail(x.Pos(), "the method %s of the type argument %s is not a translated pure function", e.method, ta)
		}
		c.fn.deps = append(c.fn.deps, mf)
		res = append(res, c.t.qname(c.unit(), mf.unit, mf.leanName))
	}
	return res
}

// partialApp: a call of a curried translated function: the function value of its literal
func (c *trCtx) partialApp(tf *trFunc, name string, args, extras []string) (string, bool) {
	n := trCurried[tf]
	if n == 0 {
		return "", false
	}
	var vs []string
	for i := 0; i < n; i++ {
		vs = append(vs, c.fresh("a"))
	}
	app := name
	for _, a := range args {
		app += " " + a
	}
	app += " " + strings.Join(vs, " ")
	for _, e := range extras {
		app += " " + e
	}
	if !tf.effect {
		app = "Outcome.ok (" + app + ")"
	}
	return "(some (fun " + strings.Join(vs, " ") + " => " + app + "))", true
}

// droppedArg: argument i of a call of a translated function whose parameter i is dropped
func (c *trCtx) droppedArg(fobj *types.Func, i int) bool {
	if fobj == nil || c.t.funcs[fobj.Origin()] == nil {
		return false
	}
	sig := fobj.Type().(*types.Signature)
	return i < sig.Params().Len() && trIsDropped(sig.Params().At(i).Type())
}

// variadicArgs: from argument i on, the arguments of a translated variadic function as one list
func (c *trCtx) variadicArgs(fobj *types.Func, x *ast.CallExpr, i int, argExprs []ast.Expr) (string, bool) {
	if fobj == nil || c.t.funcs[fobj.Origin()] == nil {
		return "", false
	}
	sig := fobj.Type().(*types.Signature)
	if !sig.Variadic() || i != sig.Params().Len()-1 {
		return "", false
	}
	if x.Ellipsis != token.NoPos {
		return c.expr(argExprs[i]), true
	}
	elem := sig.Params().At(i).Type().(*types.Slice).Elem()
	var parts []string
	for _, a := range argExprs[i:] {
		parts = append(parts, c.exprAs(a, elem))
	}
	return "[" + strings.Join(parts, ", ") + "]", true
}

// trInstantiatedFunc: F of `F[T]` when F is a declared function
func trInstantiatedFunc(info *types.Info, e ast.Expr) *types.Func {
	switch g := trUnparen(e).(type) {
	case *ast.Ident:
		fo, _ := info.Uses[g].(*types.Func)
		return fo
	case *ast.SelectorExpr:
		if _, isSel := info.Selections[g]; isSel {
			return nil
		}
		fo, _ := info.Uses[g.Sel].(*types.Func)
		return fo
	}
	return nil
}

// valueRefs: the translated functions that f mentions other than by calling them (`return True[T]`, `mapper.Identity[*Commodity]` as a
// field value): they are emitted before f; they do not make f effectful
func (t *trTranslator) valueRefs(f *trFunc) []*trFunc {
	if f.decl == nil || f.decl.Body == nil || trFragsOf(f) != nil {
		return nil
	}
	var res []*trFunc
	seen := map[*trFunc]bool{}
	ast.Inspect(f.decl.Body, func(n ast.Node) bool {
		id, ok := n.(*ast.Ident)
		if !ok {
			return true
		}
		if fo, ok := f.pkg.info.Uses[id].(*types.Func); ok {
			if g := t.funcs[fo.Origin()]; g != nil && !seen[g] {
				seen[g] = true
				res = append(res, g)
			}
		}
		return true
	})
	return res
}

// ---------------------------------------------------------------------------------------------- fragments
//
// A FRAGMENT is a designated part of a function that as a whole is outside the subset (cmd/commands/balance.go `execute`: cobra, bufio,
// os, interfaces …; account.Registry.SwapType: mutexes, the swap cache, the registry's lookup).  It is translated as a definition
// `F.<name>` of its own:
//   * kind "expr": one expression (the first composite literal of the given type); its value is the result
//   * kind "stmts": a range of consecutive statements of the function body (from the first statement that declares the variable `from`
//     to the one before the statement that `until` matches); the result is the tuple of the variables it declares or assigns that are
//     used after it
// The variables of the function that the fragment uses but does not declare are its PARAMETERS (dropped, like every parameter, when their
// type is not translatable: `r`, `reg`; they may then occur only inside untranslated calls, whose results are `ext` parameters).
// `F.<name>.externals` lists the source text of those calls, pinned by the agreement module.  What the rest of the function does with
// the fragment's value is not translated.

type trFragSpec struct {
	name  string // Lean name after the function's
	kind  string // "expr" | "stmts"
	typ   string // expr: the literal's type, as go/types prints it
	from  string // stmts: the first statement is the one that declares this variable
	until string // stmts: source text prefix of the first statement after the fragment
}

// trFragSpecs: the fragments, by the full name of the enclosing function
var trFragSpecs = map[string][]*trFragSpec{}

func trFragsOf(f *trFunc) []*trFragSpec {
	if f == nil || f.obj == nil {
		return nil
	}
	return trFragSpecs[f.obj.FullName()]
}

// fragNodes: the nodes of a fragment
func (t *trTranslator) fragNodes(f *trFunc, sp *trFragSpec) (ast.Expr, []ast.Stmt, []ast.Stmt) {
	info := f.pkg.info
	switch sp.kind {
	case "expr":
		var found ast.Expr
		ast.Inspect(f.decl.Body, func(n ast.Node) bool {
			if found != nil {
				return false
			}
			if cl, ok := n.(*ast.CompositeLit); ok {
				if tv, ok := info.Types[cl]; ok && tv.Type != nil && tv.Type.String() == sp.typ {
					found = cl
					return false
				}
			}
			return true
		})
		if found == nil {
			trFail(f.decl.Pos(), "fragment %s: no composite literal of type %s in %s", sp.name, sp.typ, f.leanName)
		}
		return found, nil, nil
	case "stmts":
		list := f.decl.Body.List
		start, end := -1, -1
		for i, s := range list {
			if start < 0 {
				if as, ok := s.(*ast.AssignStmt); ok && as.Tok == token.DEFINE {
					for _, l := range as.Lhs {
						if id, ok := l.(*ast.Ident); ok && id.Name == sp.from {
							start = i
						}
					}
				}
				continue
			}
			if strings.HasPrefix(strings.Join(strings.Fields(trSrcText(t.l.fset, s)), " "), sp.until) {
				end = i
				break
			}
		}
		if start < 0 || end < 0 {
			trFail(f.decl.Pos(), "fragment %s: the statements from `%s := …` to `%s` are not found in %s", sp.name, sp.from, sp.until, f.leanName)
		}
		return nil, list[start:end], list[end:]
	case "litstmts":
		return t.wqFragNodes(f, sp) // statements of an inner block (trans_units_weightsquery.go)
	}
	trFail(f.decl.Pos(), "fragment %s: unknown kind %s", sp.name, sp.kind)
	return nil, nil, nil
}

func (t *trTranslator) fragRoots(f *trFunc) []ast.Node {
	var res []ast.Node
	for _, sp := range trFragsOf(f) {
		func() {
			defer func() { _ = recover() }()
			e, ss, _ := t.fragNodes(f, sp)
			if e != nil {
				res = append(res, e)
			}
			for _, s := range ss {
				res = append(res, s)
			}
		}()
	}
	return res
}

// fragCallees: the translated functions the fragments call or mention
func (t *trTranslator) fragCallees(f *trFunc) []*trFunc {
	var res []*trFunc
	for _, n := range t.fragRoots(f) {
		res = append(res, t.calleesIn(f.pkg.info, n)...)
		ast.Inspect(n, func(m ast.Node) bool {
			if id, ok := m.(*ast.Ident); ok {
				if fo, ok := f.pkg.info.Uses[id].(*types.Func); ok {
					if g := t.funcs[fo.Origin()]; g != nil {
						res = append(res, g)
					}
				}
			}
			return true
		})
	}
	return res
}

func (t *trTranslator) translateFragments(f *trFunc) {
	var out strings.Builder
	for _, sp := range trFragsOf(f) {
		if sp.kind == "text" {
			out.WriteString(t.wqFragText(f, sp)) // a statement pinned by its source text (trans_units_weightsquery.go)
			continue
		}
		out.WriteString(t.translateFragment(f, sp))
	}
	f.text = out.String()
}

func (t *trTranslator) translateFragment(f *trFunc, sp *trFragSpec) string {
	expr, stmts, after := t.fragNodes(f, sp)
	var roots []ast.Node
	if expr != nil {
		roots = append(roots, expr)
	}
	for _, s := range stmts {
		roots = append(roots, s)
	}
	from, to := roots[0].Pos(), roots[len(roots)-1].End()
	if errs := f.pkg.errorsIn(from, to); len(errs) > 0 {
		trFail(errs[0].Pos, "fragment %s uses a declaration outside the prelude and the translated packages: %s", sp.name, errs[0].Msg)
	}
	ff := &trFunc{unit: f.unit, pkg: f.pkg, decl: f.decl, obj: f.obj, leanName: f.leanName + "." + sp.name, effect: true}
	c := &trCtx{t: t, fn: ff, names: map[types.Object]string{}, used: map[string]bool{"fuel": true}, opaqueParams: map[types.Object]bool{}}
	c.retHook = func(x *ast.ReturnStmt) trLines { // (also: the externals are listed by source text, without line numbers)
		trFail(x.Pos(), "a return statement inside the fragment %s is outside the subset", sp.name)
		return nil
	}
	info := f.pkg.info
	// the free variables: used inside, declared outside (in source order of their declarations)
	declared := map[types.Object]bool{}
	var free []*types.Var
	seen := map[types.Object]bool{}
	for _, n := range roots {
		ast.Inspect(n, func(m ast.Node) bool {
			id, ok := m.(*ast.Ident)
			if !ok {
				return true
			}
			if o := info.Defs[id]; o != nil {
				declared[o] = true
			}
			if v, ok := info.Uses[id].(*types.Var); ok && !v.IsField() && !declared[v] && !seen[v] {
				if v.Pkg() != nil && v.Parent() == v.Pkg().Scope() {
					return true // a package-level variable
				}
				if v.Pos() >= from && v.Pos() < to {
					return true // declared inside (a parameter of a literal)
				}
				seen[v] = true
				free = append(free, v)
			}
			return true
		})
	}
	sort.Slice(free, func(i, j int) bool { return free[i].Pos() < free[j].Pos() })
	var params, dropped []string
	for _, v := range free {
		if d := c.paramDecl(v, from); d != "" {
			params = append(params, d)
		} else {
			dropped = append(dropped, v.Name())
		}
	}
	var term trLines
	resType := ""
	switch sp.kind {
	case "expr":
		ty := c.typeOf(expr)
		resType = c.leanType(ty, expr.Pos())
		v := c.exprAs(expr, ty)
		term = trWrapPre(c.takePre(), trOne("Outcome.ok "+v))
	case "stmts", "litstmts":
		// the result: the variables declared or assigned in the fragment that the rest of the function uses
		var outs []types.Object
		outSeen := map[types.Object]bool{}
		cand := map[types.Object]bool{}
		for _, s := range stmts {
			ast.Inspect(s, func(m ast.Node) bool {
				if id, ok := m.(*ast.Ident); ok {
					if o := info.Defs[id]; o != nil {
						cand[o] = true
					}
				}
				return true
			})
		}
		for _, o := range c.assignedIn(roots...) {
			cand[o] = true
		}
		for _, s := range after {
			ast.Inspect(s, func(m ast.Node) bool {
				if id, ok := m.(*ast.Ident); ok {
					if o := info.Uses[id]; o != nil && cand[o] && !outSeen[o] {
						outSeen[o] = true
						outs = append(outs, o)
					}
				}
				return true
			})
		}
		sort.Slice(outs, func(i, j int) bool { return outs[i].Pos() < outs[j].Pos() })
		if len(outs) == 0 {
			trFail(from, "fragment %s: no variable of it is used afterwards", sp.name)
		}
		term = c.stmts(stmts, func() trLines {
			v, ty := c.tupleOf(outs)
			resType = ty
			return trOne("Outcome.ok " + v)
		})
		if resType == "" {
			trFail(from, "fragment %s: control does not reach its end", sp.name)
		}
	}
	params = append(params, c.extraParams...)
	f.deps = append(f.deps, ff.deps...)
	var b strings.Builder
	for _, a := range c.aux {
		b.WriteString(a + "\n")
	}
	doc := "the expression of type `" + sp.typ + "`"
	if sp.kind == "stmts" || sp.kind == "litstmts" {
		doc = "the statements from `" + sp.from + " := …` up to `" + sp.until + "…`"
	}
	dropDoc := ""
	if len(dropped) > 0 {
		dropDoc = "; variables of untranslatable types (dropped): " + strings.Join(dropped, ", ")
	}
	fmt.Fprintf(&b, "/-- Go: a FRAGMENT of `%s` (%s): %s; its free variables are the parameters%s -/\n", trSigText(f.decl), t.l.relPos(from), doc, dropDoc)
	fmt.Fprintf(&b, "def %s %s : Outcome %s :=\n%s\n\n", ff.leanName, strings.Join(params, " "), resType, term.indent(2).String())
	fmt.Fprintf(&b, "/-- the calls of untranslated functions whose results are the `ext` parameters of the fragment (source text; pinned by the agreement module) -/\ndef %s.externals : List String := %s\n\n",
		ff.leanName, trLeanStrList(c.externals))
	return b.String()
}

// extNilSlice: the result of an untranslated function of /repo passed for a nil-tracked slice parameter (amounts.AccountMatches(r.accounts.Regex())):
// an extra parameter `ext<N> : Option (List T)` (none = nil), outside loops and closures only
func (c *trCtx) extNilSlice(fobj *types.Func, i int, a ast.Expr) (string, bool) {
	if fobj == nil || !trNilSliceParam(fobj, i) {
		return "", false
	}
	call, ok := trUnparen(a).(*ast.CallExpr)
	if !ok {
		return "", false
	}
	fo := c.calledFunc(call)
	if fo == nil || fo.Pkg() == nil || !strings.HasPrefix(fo.Pkg().Path(), trKnutPath) || c.t.funcs[fo.Origin()] != nil {
		return "", false
	}
	if _, pinned := trPinned[fo.Origin().FullName()]; pinned {
		return "", false
	}
	if c.loop != nil || c.inLambda > 0 || c.inCallback {
		trFail(call.Pos(), "call of %s, which is not translated, inside a loop or closure is outside the subset", fo.FullName())
	}
	ty := "(Option " + c.leanType(fobj.Type().(*types.Signature).Params().At(i).Type(), a.Pos()) + ")"
	c.norder++
	n := "ext" + itoa(c.norder)
	c.extraParams = append(c.extraParams, "("+n+" : "+ty+")")
	c.extraTypes = append(c.extraTypes, ty)
	c.externals = append(c.externals, n+" = "+trSrcText(c.t.l.fset, call)+" [none = nil]")
	return n, true
}

// requalifyExtra: the type of an extra parameter of a callee of ANOTHER unit, as seen from this unit: the type names that the callee's
// unit declares (written bare there) get its namespace
func (c *trCtx) requalifyExtra(tf *trFunc, ty string) string {
	if tf.unit == c.unit() {
		return ty
	}
	ns := c.t.leanNS(tf.unit)
	path := trKnutPath + tf.unit.pkg
	var names []string
	for o, seen := range c.t.declSeen {
		if tn, ok := o.(*types.TypeName); ok && seen && tn.Pkg() != nil && tn.Pkg().Path() == path {
			names = append(names, trMangle(tn.Name()))
		}
	}
	sort.Strings(names)
	isWord := func(b byte) bool {
		return b == '_' || b == '.' || (b >= '0' && b <= '9') || (b >= 'a' && b <= 'z') || (b >= 'A' && b <= 'Z')
	}
	for _, n := range names {
		var out strings.Builder
		for i := 0; i < len(ty); {
			if strings.HasPrefix(ty[i:], n) && (i == 0 || !isWord(ty[i-1])) && (i+len(n) == len(ty) || !isWord(ty[i+len(n)])) {
				out.WriteString(ns + "." + n)
				i += len(n)
				continue
			}
			out.WriteByte(ty[i])
			i++
		}
		ty = out.String()
	}
	return ty
}
