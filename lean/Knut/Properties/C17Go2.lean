import Knut.Properties.C17
import Knut.FactsAgree.TransTableLog
/-!
# C17 (layout, CSV) on the generated definitions

The layout clauses of `Properties/C17.lean` (`C17_rectangular`, `C17_separators_aligned`, `C17_separator_columns`, `C17_text_conforms`,
`C17_render_completes_iff`) are about the model `Table.renderLines` / `renderText`, the CSV clauses (`C17_csv_positions`,
`C17_csv_roundtrip`, `C17_csv_text`) about `Table.renderCSV`.  `FactsAgree/TransTableRender3.lean` (`Render_agrees_rel`) and
`FactsAgree/TransTableCsv.lean` (`CSV_Render_agrees_rel`) prove the functions translated from `/repo`'s `lib/common/table`
(`TextRenderer.Render` with its three width passes, `renderCell`, `minLengthCell`, `createSep`; `CSVRenderer.Render` over
`encoding/csv`) equal to them.  This module composes them: every clause is stated about the text `out` that

  `Go.table.TextRenderer.Render tr T w cs ff`   resp.   `Go.table.CSVRenderer.Render cr T w ff`

returns on a writer that holds `w`, for every Go table `T` that stands for a model table `t` (`TableRel`: the same column groups and
cells, any capacities), every state `cs` of the package variable `color.NoColor`, every float formatter `ff` (the model has no percent
cells).  The number clauses on `numToString` are in `Properties/C17Go.lean`.

The hypothesis of `Render_agrees_rel` that stays, as a STATED hypothesis of the text clauses (not dischargeable: it marks where the
model does not describe the code): `tr.Color = false` (colour on is outside the model).  The former second hypothesis `WidthsOK` (no
column wider than 10^6 runes, the limit of `fmt`'s `%*s`: finding `text-table-badwidth-column-above-1e6-runes`) is gone with the /repo
fix `pad the number cells of a text table without fmt's width limit`: the clauses hold for tables of every width.
The CSV clauses have NO hypothesis beyond `TableRel` (and decimal amounts for the read-back
clause, as in the model).  The last section states the clauses end to end for a LOG of builder calls run through the translated
builder functions (`TransTableLog.exec_interp`), which is what code outside package table is translated to.
-/
namespace Knut.C17Go2
open Knut Knut.Dec Knut.Table Knut.Table.Spec
open Knut.Generated.Go
open Knut.FactsAgree.TransTableRender

/-! ## the text renderer -/

/-- **the bridge**: on a table with a common number `n ≥ 1` of cells per row and plain texts the translated `Render` returns — no
panic, never out of fuel, nil error, the field `table` reset — the writer extended by exactly the model's lines, each ended by a line
feed, and one more line feed -/
theorem Render_ok {tr : table.TextRenderer} {T : table.Table} {t : Table} (hT : TableRel T t) {n : Nat}
    (hu : uniform n t = true) (hp : plain t = true) (hc : tr.Color = false)
    (w : String) (cs : GoSem.Color.State) (ff : GoSem.Fmt.FloatFmt) :
    ∃ ls, renderLines (rendOf tr) t = .ok ls ∧
      table.TextRenderer.Render tr T w cs ff
        = GoSem.Outcome.ok ({ tr with table := GoSem.GoZero.zero }, w ++ String.ofList (joinLines ls), none) := by
  obtain ⟨ls, ht, hl, _⟩ := C17.C17_text_bytes (rendOf tr) t n hu hp
  refine ⟨ls, hl, ?_⟩
  rw [Render_agrees_rel tr T t hT w cs ff hc, ht]

/-- what an `ok` of the translated `Render` on the empty writer says in the model's terms -/
theorem Render_text {tr tr' : table.TextRenderer} {T : table.Table} {t : Table} (hT : TableRel T t)
    (hc : tr.Color = false) {w : String} {cs : GoSem.Color.State} {ff : GoSem.Fmt.FloatFmt}
    {out : String} {err : Option GoSem.Error}
    (h : table.TextRenderer.Render tr T w cs ff = GoSem.Outcome.ok (tr', out, err)) :
    ∃ s, renderText (rendOf tr) t = .ok s ∧ out = w ++ String.ofList s ∧ err = none ∧
      tr' = { tr with table := GoSem.GoZero.zero } := by
  rw [Render_agrees_rel tr T t hT w cs ff hc] at h
  cases hr : renderText (rendOf tr) t with
  | ok s =>
    rw [hr] at h
    injection h with h
    injection h with h1 h2
    injection h2 with h2 h3
    exact ⟨s, rfl, h2.symm, h3.symm, h1.symm⟩
  | panic m => rw [hr] at h; cases h

/-- the translated `Render` never runs out of fuel and has exactly two outcomes: the text with a nil error, or Go's
`index out of range` -/
theorem C17_render_total_go (tr : table.TextRenderer) (T : table.Table) (t : Table) (hT : TableRel T t)
    (hc : tr.Color = false) (w : String) (cs : GoSem.Color.State) (ff : GoSem.Fmt.FloatFmt) :
    (∃ s, table.TextRenderer.Render tr T w cs ff
        = GoSem.Outcome.ok ({ tr with table := GoSem.GoZero.zero }, w ++ String.ofList s, none)) ∨
    table.TextRenderer.Render tr T w cs ff = GoSem.Outcome.panic idxPanic := by
  rw [Render_agrees_rel tr T t hT w cs ff hc]
  cases renderText (rendOf tr) t with
  | ok s => exact Or.inl ⟨s, rfl⟩
  | panic m => exact Or.inr rfl

/-- **the panic outcomes, under exactly the guards the code has**: the translated `Render` completes iff every row has at least one
cell (`row.cells[0]`) and at most as many cells as the table has columns (`widths[i]`); otherwise it ends in `index out of range` -/
theorem C17_render_completes_iff_go (tr : table.TextRenderer) (T : table.Table) (t : Table) (hT : TableRel T t)
    (hc : tr.Color = false) (w : String) (cs : GoSem.Color.State) (ff : GoSem.Fmt.FloatFmt) :
    (∃ v, table.TextRenderer.Render tr T w cs ff = GoSem.Outcome.ok v) ↔ ∀ row ∈ t.rows, row ≠ [] ∧ row.length ≤ t.width := by
  rw [← C17.C17_render_completes_iff (rendOf tr) t, Render_agrees_rel tr T t hT w cs ff hc]
  unfold renderText
  cases renderLines (rendOf tr) t with
  | ok ls => simp
  | panic m => simp

theorem C17_render_panics_go (tr : table.TextRenderer) (T : table.Table) (t : Table) (hT : TableRel T t)
    (hc : tr.Color = false) (w : String) (cs : GoSem.Color.State) (ff : GoSem.Fmt.FloatFmt)
    (hbad : ∃ row ∈ t.rows, row = [] ∨ t.width < row.length) :
    table.TextRenderer.Render tr T w cs ff = GoSem.Outcome.panic idxPanic := by
  rcases C17_render_total_go tr T t hT hc w cs ff with ⟨s, h⟩ | h
  · have := (C17_render_completes_iff_go tr T t hT hc w cs ff).mp ⟨_, h⟩
    obtain ⟨row, hr, hb⟩ := hbad
    have := this row hr
    rcases hb with hb | hb
    · exact absurd hb this.1
    · omega
  · exact h

section clauses
variable {tr tr' : table.TextRenderer} {T : table.Table} {t : Table} {n : Nat} {cs : GoSem.Color.State} {ff : GoSem.Fmt.FloatFmt}
  {out : String} {err : Option GoSem.Error}

/-- the text the translated `Render` writes into an empty writer splits (the monitor's splitter) into exactly the model's lines -/
theorem Render_lines (hT : TableRel T t) (hu : uniform n t = true) (hp : plain t = true) (hc : tr.Color = false)
    (h : table.TextRenderer.Render tr T "" cs ff = GoSem.Outcome.ok (tr', out, err)) :
    ∃ ls, renderLines (rendOf tr) t = .ok ls ∧ tableLines out.toList = some ls ∧ err = none := by
  obtain ⟨ls, ht, hl, hs⟩ := C17.C17_text_bytes (rendOf tr) t n hu hp
  obtain ⟨s, hs', ho, he, _⟩ := Render_text hT hc h
  rw [ht] at hs'
  injection hs' with hs'
  refine ⟨ls, hl, ?_, he⟩
  rw [ho, ← hs']
  simpa using hs

/-- **rectangular**: all lines of the text the translated `Render` writes have the same width (in runes) -/
theorem C17_rectangular_go (hT : TableRel T t) (hu : uniform n t = true) (hp : plain t = true) (hc : tr.Color = false)
    (h : table.TextRenderer.Render tr T "" cs ff = GoSem.Outcome.ok (tr', out, err)) :
    ∃ ls, tableLines out.toList = some ls ∧ rectLines ls = true := by
  obtain ⟨ls, hl, hs, _⟩ := Render_lines hT hu hp hc h
  obtain ⟨ls', hl', hr⟩ := C17.C17_rectangular (rendOf tr) t n hu hp
  rw [hl] at hl'; injection hl' with hl'; subst hl'
  exact ⟨ls, hs, hr⟩

/-- **column separators vertically aligned**: `n + 1` character columns hold a separator (`|` or `+`) on every line -/
theorem C17_separators_aligned_go (hT : TableRel T t) (hu : uniform n t = true) (hp : plain t = true) (hc : tr.Color = false)
    (h : table.TextRenderer.Render tr T "" cs ff = GoSem.Outcome.ok (tr', out, err)) :
    ∃ ls, tableLines out.toList = some ls ∧ alignedOK n ls = true := by
  obtain ⟨ls, hl, hs, _⟩ := Render_lines hT hu hp hc h
  obtain ⟨ls', hl', hr⟩ := C17.C17_separators_aligned (rendOf tr) t n hu hp
  rw [hl] at hl'; injection hl' with hl'; subst hl'
  exact ⟨ls, hs, hr⟩

/-- the same, naming the columns: the separator columns are `0` and the column after each of the `n` slots of the final widths -/
theorem C17_separator_columns_go (hT : TableRel T t) (hu : uniform n t = true) (hp : plain t = true) (hc : tr.Color = false)
    (h : table.TextRenderer.Render tr T "" cs ff = GoSem.Outcome.ok (tr', out, err)) :
    ∃ W ls, finalWidths (rendOf tr) t = some W ∧ tableLines out.toList = some ls ∧
      (lineBounds n W).Nodup ∧ ((ls ≠ []) → (lineBounds n W).length = n + 1) ∧
      ∀ l ∈ ls, ∀ p ∈ lineBounds n W, sepAt l p = true := by
  obtain ⟨ls, hl, hs, _⟩ := Render_lines hT hu hp hc h
  obtain ⟨W, ls', hW, hl', hr⟩ := C17.C17_separator_columns (rendOf tr) t n hu hp
  rw [hl] at hl'; injection hl' with hl'; subst hl'
  exact ⟨W, ls, hW, hs, hr⟩

/-- **every line is lead, slots of the column widths, separators, trail, and every slot shows its cell** (numbers: blank for zero,
else the value rounded half away from zero to `Round` digits, signed, grouped): the whole-text predicate of the monitor holds of the
text the translated `Render` writes, with the model's final widths as witness -/
theorem C17_text_conforms_go (hT : TableRel T t) (hu : uniform n t = true) (hp : plain t = true) (hc : tr.Color = false)
    (h : table.TextRenderer.Render tr T "" cs ff = GoSem.Outcome.ok (tr', out, err)) :
    ∃ W ls, finalWidths (rendOf tr) t = some W ∧ tableLines out.toList = some ls ∧
      textOKWith false (rendOf tr) t n W ls = true := by
  obtain ⟨ls, hl, hs, _⟩ := Render_lines hT hu hp hc h
  obtain ⟨W, ls', hW, hl', hr⟩ := C17.C17_text_conforms (rendOf tr) t n hu hp
  rw [hl] at hl'; injection hl' with hl'; subst hl'
  exact ⟨W, ls, hW, hs, hr⟩

/-- **the property's sentence** (the value shown is the amount divided by 1000 EXACTLY, then rounded): the same with `exactTarget` -/
theorem C17_text_conforms_exact_go (hT : TableRel T t) (hu : uniform n t = true) (hp : plain t = true) (hc : tr.Color = false)
    (hex : tableExact (rendOf tr) t)
    (h : table.TextRenderer.Render tr T "" cs ff = GoSem.Outcome.ok (tr', out, err)) :
    ∃ W ls, finalWidths (rendOf tr) t = some W ∧ tableLines out.toList = some ls ∧
      textOKWith true (rendOf tr) t n W ls = true := by
  obtain ⟨ls, hl, hs, _⟩ := Render_lines hT hu hp hc h
  obtain ⟨W, ls', hW, hl', hr⟩ := C17.C17_text_conforms_exact (rendOf tr) t n hu hp hex
  rw [hl] at hl'; injection hl' with hl'; subst hl'
  exact ⟨W, ls, hW, hs, hr⟩

end clauses

/-! ## the CSV renderer: no hypothesis beyond `TableRel` -/

/-- **the bridge** (total: never a panic, never an error) -/
theorem CSV_ok (cr : table.CSVRenderer) {T : table.Table} {t : Table} (hT : TableRel T t) (w : String) (ff : GoSem.Fmt.FloatFmt) :
    table.CSVRenderer.Render cr T w ff = GoSem.Outcome.ok (w ++ String.ofList (renderCSV t), none) :=
  CSV_Render_agrees_rel cr T t hT w ff

theorem CSV_text {cr : table.CSVRenderer} {T : table.Table} {t : Table} (hT : TableRel T t) {ff : GoSem.Fmt.FloatFmt}
    {out : String} {err : Option GoSem.Error} (h : table.CSVRenderer.Render cr T "" ff = GoSem.Outcome.ok (out, err)) :
    out.toList = renderCSV t ∧ err = none := by
  rw [CSV_ok cr hT] at h
  injection h with h
  injection h with h1 h2
  exact ⟨by rw [← h1]; simp, h2.symm⟩

/-- **the bytes the translated `CSVRenderer.Render` writes parse back** (quoting of commas, quotes, line breaks and leading blanks
loses nothing) **to the non-blank rows in order, field `j` the text of cell `j`** -/
theorem C17_csv_roundtrip_go {cr : table.CSVRenderer} {T : table.Table} {t : Table} (hT : TableRel T t) {ff : GoSem.Fmt.FloatFmt}
    {out : String} {err : Option GoSem.Error} (h : table.CSVRenderer.Render cr T "" ff = GoSem.Outcome.ok (out, err)) :
    parseCSV out.toList = some (csvRecords t) := by
  rw [(CSV_text hT h).1]
  exact C17.C17_csv_roundtrip t

/-- **CSV carries the exact amounts in the same positions**: the records read off the written text show every non-blank row — texts
verbatim, amounts as the decimal that reads back to the UNROUNDED amount -/
theorem C17_csv_positions_go {cr : table.CSVRenderer} {T : table.Table} {t : Table} (hT : TableRel T t) {ff : GoSem.Fmt.FloatFmt}
    {out : String} {err : Option GoSem.Error} (hd : ∀ row ∈ t.rows, ∀ c ∈ row, cellDecimal c)
    (h : table.CSVRenderer.Render cr T "" ff = GoSem.Outcome.ok (out, err)) :
    ∃ recs, parseCSV out.toList = some recs ∧ csvOK t.rows recs = true :=
  ⟨_, C17_csv_roundtrip_go hT h, C17.C17_csv_positions t hd⟩

/-- together: the monitor's predicate on the text of the translated function -/
theorem C17_csv_text_go {cr : table.CSVRenderer} {T : table.Table} {t : Table} (hT : TableRel T t) {ff : GoSem.Fmt.FloatFmt}
    {out : String} {err : Option GoSem.Error} (hd : ∀ row ∈ t.rows, ∀ c ∈ row, cellDecimal c)
    (h : table.CSVRenderer.Render cr T "" ff = GoSem.Outcome.ok (out, err)) :
    csvTextOK t out.toList = true ∧ err = none := by
  rw [(CSV_text hT h).1]
  exact ⟨C17.C17_csv_text t hd, (CSV_text hT h).2⟩

/-- the renderer's own fields, the writer's previous content and the float formatter are irrelevant to what is appended -/
theorem C17_csv_params_irrelevant_go (cr cr' : table.CSVRenderer) {T T' : table.Table} {t : Table} (hT : TableRel T t)
    (hT' : TableRel T' t) (ff ff' : GoSem.Fmt.FloatFmt) :
    table.CSVRenderer.Render cr T "" ff = table.CSVRenderer.Render cr' T' "" ff' := by
  rw [CSV_ok cr hT, CSV_ok cr' hT']

/-- capacities of the Go rows, the state of `color.NoColor` at entry and the float formatter are irrelevant to the text -/
theorem C17_render_params_irrelevant_go (tr : table.TextRenderer) {T T' : table.Table} {t : Table} (hT : TableRel T t)
    (hT' : TableRel T' t) (hc : tr.Color = false) (w : String) (cs cs' : GoSem.Color.State)
    (ff ff' : GoSem.Fmt.FloatFmt) :
    table.TextRenderer.Render tr T w cs ff = table.TextRenderer.Render tr T' w cs' ff' := by
  rw [Render_agrees_rel tr T t hT w cs ff hc, Render_agrees_rel tr T' t hT' w cs' ff' hc]

/-! ## end to end: a log of builder calls through the translated builder functions, then the translated renderers -/

open Knut.FactsAgree.TransTableLog in
/-- the layout clauses for the table a LOG of builder calls builds (what the balance renderer is translated to): the calls run
through the translated `table.New`, `AddRow`, `Row.AddText`, …, the result through the translated `Render` -/
theorem C17_log_text_go (log : List Knut.FactsAgree.TransRender.TC) (ha : ∀ c ∈ log, AlignOK c)
    (hok : (Knut.FactsAgree.TransRender.interp log).ok = true) (tr : table.TextRenderer) (n : Nat)
    (hu : uniform n (Knut.FactsAgree.TransRender.interp log).tbl = true) (hp : plain (Knut.FactsAgree.TransRender.interp log).tbl = true)
    (hc : tr.Color = false)
    (cs : GoSem.Color.State) (ff : GoSem.Fmt.FloatFmt) :
    ∃ W ls out, (execLog ⟨GoSem.GoZero.zero, []⟩ log).bind (fun g => table.TextRenderer.Render tr g.T "" cs ff)
        = GoSem.Outcome.ok ({ tr with table := GoSem.GoZero.zero }, out, none) ∧
      tableLines out.toList = some ls ∧
      textOKWith false (rendOf tr) (Knut.FactsAgree.TransRender.interp log).tbl n W ls = true := by
  rw [exec_interp log ha hok]
  obtain ⟨ls, hl, h⟩ := Render_ok (tableGo_rel _) hu hp hc "" cs ff
  obtain ⟨W, ls', _, hs, hr⟩ := C17_text_conforms_go (tableGo_rel _) hu hp hc h
  exact ⟨W, ls', _, h, hs, hr⟩

open Knut.FactsAgree.TransTableLog in
theorem C17_log_csv_go (log : List Knut.FactsAgree.TransRender.TC) (ha : ∀ c ∈ log, AlignOK c)
    (hok : (Knut.FactsAgree.TransRender.interp log).ok = true) (cr : table.CSVRenderer) (ff : GoSem.Fmt.FloatFmt)
    (hd : ∀ row ∈ (Knut.FactsAgree.TransRender.interp log).tbl.rows, ∀ c ∈ row, cellDecimal c) :
    ∃ out, (execLog ⟨GoSem.GoZero.zero, []⟩ log).bind (fun g => table.CSVRenderer.Render cr g.T "" ff) = GoSem.Outcome.ok (out, none) ∧
      csvTextOK (Knut.FactsAgree.TransRender.interp log).tbl out.toList = true := by
  rw [exec_interp log ha hok]
  have h := CSV_ok cr (tableGo_rel (Knut.FactsAgree.TransRender.interp log).tbl) "" ff
  exact ⟨_, h, (C17_csv_text_go (tableGo_rel _) hd h).1⟩

/-! ## Non-vacuity: the demo table of `Properties/C17.lean` through the translated renderers -/

/-- the renderer of the example: no colour, no `--thousands`, `--digits 0` -/
def demoTr : table.TextRenderer := ⟨GoSem.GoZero.zero, false, false, 0⟩

/-- the translated `Render` on the demo table, evaluated -/
theorem demo_render : table.TextRenderer.Render demoTr (tableGo C17.demo) "" ⟨false, false⟩ (fun _ _ _ => "")
    = GoSem.Outcome.ok (demoTr,
        "+---------+------+------------+------------+\n| Account | Comm | 2020-01-31 | 2020-02-29 |\n|   Bär   | CHF  |  1,000,000 |          0 |\n|         |      |            |            |\n\n",
        none) := by
  decide +kernel

/-- every hypothesis of the layout clauses holds of it, so they apply to that text -/
example : ∃ W ls, tableLines
      "+---------+------+------------+------------+\n| Account | Comm | 2020-01-31 | 2020-02-29 |\n|   Bär   | CHF  |  1,000,000 |          0 |\n|         |      |            |            |\n\n".toList
      = some ls ∧ textOKWith false ⟨false, 0⟩ C17.demo 4 W ls = true := by
  have hu : uniform 4 C17.demo = true := by decide +kernel
  have hp : plain C17.demo = true := by decide +kernel
  obtain ⟨W, ls, _, h1, h2⟩ := C17_text_conforms_go (tr := demoTr) (tableGo_rel C17.demo) hu hp rfl demo_render
  exact ⟨W, ls, h1, h2⟩

example : ∃ out, table.CSVRenderer.Render {} (tableGo C17.demo) "" (fun _ _ _ => "") = GoSem.Outcome.ok (out, none) ∧
    csvTextOK C17.demo out.toList = true := by
  have h := CSV_ok {} (tableGo_rel C17.demo) "" (fun _ _ _ => "")
  refine ⟨_, h, (C17_csv_text_go (tableGo_rel C17.demo) ?_ h).1⟩
  intro row hr c hc
  simp [C17.demo] at hr
  rcases hr with rfl | rfl | rfl | rfl <;> simp at hc <;> (try rcases hc with rfl | rfl | rfl | rfl) <;>
    simp [cellDecimal] <;> decide +kernel

end Knut.C17Go2
