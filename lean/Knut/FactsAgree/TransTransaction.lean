import Knut.FactsAgree.TransPosting
import Knut.FactsAgree.TransDate
import Knut.Model.Accrual
/-!
# The translated `lib/model/transaction` (Compare, Builder.Build, expand) agrees with the model
-/
namespace Knut.FactsAgree.TransTransaction
open Knut Knut.GoSem Knut.JournalPrinter
open Knut.Generated.Go
open Knut.FactsAgree.TransPosting Knut.FactsAgree.TransAccount Knut.FactsAgree.TransDate

/-- a model transaction as the Go value: `srcs` gives every posting its `Src` pointer; `Targets` is nil (`none`) exactly when the
model transaction has no `@performance` annotation (the printer tells a nil slice from an empty one) -/
def txGo (cur : String → Bool) (src : Ref) (psrc : Ref) (t : Knut.Transaction) : transaction.Transaction :=
  { Src := src, Date := t.date, Description := t.description, Postings := t.postings.map (postingGo cur psrc),
    Targets := t.targets.map (fun tg => tg.map (commodityGo cur)) }

theorem replaceChars_quote (cs : List Char) :
    Strings.replaceChars ['"'] ['\''] cs 0 = cs.map (fun c => if c == '"' then '\'' else c) := by
  induction cs with
  | nil => rfl
  | cons c rest ih =>
    by_cases h : c = '"'
    · subst h; simp [Strings.replaceChars, List.isPrefixOf, ih]
    · have h' : ¬ '"' = c := fun e => h e.symm
      simp [Strings.replaceChars, List.isPrefixOf, ih, h, h']

theorem ReplaceAll_quote (s : String) : Strings.ReplaceAll s "\"" "'" = descText s := by
  unfold Strings.ReplaceAll descText
  have : ("\"" : String).isEmpty = false := by decide
  simp only [this, Bool.false_eq_true, if_false]
  have e1 : ("\"" : String).toList = ['"'] := by decide
  have e2 : ("'" : String).toList = ['\''] := by decide
  rw [e1, e2, replaceChars_quote]

/-- `transaction.Builder.Build`: the description's double quotes become single quotes, everything else is copied -/
theorem Builder_Build_agrees (src : Ref) (date : Int) (desc : String) (ps : List posting.Posting)
    (tg : Option (List commodity.Commodity)) :
    transaction.Builder.Build ⟨src, date, desc, ps, tg⟩ = ⟨src, date, descText desc, ps, tg⟩ := by
  simp [transaction.Builder.Build, ReplaceAll_quote]

theorem compare_Time_agrees (a b : Int) : compare.Time a b = ordGo (compare a b) := by
  unfold compare.Time
  rcases Int.lt_trichotomy a b with h | h | h
  · have : a ≠ b := by omega
    simp [h, this, Int.compare_eq_lt.mpr h, ordGo]
  · subst h; simp [ordGo]
  · have h1 : ¬ a < b := by omega
    have : a ≠ b := by omega
    simp [h1, this, Int.compare_eq_gt.mpr h, ordGo]

/-- the loop of `transaction.Compare` from index `i` on: the first pair of postings that differs decides, otherwise the
index of the first posting that has no partner is returned -/
theorem Compare_loop_agrees (cur : String → Bool) (s1 s2 : Ref) (t u : transaction.Transaction) :
    ∀ (ps qs : List Knut.Posting) (i : Nat) (fuel : Nat),
      t.Postings.drop i = ps.map (postingGo cur s1) → u.Postings.drop i = qs.map (postingGo cur s2) →
      ps.length ≤ fuel →
      transaction.Compare.loop1 t u fuel (i : Int) =
        if (ps.zip qs).all (fun pq => cmpPosting pq.1 pq.2 == .eq) then
          GoSem.Outcome.ok (Flow.next ((i + min ps.length qs.length : Nat) : Int))
        else GoSem.Outcome.ok (Flow.ret (ordGo (cmpPostings ps qs))) := by
  intro ps
  induction ps with
  | nil =>
    intro qs i fuel hp hq hf
    have hlen : t.Postings.length ≤ i := by
      have := congrArg List.length hp
      simp at this; omega
    unfold transaction.Compare.loop1
    have : ¬ ((i : Int) < (t.Postings.length : Int)) := by omega
    simp [this]
  | cons p ps ih =>
    intro qs i fuel hp hq hf
    have hpl : i < t.Postings.length := by
      have := congrArg List.length hp
      simp at this; omega
    have hpi : t.Postings[i] = postingGo cur s1 p := by
      have := congrArg (fun l => l[0]?) hp
      simp [List.getElem?_drop, List.getElem?_eq_getElem hpl] at this
      exact this
    cases qs with
    | nil =>
      have hlen : u.Postings.length ≤ i := by
        have := congrArg List.length hq
        simp at this; omega
      unfold transaction.Compare.loop1
      have h2 : ¬ ((i : Int) < (u.Postings.length : Int)) := by omega
      simp [h2]
    | cons q qs =>
      have hql : i < u.Postings.length := by
        have := congrArg List.length hq
        simp at this; omega
      have hqi : u.Postings[i] = postingGo cur s2 q := by
        have := congrArg (fun l => l[0]?) hq
        simp [List.getElem?_drop, List.getElem?_eq_getElem hql] at this
        exact this
      cases fuel with
      | zero => simp at hf
      | succ n =>
        unfold transaction.Compare.loop1
        have h1 : ((i : Int) < (t.Postings.length : Int)) := by omega
        have h2 : ((i : Int) < (u.Postings.length : Int)) := by omega
        simp only [len, h1, h2, decide_true, Bool.and_self, if_true]
        rw [index_ok _ _ (by omega) (by simpa using hpl), index_ok _ _ (by omega) (by simpa using hql)]
        simp only [GoSem.Outcome.bind, Int.toNat_natCast, hpi, hqi, posting_Compare_agrees]
        have hp' : t.Postings.drop (i + 1) = ps.map (postingGo cur s1) := by
          have := congrArg List.tail hp
          simpa [List.tail_drop] using this
        have hq' : u.Postings.drop (i + 1) = qs.map (postingGo cur s2) := by
          have := congrArg List.tail hq
          simpa [List.tail_drop] using this
        have ihh := ih qs (i + 1) n hp' hq' (by simpa using hf)
        by_cases hc : cmpPosting p q = .eq
        · have e : ((i : Int) + 1) = ((i + 1 : Nat) : Int) := by omega
          simp only [hc, ordGo, decide_true, Bool.not_true, Bool.false_eq_true, if_false, e, ihh]
          simp only [List.zip_cons_cons, List.all_cons, hc, beq_self_eq_true, Bool.true_and, cmpPostings, Ordering.then,
            List.length_cons]
          have : i + 1 + min ps.length qs.length = i + min (ps.length + 1) (qs.length + 1) := by omega
          rw [this]
        · have : ordGo (cmpPosting p q) ≠ 0 := by simpa using hc
          simp only [this, decide_false, Bool.not_false, if_true]
          have hb : (cmpPosting p q == Ordering.eq) = false := by simpa using hc
          simp only [List.zip_cons_cons, List.all_cons, hb, Bool.false_and, Bool.false_eq_true, if_false, cmpPostings]
          cases hcp : cmpPosting p q <;> simp_all [Ordering.then]

theorem cmpPostings_all_eq : ∀ (ps qs : List Knut.Posting),
    (ps.zip qs).all (fun pq => cmpPosting pq.1 pq.2 == .eq) = true →
    ordGo (cmpPostings ps qs) = cmpOrdered (ps.length : Int) (qs.length : Int)
  | [], [], _ => by simp [cmpPostings, ordGo, cmpOrdered]
  | [], _ :: _, _ => by simp [cmpPostings, ordGo, cmpOrdered] <;> omega
  | _ :: _, [], _ => by simp [cmpPostings, ordGo, cmpOrdered] <;> omega
  | p :: ps, q :: qs, h => by
    simp only [List.zip_cons_cons, List.all_cons, Bool.and_eq_true, beq_iff_eq] at h
    have ih := cmpPostings_all_eq ps qs h.2
    simp only [cmpPostings, h.1, Ordering.then, ih, List.length_cons, cmpOrdered]
    have e1 : ((ps.length + 1 : Nat) : Int) < ((qs.length + 1 : Nat) : Int) ↔ (ps.length : Int) < (qs.length : Int) := by omega
    have e2 : ((qs.length + 1 : Nat) : Int) < ((ps.length + 1 : Nat) : Int) ↔ (qs.length : Int) < (ps.length : Int) := by omega
    simp only [e1, e2]

/-- `transaction.Compare` (date, description, postings pairwise, number of postings) is the model's `cmpTx`; the loop
never runs out of its fuel `fuelLt 0 len(t.Postings)` and never indexes out of range -/
theorem Compare_agrees (cur : String → Bool) (s1 p1 s2 p2 : Ref) (t u : Knut.Transaction) :
    transaction.Compare (txGo cur s1 p1 t) (txGo cur s2 p2 u) = GoSem.Outcome.ok (ordGo (cmpTx t u)) := by
  unfold transaction.Compare cmpTx
  simp only [txGo, compare_Time_agrees, cmpOrdered_string, ordGo_then, cmpStr]
  have z : ordGo .eq = 0 := rfl
  by_cases h1 : compare t.date u.date = .eq
  · by_cases h2 : compare t.description u.description = .eq
    · have hl := Compare_loop_agrees cur p1 p2 (txGo cur s1 p1 t) (txGo cur s2 p2 u) t.postings u.postings 0
        (fuelLt 0 (len (t.postings.map (postingGo cur p1)))) (by simp [txGo]) (by simp [txGo]) (by simp [fuelLt])
      simp only [txGo, Int.natCast_zero] at hl
      simp only [h1, h2, z, decide_true, Bool.not_true, Bool.false_eq_true, if_false, if_true, hl]
      by_cases hall : (t.postings.zip u.postings).all (fun pq => cmpPosting pq.1 pq.2 == .eq) = true
      · simp only [hall, if_true, GoSem.Outcome.bind, cmpPostings_all_eq _ _ hall, len, List.length_map]
      · simp only [hall, Bool.false_eq_true, if_false, GoSem.Outcome.bind]
    · have : ordGo (compare t.description u.description) ≠ 0 := by simpa using h2
      simp only [h1, z, this, decide_true, decide_false, Bool.not_true, Bool.not_false, Bool.false_eq_true, if_false, if_true]
  · have : ordGo (compare t.date u.date) ≠ 0 := by simpa using h1
    simp only [this, decide_false, Bool.not_false, if_true, if_false]

/-- non-vacuity: equal dates and descriptions, the second posting decides -/
example : transaction.Compare
    ⟨⟨0⟩, 5, "a \"b\"", [⟨⟨0⟩, 1, 0, accountGo ⟨["Assets", "A"]⟩, accountGo ⟨["Assets", "B"]⟩, ⟨"CHF", false⟩⟩], none⟩
    ⟨⟨0⟩, 5, "a \"b\"", [⟨⟨0⟩, 2, 0, accountGo ⟨["Assets", "A"]⟩, accountGo ⟨["Assets", "B"]⟩, ⟨"CHF", false⟩⟩], none⟩
    = GoSem.Outcome.ok (-1) := by decide +kernel
example : (transaction.Builder.Build ⟨⟨0⟩, 5, "a \"b\"", [], none⟩).Description = "a 'b'" := by decide +kernel

/-! ## `transaction.expand` (the accrual expansion) -/

/-- the Go transaction of a model transaction as `transaction.Builder.Build` leaves it: double quotes of the description replaced -/
def txGoD (cur : String → Bool) (src psrc : Ref) (t : Knut.Transaction) : transaction.Transaction :=
  txGo cur src psrc { t with description := descText t.description }

def ivName : Knut.Interval → String
  | .once => "once" | .daily => "daily" | .weekly => "weekly" | .monthly => "monthly" | .quarterly => "quarterly" | .yearly => "yearly"

theorem ParseInterval_agrees (iv : Knut.Interval) : date.ParseInterval (ivName iv) = (ivGo iv, none) := by
  cases iv <;> simp [date.ParseInterval, ivName, ivGo, date.Once, date.Daily, date.Weekly, date.Monthly, date.Quarterly, date.Yearly]

theorem itoa_succ (k : Nat) : Strings.itoa ((k : Int) + 1) = toString (k + 1) := by
  have : ((k : Int) + 1) = ((k + 1 : Nat) : Int) := by omega
  simp only [Strings.itoa, this]
  rfl

theorem itoa_nat (n : Nat) : Strings.itoa (n : Int) = toString n := rfl

theorem partDesc_eq (desc : String) (k n : Nat) :
    Accrual.partDesc desc k n = desc ++ " (accrual " ++ toString (k + 1) ++ "/" ++ toString n ++ ")" := rfl

theorem foldlE_expandLoop (t : Knut.Transaction) (a : Accrual.Addon)
    (F : List transaction.Transaction → posting.Posting → GoSem.Outcome (List transaction.Transaction))
    (g : Knut.Posting → posting.Posting) (conv : Knut.Transaction → transaction.Transaction)
    (hF : ∀ acc p, F acc (g p) = match Accrual.expandPosting t a p with
      | .ok txs => GoSem.Outcome.ok (acc ++ txs.map conv)
      | .panic s => GoSem.Outcome.panic s) :
    ∀ (ps : List Knut.Posting) (acc : List transaction.Transaction),
      foldlE F acc (ps.map g) = match Accrual.expandLoop t a ps with
        | .ok txs => GoSem.Outcome.ok (acc ++ txs.map conv)
        | .panic s => GoSem.Outcome.panic s := by
  intro ps
  induction ps with
  | nil => intro acc; simp [foldlE, Accrual.expandLoop]
  | cons p rest ih =>
    intro acc
    simp only [List.map_cons, foldlE, hF, Accrual.expandLoop]
    cases hp : Accrual.expandPosting t a p with
    | panic s => simp [GoSem.Outcome.bind]
    | ok txs =>
      simp only [GoSem.Outcome.bind, ih]
      cases hr : Accrual.expandLoop t a rest with
      | panic s => simp
      | ok more => simp

theorem foldl_ieLoop (t : Knut.Transaction) (acct : Knut.Account) (p : Knut.Posting) (n : Nat) (amount rem : Rat)
    (G : List transaction.Transaction → (Int × Nat) → List transaction.Transaction) (conv : Knut.Transaction → transaction.Transaction)
    (hG : ∀ acc dt k, G acc (dt, k) = acc ++ [conv (Accrual.rebook t dt (Accrual.partDesc t.description k n) acct p
      (if k = 0 then amount + rem else amount))]) :
    ∀ (ends : List Int) (k : Nat) (acc : List transaction.Transaction),
      List.foldl G acc (List.zipIdx ends k) = acc ++ (Accrual.ieLoop t acct p n amount rem k ends).map conv := by
  intro ends
  induction ends with
  | nil => intro k acc; simp [Accrual.ieLoop]
  | cons dt rest ih =>
    intro k acc
    simp only [List.zipIdx_cons, List.foldl_cons, hG, ih, Accrual.ieLoop, List.map_cons, List.append_assoc, List.singleton_append]

/-- the generated transaction of `expand` for one posting and one quantity -/
theorem rebook_agrees (cur : String → Bool) (src : Ref) (t : Knut.Transaction) (dt : Int) (desc : String) (acct : Knut.Account)
    (p : Knut.Posting) (q : Rat) :
    transaction.Builder.Build ⟨src, dt, desc,
      posting.Builder.Build ⟨(GoZero.zero : Ref), q, (GoZero.zero : Rat), accountGo acct, accountGo p.account, commodityGo cur p.commodity⟩,
      t.targets.map (fun tg => tg.map (commodityGo cur))⟩
    = txGoD cur src ⟨0⟩ (Accrual.rebook t dt desc acct p q) := by
  rw [Builder_Build_agrees]
  have := TransPosting.Builder_Build_agrees cur ⟨0⟩ acct p.account p.commodity q 0
  simp only [zero_rat] at this ⊢
  rw [show (GoZero.zero : Ref) = ⟨0⟩ from rfl, this]
  simp [txGoD, txGo, Accrual.rebook]

/-- `transaction.expand` (the accrual expansion), with the results of its calls into the registry and the syntax layer as
parameters: the accrual account was created (`ext1`), both dates parsed (`ext2`, `ext3`), the interval text is `ext4`.
The translated function returns what the model's `expand` computes — the same transactions in the same order (descriptions
with the double quotes replaced, as `Builder.Build` does), the same error, the same panics (`NewPartition` on the zero time,
`QuoRem` by zero) — never out of fuel, never an index out of range. -/
theorem expand_agrees (cur : String → Bool) (src psrc accr : Ref) (t : Knut.Transaction) (a : Accrual.Addon)
    (hwf : a.account.wf = true) :
    transaction.expand (txGo cur src psrc t) accr (accountGo a.account, none) (a.start, none) (a.stop, none) (ivName a.interval)
      = match Accrual.expand t a with
        | .ok txs => GoSem.Outcome.ok (txs.map (txGoD cur src ⟨0⟩), none)
        | .error => GoSem.Outcome.ok ([], some ⟨"accrual period ends before it starts"⟩)
        | .panic s => GoSem.Outcome.panic s := by
  unfold transaction.expand Accrual.expand
  simp only [hwf, Bool.not_true, Bool.false_eq_true, if_false, Option.isSome_none, Time.Before, ParseInterval_agrees]
  by_cases hlt : a.stop < a.start
  · simp [hlt]
  · simp only [hlt, decide_false, Bool.false_eq_true, if_false, zero_list]
    simp only [txGo]
    rw [foldlE_expandLoop t a _ (postingGo cur psrc) (txGoD cur src ⟨0⟩) ?hF]
    case hF =>
      intro acc p
      simp only [postingGo, IsIE_agrees]
      unfold Accrual.expandPosting
      by_cases hie : p.account.isIE = true
      · simp only [hie, Bool.not_true, Bool.false_eq_true, if_false, if_true]
        have hnp := NewPartition_agrees ⟨a.start, a.stop⟩ a.interval 0
        simp only [periodGo] at hnp
        rw [hnp]
        cases hpart : newPartition ⟨a.start, a.stop⟩ a.interval 0 with
        | panic s => simp [outcomeGo, GoSem.Outcome.bind]
        | ok part =>
          simp only [outcomeGo, GoSem.Outcome.bind, Size_agrees, EndDates_agrees, Decimal.QuoRem, Decimal.NewFromInt,
            Accrual.quoRemPlaces]
          have h1 : (1 : Int).toNat = 1 := rfl
          rw [h1]
          cases hq : Dec.quoRem p.quantity ((part.size : Int) : Rat) 1 with
          | none => simp
          | some r =>
            obtain ⟨amount, rem⟩ := r
            simp only []
            rw [foldl_ieLoop t a.account p part.size amount rem _ (txGoD cur src ⟨0⟩) ?hG]
            case hG =>
              intro acc2 dt k
              simp only [itoa_succ, itoa_nat, Decimal.Add]
              have hd : t.description ++ " (accrual " ++ toString (k + 1) ++ "/" ++ toString part.size ++ ")"
                  = Accrual.partDesc t.description k part.size := (partDesc_eq _ _ _).symm
              rw [hd]
              have hk : (decide ((k : Int) = 0)) = decide (k = 0) := by
                by_cases h0 : k = 0 <;> simp [h0]
              rw [hk]
              have := rebook_agrees cur src t dt (Accrual.partDesc t.description k part.size) a.account p
                (if k = 0 then amount + rem else amount)
              simp only [decide_eq_true_eq]
              rw [← this]
      · have hie' : p.account.isIE = false := by simpa using hie
        simp only [hie', Bool.not_false, Bool.false_eq_true, if_false, if_true, GoSem.Outcome.bind]
        have := rebook_agrees cur src t t.date t.description a.account p p.quantity
        rw [this]
        simp
    cases Accrual.expandLoop t a t.postings <;> simp [GoSem.Outcome.bind]

/-- errors of the calls into the registry and the syntax layer are passed on unchanged, in the order of the calls -/
theorem expand_account_error (tx : transaction.Transaction) (accr : Ref) (acc : account.Account) (e : GoSem.Error)
    (x2 x3 : Int × Option GoSem.Error) (iv : String) :
    transaction.expand tx accr (acc, some e) x2 x3 iv = GoSem.Outcome.ok ([], some e) := by
  simp [transaction.expand]

theorem expand_start_error (tx : transaction.Transaction) (accr : Ref) (acc : account.Account) (d : Int) (e : GoSem.Error)
    (x3 : Int × Option GoSem.Error) (iv : String) :
    transaction.expand tx accr (acc, none) (d, some e) x3 iv = GoSem.Outcome.ok ([], some e) := by
  simp [transaction.expand]

theorem expand_end_error (tx : transaction.Transaction) (accr : Ref) (acc : account.Account) (d1 d2 : Int) (e : GoSem.Error)
    (iv : String) :
    transaction.expand tx accr (acc, none) (d1, none) (d2, some e) iv = GoSem.Outcome.ok ([], some e) := by
  simp [transaction.expand]

/-- non-vacuity: 100 CHF of expenses accrued monthly over 2024-01-01 … 2024-03-31 (days 738885 … 738975): three transactions
of 33.4, 33.3, 33.3 dated at the month ends -/
example : (transaction.expand
    ⟨⟨1⟩, 738860, "rent", [⟨⟨2⟩, -100, 0, accountGo ⟨["Assets", "Bank"]⟩, accountGo ⟨["Expenses", "Rent"]⟩, ⟨"CHF", false⟩⟩,
                           ⟨⟨2⟩, 100, 0, accountGo ⟨["Expenses", "Rent"]⟩, accountGo ⟨["Assets", "Bank"]⟩, ⟨"CHF", false⟩⟩], none⟩
    ⟨0⟩ (accountGo ⟨["Assets", "Accrual"]⟩, none) (738885, none) (738975, none) "monthly").bind
      (fun r => GoSem.Outcome.ok (r.1.map (fun tx => (tx.Date, tx.Description, tx.Postings.map (·.Quantity))), r.2))
    = GoSem.Outcome.ok ([(738860, "rent", [-100, 100]),
        (738915, "rent (accrual 1/3)", [-334/10, 334/10]), (738944, "rent (accrual 2/3)", [-333/10, 333/10]),
        (738975, "rent (accrual 3/3)", [-333/10, 333/10])], none) := by decide +kernel

end Knut.FactsAgree.TransTransaction
