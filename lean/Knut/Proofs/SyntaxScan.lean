import Knut.Syntax.Parser
/-!
# What the scanner primitives consume (helper lemmas for C07/C08)

For each primitive: if it succeeds, which tokens it consumed (`Consumed s c s'`), what is known about them,
the range it returns, and where it stopped.
-/
namespace Knut.Syntax
open Knut.Utf8
set_option linter.unusedVariables false

/-- the head of the remaining input does not satisfy `p` (or the input is exhausted) -/
def StopsAt (p : Nat → Bool) (s : St) : Prop := ∀ t rest, s.toks = t :: rest → p t.r = false

theorem advanceTok_ok {off : Nat} {t : Tok} {rest : List Tok} {u : Unit} {s' : St}
    (h : advanceTok off t rest = .ok u s') : s' = ⟨off + t.bytes.length, rest⟩ := by
  have := advanceTok_st off t rest
  rw [h] at this
  exact this

theorem readWhileL_ok (p : Nat → Bool) (start off : Nat) (toks : List Tok) (r : Range) (s' : St)
    (h : readWhileL p start off toks = .ok r s') :
    ∃ c, toks = c ++ s'.toks ∧ s'.off = off + wsum c ∧ (∀ t ∈ c, p t.r = true) ∧ r = ⟨start, s'.off⟩ ∧ StopsAt p s' := by
  induction toks generalizing off with
  | nil =>
    simp only [readWhileL] at h
    injection h with h1 h2
    subst h1 h2
    exact ⟨[], by simp, by simp, by simp, rfl, by intro t rest h; simp at h⟩
  | cons t rest ih =>
    rw [readWhileL] at h
    split at h
    · rename_i hp
      split at h
      · obtain ⟨c, h1, h2, h3, h4, h5⟩ := ih _ h
        refine ⟨t :: c, by simp [h1], by simp [h2]; omega, ?_, h4, h5⟩
        intro x hx
        rcases List.mem_cons.mp hx with hx | hx
        · rw [hx]; exact hp
        · exact h3 x hx
      · cases h
    · rename_i hp
      injection h with h1 h2
      subst h1 h2
      refine ⟨[], by simp, by simp, by simp, rfl, ?_⟩
      intro t' rest' heq
      simp only [List.cons.injEq] at heq
      rw [← heq.1]
      simpa using hp

theorem readWhile_ok {p : Nat → Bool} {s : St} {r : Range} {s' : St} (h : readWhile p s = .ok r s') :
    ∃ c, Consumed s c s' ∧ (∀ t ∈ c, p t.r = true) ∧ r = ⟨s.off, s'.off⟩ ∧ StopsAt p s' := by
  obtain ⟨c, h1, h2, h3, h4, h5⟩ := readWhileL_ok p s.off s.off s.toks r s' h
  exact ⟨c, ⟨h1, h2⟩, h3, h4, h5⟩

theorem readWhile1_ok {desc : String} {p : Nat → Bool} {s : St} {r : Range} {s' : St}
    (h : readWhile1 desc p s = .ok r s') :
    ∃ c, c ≠ [] ∧ Consumed s c s' ∧ (∀ t ∈ c, p t.r = true) ∧ r = ⟨s.off, s'.off⟩ ∧ StopsAt p s' := by
  have hS := readWhile1_extS desc p s s' r h
  unfold readWhile1 at h
  split at h
  · cases h
  · split at h
    · cases h
    · obtain ⟨c, h1, h2, h3, h4, h5⟩ := readWhileL_ok p s.off s.off s.toks r s' h
      refine ⟨c, ?_, ⟨h1, h2⟩, h3, h4, h5⟩
      intro hc
      subst hc
      have := hS.length_lt
      simp only [List.nil_append] at h1
      rw [h1] at this
      omega

theorem advance_ok {s : St} {u : Unit} {s' : St} (h : advance s = .ok u s') :
    ∃ t, Consumed s [t] s' := by
  unfold advance at h
  split at h
  · cases h
  · rename_i t rest heq
    have := advanceTok_ok h
    subst this
    exact ⟨t, by simp [Consumed, heq]⟩

theorem cur_of_consumed {s : St} {t : Tok} {c : List Tok} {s' : St} (h : Consumed s (t :: c) s') : cur s = t.r := by
  unfold cur
  rw [h.1]
  rfl

theorem readCharacter_ok {r : Nat} {s : St} {x : Range} {s' : St} (h : readCharacter r s = .ok x s') :
    ∃ t, Consumed s [t] s' ∧ t.r = r ∧ x = ⟨s.off, s'.off⟩ := by
  unfold readCharacter at h
  split at h
  · cases h
  · split at h
    · cases h
    · rename_i hE hc
      split at h
      · rename_i u s1 ha
        injection h with h1 h2
        subst h2
        obtain ⟨t, ht⟩ := advance_ok ha
        refine ⟨t, ht, ?_, by rw [← h1]; rfl⟩
        have := cur_of_consumed ht
        simp only [bne_iff_ne, ne_eq, Decidable.not_not] at hc
        omega
      · cases h

theorem readCharacterWith_ok {desc : String} {p : Nat → Bool} {s : St} {x : Range} {s' : St}
    (h : readCharacterWith desc p s = .ok x s') :
    ∃ t, Consumed s [t] s' ∧ p t.r = true ∧ x = ⟨s.off, s'.off⟩ := by
  unfold readCharacterWith at h
  split at h
  · cases h
  · split at h
    · cases h
    · rename_i hE hc
      split at h
      · rename_i u s1 ha
        injection h with h1 h2
        subst h2
        obtain ⟨t, ht⟩ := advance_ok ha
        refine ⟨t, ht, ?_, by rw [← h1]; rfl⟩
        have := cur_of_consumed ht
        rw [this] at hc
        simpa using hc
      · cases h

theorem readStringL_ok (str : String) (start : Nat) (chs : List Nat) (s : St) (x : Range) (s' : St)
    (h : readStringL str start chs s = .ok x s') :
    ∃ c, Consumed s c s' ∧ c.map (·.r) = chs ∧ x = ⟨start, s'.off⟩ := by
  induction chs generalizing s with
  | nil =>
    simp only [readStringL] at h
    injection h with h1 h2
    subst h2
    exact ⟨[], by simp [Consumed], rfl, by rw [← h1]; rfl⟩
  | cons ch chs ih =>
    simp only [readStringL] at h
    split at h
    · cases h
    · rename_i hc
      split at h
      · rename_i u s1 ha
        obtain ⟨t, ht⟩ := advance_ok ha
        obtain ⟨c, hc1, hc2, hc3⟩ := ih s1 h
        refine ⟨t :: c, ?_, ?_, hc3⟩
        · obtain ⟨a1, a2⟩ := ht
          obtain ⟨b1, b2⟩ := hc1
          exact ⟨by simp [a1, b1], by simp [a2, b2]; omega⟩
        · have := cur_of_consumed ht
          simp only [bne_iff_ne, ne_eq, Decidable.not_not] at hc
          simp [hc2, hc, this]
      · cases h

theorem readString_ok {str : String} {s : St} {x : Range} {s' : St} (h : readString str s = .ok x s') :
    ∃ c, Consumed s c s' ∧ c.map (·.r) = runesOf str ∧ x = ⟨s.off, s'.off⟩ :=
  readStringL_ok str s.off (runesOf str) s x s' h

theorem readAlternative_ok' {ss : List String} {s : St} {x : Range} {t : String} {s' : St}
    (h : readAlternative ss s = .ok (x, t) s') :
    t ∈ ss ∧ ∃ c, Consumed s c s' ∧ c.map (·.r) = runesOf t ∧ x = ⟨s.off, s'.off⟩ := by
  have ⟨hm, hr⟩ := readAlternative_ok ss s x t s' h
  exact ⟨hm, readString_ok hr⟩

theorem Consumed.ext {s : St} {c : List Tok} {s' : St} (h : Consumed s c s') : Ext s s' := ⟨c, h⟩

theorem Consumed.trans {a b d : St} {c1 c2 : List Tok} (h1 : Consumed a c1 b) (h2 : Consumed b c2 d) :
    Consumed a (c1 ++ c2) d := by
  obtain ⟨a1, a2⟩ := h1
  obtain ⟨b1, b2⟩ := h2
  exact ⟨by simp [a1, b1], by simp [a2, b2]; omega⟩

theorem Consumed.refl (s : St) : Consumed s [] s := by simp [Consumed]

end Knut.Syntax
